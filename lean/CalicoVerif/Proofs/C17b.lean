import CalicoVerif.Proofs.C17a
set_option linter.unusedSimpArgs false
namespace CalicoVerif.C17

/-- The candidates `recalculateDesiredKernelRoute` considers for a destination: targets for that
CIDR whose interface is known and up, with the interface index. -/
def RT.cands (t : RT) (cidr : String) : List (Want × Nat) :=
  t.wants.filterMap (fun w =>
    if w.cidr == cidr then
      match t.n2i.get w.iface with
      | some idx => if t.i2s.get idx == some true then some (w, idx) else none
      | none => none
    else none)

theorem best_eq (t : RT) (cidr : String) : t.best cidr = (t.cands cidr).foldl pick none := rfl

/-- **class_priority_wins**: the route chosen for a destination is one of the live candidates and no
live candidate has a lower route class, or the same class and a higher interface index. -/
theorem best_spec (t : RT) (cidr : String) (r : Want × Nat) (h : t.best cidr = some r) :
    r ∈ t.cands cidr ∧ ∀ x ∈ t.cands cidr, better x r = false := by
  rw [best_eq] at h
  have := foldl_pick_spec (t.cands cidr) none (fun _ _ => trivial) r h
  refine ⟨?_, this.2.1⟩
  rcases this.1 with h0 | h0
  · simp at h0
  · exact h0

/-- ... and a destination with at least one live candidate always gets a route. -/
theorem best_isSome (t : RT) (cidr : String) (x : Want × Nat) (hx : x ∈ t.cands cidr) :
    (t.best cidr).isSome = true := by
  rw [best_eq]
  have key : ∀ (l : List (Want × Nat)) (acc : Option (Want × Nat)), (acc.isSome = true ∨ l ≠ []) →
      (l.foldl pick acc).isSome = true := by
    intro l
    induction l with
    | nil => intro acc h; rcases h with h | h; exact h; exact absurd rfl h
    | cons c cs ih =>
      intro acc _
      simp only [List.foldl]
      apply ih
      left
      cases acc with
      | none => rfl
      | some b => simp only [pick]; split <;> rfl
  exact key _ _ (Or.inr (List.ne_nil_of_mem hx))

/-! ### Frames of the two passes -/

/-- What the desired routes and ownership are read from (nothing in `Apply`'s passes changes them): the cache of
desired routes, the index-to-name map, the targets and the ownership policy. -/
def SameWants (a b : RT) : Prop :=
  a.des = b.des ∧ a.i2n = b.i2n ∧ a.wants = b.wants ∧ a.pol = b.pol

theorem desired_congr {a b : RT} (h : SameWants a b) (c : String) : a.desired c = b.desired c := by
  unfold RT.desired
  rw [h.1]

theorem owns_congr {a b : RT} (h : SameWants a b) (r : KRoute) : a.owns r = b.owns r := by
  unfold RT.owns RT.ifaceName
  rw [h.2.1, h.2.2.2]

theorem delStep_ok (acc : W × Bool) (k : String) (h : (W.delStep acc k).2 = false) :
    acc.2 = false ∧
    W.delStep acc k = ({ acc.1 with K := acc.1.K.erase k, t := { acc.1.t with dp := acc.1.t.dp.erase k } }, acc.2) := by
  unfold W.delStep at h ⊢
  by_cases hd : acc.1.f.del = true
  · simp [hd] at h
  · simp only [hd, if_false] at h ⊢
    exact ⟨h, rfl⟩

/-- Effect of the deletion pass when it reports no error: every listed key is removed from the kernel and
from the view; nothing else changes (apart from failure flags). -/
theorem delFold_ok : ∀ (L : List String) (acc : W × Bool), (L.foldl W.delStep acc).2 = false →
    acc.2 = false ∧
    (L.foldl W.delStep acc).1.K = L.foldl (fun m k => m.erase k) acc.1.K ∧
    (L.foldl W.delStep acc).1.t.dp = L.foldl (fun m k => m.erase k) acc.1.t.dp ∧
    SameWants (L.foldl W.delStep acc).1.t acc.1.t ∧ (L.foldl W.delStep acc).1.t.rescan = acc.1.t.rescan ∧
    (L.foldl W.delStep acc).1.kif = acc.1.kif ∧ (L.foldl W.delStep acc).1.t.fullResync = acc.1.t.fullResync := by
  intro L
  induction L with
  | nil => intro acc h; exact ⟨h, rfl, rfl, ⟨rfl, rfl, rfl, rfl⟩, rfl, rfl, rfl⟩
  | cons k L ih =>
    intro acc h
    simp only [List.foldl] at h ⊢
    obtain ⟨h1, h2, h3, h4, h5, h6, h7⟩ := ih (W.delStep acc k) h
    obtain ⟨ha, heq⟩ := delStep_ok acc k h1
    have e1 : (W.delStep acc k).1.K = acc.1.K.erase k := by rw [heq]
    have e2 : (W.delStep acc k).1.t.dp = acc.1.t.dp.erase k := by rw [heq]
    have e3 : SameWants (W.delStep acc k).1.t acc.1.t := by rw [heq]; exact ⟨rfl, rfl, rfl, rfl⟩
    have e4 : (W.delStep acc k).1.t.rescan = acc.1.t.rescan := by rw [heq]
    have e5 : (W.delStep acc k).1.kif = acc.1.kif := by rw [heq]
    have e6 : (W.delStep acc k).1.t.fullResync = acc.1.t.fullResync := by rw [heq]
    rw [e1] at h2; rw [e2] at h3
    exact ⟨ha, h2, h3, ⟨h4.1.trans e3.1, h4.2.1.trans e3.2.1, h4.2.2.1.trans e3.2.2.1, h4.2.2.2.trans e3.2.2.2⟩,
      h5.trans e4, h6.trans e5, h7.trans e6⟩

theorem foldl_erase_get {α : Type} : ∀ (L : List String) (m : Map α) (c : String),
    (L.foldl (fun m k => m.erase k) m).get c = if c ∈ L then none else m.get c := by
  intro L
  induction L with
  | nil => intro m c; simp
  | cons k L ih =>
    intro m c
    simp only [List.foldl, ih, Map.get_erase, List.mem_cons]
    by_cases h1 : c ∈ L
    · simp [h1]
    · by_cases h2 : c = k <;> simp [h1, h2]

theorem sAdd_ne_nil (s : List String) (x : String) : sAdd s x ≠ [] := by
  unfold sAdd; split
  · rename_i hm; intro e; rw [e] at hm; simp at hm
  · simp

theorem updStep_ok (acc : W × Bool) (k : String) (h : (W.updStep acc k).2 = false)
    (hr : (W.updStep acc k).1.t.rescan = []) :
    acc.2 = false ∧ acc.1.t.rescan = [] ∧
    ((acc.1.t.desired k = none ∧ W.updStep acc k = acc) ∨
     (∃ r, acc.1.t.desired k = some r ∧
       W.updStep acc k = ({ acc.1 with K := acc.1.K.set k r, t := { acc.1.t with dp := acc.1.t.dp.set k r } }, acc.2))) := by
  unfold W.updStep at h hr ⊢
  cases hd : acc.1.t.desired k with
  | none => rw [hd] at h hr; exact ⟨h, hr, Or.inl ⟨rfl, rfl⟩⟩
  | some r =>
    rw [hd] at h hr
    dsimp only at h hr ⊢
    by_cases hf : acc.1.f.replace = true
    · rw [if_pos hf] at h hr
      exfalso
      cases hn : acc.1.t.ifaceName r.ifindex with
      | none => rw [hn] at h; simp at h
      | some name =>
        rw [hn] at h hr
        dsimp only at h hr
        cases hk : acc.1.kif.get name with
        | none => rw [hk] at hr; exact sAdd_ne_nil _ _ hr
        | some ki =>
          rw [hk] at h hr
          dsimp only at h hr
          by_cases hu : ki.up = true
          · rw [if_pos hu] at h; simp at h
          · rw [if_neg hu] at hr; exact sAdd_ne_nil _ _ hr
    · rw [if_neg hf] at h hr ⊢
      exact ⟨h, hr, Or.inr ⟨r, rfl, rfl⟩⟩

/-- Effect of the update pass when it reports no error and queues no interface. -/
theorem updFold_ok : ∀ (L : List String) (acc : W × Bool), (L.foldl W.updStep acc).2 = false →
    (L.foldl W.updStep acc).1.t.rescan = [] →
    acc.2 = false ∧ acc.1.t.rescan = [] ∧
    (∀ c, (L.foldl W.updStep acc).1.K.get c =
      (if c ∈ L then (match acc.1.t.desired c with | some r => some r | none => acc.1.K.get c) else acc.1.K.get c)) ∧
    (∀ c, (L.foldl W.updStep acc).1.t.dp.get c =
      (if c ∈ L then (match acc.1.t.desired c with | some r => some r | none => acc.1.t.dp.get c) else acc.1.t.dp.get c)) ∧
    SameWants (L.foldl W.updStep acc).1.t acc.1.t ∧ (L.foldl W.updStep acc).1.kif = acc.1.kif ∧
    (L.foldl W.updStep acc).1.t.fullResync = acc.1.t.fullResync := by
  intro L
  induction L with
  | nil => intro acc h hr; exact ⟨h, hr, fun c => by simp, fun c => by simp, ⟨rfl, rfl, rfl, rfl⟩, rfl, rfl⟩
  | cons k L ih =>
    intro acc h hr
    simp only [List.foldl] at h hr ⊢
    obtain ⟨h1, h1r, h2, h3, h4, h5, h6⟩ := ih (W.updStep acc k) h hr
    obtain ⟨ha, har, hcase⟩ := updStep_ok acc k h1 h1r
    rcases hcase with ⟨hd, heq⟩ | ⟨r, hd, heq⟩
    · have e0 : ∀ c, (W.updStep acc k).1.t.desired c = acc.1.t.desired c := by intro c; rw [heq]
      have e1 : (W.updStep acc k).1.K = acc.1.K := by rw [heq]
      have e2 : (W.updStep acc k).1.t.dp = acc.1.t.dp := by rw [heq]
      have e3 : (W.updStep acc k).1.t = acc.1.t := by rw [heq]
      have e5 : (W.updStep acc k).1.kif = acc.1.kif := by rw [heq]
      simp only [e0, e1] at h2
      simp only [e0, e2] at h3
      rw [e3] at h4 h6
      rw [e5] at h5
      refine ⟨ha, har, ?_, ?_, h4, h5, h6⟩
      · intro c
        rw [h2 c]
        simp only [List.mem_cons]
        by_cases hc : c ∈ L
        · simp [hc]
        · by_cases hck : c = k
          · subst hck; simp [hc, hd]
          · simp [hc, hck]
      · intro c
        rw [h3 c]
        simp only [List.mem_cons]
        by_cases hc : c ∈ L
        · simp [hc]
        · by_cases hck : c = k
          · subst hck; simp [hc, hd]
          · simp [hc, hck]
    · have hsw : SameWants (W.updStep acc k).1.t acc.1.t := by rw [heq]; exact ⟨rfl, rfl, rfl, rfl⟩
      have e0 : ∀ c, (W.updStep acc k).1.t.desired c = acc.1.t.desired c := fun c => desired_congr hsw c
      have e1 : (W.updStep acc k).1.K = acc.1.K.set k r := by rw [heq]
      have e2 : (W.updStep acc k).1.t.dp = acc.1.t.dp.set k r := by rw [heq]
      have e5 : (W.updStep acc k).1.kif = acc.1.kif := by rw [heq]
      have e6 : (W.updStep acc k).1.t.fullResync = acc.1.t.fullResync := by rw [heq]
      simp only [e0, e1] at h2
      simp only [e0, e2] at h3
      refine ⟨ha, har, ?_, ?_, ⟨h4.1.trans hsw.1, h4.2.1.trans hsw.2.1, h4.2.2.1.trans hsw.2.2.1, h4.2.2.2.trans hsw.2.2.2⟩,
        h5.trans e5, h6.trans e6⟩
      · intro c
        rw [h2 c]
        simp only [List.mem_cons]
        by_cases hc : c ∈ L
        · simp only [hc, if_true, or_true]
          cases hdc : acc.1.t.desired c with
          | some r' => rfl
          | none =>
            simp only [Map.get_set]
            by_cases hck : c = k
            · subst hck; rw [hd] at hdc; simp at hdc
            · simp [hck]
        · by_cases hck : c = k
          · subst hck; simp [hc, hd, Map.get_set]
          · simp [hc, hck, Map.get_set]
      · intro c
        rw [h3 c]
        simp only [List.mem_cons]
        by_cases hc : c ∈ L
        · simp only [hc, if_true, or_true]
          cases hdc : acc.1.t.desired c with
          | some r' => rfl
          | none =>
            simp only [Map.get_set]
            by_cases hck : c = k
            · subst hck; rw [hd] at hdc; simp at hdc
            · simp [hck]
        · by_cases hck : c = k
          · subst hck; simp [hc, hd, Map.get_set]
          · simp [hc, hck, Map.get_set]

end CalicoVerif.C17
