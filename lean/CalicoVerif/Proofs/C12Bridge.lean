import CalicoVerif.Proofs.C12
import CalicoVerif.Model.C09
/-!
C12 — bridge between the two reference semantics: a10's `C09.endpointVerdict` (over
`Model/Policy.ruleMatches`, the reference the iptables/nftables chain theorems are stated
against) and the C11 reference (`C11.workloadVerdict`, the reference of the BPF program theorem
and of the app-policy checker model), on their common fragment: protocol / not-protocol criteria,
lower-case API actions, no `pass` rule in a profile, every tier with ≥ 1 enforced policy.
-/
namespace CalicoVerif.C12
open CalicoVerif.C11

/-- C11 protocol → Model/Policy protocol. -/
def trP : C11.Proto → Netfilter.Proto
  | .name s => .name s
  | .num n => .num n.toNat

/-- C11 rule (protocol-only) → Model/Policy rule. -/
def trRule (r : C11.Rule) : Policy.Rule :=
  { action := r.action, protocol := r.protocol.map trP, notProtocol := r.notProtocol.map trP }

/-- Numeric protocols are 8-bit (API validation). -/
def ProtoNumOK : Option C11.Proto → Prop
  | some (.num k) => 0 ≤ k ∧ k ≤ 255
  | _ => True

/-- Action spelled as Felix's calculation graph emits it. -/
def ActLit (a : String) : Prop := a = "allow" ∨ a = "deny" ∨ a = "pass" ∨ a = "next-tier" ∨ a = "log"

/-- A rule of the common fragment. -/
structure RuleCommon (r : C11.Rule) : Prop where
  po : ProtoOnly r
  act : ActLit r.action
  p1 : ProtoNumOK r.protocol
  p2 : ProtoNumOK r.notProtocol

/-- The kernel's protocol-name table agrees with the IANA numbers of the API names. -/
def EnvProto (env9 : Netfilter.Env) : Prop := ∀ s, env9.protoNum s = protoNumberRef (.name s)

theorem protoIs_bridge (env9 : Netfilter.Env) (he : EnvProto env9) (p : Pkt) (pr : C11.Proto)
    (hk : ProtoNumOK (some pr)) :
    Netfilter.protoIs env9 (Policy.protoTrunc (trP pr)) p.proto.toNat = C11.protoIs p pr := by
  cases pr with
  | num k =>
    obtain ⟨h0, h255⟩ := hk
    have hm : k.toNat % 256 = k.toNat := by omega
    simp only [trP, Policy.protoTrunc, Netfilter.protoIs, C11.protoIs, protoNumberRef, h0, h255, and_self, if_true, hm]
    rw [Bool.eq_iff_iff]; simp only [beq_iff_eq]
    constructor <;> intro h <;> exact h.symm
  | name s =>
    simp only [trP, Policy.protoTrunc, Netfilter.protoIs, C11.protoIs, he s]
    cases protoNumberRef (.name s) with
    | none => simp
    | some k =>
      rw [Bool.eq_iff_iff]; simp only [beq_iff_eq, Option.some.injEq]
      constructor <;> intro h <;> exact h.symm

/-- Same match decision under both references. -/
theorem ruleMatches_bridge (env9 : Netfilter.Env) (he : EnvProto env9) (sn : String → String)
    (pkt9 : Netfilter.Packet) (env : Env) (p : Pkt) (hv : pkt9.v6 = false) (hpr : pkt9.proto = p.proto.toNat)
    (r : C11.Rule) (hc : RuleCommon r) :
    Policy.ruleMatches env9 sn (trRule r) pkt9 = C11.ruleMatch env p .dest r := by
  have hpo := hc.po
  unfold ProtoOnly at hpo
  rw [hpo]
  have h1 := hc.p1
  have h2 := hc.p2
  simp only [Policy.ruleMatches, Policy.netsMatch, Policy.posNetOK, Policy.negNetOK, Policy.familyOK, Policy.restMatch,
    Policy.protoOK, Policy.portsMatch, Policy.otherMatch, Policy.icmpMatches, Policy.notIcmpMatches, trRule, hpr,
    C11.ruleMatch, C11.icmpIs]
  cases hp1 : r.protocol with
  | none =>
    cases hp2 : r.notProtocol with
    | none => simp
    | some b => rw [hp2] at h2; simp [protoIs_bridge env9 he p b h2]
  | some a =>
    rw [hp1] at h1
    cases hp2 : r.notProtocol with
    | none => simp [protoIs_bridge env9 he p a h1]
    | some b => rw [hp2] at h2; simp [protoIs_bridge env9 he p a h1, protoIs_bridge env9 he p b h2]

def toOut : Dec → C09.PolOutcome
  | .allow => .allow | .deny => .deny | .pass => .pass | .noMatch => .noMatch

theorem policyOutcome_bridge (env9 : Netfilter.Env) (he : EnvProto env9) (pkt9 : Netfilter.Packet) (env : Env) (p : Pkt)
    (hv : pkt9.v6 = false) (hpr : pkt9.proto = p.proto.toNat) :
    ∀ rs : List C11.Rule, (∀ r ∈ rs, RuleCommon r) →
      C09.policyOutcome env9 false pkt9 (rs.map trRule) = toOut (evalRules env p .dest rs) := by
  intro rs
  induction rs with
  | nil => intro _; rfl
  | cons r rs ih =>
    intro h
    have ih' := ih (fun q hq => h q (List.mem_cons_of_mem _ hq))
    have hc := h r (List.mem_cons_self)
    have hm := ruleMatches_bridge env9 he (C08.setNameFor false) pkt9 env p hv hpr r hc
    simp only [List.map_cons, C09.policyOutcome, evalRules, filterRule_protoOnly env.c.v6 r hc.po, hm]
    by_cases hx : C11.ruleMatch env p .dest r = true
    · simp only [hx, if_true]
      have hact : (trRule r).action = r.action := rfl
      rw [hact]
      rcases hc.act with h | h | h | h | h <;> rw [h] <;> simp [Policy.parseAction, actOf, asciiLower, toOut, ih'] <;> decide
    · simp only [hx, Bool.false_eq_true, if_false]; exact ih'

/-- Per-policy outcomes of a tier / of the profiles, under the Model/Policy reference. -/
def outs9 (env9 : Netfilter.Env) (pkt9 : Netfilter.Packet) (ps : List Policy) : List C09.PolOutcome :=
  ps.map (fun pol => C09.policyOutcome env9 false pkt9 (pol.rules.map trRule))

def PoliciesCommon (ps : List Policy) : Prop := ∀ pol ∈ ps, ∀ r ∈ pol.rules, RuleCommon r

theorem find_bridge (env9 : Netfilter.Env) (he : EnvProto env9) (pkt9 : Netfilter.Packet) (env : Env) (p : Pkt)
    (hv : pkt9.v6 = false) (hpr : pkt9.proto = p.proto.toNat) :
    ∀ ps : List Policy, PoliciesCommon ps →
      (outs9 env9 pkt9 ps).find? (· ≠ .noMatch) =
        (match evalPolicies env p .dest ps with
         | .noMatch => none
         | d => some (toOut d)) := by
  intro ps
  induction ps with
  | nil => intro _; rfl
  | cons pol ps ih =>
    intro h
    have ih' := ih (fun q hq => h q (List.mem_cons_of_mem _ hq))
    have h1 := policyOutcome_bridge env9 he pkt9 env p hv hpr pol.rules (h pol (List.mem_cons_self))
    simp only [outs9, List.map_cons, List.find?_cons, h1, evalPolicies]
    simp only [outs9] at ih'
    cases evalRules env p .dest pol.rules with
    | noMatch => simpa [toOut, -List.find?_map] using ih'
    | allow => simp [toOut]
    | deny => simp [toOut]
    | pass => simp [toOut]

/-- One tier: `C09.tierResult` = the C11 reference's tier step. -/
theorem tierResult_bridge (env9 : Netfilter.Env) (he : EnvProto env9) (pkt9 : Netfilter.Packet) (env : Env) (p : Pkt)
    (hv : pkt9.v6 = false) (hpr : pkt9.proto = p.proto.toNat) (t : Tier) (hne : t.policies ≠ [])
    (hc : PoliciesCommon t.policies) :
    C09.tierResult (outs9 env9 pkt9 t.policies) (t.endAction == .pass) =
      (match evalPolicies env p .dest t.policies with
       | .allow => .allow
       | .deny => .deny
       | .pass => .nextTier
       | .noMatch => if t.endAction == .pass then .nextTier else .deny) := by
  have hf := find_bridge env9 he pkt9 env p hv hpr t.policies hc
  have hemp : (outs9 env9 pkt9 t.policies).isEmpty = false := by
    cases hq : t.policies with
    | nil => exact absurd hq hne
    | cons _ _ => simp [outs9]
  unfold C09.tierResult
  rw [hf]
  cases evalPolicies env p .dest t.policies <;> simp [toOut, hemp]

def TiersCommon (ts : List Tier) : Prop := ∀ t ∈ ts, t.policies ≠ [] ∧ PoliciesCommon t.policies

/-- Profiles of the common fragment: no pass / next-tier rule. -/
def ProfilesCommon (ps : List Policy) : Prop :=
  PoliciesCommon ps ∧ ∀ pol ∈ ps, ∀ r ∈ pol.rules, actOf r.action ≠ .pass

def toV9 : Verdict → C09.Verdict
  | .allow => .allow
  | _ => .deny

theorem profilesVerdict_bridge (env9 : Netfilter.Env) (he : EnvProto env9) (pkt9 : Netfilter.Packet) (env : Env) (p : Pkt)
    (hv : pkt9.v6 = false) (hpr : pkt9.proto = p.proto.toNat) :
    ∀ ps : List Policy, ProfilesCommon ps →
      C09.profilesVerdict (outs9 env9 pkt9 ps) =
        toV9 (match evalProfiles true env p ps with | .allow => Verdict.allow | _ => .deny) := by
  intro ps
  induction ps with
  | nil => intro _; rfl
  | cons pr ps ih =>
    intro h
    have ih' := ih ⟨fun q hq => h.1 q (List.mem_cons_of_mem _ hq), fun q hq => h.2 q (List.mem_cons_of_mem _ hq)⟩
    have h1 := policyOutcome_bridge env9 he pkt9 env p hv hpr pr.rules (h.1 pr (List.mem_cons_self))
    have hnp : evalRules env p .dest pr.rules ≠ .pass := by
      have : ∀ rs : List C11.Rule, (∀ r ∈ rs, actOf r.action ≠ .pass) → evalRules env p .dest rs ≠ .pass := by
        intro rs
        induction rs with
        | nil => intro _; simp [evalRules]
        | cons r rs ihr =>
          intro hh
          have ihr' := ihr (fun q hq => hh q (List.mem_cons_of_mem _ hq))
          have hr := hh r (List.mem_cons_self)
          simp only [evalRules]
          cases filterRule env.c.v6 r with
          | none => exact ihr'
          | some fr =>
            simp only
            by_cases hm : C11.ruleMatch env p .dest fr = true
            · simp only [hm, if_true]; cases ha : actOf r.action <;> simp_all
            · simp only [hm, Bool.false_eq_true, if_false]; exact ihr'
      exact this pr.rules (h.2 pr (List.mem_cons_self))
    simp only [outs9, List.map_cons, h1, evalProfiles]
    simp only [outs9] at ih'
    cases he2 : evalRules env p .dest pr.rules <;> simp_all [toOut, C09.profilesVerdict, toV9]

/-- **The two references agree on the common fragment**: `C09.endpointVerdict` (fed with the
Model/Policy outcomes of the translated rules) = the C11 reference workload verdict. -/
theorem endpointVerdict_bridge (env9 : Netfilter.Env) (he : EnvProto env9) (pkt9 : Netfilter.Packet) (env : Env) (p : Pkt)
    (hv : pkt9.v6 = false) (hpr : pkt9.proto = p.proto.toNat) (profiles : List Policy) (hprof : ProfilesCommon profiles) :
    ∀ ts : List Tier, TiersCommon ts →
      C09.endpointVerdict (ts.map (fun t => (outs9 env9 pkt9 t.policies, t.endAction == .pass))) (outs9 env9 pkt9 profiles) =
        toV9 (match evalTiers env p .dest ts with
          | .allow => Verdict.allow
          | .deny => .deny
          | _ => (match evalProfiles true env p profiles with | .allow => .allow | _ => .deny)) := by
  intro ts
  induction ts with
  | nil =>
    intro _
    simp only [List.map_nil, C09.endpointVerdict, evalTiers]
    exact profilesVerdict_bridge env9 he pkt9 env p hv hpr profiles hprof
  | cons t ts ih =>
    intro h
    have ih' := ih (fun q hq => h q (List.mem_cons_of_mem _ hq))
    obtain ⟨hne, hc⟩ := h t (List.mem_cons_self)
    have ht := tierResult_bridge env9 he pkt9 env p hv hpr t hne hc
    simp only [List.map_cons, C09.endpointVerdict, ht, evalTiers]
    cases evalPolicies env p .dest t.policies with
    | allow => rfl
    | deny => rfl
    | pass => exact ih'
    | noMatch =>
      cases hea : t.endAction <;> simp [toV9] <;> first | exact ih' | rfl

end CalicoVerif.C12
