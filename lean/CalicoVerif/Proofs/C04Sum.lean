import CalicoVerif.Proofs.C04
/-! C04: the reference-count layer — exact effect of every index operation on the refcount
maps, and the invariant `refcount = number of contributions of the endpoints that cache the set`. -/
namespace CalicoVerif.C04

set_option linter.unusedSectionVars false
set_option linter.unusedVariables false

section Eff
variable {Sel : Type} [DecidableEq Sel]

/-- configuration of an IP set (everything but the refcount map) -/
def cfgOf (d : IpSetData Sel) : Sel × Nat × String := (d.sel, d.proto, d.port)

def cfgAt (st : Idx Sel) (s : String) : Option (Sel × Nat × String) := (alGet s st.ipsets).map cfgOf

/-- nothing but refcount maps, tries and the callback log changed -/
structure Eff (st st' : Idx Sel) : Prop where
  eps : st'.eps = st.eps
  parents : st'.parents = st.parents
  suppress : st'.suppress = st.suppress
  keys : st'.ipsets.map (·.1) = st.ipsets.map (·.1)
  cfg : ∀ s, cfgAt st' s = cfgAt st s
  panicked : st'.panicked = st.panicked
  underflow : st'.underflow = st.underflow

theorem Eff.refl (st : Idx Sel) : Eff st st := ⟨rfl, rfl, rfl, rfl, fun _ => rfl, rfl, rfl⟩

theorem Eff.trans {a b c : Idx Sel} (h1 : Eff a b) (h2 : Eff b c) : Eff a c :=
  ⟨h2.eps.trans h1.eps, h2.parents.trans h1.parents, h2.suppress.trans h1.suppress, h2.keys.trans h1.keys,
   fun s => (h2.cfg s).trans (h1.cfg s), h2.panicked.trans h1.panicked, h2.underflow.trans h1.underflow⟩

theorem Eff.bad {a b : Idx Sel} (h : Eff a b) : bad b = bad a := by
  unfold C04.bad; rw [h.panicked, h.underflow]

theorem present_iff_cfg (st : Idx Sel) (s : String) : (alGet s st.ipsets).isSome = (cfgAt st s).isSome := by
  unfold cfgAt; cases alGet s st.ipsets <;> rfl

theorem Eff.present {a b : Idx Sel} (h : Eff a b) (s : String) :
    (alGet s b.ipsets).isSome = (alGet s a.ipsets).isSome := by
  rw [present_iff_cfg, present_iff_cfg, h.cfg]

theorem cfgAt_alMod {st st' : Idx Sel} {s : String} {f : IpSetData Sel → IpSetData Sel}
    (h : st'.ipsets = alMod s f st.ipsets) (hf : ∀ d, cfgOf (f d) = cfgOf d) (s' : String) :
    cfgAt st' s' = cfgAt st s' := by
  unfold cfgAt
  rw [h, alGet_alMod]
  by_cases hs : s' = s
  · subst hs
    cases alGet s' st.ipsets with
    | none => simp
    | some d => simp [hf]
  · simp [hs]

theorem incref_ipsets {st : Idx Sel} {s : String} {d : IpSetData Sel} (m : Member)
    (h : alGet s st.ipsets = some d) :
    (incref s m st).ipsets =
      alMod s (fun d' => { d' with refc := alSet m (refOf d m + 1) d'.refc }) st.ipsets := by
  unfold incref; simp only [h]
  by_cases h0 : refOf d m = 0
  · simp only [h0, if_true, (onMemberAdded_frame s m st).2.2.1]
  · simp only [h0, if_false]

theorem incref_eff {st : Idx Sel} {s : String} (m : Member) (hp : (alGet s st.ipsets).isSome = true) :
    Eff st (incref s m st) ∧
    ∀ s' m', refCount (incref s m st) s' m' = refCount st s' m' + (if s' = s ∧ m' = m then 1 else 0) := by
  obtain ⟨d, h⟩ := Option.isSome_iff_exists.1 hp
  have hips := incref_ipsets m h
  have hfr := incref_frame s m st
  have hflags : (incref s m st).panicked = st.panicked ∧ (incref s m st).underflow = st.underflow := by
    unfold incref; simp only [h]
    obtain ⟨_, _, _, _, f5, f6⟩ := onMemberAdded_frame s m st
    by_cases h0 : refOf d m = 0
    · simp only [h0, if_true]; exact ⟨f5, f6⟩
    · simp only [h0, if_false]; exact ⟨trivial, trivial⟩
  refine ⟨⟨hfr.eps, hfr.parents, hfr.suppress, hfr.keys, cfgAt_alMod hips (fun _ => rfl), hflags.1, hflags.2⟩, ?_⟩
  intro s' m'
  rw [refCount_alMod h hips, refOf_set]
  by_cases hs : s' = s
  · subst hs
    by_cases hm : m' = m
    · subst hm; simp [refCount_eq h]
    · simp [hm, refCount_eq h]
  · simp [hs]

theorem decref_ipsets {st : Idx Sel} {s : String} {d : IpSetData Sel} (m : Member)
    (h : alGet s st.ipsets = some d) (h0 : refOf d m ≠ 0) :
    (decref s m st).ipsets =
      alMod s (fun d' => { d' with refc :=
        (if (refOf d m - 1 = 0) then alErase m d'.refc else alSet m (refOf d m - 1) d'.refc) }) st.ipsets := by
  unfold decref; simp only [h, h0, if_false]
  by_cases h1 : refOf d m - 1 = 0
  · simp only [h1, if_true, (onMemberRemoved_frame s m st).2.2.1]
  · simp only [h1, if_false]

theorem decref_eff {st : Idx Sel} {s : String} (m : Member) (hpos : 0 < refCount st s m) :
    Eff st (decref s m st) ∧
    ∀ s' m', refCount (decref s m st) s' m' = refCount st s' m' - (if s' = s ∧ m' = m then 1 else 0) := by
  have hp : ∃ d, alGet s st.ipsets = some d := by
    unfold refCount at hpos
    cases h : alGet s st.ipsets with
    | none => rw [h] at hpos; cases hpos
    | some d => exact ⟨d, rfl⟩
  obtain ⟨d, h⟩ := hp
  have h0 : refOf d m ≠ 0 := by rw [refCount_eq h] at hpos; omega
  have hips := decref_ipsets m h h0
  have hfr := decref_frame s m st
  have hflags : (decref s m st).panicked = st.panicked ∧ (decref s m st).underflow = st.underflow := by
    unfold decref; simp only [h, h0, if_false]
    obtain ⟨_, _, _, _, f5, f6⟩ := onMemberRemoved_frame s m st
    by_cases h1 : refOf d m - 1 = 0
    · simp only [h1, if_true]; exact ⟨f5, f6⟩
    · simp only [h1, if_false]; exact ⟨trivial, trivial⟩
  refine ⟨⟨hfr.eps, hfr.parents, hfr.suppress, hfr.keys,
    cfgAt_alMod hips (fun _ => rfl), hflags.1, hflags.2⟩, ?_⟩
  intro s' m'
  rw [refCount_alMod h hips]
  by_cases hs : s' = s
  · subst hs
    simp only [if_true, true_and]
    by_cases h1 : refOf d m - 1 = 0
    · simp only [h1, if_true, refOf_erase]
      by_cases hm : m' = m
      · subst hm; simp [refCount_eq h]; omega
      · simp [hm, refCount_eq h]
    · simp only [h1, if_false, refOf_set]
      by_cases hm : m' = m
      · subst hm; simp [refCount_eq h]
      · simp [hm, refCount_eq h]
  · simp [hs]

theorem increfAll_eff {s : String} (ms : List Member) {st : Idx Sel}
    (hp : (alGet s st.ipsets).isSome = true) :
    Eff st (increfAll s ms st) ∧
    ∀ s' m', refCount (increfAll s ms st) s' m' = refCount st s' m' + (if s' = s then ms.count m' else 0) := by
  unfold increfAll
  induction ms generalizing st with
  | nil => exact ⟨Eff.refl st, fun s' m' => by simp⟩
  | cons m ms ih =>
    rw [List.foldl_cons]
    obtain ⟨e1, r1⟩ := incref_eff m hp
    obtain ⟨e2, r2⟩ := ih (st := incref s m st) (by rw [e1.present]; exact hp)
    refine ⟨e1.trans e2, fun s' m' => ?_⟩
    rw [r2, r1, List.count_cons]
    by_cases hs : s' = s
    · subst hs
      by_cases hm : m' = m
      · subst hm; simp; omega
      · have : (m == m') = false := by simp; exact fun e => hm e.symm
        simp [hm, this]
    · simp [hs]

theorem decrefAll_eff {s : String} (ms : List Member) {st : Idx Sel}
    (hg : ∀ m', ms.count m' ≤ refCount st s m') :
    Eff st (decrefAll s ms st) ∧
    ∀ s' m', refCount (decrefAll s ms st) s' m' = refCount st s' m' - (if s' = s then ms.count m' else 0) := by
  unfold decrefAll
  induction ms generalizing st with
  | nil => exact ⟨Eff.refl st, fun s' m' => by simp⟩
  | cons m ms ih =>
    rw [List.foldl_cons]
    have hpos : 0 < refCount st s m := by
      have := hg m; rw [List.count_cons] at this; simp at this; omega
    obtain ⟨e1, r1⟩ := decref_eff m hpos
    have hg' : ∀ m', ms.count m' ≤ refCount (decref s m st) s m' := by
      intro m'
      rw [r1]
      have := hg m'
      rw [List.count_cons] at this
      by_cases hm : m' = m
      · subst hm; simp at this ⊢; omega
      · have hb : (m == m') = false := by simp; exact fun e => hm e.symm
        simp [hm, hb] at this ⊢; exact this
    obtain ⟨e2, r2⟩ := ih (st := decref s m st) hg'
    refine ⟨e1.trans e2, fun s' m' => ?_⟩
    rw [r2, r1, List.count_cons]
    by_cases hs : s' = s
    · subst hs
      by_cases hm : m' = m
      · subst hm; simp; omega
      · have hb : (m == m') = false := by simp; exact fun e => hm e.symm
        simp [hm, hb]
    · simp [hs]

/-- amount `decrefOld old` takes off `(s, m)` -/
def oldCount (old : List (String × List Member)) (s : String) (m : Member) : Nat :=
  match alGet s old with
  | some ms => ms.count m
  | none => 0

theorem decrefOld_eff (old : List (String × List Member)) {st : Idx Sel}
    (nd : (old.map (·.1)).Nodup)
    (hg : ∀ p ∈ old, ∀ m', p.2.count m' ≤ refCount st p.1 m') :
    Eff st (decrefOld old st) ∧
    ∀ s' m', refCount (decrefOld old st) s' m' = refCount st s' m' - oldCount old s' m' := by
  unfold decrefOld
  induction old generalizing st with
  | nil => exact ⟨Eff.refl st, fun s' m' => by simp [oldCount]⟩
  | cons p old ih =>
    obtain ⟨s, ms⟩ := p
    rw [List.foldl_cons]
    simp only [List.map_cons, List.nodup_cons] at nd
    obtain ⟨e1, r1⟩ := decrefAll_eff (s := s) ms (st := st) (hg (s, ms) (List.mem_cons_self ..))
    have hg' : ∀ p ∈ old, ∀ m', p.2.count m' ≤ refCount (decrefAll s ms st) p.1 m' := by
      intro p hp m'
      rw [r1]
      have hne : p.1 ≠ s := by
        rintro rfl
        exact nd.1 (List.mem_map.2 ⟨p, hp, rfl⟩)
      simp only [hne, if_false, Nat.sub_zero]
      exact hg p (List.mem_cons_of_mem _ hp) m'
    obtain ⟨e2, r2⟩ := ih (st := decrefAll s ms st) nd.2 hg'
    refine ⟨e1.trans e2, fun s' m' => ?_⟩
    rw [r2, r1]
    unfold oldCount
    rw [alGet_cons]
    by_cases hs : s' = s
    · subst hs
      have : alGet s' old = none := by
        cases h : alGet s' old with
        | none => rfl
        | some v => exact absurd (List.mem_map.2 ⟨_, alGet_some_mem h, rfl⟩) nd.1
      simp [this]
    · have : ¬ s = s' := fun e => hs e.symm
      simp [hs, this]

end Eff

section Scan
variable {Sel : Type} [DecidableEq Sel] (matchSel : Sel → Labels → Bool)

/-- the endpoint's contribution to set `s` (`[]` if the set does not exist) -/
def contribAt (st : Idx Sel) (e : EpData) (s : String) : List Member :=
  match alGet s st.ipsets with
  | some d => contrib e d
  | none => []

/-- does set `s` exist and does its selector match the endpoint's effective labels -/
def matchAt (st : Idx Sel) (e : EpData) (s : String) : Bool :=
  match alGet s st.ipsets with
  | some d => matchSel d.sel (effLabels st e)
  | none => false

theorem contrib_congr {e e' : EpData} {d d' : IpSetData Sel} (h1 : d'.proto = d.proto) (h2 : d'.port = d.port)
    (h3 : e'.nets = e.nets) (h4 : e'.ports = e.ports) : contrib e' d' = contrib e d := by
  unfold contrib lookupNamedPorts
  rw [h1, h2, h3, h4]

theorem effLabels_congr {st st' : Idx Sel} {e e' : EpData} (hp : st'.parents = st.parents)
    (h1 : e'.labels = e.labels) (h2 : e'.parents = e.parents) : effLabels st' e' = effLabels st e := by
  unfold effLabels parentLabels
  rw [hp, h1, h2]

theorem cfgAt_cases {st st' : Idx Sel} {s : String} (h : cfgAt st' s = cfgAt st s) :
    (alGet s st'.ipsets = none ∧ alGet s st.ipsets = none) ∨
    ∃ d d', alGet s st'.ipsets = some d' ∧ alGet s st.ipsets = some d ∧ cfgOf d' = cfgOf d := by
  unfold cfgAt at h
  cases h1 : alGet s st'.ipsets with
  | none =>
    cases h2 : alGet s st.ipsets with
    | none => exact Or.inl ⟨rfl, rfl⟩
    | some d => rw [h1, h2] at h; cases h
  | some d' =>
    cases h2 : alGet s st.ipsets with
    | none => rw [h1, h2] at h; cases h
    | some d =>
      rw [h1, h2] at h
      simp only [Option.map_some, Option.some.injEq] at h
      exact Or.inr ⟨d, d', rfl, rfl, h⟩

theorem contribAt_congr {st st' : Idx Sel} {e e' : EpData} {s : String} (h : cfgAt st' s = cfgAt st s)
    (h3 : e'.nets = e.nets) (h4 : e'.ports = e.ports) : contribAt st' e' s = contribAt st e s := by
  unfold contribAt
  rcases cfgAt_cases h with ⟨h1, h2⟩ | ⟨d, d', h1, h2, hc⟩
  · rw [h1, h2]
  · rw [h1, h2]
    simp only [cfgOf, Prod.mk.injEq] at hc
    exact contrib_congr hc.2.1 hc.2.2 h3 h4

theorem matchAt_congr {st st' : Idx Sel} {e e' : EpData} {s : String} (h : cfgAt st' s = cfgAt st s)
    (hp : st'.parents = st.parents) (h1 : e'.labels = e.labels) (h2 : e'.parents = e.parents) :
    matchAt matchSel st' e' s = matchAt matchSel st e s := by
  unfold matchAt
  rcases cfgAt_cases h with ⟨h1', h2'⟩ | ⟨d, d', h1', h2', hc⟩
  · rw [h1', h2']
  · rw [h1', h2']
    simp only [cfgOf, Prod.mk.injEq] at hc
    simp only
    rw [hc.1, effLabels_congr hp h1 h2]

theorem matchAt_present {st : Idx Sel} {e : EpData} {s : String} (h : matchAt matchSel st e s = true) :
    (alGet s st.ipsets).isSome = true := by
  unfold matchAt at h
  cases h' : alGet s st.ipsets with
  | none => rw [h'] at h; cases h
  | some d => rfl

theorem mem_setAdd {α : Type} [DecidableEq α] {a b : α} {l : List α} : b ∈ setAdd a l ↔ b = a ∨ b ∈ l := by
  unfold setAdd
  by_cases h : a ∈ l
  · simp only [h, if_true]
    constructor
    · exact Or.inr
    · rintro (rfl | h'); exact h; exact h'
  · simp [h]

theorem setAdd_nodup {α : Type} [DecidableEq α] {a : α} {l : List α} (h : l.Nodup) : (setAdd a l).Nodup := by
  unfold setAdd
  by_cases h' : a ∈ l
  · simp [h', h]
  · simp [h', h]

/-- exact effect of one iteration of the first loop of `scanEndpointAgainstIPSets` -/
theorem scanOne_spec (k : String) (st : Idx Sel) (e : EpData) (hp : (alGet k st.ipsets).isSome = true) :
    Eff st (scanOne matchSel k (st, e)).1 ∧
    (scanOne matchSel k (st, e)).2.labels = e.labels ∧ (scanOne matchSel k (st, e)).2.nets = e.nets ∧
    (scanOne matchSel k (st, e)).2.ports = e.ports ∧ (scanOne matchSel k (st, e)).2.parents = e.parents ∧
    (∀ s, s ∈ (scanOne matchSel k (st, e)).2.cached ↔
      s ∈ e.cached ∨ (s = k ∧ matchAt matchSel st e k = true)) ∧
    (e.cached.Nodup → (scanOne matchSel k (st, e)).2.cached.Nodup) ∧
    ∀ s' m', refCount (scanOne matchSel k (st, e)).1 s' m' = refCount st s' m' +
      (if s' = k ∧ matchAt matchSel st e k = true then (contribAt st e k).count m' else 0) := by
  obtain ⟨d, h⟩ := Option.isSome_iff_exists.1 hp
  have hM : matchAt matchSel st e k = matchSel d.sel (effLabels st e) := by unfold matchAt; rw [h]
  have hC : contribAt st e k = contrib e d := by unfold contribAt; rw [h]
  unfold scanOne
  simp only [h]
  by_cases hm : matchSel d.sel (effLabels st e) = true
  · simp only [hm, if_true]
    obtain ⟨e1, r1⟩ := increfAll_eff (s := k) (contrib { e with cached := setAdd k e.cached } d) (st := st) hp
    refine ⟨e1, (by first | rfl | trivial), (by first | rfl | trivial), (by first | rfl | trivial), (by first | rfl | trivial), ?_, ?_, ?_⟩
    · intro s
      simp only [mem_setAdd, hM, hm, and_true]
      constructor
      · rintro (h' | h'); exact Or.inr h'; exact Or.inl h'
      · rintro (h' | h'); exact Or.inr h'; exact Or.inl h'
    · exact fun nd => setAdd_nodup nd
    · intro s' m'
      rw [r1, hM, hm, hC]
      have : contrib { e with cached := setAdd k e.cached } d = contrib e d := contrib_congr rfl rfl rfl rfl
      rw [this]
      by_cases hs : s' = k <;> simp [hs]
  · simp only [hm, if_false]
    refine ⟨Eff.refl st, (by first | rfl | trivial), (by first | rfl | trivial), (by first | rfl | trivial), (by first | rfl | trivial), ?_, id, ?_⟩
    · intro s; rw [hM]; simp [hm]
    · intro s' m'; rw [hM]; simp [hm]

/-- exact effect of the whole first loop -/
theorem scanFold_spec (ks : List String) (st : Idx Sel) (e : EpData) (nd : ks.Nodup)
    (hp : ∀ s ∈ ks, (alGet s st.ipsets).isSome = true) :
    Eff st (ks.foldl (fun p s => scanOne matchSel s p) (st, e)).1 ∧
    (ks.foldl (fun p s => scanOne matchSel s p) (st, e)).2.labels = e.labels ∧
    (ks.foldl (fun p s => scanOne matchSel s p) (st, e)).2.nets = e.nets ∧
    (ks.foldl (fun p s => scanOne matchSel s p) (st, e)).2.ports = e.ports ∧
    (ks.foldl (fun p s => scanOne matchSel s p) (st, e)).2.parents = e.parents ∧
    (∀ s, s ∈ (ks.foldl (fun p s => scanOne matchSel s p) (st, e)).2.cached ↔
      s ∈ e.cached ∨ (s ∈ ks ∧ matchAt matchSel st e s = true)) ∧
    (e.cached.Nodup → (ks.foldl (fun p s => scanOne matchSel s p) (st, e)).2.cached.Nodup) ∧
    ∀ s' m', refCount (ks.foldl (fun p s => scanOne matchSel s p) (st, e)).1 s' m' = refCount st s' m' +
      (if s' ∈ ks ∧ matchAt matchSel st e s' = true then (contribAt st e s').count m' else 0) := by
  induction ks generalizing st e with
  | nil =>
    refine ⟨Eff.refl st, rfl, rfl, rfl, rfl, fun s => by simp, id, fun s' m' => by simp⟩
  | cons k ks ih =>
    rw [List.foldl_cons]
    obtain ⟨hk, nd'⟩ := List.nodup_cons.1 nd
    obtain ⟨e1, l1, n1, p1, q1, c1, d1, r1⟩ :=
      scanOne_spec matchSel k st e (hp k (List.mem_cons_self ..))
    have hp' : ∀ s ∈ ks, (alGet s (scanOne matchSel k (st, e)).1.ipsets).isSome = true := by
      intro s hs; rw [e1.present]; exact hp s (List.mem_cons_of_mem _ hs)
    have hpair : scanOne matchSel k (st, e) =
        ((scanOne matchSel k (st, e)).1, (scanOne matchSel k (st, e)).2) := rfl
    rw [hpair]
    obtain ⟨e2, l2, n2, p2, q2, c2, d2, r2⟩ := ih _ (scanOne matchSel k (st, e)).2 nd' hp'
    have hMt : ∀ s, matchAt matchSel (scanOne matchSel k (st, e)).1 (scanOne matchSel k (st, e)).2 s =
        matchAt matchSel st e s := fun s => matchAt_congr matchSel (e1.cfg s) e1.parents l1 q1
    have hCt : ∀ s, contribAt (scanOne matchSel k (st, e)).1 (scanOne matchSel k (st, e)).2 s =
        contribAt st e s := fun s => contribAt_congr (e1.cfg s) n1 p1
    refine ⟨e1.trans e2, l2.trans l1, n2.trans n1, p2.trans p1, q2.trans q1, ?_, fun h => d2 (d1 h), ?_⟩
    · intro s
      rw [c2, c1, hMt]
      simp only [List.mem_cons]
      constructor
      · rintro ((h | ⟨rfl, h⟩) | ⟨h, h'⟩)
        · exact Or.inl h
        · exact Or.inr ⟨Or.inl rfl, h⟩
        · exact Or.inr ⟨Or.inr h, h'⟩
      · rintro (h | ⟨rfl | h, h'⟩)
        · exact Or.inl (Or.inl h)
        · exact Or.inl (Or.inr ⟨rfl, h'⟩)
        · exact Or.inr ⟨h, h'⟩
    · intro s' m'
      rw [r2, r1, hMt, hCt]
      simp only [List.mem_cons]
      by_cases hs : s' = k
      · subst hs
        simp only [true_and, hk, false_and, if_false, Nat.add_zero, true_or]
      · simp only [hs, false_and, if_false, Nat.add_zero, false_or]

theorem wf_of_good {st : Idx Sel} (hg : Good st) (hb : bad st = false) : WF st := by
  rcases hg with h | h
  · rw [hb] at h; cases h
  · exact h

/-- exact effect of `scanEndpointAgainstIPSets(e, old)` -/
theorem scanEp_spec (st : Idx Sel) (e : EpData) (old : List (String × List Member))
    (hw : WF st) (hb : bad st = false) (hn : ∀ c ∈ e.nets, c.canon)
    (ond : (old.map (·.1)).Nodup) (hg : ∀ p ∈ old, ∀ m', p.2.count m' ≤ refCount st p.1 m') :
    WF (scanEp matchSel e old st).1 ∧ bad (scanEp matchSel e old st).1 = false ∧
    Eff st (scanEp matchSel e old st).1 ∧
    (scanEp matchSel e old st).2.labels = e.labels ∧ (scanEp matchSel e old st).2.nets = e.nets ∧
    (scanEp matchSel e old st).2.ports = e.ports ∧ (scanEp matchSel e old st).2.parents = e.parents ∧
    (scanEp matchSel e old st).2.cached.Nodup ∧
    (∀ s, s ∈ (scanEp matchSel e old st).2.cached ↔ matchAt matchSel st e s = true) ∧
    ∀ s m, refCount (scanEp matchSel e old st).1 s m = refCount st s m +
      (if matchAt matchSel st e s = true then (contribAt st e s).count m else 0) - oldCount old s m := by
  have hgood := (scanEp_good matchSel (Or.inr hw) (e := e) (old := old) hn).1
  have hks : ∀ s ∈ st.ipsets.map (fun (q : String × IpSetData Sel) => q.1), (alGet s st.ipsets).isSome = true :=
    fun s hs => alGet_isSome_iff.2 hs
  obtain ⟨e1, l1, n1, p1, q1, c1, d1, r1⟩ :=
    scanFold_spec matchSel (st.ipsets.map (fun (q : String × IpSetData Sel) => q.1)) st { e with cached := [] } hw.sets hks
  have hMe : ∀ s, matchAt matchSel st { e with cached := [] } s = matchAt matchSel st e s :=
    fun s => matchAt_congr matchSel rfl rfl rfl rfl
  have hCe : ∀ s, contribAt st { e with cached := [] } s = contribAt st e s :=
    fun s => contribAt_congr rfl rfl rfl
  have hin : ∀ s, (s ∈ st.ipsets.map (fun (q : String × IpSetData Sel) => q.1) ∧ matchAt matchSel st e s = true) ↔ matchAt matchSel st e s = true := by
    intro s
    constructor
    · exact fun h => h.2
    · exact fun h => ⟨alGet_isSome_iff.1 (matchAt_present matchSel h), h⟩
  have hg' : ∀ p ∈ old, ∀ m', p.2.count m' ≤
      refCount ((st.ipsets.map (fun (q : String × IpSetData Sel) => q.1)).foldl (fun p s => scanOne matchSel s p) (st, { e with cached := [] })).1 p.1 m' := by
    intro p hp m'
    rw [r1]
    exact Nat.le_trans (hg p hp m') (Nat.le_add_right _ _)
  obtain ⟨e2, r2⟩ := decrefOld_eff old ond hg'
  unfold scanEp at hgood ⊢
  simp only at hgood ⊢
  have heff := e1.trans e2
  refine ⟨wf_of_good hgood (by rw [heff.bad]; exact hb), by rw [heff.bad]; exact hb, heff, l1, n1, p1, q1,
    d1 List.nodup_nil, ?_, ?_⟩
  · intro s
    rw [c1, hMe, hin]
    simp
  · intro s m
    rw [r2, r1, hMe, hCe]
    by_cases hm : matchAt matchSel st e s = true
    · simp [hm, (hin s).2 hm]
    · simp [hm]

end Scan

/-! ### sums over the endpoint table -/
section Sums

def sumBy {α : Type} (f : α → Nat) (l : List α) : Nat := (l.map f).sum

@[simp] theorem sumBy_nil {α : Type} (f : α → Nat) : sumBy f [] = 0 := rfl
@[simp] theorem sumBy_cons {α : Type} (f : α → Nat) (a : α) (l : List α) : sumBy f (a :: l) = f a + sumBy f l := by
  simp [sumBy]

theorem sumBy_congr {α : Type} {f g : α → Nat} {l : List α} (h : ∀ p ∈ l, f p = g p) : sumBy f l = sumBy g l := by
  unfold sumBy; rw [List.map_congr_left h]

theorem sumBy_perm {α : Type} (f : α → Nat) {l l' : List α} (h : l.Perm l') : sumBy f l = sumBy f l' :=
  (h.map f).sum_nat

theorem le_sumBy {α : Type} (f : α → Nat) {l : List α} {p : α} (h : p ∈ l) : f p ≤ sumBy f l := by
  induction l with
  | nil => cases h
  | cons a l ih =>
    rw [sumBy_cons]
    rcases List.mem_cons.1 h with rfl | h
    · omega
    · have := ih h; omega

theorem alErase_absent {κ β : Type} [DecidableEq κ] {k : κ} {l : List (κ × β)} (h : k ∉ l.map (·.1)) :
    alErase k l = l := by
  unfold alErase
  apply List.filter_eq_self.2
  intro p hp
  simp only [decide_eq_true_eq]
  rintro rfl
  exact h (List.mem_map.2 ⟨p, hp, rfl⟩)

theorem sumBy_split {β : Type} (f : String × β → Nat) (id : String) {l : List (String × β)}
    (nd : (l.map (·.1)).Nodup) :
    sumBy f l = (match alGet id l with | some v => f (id, v) | none => 0) + sumBy f (alErase id l) := by
  induction l with
  | nil => simp [alErase]
  | cons p l ih =>
    obtain ⟨a, b⟩ := p
    simp only [List.map_cons, List.nodup_cons] at nd
    rw [sumBy_cons, alGet_cons]
    by_cases h : a = id
    · subst h
      have : alErase a ((a, b) :: l) = l := by
        have h1 : alErase a ((a, b) :: l) = alErase a l := by simp [alErase]
        rw [h1, alErase_absent nd.1]
      simp [this]
    · have : alErase id ((a, b) :: l) = (a, b) :: alErase id l := by simp [alErase, h]
      rw [this, sumBy_cons, ih nd.2]
      simp only [h, if_false]
      omega

theorem alMod_absent {κ β : Type} [DecidableEq κ] {k : κ} {f : β → β} {l : List (κ × β)}
    (h : k ∉ l.map (·.1)) : alMod k f l = l := by
  unfold alMod
  have : ∀ p ∈ l, (if p.1 = k then (p.1, f p.2) else p) = p := by
    intro p hp
    have : p.1 ≠ k := fun e => h (List.mem_map.2 ⟨p, hp, e⟩)
    simp [this]
  rw [List.map_congr_left this]; simp

theorem perm_alMod {κ β : Type} [DecidableEq κ] {k : κ} {f : β → β} {l : List (κ × β)} {v : β}
    (nd : (l.map (·.1)).Nodup) (h : alGet k l = some v) :
    (alMod k f l).Perm ((k, f v) :: alErase k l) := by
  induction l with
  | nil => simp at h
  | cons p l ih =>
    obtain ⟨a, b⟩ := p
    simp only [List.map_cons, List.nodup_cons] at nd
    rw [alGet_cons] at h
    by_cases hk : a = k
    · subst hk
      simp only [if_true, Option.some.injEq] at h
      subst h
      have h1 : alMod a f ((a, b) :: l) = (a, f b) :: alMod a f l := by simp [alMod]
      have h2 : alErase a ((a, b) :: l) = alErase a l := by simp [alErase]
      rw [h1, h2, alMod_absent nd.1, alErase_absent nd.1]
    · simp only [hk, if_false] at h
      have h1 : alMod k f ((a, b) :: l) = (a, b) :: alMod k f l := by simp [alMod, hk]
      have h2 : alErase k ((a, b) :: l) = (a, b) :: alErase k l := by simp [alErase, hk]
      rw [h1, h2]
      exact ((ih nd.2 h).cons (a, b)).trans (List.Perm.swap _ _ _)

theorem perm_alGet_erase {κ β : Type} [DecidableEq κ] {k : κ} {l : List (κ × β)} {v : β}
    (nd : (l.map (·.1)).Nodup) (h : alGet k l = some v) : l.Perm ((k, v) :: alErase k l) := by
  have := perm_alMod (f := id) nd h
  have hid : alMod k id l = l := by
    unfold alMod
    have : ∀ p ∈ l, (if p.1 = k then (p.1, id p.2) else p) = p := by
      intro p _; by_cases hp : p.1 = k <;> simp [hp]
      obtain ⟨a, b⟩ := p
      simp only at hp
      rw [hp]
    rw [List.map_congr_left this]; simp
  rw [hid] at this
  exact this

theorem count_le_one_of_nodup {α : Type} [DecidableEq α] {l : List α} (h : l.Nodup) (a : α) : l.count a ≤ 1 := by
  induction l with
  | nil => simp
  | cons b l ih =>
    obtain ⟨h1, h2⟩ := List.nodup_cons.1 h
    rw [List.count_cons]
    by_cases hb : b = a
    · subst hb
      have : l.count b = 0 := List.count_eq_zero.2 h1
      simp [this]
    · have : (b == a) = false := by simp [hb]
      simp [this, ih h2]

end Sums

section CoreInv
variable {Sel : Type} [DecidableEq Sel] (matchSel : Sel → Labels → Bool)

/-- what endpoint `p` adds to the refcount of `(s, m)` -/
def term (st : Idx Sel) (s : String) (m : Member) (p : String × EpData) : Nat :=
  if s ∈ p.2.cached then (contribAt st p.2 s).count m else 0

/-- the label-independent part of the invariant -/
structure Core (st : Idx Sel) : Prop where
  wf : WF st
  nb : bad st = false
  epsNodup : (st.eps.map (·.1)).Nodup
  cachedNodup : ∀ p ∈ st.eps, p.2.cached.Nodup
  cachedPresent : ∀ p ∈ st.eps, ∀ s ∈ p.2.cached, (alGet s st.ipsets).isSome = true
  parentsNodup : ∀ p ∈ st.eps, p.2.parents.Nodup
  refc : ∀ s m, refCount st s m = sumBy (term st s m) st.eps

/-- endpoint data `e` caches set `s` iff it should -/
def OK (st : Idx Sel) (e : EpData) (s : String) : Prop :=
  (s ∈ e.cached → matchAt matchSel st e s = true) ∧
  (matchAt matchSel st e s = true → contribAt st e s ≠ [] → s ∈ e.cached)

/-- the label-dependent part: every endpoint's match cache is right -/
def Lab (st : Idx Sel) : Prop := ∀ p ∈ st.eps, ∀ s, OK matchSel st p.2 s

theorem term_congr {st st' : Idx Sel} {s : String} (h : cfgAt st' s = cfgAt st s) (m : Member) (p : String × EpData) :
    term st' s m p = term st s m p := by
  unfold term; rw [contribAt_congr h rfl rfl]

theorem OK_congr {st st' : Idx Sel} {e e' : EpData} {s : String} (h : cfgAt st' s = cfgAt st s)
    (hp : st'.parents = st.parents) (h1 : e'.labels = e.labels) (h2 : e'.parents = e.parents)
    (h3 : e'.nets = e.nets) (h4 : e'.ports = e.ports) (h5 : ∀ x, x ∈ e'.cached ↔ x ∈ e.cached) :
    OK matchSel st' e' s ↔ OK matchSel st e s := by
  unfold OK
  rw [matchAt_congr matchSel h hp h1 h2, contribAt_congr h h3 h4, h5]

theorem recalc_eq (o : EpData) (st : Idx Sel) :
    recalc o st = o.cached.map (fun s => (s, contribAt st o s)) := by
  unfold recalc contribAt; rfl

theorem oldCount_recalc (o : EpData) (st : Idx Sel) (nd : o.cached.Nodup) (s : String) (m : Member) :
    oldCount (recalc o st) s m = if s ∈ o.cached then (contribAt st o s).count m else 0 := by
  unfold oldCount
  rw [recalc_eq]
  have : ∀ (l : List String), l.Nodup →
      alGet s (l.map (fun s => (s, contribAt st o s))) =
      if s ∈ l then some (contribAt st o s) else none := by
    intro l
    induction l with
    | nil => intro _; simp
    | cons a l ih =>
      intro hnd
      obtain ⟨h1, h2⟩ := List.nodup_cons.1 hnd
      simp only [List.map_cons, alGet_cons, ih h2, List.mem_cons]
      by_cases ha : a = s
      · subst ha; simp
      · have : ¬ s = a := fun e => ha e.symm
        simp [ha, this]
  rw [this _ nd]
  by_cases hs : s ∈ o.cached <;> simp [hs]

theorem recalc_keys (o : EpData) (st : Idx Sel) : (recalc o st).map (·.1) = o.cached := by
  rw [recalc_eq, List.map_map]; simp [Function.comp_def]

theorem mem_recalc {o : EpData} {st : Idx Sel} {p : String × List Member} (h : p ∈ recalc o st) :
    p.1 ∈ o.cached ∧ p.2 = contribAt st o p.1 := by
  rw [recalc_eq] at h
  obtain ⟨s, hs, rfl⟩ := List.mem_map.1 h
  exact ⟨hs, rfl⟩

theorem recalcPanics_false {o : EpData} {st : Idx Sel}
    (h : ∀ s ∈ o.cached, (alGet s st.ipsets).isSome = true) : recalcPanics o st = false := by
  unfold recalcPanics
  rw [List.any_eq_false]
  intro s hs
  have := h s hs
  cases hx : alGet s st.ipsets with
  | none => rw [hx] at this; cases this
  | some d => simp

/-- states that differ only in the endpoint table -/
structure SameButEps (a b : Idx Sel) : Prop where
  ipsets : b.ipsets = a.ipsets
  tries : b.tries = a.tries
  out : b.out = a.out
  suppress : b.suppress = a.suppress
  parents : b.parents = a.parents
  panicked : b.panicked = a.panicked
  underflow : b.underflow = a.underflow

theorem SameButEps.cfg {a b : Idx Sel} (h : SameButEps a b) (s : String) : cfgAt b s = cfgAt a s := by
  unfold cfgAt; rw [h.ipsets]

theorem wf_of_sameButEps {a b : Idx Sel} (hw : WF a) (h : SameButEps a b) (hn : NetsCanon b) : WF b := by
  refine ⟨einv_congr hw.e h.suppress h.out (trieOf_congr h.tries) (fun s m => by rw [refCount_congr h.ipsets]), hn, ?_, ?_⟩
  · unfold SetsNodup; rw [h.ipsets]; exact hw.sets
  · unfold RefWF; rw [h.ipsets]; exact hw.refwf

def oldList (oldE : Option EpData) (st : Idx Sel) : List (String × List Member) :=
  match oldE with
  | some o => recalc o st
  | none => []

def oldTerm (st : Idx Sel) (s : String) (m : Member) (id : String) (oldE : Option EpData) : Nat :=
  match oldE with
  | some o => term st s m (id, o)
  | none => 0

/-- Assembly: after `scanEp e old st` (where `old` is the recalculated contribution of the
previous data `oldE` of endpoint `id`, if any) install the scanned data for `id` next to the
other endpoints `rest`. -/
theorem core_after_scan (st : Idx Sel) (id : String) (e : EpData) (oldE : Option EpData)
    (rest : List (String × EpData))
    (hw : WF st) (hb : bad st = false) (hn : ∀ c ∈ e.nets, c.canon) (hpn : e.parents.Nodup)
    (hrk : (rest.map (·.1)).Nodup) (hid : id ∉ rest.map (·.1))
    (hrest : ∀ p ∈ rest, p.2.cached.Nodup ∧ (∀ s ∈ p.2.cached, (alGet s st.ipsets).isSome = true) ∧
      p.2.parents.Nodup ∧ ∀ c ∈ p.2.nets, c.canon)
    (hold : ∀ o, oldE = some o → o.cached.Nodup)
    (hrefc : ∀ s m, refCount st s m = oldTerm st s m id oldE + sumBy (term st s m) rest)
    (st' : Idx Sel)
    (hsame : SameButEps (scanEp matchSel e (oldList oldE st) st).1 st')
    (hperm : st'.eps.Perm ((id, (scanEp matchSel e (oldList oldE st) st).2) :: rest)) :
    Core st' ∧
    (scanEp matchSel e (oldList oldE st) st).2.labels = e.labels ∧
    (scanEp matchSel e (oldList oldE st) st).2.parents = e.parents ∧
    (∀ s, cfgAt st' s = cfgAt st s) ∧ st'.parents = st.parents ∧
    (∀ s, OK matchSel st' (scanEp matchSel e (oldList oldE st) st).2 s) := by
  have ond : ((oldList oldE st).map (fun (q : String × List Member) => q.1)).Nodup := by
    cases oldE with
    | none => simp [oldList]
    | some o => simp only [oldList]; rw [recalc_keys]; exact hold o rfl
  have hg : ∀ p ∈ oldList oldE st, ∀ m', p.2.count m' ≤ refCount st p.1 m' := by
    intro p hp m'
    cases oldE with
    | none => simp [oldList] at hp
    | some o =>
      simp only [oldList] at hp
      obtain ⟨h1, h2⟩ := mem_recalc hp
      rw [hrefc, h2]
      simp only [oldTerm, term, h1, if_true]
      omega
  obtain ⟨w1, b1, eff, l1, n1, p1, q1, cnd, cmem, rc⟩ :=
    scanEp_spec matchSel st e _ hw hb hn ond hg
  generalize hr : scanEp matchSel e (oldList oldE st) st = r at *
  have hcfg : ∀ s, cfgAt st' s = cfgAt st s := fun s => (hsame.cfg s).trans (eff.cfg s)
  have hpar : st'.parents = st.parents := hsame.parents.trans eff.parents
  have hpres : ∀ s, (alGet s st'.ipsets).isSome = (alGet s st.ipsets).isSome := by
    intro s; rw [present_iff_cfg, present_iff_cfg, hcfg]
  have hmem : ∀ p, p ∈ st'.eps ↔ p = (id, r.2) ∨ p ∈ rest := by
    intro p; rw [hperm.mem_iff]; simp
  have hnets : NetsCanon st' := by
    intro p hp c hc
    rcases (hmem p).1 hp with rfl | hp
    · rw [n1] at hc; exact hn c hc
    · exact (hrest p hp).2.2.2 c hc
  refine ⟨⟨wf_of_sameButEps w1 hsame hnets, ?_, ?_, ?_, ?_, ?_, ?_⟩, l1, q1, hcfg, hpar, ?_⟩
  · unfold bad; rw [hsame.panicked, hsame.underflow]; exact b1
  · have := (hperm.map (fun (q : String × EpData) => q.1)).nodup_iff.2 (by
      simp only [List.map_cons]
      exact List.nodup_cons.2 ⟨hid, hrk⟩)
    exact this
  · intro p hp
    rcases (hmem p).1 hp with rfl | hp
    · exact cnd
    · exact (hrest p hp).1
  · intro p hp s hs
    rw [hpres]
    rcases (hmem p).1 hp with rfl | hp
    · exact matchAt_present matchSel ((cmem s).1 hs)
    · exact (hrest p hp).2.1 s hs
  · intro p hp
    rcases (hmem p).1 hp with rfl | hp
    · rw [q1]; exact hpn
    · exact (hrest p hp).2.2.1
  · intro s m
    rw [refCount_congr hsame.ipsets, rc, sumBy_perm _ hperm, sumBy_cons,
      sumBy_congr (fun p _ => term_congr (hcfg s) m p), term_congr (hcfg s), hrefc]
    have hnew : term st s m (id, r.2) =
        if matchAt matchSel st e s = true then (contribAt st e s).count m else 0 := by
      unfold term
      simp only
      rw [contribAt_congr rfl n1 p1]
      by_cases hm : matchAt matchSel st e s = true
      · simp [hm, (cmem s).2 hm]
      · have : s ∉ r.2.cached := fun h => hm ((cmem s).1 h)
        simp [hm, this]
    rw [hnew]
    cases oldE with
    | none => simp [oldCount, oldList, oldTerm]; omega
    | some o =>
      simp only [oldList, oldTerm]
      rw [oldCount_recalc o st (hold o rfl)]
      simp only [term]
      omega
  · intro s
    have hM : matchAt matchSel st' r.2 s = matchAt matchSel st e s :=
      matchAt_congr matchSel (hcfg s) hpar l1 q1
    unfold OK
    rw [hM]
    exact ⟨(cmem s).1, fun h _ => (cmem s).2 h⟩

/-- the invariant: bookkeeping + every match cache right -/
structure Inv (st : Idx Sel) : Prop where
  core : Core st
  lab : Lab matchSel st

theorem discardPanics_nodup {l : List String} (h : l.Nodup) (id : String) (st : Idx Sel) :
    discardPanics id l st = false := by
  unfold discardPanics
  rw [List.any_eq_false]
  intro p _
  have := count_le_one_of_nodup h p
  have h2 : decide (2 ≤ l.count p) = false := by simp; omega
  simp [h2]

theorem lab_transfer {st st' : Idx Sel} (h : Lab matchSel st) (hsub : ∀ p ∈ st'.eps, p ∈ st.eps)
    (hcfg : ∀ s, cfgAt st' s = cfgAt st s) (hpar : st'.parents = st.parents) : Lab matchSel st' := by
  intro p hp s
  exact (OK_congr matchSel (hcfg s) hpar rfl rfl rfl rfl (fun _ => Iff.rfl)).2 (h p (hsub p hp) s)

theorem mem_alSet {κ β : Type} [DecidableEq κ] {k : κ} {v : β} {l : List (κ × β)} {p : κ × β}
    (h : p ∈ alSet k v l) : p = (k, v) ∨ p ∈ l := by
  unfold alSet alErase at h
  rcases List.mem_cons.1 h with h | h
  · exact Or.inl h
  · exact Or.inr (List.mem_filter.1 h).1

theorem mem_alErase {κ β : Type} [DecidableEq κ] {k : κ} {l : List (κ × β)} {p : κ × β}
    (h : p ∈ alErase k l) : p ∈ l := (List.mem_filter.1 h).1

theorem alErase_idem {κ β : Type} [DecidableEq κ] (k : κ) (l : List (κ × β)) :
    alErase k (alErase k l) = alErase k l := by
  unfold alErase; rw [List.filter_filter]; simp

theorem not_mem_keys_alErase {κ β : Type} [DecidableEq κ] (k : κ) (l : List (κ × β)) :
    k ∉ (alErase k l).map (·.1) := by
  intro h
  obtain ⟨p, hp, hk⟩ := List.mem_map.1 h
  have := (List.mem_filter.1 hp).2
  simp at this
  exact this hk

/-- `UpdateEndpointOrSet` keeps the invariant. -/
theorem updateEndpointCore_inv {st : Idx Sel} (id : String) (labels : Labels) (nets : List Cidr) (ports : List Port)
    (parents : List String) (h : Inv matchSel st) (hn : ∀ c ∈ nets, c.canon) (hpn : parents.Nodup) :
    Inv matchSel (updateEndpointCore matchSel id labels nets ports parents st) := by
  have hc := h.core
  unfold updateEndpointCore
  cases hget : alGet id st.eps with
  | none =>
    simp only
    have hid : id ∉ st.eps.map (·.1) := by
      intro hm
      have := alGet_isSome_iff.2 hm
      rw [hget] at this; cases this
    have heps : (scanEp matchSel ⟨labels, nets, ports, parents, []⟩ [] st).1.eps = st.eps :=
      (scanEp_frame matchSel _ _ st).eps
    obtain ⟨c1, l1, q1, hcfg, hpar, hok⟩ := core_after_scan matchSel st id ⟨labels, nets, ports, parents, []⟩ none st.eps
      hc.wf hc.nb hn hpn hc.epsNodup hid
      (fun p hp => ⟨hc.cachedNodup p hp, hc.cachedPresent p hp, hc.parentsNodup p hp, hc.wf.nets p hp⟩)
      (fun o ho => by cases ho)
      (fun s m => by rw [hc.refc]; simp [oldTerm])
      { (scanEp matchSel ⟨labels, nets, ports, parents, []⟩ [] st).1 with
        eps := alSet id (scanEp matchSel ⟨labels, nets, ports, parents, []⟩ [] st).2
          (scanEp matchSel ⟨labels, nets, ports, parents, []⟩ [] st).1.eps }
      ⟨rfl, rfl, rfl, rfl, rfl, rfl, rfl⟩
      (by
        show (alSet id _ (scanEp matchSel ⟨labels, nets, ports, parents, []⟩ [] st).1.eps).Perm _
        rw [heps]; unfold alSet; rw [alErase_absent hid]; exact List.Perm.refl _)
    refine ⟨c1, ?_⟩
    intro p hp s
    have hp' : p ∈ alSet id (scanEp matchSel ⟨labels, nets, ports, parents, []⟩ [] st).2 st.eps := by
      have hp2 : p ∈ alSet id (scanEp matchSel ⟨labels, nets, ports, parents, []⟩ [] st).2
        (scanEp matchSel ⟨labels, nets, ports, parents, []⟩ [] st).1.eps := hp
      rw [heps] at hp2; exact hp2
    rcases mem_alSet hp' with rfl | hp'
    · exact hok s
    · exact (OK_congr matchSel (hcfg s) hpar rfl rfl rfl rfl (fun _ => Iff.rfl)).2 (h.lab p hp' s)
  | some old =>
    simp only
    split
    · exact h
    · have hmem : (id, old) ∈ st.eps := alGet_some_mem hget
      have hrp : recalcPanics old st = false := recalcPanics_false (hc.cachedPresent _ hmem)
      have hdp : ∀ st2 : Idx Sel, discardPanics id (old.parents.filter (fun p => !(parents.contains p))) st2 = false :=
        fun st2 => discardPanics_nodup ((hc.parentsNodup _ hmem).filter _) id st2
      simp only [hrp, Bool.false_eq_true, if_false, hdp]
      have hw1 : WF ({ st with eps := alErase id st.eps } : Idx Sel) :=
        wf_of_sameButEps hc.wf ⟨rfl, rfl, rfl, rfl, rfl, rfl, rfl⟩ (fun p hp => hc.wf.nets p (mem_alErase hp))
      have heps : (scanEp matchSel ⟨labels, nets, ports, parents, []⟩ (recalc old st)
          ({ st with eps := alErase id st.eps } : Idx Sel)).1.eps = alErase id st.eps :=
        (scanEp_frame matchSel _ _ _).eps
      obtain ⟨c1, l1, q1, hcfg, hpar, hok⟩ := core_after_scan matchSel ({ st with eps := alErase id st.eps } : Idx Sel)
        id ⟨labels, nets, ports, parents, []⟩ (some old) (alErase id st.eps)
        hw1 hc.nb hn hpn (keys_alErase_nodup hc.epsNodup) (not_mem_keys_alErase id st.eps)
        (fun p hp => ⟨hc.cachedNodup p (mem_alErase hp), hc.cachedPresent p (mem_alErase hp),
          hc.parentsNodup p (mem_alErase hp), hc.wf.nets p (mem_alErase hp)⟩)
        (fun o ho => by cases ho; exact hc.cachedNodup _ hmem)
        (fun s m => by
          have := hc.refc s m
          rw [sumBy_split _ id hc.epsNodup, hget] at this
          exact this)
        { (scanEp matchSel ⟨labels, nets, ports, parents, []⟩ (recalc old st)
            ({ st with eps := alErase id st.eps } : Idx Sel)).1 with
          eps := alSet id (scanEp matchSel ⟨labels, nets, ports, parents, []⟩ (recalc old st)
            ({ st with eps := alErase id st.eps } : Idx Sel)).2
            (scanEp matchSel ⟨labels, nets, ports, parents, []⟩ (recalc old st)
            ({ st with eps := alErase id st.eps } : Idx Sel)).1.eps }
        ⟨rfl, rfl, rfl, rfl, rfl, rfl, rfl⟩
        (by
          show (alSet id _ (scanEp matchSel ⟨labels, nets, ports, parents, []⟩ (recalc old st)
            ({ st with eps := alErase id st.eps } : Idx Sel)).1.eps).Perm _
          rw [heps]; unfold alSet; rw [alErase_idem]; exact List.Perm.refl _)
      refine ⟨c1, ?_⟩
      intro p hp s
      have hp' : p ∈ alSet id (scanEp matchSel ⟨labels, nets, ports, parents, []⟩ (recalc old st)
          ({ st with eps := alErase id st.eps } : Idx Sel)).2 (alErase id st.eps) := by
        have hp2 : p ∈ alSet id (scanEp matchSel ⟨labels, nets, ports, parents, []⟩ (recalc old st)
          ({ st with eps := alErase id st.eps } : Idx Sel)).2 (scanEp matchSel ⟨labels, nets, ports, parents, []⟩ (recalc old st)
          ({ st with eps := alErase id st.eps } : Idx Sel)).1.eps := hp
        rw [heps] at hp2; exact hp2
      rcases mem_alSet hp' with rfl | hp'
      · exact hok s
      · exact (OK_congr matchSel (hcfg s) hpar rfl rfl rfl rfl (fun _ => Iff.rfl)).2 (h.lab p (mem_alErase hp') s)

theorem dedupParents_nodup (l : List String) : (dedupParents l).Nodup := by
  unfold dedupParents
  have : ∀ (l acc : List String), acc.Nodup →
      (l.foldl (fun acc p => if p ∈ acc then acc else acc ++ [p]) acc).Nodup := by
    intro l
    induction l with
    | nil => intro acc h; exact h
    | cons a l ih =>
      intro acc h
      rw [List.foldl_cons]
      apply ih
      by_cases ha : a ∈ acc
      · simp only [ha, if_true]; exact h
      · simp only [ha, if_false]
        rw [List.nodup_append]
        refine ⟨h, by simp, ?_⟩
        intro x hx y hy
        simp only [List.mem_singleton] at hy
        subst hy
        rintro rfl
        exact ha hx
  exact this l [] List.nodup_nil

theorem mem_dedupParents (l : List String) (p : String) : p ∈ dedupParents l ↔ p ∈ l := by
  unfold dedupParents
  have : ∀ (l acc : List String),
      p ∈ l.foldl (fun acc p => if p ∈ acc then acc else acc ++ [p]) acc ↔ p ∈ acc ∨ p ∈ l := by
    intro l
    induction l with
    | nil => intro acc; simp
    | cons a l ih =>
      intro acc
      rw [List.foldl_cons, ih]
      by_cases ha : a ∈ acc
      · simp only [ha, if_true, List.mem_cons]
        constructor
        · rintro (h | h); exact Or.inl h; exact Or.inr (Or.inr h)
        · rintro (h | rfl | h); exact Or.inl h; exact Or.inl ha; exact Or.inr h
      · simp only [ha, if_false, List.mem_append, List.mem_cons, List.not_mem_nil, or_false, or_assoc]
  rw [this l []]; simp

/-- `UpdateEndpointOrSet` keeps the invariant, whatever the profile-id list. -/
theorem updateEndpoint_inv {st : Idx Sel} (id : String) (labels : Labels) (nets : List Cidr) (ports : List Port)
    (parents : List String) (h : Inv matchSel st) (hn : ∀ c ∈ nets, c.canon) :
    Inv matchSel (updateEndpoint matchSel id labels nets ports parents st) :=
  updateEndpointCore_inv matchSel id labels nets ports (dedupParents parents) h hn (dedupParents_nodup parents)

end CoreInv
end CalicoVerif.C04
