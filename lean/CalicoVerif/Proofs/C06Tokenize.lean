import CalicoVerif.Proofs.C06Basic
/-! C06 helper lemmas: the tokenizer on a canonical text. -/
namespace CalicoVerif.C06

/-- The tokenizer with the fuel `Tokenize` gives it. -/
def tkz (l : Bool) (s : Str) : Except Err (List Token) := tokenizeFrom (s.length + 1) l s

/-- Prepend tokens to a tokenizer result. -/
def prep (ts : List Token) : Except Err (List Token) → Except Err (List Token)
  | .error e => .error e
  | .ok toks => .ok (ts ++ toks)

@[simp] theorem prep_nil (r : Except Err (List Token)) : prep [] r = r := by cases r <;> rfl
theorem prep_prep (a b : List Token) (r : Except Err (List Token)) :
    prep a (prep b r) = prep (a ++ b) r := by cases r <;> simp [prep]
theorem prep_ok (a b : List Token) : prep a (.ok b) = .ok (a ++ b) := rfl

theorem tokenizeFrom_fuel : ∀ (f1 f2 : Nat) (l : Bool) (s : Str), s.length < f1 → s.length < f2 →
    tokenizeFrom f1 l s = tokenizeFrom f2 l s
  | 0, _, _, _, h, _ => by omega
  | _ + 1, 0, _, _, _, h => by omega
  | f1 + 1, f2 + 1, l, s, h1, h2 => by
    simp only [tokenizeFrom]
    split
    · rfl
    · split
      · rfl
      · rename_i tok rest _
        by_cases hlen : rest.length ≥ s.length
        · simp [hlen]
        · simp only [hlen, if_false]
          rw [tokenizeFrom_fuel f1 f2 tok.isLabel rest (by omega) (by omega)]

theorem trimWhitespace_pre {pre : Str} (hpre : ∀ x ∈ pre, isWs x = true) {c : Char} (hc : isWs c = false)
    (cs : Str) : trimWhitespace (pre ++ c :: cs) = c :: cs := by
  induction pre with
  | nil => simp [trimWhitespace, hc]
  | cons p ps ih =>
    simp only [List.cons_append, trimWhitespace, hpre p (List.mem_cons_self ..), if_true]
    exact ih (fun x hx => hpre x (List.mem_cons_of_mem _ hx))

/-- One iteration of the tokenizer loop. -/
theorem tkz_step {pre : Str} (hpre : ∀ x ∈ pre, isWs x = true) {c : Char} (hc : isWs c = false)
    {l : Bool} {cs rest : Str} {tok : Token}
    (h2 : nextToken l c cs = .ok (tok, rest)) (h3 : rest.length ≤ cs.length) :
    tkz l (pre ++ c :: cs) = prep [tok] (tkz tok.isLabel rest) := by
  unfold tkz
  rw [tokenizeFrom]
  simp only [trimWhitespace_pre hpre hc, h2]
  have : ¬ rest.length ≥ (pre ++ c :: cs).length := by simp; omega
  simp only [this, if_false]
  rw [tokenizeFrom_fuel (pre ++ c :: cs).length (rest.length + 1) _ _ (by simp <;> omega) (by omega)]
  cases tokenizeFrom (rest.length + 1) tok.isLabel rest <;> rfl

theorem tkz_end {pre : Str} (hpre : ∀ x ∈ pre, isWs x = true) (l : Bool) : tkz l pre = .ok [.eof] := by
  unfold tkz
  rw [tokenizeFrom]
  have : trimWhitespace pre = [] := by
    induction pre with
    | nil => rfl
    | cons p ps ih =>
      simp only [trimWhitespace, hpre p (List.mem_cons_self ..), if_true]
      exact ih (fun x hx => hpre x (List.mem_cons_of_mem _ hx))
  simp [this]

/-! ### identifier characters -/

theorem identifierChar_ne {c : Char} (h : identifierChar c = true) :
    c ≠ '(' ∧ c ≠ ')' ∧ c ≠ '"' ∧ c ≠ '\'' ∧ c ≠ '{' ∧ c ≠ '}' ∧ c ≠ ',' ∧ c ≠ '=' ∧ c ≠ '!' ∧ c ≠ '&' ∧
    c ≠ '|' ∧ c ≠ ' ' ∧ c ≠ '\t' := by
  refine ⟨?_, ?_, ?_, ?_, ?_, ?_, ?_, ?_, ?_, ?_, ?_, ?_, ?_⟩ <;>
    (rintro rfl; revert h; decide)

theorem identifierChar_not_ws {c : Char} (h : identifierChar c = true) : isWs c = false := by
  have := identifierChar_ne h
  simp [isWs, this]

theorem cutPrefix_eq_some : ∀ {p s r : Str}, cutPrefix p s = some r → s = p ++ r
  | [], s, r, h => by simp [cutPrefix] at h; simp [h]
  | _ :: _, [], r, h => by simp [cutPrefix] at h
  | p :: ps, c :: cs, r, h => by
    simp only [cutPrefix] at h
    by_cases hpc : p = c
    · simp only [hpc, if_true] at h
      simp [hpc, cutPrefix_eq_some h]
    · simp [hpc] at h

theorem cutPrefix_append (p r : Str) : cutPrefix p (p ++ r) = some r := by
  induction p with
  | nil => rfl
  | cons c cs ih => simp [cutPrefix, ih]

/-- A keyword that contains a non-identifier character other than `d` is not a
prefix of `identifier ++ d :: rest`. -/
theorem cutPrefix_ident_none {p lab : Str} {d : Char} (rest : Str)
    (hlab : ∀ c ∈ lab, identifierChar c = true)
    (hp : ∃ x ∈ p, identifierChar x = false) (hd : d ∉ p) :
    cutPrefix p (lab ++ d :: rest) = none := by
  cases h : cutPrefix p (lab ++ d :: rest) with
  | none => rfl
  | some r =>
    exfalso
    have e := cutPrefix_eq_some h
    obtain ⟨x, hx, hxi⟩ := hp
    rcases List.append_eq_append_iff.mp e with ⟨a', h1, h2⟩ | ⟨c', h1, h2⟩
    · -- p = lab ++ a', d :: rest = a' ++ r
      cases a' with
      | nil =>
        simp only [List.append_nil] at h1
        rw [h1] at hx
        rw [hlab x hx] at hxi; cases hxi
      | cons a as =>
        simp only [List.cons_append, List.cons.injEq] at h2
        apply hd
        rw [h1, h2.1]
        simp
    · -- lab = p ++ c'
      have : x ∈ lab := by rw [h1]; exact List.mem_append_left _ hx
      rw [hlab x this] at hxi; cases hxi

theorem takeWhile_ident (lab : Str) (d : Char) (rest : Str) (hlab : ∀ c ∈ lab, identifierChar c = true)
    (hd : identifierChar d = false) :
    (lab ++ d :: rest).takeWhile identifierChar = lab ∧ (lab ++ d :: rest).dropWhile identifierChar = d :: rest := by
  induction lab with
  | nil => simp [List.takeWhile, List.dropWhile, hd]
  | cons c cs ih =>
    have hc := hlab c (List.mem_cons_self ..)
    have := ih (fun x hx => hlab x (List.mem_cons_of_mem _ hx))
    simp [List.takeWhile, List.dropWhile, hc, this]

theorem cutIdentifier_append {lab : Str} (hl : ValidLabel lab) {d : Char} (hd : identifierChar d = false)
    (rest : Str) : cutIdentifier (lab ++ d :: rest) = .ok (lab, d :: rest) := by
  obtain ⟨hne, hlen, hall⟩ := hl
  have ⟨h1, h2⟩ := takeWhile_ident lab d rest hall hd
  unfold cutIdentifier
  simp only [h1, h2]
  have : ¬ lab.length > maxLabelLength := by omega
  have h0 : ¬ lab.length = 0 := by
    intro h; exact hne (List.length_eq_zero_iff.mp h)
  simp [this, h0]

theorem dropWhile_ne_append {q : Char} : ∀ {v : Str}, q ∉ v → ∀ rest : Str,
    (v ++ q :: rest).dropWhile (· ≠ q) = q :: rest
  | [], _, rest => by simp [List.dropWhile]
  | c :: cs, hq, rest => by
    have hc : c ≠ q := fun e => hq (by simp [e])
    have := dropWhile_ne_append (v := cs) (fun hm => hq (List.mem_cons_of_mem _ hm)) rest
    simpa [List.dropWhile, hc] using this

theorem takeWhile_ne_append {q : Char} : ∀ {v : Str}, q ∉ v → ∀ rest : Str,
    (v ++ q :: rest).takeWhile (· ≠ q) = v
  | [], _, rest => by simp [List.takeWhile]
  | c :: cs, hq, rest => by
    have hc : c ≠ q := fun e => hq (by simp [e])
    have := takeWhile_ne_append (v := cs) (fun hm => hq (List.mem_cons_of_mem _ hm)) rest
    simpa [List.takeWhile, hc] using this

theorem cutQuoted_ok {q : Char} {v : Str} (hq : q ∉ v) (rest : Str) :
    cutQuoted q (v ++ q :: rest) = .ok (v, rest) := by
  simp only [cutQuoted, dropWhile_ne_append hq, takeWhile_ne_append hq]

theorem nextToken_default {c : Char} (hc : identifierChar c = true) (l : Bool) (cs : Str) :
    nextToken l c cs = if l then nextOperator (c :: cs) else nextWord (c :: cs) := by
  obtain ⟨h1, h2, h3, h4, h5, h6, h7, h8, h9, h10, h11, -, -⟩ := identifierChar_ne hc
  simp [nextToken, h1, h2, h3, h4, h5, h6, h7, h8, h9, h10, h11]

/-! ### fragments -/

section frags
variable {pre : Str} (hpre : ∀ x ∈ pre, isWs x = true)
include hpre

theorem tkz_lParen (l : Bool) (rest : Str) : tkz l (pre ++ '(' :: rest) = prep [.lParen] (tkz false rest) :=
  tkz_step hpre (by decide) (by simp [nextToken]) (Nat.le_refl _)

theorem tkz_rParen (l : Bool) (rest : Str) : tkz l (pre ++ ')' :: rest) = prep [.rParen] (tkz false rest) :=
  tkz_step hpre (by decide) (by simp [nextToken]) (Nat.le_refl _)

theorem tkz_lBrace (l : Bool) (rest : Str) : tkz l (pre ++ '{' :: rest) = prep [.lBrace] (tkz false rest) :=
  tkz_step hpre (by decide) (by simp [nextToken]) (Nat.le_refl _)

theorem tkz_rBrace (l : Bool) (rest : Str) : tkz l (pre ++ '}' :: rest) = prep [.rBrace] (tkz false rest) :=
  tkz_step hpre (by decide) (by simp [nextToken]) (Nat.le_refl _)

theorem tkz_comma (l : Bool) (rest : Str) : tkz l (pre ++ ',' :: rest) = prep [.comma] (tkz false rest) :=
  tkz_step hpre (by decide) (by simp [nextToken]) (Nat.le_refl _)

theorem tkz_eqeq (l : Bool) (rest : Str) : tkz l (pre ++ '=' :: '=' :: rest) = prep [.eq] (tkz false rest) :=
  tkz_step hpre (by decide) (by simp [nextToken]) (by simp)

theorem tkz_ne (l : Bool) (rest : Str) : tkz l (pre ++ '!' :: '=' :: rest) = prep [.ne] (tkz false rest) :=
  tkz_step hpre (by decide) (by simp [nextToken]) (by simp)

theorem tkz_andand (l : Bool) (rest : Str) : tkz l (pre ++ '&' :: '&' :: rest) = prep [.and] (tkz false rest) :=
  tkz_step hpre (by decide) (by simp [nextToken]) (by simp)

theorem tkz_oror (l : Bool) (rest : Str) : tkz l (pre ++ '|' :: '|' :: rest) = prep [.or] (tkz false rest) :=
  tkz_step hpre (by decide) (by simp [nextToken]) (by simp)

theorem tkz_not (l : Bool) {rest : Str} (h : ∀ r, rest ≠ '=' :: r) :
    tkz l (pre ++ '!' :: rest) = prep [.not] (tkz false rest) := by
  refine tkz_step hpre (by decide) ?_ (Nat.le_refl _)
  cases rest with
  | nil => simp [nextToken]
  | cons d r =>
    have hd : d ≠ '=' := fun e => h r (by rw [e])
    simp [nextToken, hd]

theorem tkz_quoted (l : Bool) {v : Str} (hv : QuoteSafe v) (rest : Str) :
    tkz l (pre ++ quoted v ++ rest) = prep [.str v] (tkz false rest) := by
  unfold quoted quoteFor
  by_cases hd : v.contains '"' = true
  · have hq : '\'' ∉ v := hv (by simpa using hd)
    simp only [hd, if_true, List.cons_append, List.append_assoc, List.nil_append]
    refine tkz_step hpre (by decide) ?_ (by simp <;> omega)
    simp [nextToken, cutQuoted_ok hq, Except.map]
  · have hq : '"' ∉ v := by simpa using hd
    simp only [hd, List.cons_append, List.append_assoc, List.nil_append]
    refine tkz_step hpre (by decide) ?_ (by simp <;> omega)
    simp [nextToken, cutQuoted_ok hq, Except.map]

/-- A label followed by a blank. -/
theorem tkz_label {lab : Str} (hl : ValidLabel lab) (rest : Str) :
    tkz false (pre ++ lab ++ ' ' :: rest) = prep [.label lab] (tkz true (' ' :: rest)) := by
  obtain ⟨hne, hlen, hall⟩ := hl
  cases lab with
  | nil => exact absurd rfl hne
  | cons c cs =>
    have hc := hall c (List.mem_cons_self ..)
    rw [List.append_assoc, List.cons_append]
    refine tkz_step hpre (identifierChar_not_ws hc) ?_ (by simp)
    rw [nextToken_default hc]
    simp only [Bool.false_eq_true, if_false, nextWord]
    rw [← List.cons_append]
    rw [cutPrefix_ident_none rest hall ⟨'(', by decide, by decide⟩ (by decide),
      cutPrefix_ident_none rest hall ⟨'(', by decide, by decide⟩ (by decide),
      cutPrefix_ident_none rest hall ⟨'(', by decide, by decide⟩ (by decide),
      cutIdentifier_append ⟨hne, hlen, hall⟩ (by decide)]

/-- `has(label)`. -/
theorem tkz_has {lab : Str} (hl : ValidLabel lab) (rest : Str) :
    tkz false (pre ++ kwHasP ++ lab ++ ')' :: rest) = prep [.has lab] (tkz false rest) := by
  have hlab := hl
  obtain ⟨hne, hlen, hall⟩ := hl
  cases lab with
  | nil => exact absurd rfl hne
  | cons c cs =>
    have hc := hall c (List.mem_cons_self ..)
    have hws : trimWhitespace ((c :: cs) ++ ')' :: rest) = (c :: cs) ++ ')' :: rest := by
      simp [trimWhitespace, identifierChar_not_ws hc]
    simp only [kwHasP, List.append_assoc, List.cons_append, List.nil_append]
    refine tkz_step hpre (by decide) ?_ (by simp <;> omega)
    rw [nextToken_default (by decide)]
    simp only [Bool.false_eq_true, if_false, nextWord]
    have : cutPrefix kwHasP ('h' :: 'a' :: 's' :: '(' :: c :: (cs ++ ')' :: rest)) = some ((c :: cs) ++ ')' :: rest) :=
      cutPrefix_append kwHasP _
    rw [this]
    simp only [hws, cutIdentifier_append hlab (d := ')') (by decide)]
    simp [trimWhitespace, isWs, cutPrefix]

theorem tkz_all (rest : Str) : tkz false (pre ++ txtAll ++ rest) = prep [.all] (tkz false rest) := by
  simp only [txtAll, List.append_assoc, List.cons_append, List.nil_append]
  refine tkz_step hpre (by decide) ?_ (by simp <;> omega)
  rw [nextToken_default (by decide)]
  simp [nextWord, cutPrefix, kwHasP, kwAllP, trimWhitespace, isWs]

theorem tkz_global (rest : Str) : tkz false (pre ++ txtGlobal ++ rest) = prep [.global] (tkz false rest) := by
  simp only [txtGlobal, List.append_assoc, List.cons_append, List.nil_append]
  refine tkz_step hpre (by decide) ?_ (by simp <;> omega)
  rw [nextToken_default (by decide)]
  simp [nextWord, cutPrefix, kwHasP, kwAllP, kwGlobalP, trimWhitespace, isWs]

/-! operators after a label -/

theorem tkz_contains (rest : Str) :
    tkz true (pre ++ 'c' :: 'o' :: 'n' :: 't' :: 'a' :: 'i' :: 'n' :: 's' :: ' ' :: rest) =
      prep [.contains] (tkz false (' ' :: rest)) := by
  refine tkz_step hpre (by decide) ?_ (by simp <;> omega)
  rw [nextToken_default (by decide)]
  simp [nextOperator, cutPrefixCheckBreak, cutPrefix, kwContains, isWordBoundary, identifierChar]

/-- `starts with ` followed by a quote (or any non-blank, non-identifier character). -/
theorem tkz_startsWith {q : Char} (hq : isWs q = false) (hqi : identifierChar q = false) (rest : Str) :
    tkz true (pre ++ 's' :: 't' :: 'a' :: 'r' :: 't' :: 's' :: ' ' :: 'w' :: 'i' :: 't' :: 'h' :: ' ' :: q :: rest) =
      prep [.startsWith] (tkz false (q :: rest)) := by
  refine tkz_step hpre (by decide) ?_ (by simp <;> omega)
  rw [nextToken_default (by decide)]
  have hq' : ¬ (q = ' ' ∨ q = '\t') := by simpa [isWs] using hq
  simp [nextOperator, cutPrefixCheckBreak, cutMultiWordPrefixCheckBreak, cutWords, cutPrefix, kwContains,
    kwStarts, kwWith, isWordBoundary, trimWhitespace, isWs, hq', hqi]

theorem tkz_endsWith {q : Char} (hq : isWs q = false) (hqi : identifierChar q = false) (rest : Str) :
    tkz true (pre ++ 'e' :: 'n' :: 'd' :: 's' :: ' ' :: 'w' :: 'i' :: 't' :: 'h' :: ' ' :: q :: rest) =
      prep [.endsWith] (tkz false (q :: rest)) := by
  refine tkz_step hpre (by decide) ?_ (by simp <;> omega)
  rw [nextToken_default (by decide)]
  have hq' : ¬ (q = ' ' ∨ q = '\t') := by simpa [isWs] using hq
  simp [nextOperator, cutPrefixCheckBreak, cutMultiWordPrefixCheckBreak, cutWords, cutPrefix, kwContains,
    kwStarts, kwEnds, kwWith, isWordBoundary, trimWhitespace, isWs, hq', hqi]

theorem tkz_in (rest : Str) :
    tkz true (pre ++ 'i' :: 'n' :: ' ' :: '{' :: rest) = prep [.in] (tkz false (' ' :: '{' :: rest)) := by
  refine tkz_step hpre (by decide) ?_ (by simp <;> omega)
  rw [nextToken_default (by decide)]
  simp [nextOperator, cutPrefixCheckBreak, cutMultiWordPrefixCheckBreak, cutWords, cutPrefix, kwContains,
    kwStarts, kwEnds, kwNot, kwIn, kwWith, isWordBoundary, identifierChar]

theorem tkz_notIn (rest : Str) :
    tkz true (pre ++ 'n' :: 'o' :: 't' :: ' ' :: 'i' :: 'n' :: ' ' :: '{' :: rest) =
      prep [.notIn] (tkz false ('{' :: rest)) := by
  refine tkz_step hpre (by decide) ?_ (by simp <;> omega)
  rw [nextToken_default (by decide)]
  simp [nextOperator, cutPrefixCheckBreak, cutMultiWordPrefixCheckBreak, cutWords, cutPrefix, kwContains,
    kwStarts, kwEnds, kwNot, kwIn, kwWith, isWordBoundary, trimWhitespace, isWs, identifierChar]

end frags

end CalicoVerif.C06
