import CalicoVerif.Model.C34
/-! C34: a fork-join access program without conflicts is schedule-deterministic. -/
namespace CalicoVerif.C34

/-- Two steps touch disjoint data (neither writes what the other reads or writes). -/
def Indep (a b : Step) : Prop :=
  a.target ≠ b.target ∧ a.target ∉ b.deps ∧ b.target ∉ a.deps

theorem map_exec_of_not_mem {deps : List Nat} {s : Step} {σ : Store} (h : s.target ∉ deps) :
    deps.map (s.exec σ) = deps.map σ := by
  apply List.map_congr_left
  intro x hx
  have : x ≠ s.target := fun e => h (e ▸ hx)
  simp [Step.exec, this]

theorem exec_comm {a b : Step} (h : Indep a b) (σ : Store) :
    b.exec (a.exec σ) = a.exec (b.exec σ) := by
  obtain ⟨h1, h2, h3⟩ := h
  funext x
  show (if x = b.target then b.f (b.deps.map (a.exec σ)) else a.exec σ x) =
    (if x = a.target then a.f (a.deps.map (b.exec σ)) else b.exec σ x)
  rw [map_exec_of_not_mem h2, map_exec_of_not_mem h3]
  by_cases hb : x = b.target
  · subst hb
    have : ¬ b.target = a.target := fun e => h1 e.symm
    simp [Step.exec, this]
  · by_cases ha : x = a.target
    · subst ha
      simp [Step.exec, h1]
    · simp [Step.exec, ha, hb]

theorem run_cons (e : Event) (t : List Event) (σ : Store) : run (e :: t) σ = run t (e.2.exec σ) := rfl

theorem run_append (t1 t2 : List Event) (σ : Store) : run (t1 ++ t2) σ = run t2 (run t1 σ) := by
  simp [run, List.foldl_append]

/-- An event that is independent of everything before it can be moved to the front. -/
theorem run_move_front (a : Event) : ∀ (pre post : List Event) (σ : Store),
    (∀ b ∈ pre, Indep a.2 b.2) → run (pre ++ a :: post) σ = run (a :: (pre ++ post)) σ := by
  intro pre
  induction pre with
  | nil => intro post σ _; rfl
  | cons b pre ih =>
    intro post σ h
    have hb := h b List.mem_cons_self
    have ih' := ih post (b.2.exec σ) (fun c hc => h c (List.mem_cons_of_mem _ hc))
    simp only [List.cons_append, run_cons] at ih' ⊢
    rw [ih', exec_comm hb]

theorem proj_append (g : Nat) (t1 t2 : List Event) : proj g (t1 ++ t2) = proj g t1 ++ proj g t2 := by
  induction t1 with
  | nil => rfl
  | cons e t ih =>
    simp only [List.cons_append, proj]
    split <;> simp [ih]

theorem proj_of_no_tag {g : Nat} {t : List Event} (h : ∀ e ∈ t, e.1 ≠ g) : proj g t = [] := by
  induction t with
  | nil => rfl
  | cons e t ih =>
    have he := h e List.mem_cons_self
    simp only [proj, he, if_false]
    exact ih (fun c hc => h c (List.mem_cons_of_mem _ hc))

theorem mem_proj {g : Nat} {s : Step} : ∀ {t : List Event}, s ∈ proj g t → (g, s) ∈ t := by
  intro t
  induction t with
  | nil => intro h; simp [proj] at h
  | cons e t ih =>
    intro h
    simp only [proj] at h
    by_cases he : e.1 = g
    · simp only [he, if_true, List.mem_cons] at h
      rcases h with h | h
      · have : e = (g, s) := by cases e; simp_all
        exact this ▸ List.mem_cons_self
      · exact List.mem_cons_of_mem _ (ih h)
    · simp only [he, if_false] at h
      exact List.mem_cons_of_mem _ (ih h)

theorem proj_mem {e : Event} : ∀ {t : List Event}, e ∈ t → e.2 ∈ proj e.1 t := by
  intro t
  induction t with
  | nil => intro h; simp at h
  | cons c t ih =>
    intro h
    simp only [proj]
    rcases List.mem_cons.1 h with rfl | h
    · simp
    · split
      · exact List.mem_cons_of_mem _ (ih h)
      · exact ih h

/-- If goroutine `g`'s projection starts with `a`, the trace is `pre ++ (g,a) :: post` with no
`g`-event in `pre`. -/
theorem split_first {g : Nat} {a : Step} : ∀ (t : List Event) (rest : List Step),
    proj g t = a :: rest →
    ∃ pre post, t = pre ++ (g, a) :: post ∧ (∀ e ∈ pre, e.1 ≠ g) ∧ proj g post = rest := by
  intro t
  induction t with
  | nil => intro rest h; simp [proj] at h
  | cons e t ih =>
    intro rest h
    simp only [proj] at h
    by_cases he : e.1 = g
    · simp only [he, if_true, List.cons.injEq] at h
      refine ⟨[], t, ?_, by simp, h.2⟩
      have : e = (g, a) := by cases e; simp_all
      simp [this]
    · simp only [he, if_false] at h
      obtain ⟨pre, post, h1, h2, h3⟩ := ih rest h
      refine ⟨e :: pre, post, by simp [h1], ?_, h3⟩
      intro c hc
      rcases List.mem_cons.1 hc with rfl | hc
      · exact he
      · exact h2 c hc

/-- **Core lemma.**  Two traces with the same per-goroutine projections, in which events of
different goroutines are independent, produce the same final store. -/
theorem run_eq_of_proj_eq : ∀ (t1 t2 : List Event) (σ : Store),
    (∀ a ∈ t1, ∀ b ∈ t1, a.1 ≠ b.1 → Indep a.2 b.2) →
    (∀ g, proj g t1 = proj g t2) → run t1 σ = run t2 σ := by
  intro t1
  induction t1 with
  | nil =>
    intro t2 σ _ hp
    cases t2 with
    | nil => rfl
    | cons e t =>
      have := proj_mem (e := e) (t := e :: t) List.mem_cons_self
      rw [← hp e.1] at this
      simp [proj] at this
  | cons e t1 ih =>
    intro t2 σ hind hp
    obtain ⟨g, a⟩ := e
    have hg := hp g
    simp only [proj, if_true] at hg
    obtain ⟨pre, post, rfl, hpre, hpost⟩ := split_first t2 (proj g t1) hg.symm
    -- events of `pre` are events of the first trace too, of other goroutines: independent of `a`
    have hmove : run (pre ++ (g, a) :: post) σ = run ((g, a) :: (pre ++ post)) σ := by
      apply run_move_front
      intro b hb
      have hbg : b.1 ≠ g := hpre b hb
      have hb2 : b ∈ pre ++ (g, a) :: post := List.mem_append_left _ hb
      have hb1 : b ∈ (g, a) :: t1 := by
        have := proj_mem hb2
        rw [← hp b.1] at this
        exact mem_proj this
      exact hind (g, a) List.mem_cons_self b hb1 (fun e => hbg e.symm)
    rw [hmove, run_cons, run_cons]
    apply ih
    · intro x hx y hy hxy
      exact hind x (List.mem_cons_of_mem _ hx) y (List.mem_cons_of_mem _ hy) hxy
    · intro h
      have hph := hp h
      rw [proj_append] at hph ⊢
      simp only [proj] at hph
      by_cases hh : g = h
      · subst hh
        simp only [if_true] at hph
        rw [proj_of_no_tag hpre] at hph ⊢
        simp only [List.nil_append, List.cons.injEq, true_and] at hph
        simpa using hph
      · simp only [hh, if_false] at hph
        exact hph

/-! ### from the conflict checker to independence -/

theorem racyVars_nil {a b : Accesses} (h : racyVars a b = []) :
    (∀ x ∈ a.writes, x ∉ b.writes ∧ x ∉ b.reads) ∧ (∀ x ∈ b.writes, x ∉ a.reads) := by
  unfold racyVars at h
  rw [List.append_eq_nil_iff, List.filter_eq_nil_iff, List.filter_eq_nil_iff] at h
  constructor
  · intro x hx
    have := h.1 x hx
    simp only [touches, List.contains_eq_mem, List.mem_append, decide_eq_true_eq, not_or] at this
    exact this
  · intro x hx
    have := h.2 x hx
    simpa using this

/-- No goroutine/goroutine conflict in `P` ⇒ the access sets of two different goroutines are
race free in both orders. -/
theorem conflicts_nil_goroutines {P : Program} (h : conflicts P = []) {i j : Nat} {a b : Accesses}
    (hi : P.goroutines[i]? = some a) (hj : P.goroutines[j]? = some b) (hij : i < j) :
    racyVars a b = [] := by
  unfold conflicts at h
  simp only [List.append_eq_nil_iff] at h
  have h1 := h.1
  rw [List.flatMap_eq_nil_iff] at h1
  have h2 := h1 (a, i) (List.mk_mem_zipIdx_iff_getElem?.2 hi)
  rw [List.flatMap_eq_nil_iff] at h2
  have h3 := h2 (b, j) (List.mk_mem_zipIdx_iff_getElem?.2 hj)
  simp only [hij, if_true, List.map_eq_nil_iff] at h3
  exact h3

end CalicoVerif.C34
