import CalicoVerif.Proofs.C16o
set_option linter.unusedSimpArgs false
namespace CalicoVerif.C16

structure UpdPost (w w' : W) : Prop where
  cfg : w'.cfg = w.cfg
  desired : w'.F.desired = w.F.desired
  allMeta : w'.F.allMeta = w.F.allMeta
  filter : w'.F.filter = w.F.filter
  fullReq : w'.F.fullReq = w.F.fullReq
  queues : w'.F.qMust = w.F.qMust ∧ w'.F.qBg = w.F.qBg ∧ w'.F.bgReq = w.F.bgReq
  inv : WInv w.cfg w'.F w'.K
  exact : ∀ n, w.F.desired.has n = true → Exact w'.F w'.K n
  covK : ∀ b, w'.K.has b = true → w.K.has b = true ∨ w'.F.dp.has b = true
  covDp : ∀ b, w.F.dp.has b = true → w'.F.dp.has b = true
  dpNew : ∀ b, w'.F.dp.has b = true → w.F.dp.has b = true ∨ w.F.desired.has b = true ∨ w.cfg.isTemp b = true
  desKeep : ∀ n t, w.F.members.get n = some t → ∃ t', w'.F.members.get n = some t' ∧ t'.des = t.des

theorem pickOrder_covers (w : W) (dirty : List String) : ∀ n ∈ dirty, n ∈ (w.pickOrder dirty).1 := by
  unfold W.pickOrder
  split
  · intro n hn; exact mem_sortS.2 hn
  · split
    · rename_i h r hs
      intro n hn
      unfold sameSet at hs
      simp only [Bool.and_eq_true, List.all_eq_true] at hs
      have := hs.1.2 n hn
      simpa using this
    · intro n hn; exact mem_sortS.2 hn

/-- A successful `tryUpdates` (from an accurate view) leaves every desired set exact. -/
theorem tryUpdates_post (w : W) (hc : CfgOK w.cfg) (hinv : WInv w.cfg w.F w.K) (hdo : DirtyOK w.F)
    (h : (w.tryUpdates w.F.dirtyForUpdate).2 = false) :
    UpdPost w (w.tryUpdates w.F.dirtyForUpdate).1 := by
  unfold W.tryUpdates at h ⊢
  split
  · -- nothing dirty
    rename_i hempty
    refine ⟨rfl, rfl, rfl, rfl, rfl, ⟨rfl, rfl, rfl⟩, hinv, ?_, fun _ h => Or.inl h, fun _ h => h,
      fun _ h => Or.inl h, fun n t h => ⟨t, h, rfl⟩⟩
    intro n hn
    apply clean_exact hinv hdo hn
    have : w.F.dirtyForUpdate = [] := by simpa using hempty
    rw [this]; simp
  · rename_i hne
    simp only [hne, if_false] at h
    dsimp only at h ⊢
    split
    · rename_i hsf; simp only [hsf, if_true] at h; simp at h
    · rename_i hsf
      simp only [hsf, if_false] at h
      -- abbreviations
      generalize hw0 : ({ w with plan := { w.plan with restores := (popRPlan w.plan.restores).2 } } : W) = w0 at h ⊢
      have hsame := pickOrder_same w0 w.F.dirtyForUpdate
      have hmem := pickOrder_mem w0 w.F.dirtyForUpdate
      have hcov := pickOrder_covers w0 w.F.dirtyForUpdate
      have hw0F : w0.F = w.F := by rw [← hw0]
      have hw0K : w0.K = w.K := by rw [← hw0]
      have hw0c : w0.cfg = w.cfg := by rw [← hw0]
      generalize (w0.pickOrder w.F.dirtyForUpdate).2 = w1 at h hsame ⊢
      generalize (w0.pickOrder w.F.dirtyForUpdate).1 = order at h hmem hcov ⊢
      generalize (popRPlan w.plan.restores).1 = rp at h ⊢
      have hF1 : w1.F = w.F := hsame.1.trans hw0F
      have hK1 : w1.K = w.K := hsame.2.1.trans hw0K
      have hc1 : w1.cfg = w.cfg := hsame.2.2.trans hw0c
      unfold W.runRestore at h ⊢
      split
      · rename_i hwa; rw [hwa] at h; simp at h
      · rename_i F2 lines hwa
        rw [hwa] at h
        dsimp only at h ⊢
        split
        · rename_i hsucc
          simp only [Bool.and_eq_true, beq_iff_eq] at hsucc
          obtain ⟨hok, hrp⟩ := hsucc
          subst hrp
          simp only [linesToRun] at hok ⊢
          have hkall := krun_ok lines w1.K hok
          rw [hc1, hF1] at hwa
          rw [hK1] at hkall
          have hdesOrd : ∀ n ∈ order, w.F.desired.has n = true :=
            fun n hn => dirtyForUpdate_desired w.F n (hmem n hn)
          have post := writeAll_post hc (fun l x => mem_sortS) order w.F F2 w.K _ lines hinv hdesOrd hwa hkall
          rw [hK1]
          refine ⟨hc1, post.desired, post.allMeta, post.filter, post.fullReq, post.queues, ?_, ?_, ?_, ?_, ?_, ?_⟩
          · exact ⟨post.inv.notTemp, post.inv.tracked, post.inv.acc⟩
          · intro n hn
            by_cases hd : n ∈ w.F.dirtyForUpdate
            · obtain ⟨dm, t, k, h1, h2, h3, h4, h5⟩ := post.exactNew n (hcov n hd)
              exact ⟨dm, t, k, h1, h2, h3, h4, h5⟩
            · obtain ⟨dm, t, k, h1, h2, h3, h4, h5⟩ := post.exactKeep n (clean_exact hinv hdo hn hd)
              exact ⟨dm, t, k, h1, h2, h3, h4, h5⟩
          · exact post.covK
          · exact post.covDp
          · intro b hb
            rcases post.dpNew b hb with h' | h' | h'
            · exact Or.inl h'
            · exact Or.inr (Or.inl (hdesOrd b h'))
            · exact Or.inr (Or.inr h')
          · exact post.desKeep
        · rename_i hsucc
          simp only [hsucc, if_false] at h
          simp at h

end CalicoVerif.C16
