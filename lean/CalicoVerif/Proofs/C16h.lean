import CalicoVerif.Proofs.C16g
namespace CalicoVerif.C16

/-- "Foreign sets untouched": same desired map and configuration, and every set whose name
Felix does not own is exactly as before. -/
def FU (w w' : W) : Prop :=
  w'.F.desired = w.F.desired ∧ w'.cfg = w.cfg ∧ ∀ x, w.cfg.owns x = false → w'.K.get x = w.K.get x

theorem FU.refl (w : W) : FU w w := ⟨rfl, rfl, fun _ _ => rfl⟩
theorem FU.trans {a b c : W} (h1 : FU a b) (h2 : FU b c) : FU a c :=
  ⟨h2.1.trans h1.1, h2.2.1.trans h1.2.1, fun x hx => (h2.2.2 x (h1.2.1 ▸ hx)).trans (h1.2.2 x hx)⟩
theorem Frame.toFU {a b : W} (h : Frame a b) : FU a b :=
  ⟨h.2.1, h.2.2, fun x _ => by rw [h.1]⟩

/-- The configuration facts used: temporary names are temporary, temporary names are owned. -/
structure CfgOK (c : Cfg) : Prop where
  tempIsTemp : ∀ k, c.isTemp (c.tempName k) = true
  tempOwned : ∀ n, c.isTemp n = true → c.owns n = true

theorem mem_sortS {x : String} {l : List String} : x ∈ sortS l ↔ x ∈ l := List.mem_mergeSort

theorem writeAll_names {c : Cfg} (hc : CfgOK c) : ∀ (ns : List String) (F F' : Felix) (ls : List Line),
    (∀ n ∈ ns, c.owns n = true) → writeAll c sortS F ns = some (F', ls) →
    ∀ l ∈ ls, ∀ x ∈ l.names, c.owns x = true := by
  intro ns
  induction ns with
  | nil =>
    intro F F' ls _ h
    simp only [writeAll, Option.some.injEq, Prod.mk.injEq] at h
    intro l hl; rw [← h.2] at hl; simp at hl
  | cons n ns ih =>
    intro F F' ls hown h
    simp only [writeAll] at h
    split at h
    · simp at h
    · rename_i F1 l1 h1
      split at h
      · simp at h
      · rename_i F2 l2 h2
        simp only [Option.some.injEq, Prod.mk.injEq] at h
        intro l hl x hx
        rw [← h.2] at hl
        rcases List.mem_append.1 hl with hl | hl
        · obtain ⟨t, _, hshape⟩ := writeUpdates_shape (fun l x hx => mem_sortS.1 hx) h1
          have hn := hown n List.mem_cons_self
          rcases hshape with hs | ⟨k, body, hbody, hb⟩
          · rw [(hs l hl).1] at hx
            simp only [List.mem_singleton] at hx; subst hx; exact hn
          · rw [hbody] at hl
            rcases List.mem_append.1 hl with hl | hl
            · rw [hb l hl] at hx
              simp only [List.mem_singleton] at hx; subst hx
              exact hc.tempOwned _ (hc.tempIsTemp k)
            · simp only [List.mem_singleton] at hl; subst hl
              simp only [Line.names, List.mem_cons, List.not_mem_nil, or_false] at hx
              rcases hx with rfl | rfl
              · exact hn
              · exact hc.tempOwned _ (hc.tempIsTemp k)
        · exact ih F1 F2 l2 (fun n' hn' => hown n' (List.mem_cons_of_mem _ hn')) h2 l hl x hx

theorem mem_linesToRun {rp : RPlan} {lines : List Line} {l : Line} (h : l ∈ linesToRun rp lines) : l ∈ lines := by
  unfold linesToRun at h
  split at h
  · exact List.mem_of_mem_take h
  · exact h

theorem runRestore_FU (w : W) (hc : CfgOK w.cfg) (rp : RPlan) (order : List String)
    (hown : ∀ n ∈ order, w.cfg.owns n = true) : FU w (w.runRestore rp order).1 := by
  unfold W.runRestore
  split
  · exact ⟨rfl, rfl, fun _ _ => rfl⟩
  · rename_i F1 lines hwa
    have hd := writeAll_desired _ _ _ _ hwa
    have hnames := writeAll_names hc _ _ _ _ hown hwa
    have hget : ∀ x, w.cfg.owns x = false → (krun w.K (linesToRun rp lines)).1.get x = w.K.get x := by
      intro x hx
      apply krun_get_other
      intro l hl hmem
      have := hnames l (mem_linesToRun hl) x hmem
      rw [hx] at this; exact absurd this (by simp)
    dsimp only
    split
    · exact ⟨hd, rfl, hget⟩
    · refine ⟨?_, rfl, hget⟩
      dsimp only
      rw [qAddAll_desired, hd]

theorem pickOrder_mem (w : W) (dirty : List String) : ∀ n ∈ (w.pickOrder dirty).1, n ∈ dirty := by
  unfold W.pickOrder
  split
  · intro n hn; exact mem_sortS.1 hn
  · split
    · rename_i h r hs
      intro n hn
      unfold sameSet at hs
      simp only [Bool.and_eq_true, List.all_eq_true] at hs
      have := hs.1.1 n hn
      simpa using this
    · intro n hn; exact mem_sortS.1 hn

theorem has_of_mem {α : Type} {m : Map α} {p : String × α} (h : p ∈ m) : m.has p.1 = true := by
  induction m with
  | nil => simp at h
  | cons q m ih =>
    simp only [Map.has, Map.get, List.lookup]
    by_cases hq : p.1 = q.1
    · simp [hq]
    · have : (p.1 == q.1) = false := by simp [hq]
      simp only [this]
      rcases List.mem_cons.1 h with rfl | h
      · exact absurd rfl hq
      · exact ih h

theorem dirtyForUpdate_desired (F : Felix) : ∀ n ∈ F.dirtyForUpdate, F.desired.has n = true := by
  intro n hn
  unfold Felix.dirtyForUpdate at hn
  rcases List.mem_append.1 hn with hn | hn
  · exact (List.mem_filter.1 hn).2
  · have := (List.mem_filter.1 hn).1
    unfold Felix.pendingUpdates at this
    rw [List.mem_eraseDups] at this
    obtain ⟨p, hp, rfl⟩ := List.mem_map.1 this
    exact has_of_mem (List.mem_filter.1 hp).1

theorem tryUpdates_FU (w : W) (hc : CfgOK w.cfg)
    (hD : ∀ n, w.F.desired.has n = true → w.cfg.owns n = true) :
    FU w (w.tryUpdates w.F.dirtyForUpdate).1 := by
  unfold W.tryUpdates
  split
  · exact FU.refl w
  · dsimp only
    split
    · exact ⟨rfl, rfl, fun _ _ => rfl⟩
    · have h1 := pickOrder_same { w with plan := { w.plan with restores := (popRPlan w.plan.restores).2 } } w.F.dirtyForUpdate
      have hm := pickOrder_mem { w with plan := { w.plan with restores := (popRPlan w.plan.restores).2 } } w.F.dirtyForUpdate
      have h2 := runRestore_FU
        (W.pickOrder { w with plan := { w.plan with restores := (popRPlan w.plan.restores).2 } } w.F.dirtyForUpdate).2
        (by rw [h1.2.2]; exact hc)
        (popRPlan w.plan.restores).1
        (W.pickOrder { w with plan := { w.plan with restores := (popRPlan w.plan.restores).2 } } w.F.dirtyForUpdate).1
        (by
          intro n hn
          rw [h1.2.2]
          exact hD n (dirtyForUpdate_desired w.F n (hm n hn)))
      refine FU.trans ?_ h2
      exact ⟨by rw [h1.1], h1.2.2, fun x _ => by rw [h1.2.1]⟩

end CalicoVerif.C16
