import CalicoVerif.Proofs.C11Step
/-!
C11 — the compositional layer of the verdict proof, on the label-level
semantics: guards (match fragments) compose into rules, rules into policies,
policies into tiers.  Everything here is generic in the fragments: a fragment
is characterised by `Guard` (fall through if the criterion holds, else jump to
the rule's no-match label, keeping the builder's invariant).
-/
namespace CalicoVerif.C11

/-- Labels defined in an event list. -/
def labelsOf : List Ev → List Label
  | [] => []
  | .label l :: r => l :: labelsOf r
  | .ins _ :: r => labelsOf r
  | .jmp _ _ :: r => labelsOf r

theorem labelsOf_append (a b : List Ev) : labelsOf (a ++ b) = labelsOf a ++ labelsOf b := by
  induction a with
  | nil => rfl
  | cons e es ih => cases e <;> simp [labelsOf, ih]

theorem seek_append {l : Label} {a : List Ev} (b : List Ev) (h : l ∉ labelsOf a) :
    seek l (a ++ b) = seek l b := by
  induction a with
  | nil => rfl
  | cons e es ih =>
    cases e with
    | label l' =>
      simp only [labelsOf, List.mem_cons, not_or] at h
      simp only [List.cons_append, seek]
      rw [if_neg (fun e => h.1 e.symm)]
      exact ih h.2
    | ins i => simp only [labelsOf] at h; simp only [List.cons_append, seek]; exact ih h
    | jmp i l' => simp only [labelsOf] at h; simp only [List.cons_append, seek]; exact ih h

theorem goto_append {env : Env} {l : Label} {a : List Ev} (b : List Ev) (m : Mach) (h : l ∉ labelsOf a) :
    goto env l (a ++ b) m = goto env l b m := by
  unfold goto; rw [seek_append b h]

theorem goto_label_self (env : Env) (l : Label) (r : List Ev) (m : Mach) :
    goto env l (.label l :: r) m = lrun env r m := by
  simp [goto, seek]

theorem goto_cons_label_ne (env : Env) {l l' : Label} (r : List Ev) (m : Mach) (h : l' ≠ l) :
    goto env l (.label l' :: r) m = goto env l r m := by
  simp [goto, seek, h]

theorem goto_cons_ins (env : Env) (l : Label) (i : Insn) (r : List Ev) (m : Mach) :
    goto env l (.ins i :: r) m = goto env l r m := by
  simp [goto, seek]

theorem goto_cons_jmp (env : Env) (l l' : Label) (i : Insn) (r : List Ev) (m : Mach) :
    goto env l (.jmp i l' :: r) m = goto env l r m := by
  simp [goto, seek]

/-- `F` is a guard for condition `b` with no-match label `L`: from any state
satisfying the invariant, `F` either falls through (`b`) or continues at `L`
(`¬b`), and the invariant still holds. -/
def Guard (env : Env) (st : List Byte) (L : Label) (F : List Ev) (b : Bool) : Prop :=
  ∀ rest m, Inv st m → ∃ m', Inv st m' ∧
    lrun env (F ++ rest) m = if b then lrun env rest m' else goto env L rest m'

theorem Guard.nil (env : Env) (st : List Byte) (L : Label) : Guard env st L [] true :=
  fun _ m h => ⟨m, h, by simp⟩

theorem Guard.append {env : Env} {st : List Byte} {L : Label} {F1 F2 : List Ev} {b1 b2 : Bool}
    (h1 : Guard env st L F1 b1) (h2 : Guard env st L F2 b2) (hL : L ∉ labelsOf F2) :
    Guard env st L (F1 ++ F2) (b1 && b2) := by
  intro rest m hI
  obtain ⟨m1, hI1, e1⟩ := h1 (F2 ++ rest) m hI
  rw [List.append_assoc, e1]
  cases b1 with
  | true =>
    obtain ⟨m2, hI2, e2⟩ := h2 rest m1 hI1
    exact ⟨m2, hI2, by simpa using e2⟩
  | false =>
    exact ⟨m1, hI1, by simp [goto_append rest m1 hL]⟩

/-- The unconditional jump. -/
theorem step_jumpA (env : Env) (off imm : Int) (nxt : Option Insn) (m : Mach) :
    step env ⟨opJumpA, 0, 0, off, imm⟩ nxt m = .taken m := by
  simp [step, opJumpA, opLoadImm64]

theorem lrun_jump (env : Env) (l : Label) (r : List Ev) (m : Mach) :
    lrun env (jump l :: r) m = goto env l r m := by
  unfold jump mkJ
  exact lrun_jmp_taken (by simp [Insn.isJumpOp, opJumpA]) (step_jumpA env 0 0 none m)

/-- A decision block: depending on `d`, control continues at one of the
labels (`lab d = some l`) or falls through (`lab d = none`). -/
def Decides (env : Env) (st : List Byte) (B : List Ev) (target : Option Label) : Prop :=
  ∀ rest m, Inv st m → ∃ m', Inv st m' ∧
    lrun env (B ++ rest) m = match target with
      | some l => goto env l rest m'
      | none => lrun env rest m'

theorem Decides.nil (env : Env) (st : List Byte) : Decides env st [] none :=
  fun _ m h => ⟨m, h, rfl⟩

/-- Sequencing: if the first block falls through the second decides; if the
first block jumps, the jump passes over the second block (whose labels do not
include the target). -/
theorem Decides.seq {env : Env} {st : List Byte} {B1 B2 : List Ev} {t1 t2 : Option Label}
    (h1 : Decides env st B1 t1) (h2 : Decides env st B2 t2)
    (hl : ∀ l, t1 = some l → l ∉ labelsOf B2) :
    Decides env st (B1 ++ B2) (t1.or t2) := by
  intro rest m hI
  obtain ⟨m1, hI1, e1⟩ := h1 (B2 ++ rest) m hI
  rw [List.append_assoc, e1]
  cases t1 with
  | some l =>
    exact ⟨m1, hI1, by simp [goto_append rest m1 (hl l rfl)]⟩
  | none =>
    obtain ⟨m2, hI2, e2⟩ := h2 rest m1 hI1
    exact ⟨m2, hI2, by simpa using e2⟩

/-- A rule: guard, then jump to the action label, then the no-match label. -/
theorem rule_decides {env : Env} {st : List Byte} {L a : Label} {M : List Ev} {b : Bool}
    (hg : Guard env st L M b) (ha : a ≠ L) :
    Decides env st (M ++ [jump a, .label L]) (if b then some a else none) := by
  intro rest m hI
  obtain ⟨m1, hI1, e1⟩ := hg ([jump a, .label L] ++ rest) m hI
  rw [List.append_assoc, e1]
  refine ⟨m1, hI1, ?_⟩
  cases b with
  | true =>
    simp only [if_true, List.cons_append, List.nil_append]
    rw [lrun_jump, goto_cons_label_ne env rest m1 (fun e => ha e.symm)]
  | false =>
    simp only [Bool.false_eq_true, if_false, List.cons_append, List.nil_append]
    unfold jump mkJ
    rw [goto_cons_jmp, goto_label_self]


/-- Appending the definition of a label: a jump to it now falls through. -/
theorem Decides.label {env : Env} {st : List Byte} {B : List Ev} {t : Option Label} (l : Label)
    (h : Decides env st B t) : Decides env st (B ++ [.label l]) (if t = some l then none else t) := by
  intro rest m hI
  obtain ⟨m1, hI1, e1⟩ := h ([.label l] ++ rest) m hI
  rw [List.append_assoc, e1]
  refine ⟨m1, hI1, ?_⟩
  cases t with
  | none => simp [lrun_label]
  | some l' =>
    by_cases hl : l' = l
    · subst hl; simp [goto_label_self]
    · have : ¬ (some l' = some l) := by simpa using hl
      simp only [if_neg this, List.cons_append, List.nil_append]
      rw [goto_cons_label_ne env rest m1 (fun e => hl e.symm)]

end CalicoVerif.C11
