import CalicoVerif.Proofs.C15u
set_option linter.unusedSimpArgs false
namespace CalicoVerif.C15

theorem fold_chains (g : T → String → T) (hg : ∀ t x, (g t x).chains = t.chains) :
    ∀ (L : List String) (t : T), (L.foldl g t).chains = t.chains := by
  intro L
  induction L with
  | nil => intro t; rfl
  | cons x L ih => intro t; simp only [List.foldl]; rw [ih, hg]

theorem maybeIncref_chains (t : T) (n : String) (rs : List DRule) : (t.maybeIncref n rs).chains = t.chains := by
  unfold T.maybeIncref
  split
  · exact fold_chains _ (fun t x => incref_chains fuel t x) _ _
  · rfl

theorem maybeDecref_chains (t : T) (n : String) (rs : List DRule) : (t.maybeDecref n rs).chains = t.chains := by
  unfold T.maybeDecref
  split
  · exact fold_chains _ (fun t x => decref_chains fuel t x) _ _
  · rfl

theorem setChain_chains (t : T) (name : String) (cs : Map Chain) :
    (if ({ t with chains := cs } : T).refd name then ({ { t with chains := cs } with dirty := sAdd t.dirty name } : T).invalidate
     else { t with chains := cs }).chains = cs := by
  split <;> rfl

theorem updateChain_chains (t : T) (n : String) (ch : Chain) : (t.updateChain n ch).chains = t.chains.set n ch := by
  unfold T.updateChain
  dsimp only
  have e1 : (if ch.force then T.incref fuel t n else t).chains = t.chains := by
    split
    · exact incref_chains _ _ _
    · rfl
  generalize (if ch.force then T.incref fuel t n else t) = t1 at e1 ⊢
  cases hold : t1.chains.get n with
  | none =>
    dsimp only
    exact (setChain_chains _ n _).trans (by rw [maybeIncref_chains, e1])
  | some old =>
    dsimp only
    have e2 : (if old.force then T.decref fuel t1 n else t1).chains = t1.chains := by
      split
      · exact decref_chains _ _ _
      · rfl
    exact (setChain_chains _ n _).trans (by rw [maybeDecref_chains, maybeIncref_chains, e2, e1])

theorem removeChain_chains (t : T) (n : String) :
    (t.removeChain n).chains = t.chains ∨ (t.removeChain n).chains = t.chains.erase n := by
  unfold T.removeChain
  cases hold : t.chains.get n with
  | none => left; rfl
  | some old =>
    right
    dsimp only
    have e2 : (if old.force then T.decref fuel t n else t).chains = t.chains := by
      split
      · exact decref_chains _ _ _
      · rfl
    exact (setChain_chains _ n _).trans (by rw [maybeDecref_chains, e2])

theorem setInserts_chains (t : T) (c : String) (rs : List DRule) : (t.setInserts c rs).chains = t.chains := by
  unfold T.setInserts
  dsimp only
  show (T.maybeDecref _ c _).chains = _
  rw [maybeDecref_chains, maybeIncref_chains]

theorem setAppends_chains (t : T) (c : String) (rs : List DRule) : (t.setAppends c rs).chains = t.chains := by
  unfold T.setAppends
  dsimp only
  show (T.maybeDecref _ c _).chains = _
  rw [maybeDecref_chains, maybeIncref_chains]

theorem load_chains (t : T) (K : Kernel) : (t.load K).chains = t.chains := by
  obtain ⟨t2, hrel, hload, _⟩ := load_desc t K
  rw [hload]; exact hrel.chains

theorem applyUpdates_chains (w : W) : w.applyUpdates.1.t.chains = w.t.chains := by
  rcases applyUpdates_t w with e | e | ⟨_, _, _, _, e⟩ <;> rw [e] <;> rfl

theorem ensureLoaded_chains (w : W) : w.ensureLoaded.1.t.chains = w.t.chains := by
  unfold W.ensureLoaded
  obtain ⟨h1, _, _⟩ := save_frame 4 w
  split
  · dsimp only
    split
    · show ((W.save 4 w).1.t.load (W.save 4 w).1.K).chains = _
      rw [load_chains, h1]
    · show (W.save 4 w).1.t.chains = _
      rw [h1]
  · rfl

theorem applyLoop_chains : ∀ (fuel : Nat) (w : W), (W.applyLoop fuel w).1.t.chains = w.t.chains := by
  intro fuel
  induction fuel with
  | zero => intro w; rfl
  | succ fuel ih =>
    intro w
    unfold W.applyLoop
    dsimp only
    have hl := ensureLoaded_chains w
    have hu := (applyUpdates_chains w.ensureLoaded.1).trans hl
    split
    · exact hl
    · split
      · split
        · exact hu
        · exact (ih _).trans hu
      · exact hu

theorem apply_chains (w : W) : w.apply.1.t.chains = w.t.chains := by
  unfold W.apply
  have := applyLoop_chains 11 w
  cases hr : W.applyLoop 11 w with
  | mk w' ok =>
    rw [hr] at this
    dsimp only
    split <;> exact this

/-- Calls keep the reference graph ranked: a chain's rules only jump to chains of strictly lower rank. -/
def Op.ranked (rk : String → Nat) : Op → Prop
  | .chain c ch => ∀ x ∈ refsOf ch.rules, rk x < rk c
  | _ => True

theorem stepOp_ranked (rk : String → Nat) (w : W) (o : Op) (ho : o.ranked rk) (h : Ranked rk w.t) :
    Ranked rk (w.stepOp o).1.t := by
  cases o with
  | restart m => intro c ch hc; simp [W.stepOp, T.new, Map.get] at hc
  | kchain n rs => exact h
  | kdelchain n => exact h
  | chain n ch =>
    intro c ch' hc
    have hc' : (w.t.updateChain n ch).chains.get c = some ch' := hc
    rw [updateChain_chains, Map.get_set] at hc'
    split at hc'
    · rename_i hcn
      simp only [Option.some.injEq] at hc'
      rw [← hc', hcn]; exact ho
    · exact h c ch' hc'
  | rmchain n =>
    intro c ch' hc
    have hc' : (w.t.removeChain n).chains.get c = some ch' := hc
    rcases removeChain_chains w.t n with e | e
    · rw [e] at hc'; exact h c ch' hc'
    · rw [e, Map.get_erase] at hc'
      split at hc'
      · simp at hc'
      · exact h c ch' hc'
  | ins c rs => intro c' ch' hc; exact h c' ch' (by rw [← setInserts_chains w.t c rs]; exact hc)
  | app c rs => intro c' ch' hc; exact h c' ch' (by rw [← setAppends_chains w.t c rs]; exact hc)
  | invalidate => exact h
  | apply sf rf pre =>
    intro c ch' hc
    have hc' : ({ w with saveFails := sf, restoreFails := rf, pre := pre, trace := [] } : W).apply.1.t.chains.get c = some ch' := hc
    rw [apply_chains] at hc'
    exact h c ch' hc'

theorem run_ranked (rk : String → Nat) : ∀ (ops : List Op) (w : W), (∀ o ∈ ops, o.ranked rk) → Ranked rk w.t →
    Ranked rk (w.run ops).t := by
  unfold W.run
  intro ops
  induction ops with
  | nil => intro w _ h; exact h
  | cons o ops ih =>
    intro w hr h
    simp only [List.foldl]
    apply ih _ (fun o' ho' => hr o' (List.mem_cons_of_mem _ ho'))
    split
    · exact h
    · exact stepOp_ranked rk w o (hr o List.mem_cons_self) h

end CalicoVerif.C15
