import CalicoVerif.Proofs.C16j
namespace CalicoVerif.C16

namespace Map
variable {α : Type}

theorem has_erase (m : Map α) (k k' : String) : (m.erase k).has k' = (k' != k && m.has k') := by
  simp only [has, get_erase]
  by_cases h : k' = k <;> simp [h]

theorem has_iff_mem_keys (m : Map α) (n : String) : m.has n = true ↔ n ∈ m.keys := by
  induction m with
  | nil => simp [has, get, keys, List.lookup]
  | cons p m ih =>
    obtain ⟨a, b⟩ := p
    simp only [has, get, keys, List.lookup, List.map_cons, List.mem_cons] at ih ⊢
    by_cases h : n = a
    · subst h; simp
    · have : (n == a) = false := by simp [h]
      simp only [this, h, false_or]
      exact ih

theorem get_isSome_of_has {m : Map α} {n : String} (h : m.has n = true) : ∃ v, m.get n = some v := by
  simp only [has] at h
  exact Option.isSome_iff_exists.1 h

theorem has_of_get {m : Map α} {n : String} {v : α} (h : m.get n = some v) : m.has n = true := by
  simp [has, h]

end Map

/-! ### Set-like list helpers -/

theorem mem_sAdd {s : List String} {x y : String} : y ∈ sAdd s x ↔ y ∈ s ∨ y = x := by
  unfold sAdd
  split
  · constructor
    · exact Or.inl
    · rintro (h | rfl)
      · exact h
      · assumption
  · simp

theorem mem_sErase_iff {s : List String} {x y : String} : y ∈ sErase s x ↔ y ∈ s ∧ y ≠ x := by
  unfold sErase; simp [List.mem_filter]

theorem mem_foldl_sAdd {xs : List String} : ∀ {s : List String} {y : String},
    y ∈ xs.foldl sAdd s ↔ y ∈ s ∨ y ∈ xs := by
  induction xs with
  | nil => intro s y; simp
  | cons x xs ih =>
    intro s y
    simp only [List.foldl, ih, mem_sAdd, List.mem_cons]
    constructor
    · rintro ((h | h) | h)
      · exact Or.inl h
      · exact Or.inr (Or.inl h)
      · exact Or.inr (Or.inr h)
    · rintro (h | h | h)
      · exact Or.inl (Or.inl h)
      · exact Or.inl (Or.inr h)
      · exact Or.inr h

theorem mem_foldl_sErase {xs : List String} : ∀ {s : List String} {y : String},
    y ∈ xs.foldl sErase s ↔ y ∈ s ∧ y ∉ xs := by
  induction xs with
  | nil => intro s y; simp
  | cons x xs ih =>
    intro s y
    simp only [List.foldl, ih, mem_sErase_iff, List.mem_cons, not_or]
    constructor
    · rintro ⟨⟨h1, h2⟩, h3⟩; exact ⟨h1, h2, h3⟩
    · rintro ⟨h1, h2, h3⟩; exact ⟨⟨h1, h2⟩, h3⟩

end CalicoVerif.C16
