import CalicoVerif.Proofs.C39Hist
/-!
C39 helper lemmas, part 3: passes in which API writes fail (`reconcileF`).
-/
namespace CalicoVerif.C39
open CalicoVerif.C36

/-- Allocatable=True and actually used by IPAM (`filterIPPool` skips disabled and deleting pools). -/
def Eff (p : Pool) : Prop := p.allocTrue = true ∧ p.disabled = false ∧ p.deleting = false

def EffD (a b : Pool) : Prop := Eff a → Eff b → overlapP a b = false

/-- No two effectively allocatable pools overlap. -/
def EffDisjoint (pools : List Pool) : Prop := pools.Pairwise EffD

theorem EffD.symm {a b : Pool} (h : EffD a b) : EffD b a := fun hb ha => by rw [overlapP_comm]; exact h ha hb

theorem passPool_name (F : Fails) (b : List (Bool × Pfx)) (p : Pool) (v : Verdict) : (passPool F b p v).name = p.name := rfl
theorem passPool_cidr (F : Fails) (b : List (Bool × Pfx)) (p : Pool) (v : Verdict) : (passPool F b p v).cidr = p.cidr := rfl
theorem passPool_deleting (F : Fails) (b : List (Bool × Pfx)) (p : Pool) (v : Verdict) : (passPool F b p v).deleting = p.deleting := rfl
theorem passPool_disabled (F : Fails) (b : List (Bool × Pfx)) (p : Pool) (v : Verdict) : (passPool F b p v).disabled = p.disabled := rfl

/-- Whatever writes fail, a pass turns `Allocatable` True only on pools it judged active. -/
theorem passPool_allocTrue {F : Fails} {b : List (Bool × Pfx)} {p : Pool} {v : Verdict}
    (h : (passPool F b p v).allocTrue = true) : v = .active ∨ p.allocTrue = true := by
  by_cases hf : F.status p.name = true
  · right
    have e : (passPool F b p v).cond = p.cond := by simp [passPool, hf]
    unfold Pool.allocTrue at h ⊢; rw [e] at h; exact h
  · have e : (passPool F b p v).cond = (applyVerdict p v).cond := by simp [passPool, hf]
    have h' : (applyVerdict p v).allocTrue = true := by unfold Pool.allocTrue at h ⊢; rw [← e]; exact h
    rcases (applyVerdict_allocTrue p v).1 h' with e | ⟨_, e⟩
    · exact Or.inl e
    · exact Or.inr e

theorem reconcileFinalizer_keeps2 (b : List (Bool × Pfx)) (p : Pool) :
    (reconcileFinalizer b p).created = p.created ∧ (reconcileFinalizer b p).disabled = p.disabled := by
  unfold reconcileFinalizer
  split
  · split <;> simp
  · split
    · simp
    · split
      · simp
      · split <;> simp

theorem applyVerdict_created (p : Pool) (v : Verdict) : (applyVerdict p v).created = p.created := by cases v <;> rfl
theorem applyVerdict_disabled (p : Pool) (v : Verdict) : (applyVerdict p v).disabled = p.disabled := by cases v <;> rfl

theorem mem_loopSpec_fst {S ps : List Pool} {pv : Pool × Verdict} (h : pv ∈ loopSpec S ps) : pv.1 ∈ ps := by
  have : pv.1 ∈ (loopSpec S ps).map (·.1) := List.mem_map.2 ⟨pv, h, rfl⟩
  rwa [loopSpec_map_fst] at this

/-- In a sorted list whose effectively allocatable pools are pairwise disjoint, EVERY entry of an
incumbent (category 0) that is not disabled and has a valid CIDR carries the verdict `active`. -/
theorem loopSpec_incumbents_all : ∀ (ps : List Pool) (S : List Pool),
    ps.Pairwise (fun a b => a.le b = true) → ps.Pairwise EffD →
    (∀ s ∈ S, Eff s) → (∀ s ∈ S, ∀ x ∈ ps, EffD s x) →
    ∀ pv ∈ loopSpec S ps, pv.1.category = 0 → pv.1.disabled = false → pv.1.cidr ≠ none → pv.2 = .active
  | [], _, _, _, _, _, pv, hpv, _, _, _ => by simp [loopSpec] at hpv
  | h :: ps, S, hs, hj, hS0, hSJ, pv, hpv, hp0, hpd, hpc => by
    have hs' := List.pairwise_cons.1 hs
    have hj' := List.pairwise_cons.1 hj
    have hSJ1 : ∀ s ∈ S, ∀ x ∈ ps, EffD s x := fun s hs x hx => hSJ s hs x (List.mem_cons_of_mem _ hx)
    have ih := fun S' h1 h2 hm => loopSpec_incumbents_all ps S' hs'.2 hj'.2 h1 h2 pv hm hp0 hpd hpc
    -- once the head is not an incumbent nothing after it is
    have vacT : ∀ S', 1 ≤ h.category → pv ∈ loopSpec S' ps → False := by
      intro S' hc hm
      have := Pool.category_le_of_le (hs'.1 pv.1 (mem_loopSpec_fst hm)); omega
    unfold loopSpec at hpv
    split at hpv
    · rename_i hc
      rcases List.mem_cons.1 hpv with e | hm
      · subst e; exact absurd hc hpc
      · exact ih S hS0 hSJ1 hm
    · split at hpv
      · rename_i hd
        rcases List.mem_cons.1 hpv with e | hm
        · subst e; simp only at hpd; rw [hd] at hpd; cases hpd
        · exact ih S hS0 hSJ1 hm
      · split at hpv
        · rename_i hdel
          have hc1 : 1 ≤ h.category := by unfold Pool.category; rw [hdel]; simp
          rcases List.mem_cons.1 hpv with e | hm
          · subst e; simp only at hp0; omega
          · exact (vacT _ hc1 hm).elim
        · rename_i hdis hdel
          have hdel' : h.deleting = false := by cases hh : h.deleting <;> simp_all
          have hdis' : h.disabled = false := by cases hh : h.disabled <;> simp_all
          by_cases h0 : h.category = 0
          · have hEff : Eff h := ⟨((category_zero_iff h).1 h0).1, hdis', hdel'⟩
            have hno : (S.any fun q => overlapP q h) = false := by
              rw [List.any_eq_false]
              intro s hs
              have := hSJ s hs h (List.mem_cons_self ..) (hS0 s hs) hEff
              rw [this]; simp
            rw [if_neg (by rw [hno]; simp)] at hpv
            rcases List.mem_cons.1 hpv with e | hm
            · subst e; rfl
            · refine ih (h :: S) ?_ ?_ hm
              · intro s hs
                rcases List.mem_cons.1 hs with e | hs
                · subst e; exact hEff
                · exact hS0 s hs
              · intro s hs x hx
                rcases List.mem_cons.1 hs with e | hs
                · subst e; exact hj'.1 x hx
                · exact hSJ1 s hs x hx
          · have hc1 : 1 ≤ h.category := by omega
            split at hpv
            · rcases List.mem_cons.1 hpv with e | hm
              · subst e; simp only at hp0; omega
              · exact (vacT _ hc1 hm).elim
            · rcases List.mem_cons.1 hpv with e | hm
              · subst e; simp only at hp0; omega
              · exact (vacT _ hc1 hm).elim

/-- **Any failure plan**: a pass never makes two effectively allocatable pools overlap. -/
theorem effDisjoint_pass (F : Fails) (blocks : List (Bool × Pfx)) (pools : List Pool) (hw : ∀ p ∈ pools, p.WF)
    (hE : EffDisjoint pools) : EffDisjoint (reconcileF F blocks pools) := by
  unfold EffDisjoint reconcileF gc
  refine List.Pairwise.sublist List.filter_sublist ?_
  rw [List.pairwise_map]
  have hsortedE : (sortPools pools).Pairwise EffD :=
    (List.mergeSort_perm pools Pool.le).symm.pairwise hE (fun h => EffD.symm h)
  have h1 := loopSpec_pairwise (sortPools pools) []
  have h2 : (loopSpec [] (sortPools pools)).Pairwise (fun a b => EffD a.1 b.1) := by
    have := hsortedE
    rw [← loopSpec_map_fst (sortPools pools) [], List.pairwise_map] at this
    exact this
  have h3 : (loopSpec [] (sortPools pools)).Pairwise (fun a b => a.1.le b.1 = true) := by
    have := sortPools_sorted pools
    rw [← loopSpec_map_fst (sortPools pools) [], List.pairwise_map] at this
    exact this
  have hall := loopSpec_incumbents_all (sortPools pools) [] (sortPools_sorted pools) hsortedE
    (fun s hs => by cases hs) (fun s hs => by cases hs)
  rw [verdicts_eq_spec hw]
  refine List.Pairwise.imp_of_mem ?_ ((h1.and h2).and h3)
  intro a b ha hb hR hEa hEb
  obtain ⟨⟨hR1, hR2⟩, hR3⟩ := hR
  show overlapP (passPool F blocks a.1 a.2) (passPool F blocks b.1 b.2) = false
  rw [overlapP_congr (passPool_cidr ..) (passPool_cidr ..)]
  have hda : a.1.disabled = false := hEa.2.1
  have hla : a.1.deleting = false := hEa.2.2
  have hdb : b.1.disabled = false := hEb.2.1
  have hlb : b.1.deleting = false := hEb.2.2
  have va := loopSpec_verdict _ _ a ha
  have vb := loopSpec_verdict _ _ b hb
  -- a pool that was already True, enabled, not deleting and valid is an incumbent: verdict active
  have inc : ∀ x : Pool × Verdict, x ∈ loopSpec [] (sortPools pools) → x.1.allocTrue = true →
      x.1.disabled = false → x.1.deleting = false → x.1.cidr ≠ none → x.2 = .active :=
    fun x hx ht hd hl hc => hall x hx ((category_zero_iff x.1).2 ⟨ht, hl⟩) hd hc
  by_cases hca : a.1.cidr = none
  · unfold overlapP; rw [hca]
  by_cases hcb : b.1.cidr = none
  · unfold overlapP; rw [hcb]; cases a.1.cidr <;> rfl
  have haa : a.2 = .active := by
    rcases passPool_allocTrue hEa.1 with e | e
    · exact e
    · exact inc a ha e hda hla hca
  have hba : b.2 = .active := by
    rcases passPool_allocTrue hEb.1 with e | e
    · exact e
    · exact inc b hb e hdb hlb hcb
  exact hR1 (Or.inl haa) hba

end CalicoVerif.C39
