import CalicoVerif.Model.C07
/-! C07 helper lemmas: the callbacks of every operation form a valid start/stop
trace from the old match set to the new one. -/
namespace CalicoVerif.C07
open CalicoVerif.C06

abbrev MS := List (Nat × Nat)

/-- Applying a callback trace to a match set: a start is only legal for a pair
that is not matching, a stop only for a pair that is. -/
inductive Replay : MS → List Event → MS → Prop
  | nil (ms) : Replay ms [] ms
  | start {ms s i evs ms'} : (s, i) ∉ ms → Replay ((s, i) :: ms) evs ms' → Replay ms (.started s i :: evs) ms'
  | stop {ms s i evs ms'} : (s, i) ∈ ms → Replay (ms.filter (· ≠ (s, i))) evs ms' → Replay ms (.stopped s i :: evs) ms'

theorem Replay.append {a b c : MS} {e1 e2 : List Event} (h1 : Replay a e1 b) (h2 : Replay b e2 c) :
    Replay a (e1 ++ e2) c := by
  induction h1 with
  | nil => exact h2
  | start hn _ ih => exact .start hn (ih h2)
  | stop hm _ ih => exact .stop hm (ih h2)

theorem hasMatch_iff (ms : MS) (s i : Nat) : hasMatch ms s i = true ↔ (s, i) ∈ ms := by
  simp [hasMatch]

theorem storeMatch_replay (ms : MS) (s i : Nat) : Replay ms (storeMatch ms s i).2 (storeMatch ms s i).1 := by
  unfold storeMatch
  by_cases h : hasMatch ms s i = true
  · simp only [h, if_true]; exact .nil _
  · simp only [h]
    exact .start (fun hm => h ((hasMatch_iff ..).mpr hm)) (.nil _)

theorem deleteMatch_replay (ms : MS) (s i : Nat) : Replay ms (deleteMatch ms s i).2 (deleteMatch ms s i).1 := by
  unfold deleteMatch
  by_cases h : hasMatch ms s i = true
  · simp only [h, if_true]
    exact .stop ((hasMatch_iff ..).mp h) (.nil _)
  · simp only [h]; exact .nil _

theorem updateMatches_replay (st : Idx) (ms : MS) (s : Nat) (n : Node) (i : Nat) (it : Item) :
    Replay ms (updateMatches st ms s n i it).2 (updateMatches st ms s n i it).1 := by
  unfold updateMatches
  split
  · exact storeMatch_replay ..
  · exact deleteMatch_replay ..

theorem scanSelectors_replay (st : Idx) (i : Nat) (it : Item) : ∀ (sels : List (Nat × Node)) (ms : MS),
    Replay ms (scanSelectors st i it sels ms).2 (scanSelectors st i it sels ms).1
  | [], ms => .nil _
  | (s, n) :: rest, ms => by
    simp only [scanSelectors]
    exact (updateMatches_replay st ms s n i it).append (scanSelectors_replay st i it rest _)

theorem scanItems_replay (st : Idx) (s : Nat) (n : Node) : ∀ (items : List (Nat × Item)) (ms : MS),
    Replay ms (scanItems st s n items ms).2 (scanItems st s n items ms).1
  | [], ms => .nil _
  | (i, it) :: rest, ms => by
    simp only [scanItems]
    exact (updateMatches_replay st ms s n i it).append (scanItems_replay st s n rest _)

theorem flushItems_replay (st : Idx) : ∀ (items : List (Nat × Item)) (ms : MS),
    Replay ms (flushItems st items ms).2 (flushItems st items ms).1
  | [], ms => .nil _
  | (i, it) :: rest, ms => by
    simp only [flushItems]
    exact (scanSelectors_replay st i it st.sels ms).append (flushItems_replay st rest _)

/-- stopping, one by one, every pair of a duplicate-free list that satisfies `p`. -/
theorem dropMatches_replay (p : Nat × Nat → Bool) : ∀ (ms : MS), ms.Nodup →
    Replay ms (dropMatches p ms).2 (dropMatches p ms).1 := by
  intro ms
  -- generalise: stop the `p`-pairs of a sublist `l` of the current set `cur`
  suffices h : ∀ (l cur : MS), l.Nodup → (∀ m ∈ l, p m = true → m ∈ cur) →
      Replay cur ((l.filter p).map (fun m => Event.stopped m.1 m.2))
        (cur.filter (fun m => !(l.contains m && p m))) by
    intro hnd
    have := h ms ms hnd (fun m hm _ => hm)
    unfold dropMatches
    have e : ms.filter (fun m => !(ms.contains m && p m)) = ms.filter (fun m => !p m) := by
      apply List.filter_congr
      intro m hm
      simp [hm]
    rw [e] at this
    exact this
  intro l
  induction l with
  | nil =>
    intro cur _ _
    have e : cur.filter (fun m => !(([] : MS).contains m && p m)) = cur := by
      simp
    rw [e]
    exact .nil _
  | cons a l ih =>
    intro cur hnd hsub
    have hnd' := (List.nodup_cons.mp hnd)
    by_cases hpa : p a = true
    · simp only [List.filter_cons, hpa, if_true, List.map_cons]
      refine .stop (hsub a (List.mem_cons_self ..) hpa) ?_
      have := ih (cur.filter (· ≠ (a.1, a.2))) hnd'.2 (by
        intro m hm hpm
        have hmc := hsub m (List.mem_cons_of_mem _ hm) hpm
        have hne : m ≠ a := fun e => hnd'.1 (e ▸ hm)
        simp [hmc, hne])
      have e : (cur.filter (· ≠ (a.1, a.2))).filter (fun m => !(l.contains m && p m)) =
          cur.filter (fun m => !((a :: l).contains m && p m)) := by
        rw [List.filter_filter]
        apply List.filter_congr
        intro m _
        by_cases hma : m = a
        · subst hma; simp [hpa]
        · have : ¬ (m = (a.1, a.2)) := hma
          simp [hma, List.contains_cons]
      rw [e] at this
      exact this
    · simp only [List.filter_cons, hpa]
      have := ih cur hnd'.2 (fun m hm hpm => hsub m (List.mem_cons_of_mem _ hm) hpm)
      have e : cur.filter (fun m => !(l.contains m && p m)) =
          cur.filter (fun m => !((a :: l).contains m && p m)) := by
        apply List.filter_congr
        intro m _
        by_cases hma : m = a
        · subst hma; simp [hpa]
        · simp [hma, List.contains_cons]
      rw [e] at this
      exact this

/-! the match list stays duplicate-free -/

theorem storeMatch_nodup {ms : MS} (h : ms.Nodup) (s i : Nat) : (storeMatch ms s i).1.Nodup := by
  unfold storeMatch
  by_cases hm : hasMatch ms s i = true
  · simpa [hm] using h
  · simp only [hm]
    exact List.nodup_cons.mpr ⟨fun hh => hm ((hasMatch_iff ..).mpr hh), h⟩

theorem deleteMatch_nodup {ms : MS} (h : ms.Nodup) (s i : Nat) : (deleteMatch ms s i).1.Nodup := by
  unfold deleteMatch
  split
  · exact h.filter _
  · exact h

theorem updateMatches_nodup (st : Idx) {ms : MS} (h : ms.Nodup) (s : Nat) (n : Node) (i : Nat) (it : Item) :
    (updateMatches st ms s n i it).1.Nodup := by
  unfold updateMatches
  split
  · exact storeMatch_nodup h ..
  · exact deleteMatch_nodup h ..

theorem scanSelectors_nodup (st : Idx) (i : Nat) (it : Item) : ∀ (sels : List (Nat × Node)) {ms : MS},
    ms.Nodup → (scanSelectors st i it sels ms).1.Nodup
  | [], _, h => h
  | (s, n) :: rest, ms, h => by
    simp only [scanSelectors]
    exact scanSelectors_nodup st i it rest (updateMatches_nodup st h s n i it)

theorem scanItems_nodup (st : Idx) (s : Nat) (n : Node) : ∀ (items : List (Nat × Item)) {ms : MS},
    ms.Nodup → (scanItems st s n items ms).1.Nodup
  | [], _, h => h
  | (i, it) :: rest, ms, h => by
    simp only [scanItems]
    exact scanItems_nodup st s n rest (updateMatches_nodup st h s n i it)

theorem flushItems_nodup (st : Idx) : ∀ (items : List (Nat × Item)) {ms : MS},
    ms.Nodup → (flushItems st items ms).1.Nodup
  | [], _, h => h
  | (i, it) :: rest, ms, h => by
    simp only [flushItems]
    exact flushItems_nodup st rest (scanSelectors_nodup st i it st.sels h)

end CalicoVerif.C07
