import CalicoVerif.Proofs.C16zc
set_option linter.unusedSimpArgs false
namespace CalicoVerif.C16

def sfStep (G : Felix) (p : String × Meta) : Felix :=
  (if G.needed p.1 then { G with desired := G.desired.set p.1 p.2 }
   else { G with desired := G.desired.erase p.1 }).updateDirtiness p.1

theorem sfStep_facts (G : Felix) (p : String × Meta) :
    (sfStep G p).allMeta = G.allMeta ∧ (sfStep G p).members = G.members ∧ (sfStep G p).filter = G.filter ∧
    (sfStep G p).dp = G.dp ∧ (sfStep G p).qMust = G.qMust ∧ (sfStep G p).qBg = G.qBg ∧
    ∀ n, (sfStep G p).desired.has n = (if n = p.1 then G.needed p.1 else G.desired.has n) := by
  unfold sfStep
  obtain ⟨d, hd, _⟩ := updateDirtiness_eq
    (if G.needed p.1 then { G with desired := G.desired.set p.1 p.2 } else { G with desired := G.desired.erase p.1 }) p.1
  rw [hd]
  by_cases hn : G.needed p.1 = true
  · rw [if_pos hn]
    refine ⟨rfl, rfl, rfl, rfl, rfl, rfl, ?_⟩
    intro n
    show (G.desired.set p.1 p.2).has n = _
    rw [Map.has_set]
    by_cases h : n = p.1 <;> simp [h, hn]
  · have hn' : G.needed p.1 = false := by simpa using hn
    rw [if_neg hn]
    refine ⟨rfl, rfl, rfl, rfl, rfl, rfl, ?_⟩
    intro n
    show (G.desired.erase p.1).has n = _
    rw [Map.has_erase]
    by_cases h : n = p.1 <;> simp [h, hn']

theorem sf_fold : ∀ (L : List (String × Meta)) (G : Felix),
    (L.foldl sfStep G).allMeta = G.allMeta ∧ (L.foldl sfStep G).members = G.members ∧
    (L.foldl sfStep G).filter = G.filter ∧ (L.foldl sfStep G).dp = G.dp ∧
    (L.foldl sfStep G).qMust = G.qMust ∧ (L.foldl sfStep G).qBg = G.qBg ∧
    ∀ n, (L.foldl sfStep G).desired.has n = (if n ∈ L.map (·.1) then G.needed n else G.desired.has n) := by
  intro L
  induction L with
  | nil => intro G; exact ⟨rfl, rfl, rfl, rfl, rfl, rfl, fun n => by simp⟩
  | cons p L ih =>
    intro G
    simp only [List.foldl]
    obtain ⟨a1, a2, a3, a4, a5, a6, a7⟩ := ih (sfStep G p)
    obtain ⟨b1, b2, b3, b4, b5, b6, b7⟩ := sfStep_facts G p
    refine ⟨a1.trans b1, a2.trans b2, a3.trans b3, a4.trans b4, a5.trans b5, a6.trans b6, ?_⟩
    intro n
    rw [a7 n, needed_congr b3, b7 n]
    simp only [List.map_cons, List.mem_cons]
    by_cases h1 : n ∈ L.map (·.1)
    · simp [h1]
    · by_cases h2 : n = p.1
      · subst h2; simp [h1]
      · simp [h1, h2]

theorem setFilter_inv {c : Cfg} {F : Felix} (h : Inv c F) (f : Option (List String)) : Inv c (F.setFilter f) := by
  unfold Felix.setFilter
  split
  · exact h
  · obtain ⟨hok, hq⟩ := h
    have hfold : (F.allMeta.foldl (fun F (p : String × Meta) =>
        let F := if F.needed p.1 then { F with desired := F.desired.set p.1 p.2 }
                 else { F with desired := F.desired.erase p.1 }
        F.updateDirtiness p.1) { F with filter := f }) = F.allMeta.foldl sfStep { F with filter := f } := rfl
    dsimp only
    rw [hfold]
    obtain ⟨a1, a2, a3, a4, a5, a6, a7⟩ := sf_fold F.allMeta { F with filter := f }
    have hkeys : ∀ n, n ∈ F.allMeta.map (·.1) ↔ F.allMeta.has n = true := fun n => (Map.has_iff_mem_keys F.allMeta n).symm
    refine ⟨⟨?_, ?_, ?_, ?_, ?_, ?_, ?_⟩, ⟨by rw [a4]; exact hq.dp, by rw [a5]; exact hq.qMust, by rw [a6]; exact hq.qBg⟩⟩
    · intro n hn
      rw [a7 n] at hn
      split at hn
      · rename_i hk; exact hok.allNotTemp n ((hkeys n).1 hk)
      · exact hok.notTemp n hn
    · intro n hn
      rw [a7 n] at hn
      split at hn
      · rename_i hk; exact hok.allOwned n ((hkeys n).1 hk)
      · exact hok.owned n hn
    · intro n hn
      rw [a7 n] at hn
      rw [a1]
      split at hn
      · rename_i hk; exact (hkeys n).1 hk
      · exact hok.inAll n hn
    · intro n hn
      rw [a1] at hn; rw [a2]; exact hok.tracked n hn
    · intro n hn
      rw [a7 n] at hn
      rw [needed_congr a3]
      split at hn
      · exact hn
      · rename_i hk
        exact absurd ((hkeys n).2 (hok.inAll n hn)) hk
    · intro n hn; rw [a1] at hn; exact hok.allOwned n hn
    · intro n hn; rw [a1] at hn; exact hok.allNotTemp n hn

theorem inv_init (c : Cfg) : Inv c ({} : Felix) := by
  refine ⟨⟨?_, ?_, ?_, ?_, ?_, ?_, ?_⟩, ⟨?_, ?_, ?_⟩⟩ <;> intro n hn <;> simp [Map.has, Map.get, List.lookup] at hn

/-- **The invariant is inductive**: every operation (API call, restart, out-of-band kernel edit,
`ApplyUpdates`/`ApplyDeletions` with any failure plan and any hints) preserves it, and no operation
changes the configuration. -/
theorem stepOp_inv (w : W) (op : Op) (hc : CfgOK w.cfg) (hm : CfgMain w.cfg) (h : Inv w.cfg w.F) :
    (w.stepOp op).1.cfg = w.cfg ∧ Inv w.cfg (w.stepOp op).1.F := by
  cases op with
  | add id t ms a b mem => exact ⟨rfl, addOrReplace_inv hm h id _ mem⟩
  | rm id =>
    simp only [W.stepOp, orDead]
    cases he : w.F.remove w.cfg id with
    | none => exact ⟨rfl, h⟩
    | some F' => exact ⟨rfl, remove_inv h he⟩
  | addm id mem =>
    simp only [W.stepOp, orDead]
    cases he : w.F.addMembers w.cfg id mem with
    | none => exact ⟨rfl, h⟩
    | some F' => exact ⟨rfl, addMembers_inv h he⟩
  | delm id mem =>
    simp only [W.stepOp, orDead]
    cases he : w.F.removeMembers w.cfg id mem with
    | none => exact ⟨rfl, h⟩
    | some F' => exact ⟨rfl, removeMembers_inv h he⟩
  | filter f => exact ⟨rfl, setFilter_inv h f⟩
  | qresync => exact ⟨rfl, ⟨h.1.notTemp, h.1.owned, h.1.inAll, h.1.tracked, h.1.needed, h.1.allOwned, h.1.allNotTemp⟩,
      ⟨h.2.dp, h.2.qMust, h.2.qBg⟩⟩
  | restart => exact ⟨rfl, inv_init w.cfg⟩
  | apply plan hr hd =>
    have := applyUpdates_inv ({ w with plan := plan, hintR := hr, hintD := hd, trace := [] } : W) hc h
    exact ⟨this.1.cfg, this.2⟩
  | applydel plan hd =>
    have := applyDeletions_inv ({ w with plan := plan, hintR := [], hintD := hd, trace := [] } : W) h
    exact ⟨this.1.cfg, this.2⟩
  | kset n k => exact ⟨rfl, h⟩
  | kdel n => exact ⟨rfl, h⟩
  | kdrop n k =>
    simp only [W.stepOp]
    split
    · split <;> exact ⟨rfl, h⟩
    · exact ⟨rfl, h⟩

/-- Run a whole history. -/
def W.run (w : W) : List Op → W
  | [] => w
  | op :: ops => ((w.stepOp op).1).run ops

theorem run_inv : ∀ (ops : List Op) (w : W), CfgOK w.cfg → CfgMain w.cfg → Inv w.cfg w.F →
    (w.run ops).cfg = w.cfg ∧ Inv w.cfg (w.run ops).F := by
  intro ops
  induction ops with
  | nil => intro w _ _ h; exact ⟨rfl, h⟩
  | cons op ops ih =>
    intro w hc hm h
    obtain ⟨h1, h2⟩ := stepOp_inv w op hc hm h
    have := ih (w.stepOp op).1 (h1 ▸ hc) (h1 ▸ hm) (h1 ▸ h2)
    simp only [W.run]
    exact ⟨this.1.trans h1, by rw [← h1]; exact this.2⟩

end CalicoVerif.C16
