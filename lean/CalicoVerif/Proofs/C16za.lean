import CalicoVerif.Proofs.C16z
set_option linter.unusedSimpArgs false
namespace CalicoVerif.C16

/-- Names in Felix's dataplane view and in the resync queue are names Felix owns. -/
structure QD (c : Cfg) (F : Felix) : Prop where
  dp : ∀ b, F.dp.has b = true → c.owns b = true
  qMust : ∀ x ∈ F.qMust, c.owns x = true
  qBg : ∀ x ∈ F.qBg, c.owns x = true

theorem qAdd_QD {c : Cfg} {F : Felix} (h : QD c F) (m : String) (b : Bool) (hm : c.owns m = true) :
    QD c (F.qAdd m b) := by
  unfold Felix.qAdd
  split
  · exact h
  · split
    · split
      · refine ⟨h.dp, ?_, ?_⟩
        · intro x hx
          simp only [List.mem_append, List.mem_singleton] at hx
          rcases hx with hx | rfl
          · exact h.qMust x hx
          · exact hm
        · intro x hx; exact h.qBg x (mem_sErase_iff.1 hx).1
      · exact h
    · split
      · refine ⟨h.dp, ?_, h.qBg⟩
        intro x hx
        simp only [List.mem_append, List.mem_singleton] at hx
        rcases hx with hx | rfl
        · exact h.qMust x hx
        · exact hm
      · refine ⟨h.dp, h.qMust, ?_⟩
        intro x hx
        simp only [List.mem_append, List.mem_singleton] at hx
        rcases hx with hx | rfl
        · exact h.qBg x hx
        · exact hm

theorem qAddAll_QD {c : Cfg} (b : Bool) : ∀ (L : List String) (F : Felix), QD c F → (∀ x ∈ L, c.owns x = true) →
    QD c (L.foldl (fun F n => F.qAdd n b) F) := by
  intro L F h hL
  exact foldl_inv_mem (fun G => QD c G) _ L F (fun G m hm hG => qAdd_QD hG m b (hL m hm)) h

theorem applyList_QD {c c' : Cfg} {F : Felix} (h : QD c F) (m : String) (lr : LR) (hm : c.owns m = true) :
    QD c (F.applyList c' m lr).1 := by
  refine ⟨?_, ?_, ?_⟩
  · intro b hb
    rcases applyList_dp_has c' F m b lr hb with h' | rfl
    · exact h.dp b h'
    · exact hm
  · intro x hx; exact h.qMust x ((applyList_queues c' F m lr).1 x hx)
  · intro x hx; exact h.qBg x ((applyList_queues c' F m lr).2 x hx)

theorem onMissing_QD {c : Cfg} {F : Felix} (h : QD c F) (m : String) : QD c (F.onMissing m) := by
  refine ⟨?_, ?_, ?_⟩
  · intro b hb
    rw [onMissing_dp, Map.has_erase, Bool.and_eq_true] at hb
    exact h.dp b hb.2
  · intro x hx; rw [(onMissing_queues F m).1] at hx; exact h.qMust x (mem_sErase_iff.1 hx).1
  · intro x hx; rw [(onMissing_queues F m).2] at hx; exact h.qBg x (mem_sErase_iff.1 hx).1

theorem sweep_QD {c : Cfg} {F : Felix} (h : QD c F) (listed : List String) : QD c (F.sweep listed) := by
  unfold Felix.sweep
  exact foldl_inv (fun G => QD c G) _ (fun G m hG => onMissing_QD hG m) _ F h

theorem afterListing_QD {c : Cfg} {F : Felix} (h : QD c F) (listed : List String) (b : Bool)
    (hl : ∀ x ∈ listed, c.owns x = true) : QD c (F.afterListing listed b) := by
  have hl' : ∀ x ∈ sortS listed, c.owns x = true := fun x hx => hl x (mem_sortS.1 hx)
  unfold Felix.afterListing
  split
  · have := sweep_QD (qAddAll_QD true (sortS listed) F h hl') listed
    exact ⟨this.dp, this.qMust, this.qBg⟩
  · have := qAddAll_QD false (sortS listed) _ (sweep_QD h listed) hl'
    exact ⟨this.dp, this.qMust, this.qBg⟩

theorem drainStep_QD {c : Cfg} (acc : W × Bool) (m : String) (h : QD c acc.1.F) (hm : c.owns m = true) :
    QD c (W.drainStep acc m).1.F := by
  obtain ⟨lr, _, _, _, hF, _⟩ := drainStep_desc acc m
  rcases hF with hF | hF
  · rw [hF]; exact applyList_QD h m lr hm
  · rw [hF]; exact qAdd_QD (applyList_QD h m lr hm) m true hm

theorem drain_QD {c : Cfg} (w : W) (h : QD c w.F) : QD c w.drain.1.F := by
  unfold W.drain
  dsimp only
  have h0 : QD c ({ w with F := { w.F with qMust := [] } } : W).F := ⟨h.dp, by simp, h.qBg⟩
  have h1 := foldl_inv_mem (fun (a : W × Bool) => QD c a.1.F) W.drainStep (sortS w.F.qMust)
    (({ w with F := { w.F with qMust := [] } } : W), false)
    (fun a m hm ha => drainStep_QD a m ha (h.qMust m (mem_sortS.1 hm))) h0
  split
  · exact h1
  · generalize List.foldl W.drainStep (({ w with F := { w.F with qMust := [] } } : W), false) (sortS w.F.qMust) = r at h1 ⊢
    have h2 : QD c ({ r.1 with F := { r.1.F with qBg := [] } } : W).F := ⟨h1.dp, h1.qMust, by simp⟩
    exact foldl_inv_mem (fun (a : W × Bool) => QD c a.1.F) W.drainStep (sortS r.1.F.qBg) _
      (fun a m hm ha => drainStep_QD a m ha (h1.qBg m (mem_sortS.1 hm))) h2

theorem beginResync_QD (w : W) (b : Bool) (h : QD w.cfg w.F) : QD w.cfg (w.beginResync b).1.F := by
  unfold W.beginResync
  have h0 : QD w.cfg (if b then ({ w with F := { w.F with qMust := [], qBg := [], dp := [] } } : W) else w).F := by
    split
    · exact ⟨by intro x hx; simp [Map.has, Map.get, List.lookup] at hx, by simp, by simp⟩
    · exact h
  have hc0 : (if b then ({ w with F := { w.F with qMust := [], qBg := [], dp := [] } } : W) else w).cfg = w.cfg := by
    split <;> rfl
  generalize (if b then ({ w with F := { w.F with qMust := [], qBg := [], dp := [] } } : W) else w) = w0 at h0 hc0
  obtain ⟨_, lF, lc, lres⟩ := listNames_desc w0
  dsimp only
  split
  · rename_i w1 heq
    rw [heq] at lF
    show QD w.cfg w1.F
    rw [show w1.F = w0.F from lF]; exact h0
  · rename_i w1 listed heq
    rw [heq] at lF lres
    show QD w.cfg (w1.F.afterListing listed b)
    rw [show w1.F = w0.F from lF]
    apply afterListing_QD h0
    rcases lres with lres | lres
    · simp at lres
    · simp only [Option.some.injEq] at lres
      intro x hx
      rw [lres, hc0] at hx
      exact (List.mem_filter.1 hx).2

theorem tryResync_QD (w : W) (h : QD w.cfg w.F) : QD w.cfg w.tryResync.1.F := by
  unfold W.tryResync
  split
  · have h1 := beginResync_QD w w.F.fullReq h
    split
    · rename_i w1 heq; rw [heq] at h1; exact h1
    · rename_i w1 heq; rw [heq] at h1; exact drain_QD w1 h1
  · exact drain_QD w h

theorem writeUpdates_dpq {c : Cfg} (hc : CfgOK c) {ord : List String → List String} {F F' : Felix} {n : String}
    {ls : List Line} (h : F.writeUpdates c ord n = some (F', ls)) :
    (∀ b, F'.dp.has b = true → F.dp.has b = true ∨ b = n ∨ c.isTemp b = true) ∧
    F'.qMust = F.qMust ∧ F'.qBg = F.qBg := by
  unfold Felix.writeUpdates at h
  split at h
  · dsimp only at h
    split at h
    · simp only [Option.some.injEq, Prod.mk.injEq] at h
      rw [← h.1]
      obtain ⟨k', hk'⟩ := nextFreeTemp_eq c (F.dp.length + 1) F
      obtain ⟨kidx, hkidx⟩ := nextFreeTemp_name c (F.dp.length + 1) F
      rw [hk', hkidx]
      refine ⟨?_, rfl, rfl⟩
      intro b hb
      simp only [Map.has_set, Bool.or_eq_true, beq_iff_eq] at hb
      rcases hb with rfl | rfl | hb
      · exact Or.inr (Or.inl rfl)
      · exact Or.inr (Or.inr (hc.tempIsTemp kidx))
      · exact Or.inl hb
    · simp only [Option.some.injEq, Prod.mk.injEq] at h
      rw [← h.1]
      refine ⟨?_, ?_, ?_⟩
      · intro b hb
        split at hb
        · simp only [Map.has_set, Bool.or_eq_true, beq_iff_eq] at hb
          rcases hb with rfl | hb
          · exact Or.inr (Or.inl rfl)
          · exact Or.inl hb
        · exact Or.inl hb
      · split <;> rfl
      · split <;> rfl
  · simp at h

theorem writeAll_QD {c : Cfg} (hc : CfgOK c) {ord : List String → List String} : ∀ (ns : List String) (F F' : Felix)
    (ls : List Line), QD c F → (∀ n ∈ ns, c.owns n = true) → writeAll c ord F ns = some (F', ls) → QD c F' := by
  intro ns
  induction ns with
  | nil => intro F F' ls h _ hw; simp only [writeAll, Option.some.injEq, Prod.mk.injEq] at hw; rw [← hw.1]; exact h
  | cons n ns ih =>
    intro F F' ls h hown hw
    simp only [writeAll] at hw
    split at hw
    · simp at hw
    · rename_i F1 l1 h1
      split at hw
      · simp at hw
      · rename_i F2 l2 h2
        simp only [Option.some.injEq, Prod.mk.injEq] at hw
        rw [← hw.1]
        obtain ⟨d1, d2, d3⟩ := writeUpdates_dpq hc h1
        have hq1 : QD c F1 := by
          refine ⟨?_, by rw [d2]; exact h.qMust, by rw [d3]; exact h.qBg⟩
          intro b hb
          rcases d1 b hb with h' | rfl | h'
          · exact h.dp b h'
          · exact hown _ List.mem_cons_self
          · exact hc.tempOwned b h'
        exact ih F1 F2 l2 hq1 (fun n' hn' => hown n' (List.mem_cons_of_mem _ hn')) h2

theorem runRestore_QD (w : W) (hc : CfgOK w.cfg) (rp : RPlan) (order : List String)
    (hown : ∀ n ∈ order, w.cfg.owns n = true) (h : QD w.cfg w.F) : QD w.cfg (w.runRestore rp order).1.F := by
  unfold W.runRestore
  split
  · exact h
  · rename_i F1 lines hwa
    have hq := writeAll_QD hc _ _ _ _ h hown hwa
    dsimp only
    split
    · exact ⟨hq.dp, hq.qMust, hq.qBg⟩
    · exact qAddAll_QD true order F1 hq hown

theorem tryUpdates_QD (w : W) (hc : CfgOK w.cfg) (hD : ∀ n, w.F.desired.has n = true → w.cfg.owns n = true)
    (h : QD w.cfg w.F) : QD w.cfg (w.tryUpdates w.F.dirtyForUpdate).1.F := by
  unfold W.tryUpdates
  split
  · exact h
  · dsimp only
    split
    · exact h
    · have h1 := pickOrder_same { w with plan := { w.plan with restores := (popRPlan w.plan.restores).2 } } w.F.dirtyForUpdate
      have hm := pickOrder_mem { w with plan := { w.plan with restores := (popRPlan w.plan.restores).2 } } w.F.dirtyForUpdate
      have := runRestore_QD
        (W.pickOrder { w with plan := { w.plan with restores := (popRPlan w.plan.restores).2 } } w.F.dirtyForUpdate).2
        (by rw [h1.2.2]; exact hc) (popRPlan w.plan.restores).1
        (W.pickOrder { w with plan := { w.plan with restores := (popRPlan w.plan.restores).2 } } w.F.dirtyForUpdate).1
        (by intro n hn; rw [h1.2.2]; exact hD n (dirtyForUpdate_desired w.F n (hm n hn)))
        (by rw [h1.2.2, h1.1]; exact h)
      rw [h1.2.2] at this; exact this

end CalicoVerif.C16
