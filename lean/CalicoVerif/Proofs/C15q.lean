import CalicoVerif.Proofs.C15p
set_option linter.unusedSimpArgs false
namespace CalicoVerif.C15

/-- Hash soundness, position-free: in a chain Felix wants, a kernel rule carrying the hash of one of the desired
rules IS that rule (hashes are collision-free tags: the chained hash covers chain name, position and all earlier
rules).  This is the one assumption about the kernel's contents; it survives deleting rules. -/
def HashSound (t : T) (K : Kernel) : Prop :=
  ∀ c ch rs, t.ours c = true → t.desiredChain c = some ch → K.get c = some rs →
    ∀ r ∈ rs, ∀ d ∈ ch.rules, r.hash = d.hash → r = d.k

theorem sound_of_mem : ∀ (rs : List KRule) (ds : List DRule),
    (∀ r ∈ rs, ∀ d ∈ ds, r.hash = d.hash → r = d.k) → Sound rs ds := by
  intro rs
  induction rs with
  | nil => intro ds _; cases ds <;> trivial
  | cons r rs ih =>
    intro ds h
    cases ds with
    | nil => trivial
    | cons d ds =>
      refine ⟨h r List.mem_cons_self d List.mem_cons_self, ih ds ?_⟩
      intro r' hr' d' hd'
      exact h r' (List.mem_cons_of_mem _ hr') d' (List.mem_cons_of_mem _ hd')

theorem save_frame : ∀ (n : Nat) (w : W), (W.save n w).1.t = w.t ∧ (W.save n w).1.K = w.K ∧ (W.save n w).1.pre = w.pre := by
  intro n
  induction n with
  | zero => intro w; exact ⟨rfl, rfl, rfl⟩
  | succ n ih =>
    intro w
    unfold W.save
    dsimp only
    split
    · split
      · exact ⟨rfl, rfl, rfl⟩
      · obtain ⟨h1, h2, h3⟩ := ih { w with saveFails := (popB w.saveFails).2, trace := "S:f" :: w.trace, sleeps := w.sleeps + 1 }
        exact ⟨h1, h2, h3⟩
    · exact ⟨rfl, rfl, rfl⟩

theorem ensureLoaded_spec (w : W) (hok : w.ensureLoaded.2 = true) :
    w.ensureLoaded.1.K = w.K ∧ w.ensureLoaded.1.pre = w.pre ∧
    w.ensureLoaded.1.t = (if w.t.inSync then w.t else w.t.load w.K) := by
  unfold W.ensureLoaded at hok ⊢
  cases hs : w.t.inSync with
  | true => simp
  | false =>
    simp only [hs, Bool.not_false, if_true, Bool.false_eq_true, if_false] at hok ⊢
    obtain ⟨h1, h2, h3⟩ := save_frame 4 w
    cases hr : (W.save 4 w).2 with
    | false => rw [hr] at hok; simp at hok
    | true =>
      simp only [if_true]
      exact ⟨h2, h3, by rw [h1, h2]⟩

theorem applyPre_none (w : W) (h : w.pre = none) : w.applyPre = w := by
  unfold W.applyPre; rw [h]

/-- What one `applyUpdates` does when nobody edits the table behind Felix's back (`pre = none`). -/
theorem applyUpdates_spec (w : W) (hpre : w.pre = none) :
    (w.t.plan = none ∧ w.applyUpdates.2 = true ∧ w.applyUpdates.1.t = w.t ∧ w.applyUpdates.1.K = w.K ∧ w.applyUpdates.1.pre = none) ∨
    (∃ lines newH newFull, w.t.plan = some (lines, newH, newFull) ∧
      ((w.applyUpdates.2 = true ∧ w.applyUpdates.1.t = w.t.invalidate ∧ w.applyUpdates.1.K = w.K ∧ w.applyUpdates.1.pre = none) ∨
       (∃ K', krestore w.K lines = some K' ∧ w.applyUpdates.2 = false ∧ w.applyUpdates.1.t = w.t.commit newH newFull ∧
          w.applyUpdates.1.K = K' ∧ w.applyUpdates.1.pre = none))) := by
  unfold W.applyUpdates
  cases hp : w.t.plan with
  | none => left; refine ⟨?_, ?_, ?_, ?_, ?_⟩ <;> first | rfl | trivial | exact hpre
  | some v =>
    obtain ⟨lines, newH, newFull⟩ := v
    right
    refine ⟨lines, newH, newFull, rfl, ?_⟩
    dsimp only
    by_cases he : lines.isEmpty = true
    · rw [if_pos he]
      right
      have : lines = [] := by simpa using he
      subst this
      exact ⟨w.K, rfl, rfl, rfl, rfl, hpre⟩
    · rw [if_neg he, applyPre_none w hpre]
      cases hf : (popB w.restoreFails).1 with
      | true =>
        simp only [if_true]
        left; refine ⟨?_, ?_, ?_, ?_⟩ <;> first | rfl | trivial | exact hpre
      | false =>
        simp only [Bool.false_eq_true, if_false]
        cases hk : krestore w.K lines with
        | none => left; refine ⟨?_, ?_, ?_, ?_⟩ <;> first | rfl | trivial | exact hpre
        | some K' => right; refine ⟨K', ?_, ?_, ?_, ?_, ?_⟩ <;> first | rfl | trivial | exact hpre

/-- With the cache in sync and no plan (the delete-rendering error), the loop can only give up. -/
theorem applyLoop_stuck : ∀ (fuel : Nat) (w : W), w.t.inSync = true → w.t.plan = none → w.pre = none →
    (W.applyLoop fuel w).2 = false := by
  intro fuel
  induction fuel with
  | zero => intro w _ _ _; rfl
  | succ fuel ih =>
    intro w hs hp hpre
    unfold W.applyLoop
    dsimp only
    have hl : w.ensureLoaded = (w, true) := by unfold W.ensureLoaded; simp [hs]
    rw [hl]
    simp only [Bool.not_true, Bool.false_eq_true, if_false]
    rcases applyUpdates_spec w hpre with ⟨_, h2, h3, _, h5⟩ | ⟨lines, newH, newFull, hp', _⟩
    · rw [h2]
      simp only [if_true]
      split
      · rfl
      · exact ih _ (by show w.applyUpdates.1.t.inSync = true; rw [h3]; exact hs)
          (by show w.applyUpdates.1.t.plan = none; rw [h3]; exact hp) h5
    · rw [hp] at hp'; simp at hp'

end CalicoVerif.C15
