import CalicoVerif.Proofs.C02Main
/-! C01: a list-based, printable accumulation of emitted messages (`Acc`) and the proof that it is
exactly C02's function-based dataplane state `DP.applyAll` — so the driver prints the very object the
C01 theorems speak about.  Core Lean only (imported by the driver). -/
namespace CalicoVerif.C01
open CalicoVerif C02

/-- accumulated dataplane state as association lists -/
structure Acc where
  ipsets : List (String × (Nat × List String)) := []
  pols : List (PolicyKey × Rules) := []
  profs : List (String × Rules) := []
  eps : List (EpKey × EpDown) := []
  vteps : List (String × String) := []
  routes : List (String × RouteData) := []
  gens : List ((GenCat × String) × String) := []

/-- effect of one message (mirrors `DP.apply`) -/
def Acc.apply (a : Acc) : Msg → Acc
  | .ipsetUpdate id typ ms => { a with ipsets := mset id (typ, ms) a.ipsets }
  | .ipsetDelta id ad rm =>
    match mget a.ipsets id with
    | some (t, ms) => { a with ipsets := mset id (t, (ms ++ ad).filter (fun m => decide (m ∉ rm))) a.ipsets }
    | none => a
  | .ipsetRemove id => { a with ipsets := mdel id a.ipsets }
  | .policyUpdate k r => { a with pols := mset k r a.pols }
  | .policyRemove k => { a with pols := mdel k a.pols }
  | .profileUpdate k r => { a with profs := mset k r a.profs }
  | .profileRemove k => { a with profs := mdel k a.profs }
  | .wepUpdate id dt t => { a with eps := mset (.wep id) ⟨dt, { normal := t }⟩ a.eps }
  | .hepUpdate id dt t u p f => { a with eps := mset (.hep id) ⟨dt, ⟨t, u, p, f⟩⟩ a.eps }
  | .wepRemove id => { a with eps := mdel (.wep id) a.eps }
  | .hepRemove id => { a with eps := mdel (.hep id) a.eps }
  | .vtepUpdate n t => { a with vteps := mset n t a.vteps }
  | .vtepRemove n => { a with vteps := mdel n a.vteps }
  | .routeUpdate dst r => { a with routes := mset dst r a.routes }
  | .routeRemove dst => { a with routes := mdel dst a.routes }
  | .genUpdate c k t => { a with gens := mset (c, k) t a.gens }
  | .genRemove c k => { a with gens := mdel (c, k) a.gens }
  | _ => a

def Acc.applyAll (a : Acc) (ms : List Msg) : Acc := ms.foldl Acc.apply a

/-- the dataplane state an `Acc` denotes -/
def Acc.toDP (a : Acc) : DP :=
  { ipsets := fun id => (mget a.ipsets id).map (fun p m => decide (m ∈ p.2))
    pol := mget a.pols
    prof := mget a.profs
    ep := mget a.eps
    vtep := mget a.vteps
    route := mget a.routes
    gen := fun c k => mget a.gens (c, k) }

theorem mget_mset_fn {κ β : Type} [DecidableEq κ] (m : List (κ × β)) (k : κ) (v : β) :
    mget (mset k v m) = fupd (mget m) k (some v) := by
  funext k'; simp [mget_mset, fupd]

theorem mget_mdel_fn {κ β : Type} [DecidableEq κ] (m : List (κ × β)) (k : κ) :
    mget (mdel k m) = fupd (mget m) k none := by
  funext k'; simp [mget_mdel, fupd]

theorem Acc.toDP_apply (a : Acc) (m : Msg) : (a.apply m).toDP = a.toDP.apply m := by
  cases m with
  | ipsetUpdate id typ ms =>
    refine DP.ext' ?_ rfl rfl rfl rfl rfl rfl
    funext id'
    simp only [Acc.apply, Acc.toDP, DP.apply, fupd, mget_mset]
    by_cases h : id' = id <;> simp [h]
  | ipsetDelta id ad rm =>
    simp only [Acc.apply, DP.apply]
    cases hg : mget a.ipsets id with
    | none => simp [Acc.toDP, hg]
    | some p =>
      obtain ⟨t, ms⟩ := p
      simp only [Acc.toDP, hg, Option.map_some]
      refine DP.ext' ?_ rfl rfl rfl rfl rfl rfl
      funext id'
      simp only [fupd, mget_mset]
      by_cases h : id' = id
      · subst h
        simp only [if_true, Option.map_some, Option.some.injEq]
        funext m
        simp only [List.mem_filter, List.mem_append, decide_eq_true_eq]
        by_cases h1 : m ∈ ms <;> by_cases h2 : m ∈ ad <;> by_cases h3 : m ∈ rm <;> simp [h1, h2, h3]
      · simp [h]
  | ipsetRemove id =>
    refine DP.ext' ?_ rfl rfl rfl rfl rfl rfl
    funext id'
    simp only [Acc.apply, Acc.toDP, DP.apply, fupd, mget_mdel]
    by_cases h : id' = id <;> simp [h]
  | policyUpdate k r => exact DP.ext' rfl (mget_mset_fn _ _ _) rfl rfl rfl rfl rfl
  | policyRemove k => exact DP.ext' rfl (mget_mdel_fn _ _) rfl rfl rfl rfl rfl
  | profileUpdate k r => exact DP.ext' rfl rfl (mget_mset_fn _ _ _) rfl rfl rfl rfl
  | profileRemove k => exact DP.ext' rfl rfl (mget_mdel_fn _ _) rfl rfl rfl rfl
  | wepUpdate id dt t => exact DP.ext' rfl rfl rfl (mget_mset_fn _ _ _) rfl rfl rfl
  | hepUpdate id dt t u p f => exact DP.ext' rfl rfl rfl (mget_mset_fn _ _ _) rfl rfl rfl
  | wepRemove id => exact DP.ext' rfl rfl rfl (mget_mdel_fn _ _) rfl rfl rfl
  | hepRemove id => exact DP.ext' rfl rfl rfl (mget_mdel_fn _ _) rfl rfl rfl
  | vtepUpdate n t => exact DP.ext' rfl rfl rfl rfl (mget_mset_fn _ _ _) rfl rfl
  | vtepRemove n => exact DP.ext' rfl rfl rfl rfl (mget_mdel_fn _ _) rfl rfl
  | routeUpdate dst r => exact DP.ext' rfl rfl rfl rfl rfl (mget_mset_fn _ _ _) rfl
  | routeRemove dst => exact DP.ext' rfl rfl rfl rfl rfl (mget_mdel_fn _ _) rfl
  | genUpdate c k t =>
    refine DP.ext' rfl rfl rfl rfl rfl rfl ?_
    funext c' k'
    simp only [Acc.apply, Acc.toDP, DP.apply, fupd, mget_mset, Prod.mk.injEq]
    by_cases hc : c' = c
    · subst hc; by_cases hk : k' = k <;> simp [hk, fupd]
    · simp [hc]
  | genRemove c k =>
    refine DP.ext' rfl rfl rfl rfl rfl rfl ?_
    funext c' k'
    simp only [Acc.apply, Acc.toDP, DP.apply, fupd, mget_mdel, Prod.mk.injEq]
    by_cases hc : c' = c
    · subst hc; by_cases hk : k' = k <;> simp [hk, fupd]
    · simp [hc]
  | _ => rfl

/-- the printable accumulation IS the dataplane state of the theorems -/
theorem Acc.toDP_applyAll (ms : List Msg) (a : Acc) : (a.applyAll ms).toDP = a.toDP.applyAll ms := by
  induction ms generalizing a with
  | nil => rfl
  | cons m ms ih =>
    simp only [Acc.applyAll, DP.applyAll, List.foldl_cons] at ih ⊢
    rw [ih, Acc.toDP_apply]

theorem Acc.toDP_empty : ({} : Acc).toDP = ({} : DP) := rfl

end CalicoVerif.C01
