import CalicoVerif.Proofs.C02Hist
/-! C02: route → VTEP closure after every message of a flush. -/
namespace CalicoVerif.C02

def isRV : Msg → Bool
  | .routeUpdate .. | .routeRemove .. | .vtepUpdate .. | .vtepRemove .. => true
  | _ => false

theorem nonRV_apply {m : Msg} (h : isRV m = false) (d : DP) :
    (d.apply m).route = d.route ∧ (d.apply m).vtep = d.vtep := by
  cases m <;> simp [isRV] at h <;> first | exact ⟨rfl, rfl⟩ | (simp only [DP.apply]; split <;> exact ⟨rfl, rfl⟩)

theorem closedRoutes_congr {d d' : DP} (h1 : d'.route = d.route) (h2 : d'.vtep = d.vtep) (h : d.closedRoutes) :
    d'.closedRoutes := by
  unfold DP.closedRoutes at *
  rw [h1, h2]; exact h

theorem closedR_nonRV {ms : List Msg} (h : ∀ m ∈ ms, isRV m = false) {d : DP} (hd : d.closedRoutes) :
    AfterEach DP.closedRoutes d ms ∧ (d.applyAll ms).closedRoutes ∧ (d.applyAll ms).route = d.route ∧
      (d.applyAll ms).vtep = d.vtep := by
  have := AfterEach_of_inv (P := DP.closedRoutes) (J := fun d' => d'.closedRoutes ∧ d'.route = d.route ∧ d'.vtep = d.vtep)
    (fun _ x => x.1)
    (fun m hm d' hd' => by
      obtain ⟨a, b⟩ := nonRV_apply (h m hm) d'
      exact ⟨closedRoutes_congr a b hd'.1, a.trans hd'.2.1, b.trans hd'.2.2⟩) (d := d) ⟨hd, rfl, rfl⟩
  exact ⟨this.1, this.2.1, this.2.2.1, this.2.2.2⟩

/-- the phases before the route/VTEP phases and after them emit no route/VTEP message -/
def prePhases : List Phase :=
  [flushReadyFlag, flushAddedIPSets, flushIPSetDeltas, flushPolicyUpdates, flushProfileUpdates, flushEndpointTierUpdates,
   flushEndpointTierDeletes, flushProfileDeletes, flushPolicyDeletes, flushRemovedIPSets, flushGen .sa, flushGen .ns]
def postPhases : List Phase :=
  [flushWgDeletes, flushWgUpdates, flushGen .host, flushGen .pool, flushEncap, flushBGP, flushGen .svc]

theorem nrv_gen (g : GenCat) : PhaseAll (fun m => isRV m = false) (flushGen g) := by
  intro s m hm
  simp only [flushGen, List.mem_append] at hm
  rcases hm with hm | hm
  · obtain ⟨k, _, rfl⟩ := mem_flushDel hm; rfl
  · obtain ⟨k, v, _, hm⟩ := mem_flushUpd hm
    simp only [List.mem_singleton] at hm; subst hm; rfl

theorem nrv_pre : PhaseAll (fun m => isRV m = false) (runPhases prePhases) := by
  apply phaseAll_run
  intro p hp
  simp only [prePhases, List.mem_cons, List.not_mem_nil, or_false] at hp
  rcases hp with rfl | rfl | rfl | rfl | rfl | rfl | rfl | rfl | rfl | rfl | rfl | rfl
  · intro s m hm
    unfold flushReadyFlag at hm
    by_cases h : s.notReady <;> simp [h] at hm
    subst hm; rfl
  · intro s m hm
    simp only [flushAddedIPSets, List.mem_map] at hm
    obtain ⟨_, _, rfl⟩ := hm; rfl
  · intro s m hm
    simp only [flushIPSetDeltas, List.mem_map] at hm
    obtain ⟨_, _, rfl⟩ := hm; rfl
  · intro s m hm
    obtain ⟨k, v, _, hm⟩ := mem_flushUpd (c := s.pol) (f := polUpdMsg) hm
    simp [polUpdMsg] at hm; subst hm; rfl
  · intro s m hm
    obtain ⟨k, v, _, hm⟩ := mem_flushUpd (c := s.prof) (f := profUpdMsg) hm
    simp [profUpdMsg] at hm; subst hm; rfl
  · intro s m hm
    obtain ⟨k, v, _, hm⟩ := mem_flushUpd (c := s.ep) (f := epUpdMsg) hm
    cases k <;> (simp [epUpdMsg] at hm; subst hm; rfl)
  · intro s m hm
    obtain ⟨k, _, rfl⟩ := mem_flushDel (c := s.ep) (f := epDelMsg) hm
    cases k <;> rfl
  · intro s m hm
    obtain ⟨k, _, rfl⟩ := mem_flushDel (c := s.prof) (f := Msg.profileRemove) hm; rfl
  · intro s m hm
    obtain ⟨k, _, rfl⟩ := mem_flushDel (c := s.pol) (f := Msg.policyRemove) hm; rfl
  · intro s m hm
    simp only [flushRemovedIPSets, List.mem_map] at hm
    obtain ⟨_, _, rfl⟩ := hm; rfl
  · exact nrv_gen _
  · exact nrv_gen _

theorem nrv_post : PhaseAll (fun m => isRV m = false) (runPhases postPhases) := by
  apply phaseAll_run
  intro p hp
  simp only [postPhases, List.mem_cons, List.not_mem_nil, or_false] at hp
  rcases hp with rfl | rfl | rfl | rfl | rfl | rfl | rfl
  · intro s
    simp only [flushWgDeletes]
    apply foldl_pred (fun m => isRV m = false)
    · intro acc k hacc
      obtain ⟨s4, s6, ms⟩ := acc
      simp only at hacc ⊢
      by_cases h4 : k ∈ s4 <;> by_cases h6 : k ∈ s6 <;> simp only [h4, h6, if_true, if_false]
      · exact all_snoc (all_snoc hacc rfl) rfl
      · exact all_snoc hacc rfl
      · exact all_snoc hacc rfl
      · exact hacc
    · simp
  · intro s
    simp only [flushWgUpdates]
    apply foldl_pred (fun m => isRV m = false)
    · intro acc p hacc
      obtain ⟨s4, s6, ms⟩ := acc
      obtain ⟨n, wg⟩ := p
      simp only at hacc ⊢
      by_cases h4 : wg.pub4 = "" <;> by_cases h6 : wg.pub6 = "" <;> by_cases m4 : n ∈ s4 <;> by_cases m6 : n ∈ s6 <;>
        simp only [h4, h6, m4, m6, ne_eq, not_true_eq_false, not_false_eq_true, if_true, if_false] <;>
        first
        | exact hacc
        | exact all_snoc hacc rfl
        | exact all_snoc (all_snoc hacc rfl) rfl
    · simp
  · exact nrv_gen _
  · exact nrv_gen _
  · intro s m hm
    unfold flushEncap at hm
    cases h : s.encap <;> simp [h] at hm
    subst hm; rfl
  · intro s m hm
    unfold flushBGP at hm
    cases h : s.bgp <;> simp [h] at hm
    subst hm; rfl
  · exact nrv_gen _

theorem runPhases_append (ps qs : List Phase) (s : State) :
    runPhases (ps ++ qs) s =
      ((runPhases qs (runPhases ps s).1).1, (runPhases ps s).2 ++ (runPhases qs (runPhases ps s).1).2) := by
  induction ps generalizing s with
  | nil => simp [runPhases]
  | cons p t ih => simp only [List.cons_append, runPhases_cons, ih, List.append_assoc]

theorem ok_pre : PhaseOK (runPhases prePhases) := by
  have h : PhaseOK (runPhases (flushReadyFlag :: flushIPSetsAB ::
      [flushPolicyUpdates, flushProfileUpdates, flushEndpointTierUpdates,
       flushEndpointTierDeletes, flushProfileDeletes, flushPolicyDeletes, flushRemovedIPSets,
       flushGen .sa, flushGen .ns])) := by
    repeat' first
      | exact PhaseOK.nil
      | apply PhaseOK.cons
    all_goals first
      | exact ok_readyFlag | exact ok_ipsetsAB | exact ok_policyUpdates | exact ok_profileUpdates
      | exact ok_endpointUpdates | exact ok_endpointDeletes | exact ok_profileDeletes | exact ok_policyDeletes
      | exact ok_removedIPSets | exact ok_gen _
  intro s u d hi
  have e : runPhases prePhases s = runPhases (flushReadyFlag :: flushIPSetsAB ::
      [flushPolicyUpdates, flushProfileUpdates, flushEndpointTierUpdates,
       flushEndpointTierDeletes, flushProfileDeletes, flushPolicyDeletes, flushRemovedIPSets,
       flushGen .sa, flushGen .ns]) s := by
    unfold prePhases
    rw [runPhases_cons, runPhases_AB]
    rfl
  rw [e]; exact h s u d hi

/-- pre-phases leave the route / VTEP buffers alone -/
theorem pre_buffers (s : State) : (runPhases prePhases s).1.route = s.route ∧ (runPhases prePhases s).1.vtep = s.vtep := by
  simp only [prePhases, runPhases_cons, runPhases]
  rw [readyFlag_fst]
  exact ⟨rfl, rfl⟩

theorem flush_split (s : State) : s.flush = runPhases (prePhases ++
    [flushRouteRemoves, flushVTEPAdds, flushRouteAdds, flushVTEPRemoves] ++ postPhases) s := rfl

/-- Route → VTEP closure after every single message of a flush (flush order: route removes, VTEP
adds, route adds/updates, VTEP removes). -/
theorem flush_closed_routes {s : State} {u d : DP} (hi : Inv s u d) (hu : u.closedRoutes) (hd : d.closedRoutes) :
    AfterEach DP.closedRoutes d s.flush.2 := by
  rw [flush_split, runPhases_append, runPhases_append]
  simp only [AfterEach_append]
  -- pre
  obtain ⟨k0, c0, r0, v0⟩ := closedR_nonRV (nrv_pre s) hd
  have i0 := (ok_pre s u d hi).2
  generalize hs0 : (runPhases prePhases s).1 = s0 at i0 ⊢
  generalize hd0 : d.applyAll (runPhases prePhases s).2 = d0 at i0 c0 r0 v0 ⊢
  have kmid : AfterEach DP.closedRoutes d0
      (runPhases [flushRouteRemoves, flushVTEPAdds, flushRouteAdds, flushVTEPRemoves] s0).2 := by
    simp only [runPhases_cons, runPhases, List.append_nil, AfterEach_append]
    -- R1: route removes
    have k1 : AfterEach DP.closedRoutes d0 (flushRouteRemoves s0).2 := by
      refine (AfterEach_of_inv (J := DP.closedRoutes) (fun _ x => x) ?_ c0).1
      intro m hm d' hd'
      obtain ⟨dst, _, rfl⟩ := mem_flushDel (c := s0.route) (f := Msg.routeRemove) hm
      intro dst' r n h1 h2
      simp only [DP.apply, fupd] at h1
      by_cases hdd : dst' = dst
      · simp [hdd] at h1
      · simp only [hdd, if_false] at h1; exact hd' dst' r n h1 h2
    have i1 := (ok_routeRemoves s0 u d0 i0).2
    have c1 := AfterEach_last k1
    have b1 : (flushRouteRemoves s0).1.route.del = [] := rfl
    generalize hs1 : (flushRouteRemoves s0).1 = s1 at i1 b1 ⊢
    generalize hd1 : d0.applyAll (flushRouteRemoves s0).2 = d1 at i1 c1 ⊢
    refine ⟨k1, ?_⟩
    -- R2: VTEP adds
    have k2 : AfterEach DP.closedRoutes d1 (flushVTEPAdds s1).2 := by
      refine (AfterEach_of_inv (J := DP.closedRoutes) (fun _ x => x) ?_ c1).1
      intro m hm d' hd'
      obtain ⟨n, t, _, hm⟩ := mem_flushUpd (c := s1.vtep) (f := fun k v => [Msg.vtepUpdate k v]) hm
      simp only [List.mem_singleton] at hm; subst hm
      intro dst r n' h1 h2
      show ((fupd d'.vtep n (some t)) n').isSome
      by_cases hnn : n' = n
      · simp [fupd, hnn]
      · simp only [fupd, hnn, if_false]; exact hd' dst r n' h1 h2
    have i2 := (ok_vtepAdds s1 u d1 i1).2
    have c2 := AfterEach_last k2
    have b2 : (flushVTEPAdds s1).1.route.del = [] := b1
    have b2' : (flushVTEPAdds s1).1.vtep.upd = [] := rfl
    generalize hs2 : (flushVTEPAdds s1).1 = s2 at i2 b2 b2' ⊢
    generalize hd2 : d1.applyAll (flushVTEPAdds s1).2 = d2 at i2 c2 ⊢
    refine ⟨k2, ?_⟩
    -- R3: route adds / updates: a declared VTEP is present (its update is flushed, its removal not yet)
    have hv : ∀ n, (u.vtep n).isSome → (d2.vtep n).isSome := by
      intro n hn
      rw [i2.vtep.view n, b2'] at hn
      simp only [mget_nil] at hn
      by_cases hdel : n ∈ s2.vtep.del <;> simp_all
    have k3 : AfterEach DP.closedRoutes d2 (flushRouteAdds s2).2 := by
      refine (AfterEach_of_inv (J := fun d' => d'.closedRoutes ∧ d'.vtep = d2.vtep) (fun _ x => x.1) ?_ ⟨c2, rfl⟩).1
      intro m hm d' hd'
      obtain ⟨dst, r, hdr, hm⟩ := mem_flushUpd (c := s2.route) (f := fun k v => [Msg.routeUpdate k v]) hm
      simp only [List.mem_singleton] at hm; subst hm
      have hur : u.route dst = some r := by
        rw [i2.route.view dst, mget_of_mem i2.route.updNodup hdr]
      refine ⟨?_, hd'.2⟩
      intro dst' r' n h1 h2
      show (d'.vtep n).isSome
      simp only [DP.apply, fupd] at h1
      by_cases hdd : dst' = dst
      · simp only [hdd, if_true, Option.some.injEq] at h1
        subst h1
        rw [hd'.2]
        exact hv n (hu dst r n hur h2)
      · simp only [hdd, if_false] at h1; exact hd'.1 dst' r' n h1 h2
    have i3 := (ok_routeAdds s2 u d2 i2).2
    have c3 := AfterEach_last k3
    have b3 : (flushRouteAdds s2).1.route.del = [] := b2
    have b3' : (flushRouteAdds s2).1.route.upd = [] := rfl
    generalize hs3 : (flushRouteAdds s2).1 = s3 at i3 b3 b3' ⊢
    generalize hd3 : d2.applyAll (flushRouteAdds s2).2 = d3 at i3 c3 ⊢
    refine ⟨k3, ?_⟩
    -- R4: VTEP removes: the routes downstream are exactly the declared ones, none needs a removed VTEP
    have hr : u.route = d3.route := i3.route.synced b3' b3
    refine (AfterEach_of_inv (J := fun d' => d'.closedRoutes ∧ d'.route = d3.route) (fun _ x => x.1) ?_ ⟨c3, rfl⟩).1
    intro m hm d' hd'
    obtain ⟨n, hn, rfl⟩ := mem_flushDel (c := s3.vtep) (f := Msg.vtepRemove) hm
    have hun : u.vtep n = none := by
      rw [i3.vtep.view n, i3.vtep.disj n hn]; simp [hn]
    refine ⟨?_, hd'.2⟩
    intro dst r n' h1 h2
    have h1' : d'.route dst = some r := h1
    show ((fupd d'.vtep n none) n').isSome
    have hne : n' ≠ n := by
      intro e; subst e
      rw [hd'.2, ← hr] at h1'
      have := hu dst r n' h1' h2
      rw [hun] at this; cases this
    simp only [fupd, hne, if_false]
    exact hd'.1 dst r n' h1' h2
  refine ⟨⟨k0, kmid⟩, ?_⟩
  rw [applyAll_append, hd0]
  exact (closedR_nonRV (nrv_post _) (AfterEach_last kmid)).1

/-- at every flush of the history the declared state is route-closed -/
def RoutesClosedAtFlushes (u : DP) : List Step → Prop
  | [] => True
  | .call c :: t => RoutesClosedAtFlushes (upApply u c) t
  | .flush :: t => u.closedRoutes ∧ RoutesClosedAtFlushes u t

/-- Route → VTEP closure after every single message, for all histories (with flushes anywhere) that
respect the upstream protocol and whose declared state is route-closed at each flush. -/
theorem hist_closed_routes {s : State} {u d : DP} (hi : Inv s u d) (hd : d.closedRoutes) (h : List Step)
    (hv : ValidHist u h) (hr : RoutesClosedAtFlushes u h) :
    ∃ s' ms, execHist s h = some (s', ms) ∧ AfterEach DP.closedRoutes d ms := by
  induction h generalizing s u d with
  | nil => exact ⟨s, [], rfl, hd⟩
  | cons st t ih =>
    cases st with
    | call c =>
      obtain ⟨s1, hcall, hi1⟩ := hi.call c hv.1
      obtain ⟨s', ms, he, hw⟩ := ih hi1 hd hv.2 hr
      exact ⟨s', ms, by simp only [execHist, hcall, he], hw⟩
    | flush =>
      have hf := flush_ok s u d hi
      have hcl := flush_closed_routes hi hr.1 hd
      obtain ⟨s', ms, he, hw⟩ := ih hf.2 (AfterEach_last hcl) hv hr.2
      refine ⟨s', s.flush.2 ++ ms, by simp only [execHist, he], ?_⟩
      rw [AfterEach_append]; exact ⟨hcl, hw⟩

end CalicoVerif.C02
