import CalicoVerif.Proofs.C15c
set_option linter.unusedSimpArgs false
namespace CalicoVerif.C15

/-- A line's effect on its own chain depends only on that chain. -/
theorem kline_local {K1 K2 K1' : Kernel} {l : RLine} (h : K1.get l.chain = K2.get l.chain)
    (hk : kline K1 l = some K1') : ∃ K2', kline K2 l = some K2' ∧ K2'.get l.chain = K1'.get l.chain := by
  cases l with
  | fwd c =>
    simp only [kline, Option.some.injEq] at hk; subst hk
    exact ⟨K2.set c [], rfl, by simp [RLine.chain, Map.get_set]⟩
  | append c r =>
    simp only [RLine.chain] at h
    simp only [kline, Option.map_eq_some_iff] at hk
    obtain ⟨rs, hrs, rfl⟩ := hk
    exact ⟨K2.set c (rs ++ [r]), by simp [kline, ← h, hrs], by simp [RLine.chain, Map.get_set]⟩
  | insert c r =>
    simp only [RLine.chain] at h
    simp only [kline, Option.map_eq_some_iff] at hk
    obtain ⟨rs, hrs, rfl⟩ := hk
    exact ⟨K2.set c (r :: rs), by simp [kline, ← h, hrs], by simp [RLine.chain, Map.get_set]⟩
  | replace c n r =>
    simp only [RLine.chain] at h
    simp only [kline] at hk
    split at hk
    · rename_i rs hrs
      split at hk
      · rename_i hb
        simp only [Option.some.injEq] at hk; subst hk
        exact ⟨K2.set c (rs.set (n - 1) r), by simp [kline, ← h, hrs, hb], by simp [RLine.chain, Map.get_set]⟩
      · simp at hk
    · simp at hk
  | delIdx c n =>
    simp only [RLine.chain] at h
    simp only [kline] at hk
    split at hk
    · rename_i rs hrs
      split at hk
      · rename_i hb
        simp only [Option.some.injEq] at hk; subst hk
        exact ⟨K2.set c (rs.eraseIdx (n - 1)), by simp [kline, ← h, hrs, hb], by simp [RLine.chain, Map.get_set]⟩
      · simp at hk
    · simp at hk
  | delVal c r =>
    simp only [RLine.chain] at h
    simp only [kline] at hk
    split at hk
    · rename_i rs hrs
      split at hk
      · rename_i hb
        simp only [Option.some.injEq] at hk; subst hk
        exact ⟨K2.set c (rs.filter (· != r)), by simp only [kline, ← h, hrs, hb, if_true], by simp [RLine.chain, Map.get_set]⟩
      · simp at hk
    · simp at hk
  | delChain c =>
    simp only [RLine.chain] at h
    simp only [kline] at hk
    split at hk
    · rename_i hrs
      simp only [Option.some.injEq] at hk; subst hk
      exact ⟨K2.erase c, by simp [kline, ← h, hrs], by simp [RLine.chain, Map.get_erase]⟩
    · simp at hk
  | bad t => simp [kline] at hk

/-- **Projection**: what a transaction does to chain `c` is what its lines naming `c` do. -/
theorem krestore_proj (c : String) : ∀ (ls : List RLine) (K Ks K' : Kernel), Ks.get c = K.get c →
    krestore K ls = some K' →
    ∃ Ks', krestore Ks (ls.filter (fun l => l.chain == c)) = some Ks' ∧ Ks'.get c = K'.get c := by
  intro ls
  induction ls with
  | nil =>
    intro K Ks K' h hk
    simp only [krestore, Option.some.injEq] at hk; subst hk
    exact ⟨Ks, rfl, h⟩
  | cons l ls ih =>
    intro K Ks K' h hk
    simp only [krestore, Option.bind_eq_some_iff] at hk
    obtain ⟨K1, hk1, hk2⟩ := hk
    by_cases hc : l.chain = c
    · have hf : (l :: ls).filter (fun l => l.chain == c) = l :: ls.filter (fun l => l.chain == c) := by
        simp [List.filter, hc]
      rw [hf]
      have hloc : K.get l.chain = Ks.get l.chain := by rw [hc]; exact h.symm
      obtain ⟨Ks1, hs1, hs2⟩ := kline_local hloc hk1
      obtain ⟨Ks', h1, h2⟩ := ih K1 Ks1 K' (by rw [← hc]; exact hs2) hk2
      exact ⟨Ks', by simp only [krestore, hs1, Option.bind_some]; exact h1, h2⟩
    · have hf : (l :: ls).filter (fun l => l.chain == c) = ls.filter (fun l => l.chain == c) := by
        have : (l.chain == c) = false := by simp [hc]
        rw [List.filter_cons]; simp [this]
      rw [hf]
      have := kline_other hk1 c (fun e => hc e.symm)
      exact ih K1 Ks K' (by rw [h, this]) hk2

theorem filter_eq_nodup {l : List String} (hn : l.Nodup) (c : String) :
    l.filter (fun x => x == c) = if c ∈ l then [c] else [] := by
  induction l with
  | nil => simp
  | cons a l ih =>
    simp only [List.nodup_cons] at hn
    simp only [List.filter]
    by_cases hac : a = c
    · subst hac
      simp only [beq_self_eq_true, List.mem_cons, true_or, if_true]
      rw [ih hn.2]; simp [hn.1]
    · have : (a == c) = false := by simp [hac]
      simp only [this, List.mem_cons]
      rw [ih hn.2]
      have : (c = a) = False := by simp [Ne.symm hac]
      simp [this]

theorem sortS_nodup {l : List String} (h : l.Nodup) : (sortS l).Nodup :=
  (List.mergeSort_perm l _).nodup_iff.2 h

end CalicoVerif.C15
