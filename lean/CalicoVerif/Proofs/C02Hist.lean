import CalicoVerif.Proofs.C02Closed
/-! C02: histories (upstream calls interleaved with flushes at arbitrary points) and the AsyncCalcGraph. -/
namespace CalicoVerif.C02

inductive Step
  | call (c : Call)
  | flush
deriving Repr

/-- Run a history on the sequencer; collects every emitted message in order.  `none` = a panic. -/
def execHist (s : State) : List Step → Option (State × List Msg)
  | [] => some (s, [])
  | .call c :: t => match s.call c with
    | none => none
    | some s' => execHist s' t
  | .flush :: t => match execHist s.flush.1 t with
    | none => none
    | some (s', ms) => some (s', s.flush.2 ++ ms)

/-- The upstream-declared state after a history. -/
def upHist (u : DP) : List Step → DP
  | [] => u
  | .call c :: t => upHist (upApply u c) t
  | .flush :: t => upHist u t

/-- Every call of the history respects the upstream protocol (`upValid`). -/
def ValidHist (u : DP) : List Step → Prop
  | [] => True
  | .call c :: t => upValid u c ∧ ValidHist (upApply u c) t
  | .flush :: t => ValidHist u t

/-- The declared state is reference-closed (IP set / policy / profile / endpoint part) at every flush. -/
def ClosedAtFlushes (u : DP) : List Step → Prop
  | [] => True
  | .call c :: t => ClosedAtFlushes (upApply u c) t
  | .flush :: t => u.closedMain ∧ ClosedAtFlushes u t

/-- The declared state is reference-closed in full (including route → VTEP) at every flush. -/
def FullyClosedAtFlushes (u : DP) : List Step → Prop
  | [] => True
  | .call c :: t => FullyClosedAtFlushes (upApply u c) t
  | .flush :: t => u.closed ∧ FullyClosedAtFlushes u t

theorem hist_ok {s : State} {u d : DP} (hi : Inv s u d) (h : List Step) (hv : ValidHist u h) :
    ∃ s' ms, execHist s h = some (s', ms) ∧ AllWF d ms ∧ Inv s' (upHist u h) (d.applyAll ms) := by
  induction h generalizing s u d with
  | nil => exact ⟨s, [], rfl, trivial, hi⟩
  | cons st t ih =>
    cases st with
    | call c =>
      obtain ⟨s1, hc, hi1⟩ := hi.call c hv.1
      obtain ⟨s', ms, he, hw, hi'⟩ := ih hi1 hv.2
      exact ⟨s', ms, by simp only [execHist, hc, he], hw, hi'⟩
    | flush =>
      have hf := flush_ok s u d hi
      obtain ⟨s', ms, he, hw, hi'⟩ := ih hf.2 hv
      refine ⟨s', s.flush.2 ++ ms, by simp only [execHist, he], ?_, ?_⟩
      · rw [AllWF_append]; exact ⟨hf.1, hw⟩
      · rw [applyAll_append]; exact hi'

theorem hist_closed {s : State} {u d : DP} (hi : Inv s u d) (hd : d.closedMain) (h : List Step) (hv : ValidHist u h)
    (hc : ClosedAtFlushes u h) :
    ∃ s' ms, execHist s h = some (s', ms) ∧ AfterEach DP.closedMain d ms := by
  induction h generalizing s u d with
  | nil => exact ⟨s, [], rfl, hd⟩
  | cons st t ih =>
    cases st with
    | call c =>
      obtain ⟨s1, hcall, hi1⟩ := hi.call c hv.1
      obtain ⟨s', ms, he, hw⟩ := ih hi1 hd hv.2 hc
      exact ⟨s', ms, by simp only [execHist, hcall, he], hw⟩
    | flush =>
      have hf := flush_ok s u d hi
      have hcl := flush_closed hi hc.1 hd
      obtain ⟨s', ms, he, hw⟩ := ih hf.2 (AfterEach_last hcl) hv hc.2
      refine ⟨s', s.flush.2 ++ ms, by simp only [execHist, he], ?_⟩
      rw [AfterEach_append]; exact ⟨hcl, hw⟩

theorem upHist_append (u : DP) (h₁ h₂ : List Step) : upHist u (h₁ ++ h₂) = upHist (upHist u h₁) h₂ := by
  induction h₁ generalizing u with
  | nil => rfl
  | cons st t ih => cases st <;> simp [upHist, ih]

theorem validHist_append_flush (u : DP) (h : List Step) : ValidHist u h → ValidHist u (h ++ [.flush]) := by
  induction h generalizing u with
  | nil => intro _; trivial
  | cons st t ih => cases st <;> simp only [List.cons_append, ValidHist] <;> intro hv
                    · exact ⟨hv.1, ih _ hv.2⟩
                    · exact ih _ hv

theorem execHist_append_flush {s0 s : State} {h : List Step} {ms : List Msg} (he : execHist s0 h = some (s, ms)) :
    execHist s0 (h ++ [.flush]) = some (s.flush.1, ms ++ s.flush.2) := by
  induction h generalizing s0 ms with
  | nil =>
    simp only [execHist, Option.some.injEq, Prod.mk.injEq] at he
    obtain ⟨rfl, rfl⟩ := he
    simp [execHist]
  | cons st t ih =>
    cases st with
    | call c =>
      simp only [List.cons_append, execHist] at he ⊢
      cases hc : s0.call c with
      | none => simp [hc] at he
      | some s1 => simp only [hc] at he ⊢; exact ih he
    | flush =>
      simp only [List.cons_append, execHist] at he ⊢
      cases hr : execHist s0.flush.1 t with
      | none => simp [hr] at he
      | some r =>
        obtain ⟨s2, ms2⟩ := r
        simp only [hr, Option.some.injEq, Prod.mk.injEq] at he
        obtain ⟨rfl, rfl⟩ := he
        rw [ih hr]; simp [List.append_assoc]

/-! ### AsyncCalcGraph -/

def isInSyncStatus : AcgEvent → Bool
  | .status .inSync _ => true
  | _ => false

/-- Run the AsyncCalcGraph loop on a list of input events, collecting all output messages. -/
def acgRun (a : Acg) : List AcgEvent → Option (Acg × List Msg)
  | [] => some (a, [])
  | e :: t => match a.step e with
    | none => none
    | some (a', ms) => match acgRun a' t with
      | none => none
      | some (a'', ms') => some (a'', ms ++ ms')

theorem notInSync_wgDeletes (s : State) : ∀ m ∈ (flushWgDeletes s).2, m ≠ Msg.inSync := by
  simp only [flushWgDeletes]
  apply foldl_pred (fun m => m ≠ Msg.inSync)
  · intro acc k hacc
    obtain ⟨s4, s6, ms⟩ := acc
    simp only at hacc ⊢
    by_cases h4 : k ∈ s4 <;> by_cases h6 : k ∈ s6 <;> simp only [h4, h6, if_true, if_false]
    · exact all_snoc (all_snoc hacc (by simp)) (by simp)
    · exact all_snoc hacc (by simp)
    · exact all_snoc hacc (by simp)
    · exact hacc
  · simp

theorem notInSync_wgUpdates (s : State) : ∀ m ∈ (flushWgUpdates s).2, m ≠ Msg.inSync := by
  simp only [flushWgUpdates]
  apply foldl_pred (fun m => m ≠ Msg.inSync)
  · intro acc p hacc
    obtain ⟨s4, s6, ms⟩ := acc
    obtain ⟨n, wg⟩ := p
    simp only at hacc ⊢
    by_cases h4 : wg.pub4 = "" <;> by_cases h6 : wg.pub6 = "" <;> by_cases m4 : n ∈ s4 <;> by_cases m6 : n ∈ s6 <;>
      simp only [h4, h6, m4, m6, ne_eq, not_true_eq_false, not_false_eq_true, if_true, if_false] <;>
      first
      | exact hacc
      | exact all_snoc hacc (by simp)
      | exact all_snoc (all_snoc hacc (by simp)) (by simp)
  · simp

def PhaseAll (P : Msg → Prop) (p : Phase) : Prop := ∀ s, ∀ m ∈ (p s).2, P m

theorem phaseAll_run {P : Msg → Prop} {ps : List Phase} (h : ∀ p ∈ ps, PhaseAll P p) : PhaseAll P (runPhases ps) := by
  induction ps with
  | nil => intro s m hm; simp [runPhases] at hm
  | cons p t ih =>
    intro s m hm
    rw [runPhases_cons] at hm
    simp only [List.mem_append] at hm
    rcases hm with hm | hm
    · exact h p (by simp) s m hm
    · exact ih (fun q hq => h q (by simp [hq])) _ m hm

theorem ni_upd {κ β : Type} [DecidableEq κ] (c : Cat κ β) (f : κ → β → List Msg)
    (hf : ∀ k v, ∀ m ∈ f k v, m ≠ Msg.inSync) : ∀ m ∈ (c.flushUpd f).2, m ≠ Msg.inSync := by
  intro m hm
  obtain ⟨k, v, _, h⟩ := mem_flushUpd hm
  exact hf k v m h

theorem ni_del {κ β : Type} [DecidableEq κ] (c : Cat κ β) (f : κ → Msg)
    (hf : ∀ k, f k ≠ Msg.inSync) : ∀ m ∈ (c.flushDel f).2, m ≠ Msg.inSync := by
  intro m hm
  obtain ⟨k, _, rfl⟩ := mem_flushDel hm
  exact hf k

/-- `EventSequencer.Flush` never emits `InSync` itself. -/
theorem flush_no_inSync (s : State) : Msg.inSync ∉ s.flush.2 := by
  have : PhaseAll (fun m => m ≠ Msg.inSync) (runPhases flushPhases) := by
    apply phaseAll_run
    intro p hp
    simp only [flushPhases, List.mem_cons, List.not_mem_nil, or_false] at hp
    rcases hp with rfl | rfl | rfl | rfl | rfl | rfl | rfl | rfl | rfl | rfl | rfl | rfl | rfl | rfl | rfl | rfl | rfl | rfl | rfl | rfl | rfl | rfl | rfl
    · intro s m hm
      unfold flushReadyFlag at hm
      by_cases h : s.notReady <;> simp [h] at hm
      subst hm; simp
    · intro s m hm
      simp only [flushAddedIPSets, List.mem_map] at hm
      obtain ⟨_, _, rfl⟩ := hm; simp
    · intro s m hm
      simp only [flushIPSetDeltas, List.mem_map] at hm
      obtain ⟨_, _, rfl⟩ := hm; simp
    · intro s; exact ni_upd s.pol polUpdMsg (by intro k v m hm; simp [polUpdMsg] at hm; subst hm; simp)
    · intro s; exact ni_upd s.prof profUpdMsg (by intro k v m hm; simp [profUpdMsg] at hm; subst hm; simp)
    · intro s; exact ni_upd s.ep epUpdMsg (by intro k v m hm; cases k <;> (simp [epUpdMsg] at hm; subst hm; simp))
    · intro s; exact ni_del s.ep epDelMsg (by intro k; cases k <;> simp [epDelMsg])
    · intro s; exact ni_del s.prof Msg.profileRemove (by intro k; simp)
    · intro s; exact ni_del s.pol Msg.policyRemove (by intro k; simp)
    · intro s m hm
      simp only [flushRemovedIPSets, List.mem_map] at hm
      obtain ⟨_, _, rfl⟩ := hm; simp
    all_goals first
      | exact notInSync_wgDeletes
      | exact notInSync_wgUpdates
      | (intro s; exact ni_del _ _ (by intro k; simp))
      | (intro s; exact ni_upd s.vtep (fun k v => [Msg.vtepUpdate k v]) (by intro k v m hm; simp at hm; subst hm; simp))
      | (intro s; exact ni_upd s.route (fun k v => [Msg.routeUpdate k v]) (by intro k v m hm; simp at hm; subst hm; simp))
      | (intro s m hm
         simp only [flushGen, List.mem_append] at hm
         rcases hm with hm | hm
         · exact ni_del _ _ (by intro k; simp) m hm
         · exact ni_upd _ _ (by intro k v m hm; simp at hm; subst hm; simp) m hm)
      | (intro s m hm
         unfold flushEncap at hm
         cases h : s.encap <;> simp [h] at hm
         subst hm; simp)
      | (intro s m hm
         unfold flushBGP at hm
         cases h : s.bgp <;> simp [h] at hm
         subst hm; simp)
  intro h
  exact this s _ h rfl

/-- Invariant of the AsyncCalcGraph loop: an `InSync` is owed only after the datastore reported in-sync. -/
def AcgInv (a : Acg) : Prop := a.needToSendInSync = true → a.sawInSync = true

theorem acg_maybeFlush {a : Acg} (h : AcgInv a) :
    AcgInv a.maybeFlush.1 ∧ a.maybeFlush.1.sawInSync = a.sawInSync ∧ (Msg.inSync ∈ a.maybeFlush.2 → a.sawInSync = true) := by
  unfold Acg.maybeFlush
  by_cases hd : a.dirty = true
  · by_cases hb : a.bucket > 0
    · rw [if_neg (by simp [hd]), if_pos hb]
      refine ⟨by simp [AcgInv], by simp, ?_⟩
      intro hm
      by_cases hn : a.needToSendInSync = true
      · exact h hn
      · simp only [hn, Bool.false_eq_true, if_false] at hm
        exact absurd hm (flush_no_inSync a.seq)
    · rw [if_neg (by simp [hd]), if_neg hb]
      exact ⟨h, rfl, by simp⟩
  · rw [if_pos (by simp [hd])]
    exact ⟨h, rfl, by simp⟩

theorem acg_after {a0 a' : Acg} {ms : List Msg} (h0 : AcgInv a0) (hs : a0.maybeFlush = (a', ms)) :
    AcgInv a' ∧ a'.sawInSync = a0.sawInSync ∧ (Msg.inSync ∈ ms → a0.sawInSync = true) := by
  have := acg_maybeFlush h0
  rw [hs] at this
  exact this

theorem acg_step {a a' : Acg} {e : AcgEvent} {ms : List Msg} (h : AcgInv a) (hs : a.step e = some (a', ms)) :
    AcgInv a' ∧ (a'.sawInSync = true → a.sawInSync = true ∨ isInSyncStatus e = true) ∧
    (Msg.inSync ∈ ms → a'.sawInSync = true) := by
  cases e with
  | updates calls =>
    simp only [Acg.step] at hs
    cases hc : applyCalls a.seq calls with
    | none => simp [hc] at hs
    | some s1 =>
      simp only [hc, Option.some.injEq] at hs
      obtain ⟨i, e1, e2⟩ := acg_after (a0 := { a with seq := s1, dirty := true }) h hs
      exact ⟨i, fun x => Or.inl (by rw [e1] at x; exact x), fun x => by rw [e1]; exact e2 x⟩
  | status st calls =>
    simp only [Acg.step] at hs
    cases hc : applyCalls a.seq calls with
    | none => simp [hc] at hs
    | some s1 =>
      simp only [hc, Option.some.injEq] at hs
      by_cases hst : st = .inSync
      · subst hst
        refine ⟨?_, fun _ => Or.inr rfl, ?_⟩
        · by_cases hic : a.initialSyncCompleted = true
          · simp only [hic, if_true, Bool.not_true, Bool.and_false, Bool.false_eq_true, if_false, decide_true] at hs
            exact (acg_after (fun _ => rfl) hs).1
          · simp only [hic, if_true, Bool.not_false, Bool.and_true, decide_true] at hs
            exact (acg_after (fun _ => rfl) hs).1
        · by_cases hic : a.initialSyncCompleted = true
          · simp only [hic, if_true, Bool.not_true, Bool.and_false, Bool.false_eq_true, if_false, decide_true] at hs
            have := acg_after (fun _ => rfl) hs
            intro x; rw [this.2.1]
          · simp only [hic, if_true, Bool.not_false, Bool.and_true, decide_true] at hs
            have := acg_after (fun _ => rfl) hs
            intro x; rw [this.2.1]
      · simp only [hst, if_false, decide_false, Bool.false_and, Bool.false_eq_true] at hs
        obtain ⟨i, e1, e2⟩ := acg_after (a0 := { a with seq := s1, dirty := true }) h hs
        exact ⟨i, fun x => Or.inl (by rw [e1] at x; exact x), fun x => by rw [e1]; exact e2 x⟩
  | tick =>
    simp only [Acg.step, Option.some.injEq] at hs
    by_cases hb : a.bucket < leakyBucketSize
    · simp only [hb, if_true] at hs
      obtain ⟨i, e1, e2⟩ := acg_after (a0 := { a with bucket := a.bucket + 1 }) h hs
      exact ⟨i, fun x => Or.inl (by rw [e1] at x; exact x), fun x => by rw [e1]; exact e2 x⟩
    · simp only [hb, if_false] at hs
      obtain ⟨i, e1, e2⟩ := acg_after h hs
      exact ⟨i, fun x => Or.inl (by rw [e1] at x; exact x), fun x => by rw [e1]; exact e2 x⟩

theorem acg_run {a a' : Acg} {evs : List AcgEvent} {ms : List Msg} (h : AcgInv a) (hr : acgRun a evs = some (a', ms)) :
    (a'.sawInSync = true → a.sawInSync = true ∨ evs.any isInSyncStatus = true) ∧
    (Msg.inSync ∈ ms → a.sawInSync = true ∨ evs.any isInSyncStatus = true) := by
  induction evs generalizing a ms with
  | nil =>
    simp only [acgRun, Option.some.injEq, Prod.mk.injEq] at hr
    obtain ⟨rfl, rfl⟩ := hr
    exact ⟨fun x => Or.inl x, by simp⟩
  | cons e t ih =>
    simp only [acgRun] at hr
    cases hs : a.step e with
    | none => simp [hs] at hr
    | some r =>
      obtain ⟨a1, ms1⟩ := r
      simp only [hs] at hr
      cases hr2 : acgRun a1 t with
      | none => simp [hr2] at hr
      | some r2 =>
        obtain ⟨a2, ms2⟩ := r2
        simp only [hr2, Option.some.injEq, Prod.mk.injEq] at hr
        obtain ⟨rfl, rfl⟩ := hr
        obtain ⟨i1, s1, m1⟩ := acg_step h hs
        obtain ⟨s2, m2⟩ := ih i1 hr2
        have lift : a1.sawInSync = true ∨ t.any isInSyncStatus = true →
            a.sawInSync = true ∨ (e :: t).any isInSyncStatus = true := by
          rintro (x | x)
          · rcases s1 x with y | y
            · exact Or.inl y
            · exact Or.inr (by simp [y])
          · exact Or.inr (by simp [x])
        refine ⟨fun x => lift (s2 x), fun x => ?_⟩
        simp only [List.mem_append] at x
        rcases x with x | x
        · exact lift (Or.inl (m1 x))
        · exact lift (m2 x)

end CalicoVerif.C02
