import CalicoVerif.Model.C02
/-!
Helper lemmas for C02: list-backed sets/maps and the generic update/delete/sent category.
-/
namespace CalicoVerif.C02

section basics
variable {α κ β : Type} [DecidableEq α] [DecidableEq κ]

@[simp] theorem mem_sadd {a b : α} {s : List α} : b ∈ sadd a s ↔ b = a ∨ b ∈ s := by
  unfold sadd
  by_cases h : a ∈ s
  · simp [h]; intro hb; subst hb; exact h
  · simp [h, or_comm]

@[simp] theorem mem_sdel {a b : α} {s : List α} : b ∈ sdel a s ↔ b ∈ s ∧ b ≠ a := by
  simp [sdel]

theorem nodup_sadd {a : α} {s : List α} (h : s.Nodup) : (sadd a s).Nodup := by
  unfold sadd
  by_cases ha : a ∈ s
  · simp [ha, h]
  · simp only [ha, if_false]
    rw [List.nodup_append]
    refine ⟨h, by simp, ?_⟩
    intro x hx y hy
    simp at hy; subst hy
    intro hxy; subst hxy; exact ha hx

theorem nodup_sdel {a : α} {s : List α} (h : s.Nodup) : (sdel a s).Nodup := by
  unfold sdel; exact h.filter _

@[simp] theorem mget_nil {k : κ} : mget ([] : List (κ × β)) k = none := rfl

theorem mget_cons {k k' : κ} {v : β} {t : List (κ × β)} :
    mget ((k', v) :: t) k = if k' = k then some v else mget t k := rfl

theorem mget_append {m₁ m₂ : List (κ × β)} {k : κ} :
    mget (m₁ ++ m₂) k = (mget m₁ k).or (mget m₂ k) := by
  induction m₁ with
  | nil => simp
  | cons h t ih =>
    obtain ⟨k', v⟩ := h
    simp only [List.cons_append, mget_cons]
    by_cases hk : k' = k <;> simp [hk, ih]

theorem mget_mdel {m : List (κ × β)} {k k' : κ} :
    mget (mdel k m) k' = if k' = k then none else mget m k' := by
  induction m with
  | nil => simp [mdel]
  | cons h t ih =>
    obtain ⟨k₀, v⟩ := h
    unfold mdel at ih ⊢
    simp only [List.filter_cons]
    by_cases h0 : k₀ = k
    · subst h0
      simp only [ne_eq, not_true_eq_false, decide_false, Bool.false_eq_true, if_false, ih, mget_cons]
      by_cases h1 : k' = k₀
      · simp [h1]
      · have : ¬ k₀ = k' := fun e => h1 e.symm
        simp [h1, this]
    · simp only [ne_eq, h0, not_false_eq_true, decide_true, if_true, mget_cons, ih]
      by_cases h1 : k₀ = k'
      · subst h1; simp [h0]
      · simp [h1]

theorem mget_mset {m : List (κ × β)} {k k' : κ} {v : β} :
    mget (mset k v m) k' = if k' = k then some v else mget m k' := by
  unfold mset
  rw [mget_append, mget_mdel]
  by_cases h : k' = k
  · subst h; simp [mget_cons]
  · have : ¬ k = k' := fun e => h e.symm
    simp [h, mget_cons, this]

theorem mem_mkeys_iff {m : List (κ × β)} {k : κ} : k ∈ mkeys m ↔ (mget m k).isSome := by
  induction m with
  | nil => simp [mkeys]
  | cons h t ih =>
    obtain ⟨k₀, v⟩ := h
    simp only [mkeys, List.map_cons, List.mem_cons, mget_cons] at ih ⊢
    by_cases h0 : k₀ = k
    · simp [h0]
    · have : ¬ k = k₀ := fun e => h0 e.symm
      simp [h0, this, ih]

theorem mkeys_mdel_nodup {m : List (κ × β)} {k : κ} (h : (mkeys m).Nodup) : (mkeys (mdel k m)).Nodup := by
  unfold mkeys mdel at *
  exact List.Nodup.sublist ((List.filter_sublist).map _) h

theorem mkeys_mset_nodup {m : List (κ × β)} {k : κ} {v : β} (h : (mkeys m).Nodup) : (mkeys (mset k v m)).Nodup := by
  have h1 := mkeys_mdel_nodup (k := k) h
  unfold mset
  simp only [mkeys, List.map_append, List.map_cons, List.map_nil] at h1 ⊢
  rw [List.nodup_append]
  refine ⟨h1, by simp, ?_⟩
  intro x hx y hy
  simp at hy; subst hy
  intro hxy; subst hxy
  have : x ∈ mkeys (mdel x m) := hx
  rw [mem_mkeys_iff, mget_mdel] at this
  simp at this

end basics

/-! ### the generic update/delete/sent category against an abstract upstream `U` and downstream `D` -/
section cat
variable {κ β γ : Type} [DecidableEq κ]

/-- pointwise update of a finite map given as a function. -/
def fupd (f : κ → Option γ) (k : κ) (v : Option γ) : κ → Option γ := fun k' => if k' = k then v else f k'

/-- Effect on the downstream map of the update messages of one flush phase (in list order). -/
def applyUpds (g : κ → β → γ) (D : κ → Option γ) (l : List (κ × β)) : κ → Option γ :=
  l.foldl (fun D p => fupd D p.1 (some (g p.1 p.2))) D
/-- Effect of the delete messages. -/
def applyDels (D : κ → Option γ) (l : List κ) : κ → Option γ :=
  l.foldl (fun D k => fupd D k none) D

theorem applyDels_get (D : κ → Option γ) (l : List κ) (k : κ) :
    applyDels D l k = if k ∈ l then none else D k := by
  induction l generalizing D with
  | nil => simp [applyDels]
  | cons h t ih =>
    simp only [applyDels, List.foldl_cons] at ih ⊢
    rw [ih]
    by_cases h1 : k ∈ t
    · simp [h1]
    · by_cases h2 : k = h <;> simp [h1, h2, fupd]

theorem applyUpds_get (g : κ → β → γ) (D : κ → Option γ) (l : List (κ × β)) (hn : (mkeys l).Nodup) (k : κ) :
    applyUpds g D l k = match mget l k with | some v => some (g k v) | none => D k := by
  induction l generalizing D with
  | nil => simp [applyUpds]
  | cons h t ih =>
    obtain ⟨k₀, v₀⟩ := h
    simp only [mkeys, List.map_cons, List.nodup_cons] at hn
    simp only [applyUpds, List.foldl_cons] at ih ⊢
    rw [ih _ hn.2, mget_cons]
    by_cases h0 : k₀ = k
    · subst h0
      have : mget t k₀ = none := by
        have := hn.1
        rw [show List.map (fun x => x.1) t = mkeys t from rfl, mem_mkeys_iff] at this
        simpa using this
      simp [this, fupd]
    · have h0' : ¬ k = k₀ := fun e => h0 e.symm
      simp only [h0, if_false]
      cases mget t k <;> simp [fupd, h0']

/-- The invariant tying a category's buffers to the upstream-declared map `U` (already expressed in
the downstream vocabulary through `g`) and the downstream map `D`. -/
structure CatInv (g : κ → β → γ) (c : Cat κ β) (U D : κ → Option γ) : Prop where
  sent : ∀ k, k ∈ c.sent ↔ (D k).isSome
  view : ∀ k, U k = match mget c.upd k with | some v => some (g k v) | none => if k ∈ c.del then none else D k
  delSent : ∀ k, k ∈ c.del → k ∈ c.sent
  delNodup : c.del.Nodup
  updNodup : (mkeys c.upd).Nodup
  disj : ∀ k, k ∈ c.del → mget c.upd k = none

theorem CatInv.init (g : κ → β → γ) : CatInv g ({} : Cat κ β) (fun _ => none) (fun _ => none) :=
  ⟨by simp, by simp, by simp, by simp, by simp [mkeys], by simp⟩

theorem CatInv.onUpdate {g : κ → β → γ} {c : Cat κ β} {U D} (h : CatInv g c U D) (k : κ) (v : β) :
    CatInv g (c.onUpdate k v) (fupd U k (some (g k v))) D := by
  refine ⟨h.sent, ?_, ?_, nodup_sdel h.delNodup, mkeys_mset_nodup h.updNodup, ?_⟩
  rotate_left 2
  · intro k' hk'
    simp only [Cat.onUpdate, mem_sdel] at hk'
    simp only [Cat.onUpdate, mget_mset, hk'.2, if_false]
    exact h.disj k' hk'.1
  · intro k'
    simp only [Cat.onUpdate, mget_mset, fupd]
    by_cases hk : k' = k
    · subst hk; simp
    · simp only [hk, if_false, mem_sdel, ne_eq, not_false_eq_true, and_true]
      exact h.view k'
  · intro k' hk'
    simp only [Cat.onUpdate, mem_sdel] at hk'
    exact h.delSent k' hk'.1

theorem CatInv.onRemove {g : κ → β → γ} {c : Cat κ β} {U D} (h : CatInv g c U D) (k : κ) :
    CatInv g (c.onRemove k) (fupd U k none) D := by
  refine ⟨h.sent, ?_, ?_, ?_, mkeys_mdel_nodup h.updNodup, ?_⟩
  rotate_left 3
  · intro k' hk'
    simp only [Cat.onRemove, mget_mdel]
    by_cases hk : k' = k
    · simp [hk]
    · simp only [hk, if_false]
      simp only [Cat.onRemove] at hk'
      by_cases hs : k ∈ c.sent
      · simp only [hs, if_true, mem_sadd, hk, false_or] at hk'; exact h.disj _ hk'
      · simp only [hs, if_false] at hk'; exact h.disj _ hk'
  · intro k'
    simp only [Cat.onRemove, mget_mdel, fupd]
    by_cases hk : k' = k
    · subst hk
      simp only [if_true]
      by_cases hs : k' ∈ c.sent
      · simp [hs]
      · simp only [hs, if_false]
        have h1 : D k' = none := by
          have := (not_congr (h.sent k')).1 hs
          simpa using this
        have h2 : k' ∉ c.del := fun hd => hs (h.delSent _ hd)
        simp [h1, h2]
    · simp only [hk, if_false]
      rw [h.view k']
      by_cases hs : k ∈ c.sent <;> simp [hs, hk]
  · intro k' hk'
    simp only [Cat.onRemove] at hk' ⊢
    by_cases hs : k ∈ c.sent
    · simp only [hs, if_true, mem_sadd] at hk'
      rcases hk' with rfl | h1
      · exact hs
      · exact h.delSent _ h1
    · simp only [hs, if_false] at hk'; exact h.delSent _ hk'
  · simp only [Cat.onRemove]
    by_cases hs : k ∈ c.sent
    · simp only [hs, if_true]; exact nodup_sadd h.delNodup
    · simp only [hs, if_false]; exact h.delNodup

theorem mem_foldl_sadd {l : List κ} {s : List κ} {k : κ} :
    k ∈ l.foldl (fun s k => sadd k s) s ↔ k ∈ l ∨ k ∈ s := by
  induction l generalizing s with
  | nil => simp
  | cons h t ih =>
    simp only [List.foldl_cons, ih, mem_sadd, List.mem_cons]
    constructor
    · rintro (a | a | a)
      · exact Or.inl (Or.inr a)
      · exact Or.inl (Or.inl a)
      · exact Or.inr a
    · rintro ((a | a) | a)
      · exact Or.inr (Or.inl a)
      · exact Or.inl a
      · exact Or.inr (Or.inr a)

theorem mem_foldl_sdel {l : List κ} {s : List κ} {k : κ} :
    k ∈ l.foldl (fun s k => sdel k s) s ↔ k ∈ s ∧ k ∉ l := by
  induction l generalizing s with
  | nil => simp
  | cons h t ih =>
    simp only [List.foldl_cons, ih, mem_sdel, List.mem_cons, not_or]
    constructor
    · rintro ⟨⟨a, b⟩, c⟩; exact ⟨a, b, c⟩
    · rintro ⟨a, b, c⟩; exact ⟨⟨a, b⟩, c⟩

theorem CatInv.flushUpd {g : κ → β → γ} {c : Cat κ β} {U D} (h : CatInv g c U D) (f : κ → β → List Msg) :
    CatInv g (c.flushUpd f).1 U (applyUpds g D c.upd) := by
  refine ⟨?_, ?_, ?_, h.delNodup, by simp [Cat.flushUpd, mkeys], by simp [Cat.flushUpd]⟩
  · intro k
    simp only [Cat.flushUpd, mem_foldl_sadd, applyUpds_get g D c.upd h.updNodup, mem_mkeys_iff, h.sent]
    cases mget c.upd k <;> simp
  · intro k
    simp only [Cat.flushUpd, mget_nil, applyUpds_get g D c.upd h.updNodup]
    rw [h.view k]
    cases hm : mget c.upd k with
    | none => simp
    | some v =>
      simp only
      -- a key with a pending update is never pending-deleted
      by_cases hd : k ∈ c.del
      · rw [h.disj k hd] at hm; cases hm
      · simp [hd]
  · intro k hk
    simp only [Cat.flushUpd, mem_foldl_sadd]
    exact Or.inr (h.delSent k hk)

theorem CatInv.flushDel {g : κ → β → γ} {c : Cat κ β} {U D} (h : CatInv g c U D) (f : κ → Msg) :
    CatInv g (c.flushDel f).1 U (applyDels D c.del) := by
  refine ⟨?_, ?_, by simp [Cat.flushDel], by simp [Cat.flushDel], h.updNodup, by simp [Cat.flushDel]⟩
  · intro k
    simp only [Cat.flushDel, mem_foldl_sdel, applyDels_get, h.sent]
    by_cases hd : k ∈ c.del <;> simp [hd]
  · intro k
    simp only [Cat.flushDel, applyDels_get, List.not_mem_nil, if_false]
    rw [h.view k]

/-- After both flush phases of a category the downstream map IS the upstream map. -/
theorem CatInv.synced {g : κ → β → γ} {c : Cat κ β} {U D} (h : CatInv g c U D)
    (hu : c.upd = []) (hd : c.del = []) : U = D := by
  funext k
  rw [h.view k, hu, hd]; simp

/-- Every delete message of a flush names an object that the downstream still has at that moment
(it was sent, and it is not deleted twice). -/
theorem CatInv.del_present {g : κ → β → γ} {c : Cat κ β} {U D} (h : CatInv g c U D)
    (l₁ : List κ) (k : κ) (l₂ : List κ) (hl : c.del = l₁ ++ k :: l₂) : (applyDels D l₁ k).isSome := by
  have hk : k ∈ c.del := by rw [hl]; simp
  have hn : k ∉ l₁ := by
    have := h.delNodup
    rw [hl, List.nodup_append] at this
    intro hin
    exact this.2.2 k hin k (by simp) rfl
  rw [applyDels_get]
  simp only [hn, if_false]
  exact (h.sent k).1 (h.delSent k hk)

end cat
end CalicoVerif.C02
