import CalicoVerif.Proofs.C36Arith
/-!
C36 helper lemmas, part 2: the order theory of masked prefixes (`covers`) and
how the Go tests (`Contains`, `CommonPrefix(..) == ..`, `.Prefix() == ..`)
relate to it.
-/
namespace CalicoVerif.C36
variable {W : Nat}

theorem covers_refl {p : Pfx} (hp : p.WF W) : p.covers W p = true :=
  (covers_iff hp hp).2 ⟨Nat.le_refl _, fun _ _ => rfl⟩

theorem covers_len {p q : Pfx} (hp : p.WF W) (hq : q.WF W) (h : p.covers W q = true) : p.len ≤ q.len :=
  ((covers_iff hp hq).1 h).1

theorem covers_bit {p q : Pfx} (hp : p.WF W) (hq : q.WF W) (h : p.covers W q = true) {j : Nat} (hj : j < p.len) :
    q.bit W j = p.bit W j := ((covers_iff hp hq).1 h).2 j hj

theorem covers_trans {p q r : Pfx} (hp : p.WF W) (hq : q.WF W) (hr : r.WF W)
    (h1 : p.covers W q = true) (h2 : q.covers W r = true) : p.covers W r = true := by
  have a := (covers_iff hp hq).1 h1
  have b := (covers_iff hq hr).1 h2
  refine (covers_iff hp hr).2 ⟨by omega, fun j hj => ?_⟩
  rw [b.2 j (by omega), a.2 j hj]

theorem covers_antisymm {p q : Pfx} (hp : p.WF W) (hq : q.WF W)
    (h1 : p.covers W q = true) (h2 : q.covers W p = true) : p = q := by
  have a := (covers_iff hp hq).1 h1
  have b := (covers_iff hq hp).1 h2
  exact eq_of_bits hp hq (by omega) (fun j hj => b.2 j (by omega))

theorem covers_linear {p q r : Pfx} (hp : p.WF W) (hq : q.WF W) (hr : r.WF W)
    (h1 : p.covers W r = true) (h2 : q.covers W r = true) (hl : p.len ≤ q.len) : p.covers W q = true := by
  have a := (covers_iff hp hr).1 h1
  have b := (covers_iff hq hr).1 h2
  refine (covers_iff hp hq).2 ⟨hl, fun j hj => ?_⟩
  rw [← b.2 j (by omega), a.2 j hj]

theorem covers_eq_of_len {p q : Pfx} (hp : p.WF W) (hq : q.WF W)
    (h1 : p.covers W q = true) (hl : q.len ≤ p.len) : p = q := by
  have a := (covers_iff hp hq).1 h1
  exact eq_of_bits hp hq (by omega) (fun j hj => (a.2 j hj).symm)

/-- `c.Contains(q.Addr())` is `covers` when `c` is not longer than `q`. -/
theorem contains_iff_covers {c q : Pfx} (hc : c.WF W) (hq : q.WF W) (h : c.len ≤ q.len) :
    c.contains W q.addr = true ↔ c.covers W q = true := by
  rw [contains_iff hc hq.2.1, covers_iff hc hq]
  exact ⟨fun h1 => ⟨h, h1⟩, fun h1 => h1.2⟩

theorem contains_of_covers {c q : Pfx} (hc : c.WF W) (hq : q.WF W) (h : c.covers W q = true) :
    c.contains W q.addr = true :=
  (contains_iff_covers hc hq (covers_len hc hq h)).2 h

theorem commonPrefix_wf {a b : Pfx} (ha : a.WF W) (hb : b.WF W) : (commonPrefix W a b).WF W :=
  (commonPrefix_spec ha hb).1

theorem commonPrefix_covers_left {a b : Pfx} (ha : a.WF W) (hb : b.WF W) :
    (commonPrefix W a b).covers W a = true := by
  have s := commonPrefix_spec ha hb
  exact (covers_iff s.1 ha).2 ⟨(commonPrefix_len_le a b).1, fun j hj => ((s.2.1 j hj).1).symm⟩

theorem commonPrefix_covers_right {a b : Pfx} (ha : a.WF W) (hb : b.WF W) :
    (commonPrefix W a b).covers W b = true := by
  have s := commonPrefix_spec ha hb
  refine (covers_iff s.1 hb).2 ⟨(commonPrefix_len_le a b).2, fun j hj => ?_⟩
  have := s.2.1 j hj
  rw [this.1, this.2]

/-- `CommonPrefix(a, b).Prefix() == a.Prefix()` iff `a` covers `b`. -/
theorem commonPrefix_len_eq_left_iff {a b : Pfx} (ha : a.WF W) (hb : b.WF W) :
    (commonPrefix W a b).len = a.len ↔ a.covers W b = true := by
  have s := commonPrefix_spec ha hb
  have hl := commonPrefix_len_le (W := W) a b
  constructor
  · intro h
    refine (covers_iff ha hb).2 ⟨by omega, fun j hj => ?_⟩
    exact ((s.2.1 j (by omega)).2).symm
  · intro h
    have c := (covers_iff ha hb).1 h
    by_cases hlt : (commonPrefix W a b).len < a.len
    · exact absurd (c.2 _ hlt).symm (s.2.2 hlt (by omega))
    · omega

theorem commonPrefix_len_eq_right_iff {a b : Pfx} (ha : a.WF W) (hb : b.WF W) :
    (commonPrefix W a b).len = b.len ↔ b.covers W a = true := by
  have s := commonPrefix_spec ha hb
  have hl := commonPrefix_len_le (W := W) a b
  constructor
  · intro h
    refine (covers_iff hb ha).2 ⟨by omega, fun j hj => ?_⟩
    exact (s.2.1 j (by omega)).2
  · intro h
    have c := (covers_iff hb ha).1 h
    by_cases hlt : (commonPrefix W a b).len < b.len
    · exact absurd (c.2 _ hlt) (s.2.2 (by omega) hlt)
    · omega

/-- `CommonPrefix(a, b) == a` iff `a` covers `b`. -/
theorem commonPrefix_eq_left_iff {a b : Pfx} (ha : a.WF W) (hb : b.WF W) :
    commonPrefix W a b = a ↔ a.covers W b = true := by
  constructor
  · intro h; exact (commonPrefix_len_eq_left_iff ha hb).1 (by rw [h])
  · intro h
    have hl := (commonPrefix_len_eq_left_iff ha hb).2 h
    exact covers_eq_of_len (commonPrefix_wf ha hb) ha (commonPrefix_covers_left ha hb) (by omega)

theorem commonPrefix_eq_right_iff {a b : Pfx} (ha : a.WF W) (hb : b.WF W) :
    commonPrefix W a b = b ↔ b.covers W a = true := by
  constructor
  · intro h; exact (commonPrefix_len_eq_right_iff ha hb).1 (by rw [h])
  · intro h
    have hl := (commonPrefix_len_eq_right_iff ha hb).2 h
    exact covers_eq_of_len (commonPrefix_wf ha hb) hb (commonPrefix_covers_right ha hb) (by omega)

/-- The common prefix is the greatest common ancestor. -/
theorem covers_commonPrefix {a b d : Pfx} (ha : a.WF W) (hb : b.WF W) (hd : d.WF W)
    (h1 : d.covers W a = true) (h2 : d.covers W b = true) : d.covers W (commonPrefix W a b) = true := by
  have s := commonPrefix_spec ha hb
  have c1 := (covers_iff hd ha).1 h1
  have c2 := (covers_iff hd hb).1 h2
  have hl := commonPrefix_len_le (W := W) a b
  have hlen : d.len ≤ (commonPrefix W a b).len := by
    by_cases h : d.len ≤ (commonPrefix W a b).len
    · exact h
    · exfalso
      have hlt : (commonPrefix W a b).len < d.len := by omega
      exact s.2.2 (by omega) (by omega) (by rw [c1.2 _ hlt, c2.2 _ hlt])
  exact covers_linear hd s.1 ha h1 (commonPrefix_covers_left ha hb) hlen

/-! ### `Under` -/

theorem Under.covers {c x : Pfx} {i : Nat} (h : Under W c i x) : c.covers W x = true := h.1

theorem under_of_covers {c q : Pfx} (h : c.covers W q = true) (hl : c.len < q.len) :
    Under W c (q.bit W c.len) q := ⟨h, hl, rfl⟩

theorem Under.mono {c x y : Pfx} {i : Nat} (hc : c.WF W) (hx : x.WF W) (hy : y.WF W)
    (h : Under W c i x) (hxy : x.covers W y = true) : Under W c i y := by
  refine ⟨covers_trans hc hx hy h.1 hxy, ?_, ?_⟩
  · have := covers_len hx hy hxy; have := h.2.1; omega
  · have := covers_bit hx hy hxy (j := c.len) h.2.1
    unfold Pfx.bit at this
    rw [this]; exact h.2.2

theorem Under.bit_eq {c x : Pfx} {i : Nat} (h : Under W c i x) : x.bit W c.len = i := h.2.2

theorem Under.ne_self {c x : Pfx} {i : Nat} (h : Under W c i x) : x ≠ c := by
  intro e; have := h.2.1; rw [e] at this; omega

/-- Nothing on one side of a node covers or is covered by something on the other side. -/
theorem Under.not_covers_cross {c x y : Pfx} {i j : Nat} (hx : x.WF W) (hy : y.WF W)
    (h1 : Under W c i x) (h2 : Under W c j y) (hij : i ≠ j) : x.covers W y = false := by
  cases h : x.covers W y with
  | false => rfl
  | true =>
    exfalso
    have := covers_bit hx hy h (j := c.len) h1.2.1
    rw [h1.bit_eq, h2.bit_eq] at this
    exact hij this.symm

theorem Under.covers_of_covers {c x q : Pfx} {i : Nat} (hc : c.WF W) (hx : x.WF W) (hq : q.WF W)
    (h : Under W c i x) (hxq : x.covers W q = true) : q.bit W c.len = i ∧ c.covers W q = true ∧ c.len < q.len :=
  let u := h.mono hc hx hq hxq
  ⟨u.2.2, u.1, u.2.1⟩

end CalicoVerif.C36
