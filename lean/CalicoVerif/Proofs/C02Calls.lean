import CalicoVerif.Proofs.C02IpsFlush
/-! C02: every valid upstream call keeps the invariant (and does not panic). -/
namespace CalicoVerif.C02

theorem Inv.init : Inv {} {} {} :=
  ⟨⟨by simp, by simp, by simp, by simp, by simp, by simp [mkeys], by simp, by simp, by simp⟩,
   CatInv.init _, CatInv.init _, CatInv.init _, CatInv.init _, CatInv.init _, fun _ => CatInv.init _⟩

theorem gen_fupd_self (G : GenCat → String → Option String) (c : GenCat) (f : String → Option String) (c' : GenCat) :
    (fun c'' => if c'' = c then f else G c'') c' = if c' = c then f else G c' := rfl

/-- A call allowed by the upstream protocol never panics and keeps the invariant, the declared state
moving by `upApply`. -/
theorem Inv.call {s : State} {u d : DP} (h : Inv s u d) (c : Call) (hv : upValid u c) :
    ∃ s', s.call c = some s' ∧ Inv s' (upApply u c) d := by
  obtain ⟨hips, hpol, hprof, hep, hvtep, hroute, hgen⟩ := h
  cases c with
  | ipsetAdded id typ =>
    have := hips.ipsetAdded id typ hv
    refine ⟨{ s with addedSets := mset id typ s.addedSets, removedSets := sdel id s.removedSets,
                     addedMem := s.addedMem.discardKey id, removedMem := s.removedMem.discardKey id }, ?_,
      ⟨this.2, hpol, hprof, hep, hvtep, hroute, hgen⟩⟩
    simp only [State.call]
    have h1 : (decide (id ∈ s.sentSets) && !decide (id ∈ s.removedSets)) = false := by
      have := this.1
      by_cases a : id ∈ s.sentSets <;> by_cases b : id ∈ s.removedSets <;> simp_all
    simp [h1]
  | ipsetRemoved id =>
    have := hips.ipsetRemoved id hv
    refine ⟨{ s with removedSets := if id ∈ s.sentSets then sadd id s.removedSets else s.removedSets,
                     addedSets := mdel id s.addedSets,
                     addedMem := s.addedMem.discardKey id, removedMem := s.removedMem.discardKey id }, ?_,
      ⟨this.2, hpol, hprof, hep, hvtep, hroute, hgen⟩⟩
    simp only [State.call, State.setKnown]
    have h1 : (decide (id ∈ s.sentSets) || (mget s.addedSets id).isSome) = true := by
      rcases this.1 with a | a <;> simp [a]
    simp [h1]
  | memberAdded id m =>
    obtain ⟨f, hf, hm⟩ := hv
    have := hips.memberAdded id m f hf hm
    have h1 : (decide (id ∈ s.sentSets) || (mget s.addedSets id).isSome) = true := by
      rcases this.1 with a | a <;> simp [a]
    have hu : upApply u (.memberAdded id m) = { u with ipsets := fupd u.ipsets id (some (fun m' => f m' || decide (m' = m))) } := by
      simp only [upApply, hf]
    rw [hu]
    cases hh : s.removedMem.has id m
    · have h2 := this.2
      simp only [hh, Bool.false_eq_true, if_false] at h2
      exact ⟨{ s with addedMem := s.addedMem.put id m }, by simp [State.call, State.setKnown, h1, hh],
        ⟨h2, hpol, hprof, hep, hvtep, hroute, hgen⟩⟩
    · have h2 := this.2
      simp only [hh, if_true] at h2
      exact ⟨{ s with removedMem := s.removedMem.discard id m }, by simp [State.call, State.setKnown, h1, hh],
        ⟨h2, hpol, hprof, hep, hvtep, hroute, hgen⟩⟩
  | memberRemoved id m =>
    obtain ⟨f, hf, hm⟩ := hv
    have := hips.memberRemoved id m f hf hm
    have h1 : (decide (id ∈ s.sentSets) || (mget s.addedSets id).isSome) = true := by
      rcases this.1 with a | a <;> simp [a]
    have hu : upApply u (.memberRemoved id m) = { u with ipsets := fupd u.ipsets id (some (fun m' => f m' && !decide (m' = m))) } := by
      simp only [upApply, hf]
    rw [hu]
    cases hh : s.addedMem.has id m
    · have h2 := this.2
      simp only [hh, Bool.false_eq_true, if_false] at h2
      exact ⟨{ s with removedMem := s.removedMem.put id m }, by simp [State.call, State.setKnown, h1, hh],
        ⟨h2, hpol, hprof, hep, hvtep, hroute, hgen⟩⟩
    · have h2 := this.2
      simp only [hh, if_true] at h2
      exact ⟨{ s with addedMem := s.addedMem.discard id m }, by simp [State.call, State.setKnown, h1, hh],
        ⟨h2, hpol, hprof, hep, hvtep, hroute, hgen⟩⟩
  | notReady => exact ⟨_, rfl, ⟨hips, hpol, hprof, hep, hvtep, hroute, hgen⟩⟩
  | policyActive k r => exact ⟨_, rfl, ⟨hips, hpol.onUpdate k r, hprof, hep, hvtep, hroute, hgen⟩⟩
  | policyInactive k => exact ⟨_, rfl, ⟨hips, hpol.onRemove k, hprof, hep, hvtep, hroute, hgen⟩⟩
  | profileActive k r => exact ⟨_, rfl, ⟨hips, hpol, hprof.onUpdate k r, hep, hvtep, hroute, hgen⟩⟩
  | profileInactive k => exact ⟨_, rfl, ⟨hips, hpol, hprof.onRemove k, hep, hvtep, hroute, hgen⟩⟩
  | endpointUpdate k v =>
    cases v with
    | some v => exact ⟨_, rfl, ⟨hips, hpol, hprof, hep.onUpdate k v, hvtep, hroute, hgen⟩⟩
    | none => exact ⟨_, rfl, ⟨hips, hpol, hprof, hep.onRemove k, hvtep, hroute, hgen⟩⟩
  | genUpdate c k t =>
    refine ⟨_, rfl, ⟨hips, hpol, hprof, hep, hvtep, hroute, fun c' => ?_⟩⟩
    simp only [upApply]
    by_cases hc : c' = c
    · subst hc; simp only [if_true]; exact (hgen c').onUpdate k t
    · simp only [hc, if_false]; exact hgen c'
  | genRemove c k =>
    refine ⟨_, rfl, ⟨hips, hpol, hprof, hep, hvtep, hroute, fun c' => ?_⟩⟩
    simp only [upApply]
    by_cases hc : c' = c
    · subst hc; simp only [if_true]; exact (hgen c').onRemove k
    · simp only [hc, if_false]; exact hgen c'
  | routeUpdate dst r => exact ⟨_, rfl, ⟨hips, hpol, hprof, hep, hvtep, hroute.onUpdate dst r, hgen⟩⟩
  | routeRemove dst => exact ⟨_, rfl, ⟨hips, hpol, hprof, hep, hvtep, hroute.onRemove dst, hgen⟩⟩
  | vtepUpdate n t => exact ⟨_, rfl, ⟨hips, hpol, hprof, hep, hvtep.onUpdate n t, hroute, hgen⟩⟩
  | vtepRemove n => exact ⟨_, rfl, ⟨hips, hpol, hprof, hep, hvtep.onRemove n, hroute, hgen⟩⟩
  | wgUpdate n w => exact ⟨_, rfl, ⟨hips, hpol, hprof, hep, hvtep, hroute, hgen⟩⟩
  | wgRemove n => exact ⟨_, rfl, ⟨hips, hpol, hprof, hep, hvtep, hroute, hgen⟩⟩
  | encap t => exact ⟨_, rfl, ⟨hips, hpol, hprof, hep, hvtep, hroute, hgen⟩⟩
  | bgp t => exact ⟨_, rfl, ⟨hips, hpol, hprof, hep, hvtep, hroute, hgen⟩⟩

end CalicoVerif.C02
