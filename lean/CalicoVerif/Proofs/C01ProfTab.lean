import CalicoVerif.Proofs.C01Fresh
import CalicoVerif.Proofs.C01Prof
import CalicoVerif.Proofs.C01ProfAct
import CalicoVerif.Proofs.C05
/-! C01 helper: the ARC profile path's tables (C05 model) are the datastore's, hence the RuleScanner's
`active` table for PROFILES is the specification's `DS.activeProfs`. -/
namespace CalicoVerif.C01
open CalicoVerif C02

theorem epKeyStr_inj {a b : EpKey} (h : epKeyStr a = epKeyStr b) : a = b := by
  have h2 := congrArg String.toList h
  have e1 : ("w:" : String).toList = ['w', ':'] := by decide
  have e2 : ("h:" : String).toList = ['h', ':'] := by decide
  cases a <;> cases b <;> simp only [epKeyStr, String.toList_append] at h2
  · rw [e1] at h2
    simp only [List.cons_append, List.nil_append, List.cons.injEq, true_and] at h2
    rw [String.toList_inj.1 h2]
  · rw [e1, e2] at h2; simp at h2
  · rw [e1, e2] at h2; simp at h2
  · rw [e2] at h2
    simp only [List.cons_append, List.nil_append, List.cons.injEq, true_and] at h2
    rw [String.toList_inj.1 h2]

/-! ### table effects of one C05 step -/

theorem foldl_addOne_profiles (ep : String) : ∀ (l : List String) (st : C05.Arc RulesIn),
    (l.foldl (C05.addOne ep) st).profiles = st.profiles
  | [], _ => rfl
  | a :: l, st => by
    rw [List.foldl_cons, foldl_addOne_profiles ep l]
    exact (C05.addOne_frame ep a st).2.2

theorem foldl_removeOne_profiles (ep : String) : ∀ (l : List String) (st : C05.Arc RulesIn),
    (l.foldl (C05.removeOne ep) st).profiles = st.profiles
  | [], _ => rfl
  | a :: l, st => by
    rw [List.foldl_cons, foldl_removeOne_profiles ep l]
    exact (C05.removeOne_frame ep a st).2.2

theorem updateEndpoint_tables (ep : String) (ids : List String) (st : C05.Arc RulesIn) :
    (C05.updateEndpointProfileIDs ep ids st).profiles = st.profiles ∧
    (C05.updateEndpointProfileIDs ep ids st).epProfiles =
      (if ids.isEmpty then C05.alErase ep st.epProfiles else C05.alSet ep ids st.epProfiles) := by
  unfold C05.updateEndpointProfileIDs
  simp only []
  refine ⟨?_, ?_⟩
  · rw [foldl_removeOne_profiles, foldl_addOne_profiles]
  · rw [(C05.foldl_removeOne_frame ep _ _).2, (C05.foldl_addOne_frame ep _ _).2]

theorem updateProfileRules_tables (p : String) (v : Option RulesIn) (st : C05.Arc RulesIn) :
    (C05.updateProfileRules p v st).epProfiles = st.epProfiles ∧
    ∀ q, C05.alGet q (C05.updateProfileRules p v st).profiles = if q = p then v else C05.alGet q st.profiles := by
  have hsend : ∀ (q : String) (x : Option RulesIn) (s : C05.Arc RulesIn),
      (C05.sendProfileUpdate q x s).profiles = s.profiles ∧ (C05.sendProfileUpdate q x s).epProfiles = s.epProfiles :=
    fun q x s => ⟨(C05.sendProfileUpdate_frame q x s).2.2, (C05.sendProfileUpdate_frame q x s).2.1⟩
  cases v with
  | none =>
    simp only [C05.updateProfileRules]
    split
    · rw [(hsend _ _ _).1, (hsend _ _ _).2]
      exact ⟨rfl, fun q => by simp only []; rw [C05.alGet_alErase]⟩
    · exact ⟨rfl, fun q => by simp only []; rw [C05.alGet_alErase]⟩
  | some r =>
    simp only [C05.updateProfileRules]
    split
    · rename_i hsame
      refine ⟨rfl, fun q => ?_⟩
      by_cases hq : q = p
      · subst hq; simp only [if_true]; exact hsame
      · simp only [hq, if_false]
    · split
      · rw [(hsend _ _ _).1, (hsend _ _ _).2]
        exact ⟨rfl, fun q => by simp only []; rw [C05.alGet_alSet]⟩
      · exact ⟨rfl, fun q => by simp only []; rw [C05.alGet_alSet]⟩

/-! ### the invariant -/

/-- the non-empty profile list of an endpoint value -/
def profsOf (v : EpVal) : Option (List String) := if v.profiles.isEmpty then none else some v.profiles

structure PInv (N : Numbering) (g : Graph) (ds : DS) : Prop where
  profs : ∀ p, C05.alGet p g.arcProf.profiles = mget ds.profRules p
  eps : ∀ nid, C05.alGet (epKeyStr (N.ek nid)) g.arcProf.epProfiles =
    if N.lc nid then (mget ds.eps nid).bind (fun x => profsOf x.2.2) else none
  range : ∀ k, (C05.alGet k g.arcProf.epProfiles).isSome = true → ∃ nid, k = epKeyStr (N.ek nid)

theorem pInv_frame {N : Numbering} {g g' : Graph} {ds : DS} (hi : PInv N g ds) (h : g'.arcProf = g.arcProf) :
    PInv N g' ds := ⟨by rw [h]; exact hi.profs, by rw [h]; exact hi.eps, by rw [h]; exact hi.range⟩

theorem pInv_step (H : IdFn) {N : Numbering} {g : Graph} {ds : DS} (hi : PInv N g ds) (u : Upd) (hu : N.updOk u) :
    PInv N (g.step H u) (ds.apply u) := by
  have hstep := arcProf_step H g u
  cases u with
  | endpoint nid key isLocal v =>
    obtain ⟨hk, hl⟩ := hu
    subst hk; subst hl
    by_cases hl : N.lc nid = true
    · have hprof : profUpd (.endpoint nid (N.ek nid) (N.lc nid) v) =
          some (.endpoint (epKeyStr (N.ek nid)) (v.map (·.profiles))) := by rw [hl]; rfl
      rw [hprof] at hstep
      simp only [] at hstep
      -- both `some ids` and `none` are `updateEndpointProfileIDs` with a (possibly empty) list
      have htab : (g.step H (.endpoint nid (N.ek nid) (N.lc nid) v)).arcProf.profiles = g.arcProf.profiles ∧
          ∀ k, C05.alGet k (g.step H (.endpoint nid (N.ek nid) (N.lc nid) v)).arcProf.epProfiles =
            if k = epKeyStr (N.ek nid) then v.bind profsOf else C05.alGet k g.arcProf.epProfiles := by
        rw [hstep]
        cases v with
        | none =>
          simp only [Option.map_none, C05.step]
          obtain ⟨h1, h2⟩ := updateEndpoint_tables (epKeyStr (N.ek nid)) [] g.arcProf
          refine ⟨h1, fun k => ?_⟩
          rw [h2]
          simp only [List.isEmpty_nil, if_true, Option.bind_none]
          rw [C05.alGet_alErase]
        | some e =>
          simp only [Option.map_some, C05.step]
          obtain ⟨h1, h2⟩ := updateEndpoint_tables (epKeyStr (N.ek nid)) e.profiles g.arcProf
          refine ⟨h1, fun k => ?_⟩
          rw [h2]
          simp only [Option.bind_some, profsOf]
          cases hemp : e.profiles.isEmpty with
          | true => simp only [if_true]; rw [C05.alGet_alErase]
          | false => simp only [Bool.false_eq_true, if_false]; rw [C05.alGet_alSet]
      refine ⟨?_, ?_, ?_⟩
      · intro p; rw [htab.1]; exact hi.profs p
      · intro n
        rw [htab.2]
        simp only [DS.apply]
        rw [mget_setOrDel]
        by_cases hn : n = nid
        · subst hn
          simp only [if_true, hl]
          cases v <;> rfl
        · have hne : ¬ epKeyStr (N.ek n) = epKeyStr (N.ek nid) := fun e => hn (N.ekInj _ _ (epKeyStr_inj e))
          simp only [hn, hne, if_false]
          exact hi.eps n
      · intro k hk
        rw [htab.2] at hk
        by_cases hkk : k = epKeyStr (N.ek nid)
        · exact ⟨nid, hkk⟩
        · simp only [hkk, if_false] at hk; exact hi.range k hk
    · have hprof : profUpd (.endpoint nid (N.ek nid) (N.lc nid) v) = none := by
        have : N.lc nid = false := by simpa using hl
        rw [this]; rfl
      rw [hprof] at hstep
      simp only [] at hstep
      refine ⟨by rw [hstep]; exact hi.profs, ?_, by rw [hstep]; exact hi.range⟩
      intro n
      rw [hstep]
      simp only [DS.apply]
      rw [mget_setOrDel]
      by_cases hn : n = nid
      · subst hn
        have := hi.eps n
        simp only [hl, if_false] at this ⊢
        exact this
      · simp only [hn, if_false]; exact hi.eps n
  | profRules pid v =>
    have hprof : profUpd (.profRules pid v) = some (.profileRules pid v) := rfl
    rw [hprof] at hstep
    simp only [C05.step] at hstep
    obtain ⟨h1, h2⟩ := updateProfileRules_tables pid v g.arcProf
    refine ⟨?_, by rw [hstep, h1]; exact hi.eps, by rw [hstep, h1]; exact hi.range⟩
    intro p
    rw [hstep, h2]
    simp only [DS.apply]
    rw [mget_setOrDel]
    by_cases hp : p = pid
    · simp [hp]
    · simp only [hp, if_false]; exact hi.profs p
  | netset name v => exact ⟨by rw [hstep]; exact hi.profs, by rw [hstep]; exact hi.eps, by rw [hstep]; exact hi.range⟩
  | profLabels pid v => exact ⟨by rw [hstep]; exact hi.profs, by rw [hstep]; exact hi.eps, by rw [hstep]; exact hi.range⟩
  | tier name v => exact ⟨by rw [hstep]; exact hi.profs, by rw [hstep]; exact hi.eps, by rw [hstep]; exact hi.range⟩
  | policy nid key v => exact ⟨by rw [hstep]; exact hi.profs, by rw [hstep]; exact hi.eps, by rw [hstep]; exact hi.range⟩
  | passthru c key v => exact ⟨by rw [hstep]; exact hi.profs, by rw [hstep]; exact hi.eps, by rw [hstep]; exact hi.range⟩
  | other => exact ⟨by rw [hstep]; exact hi.profs, by rw [hstep]; exact hi.eps, by rw [hstep]; exact hi.range⟩

theorem pInv_run (H : IdFn) {N : Numbering} : ∀ (h : List HStep) {g : Graph} {ds : DS},
    PInv N g ds → (∀ st ∈ h, N.stepOk st) →
    PInv N (run H g h).1 (h.foldl (fun ds st => match st with
      | .upd u => ds.apply u
      | _ => ds) ds)
  | [], _, _, hi, _ => hi
  | .upd u :: t, g, ds, hi, hin => by
    simp only [run, List.foldl_cons]
    exact pInv_run H t (pInv_step H hi u (hin _ (List.mem_cons_self ..))) (fun st hst => hin st (List.mem_cons_of_mem _ hst))
  | .inSync :: t, g, ds, hi, hin => by
    simp only [run, List.foldl_cons]
    exact pInv_run H t (pInv_frame hi rfl) (fun st hst => hin st (List.mem_cons_of_mem _ hst))
  | .flush :: t, g, ds, hi, hin => by
    simp only [run, List.foldl_cons]
    exact pInv_run H t (pInv_frame hi (arcProf_flush g)) (fun st hst => hin st (List.mem_cons_of_mem _ hst))

theorem pInv_new (N : Numbering) (s : Bool) : PInv N (Graph.new s) {} :=
  ⟨(by intro p; simp [Graph.new, C05.Arc.new, C05.alGet, mget]),
   (by intro n; simp [Graph.new, C05.Arc.new, C05.alGet, mget]),
   (by intro k h; simp [Graph.new, C05.Arc.new, C05.alGet] at h)⟩

/-! ### reading it in the specification's terms -/

theorem mget_map_self {β : Type} (F : String → β) : ∀ (l : List String) (k : String),
    mget (l.map (fun p => (p, F p))) k = if k ∈ l then some (F k) else none
  | [], _ => by simp [mget]
  | a :: t, k => by
    simp only [List.map_cons, mget, List.mem_cons]
    by_cases h : a = k
    · subst h; simp
    · have h' : ¬ k = a := fun e => h e.symm
      simp only [h, h', if_false, false_or]
      exact mget_map_self F t k

/-- a profile is referenced by the ARC's endpoint table iff a local endpoint in the datastore lists it -/
theorem referenced_iff {N : Numbering} {g : Graph} {ds : DS} (hi : PInv N g ds) (ht : TabInv N g ds)
    (hn : DSNodup ds) (p : String) :
    C05.referenced g.arcProf p ↔ p ∈ ds.localEps.flatMap (fun e => e.2.profiles) := by
  unfold C05.referenced DS.localEps
  simp only [List.mem_flatMap, List.mem_filterMap]
  constructor
  · rintro ⟨ep, ids, h1, h2⟩
    obtain ⟨nid, rfl⟩ := hi.range ep (by rw [h1]; rfl)
    rw [hi.eps nid] at h1
    by_cases hl : N.lc nid = true
    · simp only [hl, if_true] at h1
      cases hx : mget ds.eps nid with
      | none => rw [hx] at h1; cases h1
      | some x =>
        rw [hx] at h1
        simp only [Option.bind_some, profsOf] at h1
        split at h1
        · cases h1
        · simp only [Option.some.injEq] at h1
          have hm := mget_mem hx
          have c := ht.epsConf _ hm
          simp only [] at c
          refine ⟨(x.1, x.2.2), ⟨(nid, x), hm, by simp [c.2, hl]⟩, ?_⟩
          simp only []
          rw [h1]; exact h2
    · simp only [hl, if_false] at h1
      cases h1
  · rintro ⟨⟨k, v⟩, ⟨⟨nid, x⟩, hm, hloc⟩, hp⟩
    have c := ht.epsConf _ hm
    simp only [] at c hloc hp
    by_cases hl : x.2.1 = true
    · simp only [hl, if_true, Option.some.injEq, Prod.mk.injEq] at hloc
      obtain ⟨rfl, rfl⟩ := hloc
      have hx := mget_of_mem_nodup hn.eps hm
      refine ⟨epKeyStr (N.ek nid), x.2.2.profiles, ?_, hp⟩
      rw [hi.eps nid, hx]
      have : N.lc nid = true := by rw [← c.2]; exact hl
      simp only [this, if_true, Option.bind_some, profsOf]
      have hne : x.2.2.profiles.isEmpty = false := by
        cases hq : x.2.2.profiles with
        | nil => rw [hq] at hp; cases hp
        | cons a t => rfl
      simp [hne]
    · simp only [hl, if_false] at hloc
      cases hloc

theorem outRules_outOf {N : Numbering} {g : Graph} {ds : DS} (hi : PInv N g ds) (p : String) :
    outRules (C05.outOf g.arcProf p) = (mget ds.profRules p).getD dummyDropRules := by
  unfold C05.outOf
  rw [hi.profs p]
  cases mget ds.profRules p <;> rfl

/-- ACTIVE PROFILES = SPECIFICATION -/
theorem activeProfs_eq_ds {N : Numbering} {g : Graph} {ds : DS} (hi : PInv N g ds) (ht : TabInv N g ds)
    (hn : DSNodup ds)
    (hc05 : (C05.referenced g.arcProf p → mget g.active (.prof p) = some (outRules (C05.outOf g.arcProf p))) ∧
      (¬ C05.referenced g.arcProf p → mget g.active (.prof p) = none)) :
    mget g.active (.prof p) = mget ds.activeProfs p := by
  unfold DS.activeProfs
  rw [mget_map_self (fun p => (mget ds.profRules p).getD dummyDropRules)]
  by_cases hr : C05.referenced g.arcProf p
  · rw [hc05.1 hr, outRules_outOf hi p]
    have : p ∈ (ds.localEps.flatMap (fun e => e.2.profiles)).eraseDups :=
      List.mem_eraseDups.mpr ((referenced_iff hi ht hn p).mp hr)
    simp [this]
  · rw [hc05.2 hr]
    have : ¬ p ∈ (ds.localEps.flatMap (fun e => e.2.profiles)).eraseDups :=
      fun h => hr ((referenced_iff hi ht hn p).mpr (List.mem_eraseDups.mp h))
    simp [this]

end CalicoVerif.C01
