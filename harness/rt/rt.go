// Package rt is the shared runtime of the correspondence harnesses.
//
// A harness binary (cmd/cNN) generates cases from ONE PRNG state (the seed),
// runs the REAL Calico code in-process on every case, and writes:
//
//	ops.txt      one operation per line — fed verbatim to the Lean model driver
//	impl.txt     the real implementation's canonical output, line-aligned with ops.txt
//	stats.json   input distribution measured on this run (goes into evidence)
//	oracle.jsonl concrete inputs on which the property's own oracle failed on the real code
//
// The runner (bin/check) pipes ops.txt through the Lean driver and diffs the
// result with impl.txt.
package rt

import (
	"bufio"
	"encoding/json"
	"flag"
	"fmt"
	"io"
	"math/rand"
	"os"
	"path/filepath"
	"sort"
	"strings"
	"time"

	"github.com/sirupsen/logrus"
)

type H struct {
	Seed   int64
	N      int
	Tier   string
	OutDir string
	Replay string
	Rng    *rand.Rand

	ops, impl *bufio.Writer
	opsF      *os.File
	implF     *os.File
	oracleF   *os.File

	cases       int
	lines       int
	dist        map[string]int
	nontriv     map[string]struct{}
	samples     []any
	oracleFails int
	curCase     []string
	Rule        string
	Extra       map[string]any
}

// New parses the standard flags and opens the output files.
func New() *H {
	h := &H{dist: map[string]int{}, nontriv: map[string]struct{}{}, Extra: map[string]any{}}
	flag.Int64Var(&h.Seed, "seed", 1, "PRNG seed")
	flag.IntVar(&h.N, "n", 100, "number of cases")
	flag.StringVar(&h.Tier, "tier", "quick", "quick|thorough")
	flag.StringVar(&h.OutDir, "out", ".", "output directory")
	flag.StringVar(&h.Replay, "replay", "", "replay file (ops of one failing case) instead of generating")
	flag.Parse()
	logrus.SetOutput(io.Discard)
	logrus.SetLevel(logrus.PanicLevel)
	h.Rng = rand.New(rand.NewSource(h.Seed))
	must(os.MkdirAll(h.OutDir, 0o755))
	var err error
	h.opsF, err = os.Create(filepath.Join(h.OutDir, "ops.txt"))
	must(err)
	h.implF, err = os.Create(filepath.Join(h.OutDir, "impl.txt"))
	must(err)
	h.oracleF, err = os.Create(filepath.Join(h.OutDir, "oracle.jsonl"))
	must(err)
	h.ops = bufio.NewWriterSize(h.opsF, 1<<20)
	h.impl = bufio.NewWriterSize(h.implF, 1<<20)
	return h
}

func must(err error) {
	if err != nil {
		panic(err)
	}
}

// Case starts a new case; a `# case k <tag>` line is echoed by the driver, so
// the two streams stay aligned and a diff can be attributed to a case.
func (h *H) Case(tag string) {
	h.cases++
	l := fmt.Sprintf("# case %d %s", h.cases, tag)
	fmt.Fprintln(h.ops, l)
	fmt.Fprintln(h.impl, l)
	h.curCase = h.curCase[:0]
	h.lines++
}

// Op records one operation line and the real implementation's output for it.
func (h *H) Op(op string, out string) {
	if strings.ContainsAny(op, "\n\r") || strings.ContainsAny(out, "\n\r") {
		panic("newline in protocol line: " + op + " / " + out)
	}
	fmt.Fprintln(h.ops, op)
	fmt.Fprintln(h.impl, out)
	h.curCase = append(h.curCase, op+" => "+out)
	h.lines++
}

// Count bumps a distribution counter (ops kinds, branches, error kinds hit).
func (h *H) Count(key string) { h.dist[key]++ }

// Nontrivial records a distinct non-trivial case by its canonical key.
func (h *H) Nontrivial(key string) { h.nontriv[key] = struct{}{} }

// Sample keeps the current case as a written-out sample (first few only).
func (h *H) Sample() {
	if len(h.samples) < 5 {
		h.samples = append(h.samples, append([]string(nil), h.curCase...))
	}
}

// OracleFail records a concrete input on which the PROPERTY ITSELF (not the
// correspondence) failed when evaluated on the real code.
func (h *H) OracleFail(sig string, desc string, input any) {
	h.oracleFails++
	b, _ := json.Marshal(map[string]any{"case": h.cases, "sig": sig, "desc": desc, "input": input, "seed": h.Seed})
	h.oracleF.Write(append(b, '\n'))
}

// Deadline runs f on the real code; if f does not return within d the call is considered hung (a property that
// says an operation fails/terminates is violated by a call that never returns): the oracle failure is recorded,
// everything is flushed and the process exits 0 so the runner reports the recorded input.  A hung call may hold
// locks, so the case cannot continue.
func (h *H) Deadline(d time.Duration, sig, desc string, input any, f func()) {
	done := make(chan struct{})
	go func() { defer close(done); f() }()
	select {
	case <-done:
	case <-time.After(d):
		h.OracleFail(sig, desc, input)
		h.Close()
		os.Exit(0)
	}
}

// CaseNo is the 1-based number of the current case.
func (h *H) CaseNo() int { return h.cases }

// Close flushes everything and writes stats.json.
func (h *H) Close() {
	must(h.ops.Flush())
	must(h.impl.Flush())
	h.opsF.Close()
	h.implF.Close()
	h.oracleF.Close()
	keys := make([]string, 0, len(h.dist))
	for k := range h.dist {
		keys = append(keys, k)
	}
	sort.Strings(keys)
	dist := map[string]int{}
	for _, k := range keys {
		dist[k] = h.dist[k]
	}
	st := map[string]any{
		"evaluations":         h.cases,
		"lines":               h.lines,
		"distinct_nontrivial": len(h.nontriv),
		"rule":                h.Rule,
		"samples":             h.samples,
		"dist":                dist,
		"oracle_failures":     h.oracleFails,
		"seed":                h.Seed,
	}
	for k, v := range h.Extra {
		st[k] = v
	}
	b, _ := json.MarshalIndent(st, "", " ")
	must(os.WriteFile(filepath.Join(h.OutDir, "stats.json"), b, 0o644))
}

// ---- small generator helpers ------------------------------------------------

func (h *H) Intn(n int) int { return h.Rng.Intn(n) }
func (h *H) Bool() bool     { return h.Rng.Intn(2) == 0 }
func (h *H) Chance(p float64) bool {
	return h.Rng.Float64() < p
}
func Pick[T any](h *H, xs []T) T { return xs[h.Rng.Intn(len(xs))] }

// ReplayLines returns the op lines of a replay file (lines not starting with '#').
func (h *H) ReplayLines() []string {
	b, err := os.ReadFile(h.Replay)
	must(err)
	var out []string
	for _, l := range strings.Split(string(b), "\n") {
		l = strings.TrimRight(l, "\r")
		if l == "" || strings.HasPrefix(l, "#") {
			continue
		}
		out = append(out, l)
	}
	return out
}
