// C34 correspondence harness: the REAL AuthorizeTierOperation with a scripted authorizer that answers
// by the ATTRIBUTES it is asked about (not by call order) and releases the three concurrent checks in a
// chosen order (schedule perturbation).  Built with -race (checks/C34.json go_build_flags); re-runs itself in
// probe mode so that a race report becomes a concrete oracle failure instead of a bare exit code 66.
package main

import (
	"context"
	"errors"
	"fmt"
	"os"
	"os/exec"
	"path/filepath"
		"runtime"
	"strings"
	"sync"
	"time"

	k8serrors "k8s.io/apimachinery/pkg/api/errors"
	"k8s.io/apiserver/pkg/authentication/user"
	k8sauth "k8s.io/apiserver/pkg/authorization/authorizer"
	genericapirequest "k8s.io/apiserver/pkg/endpoints/request"

	"github.com/projectcalico/calico/apiserver/pkg/registry/projectcalico/authorizer"

	"verif/harness/rt"
)

type answer struct {
	d   k8sauth.Decision
	err bool
}

func parseAnswer(s string) answer {
	var a answer
	switch s[0] {
	case 'a':
		a.d = k8sauth.DecisionAllow
	case 'd':
		a.d = k8sauth.DecisionDeny
	case 'n':
		a.d = k8sauth.DecisionNoOpinion
	default:
		panic("answer " + s)
	}
	a.err = strings.HasSuffix(s, "e")
	return a
}

type scripted struct {
	mu         sync.Mutex
	tier, name string
	verb, res  string
	ns         string
	ans        [3]answer
	seen       map[int]int
	arrived    chan int
	gate       [3]chan struct{}
	returned   chan int
	unexpected []string
}

func (s *scripted) Authorize(ctx context.Context, a k8sauth.Attributes) (k8sauth.Decision, string, error) {
	// which of the three expected queries is this? (by attributes)
	q := -1
	switch {
	case a.GetVerb() == "get" && a.GetResource() == "tiers" && a.GetName() == s.tier && a.GetNamespace() == "" && a.IsResourceRequest():
		q = 0
	case a.GetVerb() == s.verb && a.GetResource() == "tier."+s.res && a.GetName() == s.name && a.GetNamespace() == s.ns && a.IsResourceRequest():
		q = 1
	case a.GetVerb() == s.verb && a.GetResource() == "tier."+s.res && a.GetName() == s.tier+".*" && a.GetNamespace() == s.ns && a.IsResourceRequest():
		q = 2
	}
	if q < 0 || a.GetUser() == nil || a.GetUser().GetName() != "u" {
		s.mu.Lock()
		s.unexpected = append(s.unexpected, fmt.Sprintf("verb=%s resource=%s name=%s ns=%s", a.GetVerb(), a.GetResource(), a.GetName(), a.GetNamespace()))
		s.mu.Unlock()
		s.arrived <- -1 // not one of the three expected questions: answered at once with NoOpinion
		return k8sauth.DecisionNoOpinion, "", nil
	}
	ansIdx := q
	s.mu.Lock()
	s.seen[q]++
	slot := q
	if q == 1 && s.seen[1] == 2 {
		slot = 2 // name is literally "<tier>.*": the wildcard query has the same attributes
	}
	s.mu.Unlock()
	s.arrived <- slot
	<-s.gate[slot]
	defer func() { s.returned <- slot }()
	an := s.ans[ansIdx]
	if an.err {
		return an.d, "scripted", errors.New("scripted authorizer error")
	}
	return an.d, "scripted", nil
}

func (s *scripted) ConditionsAwareAuthorize(ctx context.Context, a k8sauth.Attributes) k8sauth.ConditionsAwareDecision {
	return k8sauth.ConditionsAwareDecisionFromParts(s.Authorize(ctx, a))
}

func (s *scripted) EvaluateConditions(ctx context.Context, decision k8sauth.ConditionsAwareDecision, data k8sauth.ConditionsData) (k8sauth.Decision, string, error) {
	return k8sauth.DecisionDeny, "", k8sauth.ErrorConditionEvaluationNotSupported
}

func exec1(h *rt.H, op string) string {
	w := strings.Fields(op)
	if w[0] != "authz" {
		panic("unknown op " + op)
	}
	hasAuth, attrsOK := w[1] == "1", w[2] == "1"
	name, tier := w[3], w[4]
	s := &scripted{tier: tier, name: name, verb: "update", res: "networkpolicies", ns: "ns1", seen: map[int]int{},
		arrived: make(chan int, 3), returned: make(chan int, 3)}
	for i := range s.gate {
		s.gate[i] = make(chan struct{})
	}
	s.ans = [3]answer{parseAnswer(w[5]), parseAnswer(w[6]), parseAnswer(w[7])}
	order := w[8]
	ctx := context.Background()
	if attrsOK {
		ctx = genericapirequest.WithUser(ctx, &user.DefaultInfo{Name: "u"})
		ctx = genericapirequest.WithRequestInfo(ctx, &genericapirequest.RequestInfo{
			IsResourceRequest: true, Path: "/apis/projectcalico.org/v3/namespaces/ns1/networkpolicies/" + name, Verb: s.verb,
			APIGroup: "projectcalico.org", APIVersion: "v3", Resource: s.res, Name: name, Namespace: s.ns,
		})
	}
	var ta authorizer.TierAuthorizer
	if hasAuth {
		ta = authorizer.NewTierAuthorizer(s)
	} else {
		ta = authorizer.NewTierAuthorizer(nil)
	}
	done := make(chan error, 1)
	go func() { done <- ta.AuthorizeTierOperation(ctx, name, tier) }()
	var err error
	if hasAuth && attrsOK {
		got := 0
		present := map[int]bool{}
		timeout := time.After(20 * time.Second)
	wait:
		for got < 3 {
			select {
			case slot := <-s.arrived:
				got++
				if slot >= 0 {
					present[slot] = true
				}
			case err = <-done:
				// not demanded by the property (a short-circuiting implementation would be correct): counted only
				h.Count("obs:returned-before-three-checks")
				done <- err
				break wait
			case <-timeout:
				panic("timeout waiting for the three checks")
			}
		}
		if got == 3 {
			for _, c := range order {
				slot := int(c - '0')
				close(s.gate[slot])
				if !present[slot] {
					continue
				}
				<-s.returned
				for i := 0; i < 3; i++ {
					runtime.Gosched()
				}
			}
		} else {
			for i := range s.gate {
				close(s.gate[i])
			}
		}
	}
	err = <-done
	var out string
	switch {
	case err == nil:
		out = "allow"
	case k8serrors.IsForbidden(err):
		if strings.Contains(err.Error(), "(user cannot get tier)") {
			out = "forbidden-noget"
		} else {
			out = "forbidden"
		}
	default:
		out = "attr-err"
	}
	// ---- property oracle on the real code ----
	if hasAuth && attrsOK {
		a2 := s.ans[2]
		if name == tier+".*" {
			a2 = s.ans[1]
		}
		want := s.ans[0].d == k8sauth.DecisionAllow && (s.ans[1].d == k8sauth.DecisionAllow || a2.d == k8sauth.DecisionAllow)
		if want != (err == nil) {
			h.OracleFail("wrong-decision", "allowed <=> (get tier = allow AND (policy name = allow OR tier wildcard = allow)) violated", map[string]any{"op": op, "got": out})
		}
		if len(s.unexpected) > 0 {
			// extra / differently shaped questions are not forbidden by the property (only the decision is): counted only
			h.Count("obs:unexpected-query")
		}
	}
	h.Count("out:" + out)
	return out
}

// probeMain is the race probe (child process, env VERIF_C34_PROBE=1): the three answers rendezvous, so
// the three goroutines of AuthorizeTierOperation are all in flight together; the race detector this
// binary is built with (checks/C34.json go_build_flags -race) reports any unsynchronised access.
type rendezvous struct {
	scripted
	bar *sync.WaitGroup
}

func (r *rendezvous) Authorize(ctx context.Context, a k8sauth.Attributes) (k8sauth.Decision, string, error) {
	r.bar.Done()
	r.bar.Wait()
	return k8sauth.DecisionAllow, "", fmt.Errorf("scripted error for %s", a.GetName())
}

func (r *rendezvous) ConditionsAwareAuthorize(ctx context.Context, a k8sauth.Attributes) k8sauth.ConditionsAwareDecision {
	return k8sauth.ConditionsAwareDecisionFromParts(r.Authorize(ctx, a))
}

func probeMain() {
	for i := 0; i < 20; i++ {
		bar := &sync.WaitGroup{}
		bar.Add(3)
		ta := authorizer.NewTierAuthorizer(&rendezvous{bar: bar})
		ctx := genericapirequest.WithUser(context.Background(), &user.DefaultInfo{Name: "u"})
		ctx = genericapirequest.WithRequestInfo(ctx, &genericapirequest.RequestInfo{
			IsResourceRequest: true, Path: "/apis/projectcalico.org/v3/namespaces/ns/networkpolicies/default.p", Verb: "get",
			APIGroup: "projectcalico.org", APIVersion: "v3", Resource: "networkpolicies", Name: "default.p", Namespace: "ns",
		})
		if err := ta.AuthorizeTierOperation(ctx, "default.p", "default"); err != nil {
			fmt.Println("unexpected deny:", err)
			os.Exit(3)
		}
	}
	fmt.Println("no race reported")
}

// raceProbe re-executes this binary in probe mode and turns a race report into an oracle failure.
func raceProbe(h *rt.H) {
	if !raceEnabled {
		h.Extra["race_probe"] = "unavailable: harness not built with -race (checks/C34.json go_build_flags)"
		return
	}
	self, err := os.Executable()
	if err != nil {
		h.Extra["race_probe"] = "unavailable: " + err.Error()
		return
	}
	run := exec.Command(self)
	run.Env = append(os.Environ(), "VERIF_C34_PROBE=1", "GORACE=exitcode=66 halt_on_error=1")
	outb, err := run.CombinedOutput()
	code := 0
	if ee, ok := err.(*exec.ExitError); ok {
		code = ee.ExitCode()
	} else if err != nil {
		h.Extra["race_probe"] = "unavailable: " + err.Error()
		return
	}
	rep := string(outb)
	switch {
	case code == 66 && strings.Contains(rep, "DATA RACE"):
		sig := "data-race"
		if strings.Contains(rep, "authorizer.go") {
			sig = "data-race-authorizer"
		}
		var lines []string
		for _, l := range strings.Split(rep, "\n") {
			if strings.Contains(l, "authorizer.go") || strings.Contains(l, "DATA RACE") || strings.HasPrefix(l, "Write at") || strings.HasPrefix(l, "Previous write at") || strings.HasPrefix(l, "Read at") || strings.HasPrefix(l, "Previous read at") {
				lines = append(lines, strings.TrimSpace(l))
			}
		}
		h.Extra["race_probe"] = "DATA RACE reported"
		h.Count("race-probe:race")
		h.OracleFail(sig, "race probe (this harness re-run in probe mode, built with -race): the race detector reports a data race inside AuthorizeTierOperation",
			map[string]any{"probe": "VERIF_C34_PROBE=1 <harness binary>", "report": lines})
	case code == 0:
		h.Extra["race_probe"] = "no race reported"
		h.Count("race-probe:clean")
	default:
		h.Extra["race_probe"] = fmt.Sprintf("probe exited %d: %s", code, clip(rep, 300))
	}
}

// raceLogToOracle: race reports the detector wrote while the table/random cases ran in THIS process.
func raceLogToOracle(h *rt.H) {
	logp := os.Getenv("VERIF_C34_RACELOG")
	if logp == "" {
		return
	}
	files, _ := filepath.Glob(logp + ".*")
	for _, f := range files {
		b, _ := os.ReadFile(f)
		os.Remove(f)
		rep := string(b)
		if !strings.Contains(rep, "DATA RACE") {
			continue
		}
		sig := "data-race"
		if strings.Contains(rep, "authorizer.go") {
			sig = "data-race-authorizer"
		}
		var lines []string
		for _, l := range strings.Split(rep, "\n") {
			if (strings.Contains(l, ".go:") || strings.Contains(l, "DATA RACE") || strings.Contains(l, "rite at") || strings.Contains(l, "ead at")) && len(lines) < 12 {
				lines = append(lines, strings.TrimSpace(l))
			}
		}
		h.OracleFail(sig, "the race detector reported a data race while the harness ran its cases on the real AuthorizeTierOperation", map[string]any{"report": lines})
		h.Count("race-in-cases")
	}
}

func clip(s string, n int) string {
	if len(s) > n {
		return s[:n] + "..."
	}
	return s
}

var answers = []string{"a", "d", "n", "ae", "de", "ne"}
var orders = []string{"012", "021", "102", "120", "201", "210"}

func main() {
	if os.Getenv("VERIF_C34_PROBE") != "" {
		probeMain()
		return
	}
	if raceEnabled && os.Getenv("VERIF_C34_RACELOG") == "" {
		// Re-run ourselves with the race detector logging to a file and not changing the exit code, so that a
		// race seen during the table run becomes an oracle failure with the report instead of a bare exit 66.
		self, err := os.Executable()
		if err == nil {
			logp := filepath.Join(os.TempDir(), fmt.Sprintf("c34race-%d", os.Getpid()))
			cmd := exec.Command(self, os.Args[1:]...)
			cmd.Env = append(os.Environ(), "VERIF_C34_RACELOG="+logp, "GORACE=exitcode=0 log_path="+logp)
			cmd.Stdout, cmd.Stderr = os.Stdout, os.Stderr
			err = cmd.Run()
			if ee, ok := err.(*exec.ExitError); ok {
				os.Exit(ee.ExitCode())
			} else if err != nil {
				panic(err)
			}
			return
		}
	}
	h := rt.New()
	defer h.Close()
	defer raceLogToOracle(h)
	h.Rule = "exhaustive: 6^3 answer triples (decision x error) x 6 release orders for an ordinary name, 6^3 x 1 for the name '<tier>.*', plus no-authorizer / no-attributes cases; then random repeats; " +
		"distinct = distinct op line; non-trivial = authorizer present and attributes readable"
	run := func(ops []string, tag string) {
		h.Case(tag)
		for _, op := range ops {
			out := exec1(h, op)
			h.Op(op, out)
			h.Count("op:authz")
			w := strings.Fields(op)
			if w[1] == "1" && w[2] == "1" {
				h.Nontrivial(op)
			}
		}
		h.Sample()
	}
	if h.Replay != "" {
		run(h.ReplayLines(), "replay")
		return
	}
	raceProbe(h)
	for _, a0 := range answers {
		for _, a1 := range answers {
			var ops []string
			for _, a2 := range answers {
				for _, o := range orders {
					ops = append(ops, fmt.Sprintf("authz 1 1 default.pol default %s %s %s %s", a0, a1, a2, o))
				}
				ops = append(ops, fmt.Sprintf("authz 1 1 default.* default %s %s %s 012", a0, a1, a2))
				ops = append(ops, fmt.Sprintf("authz 1 1 pol tier2 %s %s %s 210", a0, a1, a2))
			}
			run(ops, "table")
		}
	}
	run([]string{"authz 0 1 p default d d d 012", "authz 0 0 p default d d d 012", "authz 1 0 p default a a a 012"}, "table-edge")
	for i := 0; i < h.N; i++ {
		name := rt.Pick(h, []string{"default.pol", "pol", "default.*", "t.*", "a.b.c"})
		tier := rt.Pick(h, []string{"default", "t", "a"})
		run([]string{fmt.Sprintf("authz %d %d %s %s %s %s %s %s", h.Intn(8)/7^1, h.Intn(8)/7^1, name, tier,
			rt.Pick(h, answers), rt.Pick(h, answers), rt.Pick(h, answers), rt.Pick(h, orders))}, "gen")
	}
}
