// C44 correspondence harness: drives the real endpointManager (verif export hook)
// over mock filter/route tables, one workload endpoint update per
// CompleteDeferredWork, and evaluates the property's own oracle (each interface
// name carries exactly the state of the smallest live endpoint id claiming it).
package main

import (
	"fmt"
	"regexp"
	"sort"
	"strconv"
	"strings"

	intdataplane "github.com/projectcalico/calico/felix/dataplane/linux"
	"github.com/projectcalico/calico/felix/generictables"
	"github.com/projectcalico/calico/felix/ifacemonitor"
	"github.com/projectcalico/calico/felix/ip"
	"github.com/projectcalico/calico/felix/ipsets"
	"github.com/projectcalico/calico/felix/netlinkshim"
	"github.com/projectcalico/calico/felix/proto"
	"github.com/projectcalico/calico/felix/routetable"
	"github.com/projectcalico/calico/felix/rules"
	"github.com/projectcalico/calico/felix/types"

	"verif/harness/rt"
)

type mockTable struct{ chains map[string]*generictables.Chain }

func (t *mockTable) UpdateChain(c *generictables.Chain) { t.chains[c.Name] = c }
func (t *mockTable) UpdateChains(cs []*generictables.Chain) {
	for _, c := range cs {
		t.chains[c.Name] = c
	}
}
func (t *mockTable) RemoveChains(cs []*generictables.Chain) {
	for _, c := range cs {
		delete(t.chains, c.Name)
	}
}
func (t *mockTable) RemoveChainByName(name string) { delete(t.chains, name) }

type mockRoutes struct{ routes map[string][]routetable.Target }

func (t *mockRoutes) SetRoutes(c routetable.RouteClass, iface string, targets []routetable.Target) {
	if len(targets) == 0 {
		delete(t.routes, iface)
	} else {
		t.routes[iface] = targets
	}
}
func (t *mockRoutes) RouteRemove(c routetable.RouteClass, iface string, k routetable.RouteKey) {}
func (t *mockRoutes) RouteUpdate(c routetable.RouteClass, iface string, tg routetable.Target)  {}
func (t *mockRoutes) Index() int                                                               { return 0 }
func (t *mockRoutes) QueueResyncIface(string)                                                  {}
func (t *mockRoutes) ReadRoutesFromKernel(string) ([]routetable.Target, error)                 { return nil, nil }
func (t *mockRoutes) OnIfaceStateChanged(string, int, ifacemonitor.State)                      {}
func (t *mockRoutes) QueueResync()                                                             {}
func (t *mockRoutes) Apply() error                                                             { return nil }

type mockLinkAddrs struct{}

func (mockLinkAddrs) QueueResync()                               {}
func (mockLinkAddrs) SetLinkLocalAddress(string, ip.CIDR) error  { return nil }
func (mockLinkAddrs) RemoveLinkLocalAddress(string)              {}
func (mockLinkAddrs) GetNlHandle() (netlinkshim.Interface, error) { return nil, nil }
func (mockLinkAddrs) Apply() error                               { return nil }

type ep struct {
	name int
	up   bool
	data int
}

type state struct {
	m       intdataplane.VerifC44Manager
	filter  *mockTable
	routes  *mockRoutes
	live    map[int]ep // the property's own view: live endpoints
	renamed bool       // a live endpoint changed its interface name earlier in this case
	batched bool       // a CompleteDeferredWork with >=2 distinct pending ids happened earlier in this case
	dead        bool     // the real code panicked earlier in this case
	history     []string // ops of this case so far
}

func wid(id int) *proto.WorkloadEndpointID {
	return &proto.WorkloadEndpointID{OrchestratorId: "k8s", WorkloadId: fmt.Sprintf("ns/pod-%03d", id), EndpointId: "eth0"}
}

var widRe = regexp.MustCompile(`^ns/pod-(\d+)$`)

func idOf(k types.WorkloadEndpointID) int {
	m := widRe.FindStringSubmatch(k.WorkloadId)
	if m == nil {
		panic("bad id " + k.WorkloadId)
	}
	n, _ := strconv.Atoi(m[1])
	return n
}

func ifname(n int) string { return fmt.Sprintf("cali%d", n) }
func ifnum(s string) int {
	n, err := strconv.Atoi(strings.TrimPrefix(s, "cali"))
	if err != nil {
		panic("bad iface " + s)
	}
	return n
}

func mkEp(id int, e ep) *proto.WorkloadEndpoint {
	st := "active"
	if !e.up {
		st = "inactive"
	}
	return &proto.WorkloadEndpoint{
		State:      st,
		Name:       ifname(e.name),
		Mac:        "01:02:03:04:05:06",
		ProfileIds: []string{fmt.Sprintf("p%dx%d", id, e.data)},
		Ipv4Nets:   []string{fmt.Sprintf("10.%d.%d.1/32", id, e.data)},
	}
}

var profRe = regexp.MustCompile(`cali-pri-p(\d+)x(\d+)`)

func showEp(w *proto.WorkloadEndpoint) string {
	if w == nil {
		return "nil" // only a broken manager stores a nil endpoint in one of its maps
	}
	m := regexp.MustCompile(`^p(\d+)x(\d+)$`).FindStringSubmatch(w.ProfileIds[0])
	up := "0"
	if w.State == "active" {
		up = "1"
	}
	return fmt.Sprintf("%d.%s.%s", ifnum(w.Name), up, m[2])
}

func join(m map[int]string) string {
	if len(m) == 0 {
		return "-"
	}
	var ks []int
	for k := range m {
		ks = append(ks, k)
	}
	sort.Ints(ks)
	parts := make([]string, len(ks))
	for i, k := range ks {
		parts[i] = fmt.Sprintf("%d=%s", k, m[k])
	}
	return strings.Join(parts, ",")
}

// chainsOn decodes which endpoint's chains the mock filter table holds for every interface name.
func (s *state) chainsOn() map[int]string {
	out := map[int]string{}
	for name, c := range s.filter.chains {
		if !strings.HasPrefix(name, "cali-tw-") {
			continue
		}
		n := ifnum(strings.TrimPrefix(name, "cali-tw-"))
		desc := "down"
		for _, r := range c.Rules {
			if m := profRe.FindStringSubmatch(fmt.Sprint(r.Action)); m != nil {
				desc = m[1] + "." + m[2]
			}
		}
		out[n] = desc
		if _, ok := s.filter.chains["cali-fw-"+strings.TrimPrefix(name, "cali-tw-")]; !ok {
			out[n] += "!nofw"
		}
	}
	for name := range s.filter.chains {
		if strings.HasPrefix(name, "cali-fw-") {
			if _, ok := s.filter.chains["cali-tw-"+strings.TrimPrefix(name, "cali-fw-")]; !ok {
				out[ifnum(strings.TrimPrefix(name, "cali-fw-"))] = "!notw"
			}
		}
	}
	return out
}

var cidrRe = regexp.MustCompile(`^10\.(\d+)\.(\d+)\.1/32$`)

func (s *state) routesOn() map[int]string {
	out := map[int]string{}
	for name, ts := range s.routes.routes {
		var parts []string
		for _, t := range ts {
			m := cidrRe.FindStringSubmatch(t.CIDR.String())
			if m == nil {
				parts = append(parts, "?"+t.CIDR.String())
			} else {
				parts = append(parts, m[1]+"."+m[2])
			}
		}
		sort.Strings(parts)
		out[ifnum(name)] = strings.Join(parts, "+")
	}
	return out
}

func (s *state) dump() string {
	a, i, sh := map[int]string{}, map[int]string{}, map[int]string{}
	for k, w := range s.m.Active() {
		a[idOf(k)] = showEp(w)
	}
	for n, k := range s.m.IfaceToID() {
		i[ifnum(n)] = strconv.Itoa(idOf(k))
	}
	for k, w := range s.m.Shadowed() {
		sh[idOf(k)] = showEp(w)
	}
	return fmt.Sprintf("A[%s] I[%s] S[%s] C[%s] R[%s]", join(a), join(i), join(sh), join(s.chainsOn()), join(s.routesOn()))
}

// oracle: each interface name carries exactly the state of its preferred (smallest-id) live endpoint,
// routes only for admin-up endpoints, nothing for names no live endpoint uses.
func (s *state) oracle(h *rt.H, op string) {
	// the suffix only says what kind of history the case had so far; no KNOWN-FINDING matches any of them
	suffix := ":norename"
	if s.renamed {
		suffix = ":rename"
	} else if s.batched {
		suffix = ":batch"
	}
	pref := map[int]int{}
	for id, e := range s.live {
		if cur, ok := pref[e.name]; !ok || id < cur {
			pref[e.name] = id
		}
	}
	chains, routes := s.chainsOn(), s.routesOn()
	in := func() map[string]any {
		lv := map[int]string{}
		for id, e := range s.live {
			lv[id] = fmt.Sprintf("%d.%v.%d", e.name, e.up, e.data)
		}
		return map[string]any{"op": op, "live": join(lv), "dump": s.dump(), "history": strings.Join(s.history, "; ")}
	}
	sfx := func(name int) string { return suffix }
	for name, id := range pref {
		e := s.live[id]
		want := "down"
		if e.up {
			want = fmt.Sprintf("%d.%d", id, e.data)
		}
		got, ok := chains[name]
		if !ok {
			h.OracleFail("claimed-iface-missing-state"+sfx(name), fmt.Sprintf("interface cali%d is claimed by live endpoint %d but has no policy chains", name, id), in())
		} else if got != want {
			h.OracleFail("iface-carries-wrong-endpoint"+sfx(name), fmt.Sprintf("interface cali%d carries chains %s, preferred live endpoint wants %s", name, got, want), in())
		}
		wantR, haveR := "", routes[name]
		if e.up {
			wantR = fmt.Sprintf("%d.%d", id, e.data)
		}
		if ok && got == want && haveR != wantR {
			h.OracleFail("routes-mismatch"+sfx(name), fmt.Sprintf("interface cali%d has routes %q, want %q", name, haveR, wantR), in())
		}
	}
	for name := range chains {
		if _, ok := pref[name]; !ok {
			h.OracleFail("unclaimed-iface-has-state"+sfx(name), fmt.Sprintf("interface cali%d has policy chains but no live endpoint uses it", name), in())
		}
	}
	for name := range routes {
		if _, ok := pref[name]; !ok {
			h.OracleFail("unclaimed-iface-has-routes"+sfx(name), fmt.Sprintf("interface cali%d has routes but no live endpoint uses it", name), in())
		}
	}
}

func atoi(s string) int {
	n, err := strconv.Atoi(s)
	if err != nil {
		panic(err)
	}
	return n
}

func exec(h *rt.H, s *state, op string) (out string) {
	w := strings.Fields(op)
	if w[0] != "new" {
		if s.dead {
			return "dead"
		}
		s.history = append(s.history, op)
		// a panic in the real code is a finding in itself: report it with the history and stop the case
		defer func() {
			if r := recover(); r != nil {
				s.dead = true
				h.OracleFail("panic", fmt.Sprintf("the real endpointManager panicked: %v", r),
					map[string]any{"op": op, "history": strings.Join(s.history, "; ")})
				out = "panic"
			}
		}()
	}
	switch w[0] {
	case "new":
		s.filter = &mockTable{chains: map[string]*generictables.Chain{}}
		s.routes = &mockRoutes{routes: map[string][]routetable.Target{}}
		renderer := rules.NewRenderer(rules.Config{
			IPSetConfigV4:         ipsets.NewIPVersionConfig(ipsets.IPFamilyV4, "cali", nil, nil),
			IPSetConfigV6:         ipsets.NewIPVersionConfig(ipsets.IPFamilyV6, "cali", nil, nil),
			MarkAccept:            0x8,
			MarkPass:              0x10,
			MarkScratch0:          0x20,
			MarkScratch1:          0x40,
			MarkDrop:              0x80,
			MarkEndpoint:          0xff00,
			MarkNonCaliEndpoint:   0x0100,
			WorkloadIfacePrefixes: []string{"cali"},
		}, false)
		s.m = intdataplane.VerifC44NewEndpointManager(
			&mockTable{chains: map[string]*generictables.Chain{}}, &mockTable{chains: map[string]*generictables.Chain{}}, s.filter,
			renderer, s.routes, rules.NewEndpointMarkMapper(0xff00, 0x0100), mockLinkAddrs{})
		s.live = map[int]ep{}
		s.renamed = false
		s.batched = false
		s.dead, s.history = false, nil
		return s.dump()
	case "up":
		id := atoi(w[1])
		e := ep{name: atoi(w[2]), up: w[3] != "0", data: atoi(w[4])}
		if old, ok := s.live[id]; ok && old.name != e.name {
			s.renamed = true
			h.Count("rename")
		}
		s.m.OnUpdate(&proto.WorkloadEndpointUpdate{Id: wid(id), Endpoint: mkEp(id, e)})
		s.live[id] = e
	case "rm":
		id := atoi(w[1])
		s.m.OnUpdate(&proto.WorkloadEndpointRemove{Id: wid(id)})
		delete(s.live, id)
	case "batch":
		ids := map[int]bool{}
		before := map[int]ep{}
		for id, e := range s.live {
			before[id] = e
		}
		for _, ent := range w[1:] {
			f := strings.Split(ent, ":")
			id := atoi(f[1])
			ids[id] = true
			if f[0] == "u" {
				e := ep{name: atoi(f[2]), up: f[3] != "0", data: atoi(f[4])}
						s.m.OnUpdate(&proto.WorkloadEndpointUpdate{Id: wid(id), Endpoint: mkEp(id, e)})
				s.live[id] = e
			} else {
						s.m.OnUpdate(&proto.WorkloadEndpointRemove{Id: wid(id)})
				delete(s.live, id)
			}
		}
		// the manager only sees the LAST message per id: an endpoint that was live before the batch and is
		// live with another interface name after it has been renamed as far as the manager can tell
		// (even if the batch deleted and re-created it)
		for id := range ids {
			if old, ok := before[id]; ok {
				if cur, ok2 := s.live[id]; ok2 && cur.name != old.name {
					s.renamed = true
					h.Count("rename")
				}
			}
		}
		if len(ids) >= 2 {
			s.batched = true
			h.Count("batch:multi-id")
		}
	default:
		panic("unknown op " + op)
	}
	if err := s.m.ResolveUpdateBatch(); err != nil {
		return "err:resolve"
	}
	if err := s.m.CompleteDeferredWork(); err != nil {
		return "err:complete"
	}
	out = s.dump()
	s.oracle(h, op)
	if strings.Contains(out, "S[-]") {
		h.Count("shadowed:none")
	} else {
		h.Count("shadowed:some")
	}
	return out
}

func genCase(h *rt.H) []string {
	ops := []string{"new"}
	nid := 2 + h.Intn(3)
	nname := 1 + h.Intn(3)
	fixedNames := h.Chance(0.45) // no live endpoint ever changes its interface name (the _partial theorem's domain)
	home := make([]int, nid)
	for i := range home {
		home[i] = h.Intn(nname)
	}
	if fixedNames {
		h.Count("case:fixed-names")
	} else {
		h.Count("case:renames")
	}
	data := 0
	n := 3 + h.Intn(22)
	batches := h.Chance(0.4)
	genEntry := func() string {
		id := h.Intn(nid)
		if h.Intn(10) < 6 {
			name := home[id]
			if !fixedNames && h.Chance(0.5) {
				name = h.Intn(nname)
			}
			data++
			up := 1
			if h.Chance(0.15) {
				up = 0
			}
			return fmt.Sprintf("u:%d:%d:%d:%d", id, name, up, data)
		}
		return fmt.Sprintf("r:%d", id)
	}
	for i := 0; i < n; i++ {
		if batches && h.Chance(0.35) {
			k := 2 + h.Intn(3)
			parts := []string{"batch"}
			for j := 0; j < k; j++ {
				parts = append(parts, genEntry())
			}
			ops = append(ops, strings.Join(parts, " "))
			continue
		}
		id := h.Intn(nid)
		if h.Intn(10) < 7 {
			name := home[id]
			if !fixedNames && h.Chance(0.5) {
				name = h.Intn(nname)
			}
			data++
			up := 1
			if h.Chance(0.15) {
				up = 0
			}
			ops = append(ops, fmt.Sprintf("up %d %d %d %d", id, name, up, data))
		} else {
			ops = append(ops, fmt.Sprintf("rm %d", id))
		}
	}
	return ops
}

func main() {
	h := rt.New()
	defer h.Close()
	h.Rule = "case = `new` + 3..24 single-update batches over 2..4 endpoint ids and 1..3 interface names {up id iface adminUp data (fresh data per update), rm id}; " +
		"45% of cases never rename a live endpoint; CompleteDeferredWork after every update, and in 40% of cases also batches of 2..4 updates before ONE CompleteDeferredWork (compared order-insensitively); distinct = distinct op sequence; " +
		"non-trivial = at some point an endpoint is shadowed and later an endpoint is removed or renamed"
	run := func(ops []string, tag string) {
		h.Case(tag)
		s := &state{}
		sawShadow, later := false, false
		for _, op := range ops {
			if strings.HasPrefix(op, "observe ") {
				continue // regenerated from the real outcome below (replay files contain them)
			}
			if s.live == nil && op != "new" {
				exec(h, s, "new")
			}
			out := exec(h, s, op)
			name := strings.Fields(op)[0]
			if name == "batch" {
				// order-insensitive comparison: the model keeps every outcome any processing order of the
				// pending map can give and must accept the observed one
				h.Op(op, "ok")
				h.Op("observe "+strings.ReplaceAll(out, " ", "_"), "member")
			} else {
				h.Op(op, out)
			}
			h.Count("op:" + name)
			if sawShadow && (name == "rm" || name == "up" || name == "batch") {
				later = true
			}
			if !strings.Contains(out, "S[-]") {
				sawShadow = true
			}
		}
		if sawShadow && later {
			h.Nontrivial(strings.Join(ops, ";"))
		}
		h.Sample()
	}
	if h.Replay != "" {
		run(h.ReplayLines(), "replay")
		return
	}
	for i := 0; i < h.N; i++ {
		run(genCase(h), "gen")
	}
}
