package main

import (
	"fmt"
	"sort"
)

// refMgr is a Go port of lean/CalicoVerif/Model/C44.lean (= resolveWorkloadEndpoints of the CURRENT code,
// including the two remaining rename defects D1/D3).  It is NOT part of the oracle: it only classifies an
// oracle failure that happens after a rename as "what the current code is known to do" (known finding) or
// "something the current code does not do" (a new defect).
type refMgr struct {
	active    map[int]ep
	ifaceToID map[int]int
	shadowed  map[int]ep
	chainsOf  map[int]int
	chains    map[int]string
	routes    map[int]string
}

func newRef() *refMgr {
	return &refMgr{active: map[int]ep{}, ifaceToID: map[int]int{}, shadowed: map[int]ep{}, chainsOf: map[int]int{},
		chains: map[int]string{}, routes: map[int]string{}}
}

func (r *refMgr) clone() *refMgr {
	c := newRef()
	for k, v := range r.active {
		c.active[k] = v
	}
	for k, v := range r.ifaceToID {
		c.ifaceToID[k] = v
	}
	for k, v := range r.shadowed {
		c.shadowed[k] = v
	}
	for k, v := range r.chainsOf {
		c.chainsOf[k] = v
	}
	for k, v := range r.chains {
		c.chains[k] = v
	}
	for k, v := range r.routes {
		c.routes[k] = v
	}
	return c
}

func (r *refMgr) removeChainsOf(id int) {
	if n, ok := r.chainsOf[id]; ok {
		delete(r.chains, n)
	}
}

func (r *refMgr) removeActive(old *ep, id int) {
	r.removeChainsOf(id)
	delete(r.chainsOf, id)
	if old != nil {
		delete(r.routes, old.name)
		delete(r.ifaceToID, old.name)
	}
	delete(r.active, id)
}

func (r *refMgr) activate(id int, old *ep, w ep) {
	if old != nil && old.name != w.name {
		r.removeChainsOf(id)
		delete(r.routes, old.name)
		delete(r.ifaceToID, old.name)
	}
	if w.up {
		r.chains[w.name] = fmt.Sprintf("%d.%d", id, w.data)
		r.routes[w.name] = fmt.Sprintf("%d.%d", id, w.data)
	} else {
		r.chains[w.name] = "down"
		delete(r.routes, w.name)
	}
	r.chainsOf[id] = w.name
	r.active[id] = w
	r.ifaceToID[w.name] = id
	delete(r.shadowed, id)
}

// process handles one pending entry (w == nil: removal); pend = the other entries still pending.
func (r *refMgr) process(pend map[int]*ep, id int, w *ep) (int, *ep) {
	var old *ep
	if o, ok := r.active[id]; ok {
		old = &o
	}
	if w != nil {
		if existing, ok := r.ifaceToID[w.name]; ok && existing != id {
			if existing < id {
				r.shadowed[id] = *w
				return 0, nil
			}
			var oe *ep
			if e, ok := r.active[existing]; ok {
				r.shadowed[existing] = e
				oe = &e
			}
			r.removeActive(oe, existing)
		}
		r.activate(id, old, *w)
		return 0, nil
	}
	r.removeActive(old, id)
	delete(r.shadowed, id)
	if old != nil {
		best, found := 0, false
		for sid, sw := range r.shadowed {
			if _, pending := pend[sid]; pending {
				continue
			}
			if sw.name == old.name && (!found || sid < best) {
				best, found = sid, true
			}
		}
		if found {
			e := r.shadowed[best]
			delete(r.shadowed, best)
			return best, &e
		}
	}
	return 0, nil
}

// outcomes returns every state the pending map can lead to (any processing order).
func (r *refMgr) outcomes(pend map[int]*ep, depth int) []*refMgr {
	if len(pend) == 0 || depth > 12 {
		return []*refMgr{r}
	}
	var ids []int
	for id := range pend {
		ids = append(ids, id)
	}
	sort.Ints(ids)
	var out []*refMgr
	for _, id := range ids {
		c := r.clone()
		rest := map[int]*ep{}
		for k, v := range pend {
			if k != id {
				rest[k] = v
			}
		}
		b, e := c.process(rest, id, pend[id])
		if e != nil {
			rest[b] = e
		}
		out = append(out, c.outcomes(rest, depth+1)...)
	}
	return out
}

func (r *refMgr) dump() string {
	a, i, sh, c, rt := map[int]string{}, map[int]string{}, map[int]string{}, map[int]string{}, map[int]string{}
	se := func(e ep) string {
		up := "0"
		if e.up {
			up = "1"
		}
		return fmt.Sprintf("%d.%s.%d", e.name, up, e.data)
	}
	for k, e := range r.active {
		a[k] = se(e)
	}
	for n, k := range r.ifaceToID {
		i[n] = fmt.Sprint(k)
	}
	for k, e := range r.shadowed {
		sh[k] = se(e)
	}
	for n, d := range r.chains {
		c[n] = d
	}
	for n, d := range r.routes {
		rt[n] = d
	}
	return fmt.Sprintf("A[%s] I[%s] S[%s] C[%s] R[%s]", join(a), join(i), join(sh), join(c), join(rt))
}
