// C25 correspondence harness: drives the real dedupebuffer.DedupeBuffer
// synchronously (no goroutines): upstream ops are called directly, the sender
// side is the real sendNextBatchToSinkNoBlock (verif re-export); a single-batch
// pull is obtained by calling Stop() from inside the sink callback, which makes
// the real send loop return after the batch in flight.
package main

import (
	"fmt"
	"sort"
	"strconv"
	"strings"

	"github.com/projectcalico/calico/libcalico-go/lib/backend/api"
	"github.com/projectcalico/calico/libcalico-go/lib/backend/model"
	"github.com/projectcalico/calico/libcalico-go/lib/backend/syncersv1/dedupebuffer"

	"verif/harness/rt"
)

type kv struct{ val, rev int }

type state struct {
	h *rt.H
	d *dedupebuffer.DedupeBuffer

	// sink side
	calls     []string
	stopAfter bool // call Stop() at the first sink callback (single-batch pull)
	stopped   bool
	down      map[int]kv

	// upstream side (for the property oracle)
	view   map[int]kv
	insync bool // latest connection reported InSync
	wf     bool // every upstream deletion so far was for a key in the connection's view
	trace  []string
}

// ---- key / value encoding ---------------------------------------------------

func mkKey(i int) model.Key {
	switch i % 4 {
	case 0:
		return model.ResourceKey{Kind: "NetworkPolicy", Namespace: "ns", Name: fmt.Sprintf("n%d", i)}
	case 1:
		return model.WorkloadEndpointKey{Hostname: "h", OrchestratorID: "k8s", WorkloadID: fmt.Sprintf("w%d", i), EndpointID: "eth0"}
	case 2:
		return model.HostConfigKey{Hostname: fmt.Sprintf("host%d", i), Name: "cfg"}
	default:
		return model.ResourceKey{Kind: "Node", Name: fmt.Sprintf("n%d", i)}
	}
}

var keyIDs = map[model.Key]int{}

func keyID(k model.Key) int {
	if id, ok := keyIDs[k]; ok {
		return id
	}
	panic(fmt.Sprintf("unknown key %v", k))
}

func init() {
	for i := 0; i < 1000; i++ {
		keyIDs[mkKey(i)] = i
	}
}

func mkRev(r int) string {
	if r == 0 {
		return ""
	}
	return "r" + strconv.Itoa(r)
}

func revID(s string) int {
	if s == "" {
		return 0
	}
	n, err := strconv.Atoi(s[1:])
	if err != nil {
		panic(err)
	}
	return n
}

func showUpd(u api.Update) string {
	v := "-"
	if u.Value != nil {
		v = strconv.Itoa(u.Value.(int))
	}
	return fmt.Sprintf("%d.%s.%d.%d", keyID(u.Key), v, revID(u.Revision), int(u.UpdateType))
}

func parseUpd(w string) api.Update {
	f := strings.Split(w, ":")
	k, _ := strconv.Atoi(f[0])
	r, _ := strconv.Atoi(f[2])
	t, _ := strconv.Atoi(f[3])
	u := api.Update{KVPair: model.KVPair{Key: mkKey(k), Revision: mkRev(r)}, UpdateType: api.UpdateType(t)}
	if f[1] != "-" {
		v, _ := strconv.Atoi(f[1])
		u.Value = v
	}
	return u
}

// ---- sink (api.SyncerCallbacks) with the property oracle on deliveries -----------

func (s *state) maybeStop() {
	if s.stopAfter && !s.stopped {
		s.stopped = true
		s.d.Stop() // lock is released while the sink is called
	}
}

func (s *state) OnStatusUpdated(st api.SyncStatus) {
	s.maybeStop()
	s.calls = append(s.calls, fmt.Sprintf("S:%d", int(st)))
}

func (s *state) OnUpdates(us []api.Update) {
	s.maybeStop()
	parts := make([]string, 0, len(us))
	for _, u := range us {
		parts = append(parts, showUpd(u))
		k := keyID(u.Key)
		_, held := s.down[k]
		if u.Value != nil {
			want := api.UpdateTypeKVNew
			if held {
				want = api.UpdateTypeKVUpdated
			}
			if u.UpdateType != want {
				s.h.OracleFail("update-type", "delivered update type does not match whether downstream already holds the key",
					map[string]any{"trace": append([]string(nil), s.trace...), "key": k, "held": held, "type": int(u.UpdateType)})
			}
			s.down[k] = kv{u.Value.(int), revID(u.Revision)}
		} else {
			if !held && s.wf {
				s.h.OracleFail("delete-unknown", "deletion delivered for a key downstream does not hold (upstream was well-formed)",
					map[string]any{"trace": append([]string(nil), s.trace...), "key": k})
			}
			delete(s.down, k)
		}
	}
	s.calls = append(s.calls, "U:"+strings.Join(parts, ","))
}

// ---- exec ---------------------------------------------------------------------

func sortedIDs(ks []model.Key) []int {
	out := make([]int, 0, len(ks))
	for _, k := range ks {
		out = append(out, keyID(k))
	}
	sort.Ints(out)
	return out
}

func joinInts(xs []int) string {
	p := make([]string, len(xs))
	for i, x := range xs {
		p[i] = strconv.Itoa(x)
	}
	return strings.Join(p, ",")
}

func (s *state) send(single bool) string {
	s.calls = s.calls[:0]
	s.stopAfter, s.stopped = single, false
	err := s.d.VerifSendNextBatchToSinkNoBlock(s)
	s.stopAfter = false
	if s.stopped {
		s.d.VerifResume()
	}
	if err != nil {
		return "empty"
	}
	return strings.Join(s.calls, ";")
}

// exec runs one op on the REAL buffer; returns the (possibly rewritten) op line and the canonical output.
func exec(h *rt.H, s *state, op string) (string, string) {
	w := strings.Fields(op)
	out := ""
	switch w[0] {
	case "new":
		*s = state{h: h, d: dedupebuffer.New(), down: map[int]kv{}, view: map[int]kv{}, wf: true}
		out = "ok"
	case "upd":
		us := make([]api.Update, 0, len(w)-1)
		for _, x := range w[1:] {
			u := parseUpd(x)
			us = append(us, u)
			k := keyID(u.Key)
			if u.Value != nil {
				s.view[k] = kv{u.Value.(int), revID(u.Revision)}
			} else {
				if _, ok := s.view[k]; !ok {
					s.wf = false
				}
				delete(s.view, k)
			}
		}
		s.d.OnUpdates(us)
		out = "ok"
	case "status":
		st, _ := strconv.Atoi(w[1])
		before := s.d.VerifDump()
		s.d.OnStatusUpdated(api.SyncStatus(st))
		after := s.d.VerifDump()
		// Recover the Go map iteration order of the synthesised deletions: keys of
		// notSeen that were already queued (order irrelevant: replaced in place) in
		// sorted order, then the appended ones in queue order.
		var order []int
		if api.SyncStatus(st) == api.InSync && !before.NotSeenIsNil {
			ns := map[int]bool{}
			for _, k := range before.NotSeen {
				ns[keyID(k)] = true
			}
			was := map[int]bool{}
			for _, it := range before.Pending {
				if !it.IsStatus {
					was[keyID(it.Key)] = true
				}
			}
			var inPlace []int
			for k := range ns {
				if was[k] {
					inPlace = append(inPlace, k)
				}
			}
			sort.Ints(inPlace)
			order = append(order, inPlace...)
			for _, it := range after.Pending {
				if !it.IsStatus {
					if k := keyID(it.Key); ns[k] && !was[k] {
						order = append(order, k)
					}
				}
			}
		}
		op = "status " + w[1]
		for _, k := range order {
			op += " " + strconv.Itoa(k)
		}
		if api.SyncStatus(st) == api.InSync {
			s.insync = true
		}
		out = "ok"
	case "restart":
		s.d.OnTyphaConnectionRestarted()
		s.view = map[int]kv{}
		s.insync = false
		out = "ok"
	case "pull":
		out = s.send(true)
	case "drain":
		out = s.send(false)
	case "dump":
		st := s.d.VerifDump()
		items := make([]string, 0, len(st.Pending))
		var pk []model.Key
		for _, it := range st.Pending {
			if it.IsStatus {
				items = append(items, fmt.Sprintf("S%d", int(it.Status)))
			} else {
				if it.Key != it.Update.Key {
					h.OracleFail("queue-key-mismatch", "queue element key differs from its update's key", map[string]any{"trace": s.trace})
				}
				items = append(items, showUpd(it.Update))
				pk = append(pk, it.Key)
			}
		}
		if !st.MapMatchesLst || len(st.KeyToPending) != len(pk) {
			h.OracleFail("map-list-mismatch", "keyToPendingUpdate and pendingUpdates are out of step", map[string]any{"trace": s.trace})
		}
		n := "nil"
		if !st.NotSeenIsNil {
			n = joinInts(sortedIDs(st.NotSeen))
		}
		out = fmt.Sprintf("P=%s K=%s L=%s N=%s M=%d", strings.Join(items, ","), joinInts(sortedIDs(st.KeyToPending)),
			joinInts(sortedIDs(st.Live)), n, int(st.MostRecent))
	default:
		panic("unknown op " + op)
	}
	s.trace = append(s.trace, op)
	if w[0] != "dump" && w[0] != "new" {
		s.checkConverged()
	}
	return op, out
}

// checkConverged is the property's own oracle on the real code: once the latest
// connection reported InSync and no update is left in the queue, downstream's
// view must equal the latest connection's view.
func (s *state) checkConverged() {
	if !s.insync {
		return
	}
	st := s.d.VerifDump()
	for _, it := range st.Pending {
		if !it.IsStatus {
			return
		}
	}
	s.h.Count("oracle:converged-checked")
	bad := []string{}
	for k, v := range s.view {
		if dv, ok := s.down[k]; !ok {
			bad = append(bad, fmt.Sprintf("lost:%d", k))
		} else if dv != v {
			bad = append(bad, fmt.Sprintf("stale:%d", k))
		}
	}
	for k := range s.down {
		if _, ok := s.view[k]; !ok {
			bad = append(bad, fmt.Sprintf("undeleted:%d", k))
		}
	}
	if len(bad) > 0 {
		sort.Strings(bad)
		s.h.OracleFail("not-converged", "latest connection in sync and queue drained but downstream view differs from the connection's view",
			map[string]any{"trace": append([]string(nil), s.trace...), "diff": bad})
	}
}

// ---- generator ----------------------------------------------------------------

type gen struct {
	h       *rt.H
	nkeys   int
	ops     []string
	view    map[int]bool // generator's idea of the current connection's view (to make mostly well-formed deletes)
	everSet map[int]bool
	rev     int
}

func (g *gen) item(k int, del bool) string {
	g.rev++
	if del {
		delete(g.view, k)
		// upstream deletions normally carry UpdateTypeKVDeleted; sometimes something else (passed through)
		t := 3
		if g.h.Chance(0.1) {
			t = g.h.Intn(4)
		}
		r := 0
		if g.h.Chance(0.3) {
			r = g.rev
		}
		return fmt.Sprintf("%d:-:%d:%d", k, r, t)
	}
	g.view[k] = true
	g.everSet[k] = true
	// upstream's update type is recomputed by the buffer, so feed arbitrary ones
	return fmt.Sprintf("%d:%d:%d:%d", k, g.h.Intn(50), g.rev, g.h.Intn(4))
}

func (g *gen) randUpd(max int) string {
	n := 1 + g.h.Intn(max)
	if g.h.Chance(0.03) {
		n = 0
	}
	parts := []string{"upd"}
	for i := 0; i < n; i++ {
		k := g.h.Intn(g.nkeys)
		del := false
		switch {
		case g.view[k] && g.h.Chance(0.35):
			del = true
		case !g.view[k] && g.h.Chance(0.06): // ill-formed deletion of a key the connection never sent
			del = true
		}
		parts = append(parts, g.item(k, del))
	}
	return strings.Join(parts, " ")
}

func (g *gen) add(op string) {
	g.ops = append(g.ops, op)
	if g.nkeys <= 16 || g.h.Chance(0.15) {
		g.ops = append(g.ops, "dump")
	}
}

func (g *gen) restart() {
	g.add("restart")
	g.view = map[int]bool{}
	if g.h.Chance(0.8) { // what the real sync client does next
		g.add("status 0")
		if g.h.Chance(0.9) {
			g.add("status 1")
		}
	}
}

// snapshot re-sends (most of) the keys a server would hold, in chunks.
func (g *gen) snapshot(keep func(k int) bool) {
	var parts []string
	flush := func() {
		if len(parts) > 0 {
			g.add("upd " + strings.Join(parts, " "))
			parts = nil
		}
	}
	chunk := 1 + g.h.Intn(120)
	for k := 0; k < g.nkeys; k++ {
		if !keep(k) {
			continue
		}
		parts = append(parts, g.item(k, false))
		if len(parts) >= chunk {
			flush()
			if g.h.Chance(0.3) {
				g.add(rt.Pick(g.h, []string{"pull", "pull", "drain"}))
			}
		}
	}
	flush()
}

func genCase(h *rt.H) ([]string, string) {
	g := &gen{h: h, view: map[int]bool{}, everSet: map[int]bool{}}
	g.ops = []string{"new"}
	fam := h.Intn(10)
	switch {
	case fam < 6: // small random
		g.nkeys = 1 + h.Intn(8)
		n := 5 + h.Intn(40)
		for i := 0; i < n; i++ {
			switch x := h.Intn(100); {
			case x < 35:
				g.add(g.randUpd(4))
			case x < 50:
				g.add(fmt.Sprintf("status %d", rt.Pick(h, []int{0, 1, 2, 2, 2})))
			case x < 60:
				g.restart()
			case x < 85:
				g.add("pull")
			case x < 92:
				g.add("drain")
			default:
				g.add("dump")
			}
		}
		if h.Chance(0.7) {
			g.add("status 2")
			g.add("drain")
		}
		return g.ops, "small"
	case fam < 8: // protocol-shaped sessions: connect, snapshot, insync, deltas, restart ...
		g.nkeys = 2 + h.Intn(14)
		sessions := 1 + h.Intn(4)
		for sidx := 0; sidx < sessions; sidx++ {
			if sidx > 0 {
				g.restart()
			} else {
				g.add("status 1")
			}
			p := h.Rng.Float64()
			g.snapshot(func(k int) bool { return h.Rng.Float64() < p })
			if h.Chance(0.5) {
				g.add(rt.Pick(h, []string{"pull", "drain"}))
			}
			if h.Chance(0.85) {
				g.add("status 2")
			}
			for i := h.Intn(8); i > 0; i-- {
				switch h.Intn(4) {
				case 0, 1:
					g.add(g.randUpd(3))
				case 2:
					g.add("pull")
				default:
					g.add(rt.Pick(h, []string{"drain", "status 2", "status 1"}))
				}
			}
		}
		g.add("status 2")
		g.add("drain")
		return g.ops, "proto"
	default: // big: more than one batch in the queue
		g.nkeys = 90 + h.Intn(170)
		sessions := 1 + h.Intn(3)
		for sidx := 0; sidx < sessions; sidx++ {
			if sidx > 0 {
				g.restart()
			} else if h.Bool() {
				g.add("status 1")
			}
			p := 0.5 + h.Rng.Float64()/2
			if h.Chance(0.3) {
				p = 1
			}
			g.snapshot(func(k int) bool { return h.Rng.Float64() < p })
			if h.Chance(0.8) {
				g.add("status 2")
			}
			for i := h.Intn(10); i > 0; i-- {
				switch h.Intn(5) {
				case 0, 1:
					g.add(g.randUpd(30))
				case 2, 3:
					g.add("pull")
				default:
					g.add(rt.Pick(h, []string{"drain", "status 2", "dump"}))
				}
			}
		}
		g.add("status 2")
		g.add("drain")
		g.add("dump")
		return g.ops, "big"
	}
}

func main() {
	h := rt.New()
	defer h.Close()
	h.Rule = "case = one DedupeBuffer + an op sequence over {upd(list of set/delete), status 0/1/2, restart, pull(one batch), drain, dump}; " +
		"families: small random (1..8 keys), protocol-shaped sessions (snapshot, insync, deltas, restart; 2..15 keys), big (90..259 keys, queue longer than one batch of 100); " +
		"distinct = distinct op sequence; non-trivial = the case contains a restart followed by an InSync that synthesised >=1 deletion, or a pull that left a non-empty queue"
	run := func(ops []string, tag string) {
		h.Case(tag)
		s := &state{}
		nontriv := false
		var done []string
		for _, op := range ops {
			if s.d == nil && !strings.HasPrefix(op, "new") {
				exec(h, s, "new") // shrunk/replayed cases may have lost the leading `new`; the driver starts from Buf.new too
			}
			op2, out := exec(h, s, op)
			h.Op(op2, out)
			done = append(done, op2)
			f := strings.Fields(op2)
			h.Count("op:" + f[0])
			if f[0] == "status" && len(f) > 2 {
				h.Count("synth-deletions:>0")
				nontriv = true
				if len(f) > 3 {
					h.Count("synth-deletions:>1")
				}
			}
			if f[0] == "pull" && out != "empty" {
				if st := s.d.VerifDump(); len(st.Pending) > 0 {
					h.Count("pull:partial")
					nontriv = true
				}
			}
			if out == "empty" {
				h.Count("send:empty")
			}
		}
		h.Count("family:" + tag)
		if !s.wf {
			h.Count("trace:ill-formed-delete")
		}
		if nontriv {
			h.Nontrivial(strings.Join(done, ";"))
		}
		if tag != "big" {
			h.Sample()
		}
	}
	if h.Replay != "" {
		run(h.ReplayLines(), "replay")
		return
	}
	for i := 0; i < h.N; i++ {
		ops, tag := genCase(h)
		run(ops, tag)
	}
}
