// C24 correspondence harness: drives the real Typha snapshot cache
// (snapcache.Cache: fillBatchFromInputQueue + publishBreadcrumbs via a verif
// re-export, no cache goroutine) and the real per-connection sender
// (streamSnapshotToClient / sendDeltaUpdatesToClient / sendMsg with real gob
// encoding, wired to an in-memory writer) synchronously on one goroutine.
// Crumb timestamps and the "latest breadcrumb" seen by the sender are scripted.
package main

import (
	"bytes"
	"context"
	"encoding/gob"
	"fmt"
	"sort"
	"strconv"
	"strings"
	"time"

	apiv3 "github.com/projectcalico/api/pkg/apis/projectcalico/v3"

	"github.com/projectcalico/calico/libcalico-go/lib/backend/api"
	"github.com/projectcalico/calico/libcalico-go/lib/backend/model"
	"github.com/projectcalico/calico/typha/pkg/snapcache"
	"github.com/projectcalico/calico/typha/pkg/syncproto"
	"github.com/projectcalico/calico/typha/pkg/syncserver"

	"verif/harness/rt"
)

type kv struct{ val, rev int }

const v3Keys = 50 // ids below this are v3 IPPool resources, the rest are GlobalConfig strings

var epoch = time.Unix(1_700_000_000, 0)

func mkKey(i int) model.Key {
	if i < v3Keys {
		return model.ResourceKey{Kind: apiv3.KindIPPool, Name: fmt.Sprintf("p%04d", i)}
	}
	return model.GlobalConfigKey{Name: fmt.Sprintf("k%04d", i)}
}

var pathIDs = map[string]int{}

func init() {
	prev := ""
	for i := 0; i < 1000; i++ {
		p, err := model.KeyToDefaultPath(mkKey(i))
		if err != nil {
			panic(err)
		}
		if p <= prev {
			panic("key paths are not in id order: " + prev + " / " + p)
		}
		prev = p
		pathIDs[p] = i
	}
}

func mkRev(r int) string { return "r" + strconv.Itoa(r) }
func revID(s string) int {
	n, err := strconv.Atoi(strings.TrimPrefix(s, "r"))
	if err != nil {
		panic("bad revision " + s)
	}
	return n
}

func mkUpdate(w string) api.Update {
	f := strings.Split(w, ":")
	k, _ := strconv.Atoi(f[0])
	r, _ := strconv.Atoi(f[2])
	t, _ := strconv.Atoi(f[3])
	u := api.Update{KVPair: model.KVPair{Key: mkKey(k), Revision: mkRev(r)}, UpdateType: api.UpdateType(t)}
	if f[1] != "-" {
		v, _ := strconv.Atoi(f[1])
		if k < v3Keys {
			p := apiv3.NewIPPool()
			p.Name = fmt.Sprintf("p%04d", k)
			p.ResourceVersion = mkRev(r)
			p.Spec.CIDR = fmt.Sprintf("10.%d.%d.0/24", v/256, v%256)
			u.Value = p
		} else {
			u.Value = "v" + strconv.Itoa(v)
		}
	}
	return u
}

// decodeUpdate turns a (deserialised) update back into (id, val, rev, type).
func decodeUpdate(u api.Update) (int, int, bool, int, int) {
	p, err := model.KeyToDefaultPath(u.Key)
	if err != nil {
		panic(err)
	}
	id, ok := pathIDs[p]
	if !ok {
		panic("unknown key " + p)
	}
	rev := revID(u.Revision)
	if u.Value == nil {
		return id, 0, false, rev, int(u.UpdateType)
	}
	switch v := u.Value.(type) {
	case string:
		n, _ := strconv.Atoi(v[1:])
		return id, n, true, rev, int(u.UpdateType)
	case *apiv3.IPPool:
		var a, b int
		fmt.Sscanf(v.Spec.CIDR, "10.%d.%d.0/24", &a, &b)
		if v.ResourceVersion != u.Revision {
			panic("v3 resource version not restored: " + v.ResourceVersion + " vs " + u.Revision)
		}
		return id, a*256 + b, true, rev, int(u.UpdateType)
	}
	panic(fmt.Sprintf("unexpected value type %T", u.Value))
}

func showSU(su syncproto.SerializedUpdate) string {
	u, err := su.ToUpdate()
	if err != nil {
		panic(err)
	}
	id, v, has, rev, t := decodeUpdate(u)
	vs := "-"
	if has {
		vs = strconv.Itoa(v)
	}
	return fmt.Sprintf("%d.%s.%d.%d", id, vs, rev, t)
}

func showSUs(l []syncproto.SerializedUpdate) string {
	p := make([]string, len(l))
	for i, su := range l {
		p[i] = showSU(su)
	}
	return strings.Join(p, ",")
}

func crumbKVs(c *snapcache.Breadcrumb) []syncproto.SerializedUpdate {
	var out []syncproto.SerializedUpdate
	c.KVs.Ascend(func(e syncproto.SerializedUpdate) bool { out = append(out, e); return true })
	return out
}

// ---- client side (what syncclient.loop does with MsgKVs / MsgSyncStatus) ------------------

type client struct {
	view    map[int]kv
	lastRev map[int]int
	status  int
	gotStat bool
}

func newClient() *client { return &client{view: map[int]kv{}, lastRev: map[int]int{}} }

func (c *client) clone() *client {
	n := newClient()
	for k, v := range c.view {
		n.view[k] = v
	}
	for k, v := range c.lastRev {
		n.lastRev[k] = v
	}
	n.status, n.gotStat = c.status, c.gotStat
	return n
}

type conn struct {
	start  int // chain index of the snapshot crumb
	client *client
}

type state struct {
	h      *rt.H
	cache  *snapcache.Cache
	chain  []*snapcache.Breadcrumb
	conns  map[int]*conn
	pushed [][]api.Update // update batches pushed on the input channel, not yet consumed (nil entry = a status)
	// cache-side in-sync oracle
	pushedSt   []int        // parallel to pushed: the status value of a status item, -1 for an update batch
	consumed   []api.Update // every update the cache has consumed, in order
	statusFrom map[int]int  // status value -> number of updates consumed before the latest consumed status item of that value
	ds     map[int]int    // datastore view (key -> value) of everything the cache has consumed
	trace  []string
}

func (s *state) fail(sig, desc string, extra map[string]any) {
	extra["trace"] = append([]string(nil), s.trace...)
	s.h.OracleFail(sig, desc, extra)
}

// applyMsg is the client's handling of one message; it evaluates the per-key monotonicity part of the property.
func (s *state) applyMsg(c *client, msg any) string {
	switch m := msg.(type) {
	case syncproto.MsgKVs:
		for _, su := range m.KVs {
			u, err := su.ToUpdate()
			if err != nil {
				panic(err)
			}
			id, v, has, rev, _ := decodeUpdate(u)
			if last, ok := c.lastRev[id]; ok && rev < last {
				s.fail("older-after-newer", "client saw an older revision of a key after a newer one within a connection",
					map[string]any{"key": id, "rev": rev, "after": last})
			}
			c.lastRev[id] = rev
			if has {
				c.view[id] = kv{v, rev}
			} else {
				delete(c.view, id)
			}
		}
		return "K[" + showSUs(m.KVs) + "]"
	case syncproto.MsgSyncStatus:
		c.status, c.gotStat = int(m.SyncStatus), true
		return fmt.Sprintf("S%d", int(m.SyncStatus))
	}
	panic(fmt.Sprintf("unexpected message %T", msg))
}

func viewOfCrumb(c *snapcache.Breadcrumb) map[int]kv {
	out := map[int]kv{}
	for _, su := range crumbKVs(c) {
		u, _ := su.ToUpdate()
		id, v, _, rev, _ := decodeUpdate(u)
		out[id] = kv{v, rev}
	}
	return out
}

func diffViews(a, b map[int]kv) []string {
	var bad []string
	for k, v := range a {
		if w, ok := b[k]; !ok {
			bad = append(bad, fmt.Sprintf("missing:%d", k))
		} else if w != v {
			bad = append(bad, fmt.Sprintf("differs:%d", k))
		}
	}
	for k := range b {
		if _, ok := a[k]; !ok {
			bad = append(bad, fmt.Sprintf("extra:%d", k))
		}
	}
	sort.Strings(bad)
	return bad
}

// ---- scripted BreadcrumbProvider --------------------------------------------------------------

type provider struct {
	chain []*snapcache.Breadcrumb
	start int
	lags  []int
	calls int
}

func (p *provider) CurrentBreadcrumb() *snapcache.Breadcrumb {
	p.calls++
	pos := p.start + p.calls
	lag := 0
	if p.calls-1 < len(p.lags) {
		lag = p.lags[p.calls-1]
	}
	i := pos + lag
	if i > len(p.chain)-1 {
		i = len(p.chain) - 1
	}
	return p.chain[i]
}

// ---- exec ---------------------------------------------------------------------------------------

func (s *state) refreshChain() []*snapcache.Breadcrumb {
	done, cancel := context.WithCancel(context.Background())
	cancel()
	n := len(s.chain)
	for {
		next, err := s.chain[len(s.chain)-1].Next(done)
		if err != nil || next == nil {
			break
		}
		s.chain = append(s.chain, next)
	}
	return s.chain[n:]
}

func exec(h *rt.H, s *state, op string) string {
	w := strings.Fields(op)
	s.trace = append(s.trace, op)
	switch w[0] {
	case "new":
		b, _ := strconv.Atoi(w[1])
		if s.cache != nil {
			s.cache.VerifStopTickers()
		}
		c := snapcache.New(snapcache.Config{MaxBatchSize: b, WakeUpInterval: time.Hour})
		*s = state{h: h, cache: c, chain: []*snapcache.Breadcrumb{c.CurrentBreadcrumb()}, conns: map[int]*conn{}, ds: map[int]int{}, statusFrom: map[int]int{}, trace: []string{op}}
		s.chain[0].Timestamp = epoch
		return "ok"
	case "upd":
		if len(w) == 1 {
			s.cache.OnUpdates(nil)
			return "ok"
		}
		if s.cache.VerifInputLen() >= s.cache.VerifInputCap() {
			return "full"
		}
		us := make([]api.Update, 0, len(w)-1)
		for _, x := range w[1:] {
			us = append(us, mkUpdate(x))
		}
		s.cache.OnUpdates(us)
		s.pushed = append(s.pushed, us)
		s.pushedSt = append(s.pushedSt, -1)
		return "ok"
	case "status":
		if s.cache.VerifInputLen() >= s.cache.VerifInputCap() {
			return "full"
		}
		st, _ := strconv.Atoi(w[1])
		s.cache.OnStatusUpdated(api.SyncStatus(st))
		s.pushed = append(s.pushed, nil)
		s.pushedSt = append(s.pushedSt, st)
		return "ok"
	case "loop":
		t, _ := strconv.Atoi(w[1])
		before := s.cache.VerifInputLen()
		if before == 0 {
			return "idle"
		}
		if err := s.cache.VerifLoopOnce(context.Background()); err != nil {
			panic(err)
		}
		consumed := before - s.cache.VerifInputLen()
		for i, us := range s.pushed[:consumed] {
			if s.pushedSt[i] >= 0 {
				s.statusFrom[s.pushedSt[i]] = len(s.consumed)
			}
			s.consumed = append(s.consumed, us...)
			for _, u := range us {
				id, v, has, _, _ := decodeUpdate(u)
				if has {
					s.ds[id] = v
				} else {
					delete(s.ds, id)
				}
			}
		}
		s.pushed = s.pushed[consumed:]
		s.pushedSt = s.pushedSt[consumed:]
		prevStatus := s.chain[len(s.chain)-1].SyncStatus
		fresh := s.refreshChain()
		// property oracle (cache side): a crumb that announces a new status must already contain every update the
		// syncer sent before that status, i.e. its (value) view is the fold of a prefix of the consumed updates
		// that is at least as long as the prefix preceding the status item.
		for _, c := range fresh {
			if c.SyncStatus != prevStatus {
				if from, ok := s.statusFrom[int(c.SyncStatus)]; ok {
					cv := map[int]int{}
					for k, v := range viewOfCrumb(c) {
						cv[k] = v.val
					}
					want := fmt.Sprint(cv)
					acc := map[int]int{}
					apply := func(u api.Update) {
						id, v, has, _, _ := decodeUpdate(u)
						if has {
							acc[id] = v
						} else {
							delete(acc, id)
						}
					}
					for _, u := range s.consumed[:from] {
						apply(u)
					}
					found := fmt.Sprint(acc) == want
					for m := from; m < len(s.consumed) && !found; m++ {
						apply(s.consumed[m])
						found = fmt.Sprint(acc) == want
					}
					if !found {
						s.fail("status-before-updates", "a breadcrumb announces a new sync status but does not contain every update the syncer sent before that status",
							map[string]any{"seq": c.SequenceNumber, "status": int(c.SyncStatus), "updatesBeforeStatus": from})
					}
					s.h.Count("oracle:status-crumb-checked")
				}
			}
			prevStatus = c.SyncStatus
		}
		parts := make([]string, 0, len(fresh))
		for j, c := range fresh {
			c.Timestamp = epoch.Add(time.Duration(t+j) * time.Millisecond)
			parts = append(parts, fmt.Sprintf("C%d@%d:S%d:D[%s]:K[%s]", c.SequenceNumber, t+j, int(c.SyncStatus), showSUs(c.Deltas), showSUs(crumbKVs(c))))
		}
		// property oracle: the server's view is the datastore's view (value-wise) of everything consumed so far
		cur := s.chain[len(s.chain)-1]
		if cur != s.cache.CurrentBreadcrumb() {
			s.fail("chain-broken", "walking next pointers does not end at CurrentBreadcrumb", map[string]any{})
		}
		sv := map[int]int{}
		for k, v := range viewOfCrumb(cur) {
			sv[k] = v.val
		}
		if fmt.Sprint(sv) != fmt.Sprint(s.ds) {
			s.fail("server-view-not-datastore", "the cache's current snapshot differs (value-wise) from the datastore view of the updates it consumed",
				map[string]any{"server": fmt.Sprint(sv), "datastore": fmt.Sprint(s.ds)})
		}
		if len(parts) == 0 {
			return "nocrumb"
		}
		return strings.Join(parts, " ")
	case "snap":
		id, _ := strconv.Atoi(w[1])
		m, _ := strconv.Atoi(w[2])
		crumb := s.cache.CurrentBreadcrumb()
		cl := newClient()
		var buf bytes.Buffer
		dec := gob.NewDecoder(&buf)
		var out []string
		ctx, cancel := context.WithCancel(context.Background())
		defer cancel()
		flush := func() error {
			var env syncproto.Envelope
			if err := dec.Decode(&env); err != nil {
				panic(err)
			}
			out = append(out, s.applyMsg(cl, env.Message))
			return nil
		}
		cfg := &syncserver.Config{MaxMessageSize: m, WriteTimeout: time.Minute}
		vc := syncserver.VerifNewConn(ctx, cancel, cfg, s.cache, &buf, flush)
		if err := vc.StreamSnapshot(crumb); err != nil {
			panic(err)
		}
		s.conns[id] = &conn{start: len(s.chain) - 1, client: cl}
		if bad := diffViews(viewOfCrumb(crumb), cl.view); len(bad) > 0 {
			s.fail("snapshot-incomplete", "client view after the snapshot differs from the snapshot crumb", map[string]any{"diff": bad})
		}
		if len(out) == 0 {
			return "none"
		}
		return strings.Join(out, ";")
	case "deltas":
		id, _ := strconv.Atoi(w[1])
		m, _ := strconv.Atoi(w[2])
		a, _ := strconv.Atoi(w[3])
		f, _ := strconv.Atoi(w[4])
		g, _ := strconv.Atoi(w[5])
		var lags []int
		for _, x := range w[6:] {
			l, _ := strconv.Atoi(x)
			lags = append(lags, l)
		}
		cn, ok := s.conns[id]
		if !ok {
			return "noconn"
		}
		end := s.chain[len(s.chain)-1]
		if m == 0 || a == 0 || len(end.Deltas) == 0 || cn.start+1 >= len(s.chain) {
			return "skip"
		}
		return s.runDeltas(cn, m, a, f, g != 0, lags)
	}
	panic("unknown op " + op)
}

func (s *state) runDeltas(cn *conn, m, a, f int, graceExpired bool, lags []int) string {
	cl := cn.client.clone()
	end := len(s.chain) - 1
	total := 0
	for _, c := range s.chain[cn.start+1:] {
		total += len(c.Deltas)
	}
	finalStatus := int(s.chain[end].SyncStatus)
	prov := &provider{chain: s.chain, start: cn.start, lags: lags}
	var buf bytes.Buffer
	dec := gob.NewDecoder(&buf)
	var out []string
	ctx, cancel := context.WithCancel(context.Background())
	defer cancel()
	seen := 0
	lastStatus := 0 // the sender's lastSentStatus starts at the zero SyncStatus
	hung := false
	wd := time.AfterFunc(60*time.Second, func() { hung = true; cancel(); s.cache.VerifBroadcast() })
	defer wd.Stop()
	flush := func() error {
		var env syncproto.Envelope
		if err := dec.Decode(&env); err != nil {
			panic(err)
		}
		out = append(out, s.applyMsg(cl, env.Message))
		pos := cn.start + prov.calls
		switch msg := env.Message.(type) {
		case syncproto.MsgKVs:
			seen += len(msg.KVs)
		case syncproto.MsgSyncStatus:
			lastStatus = int(msg.SyncStatus)
			if msg.SyncStatus == api.InSync {
				// property oracle: told in-sync only once the client holds the view of a crumb that is in sync
				crumb := s.chain[pos]
				if crumb.SyncStatus != api.InSync {
					s.fail("insync-too-soon", "client told InSync while the crumb it has caught up to is not in sync", map[string]any{"pos": pos})
				} else if bad := diffViews(viewOfCrumb(crumb), cl.view); len(bad) > 0 {
					s.fail("insync-too-soon", "client told InSync before it holds the in-sync snapshot's view", map[string]any{"pos": pos, "diff": bad})
				}
			}
		}
		// Stop rule: the sender has nothing more to do once the last crumb's deltas are out and no status is owed.
		if seen >= total && pos >= end && lastStatus == finalStatus {
			cancel()
		}
		return nil
	}
	grace := time.Hour
	if graceExpired {
		grace = -time.Hour
	}
	cfg := &syncserver.Config{
		MaxMessageSize:                 m,
		MinBatchingAgeThreshold:        time.Duration(a) * time.Millisecond,
		MaxFallBehind:                  time.Duration(f) * time.Millisecond,
		NewClientFallBehindGracePeriod: grace,
		WriteTimeout:                   time.Minute,
	}
	vc := syncserver.VerifNewConn(ctx, cancel, cfg, prov, &buf, flush)
	vc.SendDeltas(s.chain[cn.start])
	if hung {
		// The sender neither finished nor disconnected: it is blocked in Next (the watchdog is a generous 60 s of
		// wall clock, only ever reached by a broken sender).  What the PROPERTY says about this is that a client that
		// keeps reading ends up with the server's current view; so that is what is evaluated — a stuck sender is by
		// itself only an observation.  Stop generating (every further case would wait again).
		s.h.Count("obs:sender-stuck")
		if bad := diffViews(viewOfCrumb(s.chain[end]), cl.view); len(bad) > 0 {
			s.fail("client-not-converged", "client kept reading (the sender is blocked at the end of what it will ever send) but its view differs from the server's current view",
				map[string]any{"diff": bad, "start": cn.start, "senderStuck": true})
		}
		aborted = true
		return "hang"
	}
	pos := cn.start + prov.calls
	disc := !(seen >= total && pos >= end && lastStatus == finalStatus)
	if !disc {
		// property oracle: a client that kept reading to the end holds exactly the server's current view
		if bad := diffViews(viewOfCrumb(s.chain[end]), cl.view); len(bad) > 0 {
			s.fail("client-not-converged", "client read to the end of the chain but its view differs from the server's current view",
				map[string]any{"diff": bad, "start": cn.start})
		}
		if int(s.chain[end].SyncStatus) != cl.status && (cl.gotStat || s.chain[end].SyncStatus != 0) {
			// not stated by the property (which only constrains WHEN in-sync may be announced): an observation
			s.h.Count("obs:client-status-differs")
		}
	}
	msgs := "none"
	if len(out) > 0 {
		msgs = strings.Join(out, ";")
	}
	d := 0
	if disc {
		d = 1
	}
	return fmt.Sprintf("%s|pos=%d|disc=%d|held=0", msgs, s.chain[pos].SequenceNumber, d)
}

var aborted bool

// ---- generator --------------------------------------------------------------------------------------

type gen struct {
	h        *rt.H
	ops      []string
	maxBatch int
	nkeys    int
	rev      int
	clock    int
	queued   int // objects pushed since the last loop (upper bound on the channel occupancy)
	queuedU  int
	vals     map[int]int
	has      map[int]bool
	conns    int
	sentinel int
}

func (g *gen) key() int {
	k := g.h.Intn(g.nkeys)
	if g.h.Bool() {
		return k // v3 resource
	}
	return v3Keys + k
}

func (g *gen) item() string {
	k := g.key()
	g.rev++
	switch {
	case g.has[k] && g.h.Chance(0.25):
		g.has[k] = false
		return fmt.Sprintf("%d:-:%d:3", k, g.rev)
	case !g.has[k] && g.h.Chance(0.05):
		return fmt.Sprintf("%d:-:%d:3", k, g.rev) // deletion of an absent key is passed through
	case g.has[k] && g.h.Chance(0.35):
		// same value again: a no-op when typed Updated, passed through when typed New
		t := 2
		if g.h.Chance(0.3) {
			t = 1
		}
		return fmt.Sprintf("%d:%d:%d:%d", k, g.vals[k], g.rev, t)
	default:
		t := 1
		if g.has[k] {
			t = 2
		}
		if g.h.Chance(0.05) {
			t = g.h.Intn(4)
		}
		g.vals[k] = g.h.Intn(40)
		g.has[k] = true
		return fmt.Sprintf("%d:%d:%d:%d", k, g.vals[k], g.rev, t)
	}
}

func (g *gen) push(op string, nupd int) {
	if g.queued >= 2*g.maxBatch {
		g.loop()
	}
	g.ops = append(g.ops, op)
	g.queued++
	g.queuedU += nupd
	if nupd == 0 {
		g.queuedU++
	}
}

func (g *gen) loop() {
	g.clock += g.queuedU/g.maxBatch + 2 + rt.Pick(g.h, []int{0, 0, 1, 5, 20, 60, 150, 400, 2000})
	g.ops = append(g.ops, fmt.Sprintf("loop %d", g.clock))
	// the real loop may leave objects on the channel; keep a safe upper bound
	if g.queued > 0 {
		g.queued--
	}
	if g.queuedU < g.maxBatch {
		g.queued = 0
	}
	g.queuedU = 0
}

func (g *gen) drainLoops() {
	for i := 0; i < 2*g.maxBatch+2; i++ {
		g.ops = append(g.ops, fmt.Sprintf("loop %d", g.clock+2))
		g.clock += 2
	}
	g.queued, g.queuedU = 0, 0
}

func (g *gen) deltas(id int) {
	// sentinel: a fresh value for a key that sorts last, so that the final crumb always carries a delta
	g.sentinel++
	g.rev++
	g.drainLoopsLight()
	g.push(fmt.Sprintf("upd 999:%d:%d:2", g.sentinel, g.rev), 1)
	g.loop()
	m := rt.Pick(g.h, []int{1, 2, 3, 5, 100})
	a := rt.Pick(g.h, []int{1, 10, 100, 100, 500})
	f := rt.Pick(g.h, []int{0, 50, 300, 1000, 100000})
	gr := 0
	if g.h.Chance(0.3) {
		gr = 1
	}
	op := fmt.Sprintf("deltas %d %d %d %d %d", id, m, a, f, gr)
	for i := g.h.Intn(12); i > 0; i-- {
		op += " " + strconv.Itoa(rt.Pick(g.h, []int{0, 0, 1, 2, 3, 10}))
	}
	g.ops = append(g.ops, op)
}

// drainLoopsLight makes sure everything pushed so far has been consumed (so the sentinel ends up in the last crumb).
func (g *gen) drainLoopsLight() {
	n := g.queued + 1
	for i := 0; i < n; i++ {
		g.loop()
	}
	g.queued, g.queuedU = 0, 0
}

func genCase(h *rt.H) []string {
	g := &gen{h: h, vals: map[int]int{}, has: map[int]bool{}}
	g.maxBatch = rt.Pick(h, []int{1, 2, 3, 5, 100})
	g.nkeys = 1 + h.Intn(6)
	g.ops = []string{fmt.Sprintf("new %d", g.maxBatch)}
	n := 6 + h.Intn(30)
	for i := 0; i < n; i++ {
		switch x := h.Intn(100); {
		case x < 45:
			cnt := 1 + h.Intn(4)
			if h.Chance(0.15) {
				cnt = g.maxBatch + h.Intn(2*g.maxBatch+1)
				if cnt > 12 {
					cnt = 12
				}
			}
			parts := []string{"upd"}
			for j := 0; j < cnt; j++ {
				parts = append(parts, g.item())
			}
			g.push(strings.Join(parts, " "), cnt)
		case x < 55:
			g.push(fmt.Sprintf("status %d", rt.Pick(h, []int{0, 1, 2, 2, 2})), 0)
		case x < 75:
			g.loop()
		case x < 85:
			g.conns++
			g.ops = append(g.ops, fmt.Sprintf("snap %d %d", g.conns, rt.Pick(h, []int{1, 2, 3, 100})))
		default:
			if g.conns > 0 {
				g.deltas(1 + h.Intn(g.conns))
			} else {
				g.ops = append(g.ops, "upd")
			}
		}
	}
	// closing: everybody in sync, every connection reads to the end
	g.push("status 2", 0)
	g.drainLoopsLight()
	if g.conns == 0 {
		g.conns = 1
		g.ops = append(g.ops, "snap 1 2")
	}
	for id := 1; id <= g.conns; id++ {
		g.deltas(id)
	}
	return g.ops
}

func main() {
	h := rt.New()
	defer h.Close()
	h.Rule = "case = one snapcache.Cache (MaxBatchSize 1/2/3/5/100) + ops over {upd(list), status, loop(t) = fill batch + publish crumbs at scripted time t, " +
		"snap(id,maxMsg) = client id joins at the current crumb, deltas(id,maxMsg,minBatchAge,maxFallBehind,graceExpired,lags) = the sender walks from the client's crumb to the end " +
		"with the scripted 'latest crumb' lags}; keys: v3 IPPool resources and GlobalConfig strings; distinct = distinct op sequence; " +
		"non-trivial = a deltas run that coalesced >=2 crumbs into one message, or disconnected a slow client, or crossed a skipped no-op / a multi-crumb batch"
	run := func(ops []string, tag string) {
		h.Case(tag)
		s := &state{}
		nontriv := false
		for _, op := range ops {
			if s.cache == nil && !strings.HasPrefix(op, "new") {
				exec(h, s, "new 100")
			}
			out := exec(h, s, op)
			h.Op(op, out)
			f := strings.Fields(op)
			h.Count("op:" + f[0])
			switch f[0] {
			case "loop":
				if n := strings.Count(out, "C"); n >= 2 && out != "nocrumb" {
					h.Count("loop:multi-crumb")
					nontriv = true
				}
				if out == "nocrumb" {
					h.Count("loop:nocrumb")
				}
				if out == "idle" {
					h.Count("loop:idle")
				}
			case "deltas":
				switch {
				case out == "skip" || out == "noconn" || out == "hang":
					h.Count("deltas:" + out)
				case strings.Contains(out, "disc=1"):
					h.Count("deltas:disconnected")
					nontriv = true
				default:
					h.Count("deltas:to-end")
					if strings.Count(out, "K[") > 0 {
						for _, msg := range strings.Split(strings.Split(out, "|")[0], ";") {
							if strings.HasPrefix(msg, "K[") && strings.Count(msg, ",") >= 1 {
								h.Count("deltas:msg-with>=2-kvs")
								nontriv = true
								break
							}
						}
					}
				}
			case "upd", "status":
				if out == "full" {
					h.Count("push:full")
				}
			}
		}
		if s.cache != nil {
			s.cache.VerifStopTickers()
		}
		if nontriv {
			h.Nontrivial(strings.Join(ops, ";"))
		}
		h.Sample()
	}
	if h.Replay != "" {
		run(h.ReplayLines(), "replay")
		return
	}
	for i := 0; i < h.N && !aborted; i++ {
		run(genCase(h), "gen")
	}
}
