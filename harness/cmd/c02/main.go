// C02 correspondence harness: drives the real felix/calc.EventSequencer (and the real
// AsyncCalcGraph loop for the in-sync clause) and evaluates the property's own oracle — a strict
// reference monitor of the emitted message stream — on the real code.
package main

import (
	"fmt"
	gonet "net"
	"net/netip"
	"sort"
	"strconv"
	"strings"

	v3 "github.com/projectcalico/api/pkg/apis/projectcalico/v3"

	"github.com/projectcalico/calico/felix/calc"
	"github.com/projectcalico/calico/felix/config"
	"github.com/projectcalico/calico/felix/proto"
	"github.com/projectcalico/calico/felix/types"
	"github.com/projectcalico/calico/libcalico-go/lib/backend/encap"
	"github.com/projectcalico/calico/libcalico-go/lib/backend/model"
	cnet "github.com/projectcalico/calico/libcalico-go/lib/net"

	"verif/harness/rt"
)

// ---------------------------------------------------------------------------------------------
// token helpers (must match lean/Driver/C02.lean)

func tok(s string) string {
	if s == "~" {
		return ""
	}
	return s
}
func untok(s string) string {
	if s == "" {
		return "~"
	}
	return s
}
func csv(s string) []string {
	if s == "-" {
		return nil
	}
	out := strings.Split(s, ",")
	for i := range out {
		out[i] = tok(out[i])
	}
	return out
}
func uncsv(l []string) string {
	if len(l) == 0 {
		return "-"
	}
	o := make([]string, len(l))
	for i := range l {
		o[i] = untok(l[i])
	}
	return strings.Join(o, ",")
}
func sorted(l []string) []string {
	o := append([]string(nil), l...)
	sort.Strings(o)
	return o
}

func parseKey(s string) model.PolicyKey {
	p := strings.Split(s, "|")
	return model.PolicyKey{Kind: tok(p[0]), Namespace: tok(p[1]), Name: tok(p[2])}
}
func showKey(kind, ns, name string) string {
	return untok(kind) + "|" + untok(ns) + "|" + untok(name)
}
func showPID(p *proto.PolicyID) string { return showKey(p.Kind, p.Namespace, p.Name) }

type member string

func (m member) ToProtobufFormat() string { return string(m) }
func (m member) String() string           { return string(m) }

// ---------------------------------------------------------------------------------------------
// rendering of emitted messages: (class, key, rest)

type rmsg struct{ class, key, rest string }

func ruleRefs(rules []*proto.Rule) (refs []string, tag string) {
	for i, r := range rules {
		if i == 0 {
			tag = r.OriginalSrcSelector
		}
		refs = append(refs, r.SrcIpSetIds...)
		refs = append(refs, r.DstIpSetIds...)
		refs = append(refs, r.NotSrcIpSetIds...)
		refs = append(refs, r.NotDstIpSetIds...)
		refs = append(refs, r.SrcNamedPortIpSetIds...)
		refs = append(refs, r.DstNamedPortIpSetIds...)
		refs = append(refs, r.NotSrcNamedPortIpSetIds...)
		refs = append(refs, r.NotDstNamedPortIpSetIds...)
		refs = append(refs, r.DstIpPortSetIds...)
	}
	return
}

func showPT(t *proto.TierInfo) string {
	f := func(l []*proto.PolicyID) string {
		if len(l) == 0 {
			return "-"
		}
		o := make([]string, len(l))
		for i, p := range l {
			o[i] = showPID(p)
		}
		return strings.Join(o, ",")
	}
	return untok(t.Name) + "=" + untok(t.DefaultAction) + "=in:" + f(t.IngressPolicies) + "=out:" + f(t.EgressPolicies)
}
func showPTs(l []*proto.TierInfo) string {
	if len(l) == 0 {
		return "-"
	}
	o := make([]string, len(l))
	for i, t := range l {
		o[i] = showPT(t)
	}
	return strings.Join(o, "+")
}

func routeRef(m *proto.RouteUpdate) string {
	if m.IpPoolType == proto.IPPoolType_VXLAN && m.DstNodeName != "" {
		return m.DstNodeName
	}
	return ""
}

func poolKeyFromID(id string) string {
	// "10.<k>.0.0-16" -> k<k>
	p := strings.Split(id, ".")
	if len(p) == 4 && p[0] == "10" {
		return "k" + p[1]
	}
	return "?" + id
}

func render(ev any) rmsg {
	switch m := ev.(type) {
	case *calc.DatastoreNotReady:
		return rmsg{"notready", "-", ""}
	case *proto.IPSetUpdate:
		return rmsg{"ipset-upd", m.Id, fmt.Sprintf("%d %s", int(m.Type), uncsv(sorted(m.Members)))}
	case *proto.IPSetDeltaUpdate:
		return rmsg{"ipset-delta", m.Id, "+" + uncsv(sorted(m.AddedMembers)) + " -" + uncsv(sorted(m.RemovedMembers))}
	case *proto.IPSetRemove:
		return rmsg{"ipset-rm", m.Id, ""}
	case *proto.ActivePolicyUpdate:
		in, tag := ruleRefs(m.Policy.InboundRules)
		out, _ := ruleRefs(m.Policy.OutboundRules)
		return rmsg{"pol-upd", showPID(m.Id), untok(tag) + " " + uncsv(sorted(append(in, out...)))}
	case *proto.ActivePolicyRemove:
		return rmsg{"pol-rm", showPID(m.Id), ""}
	case *proto.ActiveProfileUpdate:
		in, tag := ruleRefs(m.Profile.InboundRules)
		out, _ := ruleRefs(m.Profile.OutboundRules)
		return rmsg{"prof-upd", m.Id.Name, untok(tag) + " " + uncsv(sorted(append(in, out...)))}
	case *proto.ActiveProfileRemove:
		return rmsg{"prof-rm", m.Id.Name, ""}
	case *proto.WorkloadEndpointUpdate:
		return rmsg{"ep-upd", "w:" + m.Id.WorkloadId, untok(m.Endpoint.Name) + " " + uncsv(m.Endpoint.ProfileIds) + " " + showPTs(m.Endpoint.Tiers)}
	case *proto.HostEndpointUpdate:
		e := m.Endpoint
		return rmsg{"ep-upd", "h:" + m.Id.EndpointId, untok(e.Name) + " " + uncsv(e.ProfileIds) + " N:" + showPTs(e.Tiers) + " U:" + showPTs(e.UntrackedTiers) + " P:" + showPTs(e.PreDnatTiers) + " F:" + showPTs(e.ForwardTiers)}
	case *proto.WorkloadEndpointRemove:
		return rmsg{"ep-rm", "w:" + m.Id.WorkloadId, ""}
	case *proto.HostEndpointRemove:
		return rmsg{"ep-rm", "h:" + m.Id.EndpointId, ""}
	case *proto.ServiceAccountUpdate:
		return rmsg{"sa-upd", m.Id.Name, untok(m.Labels["t"])}
	case *proto.ServiceAccountRemove:
		return rmsg{"sa-rm", m.Id.Name, ""}
	case *proto.NamespaceUpdate:
		return rmsg{"ns-upd", m.Id.Name, untok(m.Labels["t"])}
	case *proto.NamespaceRemove:
		return rmsg{"ns-rm", m.Id.Name, ""}
	case *proto.HostMetadataUpdate:
		return rmsg{"host-upd", m.Hostname, untok(m.Ipv4Addr)}
	case *proto.HostMetadataRemove:
		return rmsg{"host-rm", m.Hostname, ""}
	case *proto.IPAMPoolUpdate:
		return rmsg{"pool-upd", poolKeyFromID(m.Id), untok(m.Pool.IpipMode)}
	case *proto.IPAMPoolRemove:
		return rmsg{"pool-rm", poolKeyFromID(m.Id), ""}
	case *proto.ServiceUpdate:
		t := ""
		if len(m.ClusterIps) > 0 {
			t = m.ClusterIps[0]
		}
		return rmsg{"svc-upd", m.Name, untok(t)}
	case *proto.ServiceRemove:
		return rmsg{"svc-rm", m.Name, ""}
	case *proto.RouteUpdate:
		return rmsg{"route-upd", m.Dst, untok(m.DstNodeIp) + " " + untok(routeRef(m))}
	case *proto.RouteRemove:
		return rmsg{"route-rm", m.Dst, ""}
	case *proto.VXLANTunnelEndpointUpdate:
		return rmsg{"vtep-upd", m.Node, untok(m.Mac)}
	case *proto.VXLANTunnelEndpointRemove:
		return rmsg{"vtep-rm", m.Node, ""}
	case *proto.WireguardEndpointUpdate:
		return rmsg{"wg", m.Hostname, "upd4 " + untok(m.PublicKey) + " " + untok(m.InterfaceIpv4Addr)}
	case *proto.WireguardEndpointRemove:
		return rmsg{"wg", m.Hostname, "rm4"}
	case *proto.WireguardEndpointV6Update:
		return rmsg{"wg", m.Hostname, "upd6 " + untok(m.PublicKeyV6) + " " + untok(m.InterfaceIpv6Addr)}
	case *proto.WireguardEndpointV6Remove:
		return rmsg{"wg", m.Hostname, "rm6"}
	case *proto.Encapsulation:
		b := func(x bool) string {
			if x {
				return "1"
			}
			return "0"
		}
		return rmsg{"encap", "-", b(m.IpipEnabled) + b(m.VxlanEnabled) + b(m.VxlanEnabledV6) + b(m.NoEncapEnabled)}
	case *proto.GlobalBGPConfigUpdate:
		return rmsg{"bgp", "-", untok(m.LocalWorkloadPeeringIpV4)}
	case *proto.InSync:
		return rmsg{"insync", "-", ""}
	}
	return rmsg{"unknown", "-", fmt.Sprintf("%T", ev)}
}

// canon: stable sort by key inside every maximal run of one class.
func canon(evs []any) string {
	if len(evs) == 0 {
		return "none"
	}
	rs := make([]rmsg, len(evs))
	for i, e := range evs {
		rs[i] = render(e)
	}
	var out []string
	for i := 0; i < len(rs); {
		j := i
		for j < len(rs) && rs[j].class == rs[i].class {
			j++
		}
		run := rs[i:j]
		sort.SliceStable(run, func(a, b int) bool { return run[a].key < run[b].key })
		for _, r := range run {
			if r.rest == "" {
				out = append(out, r.class+" "+r.key)
			} else {
				out = append(out, r.class+" "+r.key+" "+r.rest)
			}
		}
		i = j
	}
	return strings.Join(out, ";")
}

// ---------------------------------------------------------------------------------------------
// the property oracle: abstract upstream-declared state U and strict reference monitor D

type epRefs struct {
	pols  []string
	profs []string
}

type world struct {
	ipsets map[string]map[string]bool
	pols   map[string][]string // key -> ipset refs
	profs  map[string][]string
	eps    map[string]epRefs
	vteps  map[string]bool
	routes map[string]string // dst -> vtep ref ("" none)
	gen    map[string]bool   // "cat/key"
	wg4    map[string]bool
	wg6    map[string]bool
}

func newWorld() *world {
	return &world{ipsets: map[string]map[string]bool{}, pols: map[string][]string{}, profs: map[string][]string{},
		eps: map[string]epRefs{}, vteps: map[string]bool{}, routes: map[string]string{}, gen: map[string]bool{},
		wg4: map[string]bool{}, wg6: map[string]bool{}}
}

// closed: every reference resolves.
func (w *world) closed() (bool, string) {
	ok, _, _, what := w.closedK()
	return ok, what
}

// closedK additionally returns the kind of the first dangling reference and the referencing object.
func (w *world) closedK() (ok bool, kind, from, what string) {
	for k, refs := range w.pols {
		for _, r := range refs {
			if _, ok := w.ipsets[r]; !ok {
				return false, "policy-ipset", k, "policy " + k + " -> ipset " + r
			}
		}
	}
	for k, refs := range w.profs {
		for _, r := range refs {
			if _, ok := w.ipsets[r]; !ok {
				return false, "profile-ipset", k, "profile " + k + " -> ipset " + r
			}
		}
	}
	for k, e := range w.eps {
		for _, p := range e.pols {
			if _, ok := w.pols[p]; !ok {
				return false, "endpoint-policy", k, "endpoint " + k + " -> policy " + p
			}
		}
		for _, p := range e.profs {
			if _, ok := w.profs[p]; !ok {
				return false, "endpoint-profile", k, "endpoint " + k + " -> profile " + p
			}
		}
	}
	for k, r := range w.routes {
		if r != "" && !w.vteps[r] {
			return false, "route-vtep", k, "route " + k + " -> vtep " + r
		}
	}
	return true, "", "", ""
}

func tierPolIDs(lists ...[]*proto.TierInfo) []string {
	var out []string
	for _, l := range lists {
		for _, t := range l {
			for _, p := range t.IngressPolicies {
				out = append(out, showPID(p))
			}
			for _, p := range t.EgressPolicies {
				out = append(out, showPID(p))
			}
		}
	}
	return out
}

// apply one emitted message to the monitor; returns a well-formedness complaint ("" = fine).
func (w *world) apply(ev any) (sig, desc string) {
	switch m := ev.(type) {
	case *proto.IPSetUpdate:
		s := map[string]bool{}
		for _, x := range m.Members {
			if s[x] {
				sig, desc = "ipset-upd-dup", "IPSetUpdate "+m.Id+" lists member "+x+" twice"
			}
			s[x] = true
		}
		w.ipsets[m.Id] = s
	case *proto.IPSetDeltaUpdate:
		s, ok := w.ipsets[m.Id]
		if !ok {
			return "delta-missing-set", "IPSetDeltaUpdate for IP set " + m.Id + " that the dataplane does not have"
		}
		for _, x := range m.AddedMembers {
			if s[x] {
				sig, desc = "delta-add-present", "IPSetDeltaUpdate "+m.Id+" adds member "+x+" that is already present"
			}
			s[x] = true
		}
		for _, x := range m.RemovedMembers {
			if !s[x] {
				sig, desc = "delta-rm-absent", "IPSetDeltaUpdate "+m.Id+" removes member "+x+" that is not present"
			}
			delete(s, x)
		}
	case *proto.IPSetRemove:
		if _, ok := w.ipsets[m.Id]; !ok {
			sig, desc = "rm-unknown", "IPSetRemove for unknown IP set "+m.Id
		}
		delete(w.ipsets, m.Id)
	case *proto.ActivePolicyUpdate:
		in, _ := ruleRefs(m.Policy.InboundRules)
		out, _ := ruleRefs(m.Policy.OutboundRules)
		w.pols[showPID(m.Id)] = append(in, out...)
	case *proto.ActivePolicyRemove:
		if _, ok := w.pols[showPID(m.Id)]; !ok {
			sig, desc = "rm-unknown", "ActivePolicyRemove for unknown policy "+showPID(m.Id)
		}
		delete(w.pols, showPID(m.Id))
	case *proto.ActiveProfileUpdate:
		in, _ := ruleRefs(m.Profile.InboundRules)
		out, _ := ruleRefs(m.Profile.OutboundRules)
		w.profs[m.Id.Name] = append(in, out...)
	case *proto.ActiveProfileRemove:
		if _, ok := w.profs[m.Id.Name]; !ok {
			sig, desc = "rm-unknown", "ActiveProfileRemove for unknown profile "+m.Id.Name
		}
		delete(w.profs, m.Id.Name)
	case *proto.WorkloadEndpointUpdate:
		w.eps["w:"+m.Id.WorkloadId] = epRefs{tierPolIDs(m.Endpoint.Tiers), m.Endpoint.ProfileIds}
	case *proto.HostEndpointUpdate:
		e := m.Endpoint
		w.eps["h:"+m.Id.EndpointId] = epRefs{tierPolIDs(e.Tiers, e.UntrackedTiers, e.PreDnatTiers, e.ForwardTiers), e.ProfileIds}
	case *proto.WorkloadEndpointRemove:
		if _, ok := w.eps["w:"+m.Id.WorkloadId]; !ok {
			sig, desc = "rm-unknown", "WorkloadEndpointRemove for unknown endpoint "+m.Id.WorkloadId
		}
		delete(w.eps, "w:"+m.Id.WorkloadId)
	case *proto.HostEndpointRemove:
		if _, ok := w.eps["h:"+m.Id.EndpointId]; !ok {
			sig, desc = "rm-unknown", "HostEndpointRemove for unknown endpoint "+m.Id.EndpointId
		}
		delete(w.eps, "h:"+m.Id.EndpointId)
	case *proto.RouteUpdate:
		w.routes[m.Dst] = routeRef(m)
	case *proto.RouteRemove:
		if _, ok := w.routes[m.Dst]; !ok {
			sig, desc = "rm-unknown", "RouteRemove for unknown route "+m.Dst
		}
		delete(w.routes, m.Dst)
	case *proto.VXLANTunnelEndpointUpdate:
		w.vteps[m.Node] = true
	case *proto.VXLANTunnelEndpointRemove:
		if !w.vteps[m.Node] {
			sig, desc = "rm-unknown", "VXLANTunnelEndpointRemove for unknown VTEP "+m.Node
		}
		delete(w.vteps, m.Node)
	case *proto.WireguardEndpointUpdate:
		w.wg4[m.Hostname] = true
	case *proto.WireguardEndpointRemove:
		if !w.wg4[m.Hostname] {
			sig, desc = "rm-unknown", "WireguardEndpointRemove for unknown node "+m.Hostname
		}
		delete(w.wg4, m.Hostname)
	case *proto.WireguardEndpointV6Update:
		w.wg6[m.Hostname] = true
	case *proto.WireguardEndpointV6Remove:
		if !w.wg6[m.Hostname] {
			sig, desc = "rm-unknown", "WireguardEndpointV6Remove for unknown node "+m.Hostname
		}
		delete(w.wg6, m.Hostname)
	default:
		r := render(ev)
		if strings.HasSuffix(r.class, "-upd") {
			w.gen[strings.TrimSuffix(r.class, "-upd")+"/"+r.key] = true
		} else if strings.HasSuffix(r.class, "-rm") {
			k := strings.TrimSuffix(r.class, "-rm") + "/" + r.key
			if !w.gen[k] {
				sig, desc = "rm-unknown", r.class+" for unknown object "+r.key
			}
			delete(w.gen, k)
		}
	}
	return
}

// equalTo compares the monitor's state with the upstream-declared state (coalescing soundness).
func (w *world) equalTo(u *world) (bool, string) {
	a, b := w.summary(), u.summary()
	if a != b {
		return false, "dataplane=" + a + " upstream=" + b
	}
	return true, ""
}

func (w *world) summary() string {
	var parts []string
	for k, s := range w.ipsets {
		var ms []string
		for m := range s {
			ms = append(ms, m)
		}
		sort.Strings(ms)
		parts = append(parts, "ipset:"+k+"="+strings.Join(ms, ","))
	}
	for k, r := range w.pols {
		parts = append(parts, "pol:"+k+"="+strings.Join(sorted(r), ","))
	}
	for k, r := range w.profs {
		parts = append(parts, "prof:"+k+"="+strings.Join(sorted(r), ","))
	}
	for k, e := range w.eps {
		parts = append(parts, "ep:"+k+"="+strings.Join(e.pols, ",")+"/"+strings.Join(e.profs, ","))
	}
	for k := range w.vteps {
		parts = append(parts, "vtep:"+k)
	}
	for k, r := range w.routes {
		parts = append(parts, "route:"+k+"="+r)
	}
	for k := range w.gen {
		parts = append(parts, "gen:"+k)
	}
	for k := range w.wg4 {
		parts = append(parts, "wg4:"+k)
	}
	for k := range w.wg6 {
		parts = append(parts, "wg6:"+k)
	}
	sort.Strings(parts)
	return strings.Join(parts, " ")
}

// ---------------------------------------------------------------------------------------------

type state struct {
	seq  *calc.EventSequencer
	evs  []any
	up   *world // what upstream has declared (updated by the calls)
	dp   *world // reference monitor of the emitted stream
	ops  []string
	// upValid: every upstream call so far respected the upstream protocol (members added only when
	// absent / removed only when present, sets added only when not declared, removed only when declared)
	upValid bool
	// hypOK: upstream state was reference-closed at every flush so far
	hypOK bool
	reported map[string]bool

	acg *acgState
}

func (s *state) reset() {
	s.seq = calc.NewEventSequencer(nil)
	s.evs = nil
	s.seq.Callback = func(m any) { s.evs = append(s.evs, m) }
	s.up, s.dp = newWorld(), newWorld()
	s.ops = nil
	s.upValid, s.hypOK = true, true
	s.reported = map[string]bool{}
}

func guard(f func()) (panicked bool) {
	defer func() {
		if r := recover(); r != nil {
			panicked = true
		}
	}()
	f()
	return
}

func okOrPanic(f func()) string {
	if guard(f) {
		return "panic"
	}
	return "ok"
}

func mkRules(tag string, refs []string) *calc.ParsedRules {
	pr := &calc.ParsedRules{OriginalSelector: "sel-" + tag}
	pr.InboundRules = append(pr.InboundRules, &calc.ParsedRule{Action: "allow", OriginalSrcSelector: tag})
	for i, r := range refs {
		rule := &calc.ParsedRule{Action: "allow"}
		switch i % 9 {
		case 0:
			rule.SrcIPSetIDs = []string{r}
		case 1:
			rule.DstIPSetIDs = []string{r}
		case 2:
			rule.NotSrcIPSetIDs = []string{r}
		case 3:
			rule.NotDstIPSetIDs = []string{r}
		case 4:
			rule.SrcNamedPortIPSetIDs = []string{r}
		case 5:
			rule.DstNamedPortIPSetIDs = []string{r}
		case 6:
			rule.NotSrcNamedPortIPSetIDs = []string{r}
		case 7:
			rule.NotDstNamedPortIPSetIDs = []string{r}
		case 8:
			rule.DstIPPortSetIDs = []string{r}
		}
		if i%2 == 0 {
			pr.InboundRules = append(pr.InboundRules, rule)
		} else {
			pr.OutboundRules = append(pr.OutboundRules, rule)
		}
	}
	return pr
}

func parseTiers(s string) (tiers []calc.TierInfo, refsWEP, refsHEP []string) {
	if s == "-" {
		return []calc.TierInfo{}, nil, nil
	}
	for _, ts := range strings.Split(s, "+") {
		p := strings.Split(ts, "=")
		ti := calc.TierInfo{Name: tok(p[0]), DefaultAction: v3.Action(tok(p[1])), Valid: true}
		if p[2] != "-" {
			for _, ps := range strings.Split(p[2], ";") {
				q := strings.Split(ps, ":")
				key := parseKey(q[0])
				fl := q[1]
				pol := &model.Policy{Tier: ti.Name, DoNotTrack: strings.Contains(fl, "u"), PreDNAT: strings.Contains(fl, "d"),
					ApplyOnForward: strings.Contains(fl, "f")}
				if strings.Contains(fl, "i") {
					pol.Types = append(pol.Types, "ingress")
				}
				if strings.Contains(fl, "e") {
					pol.Types = append(pol.Types, "egress")
				}
				if len(pol.Types) == 0 {
					pol.Types = []string{"other"} // neither ingress nor egress (empty Types would mean both)
				}
				ti.OrderedPolicies = append(ti.OrderedPolicies, calc.VerifPolKV(key, pol))
			}
		}
		tiers = append(tiers, ti)
	}
	return
}

func wepKey(id string) model.WorkloadEndpointKey {
	return model.WorkloadEndpointKey{Hostname: "host", OrchestratorID: "orch", WorkloadID: id, EndpointID: "ep"}
}
func hepKey(id string) model.HostEndpointKey {
	return model.HostEndpointKey{Hostname: "host", EndpointID: id}
}

func poolCIDR(k string) netip.Prefix {
	n, _ := strconv.Atoi(strings.TrimPrefix(k, "k"))
	return netip.MustParsePrefix(fmt.Sprintf("10.%d.0.0/16", n))
}

func ipPtr(s string) *cnet.IP {
	if s == "" {
		return nil
	}
	ip := gonet.ParseIP(s)
	return &cnet.IP{IP: ip}
}

// exec runs one op on the REAL code.
func exec(h *rt.H, s *state, op string) string {
	w := strings.Fields(op)
	if strings.HasPrefix(w[0], "acg-") {
		return execAcg(h, s, w)
	}
	s.ops = append(s.ops, op)
	q := s.seq
	switch w[0] {
	case "new":
		s.reset()
		s.ops = append(s.ops, op)
		return "ok"
	case "ipset-add":
		t, _ := strconv.Atoi(w[2])
		if _, ok := s.up.ipsets[w[1]]; ok {
			s.upValid = false
		}
		r := okOrPanic(func() { q.OnIPSetAdded(w[1], proto.IPSetUpdate_IPSetType(t)) })
		if r == "ok" {
			s.up.ipsets[w[1]] = map[string]bool{}
		}
		return r
	case "ipset-rm":
		if _, ok := s.up.ipsets[w[1]]; !ok {
			s.upValid = false
		}
		r := okOrPanic(func() { q.OnIPSetRemoved(w[1]) })
		if r == "ok" {
			delete(s.up.ipsets, w[1])
		}
		return r
	case "mem-add":
		set, ok := s.up.ipsets[w[1]]
		if !ok || set[w[2]] {
			s.upValid = false
		}
		r := okOrPanic(func() { q.OnIPSetMemberAdded(w[1], member(w[2])) })
		if r == "ok" && ok {
			set[w[2]] = true
		}
		return r
	case "mem-rm":
		set, ok := s.up.ipsets[w[1]]
		if !ok || !set[w[2]] {
			s.upValid = false
		}
		r := okOrPanic(func() { q.OnIPSetMemberRemoved(w[1], member(w[2])) })
		if r == "ok" && ok {
			delete(set, w[2])
		}
		return r
	case "notready":
		return okOrPanic(q.OnDatastoreNotReady)
	case "pol-act":
		k := parseKey(w[1])
		refs := csv(w[3])
		s.up.pols[w[1]] = refs
		return okOrPanic(func() { q.OnPolicyActive(k, mkRules(tok(w[2]), refs)) })
	case "pol-inact":
		delete(s.up.pols, w[1])
		return okOrPanic(func() { q.OnPolicyInactive(parseKey(w[1])) })
	case "prof-act":
		refs := csv(w[3])
		s.up.profs[w[1]] = refs
		return okOrPanic(func() {
			q.OnProfileActive(model.ProfileRulesKey{ProfileKey: model.ProfileKey{Name: w[1]}}, mkRules(tok(w[2]), refs))
		})
	case "prof-inact":
		delete(s.up.profs, w[1])
		return okOrPanic(func() { q.OnProfileInactive(model.ProfileRulesKey{ProfileKey: model.ProfileKey{Name: w[1]}}) })
	case "ep-upd":
		tiers, _, _ := parseTiers(w[4])
		profs := csv(w[3])
		id := w[1][2:]
		// what the emitted message will reference is computed from the REAL emitted message later; for
		// the upstream-declared state we need the references the endpoint *declares*: every policy of
		// every tier it was given that the sequencer will put in the message.  Use the real conversion
		// on a scratch sequencer to stay independent of the model.
		var refs []string
		{
			scratch := calc.NewEventSequencer(nil)
			var got []any
			scratch.Callback = func(m any) { got = append(got, m) }
			if w[1][0] == 'w' {
				scratch.OnEndpointTierUpdate(wepKey(id), &model.WorkloadEndpoint{Name: "x"}, nil, nil, tiers)
			} else {
				scratch.OnEndpointTierUpdate(hepKey(id), &model.HostEndpoint{Name: "x"}, nil, nil, tiers)
			}
			scratch.Flush()
			for _, g := range got {
				switch m := g.(type) {
				case *proto.WorkloadEndpointUpdate:
					refs = tierPolIDs(m.Endpoint.Tiers)
				case *proto.HostEndpointUpdate:
					e := m.Endpoint
					refs = tierPolIDs(e.Tiers, e.UntrackedTiers, e.PreDnatTiers, e.ForwardTiers)
				}
			}
		}
		s.up.eps[w[1]] = epRefs{refs, profs}
		return okOrPanic(func() {
			if w[1][0] == 'w' {
				q.OnEndpointTierUpdate(wepKey(id), &model.WorkloadEndpoint{Name: tok(w[2]), ProfileIDs: profs}, nil, nil, tiers)
			} else {
				q.OnEndpointTierUpdate(hepKey(id), &model.HostEndpoint{Name: tok(w[2]), ProfileIDs: profs}, nil, nil, tiers)
			}
		})
	case "ep-del":
		id := w[1][2:]
		delete(s.up.eps, w[1])
		return okOrPanic(func() {
			if w[1][0] == 'w' {
				q.OnEndpointTierUpdate(wepKey(id), nil, nil, nil, nil)
			} else {
				q.OnEndpointTierUpdate(hepKey(id), nil, nil, nil, nil)
			}
		})
	case "gen-upd":
		s.up.gen[w[1]+"/"+w[2]] = true
		tag := tok(w[3])
		return okOrPanic(func() {
			switch w[1] {
			case "sa":
				q.OnServiceAccountUpdate(&proto.ServiceAccountUpdate{Id: &proto.ServiceAccountID{Namespace: "n", Name: w[2]}, Labels: map[string]string{"t": tag}})
			case "ns":
				q.OnNamespaceUpdate(&proto.NamespaceUpdate{Id: &proto.NamespaceID{Name: w[2]}, Labels: map[string]string{"t": tag}})
			case "host":
				q.OnHostMetadataUpdate(w[2], calc.VerifNewHostInfo(tag, "", "", nil))
			case "pool":
				c := poolCIDR(w[2])
				_, ipn, _ := cnet.ParseCIDR(c.String())
				q.OnIPPoolUpdate(model.IPPoolKey{CIDR: c}, &model.IPPool{CIDR: *ipn, IPIPMode: encap.Mode(tag)})
			case "svc":
				q.OnServiceUpdate(&proto.ServiceUpdate{Name: w[2], Namespace: "n", ClusterIps: []string{tag}})
			}
		})
	case "gen-rm":
		delete(s.up.gen, w[1]+"/"+w[2])
		return okOrPanic(func() {
			switch w[1] {
			case "sa":
				q.OnServiceAccountRemove(types.ServiceAccountID{Namespace: "n", Name: w[2]})
			case "ns":
				q.OnNamespaceRemove(types.NamespaceID{Name: w[2]})
			case "host":
				q.OnHostMetadataRemove(w[2])
			case "pool":
				q.OnIPPoolRemove(model.IPPoolKey{CIDR: poolCIDR(w[2])})
			case "svc":
				q.OnServiceRemove(&proto.ServiceRemove{Name: w[2], Namespace: "n"})
			}
		})
	case "route-upd":
		ref := tok(w[3])
		s.up.routes[w[1]] = ref
		m := &proto.RouteUpdate{Dst: w[1], DstNodeIp: tok(w[2]), Types: proto.RouteType_REMOTE_WORKLOAD}
		if ref != "" {
			m.IpPoolType = proto.IPPoolType_VXLAN
			m.DstNodeName = ref
		} else {
			m.IpPoolType = proto.IPPoolType_NO_ENCAP
			m.DstNodeName = "other"
		}
		return okOrPanic(func() { q.OnRouteUpdate(m) })
	case "route-rm":
		delete(s.up.routes, w[1])
		return okOrPanic(func() { q.OnRouteRemove(w[1]) })
	case "vtep-upd":
		s.up.vteps[w[1]] = true
		return okOrPanic(func() { q.OnVTEPUpdate(&proto.VXLANTunnelEndpointUpdate{Node: w[1], Mac: tok(w[2])}) })
	case "vtep-rm":
		delete(s.up.vteps, w[1])
		return okOrPanic(func() { q.OnVTEPRemove(w[1]) })
	case "wg-upd":
		if tok(w[2]) != "" {
			s.up.wg4[w[1]] = true
		} else {
			delete(s.up.wg4, w[1])
		}
		if tok(w[4]) != "" {
			s.up.wg6[w[1]] = true
		} else {
			delete(s.up.wg6, w[1])
		}
		return okOrPanic(func() {
			q.OnWireguardUpdate(w[1], &model.Wireguard{PublicKey: tok(w[2]), InterfaceIPv4Addr: ipPtr(tok(w[3])),
				PublicKeyV6: tok(w[4]), InterfaceIPv6Addr: ipPtr(tok(w[5]))})
		})
	case "wg-rm":
		delete(s.up.wg4, w[1])
		delete(s.up.wg6, w[1])
		return okOrPanic(func() { q.OnWireguardRemove(w[1]) })
	case "encap":
		t := w[1]
		return okOrPanic(func() {
			q.OnEncapUpdate(config.Encapsulation{IPIPEnabled: t[0] == '1', VXLANEnabled: t[1] == '1', VXLANEnabledV6: t[2] == '1', NoEncapNeeded: t[3] == '1'})
		})
	case "bgp":
		return okOrPanic(func() {
			q.OnGlobalBGPConfigUpdate(&v3.BGPConfiguration{Spec: v3.BGPConfigurationSpec{LocalWorkloadPeeringIPV4: tok(w[1])}})
		})
	case "flush":
		s.evs = nil
		if guard(q.Flush) {
			return "panic"
		}
		s.oracle(h)
		return canon(s.evs)
	}
	panic("unknown op " + op)
}

// oracle: the property evaluated on the real emitted stream of this flush.
func (s *state) oracle(h *rt.H) {
	closedUp, why := s.up.closed()
	if !closedUp {
		s.hypOK = false
		h.Count("flush:upstream-not-closed")
	} else if s.hypOK {
		h.Count("flush:hypothesis-holds")
	}
	_ = why
	input := func(i int) map[string]any {
		return map[string]any{"ops": append([]string(nil), s.ops...), "message_index": i, "flush_output": canon(s.evs)}
	}
	for i, ev := range s.evs {
		sig, desc := s.dp.apply(ev)
		if sig != "" && s.upValid {
			h.OracleFail("wf-"+sig, "ill-formed message in Felix's output stream: "+desc, input(i))
		}
		if s.hypOK {
			if ok, kind, from, what := s.dp.closedK(); !ok {
				sig := "dangling-" + kind
				if !s.reported[sig] {
					s.reported[sig] = true
					h.OracleFail(sig, fmt.Sprintf("after emitted message #%d (%s) the dataplane holds a dangling reference: %s", i, render(ev).class, what), input(i))
				}
				_ = from
				s.hypOK = false
			}
		}
	}
	if s.upValid {
		if ok, what := s.dp.equalTo(s.up); !ok {
			h.OracleFail("coalesce", "after a flush the dataplane state described by the stream differs from the upstream state: "+what, input(len(s.evs)))
			s.upValid = false
		}
	}
}

func main() {
	h := rt.New()
	defer h.Close()
	h.Rule = "case = one fresh EventSequencer + 10..70 upstream calls/flushes over a small universe (4 IP sets x 4 members, 4 policies, 3 profiles, 3 endpoints, 3 routes, 3 VTEPs, 5 pass-through categories, wireguard); " +
		"disciplined cases keep the upstream state reference-closed at every flush (hypothesis of the closure theorem), chaotic cases do not; " +
		"graph cases drive the real dispatcher+ActiveRulesCalculator+RuleScanner+PolicyResolver+EventSequencer with datastore histories and ARBITRARY sync-status sequences (regressions included), flushes anywhere; distinct = distinct op sequence; non-trivial = case with >=2 flushes emitting messages and at least one remove/re-add or add/remove inside one flush window"
	s := &state{}
	run := func(ops []string, tag string) {
		h.Case(tag)
		s.reset()
		nonEmptyFlushes := 0
		for _, op := range ops {
			out := exec(h, s, op)
			h.Op(op, out)
			f := strings.Fields(op)[0]
			h.Count("op:" + f)
			if out == "panic" {
				h.Count("panic:" + f)
			}
			if f == "flush" && out != "none" {
				nonEmptyFlushes++
			}
		}
		if s.hypOK {
			h.Count("case:closed-at-every-flush")
		}
		if s.upValid {
			h.Count("case:upstream-protocol-valid")
		}
		if nonEmptyFlushes >= 2 {
			h.Nontrivial(strings.Join(ops, ";"))
		}
		h.Sample()
	}
	var g *gsys
	runGraph := func(ops []string, tag string) {
		h.Case(tag)
		flushes := 0
		for _, op := range ops {
			execGraph(h, &g, op)
			if op == "g-flush" && g != nil && len(g.evs) > 0 {
				flushes++
			}
		}
		if flushes >= 2 {
			h.Nontrivial(strings.Join(ops, ";"))
		}
		h.Sample()
	}
	if h.Replay != "" {
		l := h.ReplayLines()
		isGraph := false
		for _, x := range l {
			if strings.HasPrefix(x, "g-") {
				isGraph = true
			}
		}
		if isGraph {
			runGraph(l, "replay")
		} else {
			run(l, "replay")
		}
		return
	}
	for i := 0; i < h.N; i++ {
		if i%4 == 1 {
			runGraph(genGraph(h), "graph")
		} else if i%8 == 7 {
			run(genAcg(h), "acg")
		} else if i%3 == 0 {
			run(genChaotic(h), "chaotic")
		} else {
			run(genDisciplined(h), "disciplined")
		}
	}
}
