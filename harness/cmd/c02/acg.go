package main

import (
	"strings"
	"time"

	"github.com/projectcalico/calico/felix/calc"
	"github.com/projectcalico/calico/felix/config"
	"github.com/projectcalico/calico/felix/proto"
	"github.com/projectcalico/calico/libcalico-go/lib/backend/api"
	"github.com/projectcalico/calico/libcalico-go/lib/backend/model"

	"verif/harness/rt"
)

// The real AsyncCalcGraph.loop() runs in its own goroutine.  The harness replaces its input and
// flush-tick channels by unbuffered ones and is the only peer of all three channels (input, tick,
// output), so every hand-over is a rendezvous: an input is accepted by loop() only when it is back
// in its top-level select, i.e. after the previous input has been processed completely (including
// maybeFlush and everything it emits).  What loop() emits while op k is processed is therefore
// collected while op k+1 is being offered, and is printed as the output of op k+1 ("held" output);
// `acg-end` offers a value of an unexpected type, on which loop() panics (recovered in VerifLoop).
type acgState struct {
	in    chan any
	ticks chan time.Time
	out   chan any
	done  chan any
	dead  bool
	// oracle state
	sawInSync   bool // an api.InSync status has been handed to the graph
	nextInSync  bool // the op being offered now is that status (messages collected now still precede it)
	ops         []string
}

func newAcg() *acgState {
	a := &acgState{in: make(chan any), ticks: make(chan time.Time), out: make(chan any), done: make(chan any, 1)}
	conf := config.New()
	g := calc.NewAsyncCalcGraph(conf, []chan<- any{a.out}, nil, nil)
	g.VerifSetChannels(a.in, a.ticks)
	go g.VerifLoop(a.done)
	return a
}

// offer hands one input (or a tick) to loop() and returns everything emitted before it was accepted.
func (a *acgState) offer(x any, tick bool) (got []any) {
	in, ticks := a.in, a.ticks
	if tick {
		in = nil
	} else {
		ticks = nil
	}
	for {
		select {
		case ev := <-a.out:
			got = append(got, ev)
		case in <- x:
			return
		case ticks <- time.Time{}:
			return
		case <-a.done:
			a.dead = true
			return
		}
	}
}

func acgFilter(evs []any) []any {
	var out []any
	for _, e := range evs {
		switch e.(type) {
		case *proto.ConfigUpdate, *proto.Encapsulation, *calc.DatastoreNotReady:
			// emitted by calc-graph nodes that the acg ops do not model (config batcher, encap resolver)
			continue
		}
		out = append(out, e)
	}
	return out
}

func execAcg(h *rt.H, s *state, w []string) string {
	if w[0] == "acg-new" {
		if s.acg != nil && !s.acg.dead {
			s.acg.offer("stop", false)
		}
		s.acg = newAcg()
		s.acg.ops = []string{strings.Join(w, " ")}
		return "ok"
	}
	a := s.acg
	if a == nil || a.dead {
		return "dead"
	}
	a.ops = append(a.ops, strings.Join(w, " "))
	var x any
	tick := false
	isInSync := false
	switch w[0] {
	case "acg-status":
		switch w[1] {
		case "wait":
			x = api.WaitForDatastore
		case "resync":
			x = api.ResyncInProgress
		case "insync":
			x = api.InSync
			isInSync = true
		}
	case "acg-upd":
		if len(w) == 1 {
			x = []api.Update{}
		} else {
			x = []api.Update{{KVPair: model.KVPair{Key: model.WireguardKey{NodeName: w[2]}, Value: &model.Wireguard{PublicKey: tok(w[3])}}, UpdateType: api.UpdateTypeKVNew}}
		}
	case "acg-del":
		x = []api.Update{{KVPair: model.KVPair{Key: model.WireguardKey{NodeName: w[2]}}, UpdateType: api.UpdateTypeKVDeleted}}
	case "acg-tick":
		tick = true
	case "acg-end":
		x = "stop" // unexpected type: loop() panics, VerifLoop recovers
	default:
		panic("unknown op " + strings.Join(w, " "))
	}
	got := a.offer(x, tick)
	// property oracle on the real code: InSync must not be emitted before the datastore reported in-sync
	for _, e := range got {
		if _, ok := e.(*proto.InSync); ok && !a.sawInSync {
			h.OracleFail("insync-early", "Felix emitted InSync before the datastore reported in-sync", map[string]any{"ops": append([]string(nil), a.ops...)})
		}
	}
	if isInSync {
		a.sawInSync = true
	}
	if w[0] == "acg-end" {
		<-a.done
		a.dead = true
	}
	return canon(acgFilter(got))
}
