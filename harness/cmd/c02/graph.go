package main

// Graph mode of the C02 harness: the REAL dispatcher -> ActiveRulesCalculator -> RuleScanner ->
// EventSequencer and -> PolicyResolver -> EventSequencer, wired as in NewCalculationGraph, driven by
// datastore histories with ARBITRARY sync-status sequences (the syncer API allows any
// OnStatusUpdated order).  Here nothing is assumed about the upstream of the sequencer: the strict
// reference monitor on the real message stream is unconditional (`graph-dangling-*`).
// The Lean driver composes the C03 resolver model with the C02 sequencer model; the calls the real
// ARC/RuleScanner make (match start/stop towards the resolver, policy/profile active/inactive towards
// the sequencer) are recorded in call order and are inputs of the model.

import (
	"encoding/hex"
	"fmt"
	"sort"
	"strconv"
	"strings"

	v3 "github.com/projectcalico/api/pkg/apis/projectcalico/v3"
	"github.com/sirupsen/logrus"

	"github.com/projectcalico/calico/felix/calc"
	"github.com/projectcalico/calico/felix/dispatcher"
	"github.com/projectcalico/calico/lib/std/uniquelabels"
	"github.com/projectcalico/calico/libcalico-go/lib/backend/api"
	"github.com/projectcalico/calico/libcalico-go/lib/backend/model"

	"verif/harness/rt"
)

type gsys struct {
	all   *dispatcher.Dispatcher
	pr    *calc.PolicyResolver
	seq   *calc.EventSequencer
	lines []string
	evs   []any
	dp    *world
	ops   []string
	dead  bool
	reported map[string]bool
}

func gShowKey(k model.PolicyKey) string { return showKey(k.Kind, k.Namespace, k.Name) }
func gShowEp(k model.Key) string {
	switch k := k.(type) {
	case model.WorkloadEndpointKey:
		return "w:" + k.WorkloadID
	case model.HostEndpointKey:
		return "h:" + k.EndpointID
	}
	return "?"
}
func gOrder(p *float64) string {
	if p == nil {
		return "~"
	}
	return strconv.FormatInt(int64(*p*100+0.5*sign(*p)), 10)
}
func sign(f float64) float64 {
	if f < 0 {
		return -1
	}
	return 1
}
func gParseOrder(s string) *float64 {
	if s == "~" {
		return nil
	}
	n, _ := strconv.ParseInt(s, 10, 64)
	f := float64(n) / 100
	return &f
}
func gEncLabels(m map[string]string) string {
	var ks []string
	for k := range m {
		ks = append(ks, k)
	}
	sort.Strings(ks)
	var parts []string
	for _, k := range ks {
		parts = append(parts, k+"="+m[k])
	}
	return hex.EncodeToString([]byte(strings.Join(parts, "&")))
}
func gDecLabels(s string) map[string]string {
	m := map[string]string{}
	b, _ := hex.DecodeString(s)
	if len(b) == 0 {
		return m
	}
	for _, kv := range strings.Split(string(b), "&") {
		p := strings.SplitN(kv, "=", 2)
		m[p[0]] = p[1]
	}
	return m
}

// recorder right in front of the PolicyResolver (dispatcher handlers + match listener)
type gRec struct{ g *gsys }

func (r gRec) OnPolicyMatch(p model.PolicyKey, e model.EndpointKey) {
	r.g.lines = append(r.g.lines, "g-match "+gShowKey(p)+" "+gShowEp(e))
}
func (r gRec) OnPolicyMatchStopped(p model.PolicyKey, e model.EndpointKey) {
	r.g.lines = append(r.g.lines, "g-unmatch "+gShowKey(p)+" "+gShowEp(e))
}
func (r gRec) OnUpdate(u api.Update) bool {
	r.g.lines = append(r.g.lines, gRender(u))
	return false
}
func (r gRec) OnStatus(s api.SyncStatus) {
	r.g.lines = append(r.g.lines, "g-status "+map[api.SyncStatus]string{api.WaitForDatastore: "wait", api.ResyncInProgress: "resync", api.InSync: "insync"}[s])
}

func gRender(u api.Update) string {
	switch k := u.Key.(type) {
	case model.TierKey:
		if u.Value == nil {
			return "g-tier-del " + k.Name
		}
		t := u.Value.(*model.Tier)
		return "g-tier " + k.Name + " " + gOrder(t.Order) + " " + untok(string(t.DefaultAction))
	case model.PolicyKey:
		if u.Value == nil {
			return "g-pol-del " + gShowKey(k)
		}
		p := u.Value.(*model.Policy)
		fl := ""
		if p.DoNotTrack {
			fl += "u"
		}
		if p.PreDNAT {
			fl += "d"
		}
		if p.ApplyOnForward {
			fl += "f"
		}
		if fl == "" {
			fl = "-"
		}
		return "g-pol " + gShowKey(k) + " " + untok(p.Tier) + " " + gOrder(p.Order) + " " + fl + " " + uncsv(p.Types) + " x=" + hex.EncodeToString([]byte(p.Selector))
	case model.WorkloadEndpointKey:
		if u.Value == nil {
			return "g-ep-del " + gShowEp(k)
		}
		e := u.Value.(*model.WorkloadEndpoint)
		return "g-ep " + gShowEp(k) + " " + untok(e.Name) + " " + uncsv(e.ProfileIDs) + " x=" + gEncLabels(e.Labels.RecomputeOriginalMap())
	case model.HostEndpointKey:
		if u.Value == nil {
			return "g-ep-del " + gShowEp(k)
		}
		e := u.Value.(*model.HostEndpoint)
		return "g-ep " + gShowEp(k) + " " + untok(e.Name) + " " + uncsv(e.ProfileIDs) + " x=" + gEncLabels(e.Labels.RecomputeOriginalMap())
	}
	return "noop unknown"
}

// recorder between the RuleScanner and the EventSequencer (rulesUpdateCallbacks)
type gSeqRec struct{ g *gsys }

func rulesLine(r *calc.ParsedRules) string {
	tag := ""
	if len(r.InboundRules) > 0 {
		tag = r.InboundRules[0].OriginalSrcSelector
	}
	var refs []string
	for _, l := range [][]*calc.ParsedRule{r.InboundRules, r.OutboundRules} {
		for _, x := range l {
			refs = append(refs, x.SrcIPSetIDs...)
			refs = append(refs, x.DstIPSetIDs...)
			refs = append(refs, x.NotSrcIPSetIDs...)
			refs = append(refs, x.NotDstIPSetIDs...)
		}
	}
	return untok(tag) + " " + uncsv(refs)
}
func (r gSeqRec) OnPolicyActive(k model.PolicyKey, rules *calc.ParsedRules) {
	r.g.lines = append(r.g.lines, "pol-act "+gShowKey(k)+" "+rulesLine(rules))
	r.g.seq.OnPolicyActive(k, rules)
}
func (r gSeqRec) OnPolicyInactive(k model.PolicyKey) {
	r.g.lines = append(r.g.lines, "pol-inact "+gShowKey(k))
	r.g.seq.OnPolicyInactive(k)
}
func (r gSeqRec) OnProfileActive(k model.ProfileRulesKey, rules *calc.ParsedRules) {
	r.g.lines = append(r.g.lines, "prof-act "+k.Name+" "+rulesLine(rules))
	r.g.seq.OnProfileActive(k, rules)
}
func (r gSeqRec) OnProfileInactive(k model.ProfileRulesKey) {
	r.g.lines = append(r.g.lines, "prof-inact "+k.Name)
	r.g.seq.OnProfileInactive(k)
}

func newGsys() *gsys {
	g := &gsys{dp: newWorld(), reported: map[string]bool{}}
	g.all = dispatcher.NewDispatcher()
	local := calc.VerifWireLocalDispatcher(g.all, "host")
	arc := calc.NewActiveRulesCalculator()
	arc.RegisterWith(local, g.all)
	g.seq = calc.NewEventSequencer(nil)
	g.seq.Callback = func(m any) { g.evs = append(g.evs, m) }
	rs := calc.NewRuleScanner()
	arc.RuleScanner = rs
	rs.RulesUpdateCallbacks = gSeqRec{g}
	rs.OnIPSetActive = func(s *calc.IPSetData) { g.seq.OnIPSetAdded(s.UniqueID(), s.DataplaneProtocolType()) }
	rs.OnIPSetInactive = func(s *calc.IPSetData) { g.seq.OnIPSetRemoved(s.UniqueID()) }
	g.pr = calc.NewPolicyResolver()
	rec := gRec{g}
	arc.RegisterPolicyMatchListener(rec)
	arc.RegisterPolicyMatchListener(g.pr)
	g.all.Register(model.PolicyKey{}, rec.OnUpdate)
	g.all.Register(model.TierKey{}, rec.OnUpdate)
	local.Register(model.WorkloadEndpointKey{}, rec.OnUpdate)
	local.Register(model.HostEndpointKey{}, rec.OnUpdate)
	local.RegisterStatusHandler(rec.OnStatus)
	g.pr.RegisterWith(g.all, local)
	g.pr.RegisterCallback(g.seq)
	return g
}

func (g *gsys) send(k model.Key, v any) {
	if v == nil {
		g.all.OnUpdates([]api.Update{{KVPair: model.KVPair{Key: k}, UpdateType: api.UpdateTypeKVDeleted}})
		return
	}
	g.all.OnUpdates([]api.Update{{KVPair: model.KVPair{Key: k, Value: v}, UpdateType: api.UpdateTypeKVUpdated}})
}

func gx(w []string) string {
	for _, t := range w {
		if strings.HasPrefix(t, "x=") {
			return t[2:]
		}
	}
	return ""
}

// execGraph executes one generated op on the real graph and emits the protocol lines.
func execGraph(h *rt.H, gp **gsys, op string) {
	w := strings.Fields(op)
	if w[0] == "noop" {
		w = w[1:]
	}
	emit := func(line, out string) {
		h.Op(line, out)
		h.Count("op:" + strings.Fields(line)[0])
	}
	switch w[0] {
	case "g-new":
		*gp = newGsys()
		(*gp).ops = []string{"g-new"}
		emit("g-new", "ok")
		return
	case "g-match", "g-unmatch", "pol-act", "pol-inact", "prof-act", "prof-inact":
		return // derived lines, regenerated by the real code
	}
	g := *gp
	if g == nil || g.dead {
		return
	}
	g.ops = append(g.ops, strings.Join(w, " "))
	g.lines = nil
	defer func() {
		if r := recover(); r != nil {
			msg := fmt.Sprint(r)
			if e, ok := r.(*logrus.Entry); ok {
				msg = e.Message
			}
			g.dead = true
			h.OracleFail("graph-panic", "the real calc-graph code panicked: "+msg, map[string]any{"ops": append([]string(nil), g.ops...)})
			for _, l := range g.lines {
				h.Op(l, "ok")
			}
			h.Op("noop "+strings.Join(w, " "), "panic")
		}
	}()
	epKey := func(s string) model.Key {
		if s[0] == 'w' {
			return wepKey(s[2:])
		}
		return hepKey(s[2:])
	}
	switch w[0] {
	case "g-tier":
		g.send(model.TierKey{Name: w[1]}, &model.Tier{Order: gParseOrder(w[2]), DefaultAction: v3.Action(tok(w[3]))})
	case "g-tier-del":
		g.send(model.TierKey{Name: w[1]}, nil)
	case "g-pol":
		fl := w[4]
		sel, _ := hex.DecodeString(gx(w))
		g.send(parseKey(w[1]), &model.Policy{Tier: tok(w[2]), Order: gParseOrder(w[3]), DoNotTrack: strings.Contains(fl, "u"),
			PreDNAT: strings.Contains(fl, "d"), ApplyOnForward: strings.Contains(fl, "f"), Types: csv(w[5]), Selector: string(sel)})
	case "g-pol-del":
		g.send(parseKey(w[1]), nil)
	case "g-ep":
		labels := uniquelabels.Make(gDecLabels(gx(w)))
		if w[1][0] == 'w' {
			g.send(epKey(w[1]), &model.WorkloadEndpoint{Name: tok(w[2]), ProfileIDs: csv(w[3]), Labels: labels})
		} else {
			g.send(epKey(w[1]), &model.HostEndpoint{Name: tok(w[2]), ProfileIDs: csv(w[3]), Labels: labels})
		}
	case "g-ep-del":
		g.send(epKey(w[1]), nil)
	case "g-status":
		g.all.OnStatusUpdated(map[string]api.SyncStatus{"wait": api.WaitForDatastore, "resync": api.ResyncInProgress, "insync": api.InSync}[w[1]])
	case "g-flush":
		// CalcGraph.Flush() then EventSequencer.Flush(), as AsyncCalcGraph.maybeFlush does
		g.evs = nil
		g.pr.Flush()
		g.seq.Flush()
		g.monitor(h)
		emit("g-flush", canon(g.evs))
		return
	default:
		panic("unknown graph op " + op)
	}
	seen := false
	for _, l := range g.lines {
		lw := strings.Fields(l)
		if lw[0] == w[0] && len(lw) > 1 && len(w) > 1 && lw[1] == w[1] {
			seen = true
		}
		emit(l, "ok")
	}
	if !seen {
		emit("noop "+strings.Join(w, " "), "ok")
	}
}

// monitor: the strict reference monitor on the REAL stream of the REAL graph; unconditional.
func (g *gsys) monitor(h *rt.H) {
	for i, ev := range g.evs {
		sig, desc := g.dp.apply(ev)
		input := map[string]any{"ops": append([]string(nil), g.ops...), "message_index": i, "flush_output": canon(g.evs)}
		if sig != "" && !g.reported["wf-"+sig] {
			g.reported["wf-"+sig] = true
			h.OracleFail("graph-wf-"+sig, "ill-formed message in Felix's output stream: "+desc, input)
		}
		if ok, kind, _, what := g.dp.closedK(); !ok && !g.reported[kind] {
			g.reported[kind] = true
			h.OracleFail("graph-dangling-"+kind, fmt.Sprintf("after emitted message #%d (%s) the dataplane holds a dangling reference: %s", i, render(ev).class, what), input)
		}
	}
}

var (
	ggTiers = []string{"default", "t1"}
	ggPols  = []string{"gnp|~|p0", "np|ns1|p1", "knp|ns1|p1", "gnp|~|t1.p2"}
	ggEps   = []string{"w:e0", "w:e1", "h:h0"}
	ggProfs = []string{"pr0", "pr1"}
	ggSels  = []string{"all()", "has(a)", "a == 'x'", "a == 'y'", "b == 'x'", "!has(b)", "has(none)"}
)

// genGraph: datastore histories with arbitrary sync-status sequences (regressions after InSync
// included) and flushes anywhere.
func genGraph(h *rt.H) []string {
	ops := []string{"g-new"}
	n := 12 + h.Intn(50)
	insyncAt := h.Intn(n/3 + 1)
	lab := func() string {
		m := map[string]string{}
		for _, k := range []string{"a", "b"} {
			if h.Chance(0.5) {
				m[k] = rt.Pick(h, []string{"x", "y"})
			}
		}
		return gEncLabels(m)
	}
	for i := 0; i < n; i++ {
		if i == insyncAt {
			ops = append(ops, "g-status insync")
		}
		switch h.Intn(16) {
		case 0:
			if h.Chance(0.7) {
				ops = append(ops, fmt.Sprintf("g-tier %s %s %s", rt.Pick(h, ggTiers), rt.Pick(h, []string{"~", "100", "200"}), rt.Pick(h, []string{"Deny", "Pass", "~"})))
			} else {
				ops = append(ops, "g-tier-del "+rt.Pick(h, ggTiers))
			}
		case 1, 2, 3, 4:
			ops = append(ops, fmt.Sprintf("g-pol %s %s %s %s %s x=%s", rt.Pick(h, ggPols), rt.Pick(h, ggTiers), rt.Pick(h, []string{"~", "100", "150"}),
				rt.Pick(h, []string{"-", "-", "u", "d", "f"}), rt.Pick(h, []string{"-", "ingress", "egress"}), hex.EncodeToString([]byte(rt.Pick(h, ggSels)))))
		case 5:
			ops = append(ops, "g-pol-del "+rt.Pick(h, ggPols))
		case 6, 7, 8, 9:
			var profs []string
			for _, p := range ggProfs {
				if h.Chance(0.4) {
					profs = append(profs, p)
				}
			}
			ops = append(ops, fmt.Sprintf("g-ep %s %s %s x=%s", rt.Pick(h, ggEps), rt.Pick(h, []string{"a", "b", "~"}), uncsv(profs), lab()))
		case 10:
			ops = append(ops, "g-ep-del "+rt.Pick(h, ggEps))
		case 11, 12:
			// any status at any time: the syncer API allows regressions (reconnects, resyncs)
			ops = append(ops, "g-status "+rt.Pick(h, []string{"wait", "resync", "resync", "insync"}))
		default:
			ops = append(ops, "g-flush")
		}
	}
	ops = append(ops, "g-flush", "g-status insync", "g-flush")
	return ops
}
