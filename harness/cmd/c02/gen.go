package main

import (
	"fmt"
	"sort"
	"strings"

	"verif/harness/rt"
)

var (
	gIPSets  = []string{"s0", "s1", "s2", "s3"}
	gMembers = []string{"10.0.0.1", "10.0.0.2", "10.0.0.3,tcp:80", "fd00::1"}
	gPols    = []string{"gnp|~|p0", "np|ns1|p1", "knp|ns1|p1", "gnp|~|t1.p2"}
	gProfs   = []string{"pr0", "pr1", "kns.ns1"}
	gEps     = []string{"w:e0", "w:e1", "h:h0"}
	gTiers   = []string{"default", "t1", "adminnetworkpolicy"}
	gActs    = []string{"Deny", "Pass", "~"}
	gRoutes  = []string{"10.1.0.0/26", "10.1.0.64/26", "fd01::/64"}
	gNodes   = []string{"n0", "n1", "n2"}
	gCats    = []string{"sa", "ns", "host", "pool", "svc"}
	gKeys    = []string{"k0", "k1", "k2"}
	gTags    = []string{"a", "b", "c", "~"}
	gFlags   = []string{"ie", "i", "e", "uie", "ui", "die", "di", "fie", "fe", "", "udie", "ufi", "dfe"}
)

func subset(h *rt.H, xs []string, p float64) []string {
	var out []string
	for _, x := range xs {
		if h.Chance(p) {
			out = append(out, x)
		}
	}
	return out
}

func genTiers(h *rt.H, pols []string) string {
	// distribute some of the given policies over 0..3 tiers
	nt := h.Intn(4)
	if nt == 0 {
		return "-"
	}
	var ts []string
	for i := 0; i < nt; i++ {
		var ps []string
		for _, p := range pols {
			if h.Chance(0.4) {
				ps = append(ps, p+":"+rt.Pick(h, gFlags))
			}
		}
		pl := "-"
		if len(ps) > 0 {
			pl = strings.Join(ps, ";")
		}
		ts = append(ts, gTiers[i%len(gTiers)]+"="+rt.Pick(h, gActs)+"="+pl)
	}
	return strings.Join(ts, "+")
}

// genChaotic: anything goes, including calls on which the real code panics and flushes at which
// the upstream state is not reference-closed.
func genChaotic(h *rt.H) []string {
	ops := []string{"new"}
	n := 10 + h.Intn(60)
	for i := 0; i < n; i++ {
		switch h.Intn(24) {
		case 0, 1:
			ops = append(ops, fmt.Sprintf("ipset-add %s %d", rt.Pick(h, gIPSets), h.Intn(3)))
		case 2:
			ops = append(ops, "ipset-rm "+rt.Pick(h, gIPSets))
		case 3, 4, 5:
			ops = append(ops, "mem-add "+rt.Pick(h, gIPSets)+" "+rt.Pick(h, gMembers))
		case 6, 7:
			ops = append(ops, "mem-rm "+rt.Pick(h, gIPSets)+" "+rt.Pick(h, gMembers))
		case 8:
			ops = append(ops, "pol-act "+rt.Pick(h, gPols)+" "+rt.Pick(h, gTags)+" "+uncsv(subset(h, gIPSets, 0.3)))
		case 9:
			ops = append(ops, "pol-inact "+rt.Pick(h, gPols))
		case 10:
			ops = append(ops, "prof-act "+rt.Pick(h, gProfs)+" "+rt.Pick(h, gTags)+" "+uncsv(subset(h, gIPSets, 0.2)))
		case 11:
			ops = append(ops, "prof-inact "+rt.Pick(h, gProfs))
		case 12, 13:
			ops = append(ops, "ep-upd "+rt.Pick(h, gEps)+" "+rt.Pick(h, gTags)+" "+uncsv(subset(h, gProfs, 0.4))+" "+genTiers(h, gPols))
		case 14:
			ops = append(ops, "ep-del "+rt.Pick(h, gEps))
		case 15:
			if h.Bool() {
				ops = append(ops, "gen-upd "+rt.Pick(h, gCats)+" "+rt.Pick(h, gKeys)+" "+rt.Pick(h, gTags))
			} else {
				ops = append(ops, "gen-rm "+rt.Pick(h, gCats)+" "+rt.Pick(h, gKeys))
			}
		case 16:
			ref := "~"
			if h.Bool() {
				ref = rt.Pick(h, gNodes)
			}
			ops = append(ops, "route-upd "+rt.Pick(h, gRoutes)+" "+rt.Pick(h, gTags)+" "+ref)
		case 17:
			ops = append(ops, "route-rm "+rt.Pick(h, gRoutes))
		case 18:
			if h.Chance(0.6) {
				ops = append(ops, "vtep-upd "+rt.Pick(h, gNodes)+" "+rt.Pick(h, gTags))
			} else {
				ops = append(ops, "vtep-rm "+rt.Pick(h, gNodes))
			}
		case 19:
			if h.Chance(0.6) {
				p4, a4, p6, a6 := "~", "~", "~", "~"
				if h.Chance(0.6) {
					p4 = rt.Pick(h, []string{"k1", "k2"})
					if h.Bool() {
						a4 = "10.9.0.1"
					}
				}
				if h.Chance(0.5) {
					p6 = rt.Pick(h, []string{"k61", "k62"})
					if h.Bool() {
						a6 = "fd09::1"
					}
				}
				ops = append(ops, "wg-upd "+rt.Pick(h, gNodes)+" "+p4+" "+a4+" "+p6+" "+a6)
			} else {
				ops = append(ops, "wg-rm "+rt.Pick(h, gNodes))
			}
		case 20:
			switch h.Intn(3) {
			case 0:
				ops = append(ops, "encap "+rt.Pick(h, []string{"0000", "1000", "0101", "0011"}))
			case 1:
				ops = append(ops, "bgp "+rt.Pick(h, gTags))
			default:
				ops = append(ops, "notready")
			}
		default:
			ops = append(ops, "flush")
		}
	}
	ops = append(ops, "flush")
	return ops
}

// genDisciplined: a well-behaved upstream (the calc graph's obligations): valid IP-set protocol and a
// reference-closed state at every flush.  The generator keeps its own copy of the declared state and
// emits, before each flush, the calls that repair dangling references (in random order, and often
// with add/remove/re-add churn inside one flush window).
func genDisciplined(h *rt.H) []string {
	ops := []string{"new"}
	ipsets := map[string]map[string]bool{}
	pols := map[string][]string{}
	profs := map[string][]string{}
	type ep struct{ pols, profs []string }
	eps := map[string]ep{}
	vteps := map[string]bool{}
	routes := map[string]string{}
	emit := func(f string, a ...any) { ops = append(ops, fmt.Sprintf(f, a...)) }

	addSet := func(id string) {
		if _, ok := ipsets[id]; !ok {
			emit("ipset-add %s %d", id, h.Intn(3))
			ipsets[id] = map[string]bool{}
			for _, m := range subset(h, gMembers, 0.4) {
				emit("mem-add %s %s", id, m)
				ipsets[id][m] = true
			}
		}
	}
	rmSet := func(id string) {
		if _, ok := ipsets[id]; ok {
			emit("ipset-rm %s", id)
			delete(ipsets, id)
		}
	}
	polRefs := func(tiers string) []string {
		var out []string
		if tiers == "-" {
			return nil
		}
		for _, t := range strings.Split(tiers, "+") {
			p := strings.Split(t, "=")
			if p[2] == "-" {
				continue
			}
			for _, q := range strings.Split(p[2], ";") {
				out = append(out, strings.Split(q, ":")[0])
			}
		}
		return out
	}
	nflush := 2 + h.Intn(5)
	for f := 0; f < nflush; f++ {
		nact := 1 + h.Intn(10)
		for i := 0; i < nact; i++ {
			switch h.Intn(14) {
			case 0:
				id := rt.Pick(h, gIPSets)
				if _, ok := ipsets[id]; ok {
					// churn: remove and maybe re-add inside the window
					rmSet(id)
					if h.Bool() {
						addSet(id)
					}
				} else {
					addSet(id)
					if h.Chance(0.2) {
						rmSet(id)
					}
				}
			case 1, 2:
				id := rt.Pick(h, gIPSets)
				if set, ok := ipsets[id]; ok {
					m := rt.Pick(h, gMembers)
					if set[m] {
						emit("mem-rm %s %s", id, m)
						delete(set, m)
						if h.Chance(0.3) {
							emit("mem-add %s %s", id, m)
							set[m] = true
						}
					} else {
						emit("mem-add %s %s", id, m)
						set[m] = true
						if h.Chance(0.3) {
							emit("mem-rm %s %s", id, m)
							delete(set, m)
						}
					}
				}
			case 3, 4:
				k := rt.Pick(h, gPols)
				refs := subset(h, gIPSets, 0.35)
				for _, r := range refs {
					addSet(r)
				}
				emit("pol-act %s %s %s", k, rt.Pick(h, gTags), uncsv(refs))
				pols[k] = refs
			case 5:
				k := rt.Pick(h, gPols)
				emit("pol-inact %s", k)
				delete(pols, k)
				if h.Chance(0.3) {
					emit("pol-act %s %s -", k, rt.Pick(h, gTags))
					pols[k] = nil
				}
			case 6:
				k := rt.Pick(h, gProfs)
				refs := subset(h, gIPSets, 0.2)
				for _, r := range refs {
					addSet(r)
				}
				emit("prof-act %s %s %s", k, rt.Pick(h, gTags), uncsv(refs))
				profs[k] = refs
			case 7:
				k := rt.Pick(h, gProfs)
				emit("prof-inact %s", k)
				delete(profs, k)
			case 8, 9:
				k := rt.Pick(h, gEps)
				var active []string
				for p := range pols {
					active = append(active, p)
				}
				sort.Strings(active)
				if h.Chance(0.3) {
					active = gPols // may reference policies that are not active yet: repaired before the flush
				}
				tiers := genTiers(h, active)
				pf := subset(h, gProfs, 0.4)
				emit("ep-upd %s %s %s %s", k, rt.Pick(h, gTags), uncsv(pf), tiers)
				eps[k] = ep{polRefs(tiers), pf}
			case 10:
				k := rt.Pick(h, gEps)
				emit("ep-del %s", k)
				delete(eps, k)
				if h.Chance(0.3) {
					emit("ep-upd %s %s - -", k, rt.Pick(h, gTags))
					eps[k] = ep{}
				}
			case 11:
				d := rt.Pick(h, gRoutes)
				if h.Chance(0.7) {
					ref := "~"
					if h.Chance(0.6) {
						ref = rt.Pick(h, gNodes)
					}
					emit("route-upd %s %s %s", d, rt.Pick(h, gTags), ref)
					routes[d] = tok(ref)
				} else {
					emit("route-rm %s", d)
					delete(routes, d)
				}
			case 12:
				n := rt.Pick(h, gNodes)
				if h.Chance(0.6) {
					emit("vtep-upd %s %s", n, rt.Pick(h, gTags))
					vteps[n] = true
				} else {
					emit("vtep-rm %s", n)
					delete(vteps, n)
				}
			case 13:
				if h.Bool() {
					emit("gen-upd %s %s %s", rt.Pick(h, gCats), rt.Pick(h, gKeys), rt.Pick(h, gTags))
				} else {
					emit("gen-rm %s %s", rt.Pick(h, gCats), rt.Pick(h, gKeys))
				}
			}
		}
		// repair: make the declared state reference-closed (the calc graph's obligation)
		var epKeys []string
		for k := range eps {
			epKeys = append(epKeys, k)
		}
		sort.Strings(epKeys)
		for _, k := range epKeys {
			e := eps[k]
			for _, p := range e.pols {
				if _, ok := pols[p]; !ok {
					if h.Chance(0.5) {
						emit("pol-act %s %s -", p, rt.Pick(h, gTags))
						pols[p] = nil
					}
				}
			}
			for _, p := range e.profs {
				if _, ok := profs[p]; !ok {
					emit("prof-act %s %s -", p, rt.Pick(h, gTags))
					profs[p] = nil
				}
			}
			// policies still missing: drop the endpoint's tiers
			missing := false
			for _, p := range e.pols {
				if _, ok := pols[p]; !ok {
					missing = true
				}
			}
			if missing {
				emit("ep-upd %s %s %s -", k, rt.Pick(h, gTags), uncsv(e.profs))
				eps[k] = ep{nil, e.profs}
			}
		}
		var pk []string
		for k := range pols {
			pk = append(pk, k)
		}
		for k := range profs {
			pk = append(pk, "P"+k)
		}
		sort.Strings(pk)
		for _, k := range pk {
			refs := pols[k]
			if strings.HasPrefix(k, "P") {
				refs = profs[k[1:]]
			}
			for _, r := range refs {
				addSet(r)
			}
		}
		var rk []string
		for d := range routes {
			rk = append(rk, d)
		}
		sort.Strings(rk)
		for _, d := range rk {
			if r := routes[d]; r != "" && !vteps[r] {
				if h.Bool() {
					emit("vtep-upd %s %s", r, rt.Pick(h, gTags))
					vteps[r] = true
				} else {
					emit("route-rm %s", d)
					delete(routes, d)
				}
			}
		}
		emit("flush")
		if h.Chance(0.15) {
			emit("flush")
		}
	}
	return ops
}

// genAcg: status / update / tick sequences for the real AsyncCalcGraph loop.
func genAcg(h *rt.H) []string {
	ops := []string{"acg-new"}
	n := 3 + h.Intn(25)
	insyncAt := h.Intn(n + 3) // may be never
	for i := 0; i < n; i++ {
		if i == insyncAt {
			ops = append(ops, "acg-status insync")
			continue
		}
		switch h.Intn(10) {
		case 0:
			ops = append(ops, "acg-status "+rt.Pick(h, []string{"wait", "resync", "resync", "insync"}))
		case 1, 2, 3:
			ops = append(ops, "acg-tick")
		case 4:
			ops = append(ops, "acg-upd")
		case 5, 6, 7:
			ops = append(ops, "acg-upd wg "+rt.Pick(h, gNodes)+" "+rt.Pick(h, []string{"k1", "k2"}))
		default:
			ops = append(ops, "acg-del wg "+rt.Pick(h, gNodes))
		}
	}
	ops = append(ops, "acg-end")
	return ops
}
