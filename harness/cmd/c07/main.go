// C07 correspondence harness: drives the real felix/labelindex.InheritIndex, the
// real parser LabelRestrictions() and the real labelrestrictionindex, and evaluates
// the property's own oracle on the real code: reported matches == direct
// evaluation on effective labels; start/stop callbacks alternate; restrictions /
// candidate pruning never exclude an item the selector matches.
package main

import (
	"encoding/hex"
	"fmt"
	"iter"
	"sort"
	"strconv"
	"strings"

	"github.com/projectcalico/calico/felix/labelindex"
	"github.com/projectcalico/calico/felix/labelindex/labelrestrictionindex"
	"github.com/projectcalico/calico/lib/std/uniquelabels"
	"github.com/projectcalico/calico/lib/std/uniquestr"
	"github.com/projectcalico/calico/libcalico-go/lib/selector"
	"github.com/projectcalico/calico/libcalico-go/lib/selector/parser"

	"verif/harness/rt"
)

func hx(s string) string {
	if s == "" {
		return "-"
	}
	return hex.EncodeToString([]byte(s))
}

func unhx(s string) string {
	if s == "-" {
		return ""
	}
	b, err := hex.DecodeString(s)
	if err != nil {
		panic("bad hex in op: " + s)
	}
	return string(b)
}

func parseMap(s string) map[string]string {
	m := map[string]string{}
	if s == "-" {
		return m
	}
	for _, kv := range strings.Split(s, ",") {
		p := strings.Split(kv, ":")
		m[unhx(p[0])] = unhx(p[1])
	}
	return m
}

func parseList(s string) []string {
	if s == "-" {
		return nil
	}
	var out []string
	for _, x := range strings.Split(s, ",") {
		out = append(out, unhx(x))
	}
	return out
}

func showMap(m map[string]string) string {
	if len(m) == 0 {
		return "-"
	}
	keys := make([]string, 0, len(m))
	for k := range m {
		keys = append(keys, k)
	}
	sort.Strings(keys)
	parts := make([]string, len(keys))
	for i, k := range keys {
		parts[i] = hx(k) + ":" + hx(m[k])
	}
	return strings.Join(parts, ",")
}

func showList(l []string) string {
	if len(l) == 0 {
		return "-"
	}
	parts := make([]string, len(l))
	for i, k := range l {
		parts[i] = hx(k)
	}
	return strings.Join(parts, ",")
}

type pair struct{ sel, item int }

type item struct {
	labels  map[string]string
	parents []string
}

// state: the real objects + the harness's own plain record of the inputs (for the oracle).
type state struct {
	h       *rt.H
	idx     *labelindex.InheritIndex
	ridx    *labelrestrictionindex.LabelRestrictionIndex[int]
	events  []string
	live    map[pair]bool // match set reconstructed from the callbacks
	items   map[int]item
	parents map[string]map[string]string
	sels    map[int]*selector.Selector
	rsels   map[int]*selector.Selector
	lastOp  string
}

func newState(h *rt.H) *state {
	s := &state{h: h}
	s.reset()
	return s
}

func (s *state) reset() {
	s.live = map[pair]bool{}
	s.items = map[int]item{}
	s.parents = map[string]map[string]string{}
	s.sels = map[int]*selector.Selector{}
	s.rsels = map[int]*selector.Selector{}
	s.ridx = labelrestrictionindex.New[int]()
	s.idx = labelindex.NewInheritIndex(
		func(selID, itemID any) {
			p := pair{selID.(int), itemID.(int)}
			if s.live[p] {
				s.h.OracleFail("double-start", "OnMatchStarted for a pair that is already matching", map[string]any{"sel": p.sel, "item": p.item, "op": s.lastOp})
			}
			s.live[p] = true
			s.events = append(s.events, fmt.Sprintf("%06d:%06d+", p.sel, p.item))
		},
		func(selID, itemID any) {
			p := pair{selID.(int), itemID.(int)}
			if !s.live[p] {
				s.h.OracleFail("stop-without-start", "OnMatchStopped for a pair that is not matching", map[string]any{"sel": p.sel, "item": p.item, "op": s.lastOp})
			}
			delete(s.live, p)
			s.events = append(s.events, fmt.Sprintf("%06d:%06d-", p.sel, p.item))
		})
}

// effective labels computed independently of the index: own labels win, then first parent in order.
func (s *state) effective(it item) map[string]string {
	m := map[string]string{}
	for i := len(it.parents) - 1; i >= 0; i-- {
		for k, v := range s.parents[it.parents[i]] {
			m[k] = v
		}
	}
	for k, v := range it.labels {
		m[k] = v
	}
	return m
}

// checkIndex: the property on the real code — reported match set == direct evaluation.
func (s *state) checkIndex() {
	for sid, sel := range s.sels {
		for iid, it := range s.items {
			want := sel.Evaluate(s.effective(it))
			if want != s.live[pair{sid, iid}] {
				s.h.OracleFail("index-ne-eval", "index match state differs from direct evaluation on the effective labels",
					map[string]any{"sel": sid, "selector": sel.String(), "item": iid, "effective": s.effective(it), "reported": s.live[pair{sid, iid}], "op": s.lastOp})
			}
		}
	}
	for p := range s.live {
		if _, ok := s.sels[p.sel]; !ok {
			s.h.OracleFail("match-dead-selector", "a match is still reported for a deleted selector", map[string]any{"sel": p.sel, "item": p.item, "op": s.lastOp})
		}
		if _, ok := s.items[p.item]; !ok {
			s.h.OracleFail("match-dead-item", "a match is still reported for a deleted item", map[string]any{"sel": p.sel, "item": p.item, "op": s.lastOp})
		}
	}
}

func (s *state) flush() string {
	if len(s.events) == 0 {
		return "-"
	}
	sort.Strings(s.events)
	out := strings.Join(s.events, ",")
	s.events = s.events[:0]
	return out
}

func satisfies(lrs parser.LabelRestrictions, m map[string]string) (bool, string) {
	for l, r := range lrs.All() {
		v, present := m[l.Value()]
		if r.MustBePresent && !present {
			return false, l.Value() + " must be present"
		}
		if r.MustBeAbsent && present {
			return false, l.Value() + " must be absent"
		}
		if r.MustHaveOneOfValues != nil {
			ok := false
			for _, x := range r.MustHaveOneOfValues {
				if present && x.Value() == v {
					ok = true
				}
			}
			if !ok {
				return false, l.Value() + " must have one of the values"
			}
		}
	}
	return true, ""
}

func showRestrictions(lrs parser.LabelRestrictions) string {
	var parts []string
	for l, r := range lrs.All() {
		vals := "nil"
		if r.MustHaveOneOfValues != nil {
			set := map[string]bool{}
			for _, v := range r.MustHaveOneOfValues {
				set[hex.EncodeToString([]byte(v.Value()))] = true
			}
			vs := make([]string, 0, len(set))
			for v := range set {
				vs = append(vs, v)
			}
			sort.Strings(vs)
			vals = "[" + strings.Join(vs, ";") + "]"
		}
		b := func(x bool) string {
			if x {
				return "1"
			}
			return "0"
		}
		parts = append(parts, hex.EncodeToString([]byte(l.Value()))+"="+b(r.MustBePresent)+b(r.MustBeAbsent)+vals)
	}
	if len(parts) == 0 {
		return "-"
	}
	sort.Strings(parts)
	return strings.Join(parts, ",")
}

// probeMaps: label maps over a small vocabulary, used to test restriction soundness.
var probeLabels = []string{"a", "b", "c"}
var probeValues = []string{"", "x", "y", "z", "xy"}

func probeMaps() []map[string]string {
	var out []map[string]string
	n := len(probeValues) + 1
	total := 1
	for range probeLabels {
		total *= n
	}
	for code := 0; code < total; code++ {
		m := map[string]string{}
		c := code
		for _, l := range probeLabels {
			if k := c % n; k > 0 {
				m[l] = probeValues[k-1]
			}
			c /= n
		}
		out = append(out, m)
	}
	return out
}

var allProbes = probeMaps()

func (s *state) checkRestrictions(sel *selector.Selector) {
	lrs := sel.LabelRestrictions()
	for _, m := range allProbes {
		if sel.Evaluate(m) {
			if ok, why := satisfies(lrs, m); !ok {
				s.h.OracleFail("restriction-unsound", "selector matches a label map that its LabelRestrictions exclude: "+why,
					map[string]any{"selector": sel.String(), "labels": m, "restrictions": lrs.String()})
				return
			}
		}
	}
}

type labeled map[string]string

func (l labeled) AllOwnAndParentLabelHandles() iter.Seq2[uniquestr.Handle, uniquestr.Handle] {
	return func(yield func(uniquestr.Handle, uniquestr.Handle) bool) {
		for k, v := range l {
			if !yield(uniquestr.Make(k), uniquestr.Make(v)) {
				return
			}
		}
	}
}

// safeExec runs one op.  A panic raised by the REAL code under test is an oracle failure with a concrete
// failing input (the ops so far), not a harness crash.
func safeExec(h *rt.H, s *state, op string, before []string) (out string, ok bool) {
	defer func() {
		if r := recover(); r != nil {
			msg := fmt.Sprint(r)
			if strings.HasPrefix(msg, "unknown op") || strings.HasPrefix(msg, "bad hex in op") {
				panic(r) // a harness/protocol bug, not the code under test
			}
			out, ok = "PANIC", false
			h.OracleFail("panic", fmt.Sprintf("the real code panicked at op %q: %s", op, msg),
				map[string]any{"ops": append(append([]string(nil), before...), op), "panic": msg})
		}
	}()
	return exec(h, s, op), true
}

func exec(h *rt.H, s *state, op string) string {
	w := strings.Fields(op)
	s.lastOp = op
	atoi := func(x string) int { n, _ := strconv.Atoi(x); return n }
	switch w[0] {
	case "new":
		s.reset()
		return "ok"
	case "item":
		id, labels, parents := atoi(w[1]), parseMap(w[2]), parseList(w[3])
		s.items[id] = item{labels, parents}
		s.idx.UpdateLabels(id, uniquelabels.Make(labels), parents)
	case "delitem":
		id := atoi(w[1])
		delete(s.items, id)
		s.idx.DeleteLabels(id)
	case "parent":
		pid, labels := unhx(w[1]), parseMap(w[2])
		s.parents[pid] = labels
		s.idx.UpdateParentLabels(pid, labels)
	case "delparent":
		pid := unhx(w[1])
		delete(s.parents, pid)
		s.idx.DeleteParentLabels(pid)
	case "sel":
		id := atoi(w[1])
		sel, err := selector.Parse(unhx(w[2]))
		if err != nil {
			return "err"
		}
		s.sels[id] = sel
		s.idx.UpdateSelector(id, sel)
	case "delsel":
		id := atoi(w[1])
		delete(s.sels, id)
		s.idx.DeleteSelector(id)
	case "restr":
		sel, err := selector.Parse(unhx(w[1]))
		if err != nil {
			return "err"
		}
		s.checkRestrictions(sel)
		return showRestrictions(sel.LabelRestrictions())
	case "radd":
		id := atoi(w[1])
		sel, err := selector.Parse(unhx(w[2]))
		if err != nil {
			return "err"
		}
		s.rsels[id] = sel
		s.ridx.AddSelector(id, sel)
		return "ok"
	case "rdel":
		id := atoi(w[1])
		delete(s.rsels, id)
		s.ridx.DeleteSelector(id)
		return "ok"
	case "cand":
		m := parseMap(w[1])
		got := map[int]bool{}
		for id, sel := range s.ridx.AllPotentialMatches(labeled(m)) {
			got[id] = true
			if sel != s.rsels[id] {
				h.OracleFail("candidate-wrong-selector", "AllPotentialMatches yielded a selector that is not the one stored under the id", map[string]any{"id": id})
			}
		}
		for id, sel := range s.rsels {
			if sel.Evaluate(m) && !got[id] {
				h.OracleFail("candidate-missed", "a selector that matches the item is not among AllPotentialMatches",
					map[string]any{"id": id, "selector": sel.String(), "labels": m, "restrictions": sel.LabelRestrictions().String()})
			}
		}
		ids := make([]string, 0, len(got))
		for id := range got {
			ids = append(ids, fmt.Sprintf("%06d", id))
		}
		if len(ids) == 0 {
			return "-"
		}
		sort.Strings(ids)
		return strings.Join(ids, ",")
	default:
		panic("unknown op " + op)
	}
	s.checkIndex()
	return s.flush()
}

// ---- generator ----------------------------------------------------------------

var labels = []string{"a", "b", "c"}
var values = []string{"x", "y", "z", "xy", ""}
var parentIDs = []string{"p", "q", "r"}

func genMap(h *rt.H) map[string]string {
	m := map[string]string{}
	for _, l := range labels {
		if h.Chance(0.45) {
			m[l] = rt.Pick(h, values)
		}
	}
	return m
}

func genParents(h *rt.H) []string {
	var out []string
	for i := 0; i < h.Intn(4); i++ {
		out = append(out, rt.Pick(h, parentIDs)) // duplicates possible
	}
	return out
}

func lit(h *rt.H, v string) string {
	if h.Bool() {
		return `'` + v + `'`
	}
	return `"` + v + `"`
}

func genAtom(h *rt.H) string {
	l := rt.Pick(h, labels)
	v := rt.Pick(h, values)
	switch h.Intn(12) {
	case 0, 1, 2:
		return l + " == " + lit(h, v)
	case 3:
		return l + " != " + lit(h, v)
	case 4, 5:
		return "has(" + l + ")"
	case 6:
		return "!has(" + l + ")"
	case 7, 8:
		n := h.Intn(4)
		vs := make([]string, n)
		for i := range vs {
			vs[i] = lit(h, rt.Pick(h, values))
		}
		return l + " in {" + strings.Join(vs, ", ") + "}"
	case 9:
		return l + " not in {" + lit(h, v) + "}"
	case 10:
		return l + rt.Pick(h, []string{" contains ", " starts with ", " ends with "}) + lit(h, v)
	default:
		return rt.Pick(h, []string{"all()", "global()", "!all()"})
	}
}

func genSel(h *rt.H, depth int) string {
	if depth <= 0 {
		return genAtom(h)
	}
	switch h.Intn(8) {
	case 0, 1:
		return genAtom(h)
	case 2:
		return "!(" + genSel(h, depth-1) + ")"
	case 3:
		return "!(!" + genSel(h, depth-1) + ")"
	case 4, 5:
		n := 2 + h.Intn(2)
		p := make([]string, n)
		for i := range p {
			p[i] = genSel(h, depth-1)
		}
		return "(" + strings.Join(p, " && ") + ")"
	default:
		n := 2 + h.Intn(2)
		p := make([]string, n)
		for i := range p {
			p[i] = genSel(h, depth-1)
		}
		return "(" + strings.Join(p, " || ") + ")"
	}
}

func genCase(h *rt.H) []string {
	ops := []string{"new"}
	n := 10 + h.Intn(30)
	var lastSel string
	for i := 0; i < n; i++ {
		switch h.Intn(20) {
		case 0, 1, 2, 3:
			ops = append(ops, fmt.Sprintf("item %d %s %s", h.Intn(4), showMap(genMap(h)), showList(genParents(h))))
		case 4:
			ops = append(ops, fmt.Sprintf("delitem %d", h.Intn(4)))
		case 5, 6, 7:
			ops = append(ops, fmt.Sprintf("parent %s %s", hx(rt.Pick(h, parentIDs)), showMap(genMap(h))))
		case 8:
			ops = append(ops, fmt.Sprintf("delparent %s", hx(rt.Pick(h, parentIDs))))
		case 9, 10, 11:
			lastSel = genSel(h, h.Intn(3))
			ops = append(ops, fmt.Sprintf("sel %d %s", h.Intn(4), hx(lastSel)))
		case 12:
			if lastSel != "" && h.Bool() { // same selector again under some id: the Equal() shortcut
				ops = append(ops, fmt.Sprintf("sel %d %s", h.Intn(4), hx(lastSel)))
			} else {
				ops = append(ops, fmt.Sprintf("delsel %d", h.Intn(4)))
			}
		case 13, 14:
			ops = append(ops, "restr "+hx(genSel(h, h.Intn(4))))
		case 15, 16:
			ops = append(ops, fmt.Sprintf("radd %d %s", h.Intn(5), hx(genSel(h, h.Intn(3)))))
		case 17:
			ops = append(ops, fmt.Sprintf("rdel %d", h.Intn(5)))
		default:
			ops = append(ops, "cand "+showMap(genMap(h)))
		}
	}
	return ops
}

func main() {
	h := rt.New()
	defer h.Close()
	h.Rule = "case = 10..39 ops on one InheritIndex + one LabelRestrictionIndex over labels {a,b,c}, values {x,y,z,xy,''}, parents {p,q,r} (duplicates and unknown parents allowed), " +
		"4 item ids, 4 selector ids, selectors from a grammar (==, !=, has, !has, in, not in, contains/starts/ends, all, &&, ||, !(), nested !); ops: item/delitem/parent/delparent/sel/delsel/restr/radd/rdel/cand; " +
		"distinct = distinct op sequence; non-trivial = at least one match started and one stopped, or a candidate query that pruned at least one selector"
	run := func(ops []string, tag string) {
		h.Case(tag)
		s := newState(h)
		started, stopped, pruned := false, false, false
		for i, op := range ops {
			out, ok := safeExec(h, s, op, ops[:i])
			h.Op(op, out)
			if !ok {
				h.Count("panic")
				break
			}
			w := strings.Fields(op)
			h.Count("op:" + w[0])
			if strings.Contains(out, "+") {
				started = true
				h.Count("events:start")
			}
			if strings.HasSuffix(out, "-") && out != "-" || strings.Contains(out, "-,") {
				stopped = true
				h.Count("events:stop")
			}
			if w[0] == "cand" {
				n := 0
				if out != "-" {
					n = len(strings.Split(out, ","))
				}
				if n < len(s.rsels) {
					pruned = true
					h.Count("cand:pruned")
				} else {
					h.Count("cand:all")
				}
			}
			if w[0] == "restr" {
				if out == "-" {
					h.Count("restr:none")
				} else {
					h.Count("restr:some")
				}
			}
		}
		if started && stopped || pruned {
			h.Nontrivial(strings.Join(ops, ";"))
		}
		h.Sample()
	}
	if h.Replay != "" {
		run(h.ReplayLines(), "replay")
		return
	}
	for i := 0; i < h.N; i++ {
		run(genCase(h), "gen")
	}
}
