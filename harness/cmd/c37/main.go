// C37 correspondence harness: drives the real GetLengthLimitedID and the chain / IP set name wrappers.
package main

import (
	"crypto/sha256"
	"crypto/sha3"
	"encoding/base64"
	"encoding/hex"
	"fmt"
	"runtime"
	"strconv"
	"strings"
	"sync"

	v3 "github.com/projectcalico/api/pkg/apis/projectcalico/v3"

	"github.com/projectcalico/calico/felix/ipsets"
	"github.com/projectcalico/calico/felix/iptables"
	"github.com/projectcalico/calico/felix/nftables"
	"github.com/projectcalico/calico/felix/rules"
	"github.com/projectcalico/calico/felix/types"
	"github.com/projectcalico/calico/libcalico-go/lib/backend/model"
	calihash "github.com/projectcalico/calico/libcalico-go/lib/hash"

	"verif/harness/rt"
)

func xs(b string) string { return "x" + hex.EncodeToString([]byte(b)) }
func unx(t string) string {
	b, err := hex.DecodeString(strings.TrimPrefix(t, "x"))
	if err != nil {
		panic(err)
	}
	return string(b)
}

// h64 is what the model's uninterpreted `hash` stands for.
func h64(s string) string {
	sum := sha256.Sum256([]byte(s))
	return base64.RawURLEncoding.EncodeToString(sum[:])
}

// h3 is what the model's uninterpreted group hash stands for: base64url(sha3-224(·)).
func h3(s string) string {
	sum := sha3.Sum224([]byte(s))
	return base64.RawURLEncoding.EncodeToString(sum[:])
}

// pol is one policy identity as the harness generates it.
type pol struct{ kind, ns, name string }

// groupPreHash is the harness's own statement of the bytes UniqueID() hashes (the model computes the same
// string independently; the real code's UniqueID is compared with sha3 of it through the driver's table).
func groupPreHash(dir, sel string, ps []pol) string {
	d := "inbound"
	if dir == "out" {
		d = "outbound"
	}
	b := sel + "\n" + d + "\n" + strconv.Itoa(len(ps)) + "\n"
	for _, p := range ps {
		b += fmt.Sprintf("{Name: %s, Namespace: %s, Kind: %s}\n", p.name, p.ns, p.kind)
	}
	return b
}

func parsePols(w []string) []pol {
	var ps []pol
	for i := 0; i+2 < len(w); i += 3 {
		ps = append(ps, pol{unx(w[i]), unx(w[i+1]), unx(w[i+2])})
	}
	return ps
}

// inAlphabet: the guard of the identity theorems (what v3 validation guarantees).
func inAlphabet(ss ...string) bool {
	for _, s := range ss {
		if strings.ContainsAny(s, "\n,/") {
			return false
		}
	}
	return true
}

// state of one case: names handed out so far, per namespace, for the distinctness oracle.
type state struct {
	seen map[string]map[string]string // namespace -> name -> identity
}

// fixed chain names that live in the same tables as the dynamic ones (a sample of rule_defs.go's
// constants, including the only one Lean shows reachable: ChainARPDispatch).
var staticChains = []string{rules.ChainARPDispatch, rules.ChainFilterInput, rules.ChainFilterForward, rules.ChainFilterOutput,
	rules.ChainFromWorkloadDispatch, rules.ChainToWorkloadDispatch, rules.ChainDispatchToHostEndpoint,
	rules.ChainDispatchFromHostEndpoint, rules.ChainForwardCheck, rules.ChainFailsafeIn, rules.ChainFailsafeOut,
	rules.ChainWorkloadToHost, rules.ChainDispatchSetEndPointMark, rules.ChainDispatchFromEndPointMark, rules.ChainRpfSkip}

func (s *state) seedStatic() {
	for _, ns := range []string{"chains/0", "chains/1"} {
		m := map[string]string{}
		for _, c := range staticChains {
			m[c] = "static/" + c
		}
		s.seen[ns] = m
	}
}

// call runs f, mapping a Go panic to ("", kind).
func call(f func() string) (out string, panicked string) {
	defer func() {
		if r := recover(); r != nil {
			msg := fmt.Sprint(r)
			if e, ok := r.(interface{ Error() string }); ok {
				msg = e.Error()
			}
			if strings.Contains(msg, "slice bounds out of range") {
				panicked = "hash-slice"
			} else {
				panicked = "too-small"
			}
		}
	}()
	return f(), ""
}

// check evaluates the property's own oracle on the real code for one name.
// ns: namespace in which names must be distinct; ident: identity (distinct identities must get distinct names);
// max: length limit (<=0: none); exempt: identity excluded from the distinctness claim (empty suffix guard).
func (s *state) check(h *rt.H, op string, ns, ident string, max int, f func() string, exempt bool) string {
	name, p := call(f)
	if p == "hash-slice" {
		h.OracleFail("panic-hash-slice", "GetLengthLimitedID panics (hash[0:n] out of range) instead of returning a name: limit-1-len(prefix) > 43 and the identity needs shortening", map[string]any{"op": op})
		return "panic"
	}
	if p != "" {
		return "panic" // documented precondition: maxLength too small for the prefix
	}
	if name2, _ := call(f); name2 != name {
		h.OracleFail("nondeterministic", "same identity got two different names", map[string]any{"op": op, "a": name, "b": name2})
	}
	if max > 0 && len(name) > max {
		h.OracleFail("too-long", "name exceeds the length limit", map[string]any{"op": op, "name": name, "max": max})
	}
	if !exempt {
		m := s.seen[ns]
		if m == nil {
			m = map[string]string{}
			s.seen[ns] = m
		}
		if prev, ok := m[name]; ok && prev != ident {
			sig := "collision"
			if strings.HasPrefix(prev, "grp2/") && strings.HasPrefix(ident, "grp2/") {
				sig = "group-identity-collision"
			} else if strings.HasPrefix(prev, "pol2/") && strings.HasPrefix(ident, "pol2/") {
				sig = "policy-identity-collision"
			}
			if strings.HasPrefix(prev, "static/") {
				// a dynamic chain name equal to one of the FIXED chain names of rule_defs.go
				sig = "collision-static-chain:" + strings.TrimPrefix(prev, "static/")
			}
			// the verbatim identity "_"+<whole 43-char hash> against a shortened name that is SHORTER than the
			// limit (room for the hash > 43): the `_` marker argument does not cover this (see Props/C37.lean)
			for _, id := range []string{prev, ident} {
				t := id[strings.LastIndex(id, "/")+1:]
				if !strings.HasPrefix(t, "x") {
					continue
				}
				b, err := hex.DecodeString(t[1:])
				if err != nil {
					continue
				}
				suf := string(b)
				if len(suf) == 44 && suf[0] == '_' && strings.HasSuffix(name, suf) && len(name) < max {
					sig = "collision-marker-fullhash"
				}
			}
			h.OracleFail(sig, "two distinct identities got the same name", map[string]any{"op": op, "name": name, "identity_a": prev, "identity_b": ident, "namespace": ns})
		}
		m[name] = ident
	}
	return xs(name)
}

var kinds = []string{v3.KindNetworkPolicy, v3.KindGlobalNetworkPolicy, v3.KindStagedNetworkPolicy, v3.KindStagedGlobalNetworkPolicy,
	v3.KindStagedKubernetesNetworkPolicy, model.KindKubernetesNetworkPolicy, "SomeOtherKind"}

var epPfx = map[string]string{"tw": rules.WorkloadToEndpointPfx, "fw": rules.WorkloadFromEndpointPfx, "sm": rules.SetEndPointMarkPfx,
	"th": rules.HostToEndpointPfx, "fh": rules.HostFromEndpointPfx, "thfw": rules.HostToEndpointForwardPfx,
	"fhfw": rules.HostFromEndpointForwardPfx, "arp": rules.WorkloadARPPfx}

func polID(w []string) *types.PolicyID {
	k, _ := strconv.Atoi(w[4])
	return &types.PolicyID{Kind: kinds[k], Namespace: unx(w[5]), Name: unx(w[6])}
}

func group(w []string) *rules.PolicyGroup {
	k, _ := strconv.Atoi(w[3])
	g := &rules.PolicyGroup{Selector: fmt.Sprintf("has(l%d)", k/3), Direction: rules.PolicyDirectionInbound}
	if w[1] == "out" {
		g.Direction = rules.PolicyDirectionOutbound
	}
	for i := 0; i <= k%3; i++ {
		g.Policies = append(g.Policies, &types.PolicyID{Kind: v3.KindNetworkPolicy, Namespace: "ns", Name: fmt.Sprintf("p%d-%d", k, i)})
	}
	return g
}

// exec runs one protocol op on the REAL code and returns the canonical output.
func exec(h *rt.H, s *state, op string) string {
	w := strings.Fields(op)
	switch w[0] {
	case "new":
		s.seen = map[string]map[string]string{}
		s.seedStatic()
		return "ok"
	case "h":
		return "ok"
	case "gll":
		p, suf := unx(w[1]), unx(w[2])
		m, _ := strconv.Atoi(w[3])
		// identities: (prefix, max) is the namespace, the suffix the identity; the empty suffix is the excluded point.
		// Hashed names are only claimed distinct under the cryptographic hypothesis on the TRUNCATED hash: with
		// fewer than 16 hash characters left (< 96 bits) a collision is expected, not a defect.
		needsHash := len(p)+len(suf) > m || (len(p)+len(suf) == min(m, len(p)+44) && strings.HasPrefix(suf, "_"))
		if needsHash && m-1-len(p) < 16 {
			return s.check(h, op, fmt.Sprintf("gll/%s/%d", w[1], m), w[2], m, func() string { return calihash.GetLengthLimitedID(p, suf, m) }, true)
		}
		return s.check(h, op, fmt.Sprintf("gll/%s/%d", w[1], m), w[2], m, func() string { return calihash.GetLengthLimitedID(p, suf, m) }, suf == "")
	case "pol":
		id := polID(w)
		nft := w[3] == "1"
		pfx, max := rules.PolicyInboundPfx, iptables.MaxChainNameLength
		if w[1] == "out" {
			pfx = rules.PolicyOutboundPfx
		}
		if nft {
			max = nftables.MaxChainNameLength
		}
		// same identity label as `pol2` (the same policy may be named through either op)
		ident := "pol2/" + w[1] + "/" + xs(id.Kind) + "/" + w[5] + "/" + w[6] + "/."
		return s.check(h, op, "chains/"+w[3], ident, max, func() string { return rules.PolicyChainName(pfx, id, nft) }, !inAlphabet(id.Namespace, id.Name))
	case "prof":
		nft := w[3] == "1"
		pfx, max := rules.ProfileInboundPfx, iptables.MaxChainNameLength
		if w[1] == "out" {
			pfx = rules.ProfileOutboundPfx
		}
		if nft {
			max = nftables.MaxChainNameLength
		}
		name := unx(w[2])
		return s.check(h, op, "chains/"+w[3], "prof/"+w[1]+"/"+w[2], max, func() string { return rules.ProfileChainName(pfx, &types.ProfileID{Name: name}, nft) }, name == "")
	case "ep":
		iface := unx(w[2])
		m, _ := strconv.Atoi(w[3])
		ns := "chains/x" + w[3]
		if m == iptables.MaxChainNameLength {
			ns = "chains/0"
		} else if m == nftables.MaxChainNameLength {
			ns = "chains/1"
		}
		return s.check(h, op, ns, "ep/"+w[1]+"/"+w[2], m, func() string { return rules.EndpointChainName(epPfx[w[1]], iface, m) }, iface == "")
	case "grp":
		g := group(w)
		// group chains live with the other chains in both modes
		out := s.check(h, op, "chains/0", "grp/"+w[1]+"/"+w[3], iptables.MaxChainNameLength, func() string { return g.ChainName() }, false)
		s.check(h, op, "chains/1", "grp/"+w[1]+"/"+w[3], nftables.MaxChainNameLength, func() string { return g.ChainName() }, false)
		return out
	case "h3":
		return "ok"
	case "pid":
		id := types.PolicyID{Kind: unx(w[1]), Namespace: unx(w[2]), Name: unx(w[3])}
		return xs(id.ID()) + " " + xs(id.String())
	case "pol2":
		id := &types.PolicyID{Kind: unx(w[3]), Namespace: unx(w[4]), Name: unx(w[5])}
		nft := w[2] == "1"
		pfx, max := rules.PolicyInboundPfx, iptables.MaxChainNameLength
		if w[1] == "out" {
			pfx = rules.PolicyOutboundPfx
		}
		if nft {
			max = nftables.MaxChainNameLength
		}
		// distinct (Kind, Namespace, Name) must get distinct chain names — claimed inside the validation alphabet
		exempt := !inAlphabet(id.Namespace, id.Name) || id.Name == ""
		return s.check(h, op, "chains/"+w[2], "pol2/"+w[1]+"/"+w[3]+"/"+w[4]+"/"+w[5]+"/.", max, func() string { return rules.PolicyChainName(pfx, id, nft) }, exempt)
	case "grp2":
		ps := parsePols(w[3:])
		g := &rules.PolicyGroup{Selector: unx(w[2]), Direction: rules.PolicyDirectionInbound}
		if w[1] == "out" {
			g.Direction = rules.PolicyDirectionOutbound
		}
		exempt := !inAlphabet() || strings.Contains(g.Selector, "\n")
		for _, p := range ps {
			g.Policies = append(g.Policies, &types.PolicyID{Kind: p.kind, Namespace: p.ns, Name: p.name})
			// String() separates its fields with ", ": the guard for groups is "no ',' and no newline"
			if strings.ContainsAny(p.kind+p.ns+p.name, "\n,") {
				exempt = true
			}
		}
		ident := "grp2/" + strings.Join(w[1:], ":") + "/."
		out := s.check(h, op, "chains/0", ident, iptables.MaxChainNameLength, func() string { return g.ChainName() }, exempt)
		s.check(h, op, "chains/1", ident, nftables.MaxChainNameLength, func() string { return g.ChainName() }, exempt)
		return out
	case "tempset":
		fam := ipsets.IPFamilyV4
		if w[1] == "6" {
			fam = ipsets.IPFamilyV6
		}
		np := unx(w[2])
		n, _ := strconv.ParseUint(w[3], 10, 64)
		c := ipsets.NewIPVersionConfig(fam, np, nil, nil)
		// temporary set names share the ipset namespace with the main ones and must never equal one of them
		return s.check(h, op, "ipsets/"+w[1]+"/"+w[2], "temp/"+w[3]+"/.", 0, func() string { return c.NameForTempIPSet(uint(n)) }, false)
	case "ipset":
		fam := ipsets.IPFamilyV4
		if w[1] == "6" {
			fam = ipsets.IPFamilyV6
		}
		np, id := unx(w[2]), unx(w[3])
		c := ipsets.NewIPVersionConfig(fam, np, nil, nil)
		// "IP-set names: injective iff ids differ within the first 31-|prefix| bytes": the identity is that prefix of the id
		keep := ipsets.MaxIPSetNameLength - len(np) - 2
		ident := id
		if keep < 0 {
			keep = 0
		}
		if len(ident) > keep {
			ident = ident[:keep]
		}
		return s.check(h, op, "ipsets/"+w[1]+"/"+w[2], xs(ident), ipsets.MaxIPSetNameLength, func() string { return c.NameForMainIPSet(id) }, false)
	}
	panic("unknown op " + op)
}

// ---- generator ----------------------------------------------------------------

const alnum = "abcdefghijklmnopqrstuvwxyz0123456789-."

func randStr(h *rt.H, n int) string {
	b := make([]byte, n)
	for i := range b {
		b[i] = alnum[h.Intn(len(alnum))]
	}
	return string(b)
}

// suffixAround produces suffixes whose length sits around the point where prefix+suffix hits max.
func suffixAround(h *rt.H, plen, max int) string {
	room := max - plen
	if room < 0 {
		room = 0
	}
	var n int
	switch h.Intn(8) {
	case 0:
		n = room
	case 1:
		n = room - 1
	case 2:
		n = room + 1
	case 3:
		n = room + 2 + h.Intn(40)
	case 4:
		n = h.Intn(4)
	case 5:
		n = room + 200 + h.Intn(100)
	default:
		n = h.Intn(room + 3)
	}
	if n < 0 {
		n = 0
	}
	s := randStr(h, n)
	if n > 0 && h.Intn(3) == 0 {
		s = "_" + s[1:]
	}
	return s
}

var realKinds = []string{v3.KindNetworkPolicy, v3.KindGlobalNetworkPolicy, v3.KindStagedNetworkPolicy, v3.KindStagedGlobalNetworkPolicy,
	v3.KindStagedKubernetesNetworkPolicy, model.KindKubernetesNetworkPolicy, model.KindKubernetesClusterNetworkPolicy}

func grpOp(dir, sel string, ps []pol) string {
	t := []string{"grp2", dir, xs(sel)}
	for _, p := range ps {
		t = append(t, xs(p.kind), xs(p.ns), xs(p.name))
	}
	return strings.Join(t, " ")
}

// genIdentity emits a base group / policy and variants that differ from it in exactly one identity component.
func genIdentity(h *rt.H, ops *[]string, add func(op, suf string)) {
	dns := func(n int) string {
		const a = "abcdefghijklmnopqrstuvwxyz0123456789-."
		b := make([]byte, n)
		for i := range b {
			b[i] = a[h.Intn(len(a))]
		}
		return string(b)
	}
	nameLen := rt.Pick(h, []int{1, 3, 8, 20, 40, 200})
	base := []pol{{rt.Pick(h, realKinds), rt.Pick(h, []string{"", "default", dns(5)}), dns(nameLen)},
		{rt.Pick(h, realKinds), rt.Pick(h, []string{"", "default", dns(5)}), dns(1 + h.Intn(12))}}
	if h.Intn(3) == 0 {
		base = base[:1]
	}
	sel := rt.Pick(h, []string{"all()", "has(a)", "a == 'b'", "", "a in {'x, y'}"})
	dir := rt.Pick(h, []string{"in", "out"})
	var groups [][]pol
	var dirs, sels []string
	emit := func(d, s string, ps []pol) {
		groups = append(groups, ps)
		dirs = append(dirs, d)
		sels = append(sels, s)
	}
	cp := func() []pol { return append([]pol(nil), base...) }
	emit(dir, sel, base)
	// Kind only (every other kind), on the first or last policy
	idx := h.Intn(len(base))
	for _, k := range realKinds {
		if k != base[idx].kind && h.Intn(2) == 0 {
			v := cp()
			v[idx].kind = k
			emit(dir, sel, v)
		}
	}
	v := cp()
	v[idx].ns = v[idx].ns + "x" // Namespace only
	emit(dir, sel, v)
	v = cp()
	v[idx].name = v[idx].name[:len(v[idx].name)-1] + "~" // Name only (last character)
	emit(dir, sel, v)
	if len(base) == 2 { // order of the policies, and a dropped policy
		emit(dir, sel, []pol{base[1], base[0]})
		emit(dir, sel, base[:1])
	}
	emit(dir, sel+" ", base)                           // selector only
	emit(map[string]string{"in": "out", "out": "in"}[dir], sel, base) // direction only
	// separator ambiguity inside the alphabet of String(): "/" moves between namespace and name
	emit(dir, sel, []pol{{base[0].kind, "a/b", "c"}})
	emit(dir, sel, []pol{{base[0].kind, "a", "b/c"}})
	// ... and outside it (excluded points, correspondence only): ", " and newline
	emit(dir, sel, []pol{{base[0].kind, "z", "x, Namespace: y"}})
	emit(dir, sel, []pol{{base[0].kind, "y, Namespace: z", "x"}})
	emit(dir, "s\ninbound", base[:1])
	seen := map[string]bool{}
	for i, g := range groups {
		pre := groupPreHash(dirs[i], sels[i], g)
		if !seen[pre] {
			seen[pre] = true
			*ops = append(*ops, fmt.Sprintf("h3 %s %s", xs(pre), xs(h3(pre))))
		}
		*ops = append(*ops, grpOp(dirs[i], sels[i], g))
	}
	// the same identities as individual policies (PolicyID.ID()), one dataplane mode per batch
	nf := rt.Pick(h, []string{"0", "1"})
	pd := rt.Pick(h, []string{"in", "out"})
	done := map[pol]bool{}
	for _, g := range groups {
		for _, p := range g {
			if done[p] || p.name == "" {
				continue
			}
			done[p] = true
			id := (&types.PolicyID{Kind: p.kind, Namespace: p.ns, Name: p.name}).ID()
			*ops = append(*ops, fmt.Sprintf("pid %s %s %s", xs(p.kind), xs(p.ns), xs(p.name)))
			add(fmt.Sprintf("pol2 %s %s %s %s %s", pd, nf, xs(p.kind), xs(p.ns), xs(p.name)), id)
		}
	}
}

func genCase(h *rt.H) []string {
	ops := []string{"new"}
	var hashed []string // suffixes whose hash the model may need
	add := func(op string, suf string) {
		eff := suf
		if eff == "" {
			eff = "_"
		}
		hashed = append(hashed, eff)
		ops = append(ops, op)
	}
	ipt, nft := iptables.MaxChainNameLength, nftables.MaxChainNameLength
	maxOf := func(n string) int {
		if n == "1" {
			return nft
		}
		return ipt
	}
	n := 4 + h.Intn(14)
	var lastSuffix string
	for i := 0; i < n; i++ {
		switch h.Intn(11) {
		case 0, 1, 2: // raw GetLengthLimitedID, one (prefix,max) with several suffixes incl. adversarial ones
			p := rt.Pick(h, []string{"", "cali-pi-", "cali-tw-", "p", "cali-thfw-", "_", "felix-"})
			m := rt.Pick(h, []int{28, 28, 31, 15, 16, len(p) + 1, len(p) + 2, len(p) + 44, len(p) + 45, 60, 128, 256, 0, -1})
			base := suffixAround(h, len(p), m)
			sufs := []string{base, base + "x", "_" + base, "", "_"}
			if len(base) > 2 {
				sufs = append(sufs, base[:len(base)-1]+"#", base[1:], "#"+base[1:])
			}
			// adversarial: the suffix that EQUALS the shortened form of `base`
			if c := m - 1 - len(p); c > 43 && len(p)+len(base) > m {
				sufs = append(sufs, "_"+h64(base), h64(base), "_"+h64(base)[:42])
			} else if c > 0 && c <= 43 {
				sufs = append(sufs, "_"+h64(base)[:c])
				if len(base) > 0 {
					sufs = append(sufs, h64(base)[:c], "_"+h64(base)[:c-1])
				}
			}
			for _, sf := range sufs {
				if h.Intn(3) != 0 {
					add(fmt.Sprintf("gll %s %s %d", xs(p), xs(sf), m), sf)
				}
			}
			lastSuffix = base
		case 3, 4: // policies
			nf := rt.Pick(h, []string{"0", "0", "1"})
			dir := rt.Pick(h, []string{"in", "out"})
			k := h.Intn(len(kinds))
			ns := rt.Pick(h, []string{"", "default", "kube-system", randStr(h, 1+h.Intn(63))})
			nameLen := rt.Pick(h, []int{1, 5, 12, 16, 17, 18, 19, 20, 40, 100, 200, 235, 240, 245, 253})
			if nf == "1" && h.Intn(2) == 0 {
				nameLen = maxOf(nf) - 8 - 4 - len(ns) - 2 + h.Intn(5)
				if nameLen < 1 {
					nameLen = 1
				}
			}
			name := randStr(h, nameLen)
			id := (&types.PolicyID{Kind: kinds[k], Namespace: ns, Name: name}).ID()
			add(fmt.Sprintf("pol %s %s %s %d %s %s", dir, xs(id), nf, k, xs(ns), xs(name)), id)
			if h.Intn(2) == 0 { // same policy, other direction / a sibling differing in the last character
				name2 := name[:len(name)-1] + "~"
				id2 := (&types.PolicyID{Kind: kinds[k], Namespace: ns, Name: name2}).ID()
				add(fmt.Sprintf("pol %s %s %s %d %s %s", dir, xs(id2), nf, k, xs(ns), xs(name2)), id2)
			}
		case 5: // profiles
			nf := rt.Pick(h, []string{"0", "0", "1"})
			dir := rt.Pick(h, []string{"in", "out"})
			name := rt.Pick(h, []string{"kns.default", "ksa.default.default", "_", "_prof", randStr(h, 17), randStr(h, 18), randStr(h, 19), randStr(h, 20), "_" + randStr(h, 18), "_" + randStr(h, 17), randStr(h, 60), randStr(h, 250)})
			add(fmt.Sprintf("prof %s %s %s", dir, xs(name), nf), name)
			if len(name) > 200 && h.Intn(2) == 0 { // the identity that spells the shortened form of `name`
				add(fmt.Sprintf("prof %s %s %s", dir, xs("_"+h64(name)), nf), "_"+h64(name))
			}
		case 6, 7: // endpoints
			kind := rt.Pick(h, []string{"tw", "fw", "sm", "th", "fh", "thfw", "fhfw", "arp"})
			m := rt.Pick(h, []int{ipt, ipt, nft})
			iface := rt.Pick(h, []string{"cali" + randStr(h, 11), "eth0", "tap" + randStr(h, 11), "_", "_" + randStr(h, 14), randStr(h, 15), randStr(h, m-len(epPfx[kind])), "_" + randStr(h, m-len(epPfx[kind])-1), randStr(h, 16+h.Intn(8)), "dispatch", lastSuffix})
			if len(iface) > 300 {
				iface = iface[:300]
			}
			// interface names that would spell a FIXED chain name under an endpoint prefix (on the unchanged
			// tree the only such pair is arp/"dispatch"); fixed iteration order keeps the run deterministic
			if h.Intn(6) == 0 {
				for _, c := range staticChains {
					for _, k2 := range []string{"arp", "fh", "fhfw", "fw", "sm", "th", "thfw", "tw"} {
						if p2 := epPfx[k2]; strings.HasPrefix(c, p2) && len(c) > len(p2) {
							kind, iface = k2, c[len(p2):]
						}
					}
				}
			}
			add(fmt.Sprintf("ep %s %s %d", kind, xs(iface), m), iface)
			if len(iface) > 200 && h.Intn(2) == 0 {
				add(fmt.Sprintf("ep %s %s %d", kind, xs("_"+h64(iface)), m), "_"+h64(iface))
			}
			// if one endpoint prefix extends another, the two kinds can spell the same chain name
			kind2 := rt.Pick(h, []string{"tw", "fw", "sm", "th", "fh", "thfw", "fhfw", "arp"})
			if pa, pb := epPfx[kind], epPfx[kind2]; kind != kind2 && strings.HasPrefix(pb, pa) {
				x := randStr(h, 5)
				add(fmt.Sprintf("ep %s %s %d", kind, xs(pb[len(pa):]+x), m), pb[len(pa):]+x)
				add(fmt.Sprintf("ep %s %s %d", kind2, xs(x), m), x)
			}
		case 8: // policy groups
			dir := rt.Pick(h, []string{"in", "out"})
			k := h.Intn(40)
			g := group([]string{"grp", dir, "", strconv.Itoa(k)})
			ops = append(ops, fmt.Sprintf("grp %s %s %d", dir, xs(g.UniqueID()), k))
		case 9: // identity pairs: groups / policies differing in exactly ONE component
			genIdentity(h, &ops, add)
		default: // IP sets
			fam := rt.Pick(h, []string{"4", "6"})
			np := rt.Pick(h, []string{"cali", "cali", "c", "felix-ipsets-long-prefix-", "a-very-long-ip-set-name-prefix-over-31"})
			id := rt.Pick(h, []string{"s:" + randStr(h, 27), "s:" + randStr(h, 27), randStr(h, 3), randStr(h, 24), randStr(h, 25), randStr(h, 26), ""})
			ops = append(ops, fmt.Sprintf("ipset %s %s %s", fam, xs(np), xs(id)))
			if h.Intn(2) == 0 { // temporary set names, and main ids that try to spell one ("t0", "0t1", digits)
				ops = append(ops, fmt.Sprintf("tempset %s %s %d", fam, xs(np), rt.Pick(h, []uint64{0, 1, 9, 10, 123, 4294967295})))
				ops = append(ops, fmt.Sprintf("ipset %s %s %s", fam, xs(np), xs(rt.Pick(h, []string{"0", "1", "t0", "t1", "10"}))))
			}
			if h.Intn(2) == 0 { // ids equal up to the truncation point / differing just before it
				ops = append(ops, fmt.Sprintf("ipset %s %s %s", fam, xs(np), xs(id+"tail")))
				if len(id) > 2 {
					ops = append(ops, fmt.Sprintf("ipset %s %s %s", fam, xs(np), xs(id[:len(id)-1]+"#")))
				}
			}
			// ids that differ ONLY in the last character (or the last two) that survive the truncation, drawn
			// from every character class an id can hold (base64url hash characters '-' '_', separators, alnum):
			// the names must differ (seed C37-4: a trailing-separator trim after the cut merged '-' and '_')
			if keep := 31 - len(np) - 2; keep >= 2 && h.Intn(2) == 0 {
				base := "s:" + randStr(h, 40)
				tail := randStr(h, 6)
				cs := []string{"-", "_", ":", ".", "a", "Z", "0", "--", "__", "-_", "_-", "a-", "a_"}
				c1, c2 := rt.Pick(h, cs), rt.Pick(h, cs)
				ops = append(ops, fmt.Sprintf("ipset %s %s %s", fam, xs(np), xs(base[:keep-len(c1)]+c1+tail)))
				ops = append(ops, fmt.Sprintf("ipset %s %s %s", fam, xs(np), xs(base[:keep-len(c2)]+c2+randStr(h, 4))))
			}
		}
	}
	// hash table lines right after `new`
	full := []string{ops[0]}
	done := map[string]bool{}
	for _, s := range hashed {
		if !done[s] {
			done[s] = true
			full = append(full, fmt.Sprintf("h %s %s", xs(s), xs(h64(s))))
		}
	}
	return append(full, ops[1:]...)
}

// ---- concurrency clause -------------------------------------------------------------
//
// The model (and every theorem) treats the naming functions as PURE functions.  Felix calls them from
// several goroutines (dataplane goroutine naming chains, calc-graph goroutine computing NFLOG prefixes), so
// the tie also samples that the real functions behave as pure functions under concurrency: G goroutines call
// them in a tight loop on their own identity lists and every result must equal the result of the same call
// made sequentially before the goroutines started.  This is a SAMPLED supporting check (schedules are a
// runtime matter), not part of the proof.

type namingCall struct {
	label string
	f     func() string
}

func seqResult(c namingCall) string {
	out, p := call(c.f)
	if p != "" {
		return "panic:" + p
	}
	return out
}

// namingCalls builds n calls for one goroutine: over-long identities (hashing branch) mixed with short ones.
func namingCalls(h *rt.H, n int, g int) []namingCall {
	var cs []namingCall
	ipt, nft := iptables.MaxChainNameLength, nftables.MaxChainNameLength
	for i := 0; i < n; i++ {
		long := h.Intn(4) != 0
		l := 1 + h.Intn(12)
		if long {
			l = 20 + h.Intn(280)
		}
		id := fmt.Sprintf("g%d-%d-", g, i) + randStr(h, l)
		switch h.Intn(6) {
		case 0:
			p, m := rt.Pick(h, []string{"cali-pi-", "cali-tw-", "", "felix-"}), rt.Pick(h, []int{28, 28, 31, 60, 256})
			cs = append(cs, namingCall{fmt.Sprintf("GetLengthLimitedID(%q,%q,%d)", p, id, m), func() string { return calihash.GetLengthLimitedID(p, id, m) }})
		case 1:
			pid := &types.PolicyID{Kind: rt.Pick(h, realKinds), Namespace: rt.Pick(h, []string{"", "default"}), Name: id}
			nf := h.Bool()
			cs = append(cs, namingCall{fmt.Sprintf("PolicyChainName(cali-pi-,%s,nft=%v)", pid.ID(), nf), func() string { return rules.PolicyChainName(rules.PolicyInboundPfx, pid, nf) }})
		case 2:
			nf := h.Bool()
			cs = append(cs, namingCall{fmt.Sprintf("ProfileChainName(cali-pro-,%q,nft=%v)", id, nf), func() string { return rules.ProfileChainName(rules.ProfileOutboundPfx, &types.ProfileID{Name: id}, nf) }})
		case 3:
			k := rt.Pick(h, []string{"tw", "fw", "th", "fhfw", "arp"})
			m := rt.Pick(h, []int{ipt, nft})
			cs = append(cs, namingCall{fmt.Sprintf("EndpointChainName(%s,%q,%d)", epPfx[k], id, m), func() string { return rules.EndpointChainName(epPfx[k], id, m) }})
		case 4: // the other real caller of GetLengthLimitedID in Felix: NFLOG prefixes (calc-graph goroutine)
			pid := &types.PolicyID{Kind: v3.KindNetworkPolicy, Namespace: "default", Name: id}
			idx := h.Intn(100)
			cs = append(cs, namingCall{fmt.Sprintf("CalculateNFLOGPrefixStr(A,P,I,%d,%s)", idx, pid.ID()), func() string {
				return rules.CalculateNFLOGPrefixStr(rules.RuleActionAllow, rules.RuleOwnerTypePolicy, rules.RuleDirIngress, idx, pid)
			}})
		default:
			c := ipsets.NewIPVersionConfig(ipsets.IPFamilyV4, "cali", nil, nil)
			cs = append(cs, namingCall{fmt.Sprintf("NameForMainIPSet(%q)", id), func() string { return c.NameForMainIPSet(id) }})
		}
	}
	return cs
}

type concFail struct{ sig, label, want, got string }

// concurrent runs the clause once: fixed sizes (goroutines x ids x rounds), all random choices made before
// the goroutines start, results compared with the sequential ones.
func concurrent(h *rt.H) {
	if runtime.GOMAXPROCS(0) < 2 {
		runtime.GOMAXPROCS(4)
	}
	G := 4 + h.Intn(5)
	const ids, rounds = 64, 500
	lists := make([][]namingCall, G)
	want := make([][]string, G)
	for g := range lists {
		lists[g] = namingCalls(h, ids, g)
		want[g] = make([]string, ids)
		for i, c := range lists[g] {
			want[g][i] = seqResult(c)
		}
	}
	fails := make([]*concFail, G)
	var wg sync.WaitGroup
	start := make(chan struct{})
	for g := 0; g < G; g++ {
		wg.Add(1)
		go func(g int) {
			defer wg.Done()
			<-start
			for r := 0; r < rounds; r++ {
				for i, c := range lists[g] {
					got := seqResult(c)
					if got != want[g][i] {
						sig := "name-differs-under-concurrency"
						if strings.HasPrefix(got, "panic:") {
							sig = "naming-panics-under-concurrency"
						}
						fails[g] = &concFail{sig, c.label, want[g][i], got}
						return
					}
				}
			}
		}(g)
	}
	close(start)
	wg.Wait()
	h.Count("concurrent:runs")
	h.Count(fmt.Sprintf("concurrent:calls=%dx%dx%d", G, ids, rounds))
	for _, f := range fails {
		if f != nil {
			h.OracleFail(f.sig, "a naming function returned a different result (or panicked) when called concurrently from several goroutines than when called alone: it is not a pure function of the identity", map[string]any{"call": f.label, "expected_sequential": f.want, "observed_concurrent": f.got})
		}
	}
}

func main() {
	h := rt.New()
	defer h.Close()
	h.Rule = "case = 4..17 groups of identities: raw GetLengthLimitedID (prefix x max incl. tiny/huge/0/-1, suffix lengths around the limit, leading '_', empty, the suffix that EQUALS another's shortened form), policies (all kinds, ns, names up to 253, ipt+nft), profiles, endpoints (8 prefixes), policy groups, IP sets (ids equal/different around the truncation point); " +
		"plus, every 500th case, the concurrency clause (4-8 goroutines x 64 identities x 500 rounds on GetLengthLimitedID / Policy-, Profile-, EndpointChainName / CalculateNFLOGPrefixStr / NameForMainIPSet, results compared with the sequential ones); oracle per name: fits limit, same name on a second call, distinct identities of one namespace never share a name, no panic; distinct = distinct op sequence; non-trivial = case contains a shortened (hashed) name"
	run := func(ops []string, tag string) {
		h.Case(tag)
		s := &state{seen: map[string]map[string]string{}}
		s.seedStatic()
		nontriv := false
		for _, op := range ops {
			out := exec(h, s, op)
			h.Op(op, out)
			k := strings.Fields(op)[0]
			if k != "h" && k != "h3" {
				h.Count("op:" + k)
				if out == "panic" {
					h.Count("out:panic")
				} else if k == "h3" || k == "pid" || k == "grp2" || k == "tempset" {
					// identity ops: nothing to classify
				} else if k == "pol2" {
					h.Count("out:pol2")
				} else if k != "new" && k != "grp" && k != "ipset" {
					nm := unx(out)
					w := strings.Fields(op)
					if strings.Contains(nm, "_") && len(w) > 2 && !strings.HasSuffix(nm, unx(w[2])) {
						h.Count("out:shortened")
						nontriv = true
					} else {
						h.Count("out:verbatim")
					}
				}
			}
		}
		if nontriv {
			h.Nontrivial(strings.Join(ops, ";"))
		}
		h.Sample()
	}
	if h.Replay != "" {
		lines := h.ReplayLines()
		// regenerate hash lines for whatever suffixes the replayed ops mention
		var ops []string
		seen := map[string]bool{}
		for _, l := range lines {
			w := strings.Fields(l)
			if w[0] == "h" || w[0] == "h3" || w[0] == "new" {
				continue
			}
			if w[0] == "grp2" && len(w) >= 3 {
				pre := groupPreHash(w[1], unx(w[2]), parsePols(w[3:]))
				ops = append(ops, fmt.Sprintf("h3 %s %s", xs(pre), xs(h3(pre))))
			}
			if w[0] == "pol2" && len(w) == 6 {
				id := (&types.PolicyID{Kind: unx(w[3]), Namespace: unx(w[4]), Name: unx(w[5])}).ID()
				if !seen[id] {
					seen[id] = true
					ops = append(ops, fmt.Sprintf("h %s %s", xs(id), xs(h64(id))))
				}
			}
			if len(w) > 2 && (w[0] == "gll" || w[0] == "pol" || w[0] == "prof" || w[0] == "ep") {
				s := unx(w[2])
				if s == "" {
					s = "_"
				}
				if !seen[s] {
					seen[s] = true
					ops = append(ops, fmt.Sprintf("h %s %s", xs(s), xs(h64(s))))
				}
			}
			ops = append(ops, l)
		}
		run(append([]string{"new"}, ops...), "replay")
		return
	}
	// concurrency clause: once at the start and then every 500th case (each run: G x 64 ids x 500 rounds, < 1 s)
	for i := 0; i < h.N; i++ {
		if i%500 == 0 {
			concurrent(h)
		}
		run(genCase(h), "gen")
	}
}
