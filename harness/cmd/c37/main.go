package main

import (
	"fmt"
	"strings"

	"github.com/projectcalico/calico/felix/rules"
	"github.com/projectcalico/calico/felix/types"
)

func main() {
	defer func() { fmt.Println("recovered:", recover()) }()
	id := &types.PolicyID{Name: strings.Repeat("a", 250), Namespace: "default", Kind: "NetworkPolicy"}
	fmt.Println(len(id.ID()))
	fmt.Println(rules.PolicyChainName(rules.PolicyInboundPfx, id, false))
	fmt.Println(rules.PolicyChainName(rules.PolicyInboundPfx, id, true))
}
