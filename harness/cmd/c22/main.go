// C22 correspondence harness: concurrent block claims / confirms / releases by
// several hosts (the REAL ipamClient over the scheduled in-memory CAS backend of
// package ipamkv), crashes between the two claim phases included.  Same line
// protocol as C19 (every backend call is a `step` line replayed through the
// Lean model); the oracle evaluates the block-ownership invariants on the real
// store after every step.
package main

import (
	"fmt"
	"sort"
	"strings"

	"github.com/projectcalico/calico/libcalico-go/lib/backend/model"

	"verif/harness/ipamkv"
	"verif/harness/rt"
)

type oracle struct {
	h   *rt.H
	r   *ipamkv.Runner
	seq bool // the case runs one operation at a time (no concurrency)
	// how each currently-confirmed affinity (host, block) got confirmed: "cab" = by
	// claimAffineBlock (the thread created the block, or found it existing after its own
	// failed create), "gbfa" = by getBlockFromAffinity (unconfirmed affinity of an existing
	// block: pending, block rewrite, confirm)
	confKind map[[2]int]string
}

func (o *oracle) fail(sig, desc string, info map[string]any) {
	if o.seq && !o.r.Faulted {
		// the known races need two concurrent operations: the same violation in a
		// sequential fault-free history is a different (unknown) finding
		sig += "-seq"
	}
	// The recorded race is ReleaseAffinity vs claimAffineBlock of the same host; the same symptom
	// with the stale confirmation made by getBlockFromAffinity is a different (unknown) finding.
	if k, ok := info["confirmed_by"].(string); ok && k != "" {
		sig += "-" + k
	}
	info["replay_ops"] = append([]string(nil), o.r.Cmds...)
	o.h.OracleFail(sig, desc, info)
}

// confirmKindOf classifies the confirm write `st` of thread st.TID from the thread's own
// preceding backend calls on the block.
func (o *oracle) confirmKindOf(r *ipamkv.Runner, st *ipamkv.Step, blockPath string) string {
	log := r.Sc.Log
	sawGet := false
	for i := len(log) - 1; i >= 0; i-- {
		p := log[i]
		if p == st || p.TID != st.TID || p.Path != blockPath {
			continue
		}
		switch p.Verb {
		case ipamkv.VCreate:
			return "cab"
		case ipamkv.VUpdate:
			if sawGet {
				return "gbfa"
			}
			return "gbfa"
		case ipamkv.VGet:
			if sawGet {
				return "gbfa"
			}
			sawGet = true
		default:
			return "gbfa"
		}
	}
	return "gbfa"
}

func (o *oracle) onStep(r *ipamkv.Runner, st *ipamkv.Step, ctx *ipamkv.ThreadCtx) {
	if !st.Eff.Changed {
		return
	}
	e := r.Env
	if ak, ok := st.Key.(model.BlockAffinityKey); ok {
		b, okb := e.BlockOf[model.IPNetFromPrefix(ak.CIDR).String()]
		x := e.HostID(ak.Host)
		if okb && x >= 0 {
			if st.Eff.After != nil && strings.Contains(e.AbsAffOf(*st.Eff.After), "confirmed") {
				bp, _ := model.KeyToDefaultPath(model.BlockKey{CIDR: ak.CIDR})
				o.confKind[[2]int{x, b}] = o.confirmKindOf(r, st, bp)
				o.h.Count("confirm:" + o.confKind[[2]int{x, b}])
			} else {
				delete(o.confKind, [2]int{x, b})
			}
		}
	}
	w := e.World()
	// (1) a block is confirmed as affine to at most one host, and a confirmed affinity
	// matches the block's recorded affinity
	conf := map[int][]int{}
	for k, stt := range w.Affs {
		if stt == "confirmed" {
			conf[k[1]] = append(conf[k[1]], k[0])
		}
	}
	for b, hosts := range conf {
		sort.Ints(hosts)
		if len(hosts) > 1 {
			kind := "cab"
			for _, x := range hosts {
				if blk, ok := w.Blocks[b]; (!ok || blk.Aff != x) && o.confKind[[2]int{x, b}] == "gbfa" {
					kind = "gbfa" // the stale one of the two was confirmed by getBlockFromAffinity
				}
			}
			o.fail("two-confirmed", "a block is confirmed as affine to two hosts", map[string]any{"block": b, "hosts": hosts, "confirmed_by": kind})
		}
		for _, x := range hosts {
			blk, ok := w.Blocks[b]
			if !ok {
				o.fail("confirmed-no-block", "a confirmed affinity exists for a block that does not exist", map[string]any{"block": b, "host": x, "confirmed_by": o.confKind[[2]int{x, b}]})
			} else if blk.Aff != x {
				o.fail("confirmed-mismatch", "a confirmed affinity does not match the block's recorded affinity", map[string]any{"block": b, "host": x, "block_affinity": blk.Aff, "confirmed_by": o.confKind[[2]int{x, b}]})
			}
		}
	}
	// (2) NOT part of the property (it is the converse of "a confirmed claim matches the block"):
	// a block recording an affinity for a host that holds no affinity object for it is only counted
	for b, blk := range w.Blocks {
		if blk.Aff >= 0 {
			if _, ok := w.Affs[[2]int{blk.Aff, b}]; !ok {
				o.h.Count("obs:block-without-affinity-object")
			}
		}
	}
	// (3) release requires empty: a block is deleted only when it holds no allocation, and an
	// owner asked to release only-if-empty never strips the affinity of a non-empty block
	if bk, ok := st.Key.(model.BlockKey); ok && st.Eff.Before != nil {
		bid := e.BlockOf[model.IPNetFromPrefix(bk.CIDR).String()]
		before := e.AbsBlockOf(*st.Eff.Before)
		inUse := 0
		for _, s := range before.Slots {
			if strings.HasPrefix(s, "L") {
				inUse++
			}
		}
		releasing := ctx != nil && (ctx.Op == "releaseaff" || ctx.Op == "relhostaff" || ctx.Op == "autoassign" || ctx.Op == "claim")
		if st.Eff.After == nil && inUse > 0 && releasing {
			o.fail("deleted-nonempty", "a block holding allocations was deleted by an affinity release", map[string]any{"block": bid, "in_use": inUse})
		}
		if st.Eff.After != nil && ctx != nil && ctx.RequireEmpty {
			after := e.AbsBlockOf(*st.Eff.After)
			if before.Aff >= 0 && after.Aff < 0 && inUse > 0 {
				o.fail("released-nonempty", "affinity released although the block must be empty and is not", map[string]any{"block": bid, "in_use": inUse})
			}
		}
		// (4) pending is not ownership: under strict affinity an allocation is only ever
		// written into a block whose recorded affinity is the allocating host
		if st.Eff.After != nil && ctx != nil && r.Params["strict"] == "1" && (ctx.Op == "autoassign" || ctx.Op == "assignip") {
			after := e.AbsBlockOf(*st.Eff.After)
			grew := false
			for i, s := range after.Slots {
				if strings.HasPrefix(s, "L") && (i >= len(before.Slots) || before.Slots[i] != s) {
					grew = true
				}
			}
			if grew && before.Aff != ctx.Host {
				o.fail("assign-not-owner", "strict affinity: a host allocated from a block whose recorded affinity is not that host", map[string]any{"block": bid, "host": ctx.Host, "block_affinity": before.Aff})
			}
		}
	}
}

type gen struct {
	h     *rt.H
	r     *ipamkv.Runner
	tid   int
	last  int
	fault bool
	seq   bool
	// unconf: the case starts with a claim of host 0 on block 0 that crashes right after creating
	// the block (pending affinity + existing block), then races ReleaseAffinity(host 0, block 0)
	// against AutoAssign / claims of host 0, then lets the other host claim
	unconf bool
}

func (g *gen) newLine() string {
	h := g.h
	pools := rt.Pick(h, []string{"10.0.0.0/30/31", "10.0.0.0/29/30", "10.0.0.0/30/31", "10.0.0.0/29/31", "10.0.0.0/31/32x"})
	if strings.HasSuffix(pools, "x") {
		pools = "10.0.0.0/29/30"
	}
	strict := h.Intn(2)
	maxblk := 0
	if strict == 1 {
		maxblk = h.Intn(3)
	}
	return fmt.Sprintf("new hosts=%d handles=2 pools=%s cool=0 strict=%d maxblk=%d", 2+h.Intn(2), pools, strict, maxblk)
}

func (g *gen) beginLine() string {
	h, e := g.h, g.r.Env
	g.tid++
	host := h.Intn(len(e.Hosts))
	bid := h.Intn(len(e.Blocks))
	hid := 1 + h.Intn(len(e.Handles))
	switch k := h.Intn(20); {
	case k < 6:
		return fmt.Sprintf("begin %d autoassign host=%d h=%d n=%d", g.tid, host, hid, 1+h.Intn(2))
	case k < 10:
		return fmt.Sprintf("begin %d claim host=%d b=%d", g.tid, host, bid)
	case k < 14:
		return fmt.Sprintf("begin %d releaseaff host=%d b=%d empty=%d", g.tid, host, bid, h.Intn(2))
	case k < 16:
		return fmt.Sprintf("begin %d relhostaff host=%d empty=%d", g.tid, host, h.Intn(2))
	case k < 18:
		size := func(b int) int { ones, bits := e.Blocks[b].Mask.Size(); return 1 << uint(bits-ones) }
		return fmt.Sprintf("begin %d assignip host=%d h=%d b=%d o=%d", g.tid, host, hid, bid, h.Intn(size(bid)))
	default:
		return fmt.Sprintf("begin %d relbyhandle host=%d h=%d", g.tid, host, hid)
	}
}

func (g *gen) pickFault() string {
	if !g.fault {
		return ipamkv.FNone
	}
	x := g.h.Rng.Float64()
	switch {
	case x < 0.04:
		return ipamkv.FConflict
	case x < 0.07:
		return ipamkv.FError
	case x < 0.09:
		return ipamkv.FCrashBefore
	case x < 0.11:
		return ipamkv.FCrashAfter
	}
	return ipamkv.FNone
}

// drive lets the ready threads run under the seeded scheduler (no faults).
func (g *gen) drive() {
	h, r := g.h, g.r
	for steps := 0; steps < 600; steps++ {
		rd := r.Ready()
		if len(rd) == 0 {
			break
		}
		tid := rd[h.Intn(len(rd))]
		for _, x := range rd {
			if x == g.last && h.Chance(0.5) {
				tid = x
			}
		}
		g.last = tid
		r.Exec(fmt.Sprintf("step %d none", tid))
	}
	r.Exec("quiesce")
}

func (g *gen) runUnconf() {
	h, r := g.h, g.r
	r.Exec(fmt.Sprintf("new hosts=2 handles=2 pools=%s cool=0 strict=%d maxblk=0", rt.Pick(h, []string{"10.0.0.0/30/31", "10.0.0.0/29/30"}), h.Intn(2)))
	// a claim that crashes between creating the block and confirming the affinity
	g.tid = 1
	r.Exec("begin 1 claim host=0 b=0")
	for i := 0; i < 20; i++ {
		c := r.Sc.Peek(1)
		if c == nil {
			break
		}
		if _, isBlk := c.Key.(model.BlockKey); isBlk && c.Verb == ipamkv.VCreate {
			r.Exec("step 1 crashafter")
			break
		}
		r.Exec("step 1 none")
	}
	r.Exec("quiesce")
	rounds := 1 + h.Intn(3)
	for i := 0; i < rounds; i++ {
		n := 2 + h.Intn(2)
		for j := 0; j < n; j++ {
			g.tid++
			switch k := h.Intn(10); {
			case k < 4:
				r.Exec(fmt.Sprintf("begin %d releaseaff host=0 b=0 empty=%d", g.tid, h.Intn(2)))
			case k < 8:
				r.Exec(fmt.Sprintf("begin %d autoassign host=0 h=%d n=1", g.tid, 1+h.Intn(2)))
			case k < 9:
				r.Exec(fmt.Sprintf("begin %d claim host=0 b=0", g.tid))
			default:
				r.Exec(fmt.Sprintf("begin %d relhostaff host=0 empty=%d", g.tid, h.Intn(2)))
			}
		}
		g.drive()
		if h.Chance(0.3) {
			r.Exec("age")
		}
	}
	g.tid++
	r.Exec(fmt.Sprintf("begin %d claim host=1 b=0", g.tid))
	g.drive()
}

func (g *gen) run() {
	h, r := g.h, g.r
	g.tid, g.last = 0, -1
	g.fault = h.Intn(2) == 0 && !g.seq
	if g.unconf {
		g.runUnconf()
		return
	}
	r.Exec(g.newLine())
	rounds := 2 + h.Intn(4)
	if g.seq {
		rounds = 4 + h.Intn(6)
	}
	for i := 0; i < rounds; i++ {
		n := 2 + h.Intn(2)
		if g.seq {
			n = 1
		}
		for j := 0; j < n; j++ {
			r.Exec(g.beginLine())
		}
		for steps := 0; steps < 600; steps++ {
			rd := r.Ready()
			if len(rd) == 0 {
				break
			}
			tid := rd[h.Intn(len(rd))]
			for _, x := range rd {
				if x == g.last && h.Chance(0.5) {
					tid = x
				}
			}
			g.last = tid
			r.Exec(fmt.Sprintf("step %d %s", tid, g.pickFault()))
		}
		r.Exec("quiesce")
		if h.Chance(0.4) {
			r.Exec("age")
		}
	}
}

func main() {
	h := rt.New()
	defer h.Close()
	h.Rule = "case = one IPAM world (2-3 hosts competing for 2-4 blocks of 2-4 addresses, strict affinity on/off, block cap) + 2..5 rounds of 2..3 CONCURRENT operations " +
		"{claim, releaseaffinity(mustBeEmpty 0/1), releasehostaffinities, autoassign, assignip, releasebyhandle} interleaved at every backend call by a seeded scheduler; claims aged between rounds (reclaim path); " +
		"half of the cases with injected CAS conflicts / errors / crashes (incl. between the two claim phases); non-trivial = >=2 thread switches or a fault"
	o := &oracle{h: h}
	mk := func() *ipamkv.Runner {
		r := ipamkv.NewRunner(h)
		o.r = r
		o.confKind = map[[2]int]string{}
		r.OnStep = o.onStep
		return r
	}
	if h.Replay != "" {
		h.Case("replay")
		r := mk()
		for _, l := range h.ReplayLines() {
			r.Exec(l)
		}
		if r.Env != nil {
			r.Exec("quiesce")
		}
		h.Sample()
		return
	}
	for i := 0; i < h.N; i++ {
		h.Case("gen")
		r := mk()
		g := &gen{h: h, r: r, seq: h.Intn(4) == 0}
		g.unconf = !g.seq && h.Intn(4) == 0
		o.seq = g.seq
		g.run()
		inter := 0
		key := []string{}
		for i, st := range r.Sc.Log {
			key = append(key, fmt.Sprintf("%d%s%s%s", st.TID, st.Verb, st.Path, st.Outcome))
			if i > 0 && r.Sc.Log[i-1].TID != st.TID {
				inter++
			}
		}
		if inter >= 2 || r.Faulted {
			h.Nontrivial(strings.Join(key, ";"))
		}
		h.Sample()
	}
}
