// C20 correspondence harness: single-threaded AutoAssign histories of the REAL
// ipamClient over generated pool layouts (disabled pools, allowed uses, node and
// namespace selectors, manual pools, explicitly requested pools), reservations
// and IPAM configs (strict affinity, block caps).
//
//   - `allowed <zone> <team> <use> <req>`: the real determinePools+filterPoolsByUse
//     (verif export hook) against the model's decision logic;
//   - every backend call of every AutoAssign is a `step` line replayed through the
//     shared model (Cas.step): the reservation filter of autoAssign must pick the
//     same ordinals as the model's takeFree;
//   - the property's oracle is evaluated on every returned assignment.
package main

import (
	"context"
	"fmt"
	"strings"

	v3 "github.com/projectcalico/api/pkg/apis/projectcalico/v3"

	"github.com/projectcalico/calico/libcalico-go/lib/apis/internalapi"
	"github.com/projectcalico/calico/libcalico-go/lib/ipam"
	cnet "github.com/projectcalico/calico/libcalico-go/lib/net"

	"verif/harness/ipamkv"
	"verif/harness/rt"
)

type poolAttr struct {
	enabled bool
	uses    string
	n, s    int
	auto    bool
}

type st struct {
	h        *rt.H
	r        *ipamkv.Runner
	attrs    []poolAttr
	zones    []int
	cfgMax   int
	cur      map[string]string // kv of the running autoassign
	before   int               // affine blocks of the host before the op
	beforeIn map[int]int       // ... per pool
	// blocks whose RECORDED affinity is the host, per pool, before the op
	beforeBlk map[int]int
	curOf     map[int]map[string]string
	befOf     map[int][3]any
}

func (s *st) fail(sig, desc string, info map[string]any) {
	info["replay_ops"] = append([]string(nil), s.r.Cmds...)
	s.h.OracleFail(sig, desc, info)
}

func effCap(cfgMax, reqMax int) int {
	m := reqMax
	if cfgMax > 0 && reqMax > 0 && reqMax > cfgMax {
		m = cfgMax
	} else if reqMax == 0 {
		m = cfgMax
	}
	if m == 0 {
		return 20
	}
	return m
}

func atoi(x string) int { n := 0; fmt.Sscanf(x, "%d", &n); return n }

func (s *st) affineBlocks(host int) int {
	n := 0
	for k := range s.r.Env.World().Affs {
		if k[0] == host {
			n++
		}
	}
	return n
}

// ownedBlocksPerPool counts BLOCKS whose recorded affinity is the host (not affinity objects).
func (s *st) ownedBlocksPerPool(host int) map[int]int {
	m := map[int]int{}
	for b, blk := range s.r.Env.World().Blocks {
		if blk.Aff == host {
			m[s.r.Env.PoolOf[b]]++
		}
	}
	return m
}

func (s *st) affineBlocksPerPool(host int) map[int]int {
	m := map[int]int{}
	for k := range s.r.Env.World().Affs {
		if k[0] == host {
			m[s.r.Env.PoolOf[k[1]]]++
		}
	}
	return m
}

// allowedModel mirrors Model/C20.lean allowedPools (used by the oracle only).
func (s *st) allowedModel(req []int, zone, team int, use byte) (map[int]bool, bool) {
	var en []int
	for i, a := range s.attrs {
		if a.enabled {
			en = append(en, i)
		}
	}
	if len(en) == 0 {
		return nil, false
	}
	selOk := func(sel, l int) bool { return sel == 0 || sel == l }
	var m []int
	if len(req) == 0 {
		for _, i := range en {
			a := s.attrs[i]
			if a.auto && selOk(a.n, zone) && selOk(a.s, team) {
				m = append(m, i)
			}
		}
	} else {
		for _, r := range req {
			ok := false
			for _, i := range en {
				if i == r {
					ok = true
				}
			}
			if !ok {
				return nil, false
			}
			m = append(m, r)
		}
	}
	out := map[int]bool{}
	for _, i := range m {
		if strings.IndexByte(s.attrs[i].uses, use) >= 0 {
			out[i] = true
		}
	}
	return out, len(out) > 0
}

func (s *st) onEnd(r *ipamkv.Runner, tid int, ctx *ipamkv.ThreadCtx, res *ipamkv.OpResult) {
	if ctx.Op != "autoassign" {
		return
	}
	if kvt, ok := s.curOf[tid]; ok {
		s.cur = kvt
		bo := s.befOf[tid]
		s.before, s.beforeIn, s.beforeBlk = bo[0].(int), bo[1].(map[int]int), bo[2].(map[int]int)
	}
	e := r.Env
	kv := s.cur
	host := ctx.Host
	use := byte('W')
	if kv["use"] == "T" {
		use = 'T'
	}
	var req []int
	if kv["req"] != "" && kv["req"] != "-" {
		for _, x := range strings.Split(kv["req"], ",") {
			req = append(req, atoi(x))
		}
	}
	allowed, ok := s.allowedModel(req, s.zones[host], atoi(kv["ns"]), use)
	if !ok && len(res.Addrs) > 0 {
		s.fail("assigned-without-pool", "addresses were assigned although no pool qualifies for the request", map[string]any{"addrs": res.Addrs})
	}
	w := e.World()
	for i, a := range res.Addrs {
		b, o := a[0], a[1]
		if b < 0 {
			s.fail("outside-pools", "assigned address is in no configured pool", map[string]any{"addr": a})
			continue
		}
		pi := e.PoolOf[b]
		if !allowed[pi] {
			s.fail("pool-not-allowed", "assigned address lies in a pool that is disabled / not allowed for the use / not selecting the node or namespace / not requested", map[string]any{"pool": pi, "block": b, "ordinal": o})
		}
		for _, ro := range e.ReservedOrdinals(b) {
			if ro == o {
				s.fail("reserved-assigned", "assigned address lies inside an IP reservation", map[string]any{"block": b, "ordinal": o})
			}
		}
		if i < len(res.Nets) {
			ones, _ := res.Nets[i].Mask.Size()
			if ones != e.Pools[pi].Spec.BlockSize {
				s.fail("mask-not-block", "assigned address does not come back with its block's prefix length", map[string]any{"block": b, "ones": ones, "blockSize": e.Pools[pi].Spec.BlockSize})
			}
		}
		if e.Strict {
			if blk, ok := w.Blocks[b]; !ok || blk.Aff != host {
				s.fail("strict-foreign-block", "strict affinity: assigned address comes from a block not affine to the requesting host", map[string]any{"block": b, "host": host})
			}
		}
	}
	cap := effCap(s.cfgMax, atoi(kv["maxblk"]))
	after := s.affineBlocks(host)
	lim := cap
	if s.before > lim {
		lim = s.before
	}
	if after > lim {
		s.fail("block-cap-exceeded", "host holds more affine blocks than the cap after an AutoAssign", map[string]any{"host": host, "before": s.before, "after": after, "cap": cap})
	}
	// what the code does enforce: the cap over the blocks inside the pools usable for THIS request
	// (counted both as affinity objects and as blocks whose recorded affinity is the host)
	bIn, aIn, bBlk, aBlk := 0, 0, 0, 0
	afterIn := s.affineBlocksPerPool(host)
	afterBlk := s.ownedBlocksPerPool(host)
	for pi := range allowed {
		bIn += s.beforeIn[pi]
		aIn += afterIn[pi]
		bBlk += s.beforeBlk[pi]
		aBlk += afterBlk[pi]
	}
	limIn, limBlk := cap, cap
	if bIn > limIn {
		limIn = bIn
	}
	if bBlk > limBlk {
		limBlk = bBlk
	}
	if ok && res.Err == nil && (aIn > limIn || aBlk > limBlk) {
		// distinct shape: the host has an affinity in state pendingDeletion for a block (of a usable
		// pool) that still records the host as its affinity - an affinity the count must include
		pd := false
		for k, stt := range w.Affs {
			if k[0] == host && stt == "pendingDeletion" && allowed[e.PoolOf[k[1]]] {
				if blk, okb := w.Blocks[k[1]]; okb && blk.Aff == host {
					pd = true
				}
			}
		}
		sig := "block-cap-exceeded-in-pools"
		if pd {
			sig = "block-cap-exceeded-uncounted-pendingdeletion"
		}
		s.fail(sig, "host holds more affine blocks inside the pools usable for the request than the cap after a successful AutoAssign", map[string]any{"host": host, "before_objects": bIn, "after_objects": aIn, "before_blocks": bBlk, "after_blocks": aBlk, "cap": cap})
	}
}

func (s *st) exec(line string) {
	w := strings.Fields(line)
	switch w[0] {
	case "new":
		s.r.Exec(line)
		kv := map[string]string{}
		for _, t := range w[1:] {
			if i := strings.IndexByte(t, '='); i > 0 {
				kv[t[:i]] = t[i+1:]
			}
		}
		s.attrs, s.zones = nil, nil
		for i, a := range strings.Split(kv["pattrs"], ";") {
			f := strings.Split(a, ":")
			if len(f) != 5 {
				continue
			}
			pa := poolAttr{enabled: f[0] == "E", uses: f[1], n: atoi(f[2][1:]), s: atoi(f[3][1:]), auto: f[4] == "A"}
			s.attrs = append(s.attrs, pa)
			s.h.Op(fmt.Sprintf("pool %d %s %s %s %s %s", i, f[0], f[1], f[2], f[3], f[4]), "ok")
		}
		for _, z := range strings.Split(kv["zones"], ",") {
			s.zones = append(s.zones, atoi(z))
		}
		for len(s.zones) < len(s.r.Env.Hosts) {
			s.zones = append(s.zones, 0)
		}
		s.cfgMax = atoi(kv["maxblk"])
	case "allowed":
		if s.r.Env == nil || len(w) != 5 {
			return
		}
		e := s.r.Env
		zone, team := atoi(w[1]), atoi(w[2])
		use := v3.IPPoolAllowedUseWorkload
		switch w[3] {
		case "T":
			use = v3.IPPoolAllowedUseTunnel
		case "L":
			use = v3.IPPoolAllowedUseLoadBalancer
		}
		var req []cnet.IPNet
		if w[4] != "-" {
			for _, x := range strings.Split(w[4], ",") {
				if pi := atoi(x); pi >= 0 && pi < len(e.Pools) {
					req = append(req, cnet.MustParseCIDR(e.Pools[pi].Spec.CIDR))
				} else {
					req = append(req, cnet.MustParseCIDR("192.168.77.0/24")) // a pool that does not exist
				}
			}
		}
		node := internalapi.NewNode()
		node.Name = "q"
		if zone > 0 {
			node.Labels = map[string]string{"zone": fmt.Sprintf("z%d", zone)}
		}
		cl := ipam.NewIPAMClient(ipamkv.Direct{S: e.S}, e, e.Reservations())
		pools, err := ipam.VerifAllowedPools(cl, context.Background(), req, 4, *node, ipamkv.NamespaceFor(team), 32, use)
		out := "err"
		if err == nil && len(pools) > 0 {
			var ids []string
			for _, p := range pools {
				ids = append(ids, strings.TrimPrefix(p.Name, "pool"))
			}
			out = "pools " + strings.Join(ids, ",")
		}
		s.h.Op(line, out)
		s.h.Count("allowed:" + strings.Fields(out)[0])
	case "begin":
		kv := map[string]string{}
		for _, t := range w[3:] {
			if i := strings.IndexByte(t, '='); i > 0 {
				kv[t[:i]] = t[i+1:]
			}
		}
		s.cur = kv
		s.before = s.affineBlocks(atoi(kv["host"]))
		s.beforeIn = s.affineBlocksPerPool(atoi(kv["host"]))
		s.beforeBlk = s.ownedBlocksPerPool(atoi(kv["host"]))
		if s.curOf == nil {
			s.curOf, s.befOf = map[int]map[string]string{}, map[int][3]any{}
		}
		s.curOf[atoi(w[1])] = kv
		s.befOf[atoi(w[1])] = [3]any{s.before, s.beforeIn, s.beforeBlk}
		s.r.Exec(line)
	default:
		s.r.Exec(line)
	}
}

func gen(h *rt.H) []string {
	npools := 1 + h.Intn(3)
	var pools, pattrs []string
	for i := 0; i < npools; i++ {
		pools = append(pools, fmt.Sprintf("10.%d.0.0/%d/%d", i, rt.Pick(h, []int{28, 29, 29}), rt.Pick(h, []int{30, 30, 31})))
		en := "E"
		if h.Chance(0.2) {
			en = "D"
		}
		uses := rt.Pick(h, []string{"WT", "WT", "W", "T", "L", "WTL"})
		am := "A"
		if h.Chance(0.15) {
			am = "M"
		}
		pattrs = append(pattrs, fmt.Sprintf("%s:%s:n%d:s%d:%s", en, uses, rt.Pick(h, []int{0, 0, 1, 2}), rt.Pick(h, []int{0, 0, 0, 1, 2}), am))
	}
	hosts := 2 + h.Intn(2)
	var zones []string
	for i := 0; i < hosts; i++ {
		zones = append(zones, fmt.Sprint(h.Intn(3)))
	}
	strict := h.Intn(2)
	maxblk := 0
	if strict == 1 {
		maxblk = h.Intn(3)
	}
	resv := "-"
	if h.Chance(0.6) {
		var rs []string
		for i := 0; i < 1+h.Intn(3); i++ {
			p := h.Intn(npools)
			switch h.Intn(3) {
			case 0:
				rs = append(rs, fmt.Sprintf("10.%d.0.%d/32", p, h.Intn(12)))
			case 1:
				rs = append(rs, fmt.Sprintf("10.%d.0.%d/31", p, 2*h.Intn(6)))
			default:
				rs = append(rs, fmt.Sprintf("10.%d.0.%d/30", p, 4*h.Intn(3)))
			}
		}
		resv = strings.Join(rs, ";")
	}
	ops := []string{fmt.Sprintf("new hosts=%d handles=3 pools=%s pattrs=%s zones=%s cool=0 strict=%d maxblk=%d resv=%s",
		hosts, strings.Join(pools, ";"), strings.Join(pattrs, ";"), strings.Join(zones, ","), strict, maxblk, resv)}
	reqOf := func() string {
		if h.Chance(0.7) {
			return "-"
		}
		if h.Chance(0.1) {
			return "7" // a pool that does not exist
		}
		r := fmt.Sprint(h.Intn(npools))
		if h.Chance(0.3) {
			r += "," + fmt.Sprint(h.Intn(npools))
		}
		return r
	}
	n := 4 + h.Intn(10)
	tid := 0
	for i := 0; i < n; i++ {
		if h.Chance(0.35) {
			ops = append(ops, fmt.Sprintf("allowed %d %d %s %s", h.Intn(3), h.Intn(3), rt.Pick(h, []string{"W", "T", "L"}), reqOf()))
			continue
		}
		tid++
		switch h.Intn(10) {
		case 0:
			ops = append(ops, fmt.Sprintf("begin %d relbyhandle host=0 h=%d", tid, 1+h.Intn(3)), "quiesce")
		default:
			ops = append(ops, fmt.Sprintf("begin %d autoassign host=%d h=%d n=%d use=%s ns=%d req=%s maxblk=%d", tid, h.Intn(hosts), 1+h.Intn(3), 1+h.Intn(3),
				rt.Pick(h, []string{"W", "W", "T"}), h.Intn(3), reqOf(), rt.Pick(h, []int{0, 0, 1, 2})), "quiesce")
		}
	}
	return ops
}

// capRace: strict affinity, cap 1, one pool.  Host 0 owns one (emptied) block; a release of the
// host's affinities that must-be-empty reads the empty block, then the host's own AutoAssign fills
// the block, then the release marks the affinity pendingDeletion and loses its compare-and-delete:
// the affinity stays pendingDeletion, the block stays the host's and full.  A later AutoAssign of
// the host is at its cap and must fail (ErrBlockLimit) rather than claim a second block.
func capRace(h *rt.H, s *st) {
	bs := rt.Pick(h, []int{31, 30})
	size := 1 << uint(32-bs)
	s.exec(fmt.Sprintf("new hosts=2 handles=3 pools=10.0.0.0/29/%d pattrs=E:WT:n0:s0:A zones=0,0 cool=0 strict=1 maxblk=1 resv=-", bs))
	step := func(tid int) bool {
		if s.r.Sc.Peek(tid) == nil {
			return false
		}
		s.exec(fmt.Sprintf("step %d none", tid))
		return true
	}
	s.exec("begin 1 autoassign host=0 h=1 n=1 use=W ns=0 req=- maxblk=0")
	s.exec("quiesce")
	s.exec("begin 2 relbyhandle host=0 h=1")
	s.exec("quiesce")
	s.exec("begin 3 relhostaff host=0 empty=1")
	s.exec(fmt.Sprintf("begin 4 autoassign host=0 h=2 n=%d use=W ns=0 req=- maxblk=0", size))
	if h.Chance(0.75) {
		// the releaser reads affinity and (empty) block, then the host fills the block
		for i := 0; i < 12; i++ {
			c := s.r.Sc.Peek(3)
			if c == nil || (c.Verb != ipamkv.VGet && c.Verb != ipamkv.VList) {
				break
			}
			step(3)
		}
		for step(4) {
		}
	} else {
		for i := 0; i < 200; i++ {
			rd := s.r.Ready()
			if len(rd) == 0 {
				break
			}
			step(rd[h.Intn(len(rd))])
		}
	}
	s.exec("quiesce")
	s.exec(fmt.Sprintf("begin 5 autoassign host=0 h=3 n=%d use=W ns=0 req=- maxblk=0", 1+h.Intn(2)))
	s.exec("quiesce")
	if h.Chance(0.5) {
		s.exec("begin 6 autoassign host=1 h=3 n=1 use=W ns=0 req=- maxblk=0")
		s.exec("quiesce")
	}
}

func main() {
	h := rt.New()
	defer h.Close()
	h.Rule = "case = 1-3 pools (enabled/disabled, allowed uses W/T/L, node selector none/zone=1/zone=2, namespace selector none/team=1/team=2, automatic/manual, 2-4 blocks of 2-4 addresses), 2-3 hosts with zone labels, 0-3 reservations (/32,/31,/30), strict affinity on/off, global+per-request block caps; " +
		"one case in six is the cap race (strict, cap 1: release-if-empty of the host's block races the host's own AutoAssign that fills it, then the host asks again at its cap); otherwise 4..13 ops over {allowed-pools query, AutoAssign(use, namespace, requested pools, cap), ReleaseByHandle}; non-trivial = a case where some request failed and some succeeded, or a reservation was skipped"
	run := func(ops []string, tag string) {
		h.Case(tag)
		s := &st{h: h, r: ipamkv.NewRunner(h)}
		s.r.OnEnd = s.onEnd
		if ops == nil {
			capRace(h, s)
			ops = s.r.Cmds
		}
		for _, op := range ops {
			if len(s.r.Cmds) > 0 && tag == "race" {
				break
			}
			s.exec(op)
		}
		if s.r.Env != nil {
			okc, errc := 0, 0
			for _, res := range s.r.Res {
				if res.Err != nil {
					errc++
				} else {
					okc++
				}
			}
			if okc > 0 && errc > 0 {
				h.Nontrivial(strings.Join(ops, ";"))
			}
		}
		h.Sample()
	}
	if h.Replay != "" {
		run(h.ReplayLines(), "replay")
		return
	}
	for i := 0; i < h.N; i++ {
		if h.Intn(6) == 0 {
			run(nil, "race")
		} else {
			run(gen(h), "gen")
		}
	}
}
