// C45 correspondence harness: drives the real lib/datastructures/hashring.Ring[string].
package main

import (
	"encoding/hex"
	"fmt"
	"sort"
	"strconv"
	"strings"

	"github.com/zeebo/xxh3"

	"github.com/projectcalico/calico/lib/datastructures/hashring"

	"verif/harness/rt"
)

// ---- hashers ------------------------------------------------------------------

// hashSpec names a deterministic byte-slice hasher; the same spec is used for
// the ring under test, the dry-run ring that collects the hash table, and the
// fresh rings of the oracle.
type hashSpec struct {
	kind string // "xxh3" (real default) | "tiny" (few distinct values -> collisions) | "edge" (values at 0 / 2^64-1 / 2^63)
	mod  uint64
}

var edgeVals = []uint64{0, 1, 2, ^uint64(0), ^uint64(0) - 1, 1 << 63, 1<<63 - 1, 1<<63 + 1, 1 << 32, 12345}

func (s hashSpec) fn() hashring.Hash {
	switch s.kind {
	case "tiny":
		return func(b []byte) uint64 { return xxh3.Hash(b) % s.mod }
	case "edge":
		return func(b []byte) uint64 { return edgeVals[xxh3.Hash(b)%s.mod%uint64(len(edgeVals))] }
	case "spread": // few values spread over the whole ring incl. wrap-around
		return func(b []byte) uint64 { return (xxh3.Hash(b) % s.mod) * (^uint64(0)/s.mod + 1) }
	}
	return xxh3.Hash
}

type state struct {
	r        *hashring.Ring[string]
	spec     hashSpec
	replicas int
	probes   int
	useDflt  bool              // ring built WITHOUT WithHash (real default hasher)
	shadow   map[string]string // the current member set according to the property: inserted and not removed
	table    map[string]uint64 // hashed bytes -> value, as observed on the real code in the dry run
}

func xs(b string) string { return "x" + hex.EncodeToString([]byte(b)) }
func unx(t string) string {
	b, err := hex.DecodeString(strings.TrimPrefix(t, "x"))
	if err != nil {
		panic(err)
	}
	return string(b)
}

func newRing(spec hashSpec, replicas, probes int, dflt bool, rec func([]byte, uint64)) (r *hashring.Ring[string], panicked bool) {
	defer func() {
		if recover() != nil {
			r, panicked = nil, true
		}
	}()
	opts := []hashring.Option{hashring.WithReplicas(replicas), hashring.WithProbes(probes)}
	if !dflt || rec != nil {
		f := spec.fn()
		opts = append(opts, hashring.WithHash(func(b []byte) uint64 {
			v := f(b)
			if rec != nil {
				rec(b, v)
			}
			return v
		}))
	}
	return hashring.New[string](opts...), false
}

func safeLookup(r *hashring.Ring[string], k string) (v string, ok bool, panicked bool) {
	defer func() {
		if recover() != nil {
			panicked = true
		}
	}()
	v, ok = r.Lookup(k)
	return
}

// oracle: the property evaluated on the real code after a Lookup.
func (s *state) oracle(h *rt.H, key string, got string, ok bool) {
	in := map[string]any{"hash": s.spec.kind, "mod": s.spec.mod, "replicas": s.replicas, "probes": s.probes, "lookup": xs(key), "members": shadowList(s.shadow)}
	if ok != (len(s.shadow) > 0) {
		h.OracleFail("none-iff-empty", "Lookup's bool is not (member set non-empty)", in)
		return
	}
	if !ok {
		return
	}
	isMember := false
	for _, v := range s.shadow {
		if v == got {
			isMember = true
		}
	}
	if !isMember {
		h.OracleFail("owner-not-member", "Lookup returned a value that belongs to no current member", in)
	}
	// fresh rings built from the final member set only, in two different insertion orders
	keys := make([]string, 0, len(s.shadow))
	for k := range s.shadow {
		keys = append(keys, k)
	}
	sort.Strings(keys)
	for pass := 0; pass < 2; pass++ {
		fr, _ := newRing(s.spec, s.replicas, s.probes, s.useDflt, nil)
		if pass == 0 {
			for _, k := range keys {
				fr.Insert(k, s.shadow[k])
			}
		} else {
			for i := len(keys) - 1; i >= 0; i-- {
				fr.Insert(keys[i], s.shadow[keys[i]])
			}
		}
		want, wok, _ := safeLookup(fr, key)
		if wok != ok || want != got {
			in["history_owner"] = got
			in["fresh_owner"] = want
			h.OracleFail("history-dependent", "Lookup on the ring with history differs from a ring built fresh from the current member set", in)
			return
		}
	}
}

func shadowList(m map[string]string) []string {
	var out []string
	for k, v := range m {
		out = append(out, xs(k)+"="+v)
	}
	sort.Strings(out)
	return out
}

// exec runs one protocol op on the REAL code and returns the canonical output.
func exec(h *rt.H, s *state, op string) string {
	w := strings.Fields(op)
	switch w[0] {
	case "new":
		// new <replicas> <probes>; the hasher is chosen by the preceding `cfg` pseudo-state (set by run)
		rp, _ := strconv.Atoi(w[1])
		pr, _ := strconv.Atoi(w[2])
		s.replicas, s.probes = rp, pr
		s.shadow = map[string]string{}
		r, panicked := newRing(s.spec, rp, pr, s.useDflt, nil)
		s.r = r
		if panicked {
			return "panic"
		}
		return "ok"
	case "h":
		return "ok"
	case "cfg":
		c := parseCfg(w[1])
		s.spec, s.useDflt = c.spec, c.dflt
		return "ok"
	}
	if s.r == nil {
		return "bad-op"
	}
	switch w[0] {
	case "ins":
		k := unx(w[1])
		s.r.Insert(k, w[2])
		s.shadow[k] = w[2]
		return "ok"
	case "rem":
		k := unx(w[1])
		s.r.Remove(k)
		delete(s.shadow, k)
		return "ok"
	case "len":
		n := s.r.Len()
		if n != len(s.shadow) {
			h.OracleFail("len", "Len() differs from the size of the current member set", map[string]any{"len": n, "members": shadowList(s.shadow)})
		}
		return strconv.Itoa(n)
	case "look":
		k := unx(w[1])
		v, ok, panicked := safeLookup(s.r, k)
		if panicked {
			h.OracleFail("lookup-panic", "Lookup panicked (index out of range) on a ring reached by Insert/Remove/Lookup", map[string]any{"hash": s.spec.kind, "mod": s.spec.mod, "replicas": s.replicas, "probes": s.probes, "lookup": xs(k), "members": shadowList(s.shadow)})
			return "panic"
		}
		s.oracle(h, k, v, ok)
		if !ok {
			return "none"
		}
		if v == "" {
			return "zero"
		}
		return "owner " + v
	case "dump":
		sorted, mem, del, hs, ks := s.r.VerifDump()
		sort.Strings(mem)
		sort.Strings(del)
		for i := range mem {
			mem[i] = xs(mem[i])
		}
		for i := range del {
			del[i] = xs(del[i])
		}
		es := make([]string, len(hs))
		for i := range hs {
			es[i] = strconv.FormatUint(hs[i], 10) + ":" + xs(ks[i])
		}
		b := "0"
		if sorted {
			b = "1"
		}
		return fmt.Sprintf("%s m=%s d=%s e=%s", b, strings.Join(mem, ","), strings.Join(del, ","), strings.Join(es, ","))
	}
	panic("unknown op " + op)
}

// ---- generator ----------------------------------------------------------------

var keyPool = []string{"", "a", "b", "ab", "abc", "a\x00", "a\x00\x00\x00\x00\x00", "node-1", "node-2", "node-10", "node-11",
	"\xff", "\xff\xfe", "z", "10.0.0.1", "10.0.0.2", "10.0.0.10", "ip-10-0-0-1.ec2.internal", "ip-10-0-0-2.ec2.internal", "\x00"}

type caseCfg struct {
	spec hashSpec
	dflt bool
}

func genCase(h *rt.H) (caseCfg, []string) {
	var cfg caseCfg
	switch h.Intn(6) {
	case 0:
		cfg.spec = hashSpec{kind: "xxh3"}
		cfg.dflt = true
	case 1:
		cfg.spec = hashSpec{kind: "xxh3"}
	case 2:
		cfg.spec = hashSpec{kind: "tiny", mod: uint64(1 + h.Intn(6))}
	case 3:
		cfg.spec = hashSpec{kind: "edge", mod: uint64(2 + h.Intn(12))}
	case 4:
		cfg.spec = hashSpec{kind: "spread", mod: uint64(2 + h.Intn(9))}
	default:
		cfg.spec = hashSpec{kind: "tiny", mod: uint64(7 + h.Intn(60))}
	}
	rp := rt.Pick(h, []int{1, 1, 2, 3, 5, 8})
	pr := rt.Pick(h, []int{1, 1, 2, 3, 7})
	if h.Intn(40) == 0 {
		rp = rt.Pick(h, []int{0, -1, 100})
	}
	if h.Intn(40) == 0 {
		pr = rt.Pick(h, []int{0, -2, 21})
	}
	ops := []string{fmt.Sprintf("new %d %d", rp, pr)}
	if rp < 1 || pr < 1 {
		return cfg, ops
	}
	nk := 1 + h.Intn(8)
	keys := make([]string, nk)
	for i := range keys {
		if h.Intn(4) == 0 {
			b := make([]byte, h.Intn(4))
			for j := range b {
				b[j] = byte(rt.Pick(h, []int{0, 1, 0x61, 0x62, 0xff}))
			}
			keys[i] = string(b)
		} else {
			keys[i] = rt.Pick(h, keyPool)
		}
	}
	queries := append([]string{}, keys...)
	for i := 0; i < 3; i++ {
		queries = append(queries, rt.Pick(h, keyPool), fmt.Sprintf("10.1.%d.%d", h.Intn(3), h.Intn(256)))
	}
	ver := 0
	val := func(k string) string {
		if h.Intn(3) == 0 { // felix inserts value == key (hostname); keep it a safe token
			return "k" + hex.EncodeToString([]byte(k))
		}
		ver++
		return fmt.Sprintf("v%d", ver)
	}
	n := 3 + h.Intn(30)
	if h.Tier == "thorough" && h.Intn(4) == 0 {
		n += h.Intn(60)
	}
	for i := 0; i < n; i++ {
		k := rt.Pick(h, keys)
		switch h.Intn(16) {
		case 0, 1, 2, 3, 4:
			ops = append(ops, "ins "+xs(k)+" "+val(k))
		case 5, 6, 7:
			ops = append(ops, "rem "+xs(k))
		case 8: // remove then re-insert before any Lookup sweeps (deferred-sweep path)
			ops = append(ops, "rem "+xs(k), "ins "+xs(k)+" "+val(k))
		case 9: // (sometimes) remove everything, then look
			if h.Intn(3) != 0 {
				ops = append(ops, "ins "+xs(k)+" "+val(k))
				continue
			}
			for _, kk := range keys {
				ops = append(ops, "rem "+xs(kk))
			}
			ops = append(ops, "look "+xs(rt.Pick(h, queries)))
		case 10:
			ops = append(ops, "len")
		case 11:
			ops = append(ops, "dump")
		default:
			ops = append(ops, "look "+xs(rt.Pick(h, queries)))
		}
	}
	ops = append(ops, "look "+xs(rt.Pick(h, queries)), "dump")
	return cfg, ops
}

// genLargeCase: a ring with 12..40 members (more than the small cases ever have), ONE or two members removed
// — systematically the member that owns the LOWEST virtual node (entries[0]) — and lookups of keys chosen to
// wrap around the top of the table (keys that a fresh ring maps to that lowest-node owner) plus random keys.
// The generator asks a scratch ring of the real code which member owns entries[0] (VerifDump after a Lookup).
func genLargeCase(h *rt.H) (caseCfg, []string) {
	var cfg caseCfg
	switch h.Intn(5) {
	case 0:
		cfg.spec = hashSpec{kind: "xxh3"}
		cfg.dflt = true
	case 1, 2:
		cfg.spec = hashSpec{kind: "xxh3"}
	case 3:
		cfg.spec = hashSpec{kind: "spread", mod: uint64(20 + h.Intn(200))}
	default:
		cfg.spec = hashSpec{kind: "tiny", mod: uint64(50 + h.Intn(5000))}
	}
	n := 12 + h.Intn(29)
	rp := rt.Pick(h, []int{1, 1, 2, 3, 5, 10, 20})
	if h.Intn(8) == 0 {
		rp = 100 // felix's configuration
	}
	pr := 1 + h.Intn(4)
	ops := []string{fmt.Sprintf("new %d %d", rp, pr)}
	names := make([]string, n)
	style := h.Intn(3)
	for i := range names {
		switch style {
		case 0:
			names[i] = fmt.Sprintf("node-%d", i)
		case 1:
			names[i] = fmt.Sprintf("ip-10-0-%d-%d.ec2.internal", i/7, i*13%251)
		default:
			names[i] = fmt.Sprintf("n%x", h.Rng.Uint32())
		}
	}
	for _, k := range names {
		ops = append(ops, "ins "+xs(k)+" k"+hex.EncodeToString([]byte(k)))
	}
	// scratch ring of the real code: who owns the lowest virtual node, and which keys map to that member
	scratch, _ := newRing(cfg.spec, rp, pr, cfg.dflt, nil)
	for _, k := range names {
		scratch.Insert(k, k)
	}
	scratch.Lookup("warm-up")
	_, _, _, _, ks := scratch.VerifDump()
	lowest, highest := ks[0], ks[len(ks)-1]
	var wrapKeys, others []string
	for i := 0; i < 400 && (len(wrapKeys) < 6 || len(others) < 6); i++ {
		q := fmt.Sprintf("10.%d.%d.%d", h.Intn(4), h.Intn(256), h.Intn(256))
		if v, _ := scratch.Lookup(q); v == lowest && len(wrapKeys) < 6 {
			wrapKeys = append(wrapKeys, q)
		} else if len(others) < 6 {
			others = append(others, q)
		}
	}
	queries := append(append([]string{}, wrapKeys...), others...)
	lookAll := func() {
		for _, q := range queries {
			ops = append(ops, "look "+xs(q))
		}
	}
	ops = append(ops, "look "+xs(queries[0]), "len")
	// remove the owner of entries[0] (and sometimes a second member: the owner of the highest node or a random one)
	victims := []string{lowest}
	switch h.Intn(4) {
	case 0:
		victims = append(victims, highest)
	case 1:
		victims = append(victims, rt.Pick(h, names))
	case 2:
		victims = []string{rt.Pick(h, names)}
	}
	for _, v := range victims {
		ops = append(ops, "rem "+xs(v))
	}
	ops = append(ops, "len")
	lookAll()
	if h.Intn(2) == 0 {
		ops = append(ops, "dump")
	}
	// put a victim back (revives the pending delete, or re-inserts after the sweep), remove another member, look again
	ops = append(ops, "ins "+xs(victims[0])+" v-back")
	ops = append(ops, "rem "+xs(rt.Pick(h, names)))
	lookAll()
	// every member in turn: remove, look up the wrap keys, re-insert (bounded)
	for i := 0; i < 4; i++ {
		k := rt.Pick(h, names)
		ops = append(ops, "rem "+xs(k), "look "+xs(queries[h.Intn(len(queries))]), "look "+xs(queries[0]), "ins "+xs(k)+" k"+hex.EncodeToString([]byte(k)))
	}
	ops = append(ops, "len", "look "+xs(queries[0]))
	if rp <= 20 {
		ops = append(ops, "dump")
	}
	return cfg, ops
}

func cfgLine(c caseCfg) string {
	d := 0
	if c.dflt {
		d = 1
	}
	return fmt.Sprintf("%s:%d:%d", c.spec.kind, c.spec.mod, d)
}

func parseCfg(t string) caseCfg {
	p := strings.Split(t, ":")
	if len(p) != 3 {
		return caseCfg{spec: hashSpec{kind: "xxh3"}}
	}
	m, _ := strconv.ParseUint(p[1], 10, 64)
	return caseCfg{spec: hashSpec{kind: p[0], mod: m}, dflt: p[2] == "1"}
}

// dryRun executes the ops on a scratch ring whose hasher records every call
// the REAL code makes, so that the model can be given the same hash function
// as a table (the model itself decides when and what to hash).
func dryRun(cfg caseCfg, ops []string) (order []string, table map[string]uint64) {
	table = map[string]uint64{}
	var r *hashring.Ring[string]
	rec := func(b []byte, v uint64) {
		k := string(b)
		if _, ok := table[k]; !ok {
			table[k] = v
			order = append(order, k)
		}
	}
	for _, op := range ops {
		w := strings.Fields(op)
		switch w[0] {
		case "new":
			rp, _ := strconv.Atoi(w[1])
			pr, _ := strconv.Atoi(w[2])
			r, _ = newRing(cfg.spec, rp, pr, false, rec)
		case "ins":
			if r != nil {
				r.Insert(unx(w[1]), w[2])
			}
		case "rem":
			if r != nil {
				r.Remove(unx(w[1]))
			}
		case "look":
			if r != nil {
				safeLookup(r, unx(w[1]))
			}
		}
	}
	return
}

func main() {
	h := rt.New()
	defer h.Close()
	h.Rule = "case = one ring (hasher: real xxh3 default / xxh3 via WithHash / tiny-range / edge-values / spread; replicas 1..8 (rarely 0,-1,100), probes 1..7 (rarely 0,-2,21)) + 1..8 keys (pool incl. empty, NUL bytes, shared prefixes, 0xff) + 3..32 ops over {ins, rem, rem+ins, rem-all+look, look, len, dump}; " +
		"every 100th case is a LARGE ring: 12..40 members, replicas 1..20 (sometimes 100), probes 1..4, the member owning the lowest virtual node (asked from a scratch ring of the real code) and/or other members removed, lookups of keys that wrap to that member plus random keys, re-insert, remove-look-reinsert rounds; oracle after every look: fresh rings from the current member set in two orders give the same owner; distinct = distinct (cfg, op sequence); non-trivial = case has a lookup on a ring with >=2 live members after at least one remove"
	run := func(cfg caseCfg, ops []string, tag string) {
		// ops[0] is `new`; insert the hash table lines right after it
		order, table := dryRun(cfg, ops)
		full := []string{"cfg " + cfgLine(cfg), ops[0]}
		for _, b := range order {
			full = append(full, fmt.Sprintf("h %s %d", xs(b), table[b]))
		}
		full = append(full, ops[1:]...)
		h.Case(tag)
		s := &state{spec: cfg.spec, useDflt: cfg.dflt}
		removed, nontriv := false, false
		for _, op := range full {
			out := exec(h, s, op)
			h.Op(op, out)
			k := strings.Fields(op)[0]
			if k != "h" && k != "cfg" {
				h.Count("op:" + k)
			}
			if k == "rem" {
				removed = true
			}
			if k == "look" {
				h.Count("look:" + strings.Fields(out)[0])
				if removed && len(s.shadow) >= 2 {
					nontriv = true
				}
			}
		}
		h.Count("hash:" + cfg.spec.kind)
		if nontriv {
			h.Nontrivial(cfgLine(cfg) + ";" + strings.Join(ops, ";"))
		}
		h.Sample()
	}
	if h.Replay != "" {
		// replay files carry the cfg as a `cfg <spec>` first line
		lines := h.ReplayLines()
		cfg := caseCfg{spec: hashSpec{kind: "xxh3"}}
		var ops []string
		for _, l := range lines {
			if strings.HasPrefix(l, "cfg ") {
				cfg = parseCfg(strings.Fields(l)[1])
				continue
			}
			if strings.HasPrefix(l, "h ") {
				continue // regenerated by the dry run
			}
			ops = append(ops, l)
		}
		if len(ops) == 0 || !strings.HasPrefix(ops[0], "new ") {
			ops = append([]string{"new 1 1"}, ops...)
		}
		run(cfg, ops, "replay")
		return
	}
	for i := 0; i < h.N; i++ {
		if i%100 == 50 { // large rings: every 100th case (quick tier: 25 cases, a few hundred lookups)
			cfg, ops := genLargeCase(h)
			h.Count("case:large-ring")
			run(cfg, ops, "large")
			continue
		}
		cfg, ops := genCase(h)
		run(cfg, ops, "gen")
	}
}
