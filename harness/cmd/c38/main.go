// C38 correspondence harness: the REAL CNI IPAM plugin commands cmdAdd / cmdDel
// (cni-plugin/pkg/ipamplugin, reached through the verif export + the
// verifClientHook in utils.CreateClient) run, one command at a time, against
// the in-memory CAS backend of package ipamkv with a datastore error injected at
// arbitrary backend calls of the IPAM client (so: at every IPAM call and inside
// it).  Histories: add / del / repeated del / del after failed or partial add /
// dual-stack add where one family cannot be served / legacy workload-ID
// allocations.
//
// Every backend call is a `step` line replayed through the shared Lean model
// (Cas.step); `cni` lines carry the command outcome, which the model's DEL /
// ADD decision logic must reproduce; the property's oracle is evaluated on the
// real store after every command.
package main

import (
	"context"
	"encoding/json"
	"fmt"
	"os"
	"path/filepath"
	"strings"

	"github.com/containernetworking/cni/pkg/skel"
	v3 "github.com/projectcalico/api/pkg/apis/projectcalico/v3"

	"github.com/projectcalico/calico/cni-plugin/pkg/ipamplugin"
	"github.com/projectcalico/calico/cni-plugin/pkg/types"
	bapi "github.com/projectcalico/calico/libcalico-go/lib/backend/api"
	"github.com/projectcalico/calico/libcalico-go/lib/backend/model"
	client "github.com/projectcalico/calico/libcalico-go/lib/clientv3"
	"github.com/projectcalico/calico/libcalico-go/lib/ipam"
	cnet "github.com/projectcalico/calico/libcalico-go/lib/net"
	"github.com/projectcalico/calico/libcalico-go/lib/options"

	"verif/harness/ipamkv"
	"verif/harness/rt"
)

// fakeClient is the client.Interface handed to the plugin: only IPAM() and
// IPPools().List are ever reached on the paths driven here.
type fakeClient struct {
	client.Interface
	ipam  ipam.Interface
	pools fakePools
}

func (f *fakeClient) IPAM() ipam.Interface            { return f.ipam }
func (f *fakeClient) IPPools() client.IPPoolInterface { return f.pools }

// recIPAM records the IPAM-level calls the plugin makes (the "IPAM call sequence").
type recIPAM struct {
	ipam.Interface
	s *st
}

func (r recIPAM) AutoAssign(ctx context.Context, args ipam.AutoAssignArgs) (*ipam.IPAMAssignments, *ipam.IPAMAssignments, error) {
	v4, v6, err := r.Interface.AutoAssign(ctx, args)
	r.s.rec.aaCalled = true
	r.s.rec.aaErr = err != nil
	r.s.rec.got4 = v4 != nil && len(v4.IPs) > 0
	r.s.rec.got6 = v6 != nil && len(v6.IPs) > 0
	for _, as := range []*ipam.IPAMAssignments{v4, v6} {
		if as != nil {
			for _, ip := range as.IPs {
				b, o := r.s.r.Env.Locate(cnet.IP{IP: ip.IP})
				r.s.rec.ret = append(r.s.rec.ret, [2]int{b, o})
			}
		}
	}
	return v4, v6, err
}

func (r recIPAM) ReleaseIPs(ctx context.Context, ips ...ipam.ReleaseOptions) ([]cnet.IP, []ipam.ReleaseOptions, error) {
	for _, o := range ips {
		if strings.Contains(o.Address, ":") {
			r.s.rec.rel6 = true
		} else {
			r.s.rec.rel4 = true
		}
	}
	return r.Interface.ReleaseIPs(ctx, ips...)
}

func (r recIPAM) ReleaseByHandle(ctx context.Context, handleID string) error {
	r.s.rec.relMarks = append(r.s.rec.relMarks, len(r.s.r.Sc.Log))
	r.s.rec.relHandles = append(r.s.rec.relHandles, handleID)
	return r.Interface.ReleaseByHandle(ctx, handleID)
}

type record struct {
	aaCalled, aaErr, got4, got6, rel4, rel6 bool
	relMarks                                []int // step-log length at the start of each ReleaseByHandle
	relHandles                              []string
	start                                   int             // step-log length when the command began
	ret                                     [][2]int        // addresses AutoAssign returned to the plugin
	before                                  map[[2]int]bool // addresses live under the container's handle when the command began
}

type fakePools struct {
	client.IPPoolInterface
	env *ipamkv.Env
}

func (p fakePools) List(ctx context.Context, opts options.ListOptions) (*v3.IPPoolList, error) {
	return &v3.IPPoolList{Items: append([]v3.IPPool(nil), p.env.Pools...)}, nil
}

type st struct {
	h       *rt.H
	r       *ipamkv.Runner
	cur     bapi.Client // backend client of the command being executed (commands run one at a time)
	lock    string
	nCont   int
	addOK   map[int][2]int // container -> families (v4,v6) of its last successful add not yet deleted
	pending map[int]string // tid -> "cniadd c v4 v6" / "cnidel c"
	rec     record
	// held: per container, the addresses returned by its LAST successful ADD, until its next DEL attempt
	held map[int]map[[2]int]bool
}

func (s *st) fail(sig, desc string, info map[string]any) {
	info["replay_ops"] = append([]string(nil), s.r.Cmds...)
	s.h.OracleFail(sig, desc, info)
}

func (s *st) cniArgs(c int, k8s bool, host int, v4, v6 bool) *skel.CmdArgs {
	b := func(x bool) *string {
		v := "false"
		if x {
			v = "true"
		}
		return &v
	}
	conf := map[string]any{
		"cniVersion": "0.3.1", "name": "net", "type": "calico", "nodename": s.r.Env.Hosts[host],
		"log_level": "error", "ipam_lock_file": s.lock,
		"ipam": map[string]any{"type": "calico-ipam", "assign_ipv4": *b(v4), "assign_ipv6": *b(v6)},
	}
	data, _ := json.Marshal(conf)
	args := ""
	if k8s {
		args = fmt.Sprintf("K8S_POD_NAMESPACE=ns;K8S_POD_NAME=pod%d", c)
	}
	return &skel.CmdArgs{ContainerID: fmt.Sprintf("c%d", c), Netns: "/proc/self/ns/net", IfName: "eth0", Args: args, StdinData: data}
}

// handle ids of container c: 3c+1 = "net.c<c>" (what cmdAdd allocates under),
// 3c+2 = "c<c>" (legacy workload id, cni orchestrator), 3c+3 = "ns.pod<c>" (legacy, k8s)
func hnames(n int) string {
	var out []string
	for c := 0; c < n; c++ {
		out = append(out, fmt.Sprintf("net.c%d", c), fmt.Sprintf("c%d", c), fmt.Sprintf("ns.pod%d", c))
	}
	return strings.Join(out, ",")
}

func (s *st) extraOp(r *ipamkv.Runner, tid int, op string, kv map[string]string) (*ipamkv.ThreadCtx, func(c bapi.Client) *ipamkv.OpResult) {
	c := atoi(kv["c"])
	host := atoi(kv["host"])
	if c < 0 || c >= s.nCont || host < 0 || host >= len(r.Env.Hosts) {
		return nil, nil
	}
	k8s := kv["k8s"] == "1"
	switch op {
	case "cniadd":
		v4, v6 := kv["v4"] == "1", kv["v6"] == "1"
		s.pending[tid] = fmt.Sprintf("cniadd %d %s %s", c, kv["v4"], kv["v6"])
		return &ipamkv.ThreadCtx{Op: "cniadd", Host: host, Handle: 3*c + 1}, func(bc bapi.Client) *ipamkv.OpResult {
			s.cur = bc
			s.rec = record{start: len(r.Sc.Log), before: s.liveSet(3*c + 1)}
			return &ipamkv.OpResult{Err: ipamplugin.VerifCmdAdd(s.cniArgs(c, k8s, host, v4, v6))}
		}
	case "cnidel":
		s.pending[tid] = fmt.Sprintf("cnidel %d", c)
		return &ipamkv.ThreadCtx{Op: "releasebyhandle", Host: host, Handle: 3*c + 1}, func(bc bapi.Client) *ipamkv.OpResult {
			s.cur = bc
			s.rec = record{start: len(r.Sc.Log)}
			return &ipamkv.OpResult{Err: ipamplugin.VerifCmdDel(s.cniArgs(c, k8s, host, true, true))}
		}
	}
	return nil, nil
}

func atoi(x string) int { n := 0; fmt.Sscanf(x, "%d", &n); return n }

// liveSet: the addresses live for handle id hid in the store.
func (s *st) liveSet(hid int) map[[2]int]bool {
	m := map[[2]int]bool{}
	for b, blk := range s.r.Env.World().Blocks {
		for o, sl := range blk.Slots {
			if sl == fmt.Sprintf("L%d", hid) {
				m[[2]int{b, o}] = true
			}
		}
	}
	return m
}

// checkHeld: every address returned by a successful ADD that no DEL has followed is still
// allocated to the container's handle in the datastore.
func (s *st) checkHeld(after string) {
	for c, set := range s.held {
		live := s.liveSet(3*c + 1)
		for a := range set {
			if !live[a] {
				s.fail("held-address-released-without-del", "an address returned by a successful CNI ADD is no longer allocated to the container's handle although no DEL was issued for the container",
					map[string]any{"container": c, "block": a[0], "ordinal": a[1], "after": after})
				delete(set, a)
			}
		}
	}
}

// liveOf: live addresses per family (v4, v6) recorded for handle id hid.
func (s *st) liveOf(hid int) (int, int) {
	e := s.r.Env
	w := e.World()
	v4, v6 := 0, 0
	for b, blk := range w.Blocks {
		n := blk.LiveCount(hid)
		if e.Blocks[b].Version() == 4 {
			v4 += n
		} else {
			v6 += n
		}
	}
	return v4, v6
}

// onEnd: the command returned; emit the `cni` line and evaluate the oracle.
func (s *st) onEnd(r *ipamkv.Runner, tid int, ctx *ipamkv.ThreadCtx, res *ipamkv.OpResult) {
	p, ok := s.pending[tid]
	if !ok {
		s.checkHeld(ctx.Op)
		return
	}
	delete(s.pending, tid)
	w := strings.Fields(p)
	c := atoi(w[1])
	status := "ok"
	if res.Err != nil {
		status = "err"
	}
	h1v4, h1v6 := s.liveOf(3*c + 1)
	switch w[0] {
	case "cnidel":
		delete(s.held, c) // a DEL (even a failing one) may legitimately release them
		// observation for the model: which handles were released, in which order their blocks were
		// visited, where faults were injected; output: verdict, program-model agreement, what remains
		h1, h2 := 3*c+1, 3*c+2
		if s.isK8s(tid) {
			h2 = 3*c + 3
		}
		log := r.Sc.Log
		var flags strings.Builder
		seg := func(i int) (int, int) {
			lo, hi := len(log), len(log)
			if i < len(s.rec.relMarks) {
				lo = s.rec.relMarks[i]
			}
			if i+1 < len(s.rec.relMarks) {
				hi = s.rec.relMarks[i+1]
			}
			return lo, hi
		}
		order := func(i int) string {
			lo, hi := seg(i)
			var bs []string
			for _, stp := range log[lo:hi] {
				if bk, ok := stp.Key.(model.BlockKey); ok && stp.Verb == ipamkv.VGet && stp.TID == tid {
					bs = append(bs, fmt.Sprint(r.Env.BlockOf[model.IPNetFromPrefix(bk.CIDR).String()]))
				}
			}
			if len(bs) == 0 {
				return "-"
			}
			return strings.Join(bs, ",")
		}
		for _, stp := range log[s.rec.start:] {
			if stp.TID == tid {
				if stp.Fault == ipamkv.FError {
					flags.WriteByte('1')
				} else {
					flags.WriteByte('0')
				}
			}
		}
		a1, b1 := s.liveOf(h1)
		a2, b2 := s.liveOf(h2)
		s.h.Op(fmt.Sprintf("cni %d del %s h1=%d h2=%d o1=%s o2=%s f=x%s", tid, status, h1, h2, order(0), order(1), flags.String()),
			fmt.Sprintf("%s prog=1 remaining=%d", status, a1+b1+a2+b2))
		s.h.Count("del:" + status)
		if res.Err == nil {
			// which handle forms this DEL releases: net.c<c>, and c<c> or ns.pod<c>
			for _, k := range []int{1, 2, 3} {
				a, b := s.liveOf(3*c + k)
				legacyOther := (k == 2 && ctx.Host >= 0 && s.isK8s(tid)) || (k == 3 && !s.isK8s(tid))
				if a+b > 0 && !legacyOther {
					s.fail("del-leaves-address", "a successful CNI DEL left an address allocated under one of the container's handles", map[string]any{"container": c, "handle": r.Env.Handles[3*c+k-1], "v4": a, "v6": b})
				}
			}
			delete(s.addOK, c)
		}
	case "cniadd":
		b01 := func(b bool) string {
			if b {
				return "1"
			}
			return "0"
		}
		s.h.Op(fmt.Sprintf("cni %d add w4=%s w6=%s aaerr=%s g4=%s g6=%s", tid, w[2], w[3], b01(s.rec.aaErr || !s.rec.aaCalled), b01(s.rec.got4), b01(s.rec.got6)),
			fmt.Sprintf("%s rel4=%s rel6=%s nonrel=%s", status, b01(s.rec.rel4), b01(s.rec.rel6), map[bool]string{true: "1", false: "-"}[res.Err == nil]))
		s.h.Count("add:" + status)
		if res.Err != nil {
			after := s.liveSet(3*c + 1)
			for a := range s.rec.before {
				if !after[a] && !s.held[c][a] {
					// leftovers of earlier FAILED adds may be cleaned up by anybody: not part of C38
					s.h.Count("obs:failed-add-released-leftover")
				}
			}
			// a failed dual-stack ADD leaves nothing of ITS OWN behind: when AutoAssign itself reported
			// no error (half success) and no datastore error was injected into this command, none of
			// the addresses it was given is still allocated
			faulted := false
			for _, stp := range r.Sc.Log[s.rec.start:] {
				if stp.TID == tid && stp.Fault != ipamkv.FNone {
					faulted = true
				}
			}
			if s.rec.aaCalled && !s.rec.aaErr && !faulted {
				for _, a := range s.rec.ret {
					if after[a] && !s.rec.before[a] {
						s.fail("failed-add-keeps-own-address", "a failed CNI ADD (one family short, no datastore error) left an address of its own allocated",
							map[string]any{"container": c, "block": a[0], "ordinal": a[1]})
					}
				}
			}
		} else {
			// the addresses of the LAST successful ADD are what the container uses until DEL
			s.held[c] = map[[2]int]bool{}
			for _, a := range s.rec.ret {
				s.held[c][a] = true
			}
		}
		if res.Err == nil {
			if (w[2] == "1" && h1v4 < 1) || (w[3] == "1" && h1v6 < 1) {
				s.fail("add-missing-family", "a successful CNI ADD does not hold an address for every requested family", map[string]any{"container": c, "v4": h1v4, "v6": h1v6, "want4": w[2], "want6": w[3]})
			}
		} else if h1v4+h1v6 > 0 {
			s.h.Count("add:failed-but-retains") // allowed by the property (DEL must clean it up)
		}
	}
	s.checkHeld(w[0])
}

var k8sOf = map[int]bool{}

// (checkHeld runs after every CNI command: see the end of onEnd)

func (s *st) isK8s(tid int) bool { return k8sOf[tid] }

func (s *st) exec(line string) {
	w := strings.Fields(line)
	if len(w) == 0 {
		return
	}
	switch w[0] {
	case "new":
		s.r.Exec(line)
		s.addOK, s.pending = map[int][2]int{}, map[int]string{}
		s.held = map[int]map[[2]int]bool{}
		k8sOf = map[int]bool{}
	case "begin":
		if len(w) >= 3 && (w[2] == "cniadd" || w[2] == "cnidel") {
			k8sOf[atoi(w[1])] = strings.Contains(line, " k8s=1")
		}
		s.r.Exec(line)
	case "cni":
		// observation line of a previous run: regenerated by onEnd
	default:
		s.r.Exec(line)
	}
}

// gen: one case as a command script; fault positions are `step <tid> err` lines
// interleaved by the online scheduler below.
// drive runs the started command to completion (optionally with injected errors).
func (s *st) drive(faulty bool) {
	h := s.h
	for steps := 0; steps < 400; steps++ {
		rd := s.r.Ready()
		if len(rd) == 0 {
			break
		}
		f := ipamkv.FNone
		if faulty && h.Chance(0.03) {
			f = ipamkv.FError
		}
		s.exec(fmt.Sprintf("step %d %s", rd[0], f))
	}
	s.exec("quiesce")
}

// runHalfFail: ADD(success) ... one family gets exhausted by other workloads ... ADD for the SAME
// container (half fails: dual-stack rollback) ... more commands ... DEL.
func (s *st) runHalfFail() {
	h := s.h
	s.nCont = 2
	v4pool := rt.Pick(h, []string{"10.0.0.0/30/31", "10.0.0.0/29/30"})
	v6pool := rt.Pick(h, []string{"fd00::/126/127", "fd00::/125/126"})
	s.exec(fmt.Sprintf("new hosts=2 handles=6 hnames=%s pools=%s;%s cool=%d strict=0 maxblk=0", hnames(2), v4pool, v6pool, rt.Pick(h, []int{0, 0, 300})))
	k8s := h.Intn(2)
	tid := 0
	next := func(line string) {
		tid++
		s.exec(fmt.Sprintf(line, tid))
		s.drive(false)
	}
	first6 := h.Intn(3) > 0
	next(fmt.Sprintf("begin %%d cniadd c=0 host=0 k8s=%d v4=1 v6=%d", k8s, map[bool]int{true: 1, false: 0}[first6]))
	if h.Chance(0.3) {
		next(fmt.Sprintf("begin %%d cniadd c=1 host=0 k8s=%d v4=1 v6=1", k8s))
	}
	// exhaust one family with foreign allocations
	if h.Chance(0.5) {
		next("begin %d autoassign host=" + fmt.Sprint(h.Intn(2)) + " h=0 n=0 n6=8")
	} else {
		next("begin %d autoassign host=" + fmt.Sprint(h.Intn(2)) + " h=0 n=8")
	}
	// second dual-stack ADD for the same container: one family short
	next(fmt.Sprintf("begin %%d cniadd c=0 host=0 k8s=%d v4=1 v6=1", k8s))
	for i := 0; i < h.Intn(3); i++ {
		switch h.Intn(3) {
		case 0:
			next(fmt.Sprintf("begin %%d cniadd c=%d host=0 k8s=%d v4=1 v6=1", h.Intn(2), k8s))
		case 1:
			next(fmt.Sprintf("begin %%d cnidel c=1 host=0 k8s=%d", k8s))
		default:
			next("begin %d autoassign host=0 h=0 n=1")
		}
	}
	next(fmt.Sprintf("begin %%d cnidel c=0 host=0 k8s=%d", k8s))
}

func (s *st) runGenerated() {
	h := s.h
	if h.Intn(4) == 0 {
		s.runHalfFail()
		return
	}
	nc := 1 + h.Intn(2)
	s.nCont = nc
	v6pool := rt.Pick(h, []string{"fd00::/125/126", "fd00::/126/127", "fd00::/125/126"})
	v4pool := rt.Pick(h, []string{"10.0.0.0/29/30", "10.0.0.0/30/31", "10.0.0.0/30/31", "10.0.0.0/28/30"})
	pools := v4pool + ";" + v6pool
	if h.Chance(0.15) {
		pools = v4pool // no IPv6 pool at all: dual-stack adds must fail and roll back
	}
	s.exec(fmt.Sprintf("new hosts=2 handles=%d hnames=%s pools=%s cool=%d strict=%d maxblk=0", 3*nc, hnames(nc), pools, rt.Pick(h, []int{0, 0, 300}), h.Intn(2)))
	faulty := h.Intn(3) > 0
	tid := 0
	nops := 3 + h.Intn(8)
	k8s := h.Intn(2)
	for i := 0; i < nops; i++ {
		tid++
		c := h.Intn(nc)
		host := 0
		if h.Chance(0.15) {
			host = 1
		}
		var line string
		switch k := h.Intn(13); {
		case k < 5:
			v4, v6 := 1, h.Intn(2)
			if h.Chance(0.15) {
				v4, v6 = 0, 1
			}
			line = fmt.Sprintf("begin %d cniadd c=%d host=%d k8s=%d v4=%d v6=%d", tid, c, host, k8s, v4, v6)
		case k < 10:
			line = fmt.Sprintf("begin %d cnidel c=%d host=%d k8s=%d", tid, c, host, k8s)
		case k < 11:
			// legacy allocation under the workload-ID handle form (v2.x upgrade path of cmdDel)
			hid := 3*c + 2
			if k8s == 1 {
				hid = 3*c + 3
			}
			line = fmt.Sprintf("begin %d autoassign host=%d h=%d n=1", tid, host, hid)
		default:
			// somebody else's addresses, to exhaust small pools
			if h.Chance(0.5) {
				line = fmt.Sprintf("begin %d autoassign host=%d h=0 n=%d", tid, host, 1+h.Intn(3))
			} else {
				line = fmt.Sprintf("begin %d autoassign host=%d h=0 n=0 n6=%d", tid, host, 1+h.Intn(4))
			}
		}
		s.exec(line)
		for steps := 0; steps < 400; steps++ {
			rd := s.r.Ready()
			if len(rd) == 0 {
				break
			}
			f := ipamkv.FNone
			if faulty && h.Chance(0.03) {
				f = ipamkv.FError
			}
			s.exec(fmt.Sprintf("step %d %s", rd[0], f))
		}
		s.exec("quiesce")
	}
}

func main() {
	h := rt.New()
	defer h.Close()
	devnull, _ := os.OpenFile(os.DevNull, os.O_WRONLY, 0)
	os.Stdout = devnull // cmdAdd prints the CNI result to stdout
	h.Rule = "case = 1-2 containers on 2 hosts, one small IPv4 pool (+ usually one small IPv6 pool), cooldown 0/300s; 3..10 SEQUENTIAL commands over {CNI ADD (v4 / v4+v6 / v6), CNI DEL, legacy workload-ID allocation, foreign allocations exhausting the pool}, " +
		"one case in four is a half-failure script: ADD(success) ... foreign allocations exhaust one family ... dual-stack ADD for the SAME container (rollback) ... DEL; of the others two thirds with a datastore error injected at 3% of the backend calls of the IPAM client (so at / inside every IPAM call); non-trivial = a case containing a failed command and a successful DEL"
	mk := func() *st {
		s := &st{h: h, r: ipamkv.NewRunner(h), lock: filepath.Join(h.OutDir, "ipam.lock"), nCont: 2}
		s.r.ExtraOp = s.extraOp
		s.r.OnEnd = s.onEnd
		ipamplugin.VerifSetClient(func(conf types.NetConf) client.Interface {
			return &fakeClient{ipam: recIPAM{Interface: s.r.Client(s.cur), s: s}, pools: fakePools{env: s.r.Env}}
		})
		return s
	}
	if h.Replay != "" {
		h.Case("replay")
		s := mk()
		for _, l := range h.ReplayLines() {
			if strings.HasPrefix(l, "new ") {
				if i := strings.Index(l, "handles="); i >= 0 {
					s.nCont = atoi(l[i+8:]) / 3
				}
			}
			s.exec(l)
		}
		if s.r.Env != nil {
			s.exec("quiesce")
		}
		h.Sample()
		return
	}
	for i := 0; i < h.N; i++ {
		h.Case("gen")
		s := mk()
		s.runGenerated()
		failed, delok := false, false
		for _, res := range s.r.Res {
			if res.Err != nil {
				failed = true
			}
		}
		for _, c := range s.r.Cmds {
			if strings.Contains(c, "cnidel") {
				delok = true
			}
		}
		if failed && delok {
			h.Nontrivial(strings.Join(s.r.Cmds, ";"))
		}
		h.Sample()
	}
}
