// C08 correspondence harness: drives the real felix/rules ProtoRuleToIptablesRules and the real
// iptables / nftables text renderers; evaluates the REAL rendered text on packets (nfsem) and
// compares with the reference rule-match semantics (the property's own oracle).
package main

import (
	"fmt"
	"math/big"
	"net/netip"
	"sort"
	"strconv"
	"strings"

	googleproto "google.golang.org/protobuf/proto"

	"github.com/projectcalico/calico/felix/generictables"
	"github.com/projectcalico/calico/felix/ipsets"
	"github.com/projectcalico/calico/felix/proto"
	"github.com/projectcalico/calico/felix/rules"
	"github.com/projectcalico/calico/felix/types"

	"verif/harness/nfsem"
	"verif/harness/rt"
)

const (
	mAccept, mPass, mScratch0, mScratch1, mDrop = 0x80, 0x100, 0x200, 0x400, 0x800
)

type state struct {
	nft       bool
	v6        bool
	flowLogs  bool
	reject    bool
	owner     rules.RuleOwnerType
	dir       rules.RuleDir
	idx       int
	id        string
	untracked bool
	r         *rules.DefaultRuleRenderer
	rule      *proto.Rule
	text      []string
	table     *nfsem.Table
	panicked  bool
}

var ipsV4 = ipsets.NewIPVersionConfig(ipsets.IPFamilyV4, "cali", nil, nil)
var ipsV6 = ipsets.NewIPVersionConfig(ipsets.IPFamilyV6, "cali", nil, nil)

func (s *state) mkRenderer() {
	deny := "DROP"
	if s.reject {
		deny = "REJECT"
	}
	cfg := rules.Config{
		IPSetConfigV4: ipsV4, IPSetConfigV6: ipsV6,
		MarkAccept: mAccept, MarkPass: mPass, MarkScratch0: mScratch0, MarkScratch1: mScratch1, MarkDrop: mDrop,
		MarkEndpoint: 0xff000, MarkNonCaliEndpoint: 0x1000,
		FilterDenyAction: deny, FlowLogsEnabled: s.flowLogs,
	}
	s.r = rules.NewRenderer(cfg, s.nft).(*rules.DefaultRuleRenderer)
}

func (s *state) setName(id string) string {
	if s.v6 {
		return ipsV6.NameForMainIPSet(id)
	}
	return ipsV4.NameForMainIPSet(id)
}

// polID: the policy identity used for every rule; the op line carries the name (used here) and the
// real ID() string (used by the model for the NFLOG prefix).
func polID(name string) *types.PolicyID {
	return &types.PolicyID{Name: name, Kind: "GlobalNetworkPolicy"}
}

// ---- rule encoding ----------------------------------------------------------

func encProto(p *proto.Protocol) string {
	switch v := p.NumberOrName.(type) {
	case *proto.Protocol_Name:
		return "n:" + v.Name
	case *proto.Protocol_Number:
		return "u:" + strconv.Itoa(int(v.Number))
	}
	panic("proto")
}

func encPorts(ps []*proto.PortRange) string {
	o := make([]string, len(ps))
	for i, p := range ps {
		if p.First == p.Last {
			o[i] = strconv.Itoa(int(p.First))
		} else {
			o[i] = fmt.Sprintf("%d-%d", p.First, p.Last)
		}
	}
	return strings.Join(o, ",")
}

func encRule(r *proto.Rule) string {
	var f []string
	add := func(k, v string) {
		if v != "" {
			f = append(f, k+"="+v)
		}
	}
	act := r.Action
	if act == "" {
		act = "-"
	}
	add("act", act)
	if r.IpVersion != 0 {
		add("ipv", strconv.Itoa(int(r.IpVersion)))
	}
	if r.Protocol != nil {
		add("p", encProto(r.Protocol))
	}
	if r.NotProtocol != nil {
		add("np", encProto(r.NotProtocol))
	}
	add("sn", strings.Join(r.SrcNet, ","))
	add("nsn", strings.Join(r.NotSrcNet, ","))
	add("dn", strings.Join(r.DstNet, ","))
	add("ndn", strings.Join(r.NotDstNet, ","))
	add("sp", encPorts(r.SrcPorts))
	add("nsp", encPorts(r.NotSrcPorts))
	add("dp", encPorts(r.DstPorts))
	add("ndp", encPorts(r.NotDstPorts))
	add("snp", strings.Join(r.SrcNamedPortIpSetIds, ","))
	add("dnp", strings.Join(r.DstNamedPortIpSetIds, ","))
	add("nsnp", strings.Join(r.NotSrcNamedPortIpSetIds, ","))
	add("ndnp", strings.Join(r.NotDstNamedPortIpSetIds, ","))
	add("ss", strings.Join(r.SrcIpSetIds, ","))
	add("ds", strings.Join(r.DstIpSetIds, ","))
	add("dips", strings.Join(r.DstIpPortSetIds, ","))
	add("nss", strings.Join(r.NotSrcIpSetIds, ","))
	add("nds", strings.Join(r.NotDstIpSetIds, ","))
	switch v := r.Icmp.(type) {
	case *proto.Rule_IcmpType:
		add("icmp", strconv.Itoa(int(v.IcmpType)))
	case *proto.Rule_IcmpTypeCode:
		add("icmp", fmt.Sprintf("%d/%d", v.IcmpTypeCode.Type, v.IcmpTypeCode.Code))
	}
	switch v := r.NotIcmp.(type) {
	case *proto.Rule_NotIcmpType:
		add("nicmp", strconv.Itoa(int(v.NotIcmpType)))
	case *proto.Rule_NotIcmpTypeCode:
		add("nicmp", fmt.Sprintf("%d/%d", v.NotIcmpTypeCode.Type, v.NotIcmpTypeCode.Code))
	}
	return strings.Join(f, ";")
}

func decProto(s string) *proto.Protocol {
	if strings.HasPrefix(s, "n:") {
		return &proto.Protocol{NumberOrName: &proto.Protocol_Name{Name: s[2:]}}
	}
	n, _ := strconv.Atoi(s[2:])
	return &proto.Protocol{NumberOrName: &proto.Protocol_Number{Number: int32(n)}}
}

func decPorts(s string) []*proto.PortRange {
	var o []*proto.PortRange
	for _, f := range strings.Split(s, ",") {
		ab := strings.SplitN(f, "-", 2)
		a, _ := strconv.Atoi(ab[0])
		b := a
		if len(ab) == 2 {
			b, _ = strconv.Atoi(ab[1])
		}
		o = append(o, &proto.PortRange{First: int32(a), Last: int32(b)})
	}
	return o
}

func decRule(s string) *proto.Rule {
	r := &proto.Rule{}
	for _, kv := range strings.Split(s, ";") {
		p := strings.SplitN(kv, "=", 2)
		k, v := p[0], p[1]
		l := strings.Split(v, ",")
		switch k {
		case "act":
			if v != "-" {
				r.Action = v
			}
		case "ipv":
			n, _ := strconv.Atoi(v)
			r.IpVersion = proto.IPVersion(n)
		case "p":
			r.Protocol = decProto(v)
		case "np":
			r.NotProtocol = decProto(v)
		case "sn":
			r.SrcNet = l
		case "nsn":
			r.NotSrcNet = l
		case "dn":
			r.DstNet = l
		case "ndn":
			r.NotDstNet = l
		case "sp":
			r.SrcPorts = decPorts(v)
		case "nsp":
			r.NotSrcPorts = decPorts(v)
		case "dp":
			r.DstPorts = decPorts(v)
		case "ndp":
			r.NotDstPorts = decPorts(v)
		case "snp":
			r.SrcNamedPortIpSetIds = l
		case "dnp":
			r.DstNamedPortIpSetIds = l
		case "nsnp":
			r.NotSrcNamedPortIpSetIds = l
		case "ndnp":
			r.NotDstNamedPortIpSetIds = l
		case "ss":
			r.SrcIpSetIds = l
		case "ds":
			r.DstIpSetIds = l
		case "dips":
			r.DstIpPortSetIds = l
		case "nss":
			r.NotSrcIpSetIds = l
		case "nds":
			r.NotDstIpSetIds = l
		case "icmp", "nicmp":
			tc := strings.SplitN(v, "/", 2)
			t, _ := strconv.Atoi(tc[0])
			if len(tc) == 2 {
				c, _ := strconv.Atoi(tc[1])
				if k == "icmp" {
					r.Icmp = &proto.Rule_IcmpTypeCode{IcmpTypeCode: &proto.IcmpTypeAndCode{Type: int32(t), Code: int32(c)}}
				} else {
					r.NotIcmp = &proto.Rule_NotIcmpTypeCode{NotIcmpTypeCode: &proto.IcmpTypeAndCode{Type: int32(t), Code: int32(c)}}
				}
			} else if k == "icmp" {
				r.Icmp = &proto.Rule_IcmpType{IcmpType: int32(t)}
			} else {
				r.NotIcmp = &proto.Rule_NotIcmpType{NotIcmpType: int32(t)}
			}
		default:
			panic("unknown rule key " + k)
		}
	}
	return r
}

// ---- packets and the reference semantics ------------------------------------------------

type pktEnv struct {
	p                  nfsem.Pkt
	ss, ds, sps, dps   []string // dataplane set names containing src / dst / (src,proto,sport) / (dst,proto,dport)
}

func legal(s string) string { return strings.ReplaceAll(s, ":", "-") }

func has(l []string, n string) bool {
	for _, x := range l {
		if legal(x) == legal(n) {
			return true
		}
	}
	return false
}

func (pe *pktEnv) env(nft bool) *nfsem.Env {
	return &nfsem.Env{
		NFT: nft,
		IPSet: func(name string, a *big.Int) bool {
			return (a.Cmp(pe.p.Src) == 0 && has(pe.ss, name)) || (a.Cmp(pe.p.Dst) == 0 && has(pe.ds, name))
		},
		IPPort: func(name string, a *big.Int, pr, port int) bool {
			return (a.Cmp(pe.p.Src) == 0 && pr == pe.p.Proto && port == pe.p.Sport && has(pe.sps, name)) ||
				(a.Cmp(pe.p.Dst) == 0 && pr == pe.p.Proto && port == pe.p.Dport && has(pe.dps, name))
		},
	}
}

func protoIs(p *proto.Protocol, n int) bool {
	switch v := p.NumberOrName.(type) {
	case *proto.Protocol_Name:
		k, ok := nfsem.DefaultProtoNum[v.Name]
		return ok && k == n
	case *proto.Protocol_Number:
		return int(uint8(v.Number)) == n
	}
	return false
}

func isPortProto(n int) bool { return n == 6 || n == 17 || n == 132 || n == 33 || n == 136 }

func inRanges(rs []*proto.PortRange, p int) bool {
	for _, r := range rs {
		if int(r.First) <= p && p <= int(r.Last) {
			return true
		}
	}
	return false
}

// ruleMatches: the REFERENCE semantics of a policy rule (what the rule says), written from the
// data model, independent of the renderer.  Mirrors Policy.ruleMatches in Lean.
func (s *state) ruleMatches(r *proto.Rule, pe *pktEnv) bool {
	e := pe.env(s.nft)
	p := &pe.p
	want := 4
	if p.V6 {
		want = 6
	}
	if r.IpVersion != 0 && int(r.IpVersion) != want {
		return false
	}
	if r.Protocol != nil && !protoIs(r.Protocol, p.Proto) {
		return false
	}
	netHas := func(c string, a *big.Int) bool {
		return strings.Contains(c, ":") == p.V6 && nfsem.CidrContains(c, p.V6, a)
	}
	anyNet := func(l []string, a *big.Int) bool {
		for _, c := range l {
			if netHas(c, a) {
				return true
			}
		}
		return false
	}
	// Felix's documented reading of a rule without explicit ipVersion: a CIDR field (positive or
	// negated) all of whose CIDRs are of the other family makes the rule a rule for that family.
	for _, l := range [][]string{r.SrcNet, r.NotSrcNet, r.DstNet, r.NotDstNet} {
		if len(l) == 0 {
			continue
		}
		ok := false
		for _, c := range l {
			if strings.Contains(c, ":") == p.V6 {
				ok = true
			}
		}
		if !ok {
			return false
		}
	}
	if len(r.SrcNet) > 0 && !anyNet(r.SrcNet, p.Src) {
		return false
	}
	if len(r.DstNet) > 0 && !anyNet(r.DstNet, p.Dst) {
		return false
	}
	if anyNet(r.NotSrcNet, p.Src) || anyNet(r.NotDstNet, p.Dst) {
		return false
	}
	for _, id := range r.SrcIpSetIds {
		if !e.IPSet(s.setName(id), p.Src) {
			return false
		}
	}
	for _, id := range r.DstIpSetIds {
		if !e.IPSet(s.setName(id), p.Dst) {
			return false
		}
	}
	for _, id := range r.NotSrcIpSetIds {
		if e.IPSet(s.setName(id), p.Src) {
			return false
		}
	}
	for _, id := range r.NotDstIpSetIds {
		if e.IPSet(s.setName(id), p.Dst) {
			return false
		}
	}
	for _, id := range r.DstIpPortSetIds {
		if !e.IPPort(s.setName(id), p.Dst, p.Proto, p.Dport) {
			return false
		}
	}
	ports := func(rs []*proto.PortRange, named []string, a *big.Int, port int) bool {
		if len(rs) == 0 && len(named) == 0 {
			return true
		}
		if isPortProto(p.Proto) && inRanges(rs, port) {
			return true
		}
		for _, id := range named {
			if e.IPPort(s.setName(id), a, p.Proto, port) {
				return true
			}
		}
		return false
	}
	if !ports(r.SrcPorts, r.SrcNamedPortIpSetIds, p.Src, p.Sport) || !ports(r.DstPorts, r.DstNamedPortIpSetIds, p.Dst, p.Dport) {
		return false
	}
	if len(r.NotSrcPorts) > 0 && !(isPortProto(p.Proto) && !inRanges(r.NotSrcPorts, p.Sport)) {
		return false
	}
	if len(r.NotDstPorts) > 0 && !(isPortProto(p.Proto) && !inRanges(r.NotDstPorts, p.Dport)) {
		return false
	}
	for _, id := range r.NotSrcNamedPortIpSetIds {
		if e.IPPort(s.setName(id), p.Src, p.Proto, p.Sport) {
			return false
		}
	}
	for _, id := range r.NotDstNamedPortIpSetIds {
		if e.IPPort(s.setName(id), p.Dst, p.Proto, p.Dport) {
			return false
		}
	}
	if r.NotProtocol != nil && protoIs(r.NotProtocol, p.Proto) {
		return false
	}
	icmpProto := 1
	if p.V6 {
		icmpProto = 58
	}
	isIcmp := p.Proto == icmpProto
	switch v := r.Icmp.(type) {
	case *proto.Rule_IcmpType:
		if !(isIcmp && p.IcmpType == int(uint8(v.IcmpType))) {
			return false
		}
	case *proto.Rule_IcmpTypeCode:
		if !(isIcmp && p.IcmpType == int(uint8(v.IcmpTypeCode.Type)) && p.IcmpCode == int(uint8(v.IcmpTypeCode.Code))) {
			return false
		}
	}
	switch v := r.NotIcmp.(type) {
	case *proto.Rule_NotIcmpType:
		if !(isIcmp && p.IcmpType != int(uint8(v.NotIcmpType))) {
			return false
		}
	case *proto.Rule_NotIcmpTypeCode:
		if !(isIcmp && !(p.IcmpType == int(uint8(v.NotIcmpTypeCode.Type)) && p.IcmpCode == int(uint8(v.NotIcmpTypeCode.Code)))) {
			return false
		}
	}
	return true
}

// positiveBlocks: how many positive match blocks the renderer needs for this rule (after IP version filtering).
func (s *state) positiveBlocks(r *proto.Rule) int {
	v := uint8(4)
	if s.v6 {
		v = 6
	}
	rc := rules.FilterRuleToIPVersion(v, r)
	if rc == nil {
		return 0
	}
	n := 0
	if len(rules.SplitPortList(rc.SrcPorts))+len(rc.SrcNamedPortIpSetIds) > 1 {
		n++
	}
	if len(rules.SplitPortList(rc.DstPorts))+len(rc.DstNamedPortIpSetIds) > 1 {
		n++
	}
	if len(rc.SrcNet) > 1 {
		n++
	}
	if len(rc.DstNet) > 1 {
		n++
	}
	return n
}

func (s *state) render(h *rt.H, r *proto.Rule) string {
	s.rule = r
	s.panicked = false
	s.table = nil
	var rs []generictables.Rule
	func() {
		defer func() {
			if e := recover(); e != nil {
				s.panicked = true
			}
		}()
		v := uint8(4)
		if s.v6 {
			v = 6
		}
		rs = s.r.ProtoRuleToIptablesRules(r, v, s.owner, s.dir, s.idx, polID(s.id), "default", s.untracked)
	}()
	if s.panicked {
		return "panic"
	}
	v := uint8(4)
	if s.v6 {
		v = 6
	}
	s.text = nil
	for _, gr := range rs {
		t := nfsem.RenderRule(s.nft, v, "c", gr)
		if t == "panic" {
			s.panicked = true
			return "panic"
		}
		s.text = append(s.text, t)
	}
	s.table = nfsem.Parse(s.nft, []nfsem.TextChain{{Name: "c", Rules: s.text}})
	return nfsem.Esc(strings.Join(s.text, " ;; "))
}

func parseBig(sv string) *big.Int {
	b, ok := new(big.Int).SetString(sv, 10)
	if !ok {
		panic("bad int " + sv)
	}
	return b
}

func lst(sv string) []string {
	if sv == "-" {
		return nil
	}
	return strings.Split(sv, ",")
}

func (s *state) evalPkt(h *rt.H, w []string) string {
	pe := &pktEnv{}
	pe.p.V6 = s.v6
	pe.p.Proto, _ = strconv.Atoi(w[1])
	pe.p.Src, pe.p.Dst = parseBig(w[2]), parseBig(w[3])
	pe.p.Sport, _ = strconv.Atoi(w[4])
	pe.p.Dport, _ = strconv.Atoi(w[5])
	pe.p.IcmpType, _ = strconv.Atoi(w[6])
	pe.p.IcmpCode, _ = strconv.Atoi(w[7])
	pe.p.Ct = "NEW"
	pe.ss, pe.ds, pe.sps, pe.dps = lst(w[8]), lst(w[9]), lst(w[10]), lst(w[11])
	m := s.ruleMatches(s.rule, pe)
	mb := "0"
	if m {
		mb = "1"
	}
	if s.panicked || s.table == nil {
		return "panic match=" + mb
	}
	res := s.table.Eval(pe.env(s.nft), &pe.p, 4, "c", 0)
	hexm := func(v uint32) string {
		if v == 0 {
			return "0"
		}
		return fmt.Sprintf("%#x", v)
	}
	out := fmt.Sprintf("%s mark=%s match=%s", res.Kind, hexm(res.Mark), mb)
	// ---- the property's own oracle on the REAL rendered rules ----
	act := s.rule.Action
	deny := "drop"
	if s.reject {
		deny = "reject"
	}
	var wantKind string
	var wantBits uint32
	switch {
	case !m || act == "log":
		wantKind, wantBits = "return", 0
	case act == "" || act == "allow":
		wantKind, wantBits = "return", mAccept
	case act == "pass" || act == "next-tier":
		wantKind, wantBits = "return", mPass
	case act == "deny":
		wantKind, wantBits = deny, mDrop
	default:
		return out
	}
	if res.Kind != wantKind || res.Mark&(mAccept|mPass|mDrop) != wantBits {
		sig := s.classify(pe, m, res, act, deny)
		h.OracleFail(sig, fmt.Sprintf("rule %q (nft=%v v6=%v) on packet %v: rule matches=%v but rendered rules give %s mark=%#x (want %s, verdict bits %#x)",
			encRule(s.rule), s.nft, s.v6, w[1:], m, res.Kind, res.Mark, wantKind, wantBits),
			map[string]any{"rule": encRule(s.rule), "nft": s.nft, "v6": s.v6, "pkt": strings.Join(w, " "), "rendered": s.text})
	}
	return out
}

// matchOutcome: what the rendered rules must do when the rule matches.
func matchOutcome(act, deny string) (string, uint32, bool) {
	switch act {
	case "", "allow":
		return "return", mAccept, true
	case "pass", "next-tier":
		return "return", mPass, true
	case "deny":
		return deny, mDrop, true
	}
	return "return", 0, false // log: indistinguishable from no match
}

// evalRule renders `r` with the real renderer and evaluates it on the packet.
func (s *state) evalRule(r *proto.Rule, pe *pktEnv) (res nfsem.Result, ok bool) {
	defer func() {
		if e := recover(); e != nil {
			ok = false
		}
	}()
	v := uint8(4)
	if s.v6 {
		v = 6
	}
	rs := s.r.ProtoRuleToIptablesRules(r, v, s.owner, s.dir, s.idx, polID(s.id), "default", s.untracked)
	var text []string
	for _, gr := range rs {
		t := nfsem.RenderRule(s.nft, v, "c", gr)
		if t == "panic" {
			return res, false
		}
		text = append(text, t)
	}
	tbl := nfsem.Parse(s.nft, []nfsem.TextChain{{Name: "c", Rules: text}})
	return tbl.Eval(pe.env(s.nft), &pe.p, 4, "c", 0), true
}

// classify decides whether an oracle failure is EXACTLY one of the two recorded findings; anything
// else (including other misbehaviour of rules that also have >=3 blocks / a negated ICMP type+code)
// is reported as a new violation.
func (s *state) classify(pe *pktEnv, m bool, res nfsem.Result, act, deny string) string {
	mk, mb, distinguishable := matchOutcome(act, deny)
	if !distinguishable {
		return "render-not-exact"
	}
	actsMatched := func(r nfsem.Result) bool { return r.Kind == mk && r.Mark&(mAccept|mPass|mDrop) == mb }
	v := uint8(4)
	if s.v6 {
		v = 6
	}
	// (1) three-positive-blocks: the rule does not match, the rendering acts as if it did, and the rule
	// WOULD match if the 3rd-and-later positive blocks were ignored (i.e. blocks 1 and 2 pass and every
	// other criterion holds: exactly the packets for which ThisBlockPass is left set by block 2).
	if !m && actsMatched(res) && s.positiveBlocks(s.rule) >= 3 {
		if rc := rules.FilterRuleToIPVersion(v, s.rule); rc != nil {
			k := 0
			if len(rules.SplitPortList(rc.SrcPorts))+len(rc.SrcNamedPortIpSetIds) > 1 {
				if k >= 2 {
					rc.SrcPorts, rc.SrcNamedPortIpSetIds = nil, nil
				}
				k++
			}
			if len(rules.SplitPortList(rc.DstPorts))+len(rc.DstNamedPortIpSetIds) > 1 {
				if k >= 2 {
					rc.DstPorts, rc.DstNamedPortIpSetIds = nil, nil
				}
				k++
			}
			if len(rc.SrcNet) > 1 {
				if k >= 2 {
					rc.SrcNet = nil
				}
				k++
			}
			if len(rc.DstNet) > 1 {
				if k >= 2 {
					rc.DstNet = nil
				}
				k++
			}
			if s.ruleMatches(rc, pe) {
				return "three-positive-blocks"
			}
		}
	}
	// (2) nft negated ICMP type+code: the rule matches, the nft rendering does not act, the packet is ICMP
	// with exactly one of (type == T), (code == C), and the same rule WITHOUT the negated ICMP criterion
	// is rendered and acts correctly.
	if nic, ok := s.rule.NotIcmp.(*proto.Rule_NotIcmpTypeCode); ok && s.nft && m && !actsMatched(res) {
		icmpProto := 1
		if s.v6 {
			icmpProto = 58
		}
		tEq := pe.p.IcmpType == int(uint8(nic.NotIcmpTypeCode.Type))
		cEq := pe.p.IcmpCode == int(uint8(nic.NotIcmpTypeCode.Code))
		if pe.p.Proto == icmpProto && tEq != cEq {
			cp := googleproto.Clone(s.rule).(*proto.Rule)
			cp.NotIcmp = nil
			if r2, ok := s.evalRule(cp, pe); ok && actsMatched(r2) && s.ruleMatches(cp, pe) {
				return "nft-not-icmp-type-code"
			}
		}
	}
	return "render-not-exact"
}

func exec(h *rt.H, s *state, op string) string {
	w := strings.Fields(op)
	switch w[0] {
	case "cfg":
		s.nft, s.v6, s.flowLogs, s.reject = w[1] == "nft", w[2] == "6", w[3] == "1", w[4] == "1"
		s.owner, s.dir = rules.RuleOwnerType(w[5][0]), rules.RuleDir(w[6][0])
		s.idx, _ = strconv.Atoi(w[7])
		s.id, s.untracked = w[8], w[9] == "1"
		s.mkRenderer()
		s.rule, s.table, s.panicked, s.text = &proto.Rule{}, nfsem.Parse(s.nft, []nfsem.TextChain{{Name: "c"}}), false, nil
		return "ok"
	case "rule":
		return s.render(h, decRule(w[1]))
	case "pkt":
		return s.evalPkt(h, w)
	}
	panic("unknown op " + op)
}

// ---- generator ---------------------------------------------------------------

var cidrs4 = []string{"10.0.0.0/8", "10.1.0.0/16", "10.1.2.0/24", "10.1.2.3/32", "10.1.2.4/31", "192.168.0.0/16", "0.0.0.0/0", "0.0.0.0/1", "128.0.0.0/1", "172.16.0.0/12", "10.1.2.3"}
var cidrs6 = []string{"fd00::/8", "fd00:1::/32", "fd00:1::5/128", "::/0", "2001:db8::/32", "fd00:1:0:2::/64", "fe80::/10", "8000::/1"}
var setIDs = []string{"s1", "s2", "s:abc", "s:thisIsAVeryLongIPSetIdentifierXYZ", "s:thisIsAVeryLongIPSetIdentifierXYW"}
var npIDs = []string{"n:p1", "n:p2", "n:p3"}

func pickSome[T any](h *rt.H, xs []T, max int) []T {
	n := h.Intn(max + 1)
	var o []T
	for i := 0; i < n; i++ {
		o = append(o, rt.Pick(h, xs))
	}
	return o
}

func genPorts(h *rt.H, big bool) []*proto.PortRange {
	n := h.Intn(4)
	if big {
		n = 8 + h.Intn(30)
	}
	var o []*proto.PortRange
	for i := 0; i < n; i++ {
		a := rt.Pick(h, []int{0, 1, 22, 80, 443, 1000, 8080, 65535, h.Intn(65536)})
		b := a
		if h.Chance(0.4) {
			b = a + h.Intn(200)
			if b > 65535 {
				b = 65535
			}
		}
		o = append(o, &proto.PortRange{First: int32(a), Last: int32(b)})
	}
	return o
}

func genNets(h *rt.H, v6rule bool, max int) []string {
	pool := cidrs4
	if v6rule {
		pool = cidrs6
	}
	o := pickSome(h, pool, max)
	if len(o) > 0 && h.Chance(0.15) { // mixed-family list
		if v6rule {
			o = append(o, rt.Pick(h, cidrs4))
		} else {
			o = append(o, rt.Pick(h, cidrs6))
		}
	}
	return o
}

func genRule(h *rt.H, v6 bool) *proto.Rule {
	r := &proto.Rule{}
	r.Action = rt.Pick(h, []string{"", "allow", "allow", "deny", "deny", "pass", "next-tier", "log"})
	if h.Chance(0.01) {
		r.Action = "bogus"
	}
	switch h.Intn(6) {
	case 0:
		r.IpVersion = 4
	case 1:
		r.IpVersion = 6
	}
	fam6 := v6
	if h.Chance(0.08) {
		fam6 = !fam6
	}
	portProto := false
	if h.Chance(0.75) {
		switch h.Intn(8) {
		case 0, 1, 2:
			r.Protocol = &proto.Protocol{NumberOrName: &proto.Protocol_Name{Name: rt.Pick(h, []string{"tcp", "udp", "sctp"})}}
			portProto = true
		case 3:
			r.Protocol = &proto.Protocol{NumberOrName: &proto.Protocol_Number{Number: int32(rt.Pick(h, []int{6, 17, 132, 262}))}}
			portProto = true
		case 4, 5:
			if v6 {
				r.Protocol = &proto.Protocol{NumberOrName: &proto.Protocol_Name{Name: "icmpv6"}}
			} else {
				r.Protocol = &proto.Protocol{NumberOrName: &proto.Protocol_Name{Name: "icmp"}}
			}
		case 6:
			r.Protocol = &proto.Protocol{NumberOrName: &proto.Protocol_Number{Number: int32(rt.Pick(h, []int{1, 58, 47, 2, 0}))}}
		default:
			r.Protocol = &proto.Protocol{NumberOrName: &proto.Protocol_Name{Name: "udplite"}}
		}
	} else if h.Chance(0.3) {
		r.NotProtocol = &proto.Protocol{NumberOrName: &proto.Protocol_Name{Name: rt.Pick(h, []string{"tcp", "udp", "icmp"})}}
		if h.Bool() {
			r.NotProtocol = &proto.Protocol{NumberOrName: &proto.Protocol_Number{Number: int32(rt.Pick(h, []int{6, 17, 1}))}}
		}
	}
	if h.Chance(0.5) {
		r.SrcNet = genNets(h, fam6, 3)
	}
	if h.Chance(0.5) {
		r.DstNet = genNets(h, fam6, 3)
	}
	if h.Chance(0.3) {
		r.NotSrcNet = genNets(h, fam6, 3)
	}
	if h.Chance(0.3) {
		r.NotDstNet = genNets(h, fam6, 3)
	}
	if portProto || h.Chance(0.05) {
		if h.Chance(0.5) {
			r.SrcPorts = genPorts(h, h.Chance(0.3))
		}
		if h.Chance(0.6) {
			r.DstPorts = genPorts(h, h.Chance(0.3))
		}
		if h.Chance(0.25) {
			r.NotSrcPorts = genPorts(h, h.Chance(0.3))
		}
		if h.Chance(0.25) {
			r.NotDstPorts = genPorts(h, h.Chance(0.3))
		}
		if h.Chance(0.3) {
			r.SrcNamedPortIpSetIds = pickSome(h, npIDs, 2)
		}
		if h.Chance(0.3) {
			r.DstNamedPortIpSetIds = pickSome(h, npIDs, 2)
		}
		if h.Chance(0.15) {
			r.NotSrcNamedPortIpSetIds = pickSome(h, npIDs, 2)
		}
		if h.Chance(0.15) {
			r.NotDstNamedPortIpSetIds = pickSome(h, npIDs, 2)
		}
		if h.Chance(0.15) {
			r.DstIpPortSetIds = pickSome(h, npIDs, 2)
		}
	}
	if h.Chance(0.3) {
		r.SrcIpSetIds = pickSome(h, setIDs, 2)
	}
	if h.Chance(0.3) {
		r.DstIpSetIds = pickSome(h, setIDs, 2)
	}
	if h.Chance(0.2) {
		r.NotSrcIpSetIds = pickSome(h, setIDs, 2)
	}
	if h.Chance(0.2) {
		r.NotDstIpSetIds = pickSome(h, setIDs, 2)
	}
	isIcmp := r.Protocol != nil && !portProto
	if isIcmp && h.Chance(0.6) || h.Chance(0.03) {
		t, c := int32(rt.Pick(h, []int{0, 3, 8, 128, 135, 264})), int32(rt.Pick(h, []int{0, 1, 3, 256}))
		switch h.Intn(4) {
		case 0:
			r.Icmp = &proto.Rule_IcmpType{IcmpType: t}
		case 1:
			r.Icmp = &proto.Rule_IcmpTypeCode{IcmpTypeCode: &proto.IcmpTypeAndCode{Type: t, Code: c}}
		case 2:
			r.NotIcmp = &proto.Rule_NotIcmpType{NotIcmpType: t}
		default:
			r.NotIcmp = &proto.Rule_NotIcmpTypeCode{NotIcmpTypeCode: &proto.IcmpTypeAndCode{Type: t, Code: c}}
		}
	}
	return r
}

func cidrEdges(c string, v6 bool) []*big.Int {
	p, err := netip.ParsePrefix(c)
	if err != nil {
		a, err2 := netip.ParseAddr(c)
		if err2 != nil {
			return nil
		}
		p = netip.PrefixFrom(a, a.BitLen())
	}
	if p.Addr().Is6() != v6 {
		return nil
	}
	total := 32
	if v6 {
		total = 128
	}
	base := nfsem.AddrInt(p.Masked().Addr())
	size := new(big.Int).Lsh(big.NewInt(1), uint(total-p.Bits()))
	last := new(big.Int).Add(base, new(big.Int).Sub(size, big.NewInt(1)))
	max := new(big.Int).Sub(new(big.Int).Lsh(big.NewInt(1), uint(total)), big.NewInt(1))
	var o []*big.Int
	for _, x := range []*big.Int{base, last, new(big.Int).Sub(base, big.NewInt(1)), new(big.Int).Add(last, big.NewInt(1))} {
		if x.Sign() >= 0 && x.Cmp(max) <= 0 {
			o = append(o, x)
		}
	}
	return o
}

func genPkt(h *rt.H, s *state, r *proto.Rule, v6 bool) string {
	var addrs []*big.Int
	for _, l := range [][]string{r.SrcNet, r.DstNet, r.NotSrcNet, r.NotDstNet} {
		for _, c := range l {
			addrs = append(addrs, cidrEdges(c, v6)...)
		}
	}
	addrs = append(addrs, big.NewInt(0), big.NewInt(167837955)) // 10.1.2.3
	if v6 {
		a, _ := netip.ParseAddr("fd00:1::5")
		addrs = append(addrs, nfsem.AddrInt(a))
	}
	var ports []int
	for _, l := range [][]*proto.PortRange{r.SrcPorts, r.DstPorts, r.NotSrcPorts, r.NotDstPorts} {
		for _, p := range l {
			for _, x := range []int{int(p.First), int(p.Last), int(p.First) - 1, int(p.Last) + 1} {
				if x >= 0 && x <= 65535 {
					ports = append(ports, x)
				}
			}
		}
	}
	ports = append(ports, 0, 80, 65535, h.Intn(65536))
	protos := []int{6, 17, 1, 58, 132, 47, 136}
	for _, p := range []*proto.Protocol{r.Protocol, r.NotProtocol} {
		if p == nil {
			continue
		}
		switch v := p.NumberOrName.(type) {
		case *proto.Protocol_Name:
			if k, ok := nfsem.DefaultProtoNum[v.Name]; ok {
				protos = append(protos, k, k, k)
			}
		case *proto.Protocol_Number:
			protos = append(protos, int(uint8(v.Number)), int(uint8(v.Number)), int(uint8(v.Number)))
		}
	}
	names := func(ids []string) string {
		seen := map[string]bool{}
		var o []string
		for _, id := range ids {
			n := s.setName(id)
			if !seen[n] && h.Chance(0.6) {
				seen[n] = true
				o = append(o, n)
			}
		}
		sort.Strings(o)
		if len(o) == 0 {
			return "-"
		}
		return strings.Join(o, ",")
	}
	ipIDs := append(append(append(append([]string{}, r.SrcIpSetIds...), r.DstIpSetIds...), r.NotSrcIpSetIds...), r.NotDstIpSetIds...)
	npAll := append(append(append(append(append([]string{}, r.SrcNamedPortIpSetIds...), r.DstNamedPortIpSetIds...), r.NotSrcNamedPortIpSetIds...), r.NotDstNamedPortIpSetIds...), r.DstIpPortSetIds...)
	return fmt.Sprintf("pkt %d %s %s %d %d %d %d %s %s %s %s",
		rt.Pick(h, protos), rt.Pick(h, addrs).String(), rt.Pick(h, addrs).String(), rt.Pick(h, ports), rt.Pick(h, ports),
		rt.Pick(h, []int{0, 3, 8, 128, 135}), rt.Pick(h, []int{0, 1, 3}),
		names(ipIDs), names(ipIDs), names(npAll), names(npAll))
}

func genCase(h *rt.H) []string {
	s := &state{}
	s.nft = h.Chance(0.4)
	s.v6 = h.Chance(0.3)
	v := "4"
	if s.v6 {
		v = "6"
	}
	dp := "ipt"
	if s.nft {
		dp = "nft"
	}
	b := func(x bool) string {
		if x {
			return "1"
		}
		return "0"
	}
	name := rt.Pick(h, []string{"default.foo", "np-1", "p"})
	ops := []string{fmt.Sprintf("cfg %s %s %s %s %s %s %d %s %s %s", dp, v, b(h.Chance(0.4)), b(h.Chance(0.2)),
		rt.Pick(h, []string{"P", "R"}), rt.Pick(h, []string{"I", "E"}), h.Intn(12), name, b(h.Chance(0.15)), polID(name).ID())}
	for k := 0; k < 1+h.Intn(3); k++ {
		r := genRule(h, s.v6)
		ops = append(ops, "rule "+encRule(r))
		for i := 0; i < 3+h.Intn(6); i++ {
			ops = append(ops, genPkt(h, s, r, s.v6))
		}
	}
	return ops
}

// fixedCases are always run first: the concrete witnesses of the known findings.
var fixedCases = [][]string{
	{ // three positive blocks (src ports, dst ports, src nets): 2nd block passes, 3rd fails
		"cfg ipt 4 0 0 P I 0 default.foo 0 gnp/default.foo",
		"rule act=allow;p=n:tcp;sn=10.0.0.0/8,192.168.0.0/16;sp=1,2,3,4,5,6,7,8,9,10,11,12,13,14,15,16;dp=101,102,103,104,105,106,107,108,109,110,111,112,113,114,115,116",
		"pkt 6 167837955 167837955 1 101 0 0 - - - -",    // src 10.1.2.3: all three blocks pass -> must match
		"pkt 6 2886729728 167837955 1 101 0 0 - - - -",   // src 172.16.0.0: 3rd block fails -> must NOT match
		"pkt 6 2886729728 167837955 1 999 0 0 - - - -",   // 2nd and 3rd fail
	},
	{
		"cfg nft 4 0 0 P I 0 default.foo 0 gnp/default.foo",
		"rule act=deny;p=n:icmp;nicmp=8/0",
		"pkt 1 1 2 0 0 8 0 - - - -", // echo request code 0: excluded -> no match
		"pkt 1 1 2 0 0 8 1 - - - -", // type 8 code 1: not (8,0) -> rule matches
		"pkt 1 1 2 0 0 3 0 - - - -", // type 3 code 0: not (8,0) -> rule matches
		"pkt 1 1 2 0 0 3 1 - - - -",
	},
}

func main() {
	h := rt.New()
	defer h.Close()
	h.Rule = "case = renderer config (ipt/nft, v4/v6, flow logs, deny action, owner/dir/idx) + 1..3 generated proto rules " +
		"(protocol by name/number, mixed-family positive/negated CIDR lists, port lists over the 15-slot limit, named-port and IP sets, ICMP type/code, every action) " +
		"each followed by 3..8 packets on/around its CIDR edges, port range ends, protocol and set membership; " +
		"distinct = distinct op sequence; non-trivial = rule rendered with match blocks (mark-bit blocks) or >1 rendered rule and at least one packet matching and one not"
	run := func(ops []string, tag string) {
		h.Case(tag)
		s := &state{}
		s.mkRenderer()
		s.rule = &proto.Rule{}
		blocks, matched, unmatched := false, false, false
		for _, op := range ops {
			out := exec(h, s, op)
			h.Op(op, out)
			k := strings.Fields(op)[0]
			h.Count("op:" + k)
			switch k {
			case "rule":
				if out == "panic" {
					h.Count("rule:panic")
				} else if out == "" {
					h.Count("rule:filtered-out")
				} else {
					n := s.positiveBlocks(s.rule)
					h.Count(fmt.Sprintf("rule:positive-blocks=%d", n))
					if strings.Contains(out, "0x600") || strings.Contains(out, "0xfffff9ff") {
						blocks = true
						h.Count("rule:uses-blocks")
					}
				}
				h.Count("action:" + s.rule.Action)
			case "pkt":
				if strings.HasSuffix(out, "match=1") {
					matched = true
					h.Count("pkt:match")
				} else {
					unmatched = true
					h.Count("pkt:nomatch")
				}
			case "cfg":
				h.Count("dp:" + strings.Fields(op)[1] + "-v" + strings.Fields(op)[2])
			}
		}
		if blocks && matched && unmatched {
			h.Nontrivial(strings.Join(ops, ";"))
		}
		h.Sample()
	}
	if h.Replay != "" {
		run(h.ReplayLines(), "replay")
		return
	}
	for _, fc := range fixedCases {
		run(fc, "fixed")
	}
	for i := 0; i < h.N; i++ {
		run(genCase(h), "gen")
	}
}
