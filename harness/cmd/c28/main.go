// C28 correspondence harness: Felix's and confd/BIRD's halves of the cluster-route ownership
// decision, called on the real code (felix/config.Config and confd/pkg/backends/calico).
package main

import (
	"encoding/hex"
	"fmt"
	"net/netip"
	"strings"

	v3 "github.com/projectcalico/api/pkg/apis/projectcalico/v3"

	confd "github.com/projectcalico/calico/confd/pkg/backends/calico"
	"github.com/projectcalico/calico/felix/calc"
	"github.com/projectcalico/calico/felix/config"
	"github.com/projectcalico/calico/libcalico-go/lib/backend/encap"
	"github.com/projectcalico/calico/libcalico-go/lib/backend/model"
	cnet "github.com/projectcalico/calico/libcalico-go/lib/net"

	"verif/harness/rt"
)

// a setting token: "-" = absent, "nil" = no BGPConfiguration at all (bgp only), else hex of the value
func decode(tok string) (string, bool) {
	if tok == "-" || tok == "nil" {
		return "", false
	}
	if tok == "e" {
		return "", true // the empty string, present
	}
	b, err := hex.DecodeString(tok)
	if err != nil {
		panic(err)
	}
	return string(b), true
}

func enc(s string) string {
	if s == "" {
		return "e"
	}
	return hex.EncodeToString([]byte(s))
}

func bgpCfg(tok string) *v3.BGPConfiguration {
	if tok == "nil" {
		return nil
	}
	cfg := &v3.BGPConfiguration{}
	if s, ok := decode(tok); ok {
		cfg.Spec.ProgramClusterRoutes = &s
	}
	return cfg
}

func felixBits(tok string) (ipip, noEncap bool, canon string) {
	c := config.New()
	if s, ok := decode(tok); ok {
		_, _ = c.UpdateFrom(map[string]string{"ProgramClusterRoutes": s}, config.DatastoreGlobal)
	}
	return c.ProgramIPIPClusterRoutes(), c.ProgramNoEncapClusterRoutes(), c.ProgramClusterRoutes
}

func mode(tok string) encap.Mode {
	switch tok {
	case "never":
		return encap.Never
	case "always":
		return encap.Always
	case "cross":
		return encap.CrossSubnet
	case "other":
		return encap.Mode("Always") // not one of the backend model's mode strings
	}
	panic("mode " + tok)
}

func pool(ipip, vxlan string) *model.IPPool {
	return &model.IPPool{CIDR: cnet.MustParseCIDR("10.10.0.0/16"), IPIPMode: mode(ipip), VXLANMode: mode(vxlan)}
}

func b(x bool) string {
	if x {
		return "1"
	}
	return "0"
}

var supported = map[[2]string]bool{
	{v3.EnabledIPIPOnly, v3.EnabledNoEncapOnly}: true,
	{v3.Enabled, v3.Disabled}:                   true,
	{v3.Disabled, v3.Enabled}:                   true,
	{v3.EnabledNoEncapOnly, v3.EnabledIPIPOnly}: true,
}

func exec(h *rt.H, op string) string {
	if out, ok := execDyn(h, op); ok {
		return out
	}
	w := strings.Fields(op)
	switch w[0] {
	case "felix": // felix <setting> -> ipip noencap canonical-value
		i, n, c := felixBits(w[1])
		return b(i) + " " + b(n) + " " + enc(c)
	case "bgp": // bgp <setting> -> ipip noencap
		i, n := confd.VerifClusterRoutePolicy(bgpCfg(w[1]))
		return b(i) + " " + b(n)
	case "pool": // pool <bgp-setting> <ipipMode> <vxlanMode> <4|6> -> usesIPIP usesVXLAN programsPool kernel-filter-action
		p := pool(w[2], w[3])
		ui, uv := confd.VerifPoolUses(p)
		pp := confd.VerifProgramsPool(bgpCfg(w[1]), p)
		ver := 4
		if w[4] == "6" {
			ver = 6
		}
		st := confd.VerifKernelFilterStatement(bgpCfg(w[1]), p, "10.0.0.0/24", ver)
		act := "other"
		switch {
		case strings.Contains(st, "accept; }"):
			act = "accept"
		case strings.Contains(st, "reject; }"):
			act = "reject"
		}
		return b(ui) + " " + b(uv) + " " + b(pp) + " " + act
	case "fenv": // fenv <felix-setting> <ipip 0|1> <vxlan 0|1> <noencap 0|1> -> progIPIP progNoEncap noEncapNeeded ipipEnabled vxlanEnabled
		c := config.New()
		if s, ok := decode(w[1]); ok {
			_, _ = c.UpdateFrom(map[string]string{"ProgramClusterRoutes": s}, config.DatastoreGlobal)
		}
		kvs := &model.KVPairList{}
		add := func(cidr string, ipip, vxlan encap.Mode) {
			n := cnet.MustParseCIDR(cidr)
			kvs.KVPairs = append(kvs.KVPairs, &model.KVPair{Key: model.IPPoolKey{CIDR: netip.MustParsePrefix(cidr)}, Value: &model.IPPool{CIDR: n, IPIPMode: ipip, VXLANMode: vxlan}})
		}
		if w[2] == "1" {
			add("10.1.0.0/16", encap.Always, encap.Never)
			add("10.2.0.0/16", encap.CrossSubnet, encap.Never)
		}
		if w[3] == "1" {
			add("10.3.0.0/16", encap.Never, encap.CrossSubnet)
		}
		if w[4] == "1" {
			add("10.4.0.0/16", encap.Never, encap.Never)
		}
		ec := calc.NewEncapsulationCalculator(c, kvs)
		return b(c.ProgramIPIPClusterRoutes()) + " " + b(c.ProgramNoEncapClusterRoutes()) + " " + b(ec.NoEncapNeeded()) + " " + b(ec.IPIPEnabled()) + " " + b(ec.VXLANEnabled())
	case "pair": // pair <felix-setting> <bgp-setting> <ipipMode> <vxlanMode> -> felixPrograms birdPrograms
		fi, fn, fcanon := felixBits(w[1])
		p := pool(w[3], w[4])
		ui, uv := confd.VerifPoolUses(p)
		var felix bool
		switch {
		case uv:
			felix = true // VXLAN cluster routes are always Felix's
		case ui:
			felix = fi
		default:
			felix = fn
		}
		st := confd.VerifKernelFilterStatement(bgpCfg(w[2]), p, "10.0.0.0/24", 4)
		bird := strings.Contains(st, "accept; }")
		// property oracle on the real code: for a supported pairing (absent/unrecognised = default on both
		// sides) exactly one owner, VXLAN pools Felix's.
		bgpEff := v3.EnabledNoEncapOnly
		if s, ok := decode(w[2]); ok && (s == v3.Enabled || s == v3.Disabled || s == v3.EnabledIPIPOnly || s == v3.EnabledNoEncapOnly) {
			bgpEff = s
		}
		// absent/unrecognised on BOTH sides must behave as the (complementary) defaults
		fUnknown := true
		if fs, ok := decode(w[1]); ok {
			l := strings.ToLower(fs)
			fUnknown = l != "none"
			for _, v := range four {
				if l == strings.ToLower(v) {
					fUnknown = false
				}
			}
		}
		bUnknown := true
		if bs, ok := decode(w[2]); ok {
			for _, v := range four {
				if bs == v {
					bUnknown = false
				}
			}
		}
		if supported[[2]string{fcanon, bgpEff}] || (fUnknown && bUnknown) {
			h.Count("pair:supported")
			if felix == bird {
				sig := "double-programmed"
				if !felix {
					sig = "unprogrammed"
				}
				h.OracleFail(sig, "supported pairing, but the pool's cluster routes are programmed by both or by neither of Felix and BIRD",
					map[string]any{"op": op, "felix_effective": fcanon, "bgp_effective": bgpEff, "felix": felix, "bird": bird})
			}
			if uv && (!felix || bird) {
				h.OracleFail("vxlan-not-felix", "VXLAN pool not owned by Felix alone", map[string]any{"op": op})
			}
		} else {
			h.Count("pair:unsupported")
		}
		return b(felix) + " " + b(bird)
	}
	panic("unknown op " + op)
}

var four = []string{v3.Enabled, v3.Disabled, v3.EnabledIPIPOnly, v3.EnabledNoEncapOnly}
var modes = []string{"never", "always", "cross", "other"}

func randSetting(h *rt.H) string {
	switch h.Intn(9) {
	case 0:
		return "-"
	case 1:
		return enc(rt.Pick(h, four))
	case 2: // case variants (Felix's oneof is case-insensitive, confd's switch is not)
		s := rt.Pick(h, four)
		switch h.Intn(3) {
		case 0:
			return enc(strings.ToLower(s))
		case 1:
			return enc(strings.ToUpper(s))
		}
		bs := []byte(s)
		i := h.Intn(len(bs))
		bs[i] ^= 0x20
		return enc(string(bs))
	case 3: // near misses
		s := rt.Pick(h, four)
		switch h.Intn(4) {
		case 0:
			return enc(s + " ")
		case 1:
			return enc(s[:len(s)-1])
		case 2:
			return enc(s + "Only")
		}
		return enc(" " + s)
	case 4:
		return enc(rt.Pick(h, []string{"", "none", "true", "false", "EnabledVXLANOnly", "Enable", "IPIP", "enabledipiponly,enabled"}))
	case 5: // random printable ASCII
		n := 1 + h.Intn(8)
		bs := make([]byte, n)
		for i := range bs {
			bs[i] = byte(33 + h.Intn(94))
		}
		return enc(string(bs))
	default:
		return enc(rt.Pick(h, four))
	}
}

func main() {
	h := rt.New()
	defer h.Close()
	h.Rule = "first the WHOLE finite table (every felix setting in {absent, 4 values, lower/upper case variants, unknown} x every bgp setting in {no BGPConfiguration, absent, 4 values, case variants, unknown} x 4x4 pool modes), then random cases of 5 ops (incl. fenv: the real EncapsulationCalculator on pools of each class) with random settings (case variants, near misses, 'none', empty, random ASCII); " +
		"then histories: dnew (Felix start with 2-4 pools of classes i/v/n (upper case = DISABLED pool that keeps its blocks), mostly supported pairings) + 2-7 dset (a pool changes class; mostly to a class another pool keeps, so Felix does not restart) through the REAL ipip/vxlan/no-encap managers with a recording route table, interleaved with syncer events for BGPConfiguration default (bset = KVNew/KVUpdated with a value / cleared field / unrecognised value, bdel = KVDeleted) fed to the REAL confd client (onUpdates -> updateBGPConfigCache) whose rendered kernel filter gives BIRD's verdict, Felix setting changes (fset = restart) and the node's network_v4 key going away; distinct = distinct op line; non-trivial = pair/pool/dset op"
	run := func(ops []string, tag string) {
		h.Case(tag)
		for _, op := range ops {
			out := exec(h, op)
			h.Op(op, out)
			w := strings.Fields(op)
			h.Count("op:" + w[0])
			if w[0] == "pair" || w[0] == "pool" || w[0] == "dset" || w[0] == "bset" || w[0] == "bdel" || w[0] == "fset" {
				h.Nontrivial(op)
			}
		}
		h.Sample()
	}
	if h.Replay != "" {
		run(h.ReplayLines(), "replay")
		return
	}
	// exhaustive part
	fset := []string{"-"}
	bset := []string{"nil", "-"}
	for _, s := range four {
		fset = append(fset, enc(s), enc(strings.ToLower(s)), enc(strings.ToUpper(s)))
		bset = append(bset, enc(s), enc(strings.ToLower(s)))
	}
	fset = append(fset, enc("bogus"), enc(""), enc("none"))
	bset = append(bset, enc("bogus"), enc(""), enc("EnabledVXLANOnly"))
	for _, f := range fset {
		ops := []string{"felix " + f}
		for k := 0; k < 8; k++ {
			ops = append(ops, fmt.Sprintf("fenv %s %d %d %d", f, k&1, k>>1&1, k>>2&1))
		}
		run(ops, "table-felix")
	}
	for _, bb := range bset {
		ops := []string{"bgp " + bb}
		for _, i := range modes {
			for _, v := range modes {
				ops = append(ops, fmt.Sprintf("pool %s %s %s 4", bb, i, v), fmt.Sprintf("pool %s %s %s 6", bb, i, v))
			}
		}
		run(ops, "table-bgp")
	}
	for _, f := range fset {
		for _, bb := range bset {
			var ops []string
			for _, i := range modes {
				for _, v := range modes {
					ops = append(ops, fmt.Sprintf("pair %s %s %s %s", f, bb, i, v))
				}
			}
			run(ops, "table-pair")
		}
	}
	// histories of pool class changes through the real managers: a fixed scenario table, then random ones
	for _, pr := range [][2]string{{"-", "-"}, {enc(v3.Enabled), enc(v3.Disabled)}, {enc(v3.Disabled), enc(v3.Enabled)}, {enc(v3.EnabledNoEncapOnly), enc(v3.EnabledIPIPOnly)}} {
		for _, sc := range [][]string{
			{"iin", "dset 0 n", "dset 1 n", "dset 0 i"},
			{"nni", "dset 0 i", "dset 0 n", "dset 1 i"},
			{"vvin", "dset 0 i", "dset 0 n", "dset 1 n", "dset 2 v"},
			{"ivn", "dset 0 v", "dset 0 i", "dset 2 i", "dset 1 n"},
			{"in", "bdel", "fset -", "bset -", "bset " + enc(v3.Enabled), "fset " + enc(v3.Disabled), "bdel", "fset -", "dset 1 i"},
			{"Ni", "dset 0 n", "dset 0 N", "dset 1 I", "dset 1 n"},
			{"NNv", "dset 2 V", "dset 0 i", "dset 0 I"},
			{"ivn", "bset " + enc(v3.Disabled), "fset " + enc(v3.Enabled), "bdel", "fset -", "bset " + enc("bogus"), "dsub 0", "dsub 1"},
		} {
			ops := []string{fmt.Sprintf("dnew %s %s %s", pr[0], pr[1], sc[0])}
			run(append(ops, sc[1:]...), "table-dyn")
		}
	}
	for i := 0; i < h.N; i++ {
		run(genDyn(h), "gen-dyn")
	}
	for i := 0; i < h.N; i++ {
		f, bb := randSetting(h), randSetting(h)
		if h.Intn(10) == 0 {
			bb = "nil"
		}
		im, vm := rt.Pick(h, modes), rt.Pick(h, modes)
		run([]string{"felix " + f, fmt.Sprintf("fenv %s %d %d %d", f, h.Intn(2), h.Intn(2), h.Intn(2)), "bgp " + bb, fmt.Sprintf("pool %s %s %s %s", bb, im, vm, rt.Pick(h, []string{"4", "6"})), fmt.Sprintf("pair %s %s %s %s", f, bb, im, vm)}, "gen")
	}
}
