// Dynamic tie for C28: the REAL ipip / vxlan / no-encap managers (routeManager) of Felix's dataplane, with a
// recording route table, are driven through HISTORIES of pool class changes (synthesised RouteUpdates, as the
// L3 route resolver re-sends a pool's blocks with the new pool type), and after every apply the property is
// evaluated on what they program: every pool's blocks are programmed by exactly one of Felix's managers and
// BIRD's kernel filter (real confd processor).
package main

import (
	"encoding/json"
	"fmt"
	"net"
	"strings"

	"github.com/onsi/gomega"
	"github.com/vishvananda/netlink"

	confd "github.com/projectcalico/calico/confd/pkg/backends/calico"
	"github.com/projectcalico/calico/felix/calc"
	"github.com/projectcalico/calico/felix/config"
	intdataplane "github.com/projectcalico/calico/felix/dataplane/linux"
	"github.com/projectcalico/calico/felix/dataplane/linux/dataplanedefs"
	"github.com/projectcalico/calico/felix/ifacemonitor"
	"github.com/projectcalico/calico/felix/ipsets"
	"github.com/projectcalico/calico/felix/netlinkshim/mocknetlink"
	"github.com/projectcalico/calico/felix/proto"
	"github.com/projectcalico/calico/felix/routetable"
	"github.com/projectcalico/calico/felix/rules"
	"github.com/projectcalico/calico/felix/vxlanfdb"
	"github.com/projectcalico/calico/libcalico-go/lib/backend/encap"
	"github.com/projectcalico/calico/libcalico-go/lib/backend/model"
	cnet "github.com/projectcalico/calico/libcalico-go/lib/net"
	"github.com/projectcalico/calico/libcalico-go/lib/set"

	"net/netip"

	v3 "github.com/projectcalico/api/pkg/apis/projectcalico/v3"
	metav1 "k8s.io/apimachinery/pkg/apis/meta/v1"

	"github.com/projectcalico/calico/libcalico-go/lib/backend/api"

	"verif/harness/rt"
)

type rtKey struct {
	class routetable.RouteClass
	iface string
}

// recRT records what a manager asks the route table to program.
type recRT struct{ cur map[rtKey][]routetable.Target }

func (t *recRT) SetRoutes(c routetable.RouteClass, iface string, ts []routetable.Target) {
	t.cur[rtKey{c, iface}] = ts
}
func (t *recRT) RouteRemove(routetable.RouteClass, string, routetable.RouteKey) {}
func (t *recRT) RouteUpdate(routetable.RouteClass, string, routetable.Target)   {}
func (t *recRT) Index() int                                                     { return 0 }
func (t *recRT) QueueResyncIface(string)                                        {}
func (t *recRT) ReadRoutesFromKernel(string) ([]routetable.Target, error)       { return nil, nil }
func (t *recRT) OnIfaceStateChanged(string, int, ifacemonitor.State)            {}
func (t *recRT) QueueResync()                                                   {}
func (t *recRT) Apply() error                                                   { return nil }

func (t *recRT) has(cidr string) bool {
	for _, ts := range t.cur {
		for _, x := range ts {
			if x.CIDR.String() == cidr {
				return true
			}
		}
	}
	return false
}

type mockIPSets struct{}

func (mockIPSets) AddOrReplaceIPSet(ipsets.IPSetMetadata, []string) {}
func (mockIPSets) AddMembers(string, []string)                      {}
func (mockIPSets) RemoveMembers(string, []string)                   {}
func (mockIPSets) RemoveIPSet(string)                               {}
func (mockIPSets) GetIPFamily() ipsets.IPFamily                     { return ipsets.IPFamilyV4 }
func (mockIPSets) GetTypeOf(string) (ipsets.IPSetType, error)       { return ipsets.IPSetTypeHashNet, nil }
func (mockIPSets) GetDesiredMembers(string) (set.Set[string], error) {
	return set.New[string](), nil
}
func (mockIPSets) QueueResync()                      {}
func (mockIPSets) ApplyUpdates(ipsets.UpdateListener) {}
func (mockIPSets) ApplyDeletions() bool              { return false }
func (mockIPSets) SetFilter(set.Set[string])         {}

type mockFDB struct{}

func (mockFDB) SetVTEPs([]vxlanfdb.VTEP) {}

type dynMgr struct {
	m     intdataplane.VerifC43Manager
	table *recRT
}

type dynState struct {
	fTok, bTok string // bTok: "nil" = no BGPConfiguration resource, "-" = resource without the field, else hex value
	cc         *confd.VerifC28Client
	sub        bool // node's network_v4 key present
	cfg        *config.Config
	classes    []byte // 'i' | 'v' | 'n' per pool
	flags      [3]bool
	mgrs       []*dynMgr
}

var dyn *dynState

// a pool token: i/v/n = class, upper case = the pool is DISABLED (closed to new assignments; it keeps its blocks)
func lower(c byte) byte {
	if c >= 'A' && c <= 'Z' {
		return c + 32
	}
	return c
}
func isDisabled(c byte) bool { return c >= 'A' && c <= 'Z' }

func classModes(c byte) (encap.Mode, encap.Mode) {
	switch lower(c) {
	case 'i':
		return encap.Always, encap.Never
	case 'v':
		return encap.Never, encap.Always
	}
	return encap.Never, encap.Never
}

func classPoolType(c byte) proto.IPPoolType {
	switch lower(c) {
	case 'i':
		return proto.IPPoolType_IPIP
	case 'v':
		return proto.IPPoolType_VXLAN
	}
	return proto.IPPoolType_NO_ENCAP
}

func poolCIDR(p int) string    { return fmt.Sprintf("10.%d.0.0/16", 10+p) }
func remoteBlock(p int) string { return fmt.Sprintf("10.%d.1.0/26", 10+p) }
func localBlock(p int) string  { return fmt.Sprintf("10.%d.0.0/26", 10+p) }

// encapFlags: the real EncapsulationCalculator on the current pools.
func (d *dynState) encapFlags() [3]bool {
	kvs := &model.KVPairList{}
	for p, c := range d.classes {
		i, v := classModes(c)
		n := cnet.MustParseCIDR(poolCIDR(p))
		kvs.KVPairs = append(kvs.KVPairs, &model.KVPair{Key: model.IPPoolKey{CIDR: netip.MustParsePrefix(poolCIDR(p))}, Value: &model.IPPool{CIDR: n, IPIPMode: i, VXLANMode: v, Disabled: isDisabled(c)}})
	}
	ec := calc.NewEncapsulationCalculator(d.cfg, kvs)
	return [3]bool{ec.IPIPEnabled(), ec.VXLANEnabled(), ec.NoEncapNeeded()}
}

func (d *dynState) poolMsgs(p int) []*proto.RouteUpdate {
	c := lower(d.classes[p]) // a disabled pool keeps its blocks: the route resolver goes on emitting its routes
	tt := &proto.TunnelType{Ipip: c == 'i', Vxlan: c == 'v'}
	return []*proto.RouteUpdate{
		{Types: proto.RouteType_REMOTE_WORKLOAD, IpPoolType: classPoolType(c), Dst: remoteBlock(p), DstNodeName: "n02", DstNodeIp: "172.16.0.2", SameSubnet: true, TunnelType: tt},
		{Types: proto.RouteType_LOCAL_WORKLOAD, IpPoolType: classPoolType(c), Dst: localBlock(p), DstNodeName: "n01", DstNodeIp: "172.16.0.1", SameSubnet: true, TunnelType: tt},
	}
}

// start = Felix (re)start: managers are created as NewIntDataplaneDriver does for the current encapsulation
// flags (IPIP manager iff IPIPEnabled, VXLAN manager iff VXLANEnabled, no-encap manager iff
// ProgramNoEncapClusterRoutes && NoEncapNeeded), then fed the whole state.
func (d *dynState) start() {
	d.flags = d.encapFlags()
	d.mgrs = nil
	dp := mocknetlink.New()
	nl, err := dp.NewMockNetlink()
	if err != nil {
		panic(err)
	}
	dp.ImmediateLinkUp = true
	eth := dp.AddIface(2, "eth0", true, true)
	if err := dp.AddrAdd(eth, &netlink.Addr{IPNet: &net.IPNet{IP: net.ParseIP("172.16.0.1").To4(), Mask: net.CIDRMask(24, 32)}}); err != nil {
		panic(err)
	}
	cfg := intdataplane.Config{
		MaxIPSetSize:                1024,
		Hostname:                    "n01",
		RulesConfig:                 rules.Config{VXLANVNI: 4096, VXLANPort: 4789, IPIPTunnelAddress: net.ParseIP("192.168.255.1")},
		ProgramIPIPClusterRoutes:    d.cfg.ProgramIPIPClusterRoutes(),
		ProgramNoEncapClusterRoutes: d.cfg.ProgramNoEncapClusterRoutes(),
		NoEncapNeeded:               d.flags[2],
		DeviceRouteProtocol:         dataplanedefs.DefaultRouteProto,
		IPIPMTU:                     1440,
	}
	add := func(m intdataplane.VerifC43Manager, onParent func(string) bool, t *recRT) {
		onParent("eth0")
		d.mgrs = append(d.mgrs, &dynMgr{m, t})
	}
	if d.flags[0] {
		t := &recRT{cur: map[rtKey][]routetable.Target{}}
		m, op, _ := intdataplane.VerifC43NewIPIP(t, "tunl0", 1440, cfg, nl)
		add(m, op, t)
	}
	if d.flags[1] {
		t := &recRT{cur: map[rtKey][]routetable.Target{}}
		m, op, _ := intdataplane.VerifC43NewVXLAN(mockIPSets{}, t, mockFDB{}, "vxlan.calico", 1410, cfg, nl)
		add(m, op, t)
	}
	if cfg.ProgramNoEncapClusterRoutes && cfg.NoEncapNeeded {
		t := &recRT{cur: map[rtKey][]routetable.Target{}}
		m, op, _ := intdataplane.VerifC43NewNoEncap(t, cfg, nl)
		add(m, op, t)
	}
	var msgs []any
	msgs = append(msgs,
		&proto.HostMetadataUpdate{Hostname: "n01", Ipv4Addr: "172.16.0.1"},
		&proto.HostMetadataUpdate{Hostname: "n02", Ipv4Addr: "172.16.0.2"},
		&proto.VXLANTunnelEndpointUpdate{Node: "n01", Mac: "66:00:00:00:00:01", Ipv4Addr: "10.250.0.1", ParentDeviceIp: "172.16.0.1"},
		&proto.VXLANTunnelEndpointUpdate{Node: "n02", Mac: "66:00:00:00:00:02", Ipv4Addr: "10.250.0.2", ParentDeviceIp: "172.16.0.2"})
	for p := range d.classes {
		for _, m := range d.poolMsgs(p) {
			msgs = append(msgs, m)
		}
	}
	d.send(msgs)
}

// send: the dataplane loop hands every message to every manager, then completes deferred work.
func (d *dynState) send(msgs []any) {
	for _, msg := range msgs {
		for _, m := range d.mgrs {
			m.m.OnUpdate(msg)
		}
	}
	for _, m := range d.mgrs {
		if err := m.m.CompleteDeferredWork(); err != nil {
			panic(fmt.Sprintf("CompleteDeferredWork: %v", err))
		}
	}
}

func (d *dynState) felixHas(cidr string) bool {
	for _, m := range d.mgrs {
		if m.table.has(cidr) {
			return true
		}
	}
	return false
}

// ---- confd side: the REAL backend client -----------------------------------------------------------------

const confdNode = "n01"

func (d *dynState) confdInit() {
	d.cc = confd.VerifC28NewClient(confdNode)
	d.sub = true
	d.cc.SetCacheValue("/calico/bgp/v1/host/"+confdNode+"/network_v4", "172.16.0.0/24")
	for p := range d.classes {
		d.confdPool(p)
	}
	if d.bTok != "nil" {
		d.confdEvent(api.UpdateTypeKVNew, d.bTok)
	}
}

func (d *dynState) confdPool(p int) {
	i, v := classModes(d.classes[p])
	js, err := json.Marshal(&model.IPPool{CIDR: cnet.MustParseCIDR(poolCIDR(p)), IPIPMode: i, VXLANMode: v, Disabled: isDisabled(d.classes[p])})
	if err != nil {
		panic(err)
	}
	d.cc.SetCacheValue(fmt.Sprintf("/calico/v1/ipam/v4/pool/10.%d.0.0-16", 10+p), string(js))
}

// confdEvent feeds the real client a syncer event for BGPConfiguration "default".
func (d *dynState) confdEvent(t api.UpdateType, tok string) {
	key := model.ResourceKey{Kind: v3.KindBGPConfiguration, Name: "default"}
	u := api.Update{KVPair: model.KVPair{Key: key}, UpdateType: t}
	if t != api.UpdateTypeKVDeleted {
		res := &v3.BGPConfiguration{
			TypeMeta:   metav1.TypeMeta{Kind: v3.KindBGPConfiguration, APIVersion: v3.GroupVersionCurrent},
			ObjectMeta: metav1.ObjectMeta{Name: "default"},
		}
		if sv, ok := decode(tok); ok {
			res.Spec.ProgramClusterRoutes = &sv
		}
		u.KVPair.Value = res
	}
	d.cc.OnUpdates([]api.Update{u})
}

// birdVerdict: what the rendered IPv4 calico_kernel_programming filter does with the pool's routes: the first
// statement for the pool's CIDR decides; with no statement the template's final `accept;` applies.
func (d *dynState) birdVerdict(p int) bool {
	sts, err := d.cc.KernelFilterForIPPools(4)
	if err != nil {
		panic(err)
	}
	for _, st := range sts {
		if strings.Contains(st, "(net ~ "+poolCIDR(p)+")") {
			return !strings.Contains(st, "reject;")
		}
	}
	return true
}

// show evaluates the property on the real code and returns the canonical line.
func (d *dynState) show(h *rt.H, op string) string {
	out := []string{"flags=" + b(d.flags[0]) + b(d.flags[1]) + b(d.flags[2])}
	fcanon := d.cfg.ProgramClusterRoutes
	bgpEff := v3.EnabledNoEncapOnly
	bUnknown := true
	if s, ok := decode(d.bTok); ok {
		for _, v := range four {
			if s == v {
				bgpEff, bUnknown = s, false
			}
		}
	}
	fUnknown := true
	if fs, ok := decode(d.fTok); ok {
		l := strings.ToLower(fs)
		fUnknown = l != "none"
		for _, v := range four {
			if l == strings.ToLower(v) {
				fUnknown = false
			}
		}
	}
	mustHold := supported[[2]string{fcanon, bgpEff}] || (fUnknown && bUnknown)
	for p, c := range d.classes {
		fr, fl := d.felixHas(remoteBlock(p)), d.felixHas(localBlock(p))
		i, v := classModes(c)
		pl := &model.IPPool{CIDR: cnet.MustParseCIDR(poolCIDR(p)), IPIPMode: i, VXLANMode: v, Disabled: isDisabled(c)}
		bird := d.birdVerdict(p)
		if d.sub {
			// cross-check: the single-statement path used by the static ops agrees with the rendered filter
			if one := strings.Contains(confd.VerifKernelFilterStatement(bgpCfg(d.bTok), pl, "172.16.0.0/24", 4), "accept; }"); one != bird && true {
				h.Count("dyn:rendered-filter-differs-from-current-setting")
			}
		}
		out = append(out, fmt.Sprintf("p%d=%c%s%s%s", p, c, b(fr), b(fl), b(bird)))
		if !d.sub {
			// Observation (not part of the property's quantifier): without the node's network_v4 key processIPPools
			// emits no IPv4 kernel-filter statement at all and the template's final accept applies.
			h.Count("obs:no-network_v4")
			if (fr || fl) && bird {
				h.Count("obs:no-network_v4:felix-and-bird-both")
			}
			continue
		}
		if mustHold {
			in := map[string]any{"op": op, "pool": p, "class": string(c), "disabled": isDisabled(c), "felix_setting": fcanon, "bgp_setting": bgpEff,
				"felix_programs_remote_block": fr, "felix_programs_local_block": fl, "bird_accepts": bird, "history": append([]string{}, dynHist...)}
			switch {
			case (fr || fl) && bird:
				h.OracleFail("pool-two-owners", "supported pairing, but after this history a pool's block routes are programmed by Felix's managers AND accepted by BIRD's kernel filter", in)
			case !fr && !bird:
				h.OracleFail("pool-no-owner", "supported pairing, but after this history a pool's remote block is programmed by neither Felix's managers nor BIRD", in)
			}
		}
	}
	return strings.Join(out, " ")
}

var dynHist []string

func init() {
	gomega.RegisterFailHandler(func(msg string, _ ...int) { panic("gomega: " + msg) })
}

func execDyn(h *rt.H, op string) (string, bool) {
	w := strings.Fields(op)
	switch w[0] {
	case "dnew": // dnew <felix> <bgp> <classes>
		c := config.New()
		if s, ok := decode(w[1]); ok {
			_, _ = c.UpdateFrom(map[string]string{"ProgramClusterRoutes": s}, config.DatastoreGlobal)
		}
		dyn = &dynState{fTok: w[1], bTok: w[2], cfg: c, classes: []byte(w[3])}
		dynHist = []string{op}
		dyn.start()
		dyn.confdInit()
		h.Count("dyn:new")
		return dyn.show(h, op), true
	case "dset": // dset <pool> <class>
		if dyn == nil {
			panic("dset before dnew")
		}
		dynHist = append(dynHist, op)
		p := int(w[1][0] - '0')
		dyn.classes[p] = w[2][0]
		dyn.confdPool(p)
		pre := ""
		if nf := dyn.encapFlags(); nf != dyn.flags {
			// encapsulation changed: Felix restarts (daemon.go), fresh managers
			dyn.start()
			pre = "restart "
			h.Count("dyn:restart")
		} else {
			var msgs []any
			for _, m := range dyn.poolMsgs(p) {
				msgs = append(msgs, m)
			}
			dyn.send(msgs)
			h.Count("dyn:reclass-no-restart")
		}
		return pre + dyn.show(h, op), true
	}
	switch w[0] {
	case "bset", "bdel", "fset", "dsub":
		if dyn == nil {
			panic(w[0] + " before dnew")
		}
		dynHist = append(dynHist, op)
	}
	switch w[0] {
	case "bset": // bset <setting>: KVNew (no resource yet) or KVUpdated
		t := api.UpdateTypeKVUpdated
		if dyn.bTok == "nil" {
			t = api.UpdateTypeKVNew
		}
		dyn.bTok = w[1]
		dyn.confdEvent(t, w[1])
		h.Count("dyn:bgp-set")
		return dyn.show(h, op), true
	case "bdel": // the BGPConfiguration is deleted
		dyn.bTok = "nil"
		dyn.confdEvent(api.UpdateTypeKVDeleted, "")
		h.Count("dyn:bgp-delete")
		return dyn.show(h, op), true
	case "fset": // Felix's setting changes: Felix restarts
		c := config.New()
		if sv, ok := decode(w[1]); ok {
			_, _ = c.UpdateFrom(map[string]string{"ProgramClusterRoutes": sv}, config.DatastoreGlobal)
		}
		dyn.fTok, dyn.cfg = w[1], c
		dyn.start()
		h.Count("dyn:felix-set")
		return "restart " + dyn.show(h, op), true
	case "dsub":
		dyn.sub = w[1] == "1"
		if dyn.sub {
			dyn.cc.SetCacheValue("/calico/bgp/v1/host/"+confdNode+"/network_v4", "172.16.0.0/24")
		} else {
			dyn.cc.DeleteCacheValue("/calico/bgp/v1/host/" + confdNode + "/network_v4")
		}
		return dyn.show(h, op), true
	}
	return "", false
}

func genDyn(h *rt.H) []string {
	f, bb := randSetting(h), randSetting(h)
	if h.Intn(3) > 0 { // mostly supported pairings: that is where the property speaks
		pr := rt.Pick(h, [][2]string{{v3.EnabledIPIPOnly, v3.EnabledNoEncapOnly}, {v3.Enabled, v3.Disabled}, {v3.Disabled, v3.Enabled}, {v3.EnabledNoEncapOnly, v3.EnabledIPIPOnly}, {"", ""}})
		f, bb = "-", "-"
		if pr[0] != "" {
			f, bb = enc(pr[0]), enc(pr[1])
		}
	}
	n := 2 + h.Intn(3)
	cs := make([]byte, n)
	pick := func() byte {
		c := "ivn"[h.Intn(3)]
		if h.Intn(4) == 0 {
			c -= 32 // disabled pool
		}
		return c
	}
	for i := range cs {
		cs[i] = pick()
	}
	if h.Intn(6) == 0 { // every pool of one class disabled
		for i := range cs {
			if lower(cs[i]) == 'n' {
				cs[i] = 'N'
			}
		}
	}
	ops := []string{fmt.Sprintf("dnew %s %s %s", f, bb, string(cs))}
	pairs := [][2]string{{enc(v3.EnabledIPIPOnly), enc(v3.EnabledNoEncapOnly)}, {enc(v3.Enabled), enc(v3.Disabled)}, {enc(v3.Disabled), enc(v3.Enabled)},
		{enc(v3.EnabledNoEncapOnly), enc(v3.EnabledIPIPOnly)}, {"-", "-"}, {"-", "nil"}}
	for k := 0; k < 2+h.Intn(6); k++ {
		switch h.Intn(8) {
		case 0, 1: // move to another supported pairing: BGPConfiguration event, then Felix (or the other way round)
			pr := rt.Pick(h, pairs)
			bop := "bset " + pr[1]
			if pr[1] == "nil" {
				bop = "bdel"
			}
			if h.Bool() {
				ops = append(ops, bop, "fset "+pr[0])
			} else {
				ops = append(ops, "fset "+pr[0], bop)
			}
			continue
		case 2: // a lone BGPConfiguration event (delete, re-create, unrecognised value, field cleared)
			ops = append(ops, rt.Pick(h, []string{"bdel", "bset -", "bset " + randSetting(h), "bset " + enc(rt.Pick(h, four))}))
			continue
		case 3:
			if h.Intn(4) == 0 {
				ops = append(ops, "dsub 0", "dsub 1")
				continue
			}
		}
		p := h.Intn(n)
		var c byte
		if h.Intn(3) > 0 {
			// prefer a class another pool already has (and leave one pool of the old class): no restart
			c = cs[h.Intn(n)]
		} else {
			c = pick()
		}
		if h.Intn(8) == 0 { // only the disabled flag flips
			c = cs[p] ^ 32
		}
		cs[p] = c
		ops = append(ops, fmt.Sprintf("dset %d %c", p, c))
	}
	return ops
}
