package main

// Semantic side of the C01 protocol: what the Lean model needs to know about every
// (key, variant) of the universe, the selector -> IP-set-id table (hashes come from the
// real code), content classes ("tags") of emitted policies / profiles / endpoints, and the
// modelled projection of the accumulated dataplane state.

import (
	"encoding/hex"
	"fmt"
	"math/big"
	"net/netip"
	"sort"
	"strings"

	v3 "github.com/projectcalico/api/pkg/apis/projectcalico/v3"
	"github.com/projectcalico/api/pkg/lib/numorstring"
	googleproto "google.golang.org/protobuf/proto"

	"github.com/projectcalico/calico/felix/calc"
	"github.com/projectcalico/calico/felix/config"
	"github.com/projectcalico/calico/felix/labelindex/ipsetmember"
	"github.com/projectcalico/calico/felix/proto"
	internalapi "github.com/projectcalico/calico/libcalico-go/lib/apis/internalapi"
	"github.com/projectcalico/calico/libcalico-go/lib/backend/api"
	"github.com/projectcalico/calico/libcalico-go/lib/backend/model"
	calinet "github.com/projectcalico/calico/libcalico-go/lib/net"
)

func hx(s string) string {
	if s == "" {
		return "-"
	}
	return hex.EncodeToString([]byte(s))
}

func joinOr(l []string, sep string) string {
	if len(l) == 0 {
		return "-"
	}
	return strings.Join(l, sep)
}

// ---- validation verdicts ------------------------------------------------------

type captureSink struct{ last []api.Update }

func (c *captureSink) OnStatusUpdated(api.SyncStatus) {}
func (c *captureSink) OnUpdates(u []api.Update)       { c.last = u }

// passesValidation runs the REAL ValidationFilter on the value.
func passesValidation(e *entry, v int) bool {
	if e.variants[v] == nil {
		return false
	}
	sink := &captureSink{}
	conf := config.New()
	conf.FelixHostname = localHost
	vf := calc.NewValidationFilter(sink, conf)
	vf.OnUpdates([]api.Update{{KVPair: model.KVPair{Key: e.key, Value: e.variants[v]}, UpdateType: api.UpdateTypeKVNew}})
	return len(sink.last) == 1 && sink.last[0].Value != nil
}

// ---- CIDRs / members in the model's number format --------------------------------

func cidrTok(p netip.Prefix) string {
	a := p.Addr()
	fam := "4"
	if a.Is6() && !a.Is4In6() {
		fam = "6"
	} else {
		a = a.Unmap()
	}
	n := new(big.Int).SetBytes(a.AsSlice())
	return fmt.Sprintf("%s/%s/%d", fam, n.String(), p.Bits())
}

func cidrTokFromNet(n calinet.IPNet) string {
	ones, _ := n.Mask.Size()
	addr, _ := netip.AddrFromSlice(n.IP)
	return cidrTok(netip.PrefixFrom(addr.Unmap(), ones))
}

func ipTok(ip calinet.IP) string {
	addr, _ := netip.AddrFromSlice(ip.IP)
	addr = addr.Unmap()
	return cidrTok(netip.PrefixFrom(addr, addr.BitLen()))
}

// memberTok converts a member string of an emitted IPSetUpdate/DeltaUpdate.
func memberTok(m string) string {
	if i := strings.Index(m, ","); i >= 0 {
		// "<ip>,<proto>:<port>"
		addr := netip.MustParseAddr(m[:i]).Unmap()
		rest := m[i+1:]
		j := strings.Index(rest, ":")
		pr := map[string]int{"tcp": 6, "udp": 17, "sctp": 132}[rest[:j]]
		fam := "4"
		if addr.Is6() {
			fam = "6"
		}
		n := new(big.Int).SetBytes(addr.AsSlice())
		return fmt.Sprintf("p%s/%s/%d/%s", fam, n.String(), pr, rest[j+1:])
	}
	if strings.Contains(m, "/") {
		return "c" + cidrTok(netip.MustParsePrefix(m))
	}
	a := netip.MustParseAddr(m).Unmap()
	return "c" + cidrTok(netip.PrefixFrom(a, a.BitLen()))
}

// ---- rules ---------------------------------------------------------------------

func protoTok(p *numorstring.Protocol) string {
	if p == nil {
		return "-"
	}
	if p.Type == numorstring.NumOrStringNum {
		return fmt.Sprintf("n%d", p.NumVal)
	}
	return "s" + p.StrVal
}

func splitPorts(ps []numorstring.Port) (named []string, numeric bool) {
	for _, p := range ps {
		if p.PortName != "" {
			named = append(named, p.PortName)
		} else {
			numeric = true
		}
	}
	return
}

func b01(b bool) string {
	if b {
		return "1"
	}
	return "0"
}

func ruleTok(r *model.Rule) string {
	f := []string{r.Action, protoTok(r.Protocol), hx(r.SrcSelector), hx(r.NotSrcSelector), hx(r.DstSelector), hx(r.NotDstSelector)}
	for _, ps := range [][]numorstring.Port{r.SrcPorts, r.DstPorts, r.NotSrcPorts, r.NotDstPorts} {
		named, numeric := splitPorts(ps)
		f = append(f, joinOr(named, ","), b01(numeric))
	}
	return strings.Join(f, "~")
}

func rulesTok(rs []model.Rule) string {
	if len(rs) == 0 {
		return "-"
	}
	parts := make([]string, len(rs))
	for i := range rs {
		parts[i] = ruleTok(&rs[i])
	}
	return strings.Join(parts, "+")
}

func labelsTok(m map[string]string) string {
	keys := make([]string, 0, len(m))
	for k := range m {
		keys = append(keys, k)
	}
	sort.Strings(keys)
	parts := make([]string, len(keys))
	for i, k := range keys {
		parts[i] = k + "=" + m[k]
	}
	return joinOr(parts, ",")
}

func portsTok(ps []model.EndpointPort) string {
	parts := make([]string, len(ps))
	for i, p := range ps {
		pr := protoTok(&p.Protocol)
		parts[i] = fmt.Sprintf("%s/%s/%d", p.Name, pr, p.Port)
	}
	return joinOr(parts, ",")
}

func orderTok(o *float64) string {
	if o == nil {
		return "none"
	}
	return fmt.Sprintf("%d", int64(*o))
}

// ---- tags: content classes of what the real code emits --------------------------

type tagTable struct {
	byText map[string]string // "<kind>/<key>|<canonical text>" -> tag
}

var tags = tagTable{byText: map[string]string{}}

func (t *tagTable) classify(scope, text, fallback string) string {
	k := scope + "|" + text
	if tg, ok := t.byText[k]; ok {
		return tg
	}
	t.byText[k] = fallback
	return fallback
}

func (t *tagTable) lookup(scope, text string) string {
	if tg, ok := t.byText[scope+"|"+text]; ok {
		return tg
	}
	return "?unknown-content"
}

// miniSeq: a real RuleScanner wired to a real EventSequencer, used to learn (a) the IP set
// definitions/ids a rule list needs and (b) the proto text emitted for a policy/profile variant.
type miniSeq struct {
	rs   *calc.RuleScanner
	seq  *calc.EventSequencer
	msgs []any
	defs map[string]string // "<selector canonical text hex>/<proto>/<port>" -> uid
}

func newMiniSeq() *miniSeq {
	conf := config.New()
	conf.FelixHostname = localHost
	m := &miniSeq{defs: map[string]string{}}
	m.seq = calc.NewEventSequencer(conf)
	m.seq.Callback = func(ev any) { m.msgs = append(m.msgs, ev) }
	m.rs = calc.NewRuleScanner()
	m.rs.RulesUpdateCallbacks = m.seq
	m.rs.OnIPSetActive = func(s *calc.IPSetData) {
		m.defs[fmt.Sprintf("%s/%d/%s", hx(s.Selector.String()), int(s.NamedPortProtocol), hx(s.NamedPort))] = s.UniqueID()
		m.seq.OnIPSetAdded(s.UniqueID(), s.DataplaneProtocolType())
	}
	m.rs.OnIPSetInactive = func(s *calc.IPSetData) { m.seq.OnIPSetRemoved(s.UniqueID()) }
	return m
}

var ipsetIDs = map[string]string{}

func stripPolicyID(m googleproto.Message) string { return canon(m) }

func learnPolicy(e *entry, v int) string {
	m := newMiniSeq()
	key := e.key.(model.PolicyKey)
	m.rs.OnPolicyActive(key, e.variants[v].(*model.Policy))
	m.seq.Flush()
	for k, id := range m.defs {
		ipsetIDs[k] = id
	}
	for _, ev := range m.msgs {
		if u, ok := ev.(*proto.ActivePolicyUpdate); ok {
			return tags.classify("pol/"+e.name, canon(u.Policy), fmt.Sprintf("%s#%d", e.name, v))
		}
	}
	panic("no ActivePolicyUpdate for " + e.name)
}

func learnProfile(e *entry, v int) string {
	m := newMiniSeq()
	key := e.key.(model.ProfileRulesKey)
	m.rs.OnProfileActive(key, e.variants[v].(*model.ProfileRules))
	m.seq.Flush()
	for k, id := range m.defs {
		ipsetIDs[k] = id
	}
	for _, ev := range m.msgs {
		if u, ok := ev.(*proto.ActiveProfileUpdate); ok {
			return tags.classify("prof/"+key.Name, canon(u.Profile), fmt.Sprintf("%s#%d", e.name, v))
		}
	}
	panic("no ActiveProfileUpdate for " + e.name)
}

func learnDummyDrop(name string) {
	m := newMiniSeq()
	key := model.ProfileRulesKey{ProfileKey: model.ProfileKey{Name: name}}
	dd := calc.DummyDropRules
	m.rs.OnProfileActive(key, &dd)
	m.seq.Flush()
	for _, ev := range m.msgs {
		if u, ok := ev.(*proto.ActiveProfileUpdate); ok {
			tags.classify("prof/"+name, canon(u.Profile), "dummy-drop")
		}
	}
}

// poolID is the id the EventSequencer gives an IP pool (cidrToIPPoolID).
func poolID(k model.IPPoolKey) string { return strings.Replace(k.CIDR.String(), "/", "-", 1) }

// learnPool: content class of the IPAMPoolUpdate the real EventSequencer emits for a pool value.
func learnPool(e *entry, v int) string {
	m := newMiniSeq()
	key := e.key.(model.IPPoolKey)
	m.seq.OnIPPoolUpdate(key, e.variants[v].(*model.IPPool))
	m.seq.Flush()
	for _, ev := range m.msgs {
		if u, ok := ev.(*proto.IPAMPoolUpdate); ok {
			return tags.classify("pool/"+poolID(key), canon(u.Pool), fmt.Sprintf("%s#%d", e.name, v))
		}
	}
	panic("no IPAMPoolUpdate for " + e.name)
}

func wepText(w *proto.WorkloadEndpoint) string {
	c := googleproto.Clone(w).(*proto.WorkloadEndpoint)
	c.Tiers = nil
	c.ProfileIds = nil
	return canon(c)
}

func hepText(w *proto.HostEndpoint) string {
	c := googleproto.Clone(w).(*proto.HostEndpoint)
	c.Tiers, c.UntrackedTiers, c.PreDnatTiers, c.ForwardTiers = nil, nil, nil, nil
	c.ProfileIds = nil
	return canon(c)
}

func learnEndpoint(e *entry, v int) string {
	switch val := e.variants[v].(type) {
	case *model.WorkloadEndpoint:
		return tags.classify("ep/"+e.name, wepText(calc.ModelWorkloadEndpointToProto(val, nil, nil, nil)), fmt.Sprintf("%s#%d", e.name, v))
	case *model.HostEndpoint:
		return tags.classify("ep/"+e.name, hepText(calc.ModelHostEndpointToProto(val, nil, nil, nil, nil)), fmt.Sprintf("%s#%d", e.name, v))
	}
	panic("not an endpoint")
}

// ---- per-variant description ------------------------------------------------------

var polNumericID = map[string]int{}
var epNumericID = map[string]int{}

func shortName(e *entry) string { return e.name[strings.Index(e.name, ":")+1:] }

func isLocalKey(k model.Key) bool {
	switch kk := k.(type) {
	case model.WorkloadEndpointKey:
		return kk.Hostname == localHost
	case model.HostEndpointKey:
		return kk.Hostname == localHost
	}
	return false
}

// describe returns the tokens appended to `kv <name> <variant>`.
func describe(e *entry, v int) string {
	// an INVALID-BY-CONSTRUCTION variant is a delete for the model whatever the real filter says
	ok := passesValidation(e, v) && !e.invalid[v]
	sn := shortName(e)
	switch key := e.key.(type) {
	case model.WorkloadEndpointKey:
		head := fmt.Sprintf("wep %d %s %s", epNumericID[e.name], sn, b01(isLocalKey(key)))
		if !ok {
			return head + " del"
		}
		w := e.variants[v].(*model.WorkloadEndpoint)
		var nets []string
		for _, n := range w.IPv4Nets {
			nets = append(nets, ipTok(calinet.IP{IP: n.IP}))
		}
		for _, n := range w.IPv6Nets {
			nets = append(nets, ipTok(calinet.IP{IP: n.IP}))
		}
		return fmt.Sprintf("%s %s %s %s %s %s", head, learnEndpoint(e, v), labelsTok(w.Labels.RecomputeOriginalMap()), joinOr(w.ProfileIDs, ","), joinOr(nets, ","), portsTok(w.Ports))
	case model.HostEndpointKey:
		head := fmt.Sprintf("hep %d %s %s", epNumericID[e.name], sn, b01(isLocalKey(key)))
		if !ok {
			return head + " del"
		}
		w := e.variants[v].(*model.HostEndpoint)
		var nets []string
		for _, ip := range w.ExpectedIPv4Addrs {
			nets = append(nets, ipTok(ip))
		}
		for _, ip := range w.ExpectedIPv6Addrs {
			nets = append(nets, ipTok(ip))
		}
		return fmt.Sprintf("%s %s %s %s %s %s", head, learnEndpoint(e, v), labelsTok(w.Labels.RecomputeOriginalMap()), joinOr(w.ProfileIDs, ","), joinOr(nets, ","), portsTok(w.Ports))
	case model.NetworkSetKey:
		head := "ns " + sn
		if !ok {
			return head + " del"
		}
		n := e.variants[v].(*model.NetworkSet)
		var nets []string
		for _, c := range n.Nets {
			nets = append(nets, cidrTokFromNet(c))
		}
		return fmt.Sprintf("%s %s %s %s", head, labelsTok(n.Labels.RecomputeOriginalMap()), joinOr(n.ProfileIDs, ","), joinOr(nets, ","))
	case model.ProfileRulesKey:
		head := "pr " + key.Name
		if !ok {
			return head + " del"
		}
		r := e.variants[v].(*model.ProfileRules)
		return fmt.Sprintf("%s %s %s %s", head, learnProfile(e, v), rulesTok(r.InboundRules), rulesTok(r.OutboundRules))
	case model.TierKey:
		head := "tier " + key.Name
		if !ok {
			return head + " del"
		}
		t := e.variants[v].(*model.Tier)
		act := string(t.DefaultAction)
		if act == "" {
			act = "-"
		}
		return fmt.Sprintf("%s %s %s", head, orderTok(t.Order), act)
	case model.PolicyKey:
		ns := key.Namespace
		if ns == "" {
			ns = "-"
		}
		head := fmt.Sprintf("pol %d %s %s %s", polNumericID[e.name], key.Name, ns, key.Kind)
		if !ok {
			return head + " del"
		}
		p := e.variants[v].(*model.Policy)
		tier := p.Tier
		if tier == "" {
			tier = "-"
		}
		return fmt.Sprintf("%s %s %s %s %s %s%s%s %s %s %s", head, learnPolicy(e, v), tier, orderTok(p.Order), hx(p.Selector),
			b01(p.DoNotTrack), b01(p.PreDNAT), b01(p.ApplyOnForward), joinOr(p.Types, ","), rulesTok(p.InboundRules), rulesTok(p.OutboundRules))
	case model.IPPoolKey:
		// a pure pass-through (DataplanePassthru): category, key, content class
		head := "pt pool " + poolID(key)
		if !ok {
			return head + " del"
		}
		return head + " " + learnPool(e, v)
	case model.ResourceKey:
		if key.Kind == v3.KindProfile {
			head := "pl " + key.Name
			if !ok {
				return head + " del"
			}
			return head + " " + labelsTok(e.variants[v].(*v3.Profile).Spec.LabelsToApply)
		}
		if key.Kind == internalapi.KindNode {
			return "other"
		}
	}
	return "other"
}

var descr = map[string][]string{}

// precompute fills descr, the numeric ids, the tag classes and the IP-set-id table.
func precompute() {
	np, ne := 0, 0
	for _, e := range universe {
		switch e.key.(type) {
		case model.PolicyKey:
			polNumericID[e.name] = np
			np++
		case model.WorkloadEndpointKey, model.HostEndpointKey:
			epNumericID[e.name] = ne
			ne++
		}
	}
	for _, p := range []string{"p0", "p1", "p2", "pmissing"} {
		learnDummyDrop(p)
	}
	for _, e := range universe {
		d := make([]string, len(e.variants))
		for v := range e.variants {
			d[v] = describe(e, v)
		}
		descr[e.name] = d
	}
}

func idTableToken() string {
	keys := make([]string, 0, len(ipsetIDs))
	for k := range ipsetIDs {
		keys = append(keys, k)
	}
	sort.Strings(keys)
	parts := make([]string, len(keys))
	for i, k := range keys {
		parts[i] = k + "=" + ipsetIDs[k]
	}
	return joinOr(parts, ",")
}

// ---- the modelled projection of the accumulated state ------------------------------

type polState struct {
	tag  string
	refs []string
}

type epState struct {
	tag      string
	profiles []string
	tiers    [4][]*proto.TierInfo // normal, untracked, preDNAT, forward
}

type projection struct {
	pols  map[string]polState
	profs map[string]polState
	weps  map[string]epState
	heps  map[string]epState
	pools map[string]string // pool id -> content class
}

func newProjection() *projection {
	return &projection{pols: map[string]polState{}, profs: map[string]polState{}, weps: map[string]epState{}, heps: map[string]epState{}, pools: map[string]string{}}
}

func ruleRefs(in, out []*proto.Rule) []string {
	set := map[string]bool{}
	for _, rs := range [][]*proto.Rule{in, out} {
		for _, r := range rs {
			for _, l := range [][]string{r.SrcIpSetIds, r.DstIpSetIds, r.NotSrcIpSetIds, r.NotDstIpSetIds, r.SrcNamedPortIpSetIds,
				r.DstNamedPortIpSetIds, r.NotSrcNamedPortIpSetIds, r.NotDstNamedPortIpSetIds, r.DstIpPortSetIds} {
				for _, id := range l {
					set[id] = true
				}
			}
		}
	}
	out2 := make([]string, 0, len(set))
	for id := range set {
		out2 = append(out2, id)
	}
	sort.Strings(out2)
	return out2
}

func polIDString(id *proto.PolicyID) string {
	ns := id.Namespace
	if ns == "" {
		ns = "-"
	}
	return id.Name + "/" + ns + "/" + id.Kind
}

func entryNameOfPolicy(id *proto.PolicyID) string { return "pol:" + id.Name }

func (p *projection) onMsg(ev any) {
	switch m := ev.(type) {
	case *proto.ActivePolicyUpdate:
		p.pols[polIDString(m.Id)] = polState{tag: tags.lookup("pol/"+entryNameOfPolicy(m.Id), canon(m.Policy)), refs: ruleRefs(m.Policy.InboundRules, m.Policy.OutboundRules)}
	case *proto.ActivePolicyRemove:
		delete(p.pols, polIDString(m.Id))
	case *proto.ActiveProfileUpdate:
		p.profs[m.Id.Name] = polState{tag: tags.lookup("prof/"+m.Id.Name, canon(m.Profile)), refs: ruleRefs(m.Profile.InboundRules, m.Profile.OutboundRules)}
	case *proto.ActiveProfileRemove:
		delete(p.profs, m.Id.Name)
	case *proto.WorkloadEndpointUpdate:
		name := m.Id.WorkloadId[strings.Index(m.Id.WorkloadId, "/")+1:]
		p.weps[name] = epState{tag: tags.lookup("ep/wep:"+name, wepText(m.Endpoint)), profiles: m.Endpoint.ProfileIds, tiers: [4][]*proto.TierInfo{m.Endpoint.Tiers}}
	case *proto.WorkloadEndpointRemove:
		delete(p.weps, m.Id.WorkloadId[strings.Index(m.Id.WorkloadId, "/")+1:])
	case *proto.HostEndpointUpdate:
		p.heps[m.Id.EndpointId] = epState{tag: tags.lookup("ep/hep:"+m.Id.EndpointId, hepText(m.Endpoint)), profiles: m.Endpoint.ProfileIds,
			tiers: [4][]*proto.TierInfo{m.Endpoint.Tiers, m.Endpoint.UntrackedTiers, m.Endpoint.PreDnatTiers, m.Endpoint.ForwardTiers}}
	case *proto.HostEndpointRemove:
		delete(p.heps, m.Id.EndpointId)
	case *proto.IPAMPoolUpdate:
		p.pools[m.Id] = tags.lookup("pool/"+m.Id, canon(m.Pool))
	case *proto.IPAMPoolRemove:
		delete(p.pools, m.Id)
	}
}

func tiersString(ts []*proto.TierInfo) string {
	parts := make([]string, len(ts))
	for i, t := range ts {
		var in, out []string
		for _, id := range t.IngressPolicies {
			in = append(in, polIDString(id))
		}
		for _, id := range t.EgressPolicies {
			out = append(out, polIDString(id))
		}
		act := t.DefaultAction
		if act == "" {
			act = "-"
		}
		parts[i] = t.Name + ":" + act + ":" + joinOr(in, ",") + ":" + joinOr(out, ",")
	}
	return joinOr(parts, ";")
}

// lines renders the projection (policies, profiles, endpoints) plus the IP sets of dp.
func (p *projection) render(d *dpState) string {
	var out []string
	for k, s := range p.pols {
		out = append(out, fmt.Sprintf("pol %s %s [%s]", k, s.tag, strings.Join(s.refs, ",")))
	}
	for k, s := range p.profs {
		out = append(out, fmt.Sprintf("prof %s %s [%s]", k, s.tag, strings.Join(s.refs, ",")))
	}
	for k, s := range p.weps {
		out = append(out, fmt.Sprintf("wep %s %s [%s] %s", k, s.tag, strings.Join(s.profiles, ","), tiersString(s.tiers[0])))
	}
	for k, s := range p.heps {
		out = append(out, fmt.Sprintf("hep %s %s [%s] %s | %s | %s | %s", k, s.tag, strings.Join(s.profiles, ","),
			tiersString(s.tiers[0]), tiersString(s.tiers[1]), tiersString(s.tiers[2]), tiersString(s.tiers[3])))
	}
	for id, tag := range p.pools {
		out = append(out, fmt.Sprintf("gen pool %s %s", id, tag))
	}
	for id, s := range d.ipsets {
		var ms []string
		for m := range s {
			ms = append(ms, memberTok(m))
		}
		sort.Strings(ms)
		ty := 0
		if d.ipsetTy[id] == proto.IPSetUpdate_IP_AND_PORT.String() {
			ty = 1
		}
		out = append(out, fmt.Sprintf("ipset %s %d [%s]", id, ty, strings.Join(ms, ",")))
	}
	sort.Strings(out)
	return joinOr(out, " ;; ")
}

var _ = ipsetmember.ProtocolNone
