// C01 harness: drives the REAL Felix calculation graph (ValidationFilter ->
// CalcGraph -> EventSequencer) with generated update histories and arbitrary
// flush points, accumulates every emitted message into a dataplane state and
// evaluates the property's own oracle on the real code: after the final
// in-sync + flush, the accumulated state must equal what a FRESH graph emits
// when fed only the final datastore state.
package main

import (
	"fmt"
	"os"
	"sort"
	"strconv"
	"strings"

	"google.golang.org/protobuf/encoding/prototext"
	googleproto "google.golang.org/protobuf/proto"
	"google.golang.org/protobuf/reflect/protoreflect"

	"github.com/projectcalico/calico/felix/calc"
	"github.com/projectcalico/calico/felix/config"
	"github.com/projectcalico/calico/felix/proto"
	"github.com/projectcalico/calico/libcalico-go/lib/backend/api"
	"github.com/projectcalico/calico/libcalico-go/lib/backend/model"

	"verif/harness/rt"
)

// ---- accumulated dataplane state -------------------------------------------

type dpState struct {
	objs    map[string]string          // "<Kind>/<key>" -> canonical text of the last Update message
	ipsets  map[string]map[string]bool // id -> members
	ipsetTy map[string]string
	inSync  bool
	single  map[string]string // singleton messages (Encapsulation, ConfigUpdate, ...)
	monitor []string          // stream-wellformedness problems (reported separately; C02's concern)
	msgs    int
	proj    *projection // the part of the state the Lean model describes
}

func newDP() *dpState {
	return &dpState{objs: map[string]string{}, ipsets: map[string]map[string]bool{}, ipsetTy: map[string]string{}, single: map[string]string{}, proj: newProjection()}
}

var txt = prototext.MarshalOptions{Multiline: false}

func canon(m googleproto.Message) string {
	// prototext output is deliberately unstable in whitespace; normalise it.
	s := txt.Format(m)
	return strings.Join(strings.Fields(s), " ")
}

// keyOf returns the canonical text of the identifying field(s) of an Update/Remove message.
func keyOf(m protoreflect.Message) string {
	fields := m.Descriptor().Fields()
	for _, name := range []string{"id", "dst", "node", "hostname", "name", "pool_id"} {
		if fd := fields.ByName(protoreflect.Name(name)); fd != nil {
			v := m.Get(fd)
			if fd.Message() != nil {
				return canon(v.Message().Interface())
			}
			return v.String()
		}
	}
	if fields.Len() > 0 {
		fd := fields.Get(0)
		if fd.Message() != nil {
			return canon(m.Get(fd).Message().Interface())
		}
		return m.Get(fd).String()
	}
	return ""
}

func (d *dpState) onMsg(ev any) {
	d.msgs++
	d.proj.onMsg(ev)
	switch m := ev.(type) {
	case *proto.InSync:
		d.inSync = true
		return
	case *proto.IPSetUpdate:
		s := map[string]bool{}
		for _, x := range m.Members {
			if s[x] {
				d.monitor = append(d.monitor, "dup-member-in-ipset-update "+m.Id)
			}
			s[x] = true
		}
		d.ipsets[m.Id] = s
		d.ipsetTy[m.Id] = m.Type.String()
		return
	case *proto.IPSetDeltaUpdate:
		s, ok := d.ipsets[m.Id]
		if !ok {
			d.monitor = append(d.monitor, "delta-to-missing-ipset "+m.Id)
			return
		}
		for _, x := range m.RemovedMembers {
			if !s[x] {
				d.monitor = append(d.monitor, "remove-absent-member "+m.Id+" "+x)
			}
			delete(s, x)
		}
		for _, x := range m.AddedMembers {
			if s[x] {
				d.monitor = append(d.monitor, "add-present-member "+m.Id+" "+x)
			}
			s[x] = true
		}
		return
	case *proto.IPSetRemove:
		if _, ok := d.ipsets[m.Id]; !ok {
			d.monitor = append(d.monitor, "remove-unknown-ipset "+m.Id)
		}
		delete(d.ipsets, m.Id)
		delete(d.ipsetTy, m.Id)
		return
	case *calc.DatastoreNotReady:
		d.single["DatastoreNotReady"] = "1"
		return
	}
	pm, ok := ev.(googleproto.Message)
	if !ok {
		d.single[fmt.Sprintf("%T", ev)] = fmt.Sprintf("%v", ev)
		return
	}
	name := string(pm.ProtoReflect().Descriptor().Name())
	switch {
	case strings.HasSuffix(name, "Update") && name != "ConfigUpdate" && name != "GlobalBGPConfigUpdate":
		d.objs[strings.TrimSuffix(name, "Update")+"/"+keyOf(pm.ProtoReflect())] = canon(pm)
	case strings.HasSuffix(name, "Remove"):
		k := strings.TrimSuffix(name, "Remove") + "/" + keyOf(pm.ProtoReflect())
		if _, ok := d.objs[k]; !ok {
			d.monitor = append(d.monitor, "remove-unknown "+k)
		}
		delete(d.objs, k)
	default:
		d.single[name] = canon(pm)
	}
}

// lines returns the canonical, sorted description of the accumulated state.
func (d *dpState) lines() []string {
	var out []string
	for k, v := range d.objs {
		out = append(out, k+" = "+v)
	}
	for id, s := range d.ipsets {
		var ms []string
		for m := range s {
			ms = append(ms, m)
		}
		sort.Strings(ms)
		out = append(out, "IPSet/"+id+" = "+d.ipsetTy[id]+" ["+strings.Join(ms, ",")+"]")
	}
	for k, v := range d.single {
		if k == "DatastoreNotReady" {
			continue
		}
		out = append(out, "Singleton/"+k+" = "+v)
	}
	out = append(out, "InSync = "+strconv.FormatBool(d.inSync))
	sort.Strings(out)
	return out
}

// ---- the real graph ---------------------------------------------------------

type graph struct {
	vf  *calc.ValidationFilter
	cg  *calc.CalcGraph
	seq *calc.EventSequencer
	dp  *dpState
}

type cfgVariant struct {
	vxlan, ipip, bpf bool
	routeSource      string
}

func newGraph(cv cfgVariant) *graph {
	conf := config.New()
	conf.FelixHostname = localHost
	conf.BPFEnabled = cv.bpf
	conf.RouteSource = cv.routeSource
	conf.Encapsulation = config.Encapsulation{VXLANEnabled: cv.vxlan, VXLANEnabledV6: cv.vxlan, IPIPEnabled: cv.ipip}
	g := &graph{dp: newDP()}
	g.seq = calc.NewEventSequencer(conf)
	g.seq.Callback = g.dp.onMsg
	g.cg = calc.NewCalculationGraph(g.seq, calc.NewLookupsCache(), conf, func() {})
	g.vf = calc.NewValidationFilter(g.cg, conf)
	return g
}

func (g *graph) flush() {
	g.cg.Flush()
	g.seq.Flush()
}

func (g *graph) update(e *entry, variant int, ut api.UpdateType) {
	g.vf.OnUpdates([]api.Update{{KVPair: model.KVPair{Key: e.key, Value: e.variants[variant]}, UpdateType: ut}})
}

// ---- cases ------------------------------------------------------------------

type runState struct {
	g       *graph
	cv      cfgVariant
	cur     map[string]int // key name -> current variant in the datastore
	insync  bool
	history []string

	lastCompared int
}

var universe = buildUniverse()
var byName = func() map[string]*entry {
	m := map[string]*entry{}
	for _, e := range universe {
		m[e.name] = e
	}
	return m
}()

// invalidPresent is the semantic clause "an INVALID resource is treated as ABSENT": for every key whose
// current datastore value is invalid by construction (universe ground truth, not the filter's verdict) the
// accumulated dataplane state must hold no object for it.  Returns the offending "<key name> -> <object>" pairs.
func invalidPresent(s *runState) []string {
	var bad []string
	for name, v := range s.cur {
		e := byName[name]
		if v == 0 || !e.invalid[v] {
			continue
		}
		switch k := e.key.(type) {
		case model.WorkloadEndpointKey:
			obj := "WorkloadEndpoint/" + canon(&proto.WorkloadEndpointID{OrchestratorId: k.OrchestratorID, WorkloadId: k.WorkloadID, EndpointId: k.EndpointID})
			if _, ok := s.g.dp.objs[obj]; ok {
				bad = append(bad, name+" -> "+obj)
			}
		case model.HostEndpointKey:
			obj := "HostEndpoint/" + canon(&proto.HostEndpointID{EndpointId: k.EndpointID})
			if _, ok := s.g.dp.objs[obj]; ok {
				bad = append(bad, name+" -> "+obj)
			}
		case model.PolicyKey:
			for obj := range s.g.dp.objs {
				if strings.HasPrefix(obj, "ActivePolicy/") && strings.Contains(obj, "name:\""+k.Name+"\"") {
					bad = append(bad, name+" -> "+obj)
				}
			}
		}
	}
	sort.Strings(bad)
	return bad
}

func checkInvalidAbsent(h *rt.H, s *runState) {
	if bad := invalidPresent(s); len(bad) > 0 {
		h.OracleFail("invalid-not-absent", "a resource whose current datastore value is INVALID is present in the dataplane state (it must be treated as absent): "+strings.Join(bad, "; "),
			map[string]any{"config": s.cv, "history": append([]string(nil), s.history...), "final_state": s.cur, "present": bad})
	}
}

// safeExec runs one op.  A panic raised by the REAL code under test is an oracle failure with a concrete
// failing input (the ops so far), not a harness crash.
func safeExec(h *rt.H, s *runState, op string, before []string) (out string, ok bool) {
	defer func() {
		if r := recover(); r != nil {
			msg := fmt.Sprint(r)
			if strings.HasPrefix(msg, "unknown op") {
				panic(r) // a harness/protocol bug, not the code under test
			}
			out, ok = "PANIC", false
			h.OracleFail("panic", fmt.Sprintf("the real code panicked at op %q: %s", op, trunc(msg)),
				map[string]any{"config": s.cv, "ops": append(append([]string(nil), before...), op), "panic": msg})
		}
	}()
	return exec(h, s, op), true
}

func exec(h *rt.H, s *runState, op string) string {
	w := strings.Fields(op)
	switch w[0] {
	case "new":
		// new <vxlan> <ipip> <bpf> <routeSource> <overlap-suppression> <ipset id table>   (the last two are for the model)
		s.cv = cfgVariant{vxlan: w[1] == "1", ipip: w[2] == "1", bpf: w[3] == "1", routeSource: w[4]}
		s.g = newGraph(s.cv)
		s.cur = map[string]int{}
		s.insync = false
		s.history = nil
		return "ok"
	case "kv":
		// kv <keyname> <variant>   (variant 0 = delete; repeated/unchanged values allowed)
		e := byName[w[1]]
		v, _ := strconv.Atoi(w[2])
		old := s.cur[e.name]
		ut := api.UpdateTypeKVUpdated
		if old == 0 {
			ut = api.UpdateTypeKVNew
		}
		if v == 0 {
			ut = api.UpdateTypeKVDeleted
		}
		s.g.update(e, v, ut)
		s.cur[e.name] = v
		s.history = append(s.history, op)
		return "ok"
	case "insync":
		s.g.vf.OnStatusUpdated(api.InSync)
		s.insync = true
		return "ok"
	case "flush":
		s.g.flush()
		checkInvalidAbsent(h, s)
		return "ok " + s.g.dp.proj.render(s.g.dp)
	case "dump":
		s.g.flush()
		return strings.Join(s.g.dp.lines(), " ;; ")
	case "check":
		// the property oracle: accumulated state == state emitted by a fresh graph fed only the final state
		if !s.insync {
			return "skip"
		}
		s.g.flush()
		checkInvalidAbsent(h, s)
		fresh := newGraph(s.cv)
		names := make([]string, 0, len(s.cur))
		for n, v := range s.cur {
			if v != 0 {
				names = append(names, n)
			}
		}
		sort.Strings(names)
		// feed in a PRNG-chosen order: the fresh run's result must not depend on it either
		h.Rng.Shuffle(len(names), func(i, j int) { names[i], names[j] = names[j], names[i] })
		for _, n := range names {
			fresh.update(byName[n], s.cur[n], api.UpdateTypeKVNew)
		}
		fresh.vf.OnStatusUpdated(api.InSync)
		fresh.flush()
		a, b := s.g.dp.lines(), fresh.dp.lines()
		if d := firstDiff(a, b); d != "" {
			h.OracleFail("history-dependent", "dataplane state after the history differs from a fresh Felix fed only the final state: "+d,
				map[string]any{"config": s.cv, "history": append([]string(nil), s.history...), "final_state": s.cur, "diff": d})
			return "DIFF"
		}
		if len(s.g.dp.monitor) > 0 {
			h.Count("monitor:" + strings.Fields(s.g.dp.monitor[0])[0])
		}
		s.lastCompared = len(a)
		return "same " + s.g.dp.proj.render(s.g.dp)
	}
	panic("unknown op " + op)
}

func firstDiff(a, b []string) string {
	am, bm := map[string]bool{}, map[string]bool{}
	for _, x := range a {
		am[x] = true
	}
	for _, x := range b {
		bm[x] = true
	}
	for _, x := range a {
		if !bm[x] {
			return "history-only: " + trunc(x)
		}
	}
	for _, x := range b {
		if !am[x] {
			return "fresh-only: " + trunc(x)
		}
	}
	return ""
}

func trunc(s string) string {
	if len(s) > 600 {
		return s[:600] + "…"
	}
	return s
}

func genCase(h *rt.H) []string {
	b := func(x bool) string {
		if x {
			return "1"
		}
		return "0"
	}
	rsrc := rt.Pick(h, []string{"CalicoIPAM", "CalicoIPAM", "WorkloadIPs"})
	ops := []string{fmt.Sprintf("new %s %s %s %s %s %s", b(h.Chance(0.7)), b(h.Chance(0.3)), b(h.Chance(0.3)), rsrc, b(config.New().NFTablesMode != "Disabled"), idTableToken())}
	// focus each case on a random sub-universe so that keys are revisited often
	var focus []*entry
	for _, e := range universe {
		if h.Chance(0.55) {
			focus = append(focus, e)
		}
	}
	if len(focus) < 3 {
		focus = universe
	}
	kv := func(name string, v int) string { return fmt.Sprintf("kv %s %d %s", name, v, descr[name][v]) }
	if h.Chance(0.15) {
		// profile-ORDER scenario: two profiles define the same label key with different values, an
		// endpoint / network set that does not set the key lists both, a policy or rule selector depends
		// on the value, and then ONLY the order of the profile ids changes (first profile wins).
		pair := rt.Pick(h, []struct {
			name string
			a, b int
		}{{"wep:w0", 6, 7}, {"wep:w0", 7, 6}, {"wep:w1", 4, 5}, {"wep:w1", 5, 4}, {"wep:w2", 4, 5}, {"netset:n0", 4, 5}, {"netset:n0", 5, 4}})
		pre := []string{
			kv("plabels:p0", rt.Pick(h, []int{5, 6})), kv("plabels:p1", rt.Pick(h, []int{5, 6})), kv("plabels:p2", rt.Pick(h, []int{0, 5, 6})),
			kv("tier:default", 1),
			rt.Pick(h, []string{kv("pol:gnp-a", 7), kv("pol:gnp-b", 7), kv("pol:gnp-a", 2), kv("pol:gnp-b", 8)}),
		}
		if h.Bool() { // a second consumer of the label: rules whose selectors become IP sets
			pre = append(pre, rt.Pick(h, []string{kv("pol:gnp-b", 7), kv("pol:gnp-a", 7), kv("prules:p0", 1), kv("pol:np-c", 1)}))
		}
		if pair.name != "wep:w0" && pair.name != "wep:w1" { // make sure some local endpoint keeps the rules active
			pre = append(pre, kv("wep:w0", rt.Pick(h, []int{6, 7, 1})))
		}
		h.Rng.Shuffle(len(pre), func(i, j int) { pre[i], pre[j] = pre[j], pre[i] })
		ops = append(ops, pre...)
		if h.Bool() {
			ops = append(ops, "insync")
		}
		ops = append(ops, kv(pair.name, pair.a))
		if h.Chance(0.7) {
			ops = append(ops, "flush")
		}
		for k := h.Intn(3); k > 0; k-- { // unrelated noise in between
			e := rt.Pick(h, universe)
			if strings.HasPrefix(e.name, "plabels:") || strings.HasPrefix(e.name, "pol:") || e.name == pair.name || strings.HasPrefix(e.name, "wep:w0") {
				continue
			}
			ops = append(ops, kv(e.name, h.Intn(len(e.variants))))
		}
		ops = append(ops, kv(pair.name, pair.b))
		if !strings.Contains(strings.Join(ops, ";"), ";insync") {
			ops = append(ops, "insync")
		}
		ops = append(ops, "flush", "check")
		if h.Bool() {
			return ops
		}
		// otherwise continue with a random tail (in-sync already signalled)
		n := 3 + h.Intn(15)
		for i := 0; i < n; i++ {
			e := rt.Pick(h, focus)
			ops = append(ops, kv(e.name, h.Intn(len(e.variants))))
			if h.Chance(0.3) {
				ops = append(ops, "flush")
			}
		}
		return append(ops, "flush", "check")
	}
	if h.Chance(0.06) {
		// RE-ADDRESSED NODE: a node that carries tunnel addresses gets a new main IP (and subnet) while its tunnel
		// addresses stay the same; the routes for the tunnel IPs must follow (DstNodeIp, SameSubnet).
		ops[0] = fmt.Sprintf("new %s %s %s %s %s %s", b(h.Chance(0.8)), b(h.Chance(0.5)), b(h.Chance(0.3)), rsrc, b(config.New().NFTablesMode != "Disabled"), idTableToken())
		pair := rt.Pick(h, []struct {
			name string
			a, b int
		}{{"node:h1", 5, 6}, {"node:h1", 6, 5}, {"node:h1", 7, 8}, {"node:h1", 8, 7}, {"node:h0", 5, 6}, {"node:h0", 6, 5}})
		pre := []string{kv("pool:10.0", rt.Pick(h, []int{1, 2, 3})), kv("pool:192.168", rt.Pick(h, []int{0, 1, 2}))}
		if pair.name == "node:h1" {
			pre = append(pre, kv("node:h0", rt.Pick(h, []int{1, 2, 4, 5})))
		} else {
			pre = append(pre, kv("node:h1", rt.Pick(h, []int{1, 2, 5})))
		}
		if h.Bool() {
			pre = append(pre, kv("block:10.0.1.0", rt.Pick(h, []int{1, 2})))
		}
		h.Rng.Shuffle(len(pre), func(i, j int) { pre[i], pre[j] = pre[j], pre[i] })
		ops = append(ops, pre...)
		if h.Bool() {
			ops = append(ops, "insync")
		}
		ops = append(ops, kv(pair.name, pair.a))
		if h.Chance(0.6) {
			ops = append(ops, "flush")
		}
		ops = append(ops, kv(pair.name, pair.b))
		if !strings.Contains(strings.Join(ops, ";"), ";insync") {
			ops = append(ops, "insync")
		}
		return append(ops, "flush", "check")
	}
	if h.Chance(0.10) {
		// INACTIVE-THEN-ACTIVE-AGAIN inside ONE flush window: a profile is active and already sent with real
		// rules; the last local endpoint naming it goes away; the profile's rules are deleted / replaced by an
		// invalid or a different version; another local endpoint naming it appears; only then a flush.  The
		// dataplane must end up with what a fresh Felix computes for the final state (deny stand-in / new rules).
		type onOff struct {
			name    string
			on, off []int
		}
		motif := rt.Pick(h, []struct {
			prof string
			eps  []onOff
		}{
			{"p0", []onOff{{"wep:w0", []int{1, 2, 6, 7}, []int{3, 4, 0}}, {"wep:w1", []int{2, 3, 4, 5}, []int{1, 0}}, {"hep:e0", []int{1}, []int{2, 0}}}},
			{"p1", []onOff{{"wep:w0", []int{2, 5, 6, 7}, []int{1, 3, 4, 0}}, {"wep:w1", []int{1, 2, 4, 5}, []int{3, 0}}, {"hep:e0", []int{3}, []int{2, 0}}}},
			{"p2", []onOff{{"wep:w0", []int{3}, []int{1, 2, 4, 0}}, {"wep:w1", []int{3, 4, 5}, []int{1, 2, 0}}}},
		})
		e1 := rt.Pick(h, motif.eps)
		e2 := rt.Pick(h, motif.eps)
		first := rt.Pick(h, []int{1, 2, 3})
		ops = append(ops, kv("prules:"+motif.prof, first), kv(e1.name, rt.Pick(h, e1.on)))
		if h.Bool() {
			ops = append(ops, kv("tier:default", 1), rt.Pick(h, []string{kv("pol:gnp-a", 1), kv("pol:gnp-b", 6)}))
		}
		ops = append(ops, "insync", "flush")
		// the window: no flush between these steps
		ops = append(ops, kv(e1.name, rt.Pick(h, e1.off)))
		ops = append(ops, kv("prules:"+motif.prof, rt.Pick(h, []int{0, 0, 4, 5, 1 + first%3})))
		if e2.name != e1.name && h.Chance(0.3) { // make sure the other endpoint does not already name the profile
			ops = append(ops, kv(e2.name, rt.Pick(h, e2.off)))
		}
		ops = append(ops, kv(e2.name, rt.Pick(h, e2.on)), "flush", "check")
		if h.Bool() {
			return ops
		}
		n := 3 + h.Intn(10)
		for i := 0; i < n; i++ {
			e := rt.Pick(h, focus)
			ops = append(ops, kv(e.name, h.Intn(len(e.variants))))
			if h.Chance(0.3) {
				ops = append(ops, "flush")
			}
		}
		return append(ops, "flush", "check")
	}
	n := 5 + h.Intn(45)
	insyncAt := h.Intn(n + 1)
	flushMode := h.Intn(4) // 0: after every update, 1: random, 2: only at end, 3: batches
	last := map[string]int{}
	for i := 0; i < n; i++ {
		if i == insyncAt {
			ops = append(ops, "insync")
		}
		e := rt.Pick(h, focus)
		var v int
		switch h.Intn(10) {
		case 0, 1: // delete (possibly spurious: already absent)
			v = 0
		case 2: // duplicate of the current value
			v = last[e.name]
		default:
			v = h.Intn(len(e.variants))
		}
		last[e.name] = v
		ops = append(ops, fmt.Sprintf("kv %s %d %s", e.name, v, descr[e.name][v]))
		switch flushMode {
		case 0:
			ops = append(ops, "flush")
		case 1:
			if h.Chance(0.3) {
				ops = append(ops, "flush")
			}
		case 3:
			if i%7 == 6 {
				ops = append(ops, "flush")
			}
		}
		if h.Chance(0.08) && i > insyncAt {
			ops = append(ops, "check")
		}
	}
	if insyncAt >= n {
		ops = append(ops, "insync")
	}
	ops = append(ops, "flush", "check")
	return ops
}

func main() {
	h := rt.New()
	defer h.Close()
	precompute()
	if os.Getenv("C01_VERDICTS") != "" {
		// debugging aid: ground truth vs the real filter's verdict for every variant
		for _, e := range universe {
			for v := 1; v < len(e.variants); v++ {
				fmt.Fprintf(os.Stderr, "%s#%d marked-invalid=%v filter-passes=%v\n", e.name, v, e.invalid[v], passesValidation(e, v))
			}
		}
	}
	h.Rule = fmt.Sprintf("case = one Felix config (vxlan/ipip/bpf/route source) + a history of 5..49 KV updates over a focused sub-universe of %d keys "+
		"(2 local + 2 remote WEPs, 2 HEPs, 3 profiles (rules+labels), 3 tiers, 4 policies incl. staged/untracked/preDNAT, 2 network sets, 2 pools, 2 blocks, 3 nodes, host IP, VTEP config; "+
		"each with 2..6 value variants incl. INVALID ones, deletes, duplicates, reverts), in-sync at a random point, flush strategy in {every update, random, batches, only at end}; "+
		"non-trivial = the final accumulated state has >=1 active policy/profile, >=1 IP set and the oracle compared >=10 state lines; distinct by op sequence", len(universe))
	run := func(ops []string, tag string) {
		h.Case(tag)
		s := &runState{}
		lastOut := ""
		for i, op := range ops {
			out, ok := safeExec(h, s, op, ops[:i])
			h.Op(op, out)
			h.Count("op:" + strings.Fields(op)[0])
			if !ok {
				// the real code panicked: recorded as an oracle failure; the case ends here and the next
				// case starts from a fresh graph (`new`)
				h.Count("panic")
				s.g = nil
				break
			}
			if strings.HasPrefix(op, "check") {
				lastOut = out
			}
		}
		if s.g != nil {
			h.Count(fmt.Sprintf("final-objs:%02d+", len(s.g.dp.objs)/10*10))
			h.Count(fmt.Sprintf("final-ipsets:%d", min(len(s.g.dp.ipsets), 9)))
			if strings.HasPrefix(lastOut, "same") {
				n := s.lastCompared
				if n >= 10 && len(s.g.dp.ipsets) > 0 {
					h.Nontrivial(strings.Join(ops, ";"))
				}
			}
		}
		h.Sample()
	}
	if h.Replay != "" {
		run(h.ReplayLines(), "replay")
		return
	}
	for i := 0; i < h.N; i++ {
		run(genCase(h), "gen")
	}
}
