package main

// Bounded universe of datastore keys and value variants for C01 histories.
// Variant 0 of every key is "deleted"; the others are concrete values.  A few
// variants are deliberately INVALID (they must be treated as deletes by the
// ValidationFilter).

import (
	"fmt"
	"net"
	"net/netip"

	v3 "github.com/projectcalico/api/pkg/apis/projectcalico/v3"
	"github.com/projectcalico/api/pkg/lib/numorstring"
	metav1 "k8s.io/apimachinery/pkg/apis/meta/v1"

	"github.com/projectcalico/calico/lib/std/uniquelabels"
	internalapi "github.com/projectcalico/calico/libcalico-go/lib/apis/internalapi"
	"github.com/projectcalico/calico/libcalico-go/lib/backend/encap"
	"github.com/projectcalico/calico/libcalico-go/lib/backend/model"
	calinet "github.com/projectcalico/calico/libcalico-go/lib/net"
)

const (
	localHost = "h0"
	remote1   = "h1"
	remote2   = "h2"
)

type entry struct {
	name     string // protocol name of the key
	key      model.Key
	variants []any    // variants[0] == nil (delete)
	desc     []string // human/protocol description per variant
	// invalid[v]: variant v is INVALID BY CONSTRUCTION (fails schema validation or the endpoint-specific
	// check).  Ground truth independent of the real ValidationFilter: the model is told "deleted" for
	// these and the semantic oracle demands that the resource is absent from the dataplane state.
	invalid map[int]bool
}

func mustNet(s string) calinet.IPNet {
	_, n, err := calinet.ParseCIDR(s)
	if err != nil {
		panic(err)
	}
	return *n
}
func mustNetP(s string) *calinet.IPNet { n := mustNet(s); return &n }
func mustIP(s string) calinet.IP       { return calinet.IP{IP: net.ParseIP(s)} }
func f64(f float64) *float64           { return &f }
func lbl(kv ...string) uniquelabels.Map {
	m := map[string]string{}
	for i := 0; i+1 < len(kv); i += 2 {
		m[kv[i]] = kv[i+1]
	}
	return uniquelabels.Make(m)
}
func protoP(s string) *numorstring.Protocol { p := numorstring.ProtocolFromStringV1(s); return &p }

var selectors = []string{
	"all()", "a == 'x'", "a == 'y'", "has(b)", "a == 'x' && has(b)", "!has(a)", "role == 'db'",
	"role in {'db','web'}", "a != 'x'", "profile == 'p0'", "has(ns)", "has(a) || has(ns)",
}

func wep(name string, labels uniquelabels.Map, profiles []string, ips []string, ports ...model.EndpointPort) *model.WorkloadEndpoint {
	w := &model.WorkloadEndpoint{State: "active", Name: name, ProfileIDs: profiles, Labels: labels, Ports: ports}
	for _, ip := range ips {
		n := mustNet(ip)
		if n.Version() == 4 {
			w.IPv4Nets = append(w.IPv4Nets, n)
		} else {
			w.IPv6Nets = append(w.IPv6Nets, n)
		}
	}
	return w
}

func port(name, p string, n uint16) model.EndpointPort {
	return model.EndpointPort{Name: name, Protocol: numorstring.ProtocolFromStringV1(p), Port: n}
}

func rule(action string, mod func(r *model.Rule)) model.Rule {
	r := model.Rule{Action: action}
	if mod != nil {
		mod(&r)
	}
	return r
}

func namedPort(n string) []numorstring.Port {
	p, err := numorstring.NamedPort(n)
	if err != nil {
		panic(err)
	}
	return []numorstring.Port{p}
}

// candidate rule lists (shared by policies and profiles)
func ruleSets() [][]model.Rule {
	return [][]model.Rule{
		{},
		{rule("allow", nil)},
		{rule("deny", func(r *model.Rule) { r.SrcSelector = "a == 'x'" })},
		{rule("allow", func(r *model.Rule) { r.SrcSelector = "has(b)"; r.NotDstSelector = "a == 'y'" })},
		{rule("allow", func(r *model.Rule) {
			r.Protocol = protoP("tcp")
			r.DstPorts = namedPort("http")
			r.DstSelector = "all()"
		}),
			rule("deny", func(r *model.Rule) { r.SrcSelector = "role == 'db'" })},
		{rule("allow", func(r *model.Rule) {
			r.Protocol = protoP("tcp")
			r.SrcPorts = namedPort("http")
			r.SrcSelector = "a == 'x'"
		})},
		{rule("pass", func(r *model.Rule) {
			r.SrcNets = []*calinet.IPNet{mustNetP("10.0.0.0/24")}
			r.DstSelector = "role in {'db','web'}"
		})},
		{rule("allow", func(r *model.Rule) { r.Protocol = protoP("udp"); r.DstPorts = namedPort("dns") }),
			rule("allow", func(r *model.Rule) { r.SrcSelector = "a == 'x'" }), // same selector as another set: shared IP set
			rule("log", func(r *model.Rule) { r.NotSrcSelector = "has(ns)" })},
		{rule("allow", func(r *model.Rule) { r.SrcSelector = "profile == 'p0'" })},
		{rule("deny", func(r *model.Rule) { r.DstSelector = "has(a) || has(ns)"; r.NotProtocol = protoP("tcp") })},
		// positive OR-selector combined with a negated one: the "(%s) && (!(%s))" parentheses matter
		{rule("allow", func(r *model.Rule) { r.SrcSelector = "has(a) || has(ns)"; r.NotSrcSelector = "a == 'x'" }),
			rule("deny", func(r *model.Rule) {
				r.Protocol = protoP("tcp")
				r.DstSelector = "role == 'db' || has(b)"
				r.NotDstSelector = "!has(a)"
				r.DstPorts = namedPort("http")
			})},
		// selectors on a label that several profiles define with DIFFERENT values (first profile wins)
		{rule("allow", func(r *model.Rule) { r.SrcSelector = "team == 'blue'" }),
			rule("deny", func(r *model.Rule) {
				r.Protocol = protoP("tcp")
				r.DstSelector = "team == 'red'"
				r.DstPorts = namedPort("http")
			}),
			rule("allow", func(r *model.Rule) { r.NotSrcSelector = "has(team)" })},
		{rule("allow", func(r *model.Rule) { r.SrcSelector = "a == 'y' || team == 'red'" }),
			rule("deny", func(r *model.Rule) { r.DstSelector = "role == 'web'"; r.NotDstSelector = "team == 'blue'" })},
	}
}

func buildUniverse() []*entry {
	var u []*entry
	add := func(name string, k model.Key, vals ...any) {
		e := &entry{name: name, key: k, variants: append([]any{nil}, vals...)}
		for i := range e.variants {
			e.desc = append(e.desc, fmt.Sprintf("%s#%d", name, i))
		}
		u = append(u, e)
	}
	markInvalid := func(name string, vs ...int) {
		for _, e := range u {
			if e.name == name {
				if e.invalid == nil {
					e.invalid = map[int]bool{}
				}
				for _, v := range vs {
					if v <= 0 || v >= len(e.variants) {
						panic("markInvalid: bad variant")
					}
					e.invalid[v] = true
				}
				return
			}
		}
		panic("markInvalid: unknown " + name)
	}
	rs := ruleSets()

	// ---- workload endpoints (two local, two remote) ----
	wk := func(host, id string) model.WorkloadEndpointKey {
		return model.WorkloadEndpointKey{Hostname: host, OrchestratorID: "k8s", WorkloadID: "ns/" + id, EndpointID: "eth0"}
	}
	add("wep:w0", wk(localHost, "w0"),
		wep("cali0", lbl("a", "x", "b", "1"), []string{"p0"}, []string{"10.0.0.1/32"}, port("http", "tcp", 80)),
		wep("cali0", lbl("a", "y"), []string{"p0", "p1"}, []string{"10.0.0.1/32", "fd00::1/128"}, port("http", "tcp", 8080), port("dns", "udp", 53)),
		wep("cali0", lbl("role", "db"), []string{"p2"}, []string{"10.0.0.2/32"}),
		wep("cali0b", lbl("a", "x"), nil, []string{"10.0.0.1/32"}),
		wep("cali0", lbl(), []string{"p1", "pmissing"}, []string{"10.0.0.9/32"}, port("http", "tcp", 80), port("http", "udp", 80)),
		// identical except for the ORDER of the same profile ids
		wep("cali0", lbl("b", "1"), []string{"p0", "p1"}, []string{"10.0.0.5/32"}, port("http", "tcp", 80)),
		wep("cali0", lbl("b", "1"), []string{"p1", "p0"}, []string{"10.0.0.5/32"}, port("http", "tcp", 80)),
		// INVALID (schema): named port whose protocol is not tcp/udp/sctp — otherwise a copy of variant 1
		wep("cali0", lbl("a", "x", "b", "1"), []string{"p0"}, []string{"10.0.0.1/32"}, port("http", "icmp", 80)),
		// INVALID (endpoint-specific check): no interface name
		wep("", lbl("a", "x"), []string{"p0", "p1"}, []string{"10.0.0.1/32"}),
	)
	markInvalid("wep:w0", 8, 9)
	add("wep:w1", wk(localHost, "w1"),
		wep("cali1", lbl("a", "x"), []string{"p1"}, []string{"10.0.0.3/32"}, port("http", "tcp", 80)),
		wep("cali1", lbl("a", "x", "role", "web"), []string{"p0", "p1"}, []string{"10.0.0.1/32"}), // shares IP with w0
		wep("cali1", lbl("b", "2"), []string{"p2", "p0"}, []string{"10.0.0.3/32", "10.0.0.4/32"}, port("dns", "udp", 5353)),
		wep("cali1", lbl(), []string{"p1", "p0", "p2"}, []string{"10.0.0.6/32"}, port("http", "tcp", 81)),
		wep("cali1", lbl(), []string{"p0", "p2", "p1"}, []string{"10.0.0.6/32"}, port("http", "tcp", 81)),
		// INVALID (schema): named port with protocol icmp
		wep("cali1", lbl("a", "x", "role", "db"), []string{"p1", "p2"}, []string{"10.0.0.3/32"}, port("dns", "icmp", 53)),
		// the same profile id listed TWICE (first occurrence wins for label inheritance; fix c40ff03)
		wep("cali1", lbl("b", "2"), []string{"p0", "p1", "p0"}, []string{"10.0.0.3/32"}, port("http", "tcp", 80)),
	)
	markInvalid("wep:w1", 6)
	add("wep:w2", wk(remote1, "w2"),
		wep("cali2", lbl("a", "x"), []string{"p0"}, []string{"10.0.1.1/32"}, port("http", "tcp", 80)),
		wep("cali2", lbl("a", "y", "role", "db"), []string{"p1"}, []string{"10.0.1.1/32", "10.0.1.2/32"}, port("http", "tcp", 81)),
		wep("cali2", lbl("b", "1"), nil, []string{"10.0.0.1/32"}), // remote sharing local IP
		wep("cali2", lbl("b", "1"), []string{"p0", "p1"}, []string{"10.0.1.5/32"}, port("http", "tcp", 80)),
		wep("cali2", lbl("b", "1"), []string{"p1", "p0"}, []string{"10.0.1.5/32"}, port("http", "tcp", 80)),
		// INVALID (schema), remote: must not contribute IP-set members
		wep("cali2", lbl("a", "x", "b", "1"), []string{"p0"}, []string{"10.0.1.9/32"}, port("http", "icmp", 80)),
	)
	markInvalid("wep:w2", 6)
	add("wep:w3", wk(remote2, "w3"),
		wep("cali3", lbl("role", "web"), []string{"p2"}, []string{"10.0.2.1/32"}, port("http", "tcp", 80), port("dns", "udp", 53)),
		wep("cali3", lbl("a", "x", "b", "1"), []string{"p0", "p2"}, []string{"10.0.2.1/32", "fd00::2/128"}),
	)
	// ---- host endpoints ----
	hep := func(name string, labels uniquelabels.Map, profiles []string, ips ...string) *model.HostEndpoint {
		h := &model.HostEndpoint{Name: name, Labels: labels, ProfileIDs: profiles}
		for _, ip := range ips {
			h.ExpectedIPv4Addrs = append(h.ExpectedIPv4Addrs, mustIP(ip))
		}
		return h
	}
	add("hep:e0", model.HostEndpointKey{Hostname: localHost, EndpointID: "e0"},
		hep("eth0", lbl("a", "x"), []string{"p0"}, "192.168.0.1"),
		hep("eth0", lbl("role", "db", "b", "1"), nil, "192.168.0.1", "192.168.0.9"),
		hep("*", lbl("a", "y"), []string{"p1"}),
		// INVALID (schema): named port with protocol icmp
		func() *model.HostEndpoint {
			h := hep("eth0", lbl("a", "x", "b", "1"), []string{"p0", "p1"}, "192.168.0.1")
			h.Ports = []model.EndpointPort{port("http", "icmp", 80)}
			return h
		}(),
	)
	markInvalid("hep:e0", 4)
	add("hep:e1", model.HostEndpointKey{Hostname: remote1, EndpointID: "e1"},
		hep("eth0", lbl("a", "x"), []string{"p0"}, "192.168.0.2"),
		hep("eth1", lbl("role", "web"), nil, "192.168.0.2"),
	)
	// ---- profiles: rules + labels (v3 Profile resource carries LabelsToApply) ----
	for i, p := range []string{"p0", "p1", "p2"} {
		add("prules:"+p, model.ProfileRulesKey{ProfileKey: model.ProfileKey{Name: p}},
			&model.ProfileRules{InboundRules: rs[(1+i)%len(rs)], OutboundRules: rs[(2+i)%len(rs)]},
			&model.ProfileRules{InboundRules: rs[(4+i)%len(rs)], OutboundRules: rs[1]},
			&model.ProfileRules{InboundRules: rs[0], OutboundRules: rs[(7+i)%len(rs)]},
			&model.ProfileRules{InboundRules: []model.Rule{rule("allow", func(r *model.Rule) { r.SrcSelector = "has(" })}},    // INVALID selector
			&model.ProfileRules{InboundRules: []model.Rule{rule("allow", func(r *model.Rule) { t := 300; r.ICMPType = &t })}}, // INVALID ICMP type
		)
		markInvalid("prules:"+p, 4, 5)
		mkProf := func(l map[string]string) *v3.Profile {
			return &v3.Profile{TypeMeta: metav1.TypeMeta{Kind: v3.KindProfile, APIVersion: v3.GroupVersionCurrent},
				ObjectMeta: metav1.ObjectMeta{Name: p}, Spec: v3.ProfileSpec{LabelsToApply: l}}
		}
		add("plabels:"+p, model.ResourceKey{Kind: v3.KindProfile, Name: p},
			mkProf(map[string]string{"profile": p}),
			mkProf(map[string]string{"a": "x", "ns": p}),
			mkProf(map[string]string{"role": "db", "b": "9"}),
			mkProf(nil),
			// the same keys with DIFFERENT values per profile
			mkProf(map[string]string{"team": []string{"red", "blue", "green"}[i]}),
			mkProf(map[string]string{"team": []string{"red", "blue", "green"}[i], "a": []string{"x", "y", "x"}[i], "role": []string{"db", "web", "web"}[i]}),
			mkProf(map[string]string{"bad key!": "x", "a": "x"}), // INVALID label key
		)
		markInvalid("plabels:"+p, 7)
	}
	// ---- tiers ----
	add("tier:default", model.TierKey{Name: "default"},
		&model.Tier{Order: f64(1000)}, &model.Tier{Order: nil}, &model.Tier{Order: f64(5)})
	add("tier:t1", model.TierKey{Name: "t1"},
		&model.Tier{Order: f64(10)}, &model.Tier{Order: f64(1000)}, &model.Tier{Order: nil, DefaultAction: v3.Pass}, &model.Tier{Order: f64(10), DefaultAction: v3.Pass})
	add("tier:t2", model.TierKey{Name: "t2"},
		&model.Tier{Order: f64(10)}, &model.Tier{Order: f64(20)}, &model.Tier{Order: nil})
	// ---- policies ----
	staged := v3.StagedActionSet
	pol := func(tier string, order *float64, sel string, in, out []model.Rule, mod func(p *model.Policy)) *model.Policy {
		p := &model.Policy{Tier: tier, Order: order, Selector: sel, InboundRules: in, OutboundRules: out}
		if len(in) > 0 {
			p.Types = append(p.Types, "ingress")
		}
		if len(out) > 0 {
			p.Types = append(p.Types, "egress")
		}
		if len(p.Types) == 0 {
			p.Types = []string{"ingress"}
		}
		if mod != nil {
			mod(p)
		}
		return p
	}
	add("pol:gnp-a", model.PolicyKey{Name: "gnp-a", Kind: v3.KindGlobalNetworkPolicy},
		pol("default", f64(10), "all()", rs[1], rs[2], nil),
		pol("default", f64(10), "a == 'x'", rs[4], nil, nil),
		pol("t1", f64(5), "a == 'x'", rs[3], rs[5], nil),
		pol("t1", nil, "has(b)", nil, rs[7], nil),
		pol("default", f64(10), "has(", rs[1], nil, nil), // INVALID selector
		pol("default", f64(10), "all()", rs[1], nil, func(p *model.Policy) { p.DoNotTrack = true; p.ApplyOnForward = true }),
		pol("default", f64(10), "team == 'blue'", rs[11], rs[12], nil),
		pol("default", f64(10), "all()", []model.Rule{rule("allow", func(r *model.Rule) { t := 300; r.ICMPType = &t })}, nil, nil), // INVALID ICMP type
	)
	markInvalid("pol:gnp-a", 5, 8)
	add("pol:gnp-b", model.PolicyKey{Name: "gnp-b", Kind: v3.KindGlobalNetworkPolicy},
		pol("default", f64(10), "a == 'x'", rs[2], nil, nil), // same order as gnp-a: name tie-break
		pol("default", f64(5), "role == 'db'", rs[6], rs[6], nil),
		pol("t2", f64(1), "all()", rs[8], nil, nil),
		pol("t1", f64(5), "a == 'x' && has(b)", rs[9], rs[1], nil),
		pol("default", nil, "all()", rs[1], nil, func(p *model.Policy) { p.PreDNAT = true; p.ApplyOnForward = true }),
		pol("default", f64(20), "has(a)", rs[10], rs[10], nil),
		pol("t1", f64(2), "team == 'red' || role == 'web'", rs[11], nil, nil),
		pol("default", f64(1), "has(team)", rs[12], rs[11], nil),
		// INVALID: a RULE selector that does not parse (the rule scanner would panic on it if it got through)
		pol("default", f64(10), "all()", []model.Rule{rule("allow", func(r *model.Rule) { r.SrcSelector = "has(" })}, nil, nil),
		pol("default", f64(10), "a == 'x'", nil, []model.Rule{rule("deny", func(r *model.Rule) { r.DstSelector = "a == 'x'"; r.NotDstSelector = "b ==" })}, nil),
	)
	markInvalid("pol:gnp-b", 9, 10)
	add("pol:np-c", model.PolicyKey{Name: "np-c", Namespace: "ns", Kind: v3.KindNetworkPolicy},
		pol("default", f64(10), "has(a)", rs[5], rs[4], func(p *model.Policy) { p.Namespace = "ns" }),
		pol("t2", nil, "!has(a)", rs[2], nil, func(p *model.Policy) { p.Namespace = "ns" }),
		pol("tmissing", f64(3), "all()", rs[1], nil, func(p *model.Policy) { p.Namespace = "ns" }), // tier that never exists
	)
	add("pol:sgnp-d", model.PolicyKey{Name: "sgnp-d", Kind: v3.KindStagedGlobalNetworkPolicy},
		pol("default", f64(7), "all()", rs[2], nil, func(p *model.Policy) { p.StagedAction = &staged }),
		pol("t1", f64(7), "a == 'x'", rs[7], rs[2], func(p *model.Policy) { p.StagedAction = &staged }),
	)
	// ---- network sets ----
	ns := func(labels uniquelabels.Map, profiles []string, nets ...string) *model.NetworkSet {
		n := &model.NetworkSet{Labels: labels, ProfileIDs: profiles}
		for _, s := range nets {
			n.Nets = append(n.Nets, mustNet(s))
		}
		return n
	}
	add("netset:n0", model.NetworkSetKey{Name: "n0"},
		ns(lbl("a", "x"), nil, "12.0.0.0/24", "12.0.0.0/25"),
		ns(lbl("role", "db"), []string{"p0"}, "12.0.0.0/24", "10.0.0.1/32"),
		ns(lbl("a", "x", "b", "1"), nil, "0.0.0.0/0"),
		ns(lbl("b", "1"), []string{"p0", "p1"}, "13.0.0.0/24"),
		ns(lbl("b", "1"), []string{"p1", "p0"}, "13.0.0.0/24"),
	)
	add("netset:n1", model.NetworkSetKey{Name: "n1"},
		ns(lbl("a", "x"), nil, "12.0.0.0/24"), // duplicate CIDR with n0
		ns(lbl("a", "y"), []string{"p1"}, "12.0.0.128/25", "fd00:1::/64"),
		ns(lbl("b", "1"), []string{"p1", "p1", "p0"}, "14.0.0.0/24"), // duplicate profile id
	)
	// ---- IP pools, blocks, nodes, VXLAN tunnel config ----
	add("pool:10.0", model.IPPoolKey{CIDR: netip.MustParsePrefix("10.0.0.0/16")},
		&model.IPPool{CIDR: mustNet("10.0.0.0/16"), VXLANMode: encap.Always, Masquerade: true},
		&model.IPPool{CIDR: mustNet("10.0.0.0/16"), VXLANMode: encap.CrossSubnet},
		&model.IPPool{CIDR: mustNet("10.0.0.0/16"), IPIPMode: encap.Always},
		&model.IPPool{CIDR: mustNet("10.0.0.0/16")},
	)
	add("pool:10.0.1", model.IPPoolKey{CIDR: netip.MustParsePrefix("10.0.1.0/24")}, // nested in the other pool
		&model.IPPool{CIDR: mustNet("10.0.1.0/24"), VXLANMode: encap.Always},
		&model.IPPool{CIDR: mustNet("10.0.1.0/24"), Disabled: true},
	)
	// a pool that COVERS the node addresses: REMOTE_HOST routes inside a cross-subnet pool, whose
	// same-subnet flag depends on the local node's address (which may arrive before or after the
	// remote node's) — fix e2a246c
	add("pool:192.168", model.IPPoolKey{CIDR: netip.MustParsePrefix("192.168.0.0/16")},
		&model.IPPool{CIDR: mustNet("192.168.0.0/16"), VXLANMode: encap.CrossSubnet},
		&model.IPPool{CIDR: mustNet("192.168.0.0/16"), IPIPMode: encap.CrossSubnet},
		&model.IPPool{CIDR: mustNet("192.168.0.0/16"), VXLANMode: encap.Always},
		&model.IPPool{CIDR: mustNet("192.168.0.0/16")},
	)
	aff := func(h string) *string { s := "host:" + h; return &s }
	blk := func(cidr, host string, borrowed map[int]string) *model.AllocationBlock {
		b := &model.AllocationBlock{CIDR: mustNet(cidr), Affinity: aff(host), Allocations: make([]*int, 8)}
		b.Attributes = nil
		for ord := 0; ord < 8; ord++ {
			if node, ok := borrowed[ord]; ok {
				idx := len(b.Attributes)
				b.Attributes = append(b.Attributes, model.AllocationAttribute{ActiveOwnerAttrs: map[string]string{model.IPAMBlockAttributeNode: node}})
				b.Allocations[ord] = &idx
			} else {
				b.Unallocated = append(b.Unallocated, ord)
			}
		}
		return b
	}
	add("block:10.0.1.0", model.BlockKey{CIDR: netip.MustParsePrefix("10.0.1.0/29")},
		blk("10.0.1.0/29", remote1, nil),
		blk("10.0.1.0/29", remote1, map[int]string{1: remote1, 2: remote2, 3: localHost}),
		blk("10.0.1.0/29", remote2, map[int]string{1: remote1}),
		blk("10.0.1.0/29", localHost, map[int]string{2: remote1}),
	)
	add("block:10.0.0.0", model.BlockKey{CIDR: netip.MustParsePrefix("10.0.0.0/29")},
		blk("10.0.0.0/29", localHost, map[int]string{1: localHost, 2: localHost}),
		blk("10.0.0.0/29", localHost, map[int]string{1: localHost, 3: remote1}),
		blk("10.0.0.0/29", remote2, nil),
	)
	node := func(name, ip string) *internalapi.Node {
		return &internalapi.Node{TypeMeta: metav1.TypeMeta{Kind: internalapi.KindNode, APIVersion: v3.GroupVersionCurrent},
			ObjectMeta: metav1.ObjectMeta{Name: name}, Spec: internalapi.NodeSpec{BGP: &internalapi.NodeBGPSpec{IPv4Address: ip}}}
	}
	node6 := func(name, ip4, ip6 string) *internalapi.Node {
		n := node(name, ip4)
		n.Spec.BGP.IPv6Address = ip6
		return n
	}
	// a node that carries TUNNEL addresses (IPIP, VXLAN v4/v6, Wireguard): the pairs below differ ONLY in the node's
	// main IPv4 / IPv6 address (and subnet), the tunnel addresses stay the same
	nodeT := func(name, ip4, ip6, ipip, vx4, vx6, wg4 string) *internalapi.Node {
		n := node6(name, ip4, ip6)
		n.Spec.BGP.IPv4IPIPTunnelAddr = ipip
		n.Spec.IPv4VXLANTunnelAddr = vx4
		n.Spec.IPv6VXLANTunnelAddr = vx6
		if wg4 != "" {
			n.Spec.Wireguard = &internalapi.NodeWireguardSpec{InterfaceIPv4Address: wg4}
		}
		return n
	}
	// the local node also has a v6-ONLY variant (no IPv4 address: zero V4 CIDR — fix 7bc5b47) and a dual-stack one
	add("node:h0", model.ResourceKey{Kind: internalapi.KindNode, Name: localHost}, node(localHost, "192.168.0.1/24"), node(localHost, "192.168.5.1/24"),
		node6(localHost, "", "fd00:aa::1/64"), node6(localHost, "192.168.0.1/24", "fd00:aa::1/64"),
		nodeT(localHost, "192.168.0.1/24", "fd00:aa::1/64", "10.0.0.1", "10.0.0.0", "fd00:10::", "10.0.0.2"),
		nodeT(localHost, "192.168.5.1/24", "fd00:bb::1/64", "10.0.0.1", "10.0.0.0", "fd00:10::", "10.0.0.2"))
	add("node:h1", model.ResourceKey{Kind: internalapi.KindNode, Name: remote1}, node(remote1, "192.168.0.2/24"), node(remote1, "192.168.9.2/24"), node(remote1, "192.168.0.3/32"),
		node6(remote1, "192.168.0.2/24", "fd00:aa::2/64"),
		nodeT(remote1, "192.168.0.2/24", "fd00:aa::2/64", "10.0.1.1", "10.0.1.0", "fd00:10::1", "10.0.1.2"),
		nodeT(remote1, "192.168.9.2/24", "fd00:bb::2/64", "10.0.1.1", "10.0.1.0", "fd00:10::1", "10.0.1.2"),
		nodeT(remote1, "192.168.0.2/24", "", "10.0.1.1", "", "", ""),
		nodeT(remote1, "192.168.9.2/24", "", "10.0.1.1", "", "", ""))
	add("node:h2", model.ResourceKey{Kind: internalapi.KindNode, Name: remote2}, node(remote2, "192.168.0.3/24"), node(remote2, "192.168.0.2/24")) // may duplicate h1's IP
	add("vtep:h1", model.HostConfigKey{Hostname: remote1, Name: "IPv4VXLANTunnelAddr"}, "10.0.1.0", "10.0.1.7")
	add("vtep:h2", model.HostConfigKey{Hostname: remote2, Name: "IPv4VXLANTunnelAddr"}, "10.0.2.0")
	add("vtep:h0", model.HostConfigKey{Hostname: localHost, Name: "IPv4VXLANTunnelAddr"}, "10.0.0.0")
	// a second (IPv6) VTEP address for h1: deleting vtep:h1 then leaves a VTEP that has LOST its v4 address (fix f51d894)
	add("vtep6:h1", model.HostConfigKey{Hostname: remote1, Name: "IPv6VXLANTunnelAddr"}, "fd00:10::1", "fd00:10::7")
	add("vtepmac:h1", model.HostConfigKey{Hostname: remote1, Name: "VXLANTunnelMACAddr"}, "66:00:00:00:00:01", "66:00:00:00:00:02")
	return u
}
