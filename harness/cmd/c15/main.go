// C15 correspondence harness: drives the real felix/iptables.Table (legacy mode) over the repo's own
// mock dataplane (felix/iptables/testutils.MockDataplane), wrapped so that a failing iptables-restore
// transaction is atomic (the table is rolled back) and so that an out-of-band edit can be injected
// right before a restore.
package main

import (
	"fmt"
	"regexp"
	"sort"
	"strconv"
	"strings"
	"time"

	"github.com/onsi/gomega"

	"github.com/projectcalico/calico/felix/environment"
	"github.com/projectcalico/calico/felix/generictables"
	"github.com/projectcalico/calico/felix/iptables"
	"github.com/projectcalico/calico/felix/iptables/cmdshim"
	"github.com/projectcalico/calico/felix/iptables/testutils"
	"github.com/projectcalico/calico/felix/rules/rulesdefs"
	"github.com/projectcalico/calico/lib/logrusr"

	"verif/harness/rt"
)

type mockFail string

type world struct {
	h     *rt.H
	dp    *testutils.MockDataplane
	table *iptables.Table
	fd    *environment.FeatureDetector
	mode  string

	saveFails, restoreFails []bool
	pre                     string
	trace                   []string
	sleeps                  int
	dead                    bool

	// spec-level shadow of the API calls (property oracle)
	chains  map[string]specChain
	inserts map[string][]string // kernel chain -> rendered rule texts
	appends map[string][]string
	// clean: nobody has edited the table since Felix last re-read it (an Apply with a successful iptables-save and no
	// edit before its restore): Felix's cached picture must then be accurate and every successful Apply must converge
	clean    bool
	hookRefs map[string][]string // "<kernel chain>/ins" or "/app" -> Felix chains the hook rules jump to
	// out-of-band edits since the last successful Apply that re-read the table
	opDesc string
}

type specChain struct {
	rules []string // rendered texts (without "-A chain ")
	refs  []string
	force bool
}

var hashRe = regexp.MustCompile(`--comment "?cali:([a-zA-Z0-9_-]+)"?`)
var oldRe = regexp.MustCompile(`(?:-j|--jump) (?:cali-|califw-|calitw-|califh-|calith-|calipi-|calipo-|felix-)`)
var oursRe = regexp.MustCompile(`^(cali-|califw-|calitw-|califh-|calith-|calipi-|calipo-|felix-)`)

func isForeign(rule string) bool { return !hashRe.MatchString(rule) && !oldRe.MatchString(rule) }

func esc(s string) string   { return strings.ReplaceAll(s, " ", "^") }
func unesc(s string) string { return strings.ReplaceAll(s, "^", " ") }
func b01(b bool) string {
	if b {
		return "1"
	}
	return "0"
}

// ---- command wrapper -------------------------------------------------------------------

type restoreWrap struct {
	cmdshim.CmdIface
	w *world
}

func copyChains(c map[string][]string) map[string][]string {
	out := map[string][]string{}
	for k, v := range c {
		out[k] = append([]string{}, v...)
	}
	return out
}

// canonInput: the model writes the transaction in a canonical order (forward references sorted, then
// per-chain groups sorted by chain name keeping their internal order, then chain deletions sorted);
// inside one atomic transaction this is equivalent to any order Go's map iteration produces.
func canonInput(input string) []string {
	var fwd, del []string
	groups := map[string][]string{}
	for _, l := range strings.Split(input, "\n") {
		switch {
		case l == "" || strings.HasPrefix(l, "*") || l == "COMMIT" || strings.HasPrefix(l, "#"):
		case strings.HasPrefix(l, ":"):
			fwd = append(fwd, l)
		case strings.HasPrefix(l, "--delete-chain "):
			del = append(del, l)
		default:
			c := strings.Split(l, " ")[1]
			groups[c] = append(groups[c], l)
		}
	}
	sort.Strings(fwd)
	sort.Strings(del)
	var names []string
	for c := range groups {
		names = append(names, c)
	}
	// Felix-owned chains (second pass of applyUpdates) before shared chains (insert/append pass)
	sort.Slice(names, func(i, j int) bool {
		oi, oj := oursRe.MatchString(names[i]), oursRe.MatchString(names[j])
		if oi != oj {
			return oi
		}
		return names[i] < names[j]
	})
	out := fwd
	for _, c := range names {
		out = append(out, groups[c]...)
	}
	return append(out, del...)
}

func (r *restoreWrap) Run() (err error) {
	w := r.w
	// out-of-band edit just before the (first) restore
	hadPre := w.pre != ""
	if w.pre != "" {
		p := strings.Split(w.pre, "@")
		w.pre = ""
		idx, _ := strconv.Atoi(p[1])
		if rs, ok := w.dp.Chains[p[0]]; ok && idx < len(rs) {
			w.dp.Chains[p[0]] = append(append([]string{}, rs[:idx]...), rs[idx+1:]...)
		}
	}
	fail := false
	if len(w.restoreFails) > 0 {
		fail = w.restoreFails[0]
		w.restoreFails = w.restoreFails[1:]
	}
	// Felix's view is fresh when this transaction directly follows a successful iptables-save and nobody edited
	// the table in between
	fresh := !hadPre && len(w.trace) > 0 && w.trace[len(w.trace)-1] == "S:ok"
	snapshot := copyChains(w.dp.Chains)
	before := copyChains(w.dp.Chains)
	captured := ""
	if s, ok := r.CmdIface.(fmt.Stringer); ok {
		q := strings.TrimPrefix(s.String(), "restoreCmd ")
		if u, e := strconv.Unquote(q); e == nil {
			captured = u
		}
	}
	shown := "R[" + strings.Join(canonInput(captured), ";") + "]"
	defer func() {
		if rec := recover(); rec != nil {
			if _, ok := rec.(mockFail); !ok {
				panic(rec)
			}
			w.dp.Chains = snapshot
			w.trace = append(w.trace, shown+":f")
			err = fmt.Errorf("iptables-restore: line failed: %v", rec)
		}
	}()
	if fail {
		w.trace = append(w.trace, shown+":f")
		return fmt.Errorf("simulated iptables-restore failure")
	}
	if e := r.CmdIface.Run(); e != nil {
		w.dp.Chains = snapshot
		w.trace = append(w.trace, shown+":f")
		return e
	}
	w.trace = append(w.trace, shown+":ok")
	w.txnOracle(before)
	if fresh {
		w.rewriteOracle(before, captured)
	}
	return nil
}

// rewriteOracle: "unchanged chains are not rewritten", evaluated on the real code for one successful
// transaction computed from a fresh view of the table: a chain that existed before and holds exactly the same
// rules afterwards must not be named by any line of the transaction (no flush, replace, delete or append).
func (w *world) rewriteOracle(before map[string][]string, input string) {
	named := map[string]bool{}
	for _, l := range strings.Split(input, "\n") {
		switch {
		case l == "" || strings.HasPrefix(l, "*") || l == "COMMIT" || strings.HasPrefix(l, "#"):
		case strings.HasPrefix(l, ":"):
			named[strings.Split(l[1:], " ")[0]] = true
		case strings.HasPrefix(l, "--delete-chain "):
			named[strings.TrimPrefix(l, "--delete-chain ")] = true
		default:
			if f := strings.Split(l, " "); len(f) > 1 {
				named[f[1]] = true
			}
		}
	}
	for c := range named {
		rs, ok := before[c]
		after, ok2 := w.dp.Chains[c]
		if ok && ok2 && strings.Join(rs, "\n") == strings.Join(after, "\n") {
			w.h.OracleFail("unchanged-chain-rewritten", "a transaction computed from a fresh view names a chain whose rules it leaves exactly as they were",
				map[string]any{"chain": c, "rules": rs, "op": w.opDesc})
		}
		w.h.Count("rewrite-oracle-chains")
	}
}

type saveWrap struct {
	cmdshim.CmdIface
	w    *world
	fail bool
}

func (s *saveWrap) Start() error {
	if s.fail {
		return fmt.Errorf("simulated iptables-save start failure")
	}
	return s.CmdIface.Start()
}

func (w *world) newCmd(name string, arg ...string) cmdshim.CmdIface {
	cmd := w.dp.NewCmd(name, arg...)
	switch {
	case strings.HasSuffix(name, "-restore"):
		return &restoreWrap{CmdIface: cmd, w: w}
	case strings.HasSuffix(name, "-save"):
		fail := false
		if len(w.saveFails) > 0 {
			fail = w.saveFails[0]
			w.saveFails = w.saveFails[1:]
		}
		if fail {
			w.trace = append(w.trace, "S:f")
		} else {
			w.trace = append(w.trace, "S:ok")
		}
		return &saveWrap{CmdIface: cmd, w: w, fail: fail}
	}
	return cmd
}

// txnOracle: unowned_unchanged evaluated on the real code for one successful transaction:
// every chain that is not Felix's keeps its foreign rules, in the same order; foreign chains
// are neither created nor deleted.
func (w *world) txnOracle(before map[string][]string) {
	foreignOf := func(rs []string) []string {
		var out []string
		for _, r := range rs {
			if isForeign(r) {
				out = append(out, r)
			}
		}
		return out
	}
	for c, rs := range before {
		if oursRe.MatchString(c) {
			continue
		}
		after, ok := w.dp.Chains[c]
		if !ok {
			w.h.OracleFail("foreign-chain-deleted", "a chain Felix does not own was deleted", map[string]any{"chain": c, "op": w.opDesc})
			continue
		}
		if strings.Join(foreignOf(rs), "\n") != strings.Join(foreignOf(after), "\n") {
			w.h.OracleFail("foreign-rules-changed", "the rules of other software in a shared chain were changed or reordered",
				map[string]any{"chain": c, "before": foreignOf(rs), "after": foreignOf(after), "op": w.opDesc})
		}
	}
	for c := range w.dp.Chains {
		if _, ok := before[c]; !ok && !oursRe.MatchString(c) {
			w.h.OracleFail("foreign-chain-created", "Felix created a chain outside its name space", map[string]any{"chain": c, "op": w.opDesc})
		}
	}
}

// ---- state printing -------------------------------------------------------------------------

func showMapList(m map[string][]string, sep string, f func(string) string) string {
	keys := make([]string, 0, len(m))
	for k := range m {
		keys = append(keys, k)
	}
	sort.Strings(keys)
	parts := make([]string, len(keys))
	for i, k := range keys {
		vs := make([]string, len(m[k]))
		for j, v := range m[k] {
			vs[j] = f(v)
		}
		parts[i] = k + "=[" + strings.Join(vs, sep) + "]"
	}
	return "{" + strings.Join(parts, ";") + "}"
}

func showNames(l []string) string {
	c := append([]string{}, l...)
	sort.Strings(c)
	return "{" + strings.Join(c, ",") + "}"
}

func (w *world) showState() string {
	st := w.table.VerifState()
	keys := make([]string, 0, len(st.RefCounts))
	for k := range st.RefCounts {
		keys = append(keys, k)
	}
	sort.Strings(keys)
	rc := make([]string, len(keys))
	for i, k := range keys {
		rc[i] = fmt.Sprintf("%s=%d", k, st.RefCounts[k])
	}
	return "K" + showMapList(w.dp.Chains, "|", esc) + " H" + showMapList(st.DataplaneHashes, ",", esc) +
		" F" + showMapList(st.FullRules, "|", esc) + " R{" + strings.Join(rc, ";") + "}" +
		" C" + showNames(st.Chains) + " Y" + showNames(st.DirtyChains) + " Z" + showNames(st.DirtyInsertApp) +
		fmt.Sprintf(" s%s S%d", b01(st.InSync), w.sleeps)
}

// ---- rules --------------------------------------------------------------------------------------

// A generated rule: index into a small vocabulary + optional jump target.
func mkRule(tok string) generictables.Rule {
	p := strings.Split(tok, ":")
	switch p[0] {
	case "j":
		return generictables.Rule{Match: iptables.Match(), Action: iptables.JumpAction{Target: p[1]}}
	case "g":
		return generictables.Rule{Match: iptables.Match().Protocol("tcp"), Action: iptables.GotoAction{Target: p[1]}}
	case "d":
		n, _ := strconv.Atoi(p[1])
		return generictables.Rule{Match: iptables.Match().SourceNet(fmt.Sprintf("10.0.%d.0/24", n)), Action: iptables.DropAction{}}
	case "a":
		n, _ := strconv.Atoi(p[1])
		return generictables.Rule{Match: iptables.Match().Protocol("tcp").DestPorts(uint16(1000 + n)), Action: iptables.AcceptAction{},
			Comment: []string{fmt.Sprintf("rule %d", n)}}
	case "r":
		return generictables.Rule{Match: iptables.Match(), Action: iptables.ReturnAction{}}
	}
	panic("bad rule token " + tok)
}

func refOf(r generictables.Rule) string {
	if ref, ok := r.Action.(iptables.Referrer); ok {
		return ref.ReferencedChain()
	}
	return "-"
}

// ---- exec ---------------------------------------------------------------------------------------------

func kv(pfx string, ws []string) string {
	for _, w := range ws {
		if strings.HasPrefix(w, pfx) {
			return w[len(pfx):]
		}
	}
	return ""
}

func splitList(sep, s string) []string {
	if s == "-" || s == "" {
		return nil
	}
	var out []string
	for _, x := range strings.Split(s, sep) {
		if x != "" {
			out = append(out, x)
		}
	}
	return out
}

func bools(s string) []bool {
	var out []bool
	for _, x := range splitList(",", s) {
		out = append(out, x == "1")
	}
	return out
}

func (w *world) newTable(mode string) {
	w.mode = mode
	w.clean = false
	w.fd = environment.NewFeatureDetector(nil)
	w.fd.NewCmd = w.dp.NewCmd
	w.fd.GetKernelVersionReader = w.dp.GetKernelVersionReader
	w.table = iptables.NewTable("filter", 4, rulesdefs.RuleHashPrefix, w.fd, iptables.TableOptions{
		HistoricChainPrefixes: rulesdefs.AllHistoricChainNamePrefixes,
		NewCmdOverride:        w.newCmd,
		SleepOverride:         func(d time.Duration) { w.sleeps++ },
		NowOverride:           w.dp.Now,
		InsertMode:            mode,
		BackendMode:           "legacy",
		LookPathOverride:      testutils.LookPathAll,
		OpRecorder:            logrusr.NewSummarizer("verif"),
	})
	w.chains = map[string]specChain{}
	w.inserts = map[string][]string{}
	w.appends = map[string][]string{}
	w.hookRefs = map[string][]string{}
	w.sleeps = 0
}

// rulesOf builds the real rules from vocabulary tokens and renders them (text after "-A <chain> ").
func (w *world) rulesOf(chain string, toks string, appends bool) ([]generictables.Rule, []string) {
	var rs []generictables.Rule
	var texts []string
	for _, t := range splitList("|", toks) {
		rs = append(rs, mkRule(t))
	}
	name := chain
	if appends {
		name = chain + "*appends*"
	}
	hashes := iptables.CalculateRuleHashes(name, rs, w.fd.GetFeatures())
	rend := iptables.NewIptablesRenderer(rulesdefs.RuleHashPrefix)
	for i := range rs {
		line := rend.RenderAppend(&rs[i], chain, hashes[i], w.fd.GetFeatures())
		texts = append(texts, strings.TrimPrefix(line, "-A "+chain+" "))
	}
	return rs, texts
}

// drules renders the model-side description `<hash>;<ref>;<spec>` of rules (hashes from the REAL renderer).
func (w *world) drules(chain string, toks string, appends bool) string {
	rs, texts := w.rulesOf(chain, toks, appends)
	if len(rs) == 0 {
		return "-"
	}
	var out []string
	for i := range rs {
		m := hashRe.FindStringSubmatch(texts[i])
		if m == nil {
			panic("rendered rule has no hash comment: " + texts[i])
		}
		spec := strings.TrimPrefix(texts[i], `-m comment --comment "cali:`+m[1]+`" `)
		out = append(out, m[1]+";"+refOf(rs[i])+";"+esc(spec))
	}
	return strings.Join(out, "|")
}

func guard(f func()) (panicked bool) {
	defer func() {
		if r := recover(); r != nil {
			panicked = true
		}
	}()
	f()
	return false
}

func exec(w *world, op string) string {
	ws := strings.Fields(op)
	w.opDesc = op
	if ws[0] == "new" {
		w.dp = testutils.NewMockDataplane("filter", map[string][]string{"INPUT": {}, "FORWARD": {}, "OUTPUT": {}}, "legacy")
		w.dead = false
		w.newTable(ws[1])
		return "ok"
	}
	if w.dead {
		return "dead"
	}
	switch ws[0] {
	case "restart":
		w.newTable(ws[1])
		return "ok"
	case "kchain":
		w.clean = false
		var rs []string
		for _, t := range splitList("|", ws[2]) {
			p := strings.SplitN(t, ";", 3)
			switch p[0] {
			case "h":
				rs = append(rs, `-m comment --comment "cali:`+p[1]+`" `+unesc(p[2]))
			default:
				rs = append(rs, unesc(p[1]))
			}
		}
		if rs == nil {
			rs = []string{}
		}
		w.dp.Chains[ws[1]] = rs
		return "ok"
	case "kdelchain":
		w.clean = false
		delete(w.dp.Chains, ws[1])
		return "ok"
	case "chain":
		rs, texts := w.rulesOf(ws[1], ws[3], false)
		if got := w.drules(ws[1], ws[3], false); ws[4] != "?" && got != ws[4] {
			panic("op line out of date with the renderer: " + got + " vs " + ws[4])
		}
		w.table.UpdateChain(&generictables.Chain{Name: ws[1], Rules: rs, ForceProgramming: ws[2] == "1"})
		var refs []string
		for _, r := range rs {
			if x := refOf(r); x != "-" {
				refs = append(refs, x)
			}
		}
		w.chains[ws[1]] = specChain{rules: texts, refs: refs, force: ws[2] == "1"}
		return "ok"
	case "rmchain":
		w.table.RemoveChainByName(ws[1])
		delete(w.chains, ws[1])
		return "ok"
	case "ins", "app":
		rs, texts := w.rulesOf(ws[1], ws[2], ws[0] == "app")
		if got := w.drules(ws[1], ws[2], ws[0] == "app"); got != ws[3] {
			panic("op line out of date with the renderer: " + got + " vs " + ws[3])
		}
		if rs == nil {
			rs = []generictables.Rule{}
		}
		var hrefs []string
		for _, r := range rs {
			if x := refOf(r); x != "-" {
				hrefs = append(hrefs, x)
			}
		}
		w.hookRefs[ws[1]+"/"+ws[0]] = hrefs
		if ws[0] == "ins" {
			w.table.InsertOrAppendRules(ws[1], rs)
			w.inserts[ws[1]] = texts
		} else {
			w.table.AppendRules(ws[1], rs)
			w.appends[ws[1]] = texts
		}
		return "ok"
	case "invalidate":
		w.table.InvalidateDataplaneCache("verif")
		return "ok"
	case "state":
		return w.showState()
	case "apply":
		w.saveFails = bools(kv("s=", ws[1:]))
		w.restoreFails = bools(kv("r=", ws[1:]))
		w.pre = kv("pre=", ws[1:])
		w.trace = nil
		if guard(func() { w.table.Apply() }) {
			w.dead = true
			if len(ws) == 1 {
				// no save/restore failure and no concurrent edit was injected: the dataplane accepts every write
				w.h.OracleFail("apply-gave-up", "Apply gave up (panicked) although no iptables-save/iptables-restore failure and no concurrent edit was injected",
					map[string]any{"trace": w.trace, "op": op})
			}
			return "panic"
		}
		w.pre = ""
		w.convergenceOracle(op)
		tr := make([]string, len(w.trace))
		for i, t := range w.trace {
			tr[i] = esc(t)
		}
		return "ok T=" + strings.Join(tr, " ") + " " + w.showState()
	}
	panic("unknown op " + op)
}

// checkCacheOK: the hypothesis `CacheOK` of the convergence theorems evaluated on the real code: for every
// Felix-named chain that is not dirty, the cache of programmed hashes equals the hashes of the desired chain
// (present in Felix's state and referenced), and there is no cache entry when the chain is not desired.
func (w *world) checkCacheOK(op string) {
	st := w.table.VerifState()
	dirty := map[string]bool{}
	for _, c := range st.DirtyChains {
		dirty[c] = true
	}
	names := map[string]bool{}
	for c := range st.DataplaneHashes {
		names[c] = true
	}
	for c := range w.chains {
		names[c] = true
	}
	for c := range names {
		if !oursRe.MatchString(c) || dirty[c] {
			continue
		}
		sc, present := w.chains[c]
		desired := present && st.RefCounts[c] > 0
		got, has := st.DataplaneHashes[c]
		ok := desired == has
		if ok && desired {
			var want []string
			for _, r := range sc.rules {
				m := hashRe.FindStringSubmatch(r)
				want = append(want, m[1])
			}
			ok = strings.Join(want, ",") == strings.Join(got, ",")
		}
		if !ok {
			w.h.OracleFail("cache-not-desired", "a clean Felix chain's cached hashes differ from its desired hashes",
				map[string]any{"chain": c, "cached": got, "has": has, "desired": desired, "op": op})
		}
	}
}

// reachable: the chains that are wanted by the property's own statement (NOT read from the code's reference
// counts): reachable, through the jumps of the chains Felix was given, from the hook rules (inserts/appends of the
// shared chains) or from a force-programmed chain.  `skipForce` ignores the force flag of that one chain.
func (w *world) reachable(skipForce string) map[string]bool {
	refd := map[string]bool{}
	var visit func(c string)
	visit = func(c string) {
		if refd[c] {
			return
		}
		refd[c] = true
		if sc, ok := w.chains[c]; ok {
			for _, r := range sc.refs {
				visit(r)
			}
		}
	}
	for _, rs := range w.hookRefs {
		for _, c := range rs {
			visit(c)
		}
	}
	for c, sc := range w.chains {
		if sc.force && c != skipForce {
			visit(c)
		}
	}
	return refd
}

// checkRefcounts: refcount_eq_reachability evaluated on the real code after every operation: a chain has a positive
// reference count iff it is a kernel chain of this table or reachable (see `reachable`).
func (w *world) checkRefcounts(op string) {
	st := w.table.VerifState()
	want := w.reachable("")
	for _, c := range kernelCh {
		want[c] = true
	}
	for c, n := range st.RefCounts {
		if n > 0 && !want[c] {
			w.h.OracleFail("refcount-not-reachability", "a chain has a positive reference count although no hook rule or force-programmed chain reaches it",
				map[string]any{"chain": c, "count": n, "op": op})
		}
		if n < 0 {
			w.h.OracleFail("refcount-not-reachability", "negative reference count", map[string]any{"chain": c, "count": n, "op": op})
		}
	}
	for c := range want {
		if st.RefCounts[c] <= 0 {
			w.h.OracleFail("refcount-not-reachability", "a chain reachable from a hook rule or force-programmed chain has no reference count",
				map[string]any{"chain": c, "op": op})
		}
	}
}

// convergenceOracle: apply_converges evaluated on the real code.  It is only demanded when the
// Apply re-read the table (an iptables-save succeeded during this Apply) and no out-of-band edit
// was injected after that read, i.e. when Felix's picture of the table was fresh.
func (w *world) convergenceOracle(op string) {
	sawSave, editedAfter := false, strings.Contains(op, "pre=")
	for _, t := range w.trace {
		if t == "S:ok" {
			sawSave = true
		}
	}
	if editedAfter {
		w.clean = false
		return
	}
	if sawSave {
		w.clean = true
	}
	if !w.clean {
		return
	}
	refd := w.reachable("")
	for c, sc := range w.chains {
		if !refd[c] {
			continue
		}
		got, ok := w.dp.Chains[c]
		if !ok || strings.Join(got, "\n") != strings.Join(sc.rules, "\n") {
			w.h.OracleFail("owned-chain-not-converged", "after a successful Apply a referenced Felix chain does not hold exactly the desired rules",
				map[string]any{"chain": c, "kernel": got, "desired": sc.rules, "op": op})
		}
	}
	for c := range w.dp.Chains {
		if oursRe.MatchString(c) {
			if _, ok := w.chains[c]; !ok || !refd[c] {
				why := "Felix was never given it, or it was removed"
				if ok {
					why = "not reachable from any hook rule or force-programmed chain"
				}
				w.h.OracleFail("stale-chain-after-apply", "after a successful Apply a Felix-named chain that is not desired is still present",
					map[string]any{"chain": c, "why": why, "rules": w.dp.Chains[c], "op": op})
			}
			continue
		}
		// shared chain: Felix's rules are exactly inserts (top / bottom per mode) + appends, in order
		var mine []string
		for _, r := range w.dp.Chains[c] {
			if !isForeign(r) {
				mine = append(mine, r)
			}
		}
		want := append(append([]string{}, w.inserts[c]...), w.appends[c]...)
		if strings.Join(mine, "\n") != strings.Join(want, "\n") {
			w.h.OracleFail("hook-chain-not-as-desired", "after a successful Apply the Felix rules in a shared chain are not exactly the configured hooks (inserted rules once, appended rules once), in order",
				map[string]any{"chain": c, "kernel": mine, "desired": want, "op": op})
			continue
		}
		// position: insert mode -> our inserts first; append mode -> inserts after the foreign rules; appends last
		rs := w.dp.Chains[c]
		ni, na := len(w.inserts[c]), len(w.appends[c])
		okPos := true
		for i := 0; i < na; i++ {
			if isForeign(rs[len(rs)-1-i]) {
				okPos = false
			}
		}
		if w.mode == "insert" {
			for i := 0; i < ni; i++ {
				if isForeign(rs[i]) {
					okPos = false
				}
			}
		} else {
			for i := 0; i < ni; i++ {
				if isForeign(rs[len(rs)-na-1-i]) {
					okPos = false
				}
			}
		}
		if !okPos {
			w.h.OracleFail("hook-chain-not-as-desired", "Felix's hook rules are not at the configured position of the shared chain (inserts at the configured end, appends last, other software's rules in between)",
				map[string]any{"chain": c, "kernel": rs, "mode": w.mode, "op": op})
		}
	}
}

// ---- generator ---------------------------------------------------------------------------------------------

var caliChains = []string{"cali-a", "cali-b", "cali-c", "cali-d", "cali-fw-x"}
var staleChains = []string{"cali-old", "califw-1", "felix-FORWARD", "calipo-zz"}
var foreignChains = []string{"KUBE-FORWARD", "DOCKER", "calico-dhcp", "ufw-x"}
var kernelCh = []string{"INPUT", "FORWARD", "OUTPUT"}

// targetsFrom: the chain reference graph is kept acyclic (references only go "down" the list): iptables
// itself rejects loops, and the real decrefChain does not terminate on a cyclic reference (excluded point,
// see the report) -- a stack overflow cannot be recovered by the harness.
func targetsFrom(from string) []string {
	for i, c := range caliChains {
		if c == from {
			return caliChains[i+1:]
		}
	}
	return caliChains
}

func genToks(h *rt.H, from string) string {
	n := h.Intn(5)
	if n == 0 {
		return "-"
	}
	tg := targetsFrom(from)
	var ts []string
	for i := 0; i < n; i++ {
		k := h.Intn(6)
		if len(tg) == 0 && k < 2 {
			k = 2
		}
		switch k {
		case 0:
			ts = append(ts, "j:"+rt.Pick(h, tg))
		case 1:
			ts = append(ts, "g:"+rt.Pick(h, tg))
		case 2, 3:
			ts = append(ts, fmt.Sprintf("d:%d", h.Intn(4)))
		case 4:
			ts = append(ts, fmt.Sprintf("a:%d", h.Intn(4)))
		default:
			ts = append(ts, "r")
		}
	}
	return strings.Join(ts, "|")
}

func genKRules(h *rt.H, w *world, chain string) string {
	n := h.Intn(5)
	if n == 0 {
		return "-"
	}
	var ts []string
	for i := 0; i < n; i++ {
		switch h.Intn(6) {
		case 0, 1: // a foreign rule
			ts = append(ts, "f;"+esc(rt.Pick(h, []string{"-s 1.2.3.4/32 -j ACCEPT", "-j KUBE-FORWARD", "-m conntrack --ctstate RELATED,ESTABLISHED -j ACCEPT", "-j calico-dhcp", "-p tcp -j DOCKER"})))
		case 2: // an old-style insert without a hash
			ts = append(ts, "o;"+esc(rt.Pick(h, []string{"-j felix-FORWARD", "--jump cali-old", "-m foo --jump califw-1"})))
		case 3: // a stale Felix rule with an unknown hash
			ts = append(ts, "h;"+rt.Pick(h, []string{"AAAAAAAAAAAAAAAA", "zzzz_-zzzzzzzzzz"})+";"+esc(rt.Pick(h, []string{"--jump DROP", "--jump cali-old"})))
		default: // a current Felix rule (rendered for this chain from the vocabulary), possibly misplaced
			tok := genToks(h, chain)
			if tok == "-" {
				continue
			}
			d := w.drules(chain, tok, false)
			for _, x := range strings.Split(d, "|") {
				p := strings.SplitN(x, ";", 3)
				ts = append(ts, "h;"+p[0]+";"+p[2])
			}
		}
	}
	// no two identical Felix rules in one chain: the repo's mock deletes ALL copies on one `-D chain <rule>` (the real
	// iptables deletes the first), so Felix's second delete-by-value would fail on the mock only and Apply would give up
	seen := map[string]bool{}
	var uniq []string
	for _, t := range ts {
		if !strings.HasPrefix(t, "f;") && seen[t] {
			continue
		}
		seen[t] = true
		uniq = append(uniq, t)
	}
	ts = uniq
	if len(ts) == 0 {
		return "-"
	}
	return strings.Join(ts, "|")
}

func genCase(h *rt.H, w *world) []string {
	mode := rt.Pick(h, []string{"insert", "insert", "append"})
	ops := []string{"new " + mode}
	// the generator needs the renderer (feature detection) to compute hashes: set up a scratch world
	exec(w, ops[0])
	kedit := func() string {
		switch h.Intn(5) {
		case 0:
			return "kdelchain " + rt.Pick(h, append(append([]string{}, caliChains...), staleChains...))
		default:
			c := rt.Pick(h, append(append(append(append([]string{}, kernelCh...), caliChains...), staleChains...), foreignChains...))
			return "kchain " + c + " " + genKRules(h, w, c)
		}
	}
	for i := 0; i < h.Intn(6); i++ {
		ops = append(ops, kedit())
	}
	n := 5 + h.Intn(20)
	// motif (one case in three): a force-programmed chain that jumps to a child nobody else refers to is programmed
	// and later removed: the child must go away with it
	motifAt := -1
	if h.Intn(3) == 0 {
		motifAt = h.Intn(n)
	}
	// motif (one case in six): a wanted chain WITHOUT rules is programmed, somebody deletes it, Felix re-reads the table
	emptyAt := -1
	if h.Intn(6) == 0 {
		emptyAt = h.Intn(n)
	}
	// motif (one case in four): the appended hook rules are the ONLY thing that changes between two Applies, with and
	// without other software's rules in the chain
	appAt := -1
	if h.Intn(4) == 0 {
		appAt = h.Intn(n)
	}
	for i := 0; i < n; i++ {
		if i == appAt && i != motifAt && i != emptyAt {
			c := rt.Pick(h, kernelCh)
			if h.Bool() {
				ops = append(ops, "kchain "+c+" f;"+esc(rt.Pick(h, []string{"-s 1.2.3.4/32 -j ACCEPT", "-j KUBE-FORWARD", "-p tcp -j DOCKER"})))
			}
			it := "j:" + rt.Pick(h, caliChains)
			ops = append(ops, fmt.Sprintf("ins %s %s %s", c, it, w.drules(c, it, false)), "apply")
			for j := 0; j < 1+h.Intn(2); j++ {
				at := fmt.Sprintf("d:%d", h.Intn(4))
				if h.Intn(3) == 0 {
					at += "|r"
				}
				ops = append(ops, fmt.Sprintf("app %s %s %s", c, at, w.drules(c, at, true)), "apply")
			}
			continue
		}
		if i == emptyAt && i != motifAt {
			c := rt.Pick(h, caliChains)
			ops = append(ops, fmt.Sprintf("chain %s 1 - -", c), "apply", "kdelchain "+c, "invalidate", "apply")
			continue
		}
		if i == motifAt {
			parent := rt.Pick(h, caliChains[:3])
			child := rt.Pick(h, targetsFrom(parent))
			ct := genToks(h, child)
			pt := rt.Pick(h, []string{"j:", "g:"}) + child
			if h.Bool() {
				pt += "|" + fmt.Sprintf("d:%d", h.Intn(4))
			}
			ops = append(ops, fmt.Sprintf("chain %s 0 %s %s", child, ct, w.drules(child, ct, false)),
				fmt.Sprintf("chain %s 1 %s %s", parent, pt, w.drules(parent, pt, false)), "apply", "rmchain "+parent, "apply")
			if h.Bool() {
				ops = append(ops, "invalidate", "apply")
			}
			continue
		}
		switch k := h.Intn(20); {
		case k < 6:
			c := rt.Pick(h, caliChains)
			t := genToks(h, c)
			ops = append(ops, fmt.Sprintf("chain %s %s %s %s", c, b01(h.Intn(4) == 0), t, w.drules(c, t, false)))
		case k < 8:
			ops = append(ops, "rmchain "+rt.Pick(h, caliChains))
		case k < 10:
			c := rt.Pick(h, kernelCh)
			t := "-"
			if h.Intn(4) != 0 {
				t = "j:" + rt.Pick(h, caliChains)
				if h.Intn(3) == 0 {
					t += "|" + genToks(h, c)
				}
			}
			t = strings.TrimSuffix(t, "|-")
			ops = append(ops, fmt.Sprintf("ins %s %s %s", c, t, w.drules(c, t, false)))
		case k < 11:
			c := rt.Pick(h, kernelCh)
			t := genToks(h, c)
			ops = append(ops, fmt.Sprintf("app %s %s %s", c, t, w.drules(c, t, true)))
		case k < 16:
			var parts []string
			if h.Intn(5) == 0 {
				var bs []string
				for j := 0; j < 1+h.Intn(4); j++ {
					bs = append(bs, b01(h.Intn(2) == 0))
				}
				if h.Intn(10) == 0 {
					bs = []string{"1", "1", "1", "1"}
				}
				parts = append(parts, "s="+strings.Join(bs, ","))
			}
			if h.Intn(4) == 0 {
				var bs []string
				for j := 0; j < 1+h.Intn(3); j++ {
					bs = append(bs, b01(h.Intn(2) == 0))
				}
				if h.Intn(12) == 0 {
					bs = strings.Split(strings.Repeat("1,", 11)+"1", ",")
				}
				parts = append(parts, "r="+strings.Join(bs, ","))
			}
			if h.Intn(6) == 0 {
				parts = append(parts, fmt.Sprintf("pre=%s@%d", rt.Pick(h, append(append([]string{}, kernelCh...), caliChains...)), h.Intn(3)))
			}
			ops = append(ops, strings.TrimSpace("apply "+strings.Join(parts, " ")))
		case k < 17:
			ops = append(ops, "invalidate")
		case k < 18:
			ops = append(ops, "restart "+mode)
		case k < 19:
			ops = append(ops, kedit())
		default:
			ops = append(ops, "state")
		}
	}
	ops = append(ops, "invalidate", "apply", "state")
	return ops
}

func main() {
	h := rt.New()
	defer h.Close()
	gomega.RegisterFailHandler(func(msg string, _ ...int) { panic(mockFail(msg)) })
	h.Rule = "case = insert/append mode + start table (shared chains with foreign rules, old-style inserts, stale and current Felix rules in any position; " +
		"stale Felix chains incl. historic prefixes; foreign chains) + 5..24 ops over {UpdateChain (incl. force-programmed parents of otherwise unreferenced children, later removed), RemoveChainByName, InsertOrAppendRules, AppendRules, " +
		"invalidate, restart, out-of-band chain edits, Apply with injected iptables-save failures, forced iptables-restore failures and an edit right before the restore}; " +
		"non-trivial = a restore failed, a save failed, or a transaction deleted a chain or removed rules from a shared chain"
	gw := &world{h: h}
	w := &world{h: h}
	run := func(ops []string, tag string) {
		h.Case(tag)
		nontriv := false
		for _, op := range ops {
			out := exec(w, op)
			if !w.dead && out != "panic" {
				w.checkCacheOK(op)
				w.checkRefcounts(op)
			}
			h.Op(op, out)
			k := strings.Fields(op)[0]
			h.Count("op:" + k)
			if k == "apply" {
				if out == "panic" {
					h.Count("apply:panic")
				}
				for _, t := range w.trace {
					switch {
					case t == "S:f":
						h.Count("save:failed")
						nontriv = true
					case t == "S:ok":
						h.Count("save:ok")
					case strings.HasSuffix(t, ":f"):
						h.Count("restore:failed")
						nontriv = true
					default:
						h.Count("restore:ok")
						if strings.Contains(t, "--delete-chain") {
							h.Count("restore:delete-chain")
							nontriv = true
						}
						if strings.Contains(t, "-D ") {
							h.Count("restore:delete-rule")
							nontriv = true
						}
						if strings.Contains(t, "-R ") {
							h.Count("restore:replace")
						}
					}
				}
			}
		}
		if nontriv {
			h.Nontrivial(strings.Join(ops, ";"))
		}
		h.Sample()
	}
	if h.Replay != "" {
		run(h.ReplayLines(), "replay")
		return
	}
	for i := 0; i < h.N; i++ {
		run(genCase(h, gw), "gen")
	}
}
