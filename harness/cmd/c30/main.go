// C30 correspondence harness: drives the real felix/dataplane/windows/policysets (builds on
// Linux: no build tags; the HNS API is an interface) and evaluates the property's own oracle on
// the real code: "evaluating the generated HNS rules by priority gives the verdict of the policy".
package main

import (
	"fmt"
	"os"
	"sort"
	"strconv"
	"strings"

	windataplane "github.com/projectcalico/calico/felix/dataplane/windows"
	"github.com/projectcalico/calico/felix/dataplane/windows/hns"
	"github.com/projectcalico/calico/felix/dataplane/windows/policysets"
	"github.com/projectcalico/calico/felix/proto"
	googleproto "google.golang.org/protobuf/proto"

	"verif/harness/rt"
)

// ---------------------------------------------------------------------------------------------
// mocks of the two interfaces policysets needs

type mockHNS struct{}

func (mockHNS) GetHNSSupportedFeatures() hns.HNSSupportedFeatures {
	return hns.HNSSupportedFeatures{Acl: hns.HNSAclFeatures{AclAddressLists: true, AclNoHostRulePriority: true, AclPortRanges: true, AclRuleId: true}}
}

// ipCache mirrors the contract of windows/ipsets.IPSets.GetIPSetMembers: nil for an unknown set
// AND for an empty set; members in insertion order (the real cache iterates a Go set, i.e. in
// random order - order is made deterministic here so that outputs can be compared).
type ipCache struct{ m map[string][]string }

func (c *ipCache) GetIPSetMembers(id string) []string {
	v := c.m[id]
	if len(v) == 0 {
		return nil
	}
	return append([]string(nil), v...)
}

type noStatic struct{}

func (noStatic) ReadData() ([]byte, error) { return nil, policysets.ErrNoRuleSpecified }

// ---------------------------------------------------------------------------------------------

type state struct {
	ps      *policysets.PolicySets
	cache   *ipCache
	pols    map[string]*proto.Policy // what was added (for the reference semantics)
	supp    map[string]bool          // policy uses supported criteria only
	svcPlus map[string]bool          // ... except egress Service rules that also carry source nets / IP sets
}

func splitL(sep, s string) []string {
	if s == "_" {
		return nil
	}
	return strings.Split(s, sep)
}

func dotted(n uint32) string {
	return fmt.Sprintf("%d.%d.%d.%d", n>>24, (n>>16)&255, (n>>8)&255, n&255)
}

func parseDotted(s string) uint32 {
	var n, cur uint32
	for i := 0; i < len(s); i++ {
		if s[i] == '.' {
			n = n<<8 | cur
			cur = 0
		} else {
			cur = cur*10 + uint32(s[i]-'0')
		}
	}
	return n<<8 | cur
}

func expandMembers(s string) []string {
	var out []string
	for _, m := range splitL("+", s) {
		if m[0] == 'r' {
			p := strings.Split(m[1:], "#")
			base := parseDotted(p[0])
			n, _ := strconv.Atoi(p[1])
			for i := 0; i < n; i++ {
				out = append(out, dotted(base+uint32(i)))
			}
		} else {
			out = append(out, m)
		}
	}
	return out
}

func parsePorts(s string) []*proto.PortRange {
	var out []*proto.PortRange
	for _, p := range splitL("+", s) {
		q := strings.Split(p, "-")
		a, _ := strconv.Atoi(q[0])
		b, _ := strconv.Atoi(q[1])
		out = append(out, &proto.PortRange{First: int32(a), Last: int32(b)})
	}
	return out
}

func parseRule(s string) *proto.Rule {
	f := strings.Split(s, ";")
	r := &proto.Rule{Action: f[0], RuleId: f[13]}
	if f[0] == "EMPTY" {
		r.Action = ""
	}
	v, _ := strconv.Atoi(f[1])
	r.IpVersion = proto.IPVersion(v)
	switch {
	case f[2] == "~":
	case f[2][0] == 'n':
		r.Protocol = &proto.Protocol{NumberOrName: &proto.Protocol_Name{Name: f[2][1:]}}
	case f[2][0] == '#':
		n, _ := strconv.Atoi(f[2][1:])
		r.Protocol = &proto.Protocol{NumberOrName: &proto.Protocol_Number{Number: int32(n)}}
	}
	r.SrcNet = splitL("+", f[3])
	r.DstNet = splitL("+", f[4])
	r.NotSrcNet = splitL("+", f[5])
	r.NotDstNet = splitL("+", f[6])
	r.SrcPorts = parsePorts(f[7])
	r.DstPorts = parsePorts(f[8])
	r.SrcIpSetIds = splitL("+", f[9])
	r.DstIpSetIds = splitL("+", f[10])
	r.DstIpPortSetIds = splitL("+", f[11])
	if strings.Contains(f[12], "N") {
		r.NotDstPorts = []*proto.PortRange{{First: 1, Last: 2}}
	}
	if strings.Contains(f[12], "I") {
		r.Icmp = &proto.Rule_IcmpType{IcmpType: 8}
	}
	if strings.Contains(f[12], "P") {
		r.DstNamedPortIpSetIds = []string{"np1"}
	}
	return r
}

func parseRules(s string) []*proto.Rule {
	var out []*proto.Rule
	for _, r := range splitL("|", s) {
		out = append(out, parseRule(r))
	}
	return out
}

func renderRule(r *hns.ACLPolicy) string {
	s := fmt.Sprintf("%s|%s|%d|%s|%s|%s|%s|%d|%s", r.Action, r.Direction, r.Protocol, r.LocalAddresses, r.LocalPorts,
		r.RemoteAddresses, r.RemotePorts, r.Priority, r.Id)
	if r.Type != hns.ACL || r.RuleType != hns.Switch || r.Protocols != "" || r.InternalPort != 0 || r.LocalPort != 0 || r.RemotePort != 0 || r.ServiceName != "" {
		s += "+UNMODELLED-FIELDS"
	}
	return s
}

func renderRules(rs []*hns.ACLPolicy) string {
	if len(rs) == 0 {
		return "-"
	}
	var out []string
	for _, r := range rs {
		out = append(out, renderRule(r))
	}
	return strings.Join(out, " ; ")
}

// ---------------------------------------------------------------------------------------------
// semantics evaluated by the harness on the REAL outputs / inputs

type pkt struct {
	proto        int
	src, dst     uint32
	sport, dport int
}

func addrContains(a string, ip uint32) bool {
	if strings.Contains(a, ":") {
		return false
	}
	l := 32
	if i := strings.Index(a, "/"); i >= 0 {
		l, _ = strconv.Atoi(a[i+1:])
		a = a[:i]
	}
	n := parseDotted(a)
	if l == 0 {
		return true
	}
	sh := uint(32 - l)
	return n>>sh == ip>>sh
}

func addrsOK(list string, ip uint32) bool {
	if list == "" {
		return true
	}
	for _, a := range strings.Split(list, ",") {
		if addrContains(a, ip) {
			return true
		}
	}
	return false
}

func portsOK(list string, p int) bool {
	if list == "" {
		return true
	}
	for _, r := range strings.Split(list, ",") {
		q := strings.Split(r, "-")
		a, _ := strconv.Atoi(q[0])
		b := a
		if len(q) == 2 {
			b, _ = strconv.Atoi(q[1])
		}
		if a <= p && p <= b {
			return true
		}
	}
	return false
}

func hnsMatches(r *hns.ACLPolicy, p pkt) bool {
	lip, lport, rip, rport := p.src, p.sport, p.dst, p.dport
	if r.Direction == hns.In {
		lip, lport, rip, rport = p.dst, p.dport, p.src, p.sport
	}
	return (r.Protocol == 256 || int(r.Protocol) == p.proto) && addrsOK(r.LocalAddresses, lip) && addrsOK(r.RemoteAddresses, rip) &&
		portsOK(r.LocalPorts, lport) && portsOK(r.RemotePorts, rport)
}

// hnsActions: the actions of all matching rules with the lowest priority number.
func hnsActions(rs []*hns.ACLPolicy, p pkt) []string {
	best := -1
	for _, r := range rs {
		if hnsMatches(r, p) && (best < 0 || int(r.Priority) < best) {
			best = int(r.Priority)
		}
	}
	set := map[string]bool{}
	for _, r := range rs {
		if hnsMatches(r, p) && int(r.Priority) == best {
			set[string(r.Action)] = true
		}
	}
	var out []string
	for k := range set {
		out = append(out, k)
	}
	sort.Strings(out)
	return out
}

func protoNum(name string) int {
	switch strings.ToLower(name) {
	case "tcp":
		return 6
	case "udp":
		return 17
	case "icmp":
		return 1
	case "icmpv6":
		return 58
	case "sctp":
		return 132
	case "udplite":
		return 136
	}
	return 256
}

func (s *state) inSet(id string, ip uint32) bool {
	for _, m := range s.cache.m[id] {
		if !strings.Contains(m, ",") && addrContains(m, ip) {
			return true
		}
	}
	return false
}

func (s *state) inIPPortSet(id string, p pkt) bool {
	for _, m := range s.cache.m[id] {
		q := strings.Split(m, ",")
		if len(q) != 2 {
			continue
		}
		pp := strings.Split(q[1], ":")
		port, _ := strconv.Atoi(pp[1])
		if addrContains(q[0], p.dst) && protoNum(pp[0]) == p.proto && port == p.dport {
			return true
		}
	}
	return false
}

func netsOK(nets []string, ip uint32) bool {
	if len(nets) == 0 {
		return true
	}
	for _, n := range nets {
		if addrContains(n, ip) {
			return true
		}
	}
	return false
}

func rangesOK(rs []*proto.PortRange, p int) bool {
	if len(rs) == 0 {
		return true
	}
	for _, r := range rs {
		if int(r.First) <= p && p <= int(r.Last) {
			return true
		}
	}
	return false
}

// refMatches: Calico meaning of a supported rule (all stated criteria; in EVERY listed IP set).
func (s *state) refMatches(r *proto.Rule, p pkt) bool {
	if r.Protocol != nil {
		switch x := r.Protocol.NumberOrName.(type) {
		case *proto.Protocol_Name:
			if protoNum(x.Name) != p.proto {
				return false
			}
		case *proto.Protocol_Number:
			if int(x.Number) != p.proto {
				return false
			}
		}
	}
	if !netsOK(r.SrcNet, p.src) || !netsOK(r.DstNet, p.dst) || !rangesOK(r.SrcPorts, p.sport) || !rangesOK(r.DstPorts, p.dport) {
		return false
	}
	for _, id := range r.SrcIpSetIds {
		if !s.inSet(id, p.src) {
			return false
		}
	}
	for _, id := range r.DstIpSetIds {
		if !s.inSet(id, p.dst) {
			return false
		}
	}
	for _, id := range r.DstIpPortSetIds {
		if !s.inIPPortSet(id, p) {
			return false
		}
	}
	return true
}

func refAction(a string) string {
	switch strings.ToLower(a) {
	case "", "allow":
		return "Allow"
	case "deny":
		return "Block"
	case "next-tier", "pass":
		return "pass"
	}
	return "Block"
}

// tierVerdictSvcSourceDropped is the tier verdict if the source nets / source IP sets of egress
// rules on a destination Service are NOT applied - what the converter actually programs (known
// finding service-rule-source-ignored).  Used only to attribute a mismatch to that finding.
func (s *state) tierVerdictSvcSourceDropped(ids []string, inbound, eot bool, p pkt) string {
	for _, id := range ids {
		pol := s.pols[id]
		if pol == nil {
			continue
		}
		rules := pol.OutboundRules
		if inbound {
			rules = pol.InboundRules
		}
		for _, r := range rules {
			if !inbound && len(r.DstIpPortSetIds) > 0 && len(r.SrcNet)+len(r.SrcIpSetIds) > 0 {
				r = googleClone(r)
				r.SrcNet, r.SrcIpSetIds = nil, nil
			}
			if s.refMatches(r, p) {
				return refAction(r.Action)
			}
		}
	}
	if eot {
		return "Block"
	}
	return "pass"
}

func (s *state) tierVerdict(ids []string, inbound, eot bool, p pkt) string {
	for _, id := range ids {
		pol := s.pols[id]
		if pol == nil {
			continue
		}
		rules := pol.OutboundRules
		if inbound {
			rules = pol.InboundRules
		}
		for _, r := range rules {
			if s.refMatches(r, p) {
				return refAction(r.Action)
			}
		}
	}
	if eot {
		return "Block"
	}
	return "pass"
}

// supported mirrors the property's restriction "only match criteria the Windows dataplane
// supports": what protoRuleToHnsRules does not reject, plus the documented proto.Rule contracts the
// converter relies on (at most one IP set per side, IP-port sets only alone and only on egress).
func supported(r *proto.Rule, inbound bool) bool {
	if r.IpVersion != 0 && r.IpVersion != 4 {
		return false
	}
	if len(r.NotSrcNet)+len(r.NotDstNet)+len(r.NotSrcPorts)+len(r.NotDstPorts)+len(r.NotSrcIpSetIds)+len(r.NotDstIpSetIds)+
		len(r.NotSrcNamedPortIpSetIds)+len(r.NotDstNamedPortIpSetIds) > 0 || r.NotProtocol != nil || r.NotIcmp != nil || r.Icmp != nil ||
		len(r.SrcNamedPortIpSetIds)+len(r.DstNamedPortIpSetIds) > 0 {
		return false
	}
	switch strings.ToLower(r.Action) {
	case "", "allow", "deny", "next-tier", "pass":
	default:
		return false
	}
	if r.Protocol != nil {
		if x, ok := r.Protocol.NumberOrName.(*proto.Protocol_Name); ok && protoNum(x.Name) == 256 {
			return false
		}
		if x, ok := r.Protocol.NumberOrName.(*proto.Protocol_Number); ok && (x.Number < 0 || x.Number > 255) {
			return false
		}
	}
	if len(r.SrcIpSetIds) > 1 || len(r.DstIpSetIds) > 1 || len(r.DstIpPortSetIds) > 1 {
		return false
	}
	if len(r.DstIpPortSetIds) > 0 {
		// protocol and source ports next to a destination Service are honoured since /repo 44f8f9c
		if inbound || len(r.SrcNet)+len(r.DstNet)+len(r.DstPorts)+len(r.SrcIpSetIds)+len(r.DstIpSetIds) > 0 {
			return false
		}
	}
	return true
}

// svcWithSource: an egress rule on a destination Service (one IP-port set) that ALSO carries source
// nets and/or a source IP set - valid in the v3 API (only DESTINATION nets/selectors/ports are
// forbidden next to destination.services) and made of criteria the Windows dataplane supports, but
// the DstIpPortSetIds branch of protoRuleToHnsRules never looks at them.
func svcWithSource(r *proto.Rule, inbound bool) bool {
	if inbound || len(r.DstIpPortSetIds) != 1 || len(r.SrcNet)+len(r.SrcIpSetIds) == 0 {
		return false
	}
	c := googleClone(r)
	c.SrcNet = nil
	c.SrcIpSetIds = nil
	return supported(c, inbound) && supported(&proto.Rule{Action: r.Action, SrcNet: r.SrcNet, SrcIpSetIds: r.SrcIpSetIds}, inbound)
}

func googleClone(r *proto.Rule) *proto.Rule {
	return googleproto.Clone(r).(*proto.Rule)
}

// flatten runs the REAL flattenTiers + rewritePriorities on deep copies; a panic is reported.
func flatten(lists [][]*hns.ACLPolicy) (out []*hns.ACLPolicy, panicked string) {
	defer func() {
		if r := recover(); r != nil {
			out, panicked = nil, fmt.Sprint(r)
		}
	}()
	// Exactly what endpointManager.refreshPendingWlEpUpdates does: the slices returned by
	// GetPolicySetRules go STRAIGHT into flattenTiers (which rewrites the Action of the last tier's
	// pass rules in place) and rewritePriorities (which overwrites Priority in place).  No copies
	// here: if GetPolicySetRules hands out pointers into its cache, this corrupts the cache and the
	// next round on the same PolicySets sees it.
	out = windataplane.VerifFlattenTiers(lists)
	windataplane.VerifRewritePriorities(out, policysets.PolicyRuleMaxPriority)
	return out, ""
}

func renderTiers(lists [][]*hns.ACLPolicy) string {
	var out []string
	for _, l := range lists {
		out = append(out, renderRules(l))
	}
	return strings.Join(out, " /// ")
}

// flattenHasEmptiedPorts: some flattened rule has no port constraint on a side although every
// rule of the input tiers with the same id has one there (the signature of the disjoint-ports bug).
func flattenHasEmptiedPorts(lists [][]*hns.ACLPolicy, flat []*hns.ACLPolicy) bool {
	type side struct{ l, r bool }
	byID := map[string]side{}
	for _, l := range lists {
		for _, r := range l {
			if r.Id != "" {
				byID[r.Id] = side{r.LocalPorts != "", r.RemotePorts != ""}
			}
		}
	}
	for _, r := range flat {
		if sd, ok := byID[r.Id]; ok && r.Id != "" {
			if (sd.l && r.LocalPorts == "") || (sd.r && r.RemotePorts == "") {
				return true
			}
		}
	}
	return false
}

// probeRule is the per-rule oracle on the real code: for a supported rule, "some generated HNS rule
// matches the packet" must equal "the proto rule matches the packet" (whatever the chunk size), on a
// set of probe packets derived from the rule itself.
func (s *state) probeRule(h *rt.H, op string, r *proto.Rule, inbound bool, rs []*hns.ACLPolicy) {
	if !supported(r, inbound) {
		return
	}
	ips := []uint32{parseDotted("10.0.0.5"), parseDotted("8.8.8.8"), parseDotted("10.0.1.77")}
	add := func(a string) {
		if strings.Contains(a, ":") {
			return
		}
		if i := strings.Index(a, "/"); i >= 0 {
			a = a[:i]
		}
		n := parseDotted(a)
		ips = append(ips, n, n+1)
	}
	for _, l := range [][]string{r.SrcNet, r.DstNet} {
		for _, a := range l {
			add(a)
		}
	}
	type pm struct {
		proto, port int
	}
	var pms []pm
	for _, ids := range [][]string{r.SrcIpSetIds, r.DstIpSetIds, r.DstIpPortSetIds} {
		for _, id := range ids {
			ms := s.cache.m[id]
			for i, m := range ms {
				if i > 5 && i < len(ms)-2 {
					continue
				}
				if q := strings.Split(m, ","); len(q) == 2 {
					add(q[0])
					pp := strings.Split(q[1], ":")
					port, _ := strconv.Atoi(pp[1])
					pms = append(pms, pm{protoNum(pp[0]), port})
				} else {
					add(m)
				}
			}
		}
	}
	ports := []int{0, 1000}
	for _, l := range [][]*proto.PortRange{r.SrcPorts, r.DstPorts} {
		for _, x := range l {
			ports = append(ports, int(x.First), int(x.Last), int(x.Last)+1)
		}
	}
	protos := []int{6, 17}
	if r.Protocol != nil {
		switch x := r.Protocol.NumberOrName.(type) {
		case *proto.Protocol_Name:
			protos = append(protos, protoNum(x.Name))
		case *proto.Protocol_Number:
			protos = append(protos, int(x.Number))
		}
	}
	for _, m := range pms {
		ports = append(ports, m.port)
		protos = append(protos, m.proto)
	}
	if len(ips) > 14 {
		ips = ips[:14]
	}
	if len(ports) > 8 {
		ports = ports[:8]
	}
	n := 0
	for _, pr := range protos {
		for _, src := range ips {
			for _, dst := range ips {
				for _, sp := range ports {
					for _, dp := range ports {
						n++
						if n%3 != 0 && len(ips)*len(ports) > 40 {
							continue // thin out large probe sets deterministically
						}
						p := pkt{proto: pr, src: src, dst: dst, sport: sp, dport: dp}
						hit := false
						for _, x := range rs {
							if hnsMatches(x, p) {
								hit = true
								break
							}
						}
						if hit != s.refMatches(r, p) {
							h.OracleFail("rule-match-mismatch", "a packet matches the generated HNS rules of ONE proto rule differently from the proto rule itself",
								map[string]any{"op": op, "pkt": fmt.Sprintf("%d %s:%d -> %s:%d", pr, dotted(src), sp, dotted(dst), dp), "hns-any": hit, "rules": renderRules(rs)})
							return
						}
					}
				}
			}
		}
	}
	h.Count("rule:probe-oracle-checked")
}

// ---------------------------------------------------------------------------------------------

func exec(h *rt.H, s *state, op string) string {
	w := strings.Fields(op)
	if w[0] != "new" && s.ps == nil {
		return "bad-op"
	}
	switch w[0] {
	case "new":
		s.cache = &ipCache{m: map[string][]string{}}
		s.ps = policysets.NewPolicySets(mockHNS{}, []policysets.IPSetCache{s.cache}, noStatic{})
		s.pols = map[string]*proto.Policy{}
		s.supp = map[string]bool{}
		s.svcPlus = map[string]bool{}
		return "ok"
	case "ipset", "ipport":
		s.cache.m[w[1]] = expandMembers(w[2])
		return "ok"
	case "pol":
		p := &proto.Policy{InboundRules: parseRules(w[2]), OutboundRules: parseRules(w[3])}
		s.ps.AddOrReplacePolicySet(w[1], p)
		s.pols[w[1]] = p
		ok, okPlus, plus := true, true, false
		for _, r := range p.InboundRules {
			ok = ok && supported(r, true)
			okPlus = okPlus && supported(r, true)
		}
		for _, r := range p.OutboundRules {
			ok = ok && supported(r, false)
			if svcWithSource(r, false) {
				plus = true
			} else {
				okPlus = okPlus && supported(r, false)
			}
		}
		s.supp[w[1]] = ok
		s.svcPlus[w[1]] = okPlus && plus
		return "ok"
	case "del":
		s.ps.RemovePolicySet(w[1])
		delete(s.pols, w[1])
		return "ok"
	case "upd":
		ids := s.ps.ProcessIpSetUpdate(w[1])
		if len(ids) == 0 {
			return "-"
		}
		sort.Strings(ids)
		return strings.Join(ids, ",")
	case "rules":
		return renderRules(s.ps.GetPolicySetRules(splitL(",", w[3]), w[1] == "in", w[2] == "1"))
	case "pkt":
		ids := splitL(",", w[3])
		inbound, eot := w[1] == "in", w[2] == "1"
		pr, _ := strconv.Atoi(w[4])
		sp, _ := strconv.Atoi(w[6])
		dp, _ := strconv.Atoi(w[8])
		p := pkt{proto: pr, src: parseDotted(w[5]), sport: sp, dst: parseDotted(w[7]), dport: dp}
		rules := s.ps.GetPolicySetRules(ids, inbound, eot)
		acts := hnsActions(rules, p)
		ref := s.tierVerdict(ids, inbound, eot, p)
		h.Count("verdict:" + ref)
		allSupp, allSuppPlus := true, true
		for _, id := range ids {
			if s.pols[id] == nil || !s.supp[id] {
				allSupp = false
			}
			if s.pols[id] == nil || !(s.supp[id] || s.svcPlus[id]) {
				allSuppPlus = false
			}
		}
		hv := "-"
		if len(acts) > 0 {
			hv = strings.Join(acts, ",")
		}
		switch {
		case !allSupp && allSuppPlus && len(acts) == 1 && acts[0] == ref:
			h.Count("pkt:service-with-source-agrees")
		case !allSupp && allSuppPlus && len(acts) == 1 && acts[0] == s.tierVerdictSvcSourceDropped(ids, inbound, eot, p):
			// attributed PER PACKET: the HNS verdict differs from the policy's AND equals the verdict the
			// policy would have with the Service rules' source constraints dropped
			h.OracleFail("service-rule-source-ignored", "egress rule on a destination Service that also carries source nets / a source IP set: the generated HNS rules ignore them",
				map[string]any{"op": op, "hns": acts, "policy": ref, "rules": renderRules(rules)})
		case !allSupp && allSuppPlus && len(acts) != 1:
			h.OracleFail("ambiguous-priority", "rules with different actions share the lowest matching priority (verdict depends on HNS tie-break)",
				map[string]any{"op": op, "actions": acts, "rules": renderRules(rules)})
		case !allSupp && allSuppPlus:
			h.OracleFail("verdict-mismatch", "HNS rules evaluated by priority give a different verdict than the policy (not explained by the ignored source constraints of a Service rule)",
				map[string]any{"op": op, "hns": acts[0], "policy": ref, "rules": renderRules(rules)})
		case !allSupp:
			h.Count("pkt:unsupported-or-missing(no-oracle)")
		case len(acts) != 1:
			h.OracleFail("ambiguous-priority", "rules with different actions share the lowest matching priority (verdict depends on HNS tie-break)",
				map[string]any{"op": op, "actions": acts, "rules": renderRules(rules)})
		case acts[0] != ref:
			sig := "verdict-mismatch"
			for _, id := range ids {
				for _, r := range s.pols[id].OutboundRules {
					if len(r.DstIpPortSetIds) > 0 && (r.Protocol != nil || len(r.SrcPorts) > 0) {
						sig = "service-rule-protocol-ignored" // regression guard for /repo 44f8f9c
					}
				}
			}
			h.OracleFail(sig, "HNS rules evaluated by priority give a different verdict than the policy",
				map[string]any{"op": op, "hns": acts[0], "policy": ref, "rules": renderRules(rules)})
		default:
			h.Count("pkt:oracle-checked")
		}
		return hv + " " + ref
	case "flat", "fpkt":
		inbound := w[1] == "in"
		type tier struct {
			eot bool
			ids []string
		}
		var tiers []tier
		for _, t := range strings.Split(w[2], "/") {
			q := strings.Split(t, ":")
			tiers = append(tiers, tier{q[0] == "1", splitL(",", q[1])})
		}
		var lists [][]*hns.ACLPolicy
		var before []string // the tiers as returned, rendered BEFORE flattening touches them
		for _, t := range tiers {
			l := s.ps.GetPolicySetRules(t.ids, inbound, t.eot)
			lists = append(lists, l)
			before = append(before, renderRules(l))
		}
		tiersBefore := strings.Join(before, " /// ")
		flat, panicked := flatten(lists)
		// aliasing observation (counter only): does asking again for the same tiers give what the first call gave?
		for i, t := range tiers {
			if again := renderRules(s.ps.GetPolicySetRules(t.ids, inbound, t.eot)); again != before[i] {
				// an OBSERVATION, not an oracle: the property speaks about verdicts only; a corrupted cache
				// shows up as a verdict mismatch / model disagreement in a later round of the same case
				h.Count("obs:policyset-cache-mutated")
				break
			}
		}
		if w[0] == "flat" {
			if panicked != "" {
				h.Count("flat:panic")
				h.OracleFail("flatten-panic", "flattenTiers panics ("+panicked+") while combining a pass rule with the next tier's rule",
					map[string]any{"op": op, "tiers": tiersBefore})
				return "panic"
			}
			h.Count(fmt.Sprintf("flat:tiers=%d", len(tiers)))
			return renderRules(flat)
		}
		pr, _ := strconv.Atoi(w[3])
		sp, _ := strconv.Atoi(w[5])
		dp, _ := strconv.Atoi(w[7])
		p := pkt{proto: pr, src: parseDotted(w[4]), sport: sp, dst: parseDotted(w[6]), dport: dp}
		// multi-tier reference: tier by tier, pass moves on, pass in the last tier is a drop
		ref := "Block"
		allSupp := true
		for i, t := range tiers {
			for _, id := range t.ids {
				if s.pols[id] == nil || !s.supp[id] {
					allSupp = false
				}
			}
			v := s.tierVerdict(t.ids, inbound, t.eot, p)
			if v != "pass" {
				ref = v
				break
			}
			if i == len(tiers)-1 {
				ref = "Block"
			}
		}
		h.Count("fverdict:" + ref)
		if panicked != "" {
			return "panic " + ref
		}
		acts := hnsActions(flat, p)
		hv := "-"
		if len(acts) > 0 {
			hv = strings.Join(acts, ",")
		}
		switch {
		case !allSupp:
			h.Count("fpkt:unsupported-or-missing(no-oracle)")
		case len(acts) != 1 || acts[0] != ref:
			sig := "flatten-verdict-mismatch"
			if flattenHasEmptiedPorts(lists, flat) {
				sig = "flatten-disjoint-ports-any"
			}
			h.OracleFail(sig, "the flattened multi-tier HNS rules give a different verdict than evaluating the tiers in order",
				map[string]any{"op": op, "hns": acts, "policy": ref, "tiers": tiersBefore, "flat": renderRules(flat)})
		default:
			h.Count("fpkt:oracle-checked")
		}
		return hv + " " + ref
	case "rule":
		n, _ := strconv.Atoi(w[1])
		rs, err := s.ps.VerifProtoRuleToHnsRules(w[3], parseRule(w[4]), w[2] == "in", n)
		if err != nil {
			if err != policysets.ErrNotSupported {
				s.probeRule(h, op, parseRule(w[4]), w[2] == "in", nil)
			}
			switch err {
			case policysets.ErrNotSupported:
				return "err:notsupported"
			case policysets.ErrRuleIsNoOp:
				return "err:noop"
			case policysets.ErrMissingIPSet:
				return "err:missingipset"
			}
			return "err:other"
		}
		if len(rs) > 1 {
			h.Count("rule:split")
		}
		s.probeRule(h, op, parseRule(w[4]), w[2] == "in", rs)
		return renderRules(rs)
	}
	panic("unknown op " + op)
}

// ---------------------------------------------------------------------------------------------
// generator

type ippMember struct {
	ip    string
	proto int
	port  int
}

type gen struct {
	ippM   []ippMember
	h      *rt.H
	bad    bool
	sets   []string
	ipp    []string
	ips    []uint32 // interesting addresses
	pp     []int
	nrules int
}

var netPool = []string{"10.0.0.0/8", "10.0.0.0/24", "10.0.1.0/24", "10.0.0.5", "10.0.0.5/32", "10.0.0.64/26", "192.168.0.0/16", "0.0.0.0/0", "10.0.0.7/24", "10.1.0.0/16"}

func (g *gen) nets() string {
	n := g.h.Intn(3)
	if g.h.Chance(0.5) {
		n = 0
	}
	var out []string
	for i := 0; i < n; i++ {
		if g.h.Chance(0.1) {
			out = append(out, rt.Pick(g.h, []string{"fe80::/64", "2001:db8::1"}))
		} else {
			out = append(out, rt.Pick(g.h, netPool))
		}
	}
	if len(out) == 0 {
		return "_"
	}
	return strings.Join(out, "+")
}

func (g *gen) ports() string {
	n := g.h.Intn(3)
	if g.h.Chance(0.5) {
		n = 0
	}
	var out []string
	for i := 0; i < n; i++ {
		a := rt.Pick(g.h, []int{0, 1, 53, 80, 81, 443, 8080, 65535})
		b := a
		if g.h.Chance(0.3) {
			b = a + g.h.Intn(20)
			if b > 65535 {
				b = 65535
			}
		}
		g.pp = append(g.pp, a, b)
		out = append(out, fmt.Sprintf("%d-%d", a, b))
	}
	if len(out) == 0 {
		return "_"
	}
	return strings.Join(out, "+")
}

func (g *gen) setRef(pool []string, max int) string {
	if len(pool) == 0 || g.h.Chance(0.6) {
		return "_"
	}
	n := 1
	if g.bad && g.h.Chance(0.3) {
		n = 2
	}
	if n > max {
		n = max
	}
	var out []string
	for i := 0; i < n; i++ {
		out = append(out, rt.Pick(g.h, pool))
	}
	if g.h.Chance(0.05) {
		out[0] = "nosuchset"
	}
	return strings.Join(out, "+")
}

func (g *gen) rule(inbound bool) string {
	g.nrules++
	act := rt.Pick(g.h, []string{"allow", "deny", "allow", "deny", "pass", "next-tier", "Allow", "EMPTY"})
	if g.bad && g.h.Chance(0.1) {
		act = "log"
	}
	ipv := rt.Pick(g.h, []string{"0", "0", "4"})
	if g.bad && g.h.Chance(0.1) {
		ipv = "6"
	}
	pr := rt.Pick(g.h, []string{"~", "~", "ntcp", "nudp", "nTCP", "nsctp", "#6", "#17", "#1", "nicmp"})
	if g.bad && g.h.Chance(0.1) {
		pr = rt.Pick(g.h, []string{"nfoo", "#300"})
	}
	flags := "_"
	if g.bad && g.h.Chance(0.15) {
		flags = rt.Pick(g.h, []string{"N", "I", "P"})
	}
	nsn, ndn := "_", "_"
	if g.bad && g.h.Chance(0.1) {
		nsn = "10.0.0.0/24"
	}
	rid := fmt.Sprintf("r%d", g.nrules)
	if !inbound && len(g.ipp) > 0 && g.h.Chance(0.12) {
		f := []string{act, ipv, "~", "_", "_", "_", "_", "_", "_", "_", "_", rt.Pick(g.h, g.ipp), flags, rid}
		if g.bad && g.h.Chance(0.3) {
			f[2] = "ntcp"
			f[8] = "80-80"
		} else if g.h.Chance(0.3) {
			// valid in the v3 API: protocol (and source ports) next to a destination Service
			f[2] = rt.Pick(g.h, []string{"ntcp", "nudp"})
			if g.h.Chance(0.4) {
				f[7] = rt.Pick(g.h, []string{"1000-2000", "1000-1000+3000-3000", "1500-1500"})
			}
		} else if g.h.Chance(0.15) {
			// also valid: SOURCE nets / a source IP set next to a destination Service (still ignored)
			if g.h.Bool() || len(g.sets) == 0 {
				f[3] = rt.Pick(g.h, []string{"10.0.0.0/24", "10.0.0.5", "192.168.0.0/16"})
			} else {
				f[9] = rt.Pick(g.h, g.sets)
			}
		}
		return strings.Join(f, ";")
	}
	ipps := "_"
	if g.bad && len(g.ipp) > 0 && g.h.Chance(0.1) {
		ipps = rt.Pick(g.h, g.ipp)
	}
	sp, dp := g.ports(), g.ports()
	if pr == "~" || pr == "#1" || pr == "nicmp" {
		sp, dp = "_", "_"
	}
	return strings.Join([]string{act, ipv, pr, g.nets(), g.nets(), nsn, ndn, sp, dp, g.setRef(g.sets, 2), g.setRef(g.sets, 2), ipps, flags, rid}, ";")
}

func (g *gen) rules(inbound bool) string {
	n := g.h.Intn(5)
	var out []string
	for i := 0; i < n; i++ {
		out = append(out, g.rule(inbound))
	}
	if len(out) == 0 {
		return "_"
	}
	return strings.Join(out, "|")
}

func (g *gen) members(big bool) string {
	if big {
		// more than ipPortsPerRule (4000) members: forces address chunking through the public path
		return fmt.Sprintf("r10.2.0.0#%d", 4000+g.h.Intn(4200))
	}
	n := g.h.Intn(5)
	var out []string
	for i := 0; i < n; i++ {
		switch g.h.Intn(4) {
		case 0:
			out = append(out, rt.Pick(g.h, netPool))
		case 1:
			out = append(out, fmt.Sprintf("r10.0.0.%d#%d", g.h.Intn(10), 1+g.h.Intn(4)))
		default:
			out = append(out, dotted(0x0a000000+uint32(g.h.Intn(300))))
		}
	}
	if len(out) == 0 {
		return "_"
	}
	return strings.Join(out, "+")
}

func genCase(h *rt.H) []string {
	g := &gen{h: h, bad: h.Chance(0.25)}
	ops := []string{"new"}
	big := h.Tier == "thorough" && h.Chance(0.01) || h.Tier != "thorough" && h.Chance(0.004)
	for i := 0; i < 1+h.Intn(3); i++ {
		id := fmt.Sprintf("s%d", i)
		g.sets = append(g.sets, id)
		ops = append(ops, fmt.Sprintf("ipset %s %s", id, g.members(big && i == 0)))
	}
	for i := 0; i < h.Intn(2); i++ {
		id := fmt.Sprintf("pp%d", i)
		g.ipp = append(g.ipp, id)
		var ms []string
		for j := 0; j < 1+h.Intn(4); j++ {
			port := rt.Pick(h, []int{80, 443, 53})
			g.pp = append(g.pp, port)
			mip := dotted(0x0a000000 + uint32(h.Intn(20)))
			mpr := rt.Pick(h, []string{"tcp", "udp", "tcp"})
			g.ippM = append(g.ippM, ippMember{mip, protoNum(mpr), port})
			ms = append(ms, fmt.Sprintf("%s,%s:%d", mip, mpr, port))
		}
		ops = append(ops, fmt.Sprintf("ipport %s %s", id, strings.Join(ms, "+")))
	}
	var pols []string
	for i := 0; i < 1+h.Intn(4); i++ {
		id := fmt.Sprintf("policy-p%d", i)
		pols = append(pols, id)
		ops = append(ops, fmt.Sprintf("pol %s %s %s", id, g.rules(true), g.rules(false)))
	}
	ids := strings.Join(pols, ",")
	if h.Chance(0.05) {
		ids += ",policy-missing"
	}
	if len(g.pp) == 0 {
		g.pp = []int{80}
	}
	queries := func() {
		d := rt.Pick(h, []string{"in", "out"})
		e := rt.Pick(h, []string{"0", "1"})
		if !big {
			ops = append(ops, fmt.Sprintf("rules %s %s %s", d, e, ids))
		}
		for i := 0; i < 6+h.Intn(8); i++ {
			ip := func() string {
				switch h.Intn(5) {
				case 0:
					return dotted(0x0a000000 + uint32(h.Intn(300)))
				case 1:
					return dotted(0x0a020000 + uint32(h.Intn(9000)))
				case 2:
					return rt.Pick(h, []string{"10.0.0.5", "10.0.0.70", "10.0.1.9", "192.168.3.4", "8.8.8.8", "10.1.2.3"})
				default:
					return dotted(0x0a000000 + uint32(h.Intn(12)))
				}
			}
			port := func() int {
				p := rt.Pick(h, g.pp) + rt.Pick(h, []int{0, 0, 1, -1})
				if p < 0 {
					p = 0
				}
				if p > 65535 {
					p = 65535
				}
				return p
			}
			if len(g.ippM) > 0 && h.Chance(0.3) {
				// aim at a member of an IP-port set (a Service endpoint)
				m := rt.Pick(h, g.ippM)
				pr := m.proto
				if h.Chance(0.2) {
					pr = rt.Pick(h, []int{6, 17})
				}
				ops = append(ops, fmt.Sprintf("pkt out %s %s %d %s %d %s %d", rt.Pick(h, []string{"0", "1"}), ids, pr, ip(), rt.Pick(h, []int{1000, 1500, 3000}), m.ip, m.port))
				continue
			}
			ops = append(ops, fmt.Sprintf("pkt %s %s %s %d %s %d %s %d", rt.Pick(h, []string{"in", "out"}), rt.Pick(h, []string{"0", "1"}), ids,
				rt.Pick(h, []int{6, 6, 17, 132, 1}), ip(), port(), ip(), port()))
		}
	}
	queries()
	layouts := func() {
		// several endpoint-refresh rounds on the SAME PolicySets, each with its own tier layout
		// (a policy belongs to exactly one tier per round; empty tiers are skipped, as Felix does;
		// the order of tiers varies so that a policy is in the last tier in one round and not in another)
		rounds := 1 + h.Intn(3)
		for rd := 0; rd < rounds && !big; rd++ {
			nt := 1 + h.Intn(3)
			assign := make([][]string, nt)
			for _, pid := range pols {
				k := h.Intn(nt)
				assign[k] = append(assign[k], pid)
			}
			if h.Bool() {
				for i, j := 0, nt-1; i < j; i, j = i+1, j-1 {
					assign[i], assign[j] = assign[j], assign[i]
				}
			}
			var ts []string
			for i := 0; i < nt; i++ {
				if len(assign[i]) > 0 {
					ts = append(ts, rt.Pick(h, []string{"0", "1", "1"})+":"+strings.Join(assign[i], ","))
				}
			}
			tspec := strings.Join(ts, "/")
			d := rt.Pick(h, []string{"in", "out"})
			ops = append(ops, fmt.Sprintf("flat %s %s", d, tspec))
			for i := 0; i < 3+h.Intn(5); i++ {
				ops = append(ops, fmt.Sprintf("fpkt %s %s %d %s %d %s %d", d, tspec, rt.Pick(h, []int{6, 6, 17, 132, 1}),
					dotted(0x0a000000+uint32(h.Intn(12))), rt.Pick(h, g.pp)+rt.Pick(h, []int{0, 0, 1}), dotted(0x0a000000+uint32(h.Intn(300))), rt.Pick(h, g.pp)+rt.Pick(h, []int{0, 0, 1})))
			}
		}
	}
	if h.Chance(0.7) {
		layouts()
	}
	if h.Chance(0.3) {
		// change an IP set, refresh, query again; sometimes delete a policy
		sid := rt.Pick(h, g.sets)
		ops = append(ops, fmt.Sprintf("ipset %s %s", sid, g.members(false)), "upd "+sid)
		if h.Chance(0.3) {
			ops = append(ops, "del "+pols[0])
		}
		queries()
		if h.Chance(0.5) {
			layouts()
		}
	}
	// direct calls of the rule converter with a small chunk size (splits addresses and ports)
	for i := 0; i < h.Intn(3) && !big; i++ {
		inb := h.Bool()
		d := "out"
		if inb {
			d = "in"
		}
		ops = append(ops, fmt.Sprintf("rule %d %s policy-x %s", 1+h.Intn(3), d, g.rule(inb)))
	}
	return ops
}

func main() {
	h := rt.New()
	defer h.Close()
	h.Rule = "case = fresh PolicySets + 1..3 IP sets (rarely >4000 members) + 0..1 IP-port sets + 1..3 policies of 0..4 inbound and outbound rules over nets/IP sets/ports/protocols/actions (25% of cases also carry unsupported or contract-violating rules) " +
		"+ GetPolicySetRules dump + 6..13 packets (+ sometimes an IP set change, ProcessIpSetUpdate, delete, and a second round) + direct protoRuleToHnsRules calls with chunk size 1..3; distinct = distinct op sequence; non-trivial = packets of the case get at least two different verdicts"
	run := func(ops []string, tag string) {
		h.Case(tag)
		s := &state{}
		seen := map[string]bool{}
		for _, op := range ops {
			out := exec(h, s, op)
			h.Op(op, out)
			k := strings.Fields(op)[0]
			h.Count("op:" + k)
			if (k == "pkt" || k == "fpkt") && out != "bad-op" {
				seen[strings.Fields(out)[1]] = true
			}
			if k == "rule" && strings.HasPrefix(out, "err:") {
				h.Count("rule:" + out)
			}
			if strings.Contains(out, "UNMODELLED") {
				h.Count("unmodelled-field-set")
			}
		}
		if len(seen) >= 2 {
			h.Nontrivial(strings.Join(ops, ";"))
		}
		h.Sample()
	}
	if h.Replay != "" {
		run(h.ReplayLines(), "replay")
		return
	}
	for i := 0; i < h.N; i++ {
		ops := genCase(h)
		if os.Getenv("C30_GENONLY") != "" {
			// debugging aid: print the generated ops of the last case instead of executing anything
			if i == h.N-1 {
				fmt.Println(strings.Join(ops, "\n"))
			}
			continue
		}
		run(ops, "gen")
	}
}
