package main

import (
	"fmt"
	"strings"

	"verif/harness/rt"
)

var (
	gTiers = []string{"default", "t1", "t2", "adminnetworkpolicy"}
	gPols  = []string{"gnp|~|p0", "np|ns1|p0", "knp|ns1|p0", "gnp|~|t1.p1", "np|ns2|p1", "gnp|~|a"}
	gEps   = []string{"w:e0", "w:e1", "h:h0"}
	gProfs = []string{"pr0", "pr1", "kns.ns1"}
	gActs  = []string{"Deny", "Pass", "~"}
	// orders*100: equal values, negatives, fractions, unset
	gOrders = []string{"~", "0", "100", "100", "150", "-50", "1000", "1", "99999"}
	gFlags  = []string{"-", "-", "-", "u", "d", "f", "uf", "df", "ud"}
	gTypes  = []string{"-", "ingress", "egress", "ingress,egress", "Ingress", "EGRESS", "other", "egress,ingress"}
	gSels   = []string{"all()", "has(a)", "a == 'x'", "a == 'y'", "b == 'x'", "has(a) && !has(c)", "a in {'x','y'}", "role == 'db' || has(c)", "!has(b)", "has(none)",
		"z == 'x'", "z == 'y'", "has(z)", "z != 'x'", "z == 'db' || role == 'x'"}
)

func genLabels(h *rt.H, keys []string) map[string]string {
	m := map[string]string{}
	for _, k := range keys {
		if h.Chance(0.45) {
			m[k] = rt.Pick(h, []string{"x", "y", "db"})
		}
	}
	return m
}

type epGen struct {
	tag    string
	profs  []string
	labels string
}

func genCase(h *rt.H) []string {
	ops := []string{"new"}
	lastEp := map[string]epGen{}
	n := 15 + h.Intn(66)
	insyncAt := h.Intn(n/2 + 1)
	if h.Chance(0.1) {
		insyncAt = 0
	}
	for i := 0; i < n; i++ {
		if i == insyncAt {
			ops = append(ops, "status insync")
		}
		switch h.Intn(20) {
		case 0, 1:
			ops = append(ops, fmt.Sprintf("tier %s %s %s", rt.Pick(h, gTiers), rt.Pick(h, gOrders), rt.Pick(h, gActs)))
		case 2:
			ops = append(ops, "tier-del "+rt.Pick(h, gTiers))
		case 3, 4, 5, 6, 7:
			tier := rt.Pick(h, gTiers)
			if h.Chance(0.08) {
				tier = "~"
			} else if h.Chance(0.08) {
				tier = "ghost"
			}
			ops = append(ops, fmt.Sprintf("pol %s %s %s %s %s x=%s", rt.Pick(h, gPols), tier, rt.Pick(h, gOrders), rt.Pick(h, gFlags), rt.Pick(h, gTypes), hexs(rt.Pick(h, gSels))))
		case 8:
			ops = append(ops, "pol-del "+rt.Pick(h, gPols))
		case 9, 10, 11, 12:
			// endpoint own labels use keys a,b,role,c (never z); profiles may set any of c,a,role,z, so two
			// profiles of one endpoint can disagree on a key: the first one in ProfileIDs order wins
			k := rt.Pick(h, gEps)
			if last, ok := lastEp[k]; ok && len(last.profs) >= 2 && h.Chance(0.3) {
				// pure re-order: same labels, same tag, same profile set, different order
				profs := append([]string(nil), last.profs...)
				h.Rng.Shuffle(len(profs), func(i, j int) { profs[i], profs[j] = profs[j], profs[i] })
				if strings.Join(profs, ",") == strings.Join(last.profs, ",") {
					profs[0], profs[1] = profs[1], profs[0]
				}
				lastEp[k] = epGen{last.tag, profs, last.labels}
				ops = append(ops, fmt.Sprintf("ep %s %s %s x=%s", k, last.tag, uncsv(profs), last.labels))
				break
			}
			var profs []string
			for _, p := range gProfs {
				if h.Chance(0.5) {
					profs = append(profs, p)
				}
			}
			h.Rng.Shuffle(len(profs), func(i, j int) { profs[i], profs[j] = profs[j], profs[i] })
			tag := rt.Pick(h, []string{"a", "b", "~"})
			labels := encLabels(genLabels(h, []string{"a", "b", "role", "c"}))
			lastEp[k] = epGen{tag, profs, labels}
			ops = append(ops, fmt.Sprintf("ep %s %s %s x=%s", k, tag, uncsv(profs), labels))
		case 13:
			k := rt.Pick(h, gEps)
			delete(lastEp, k)
			ops = append(ops, "ep-del "+k)
		case 14:
			if h.Chance(0.7) {
				ops = append(ops, fmt.Sprintf("rep w:r0 ~ - x=%s", encLabels(genLabels(h, []string{"a", "b"}))))
			} else {
				ops = append(ops, "rep-del w:r0")
			}
		case 15, 16:
			p := rt.Pick(h, gProfs)
			if h.Chance(0.75) {
				// profiles draw from a shared key set (z is never an endpoint's own label), so profiles
				// of one endpoint regularly set the same key to different values
				l := genLabels(h, []string{"c", "a", "role"})
				if h.Chance(0.7) {
					l["z"] = rt.Pick(h, []string{"x", "y", "db"})
				}
				ops = append(ops, fmt.Sprintf("plabels %s x=%s", p, encLabels(l)))
			} else {
				ops = append(ops, "plabels-del "+p)
			}
		case 17:
			if h.Chance(0.5) {
				ops = append(ops, "status "+rt.Pick(h, []string{"resync", "wait", "insync"}))
			} else {
				// order-less tier life cycle around policies that are already active in it: the tier
				// exists only as the sorter's invalid placeholder (or was deleted) and then arrives /
				// is re-created without an order, possibly twice, possibly deleted again
				t := rt.Pick(h, append(gTiers, "ghost"))
				if h.Chance(0.6) {
					ops = append(ops, fmt.Sprintf("pol %s %s %s - - x=%s", rt.Pick(h, gPols), t, rt.Pick(h, gOrders), hexs("all()")))
				}
				if h.Chance(0.5) {
					ops = append(ops, "tier-del "+t)
				}
				ops = append(ops, fmt.Sprintf("tier %s ~ %s", t, rt.Pick(h, gActs)))
				if h.Chance(0.4) {
					ops = append(ops, "flush")
				}
				if h.Chance(0.5) {
					ops = append(ops, fmt.Sprintf("tier %s ~ %s", t, rt.Pick(h, gActs)))
				}
				if h.Chance(0.4) {
					ops = append(ops, "tier-del "+t)
					if h.Chance(0.5) {
						ops = append(ops, fmt.Sprintf("tier %s %s %s", t, rt.Pick(h, []string{"~", "~", "100"}), rt.Pick(h, gActs)))
					}
				}
			}
		default:
			ops = append(ops, "flush")
		}
	}
	ops = append(ops, "status insync", "flush")
	_ = strings.Join
	return ops
}
