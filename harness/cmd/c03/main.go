// C03 correspondence harness: real dispatcher + ActiveRulesCalculator (label index, selectors) +
// PolicyResolver/PolicySorter/ExtractPolicyMetadata, wired as in NewCalculationGraph.  A recorder
// registered immediately before the PolicyResolver on the same dispatchers / listener list logs the
// exact call sequence the resolver receives; that sequence (incl. the ARC's match/unmatch calls) is
// the op stream the Lean model replays.  The property's own oracle recomputes every local
// endpoint's policy list from scratch from the datastore state with the real selector evaluator.
package main

import (
	"encoding/hex"
	"fmt"
	"math"
	"sort"
	"strconv"
	"strings"

	v3 "github.com/projectcalico/api/pkg/apis/projectcalico/v3"
	"github.com/sirupsen/logrus"

	"github.com/projectcalico/calico/felix/calc"
	"github.com/projectcalico/calico/felix/dispatcher"
	"github.com/projectcalico/calico/felix/proto"
	"github.com/projectcalico/calico/lib/std/uniquelabels"
	"github.com/projectcalico/calico/libcalico-go/lib/backend/api"
	"github.com/projectcalico/calico/libcalico-go/lib/backend/model"
	"github.com/projectcalico/calico/libcalico-go/lib/selector"

	"verif/harness/rt"
)

const scale = 100 // orders are drawn from a 1/100 grid; the protocol carries order*100 as an integer

func tok(s string) string {
	if s == "~" {
		return ""
	}
	return s
}
func untok(s string) string {
	if s == "" {
		return "~"
	}
	return s
}
func csv(s string) []string {
	if s == "-" {
		return nil
	}
	out := strings.Split(s, ",")
	for i := range out {
		out[i] = tok(out[i])
	}
	return out
}
func uncsv(l []string) string {
	if len(l) == 0 {
		return "-"
	}
	o := make([]string, len(l))
	for i := range l {
		o[i] = untok(l[i])
	}
	return strings.Join(o, ",")
}
func parseKey(s string) model.PolicyKey {
	p := strings.Split(s, "|")
	return model.PolicyKey{Kind: tok(p[0]), Namespace: tok(p[1]), Name: tok(p[2])}
}
func showKey(k model.PolicyKey) string { return untok(k.Kind) + "|" + untok(k.Namespace) + "|" + untok(k.Name) }
func showPID(p *proto.PolicyID) string { return untok(p.Kind) + "|" + untok(p.Namespace) + "|" + untok(p.Name) }

func parseOrder(s string) *float64 {
	if s == "~" {
		return nil
	}
	n, _ := strconv.ParseInt(s, 10, 64)
	f := float64(n) / scale
	return &f
}
func showOrderF(f float64) string {
	if math.IsInf(f, 1) {
		return "~"
	}
	return strconv.FormatInt(int64(math.Round(f*scale)), 10)
}
func showOrder(p *float64) string {
	if p == nil {
		return "~"
	}
	return showOrderF(*p)
}

func hexs(s string) string { return hex.EncodeToString([]byte(s)) }
func unhex(s string) string {
	b, _ := hex.DecodeString(s)
	return string(b)
}
func encLabels(m map[string]string) string {
	var ks []string
	for k := range m {
		ks = append(ks, k)
	}
	sort.Strings(ks)
	var parts []string
	for _, k := range ks {
		parts = append(parts, k+"="+m[k])
	}
	return hexs(strings.Join(parts, "&"))
}
func decLabels(s string) map[string]string {
	m := map[string]string{}
	d := unhex(s)
	if d == "" {
		return m
	}
	for _, kv := range strings.Split(d, "&") {
		p := strings.SplitN(kv, "=", 2)
		m[p[0]] = p[1]
	}
	return m
}

func epKeyOf(s string, host string) model.Key {
	id := s[2:]
	if s[0] == 'w' {
		return model.WorkloadEndpointKey{Hostname: host, OrchestratorID: "orch", WorkloadID: id, EndpointID: "ep"}
	}
	return model.HostEndpointKey{Hostname: host, EndpointID: id}
}
func showEpKey(k model.Key) string {
	switch k := k.(type) {
	case model.WorkloadEndpointKey:
		return "w:" + k.WorkloadID
	case model.HostEndpointKey:
		return "h:" + k.EndpointID
	}
	return "?"
}

// ---------------------------------------------------------------------------------------------
// datastore state kept by the harness (the "latest state" the property speaks about)

type polRec struct {
	tier     string
	order    *float64
	flags    string // subset of "udf"
	types    []string
	selector string
}
type epRec struct {
	tag    string
	profs  []string
	labels map[string]string
}
type tierRec struct {
	order  *float64
	action string
}

type sys struct {
	all   *dispatcher.Dispatcher
	arc   *calc.ActiveRulesCalculator
	pr    *calc.PolicyResolver
	rec   *recorder
	scan  *scanStub
	inSync bool
	dead   bool

	tiers   map[string]tierRec
	pols    map[string]polRec
	eps     map[string]epRec // local endpoints only
	plabels map[string]map[string]string

	emitted map[string]*emittedEp // last OnEndpointTierUpdate per endpoint (nil endpoint = removed)
	flushCalls []string
	ops     []string
}

type emittedEp struct {
	line  string // canonical text
	tiers []calc.TierInfo
}

// recorder sees every call right before the PolicyResolver does.
type recorder struct {
	lines []string
	pr    *calc.PolicyResolver
	// matchCount: live matches per policy; tainted: policies whose last match stopped while they were
	// still in the resolver's pendingPolicyUpdates (the trigger of the known stale-metadata finding)
	matchCount map[model.PolicyKey]int
	tainted    map[model.PolicyKey]bool
}

func (r *recorder) OnPolicyMatch(p model.PolicyKey, e model.EndpointKey) {
	r.lines = append(r.lines, "match "+showKey(p)+" "+showEpKey(e))
	r.matchCount[p]++
}
func (r *recorder) OnPolicyMatchStopped(p model.PolicyKey, e model.EndpointKey) {
	r.lines = append(r.lines, "unmatch "+showKey(p)+" "+showEpKey(e))
	r.matchCount[p]--
	if r.matchCount[p] == 0 {
		if r.pr.VerifPending(p) {
			r.tainted[p] = true
		} else {
			delete(r.tainted, p) // the sorter entry is dropped
		}
	}
}
func (r *recorder) OnUpdate(u api.Update) bool {
	r.lines = append(r.lines, renderUpdate(u))
	if k, ok := u.Key.(model.PolicyKey); ok && r.matchCount[k] > 0 {
		delete(r.tainted, k) // the sorter entry is refreshed because the policy is matched
	}
	return false
}
func (r *recorder) OnStatus(s api.SyncStatus) {
	r.lines = append(r.lines, "status "+map[api.SyncStatus]string{api.WaitForDatastore: "wait", api.ResyncInProgress: "resync", api.InSync: "insync"}[s])
}

func polFlags(p *model.Policy) string {
	f := ""
	if p.DoNotTrack {
		f += "u"
	}
	if p.PreDNAT {
		f += "d"
	}
	if p.ApplyOnForward {
		f += "f"
	}
	if f == "" {
		f = "-"
	}
	return f
}

// renderUpdate renders an update as the protocol line (with the real-side-only data in x=…).
func renderUpdate(u api.Update) string {
	switch k := u.Key.(type) {
	case model.TierKey:
		if u.Value == nil {
			return "tier-del " + k.Name
		}
		t := u.Value.(*model.Tier)
		return "tier " + k.Name + " " + showOrder(t.Order) + " " + untok(string(t.DefaultAction))
	case model.PolicyKey:
		if u.Value == nil {
			return "pol-del " + showKey(k)
		}
		p := u.Value.(*model.Policy)
		return "pol " + showKey(k) + " " + untok(p.Tier) + " " + showOrder(p.Order) + " " + polFlags(p) + " " + uncsv(p.Types) + " x=" + hexs(p.Selector)
	case model.WorkloadEndpointKey:
		if u.Value == nil {
			return "ep-del " + showEpKey(k)
		}
		e := u.Value.(*model.WorkloadEndpoint)
		return "ep " + showEpKey(k) + " " + untok(e.Name) + " " + uncsv(e.ProfileIDs) + " x=" + encLabels(e.Labels.RecomputeOriginalMap())
	case model.HostEndpointKey:
		if u.Value == nil {
			return "ep-del " + showEpKey(k)
		}
		e := u.Value.(*model.HostEndpoint)
		return "ep " + showEpKey(k) + " " + untok(e.Name) + " " + uncsv(e.ProfileIDs) + " x=" + encLabels(e.Labels.RecomputeOriginalMap())
	}
	return "noop unknown"
}

// scanStub stands for the RuleScanner: records which policies the ARC declares active.
type scanStub struct{ active map[model.PolicyKey]bool }

func (s *scanStub) OnPolicyActive(k model.PolicyKey, _ *model.Policy)         { s.active[k] = true }
func (s *scanStub) OnPolicyInactive(k model.PolicyKey)                        { delete(s.active, k) }
func (s *scanStub) OnProfileActive(model.ProfileRulesKey, *model.ProfileRules) {}
func (s *scanStub) OnProfileInactive(model.ProfileRulesKey)                   {}

func (s *sys) OnEndpointTierUpdate(k model.EndpointKey, ep model.Endpoint, _ []calc.EndpointComputedData, _ *calc.EndpointBGPPeer, tiers []calc.TierInfo) {
	key := showEpKey(k)
	if ep == nil {
		s.emitted[key] = nil
		s.flushCalls = append(s.flushCalls, key+" nil")
		return
	}
	var tag string
	var profs []string
	switch e := ep.(type) {
	case *model.WorkloadEndpoint:
		tag, profs = e.Name, e.ProfileIDs
	case *model.HostEndpoint:
		tag, profs = e.Name, e.ProfileIDs
	}
	n, u, p, f := toProto(k, tiers)
	line := key + " " + untok(tag) + " " + uncsv(profs) + " T:" + showTiers(tiers) + " N:" + showPTs(n) + " U:" + showPTs(u) + " P:" + showPTs(p) + " F:" + showPTs(f)
	s.emitted[key] = &emittedEp{line: line, tiers: append([]calc.TierInfo(nil), tiers...)}
	s.flushCalls = append(s.flushCalls, line)
}

// toProto runs the REAL tierInfoToProtoTierInfo through a scratch EventSequencer.  The key is always
// turned into a host endpoint key so that all four tier lists are visible.
func toProto(k model.EndpointKey, tiers []calc.TierInfo) (n, u, p, f []*proto.TierInfo) {
	seq := calc.NewEventSequencer(nil)
	seq.Callback = func(m any) {
		if h, ok := m.(*proto.HostEndpointUpdate); ok {
			n, u, p, f = h.Endpoint.Tiers, h.Endpoint.UntrackedTiers, h.Endpoint.PreDnatTiers, h.Endpoint.ForwardTiers
		}
	}
	seq.OnEndpointTierUpdate(model.HostEndpointKey{Hostname: "host", EndpointID: "x"}, &model.HostEndpoint{}, nil, nil, tiers)
	seq.Flush()
	return
}

func showPT(t *proto.TierInfo) string {
	f := func(l []*proto.PolicyID) string {
		if len(l) == 0 {
			return "-"
		}
		o := make([]string, len(l))
		for i, p := range l {
			o[i] = showPID(p)
		}
		return strings.Join(o, ",")
	}
	return untok(t.Name) + "=" + untok(t.DefaultAction) + "=in:" + f(t.IngressPolicies) + "=out:" + f(t.EgressPolicies)
}
func showPTs(l []*proto.TierInfo) string {
	if len(l) == 0 {
		return "-"
	}
	o := make([]string, len(l))
	for i, t := range l {
		o[i] = showPT(t)
	}
	return strings.Join(o, "+")
}

func flagBits(flags uint8) string {
	s := ""
	for i, c := range "udfie" {
		if flags&(1<<uint(i)) != 0 {
			s += string(c)
		}
	}
	return s
}

func showTiers(tiers []calc.TierInfo) string {
	if len(tiers) == 0 {
		return "-"
	}
	var ts []string
	for _, t := range tiers {
		var ps []string
		for _, kv := range t.OrderedPolicies {
			ok, order, flags, tier := calc.VerifPolKVMeta(kv)
			if !ok {
				ps = append(ps, showKey(kv.Key)+":nil")
				continue
			}
			ps = append(ps, showKey(kv.Key)+":"+showOrderF(order)+":"+flagBits(flags)+":"+untok(tier))
		}
		pl := "-"
		if len(ps) > 0 {
			pl = strings.Join(ps, ";")
		}
		ts = append(ts, untok(t.Name)+"="+showOrder(t.Order)+"="+untok(string(t.DefaultAction))+"="+pl)
	}
	return strings.Join(ts, "+")
}

func newSys() *sys {
	s := &sys{tiers: map[string]tierRec{}, pols: map[string]polRec{}, eps: map[string]epRec{}, plabels: map[string]map[string]string{},
		emitted: map[string]*emittedEp{}}
	s.all = dispatcher.NewDispatcher()
	local := calc.VerifWireLocalDispatcher(s.all, "host")
	s.arc = calc.NewActiveRulesCalculator()
	s.arc.RegisterWith(local, s.all)
	s.scan = &scanStub{active: map[model.PolicyKey]bool{}}
	s.arc.RuleScanner = s.scan
	s.pr = calc.NewPolicyResolver()
	s.rec = &recorder{pr: s.pr, matchCount: map[model.PolicyKey]int{}, tainted: map[model.PolicyKey]bool{}}
	// the recorder is registered immediately before the resolver everywhere the resolver registers
	s.arc.RegisterPolicyMatchListener(s.rec)
	s.arc.RegisterPolicyMatchListener(s.pr)
	s.all.Register(model.PolicyKey{}, s.rec.OnUpdate)
	s.all.Register(model.TierKey{}, s.rec.OnUpdate)
	local.Register(model.WorkloadEndpointKey{}, s.rec.OnUpdate)
	local.Register(model.HostEndpointKey{}, s.rec.OnUpdate)
	local.RegisterStatusHandler(s.rec.OnStatus)
	s.pr.RegisterWith(s.all, local)
	s.pr.RegisterCallback(s)
	return s
}

func (s *sys) send(k model.Key, v any) {
	ut := api.UpdateTypeKVUpdated
	if v == nil {
		ut = api.UpdateTypeKVDeleted
		s.all.OnUpdates([]api.Update{{KVPair: model.KVPair{Key: k}, UpdateType: ut}})
		return
	}
	s.all.OnUpdates([]api.Update{{KVPair: model.KVPair{Key: k, Value: v}, UpdateType: ut}})
}

func xarg(w []string) string {
	for _, t := range w {
		if strings.HasPrefix(t, "x=") {
			return t[2:]
		}
	}
	return ""
}

// execHigh runs execInner and turns a panic of the REAL code into an oracle failure carrying the
// history (signature `sorted-panic` for the PolicySorter's "tier present in map but not the sorted
// tree" panic, `panic` otherwise); the rest of the case is skipped.
func execHigh(h *rt.H, s **sys, op string) {
	if *s != nil && (*s).dead && strings.Fields(op)[0] != "new" {
		return
	}
	defer func() {
		r := recover()
		if r == nil {
			return
		}
		msg := fmt.Sprint(r)
		if e, ok := r.(*logrus.Entry); ok {
			msg = e.Message
		}
		sig := "panic"
		if strings.Contains(msg, "tier present in map but not the sorted tree") {
			sig = "sorted-panic"
		}
		q := *s
		q.dead = true
		h.OracleFail(sig, "the real code panicked: "+msg, map[string]any{"ops": append([]string(nil), q.ops...)})
		for _, l := range q.rec.lines {
			h.Op(l, "ok")
		}
		h.Op("noop "+strings.TrimPrefix(op, "noop "), "panic")
		h.Count("panic:" + sig)
	}()
	execInner(h, s, op)
}

// execInner executes one generated (high-level) op on the real graph and emits the protocol lines.
func execInner(h *rt.H, s **sys, op string) {
	w := strings.Fields(op)
	if w[0] == "noop" {
		w = w[1:]
	}
	emit := func(line, out string) {
		h.Op(line, out)
		h.Count("op:" + strings.Fields(line)[0])
	}
	if w[0] == "new" {
		*s = newSys()
		(*s).ops = []string{"new"}
		emit("new", "ok")
		return
	}
	if w[0] == "match" || w[0] == "unmatch" {
		return // derived lines: regenerated by the real ARC
	}
	q := *s
	q.ops = append(q.ops, strings.Join(w, " "))
	q.rec.lines = nil
	switch w[0] {
	case "tier":
		q.tiers[w[1]] = tierRec{parseOrder(w[2]), tok(w[3])}
		q.send(model.TierKey{Name: w[1]}, &model.Tier{Order: parseOrder(w[2]), DefaultAction: v3.Action(tok(w[3]))})
	case "tier-del":
		delete(q.tiers, w[1])
		q.send(model.TierKey{Name: w[1]}, nil)
	case "pol":
		fl := w[4]
		p := &model.Policy{Tier: tok(w[2]), Order: parseOrder(w[3]), DoNotTrack: strings.Contains(fl, "u"), PreDNAT: strings.Contains(fl, "d"),
			ApplyOnForward: strings.Contains(fl, "f"), Types: csv(w[5]), Selector: unhex(xarg(w))}
		q.pols[w[1]] = polRec{tier: p.Tier, order: p.Order, flags: fl, types: p.Types, selector: p.Selector}
		q.send(parseKey(w[1]), p)
	case "pol-del":
		delete(q.pols, w[1])
		q.send(parseKey(w[1]), nil)
	case "ep", "rep":
		host := "host"
		if w[0] == "rep" {
			host = "other"
		}
		labels := decLabels(xarg(w))
		if w[0] == "ep" {
			q.eps[w[1]] = epRec{tag: tok(w[2]), profs: csv(w[3]), labels: labels}
		}
		k := epKeyOf(w[1], host)
		if w[1][0] == 'w' {
			q.send(k, &model.WorkloadEndpoint{Name: tok(w[2]), ProfileIDs: csv(w[3]), Labels: uniquelabels.Make(labels)})
		} else {
			q.send(k, &model.HostEndpoint{Name: tok(w[2]), ProfileIDs: csv(w[3]), Labels: uniquelabels.Make(labels)})
		}
	case "ep-del", "rep-del":
		host := "host"
		if w[0] == "rep-del" {
			host = "other"
		} else {
			delete(q.eps, w[1])
		}
		q.send(epKeyOf(w[1], host), nil)
	case "plabels":
		q.plabels[w[1]] = decLabels(xarg(w))
		q.send(model.ResourceKey{Kind: v3.KindProfile, Name: w[1]}, &v3.Profile{Spec: v3.ProfileSpec{LabelsToApply: decLabels(xarg(w))}})
	case "plabels-del":
		delete(q.plabels, w[1])
		q.send(model.ResourceKey{Kind: v3.KindProfile, Name: w[1]}, nil)
	case "status":
		st := map[string]api.SyncStatus{"wait": api.WaitForDatastore, "resync": api.ResyncInProgress, "insync": api.InSync}[w[1]]
		if st == api.InSync {
			q.inSync = true
		}
		q.all.OnStatusUpdated(st)
	case "flush":
		q.flushCalls = nil
		q.pr.Flush()
		out := "skip"
		if q.pr.InitialSyncCompleted {
			sort.Strings(q.flushCalls)
			out = "none"
			if len(q.flushCalls) > 0 {
				out = strings.Join(q.flushCalls, " ; ")
			}
			// the REAL ActiveRulesCalculator's active set (what it told the rule scanner)
			var act []string
			for k := range q.scan.active {
				act = append(act, showKey(k))
			}
			sort.Strings(act)
			if len(act) == 0 {
				out += " A:-"
			} else {
				out += " A:" + strings.Join(act, ",")
			}
			q.oracle(h)
		}
		emit("flush", out)
		return
	default:
		panic("unknown op " + op)
	}
	// protocol lines: everything the resolver received, in order; the op itself as `noop` if the
	// resolver did not see it
	seen := false
	self := strings.Join(w, " ")
	for _, l := range q.rec.lines {
		lw := strings.Fields(l)
		if lw[0] == w[0] && len(lw) > 1 && len(w) > 1 && lw[1] == w[1] {
			seen = true
		}
		emit(l, "ok")
	}
	if !seen {
		emit("noop "+self, "ok")
	}
}

// ---------------------------------------------------------------------------------------------
// the property oracle: from-scratch computation on the datastore state

type expPol struct {
	key   model.PolicyKey
	order *float64
	rec   polRec
}

func lessOrder(a, b *float64) (less, eq bool) {
	if a == nil && b == nil {
		return false, true
	}
	if a == nil {
		return false, false
	}
	if b == nil {
		return true, false
	}
	return *a < *b, *a == *b
}

// effectiveLabels: the endpoint's own labels, then for every other key the value of the FIRST profile
// in the endpoint's ProfileIDs order that defines it (label_inheritance_index.go itemData.GetHandle).
func (s *sys) effectiveLabels(e epRec) map[string]string {
	m := map[string]string{}
	for k, v := range e.labels {
		m[k] = v
	}
	for _, p := range e.profs {
		for k, v := range s.plabels[p] {
			if _, ok := m[k]; !ok {
				m[k] = v
			}
		}
	}
	return m
}

func governs(r polRec) (in, out bool) {
	if len(r.types) == 0 {
		return true, true
	}
	for _, t := range r.types {
		if strings.EqualFold(t, "ingress") {
			in = true
		}
		if strings.EqualFold(t, "egress") {
			out = true
		}
	}
	return
}

// expected renders, for one endpoint, the four proto tier lists restricted to tiers that exist.
func (s *sys) expected(e epRec) string {
	labels := s.effectiveLabels(e)
	byTier := map[string][]expPol{}
	for ks, r := range s.pols {
		sel, err := selector.Parse(r.selector)
		if err != nil || !sel.Evaluate(labels) {
			continue
		}
		t := r.tier
		if t == "" {
			t = "default"
		}
		if _, ok := s.tiers[t]; !ok {
			continue // the statement does not speak about policies whose tier does not exist
		}
		byTier[t] = append(byTier[t], expPol{parseKey(ks), r.order, r})
	}
	var names []string
	for t := range byTier {
		names = append(names, t)
	}
	sort.Slice(names, func(i, j int) bool {
		l, eq := lessOrder(s.tiers[names[i]].order, s.tiers[names[j]].order)
		if eq {
			return names[i] < names[j]
		}
		return l
	})
	var N, U, P, F []string
	for _, t := range names {
		ps := byTier[t]
		sort.Slice(ps, func(i, j int) bool {
			l, eq := lessOrder(ps[i].order, ps[j].order)
			if eq {
				a := ps[i].key.Name + "/" + ps[i].key.Namespace + "/" + ps[i].key.Kind
				b := ps[j].key.Name + "/" + ps[j].key.Namespace + "/" + ps[j].key.Kind
				return a < b
			}
			return l
		})
		type lists struct{ in, out []string }
		var n, u, p, f lists
		for _, q := range ps {
			gi, ge := governs(q.rec)
			id := showKey(q.key)
			add := func(l *lists, egress bool) {
				if gi {
					l.in = append(l.in, id)
				}
				if egress && ge {
					l.out = append(l.out, id)
				}
			}
			switch {
			case strings.Contains(q.rec.flags, "u"):
				add(&u, true)
			case strings.Contains(q.rec.flags, "d"):
				add(&p, false)
			default:
				if strings.Contains(q.rec.flags, "f") {
					add(&f, true)
				}
				add(&n, true)
			}
		}
		r := func(l lists) string { return t + "=in:" + uncsv(l.in) + "=out:" + uncsv(l.out) }
		if len(n.in)+len(n.out) > 0 {
			N = append(N, r(n))
		}
		if len(u.in)+len(u.out) > 0 {
			U = append(U, r(u))
		}
		if len(p.in)+len(p.out) > 0 {
			P = append(P, r(p))
		}
		if len(f.in)+len(f.out) > 0 {
			F = append(F, r(f))
		}
	}
	j := func(l []string) string {
		if len(l) == 0 {
			return "-"
		}
		return strings.Join(l, "+")
	}
	return "N:" + j(N) + " U:" + j(U) + " P:" + j(P) + " F:" + j(F)
}

// actual renders what was last emitted for the endpoint, restricted to tiers that exist.
func (s *sys) actual(k string, em *emittedEp) string {
	var kept []calc.TierInfo
	for _, t := range em.tiers {
		if _, ok := s.tiers[t.Name]; ok {
			kept = append(kept, t)
		}
	}
	n, u, p, f := toProto(nil, kept)
	r := func(l []*proto.TierInfo) string {
		if len(l) == 0 {
			return "-"
		}
		var o []string
		for _, t := range l {
			f := func(l []*proto.PolicyID) string {
				var x []string
				for _, p := range l {
					x = append(x, showPID(p))
				}
				return uncsv(x)
			}
			o = append(o, t.Name+"=in:"+f(t.IngressPolicies)+"=out:"+f(t.EgressPolicies))
		}
		return strings.Join(o, "+")
	}
	return "N:" + r(n) + " U:" + r(u) + " P:" + r(p) + " F:" + r(f)
}

// staleTainted: the emitted list carries, for a tainted policy, metadata that differs from the
// policy currently in the datastore.
func (s *sys) staleTainted(em *emittedEp) bool {
	for _, t := range em.tiers {
		for _, kv := range t.OrderedPolicies {
			if !s.rec.tainted[kv.Key] {
				continue
			}
			cur, ok := s.pols[showKey(kv.Key)]
			if !ok {
				return true
			}
			want := calc.VerifPolKV(kv.Key, &model.Policy{Tier: cur.tier, Order: cur.order, DoNotTrack: strings.Contains(cur.flags, "u"),
				PreDNAT: strings.Contains(cur.flags, "d"), ApplyOnForward: strings.Contains(cur.flags, "f"), Types: cur.types})
			_, o1, f1, t1 := calc.VerifPolKVMeta(kv)
			_, o2, f2, t2 := calc.VerifPolKVMeta(want)
			if o1 != o2 || f1 != f2 || t1 != t2 {
				return true
			}
		}
	}
	return false
}

func (s *sys) oracle(h *rt.H) {
	input := func() map[string]any { return map[string]any{"ops": append([]string(nil), s.ops...)} }
	// (1) every local endpoint's emitted list = from-scratch list
	var keys []string
	for k := range s.eps {
		keys = append(keys, k)
	}
	sort.Strings(keys)
	for _, k := range keys {
		em, ok := s.emitted[k]
		if !ok || em == nil {
			h.OracleFail("endpoint-not-sent", "local endpoint "+k+" exists but no policy list was emitted for it", input())
			continue
		}
		exp, act := s.expected(s.eps[k]), s.actual(k, em)
		if exp != act {
			sig := "wrong-policy-list"
			if s.staleTainted(em) {
				sig = "stale-metadata-unmatched-pending"
			}
			h.OracleFail(sig, fmt.Sprintf("endpoint %s: emitted policy list differs from the list computed from the current datastore state: emitted %s, expected %s", k, act, exp), input())
		}
	}
	for k, em := range s.emitted {
		if _, ok := s.eps[k]; !ok && em != nil {
			h.OracleFail("stale-endpoint", "endpoint "+k+" was deleted but its last emitted update is not a removal", input())
		}
	}
	// (2) only policies that apply to some local endpoint are active
	want := map[string]bool{}
	for ks, r := range s.pols {
		sel, err := selector.Parse(r.selector)
		if err != nil {
			continue
		}
		for _, e := range s.eps {
			if sel.Evaluate(s.effectiveLabels(e)) {
				want[ks] = true
			}
		}
	}
	for k := range s.scan.active {
		if !want[showKey(k)] {
			h.OracleFail("inactive-policy-sent", "policy "+showKey(k)+" is declared active although it matches no local endpoint", input())
		}
	}
	for ks := range want {
		if !s.scan.active[parseKey(ks)] {
			h.OracleFail("active-policy-missing", "policy "+ks+" matches a local endpoint but is not declared active", input())
		}
	}
}

func main() {
	h := rt.New()
	defer h.Close()
	h.Rule = "case = fresh dispatcher+ActiveRulesCalculator+PolicyResolver; 15..80 datastore updates over 4 tiers (orders on a 1/100 grid incl. equal and unset), 6 policy keys (equal names in different kinds/namespaces, orders incl. equal/unset, tier moves, missing tiers, all flag/type combinations, selector changes), 3 profiles with labels, 3 local + 1 remote endpoint with label changes; in-sync at a random point; flushes at random points; " +
		"distinct = distinct op sequence; non-trivial = case with >=2 in-sync flushes that emitted endpoint updates with >=2 policies"
	var s *sys
	run := func(ops []string, tag string) {
		h.Case(tag)
		rich := 0
		for _, op := range ops {
			execHigh(h, &s, op)
			if strings.HasPrefix(op, "flush") && s != nil {
				for _, l := range s.flushCalls {
					if strings.Count(l, ";") >= 1 || strings.Count(l, "+") >= 2 {
						rich++
						break
					}
				}
			}
		}
		if rich >= 2 {
			h.Nontrivial(strings.Join(ops, ";"))
		}
		h.Sample()
	}
	if h.Replay != "" {
		run(h.ReplayLines(), "replay")
		return
	}
	for i := 0; i < h.N; i++ {
		run(genCase(h), "gen")
	}
}
