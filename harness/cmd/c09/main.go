// C09 correspondence harness: drives the real felix/rules endpoint / policy-group / policy / profile
// chain renderers, evaluates the REAL rendered chains (nfsem) and compares the verdict with the
// reference tier/profile semantics (the property's oracle).
package main

import (
	"encoding/hex"
	"fmt"
	"strconv"
	"strings"

	"github.com/projectcalico/calico/felix/generictables"
	"github.com/projectcalico/calico/felix/ipsets"
	"github.com/projectcalico/calico/felix/proto"
	"github.com/projectcalico/calico/felix/rules"
	"github.com/projectcalico/calico/felix/types"

	"verif/harness/nfsem"
	"verif/harness/rt"
)

const (
	mAccept, mPass, mDrop = 0x80, 0x100, 0x800
)

type polInfo struct {
	id     *types.PolicyID
	staged bool
	action string
	proto  string
	in     string
	out    string
}

type epInfo struct {
	tiers []rules.TierPolicyGroups
	profs []string
	in    bool // uses ingress policies
	up    bool
}

type state struct {
	nft     bool
	cfg     rules.Config
	r       rules.RuleRenderer
	text    []nfsem.TextChain
	pols    map[string]*polInfo // by in/out chain name
	profs   map[string]*polInfo
	profIDs map[string]string // chain -> profile id
	eps     map[string]*epInfo
	reject  bool
	failsafeAdded bool
}

func b(s string) bool { return s == "1" }

func (s *state) add(cs []*generictables.Chain) string {
	t := nfsem.RenderChains(s.nft, 4, cs)
	s.text = append(s.text, t...)
	return nfsem.Show(t)
}

var protoNum = map[string]int{"tcp": 6, "udp": 17, "icmp": 1, "sctp": 132}

// outcome of a policy/profile on a packet of protocol pr: first matching rule decides (log rules do not).
// action / proto are '+'-joined lists, one entry per rule.
func outcome(p *polInfo, pr int) string {
	acts, prs := strings.Split(p.action, "+"), strings.Split(p.proto, "+")
	for i := range acts {
		if prs[i] != "-" && protoNum[prs[i]] != pr {
			continue
		}
		switch acts[i] {
		case "-", "allow":
			return "allow"
		case "deny":
			return "deny"
		case "pass", "next-tier":
			return "pass"
		}
	}
	return "nomatch"
}

func mkRules(action, pr string) []*proto.Rule {
	acts, prs := strings.Split(action, "+"), strings.Split(pr, "+")
	var out []*proto.Rule
	for i := range acts {
		out = append(out, mkRule(acts[i], prs[i]))
	}
	return out
}

func mkRule(action, pr string) *proto.Rule {
	r := &proto.Rule{}
	if action != "-" {
		r.Action = action
	}
	if pr != "-" {
		r.Protocol = &proto.Protocol{NumberOrName: &proto.Protocol_Name{Name: pr}}
	}
	return r
}

func kindOf(k string) string {
	if k == "s" {
		return "StagedGlobalNetworkPolicy"
	}
	return "GlobalNetworkPolicy"
}

func (s *state) parsePols(v string, inbound bool) []*types.PolicyID {
	var out []*types.PolicyID
	if v == "-" || v == "" {
		return out
	}
	for _, t := range strings.Split(v, ",") {
		c := strings.SplitN(t, ":", 2)[0]
		p := s.pols[c]
		if p == nil {
			panic("unknown policy chain " + c)
		}
		out = append(out, p.id)
	}
	return out
}

func (s *state) parseTiers(v string, inbound bool) []rules.TierPolicyGroups {
	var out []rules.TierPolicyGroups
	if v == "-" {
		return out
	}
	for _, t := range strings.Split(v, "|") {
		f := strings.Split(t, "!")
		tg := rules.TierPolicyGroups{Name: f[0]}
		if f[1] == "1" {
			tg.DefaultAction = "Pass"
		} else {
			tg.DefaultAction = "Deny"
		}
		if f[2] != "-" {
			for _, g := range strings.Split(f[2], "&") {
				gp := strings.SplitN(g, "~", 2)
				pg := &rules.PolicyGroup{Policies: s.parsePols(gp[1], inbound), Selector: "all()"}
				if inbound {
					pg.Direction = rules.PolicyDirectionInbound
					tg.IngressPolicies = append(tg.IngressPolicies, pg)
				} else {
					pg.Direction = rules.PolicyDirectionOutbound
					tg.EgressPolicies = append(tg.EgressPolicies, pg)
				}
			}
		}
		out = append(out, tg)
	}
	return out
}

// reference verdict (the property statement), from the layout only.
func (s *state) reference(e *epInfo, pr int) string {
	for _, t := range e.tiers {
		groups := t.EgressPolicies
		if e.in {
			groups = t.IngressPolicies
		}
		if len(groups) == 0 {
			continue
		}
		enforced := 0
		decided := ""
		for _, g := range groups {
			for _, id := range g.Policies {
				var p *polInfo
				for _, q := range s.pols {
					if q.id == id {
						p = q
					}
				}
				if p.staged {
					continue
				}
				enforced++
				if decided == "" {
					if o := outcome(p, pr); o != "nomatch" {
						decided = o
					}
				}
			}
		}
		switch decided {
		case "allow":
			return "allow"
		case "deny":
			return "deny"
		case "pass":
			continue
		}
		if enforced > 0 && t.DefaultAction != "Pass" {
			return "deny"
		}
	}
	for _, pc := range e.profs {
		switch outcome(s.profs[pc], pr) {
		case "allow":
			return "allow"
		case "deny":
			return "deny"
		}
	}
	return "deny"
}

// referenceStalePass: what the verdict becomes if, and only if, the recorded finding
// "pass bit is not cleared before / between profile chains" is at work: once the pass bit is set (by a
// pass in the last evaluated tier or by a matching pass rule of an earlier profile) every later profile
// chain returns at its first pass-action rule, matching or not.
func (s *state) referenceStalePass(e *epInfo, pr int) string {
	stale := false
	for _, t := range e.tiers {
		groups := t.EgressPolicies
		if e.in {
			groups = t.IngressPolicies
		}
		if len(groups) == 0 {
			continue
		}
		stale = false // every tier clears the pass bit first
		enforced := 0
		decided := ""
		for _, g := range groups {
			for _, id := range g.Policies {
				var p *polInfo
				for _, q := range s.pols {
					if q.id == id {
						p = q
					}
				}
				if p.staged {
					continue
				}
				enforced++
				if decided == "" {
					if o := outcome(p, pr); o != "nomatch" {
						decided = o
					}
				}
			}
		}
		switch decided {
		case "allow":
			return "allow"
		case "deny":
			return "deny"
		case "pass":
			stale = true
			continue
		}
		if enforced > 0 && t.DefaultAction != "Pass" {
			return "deny"
		}
	}
	for _, pc := range e.profs {
		p := s.profs[pc]
		acts, prs := strings.Split(p.action, "+"), strings.Split(p.proto, "+")
	rulesLoop:
		for i := range acts {
			matches := prs[i] == "-" || protoNum[prs[i]] == pr
			switch acts[i] {
			case "pass", "next-tier":
				if stale {
					break rulesLoop
				}
				if matches {
					stale = true
					break rulesLoop
				}
			case "-", "allow":
				if matches {
					return "allow"
				}
			case "deny":
				if matches {
					return "deny"
				}
			}
		}
	}
	return "deny"
}

func exec(h *rt.H, s *state, op string) string {
	w := strings.Fields(op)
	switch w[0] {
	case "cfg":
		*s = state{pols: map[string]*polInfo{}, profs: map[string]*polInfo{}, eps: map[string]*epInfo{}, profIDs: map[string]string{}}
		s.nft = w[1] == "nft"
		s.reject = b(w[3])
		deny, allow := "DROP", "ACCEPT"
		if b(w[3]) {
			deny = "REJECT"
		}
		if b(w[4]) {
			allow = "RETURN"
		}
		s.cfg = rules.Config{
			IPSetConfigV4: ipsets.NewIPVersionConfig(ipsets.IPFamilyV4, "cali", nil, nil),
			IPSetConfigV6: ipsets.NewIPVersionConfig(ipsets.IPFamilyV6, "cali", nil, nil),
			MarkAccept:    mAccept, MarkPass: mPass, MarkScratch0: 0x200, MarkScratch1: 0x400, MarkDrop: mDrop,
			MarkEndpoint: 0xff000, MarkNonCaliEndpoint: 0x1000,
			FilterDenyAction: deny, FilterAllowAction: allow, FlowLogsEnabled: b(w[2]),
			DisableConntrackInvalid: b(w[5]), AllowVXLANPacketsFromWorkloads: !b(w[6]), AllowIPIPPacketsFromWorkloads: !b(w[7]),
			VXLANPort: 4789,
		}
		s.r = rules.NewRenderer(s.cfg, s.nft)
		return "ok"
	case "pol":
		id := &types.PolicyID{Name: w[6][strings.Index(w[6], "/")+1:], Kind: kindOf(w[1])}
		p := &polInfo{id: id, staged: w[1] == "s", action: w[4], proto: w[5], in: w[2], out: w[3]}
		s.pols[w[2]], s.pols[w[3]] = p, p
		cs := s.r.PolicyToIptablesChains(id, &proto.Policy{Tier: "default", InboundRules: mkRules(w[4], w[5]), OutboundRules: mkRules(w[4], w[5])}, 4)
		if cs == nil {
			return "staged"
		}
		if cs[0].Name != w[2] || cs[1].Name != w[3] {
			return "chain-name-mismatch"
		}
		return s.add(cs)
	case "prof":
		p := &polInfo{action: w[3], proto: w[4], in: w[1], out: w[2]}
		s.profs[w[1]], s.profs[w[2]] = p, p
		s.profIDs[w[1]], s.profIDs[w[2]] = w[5], w[5]
		in, out := s.r.ProfileToIptablesChains(&types.ProfileID{Name: w[5]}, &proto.Profile{InboundRules: mkRules(w[3], w[4]), OutboundRules: mkRules(w[3], w[4])}, 4)
		if in.Name != w[1] || out.Name != w[2] {
			return "chain-name-mismatch"
		}
		return s.add([]*generictables.Chain{in, out})
	case "group":
		inbound := strings.HasPrefix(w[1], "cali-gi-")
		pg := &rules.PolicyGroup{Policies: s.parsePols(w[2], inbound), Selector: "all()", Direction: rules.PolicyDirectionOutbound}
		if inbound {
			pg.Direction = rules.PolicyDirectionInbound
		}
		if pg.ChainName() != w[1] {
			return "chain-name-mismatch " + pg.ChainName()
		}
		return s.add(s.r.PolicyGroupToIptablesChains(pg))
	case "wep":
		ti, to := s.parseTiers(w[4], true), s.parseTiers(w[5], false)
		// the real API takes one tier list holding both directions
		if len(ti) != len(to) {
			panic("tier lists differ in length")
		}
		tiers := make([]rules.TierPolicyGroups, len(ti))
		for i := range ti {
			tiers[i] = ti[i]
			tiers[i].EgressPolicies = to[i].EgressPolicies
			if ti[i].Name != to[i].Name || ti[i].DefaultAction != to[i].DefaultAction {
				panic("tier lists differ")
			}
		}
		var profIDs []string
		if w[6] != "-" {
			for _, c := range strings.Split(w[6], ",") {
				profIDs = append(profIDs, s.profIDs[c])
			}
		}
		cs := s.r.WorkloadEndpointToIptablesChains("cali1234", nil, b(w[1]), tiers, profIDs, nil)
		if cs[0].Name != w[2] || cs[1].Name != w[3] {
			return "chain-name-mismatch"
		}
		var pin, pout []string
		if w[6] != "-" {
			pin, pout = strings.Split(w[6], ","), strings.Split(w[7], ",")
		}
		s.eps[w[2]] = &epInfo{tiers: tiers, profs: pin, in: true, up: b(w[1])}
		s.eps[w[3]] = &epInfo{tiers: tiers, profs: pout, in: false, up: b(w[1])}
		return s.add(cs)
	case "hep", "hepraw", "hepmangle":
		// hep <th> <fh> <thfw> <fhfw> <tiersIn> <tiersOut> <fwdIn> <fwdOut> <profIn> <profOut>
		// hepraw <th> <fh> <tiersIn> <tiersOut>          hepmangle <fh> <tiersIn> <tiersOut>
		merge := func(a, bb string) []rules.TierPolicyGroups {
			ti, to := s.parseTiers(a, true), s.parseTiers(bb, false)
			if len(ti) != len(to) {
				panic("tier lists differ in length")
			}
			out := make([]rules.TierPolicyGroups, len(ti))
			for i := range ti {
				out[i] = ti[i]
				out[i].EgressPolicies = to[i].EgressPolicies
			}
			return out
		}
		if !s.failsafeAdded {
			s.text = append(s.text, nfsem.TextChain{Name: "cali-failsafe-in"}, nfsem.TextChain{Name: "cali-failsafe-out"})
			s.failsafeAdded = true
		}
		switch w[0] {
		case "hep":
			tiers, fwd := merge(w[5], w[6]), merge(w[7], w[8])
			var profIDs, pin, pout []string
			if w[9] != "-" {
				pin, pout = strings.Split(w[9], ","), strings.Split(w[10], ",")
				for _, c := range pin {
					profIDs = append(profIDs, s.profIDs[c])
				}
			}
			cs := s.r.HostEndpointToFilterChains("eth0", tiers, fwd, nil, profIDs)
			for i := 0; i < 4; i++ {
				if cs[i].Name != w[1+i] {
					return "chain-name-mismatch"
				}
			}
			s.eps[w[1]] = &epInfo{tiers: tiers, profs: pout, in: false, up: true}
			s.eps[w[2]] = &epInfo{tiers: tiers, profs: pin, in: true, up: true}
			return s.add(cs)
		case "hepraw":
			cs := s.r.HostEndpointToRawChains("eth1", merge(w[3], w[4]))
			if cs[0].Name != w[1] || cs[1].Name != w[2] {
				return "chain-name-mismatch"
			}
			return s.add(cs)
		default:
			cs := s.r.HostEndpointToMangleIngressChains("eth2", merge(w[2], w[3]))
			if cs[0].Name != w[1] {
				return "chain-name-mismatch"
			}
			return s.add(cs)
		}
	case "eval":
		pr, _ := strconv.Atoi(w[2])
		tbl := nfsem.Parse(s.nft, s.text)
		res := tbl.Eval(&nfsem.Env{NFT: s.nft}, &nfsem.Pkt{Proto: pr, Ct: w[3], Dport: 1}, 8, w[1], 0)
		out := res.Kind
		if res.Kind == "missing" {
			out = "to:" + res.Chain
		} else {
			out = fmt.Sprintf("%s mark=%#x", res.Kind, res.Mark)
		}
		ref := "?"
		if e := s.eps[w[1]]; e != nil {
			ref = s.reference(e, pr)
			// oracle: only for NEW packets on an admin-up endpoint, not the encap protocols
			if w[3] == "NEW" && e.up && pr != 4 {
				deny := "drop"
				if s.reject {
					deny = "reject"
				}
				allowKinds := map[string]bool{"return": true} // allowed = returns to the caller with the accept bit
				ok := (ref == "allow" && allowKinds[res.Kind] && res.Mark&mAccept != 0) || (ref == "deny" && res.Kind == deny)
				if !ok {
					sig := "endpoint-verdict"
					if st := s.referenceStalePass(e, pr); st != ref &&
						((st == "allow" && allowKinds[res.Kind] && res.Mark&mAccept != 0) || (st == "deny" && res.Kind == deny)) {
						sig = "profile-pass-stale-mark"
					}
					h.OracleFail(sig, fmt.Sprintf("endpoint chain %s on proto %d: rendered chains give %s mark=%#x, reference verdict is %s", w[1], pr, res.Kind, res.Mark, ref),
						map[string]any{"chain": w[1], "proto": pr})
				}
			}
		}
		return out + " ref=" + ref
	}
	panic("unknown op " + op)
}

// ---- generator ----------------------------------------------------------------

type gpol struct {
	name   string
	staged bool
	action string
	proto  string
}

func hx(s string) string { return hex.EncodeToString([]byte(s)) }

func genCase(h *rt.H) []string {
	nft := h.Chance(0.35)
	dp := "ipt"
	if nft {
		dp = "nft"
	}
	bb := func(p float64) string {
		if h.Chance(p) {
			return "1"
		}
		return "0"
	}
	ops := []string{fmt.Sprintf("cfg %s %s %s %s %s %s %s", dp, bb(0.4), bb(0.2), bb(0.3), bb(0.2), bb(0.3), bb(0.3))}
	// policies
	np := 1 + h.Intn(14)
	var pols []gpol
	for i := 0; i < np; i++ {
		p := gpol{name: fmt.Sprintf("p%d", i), staged: h.Chance(0.2),
			action: rt.Pick(h, []string{"allow", "deny", "pass", "pass", "log", "-", "next-tier"}),
			proto:  rt.Pick(h, []string{"tcp", "udp", "icmp", "sctp", "tcp", "-"})}
		if h.Chance(0.5) {
			p.proto = rt.Pick(h, []string{"sctp", "icmp"}) // rarely matching policies make long groups interesting
		}
		pols = append(pols, p)
		k := "e"
		kind := "GlobalNetworkPolicy"
		if p.staged {
			k, kind = "s", "StagedGlobalNetworkPolicy"
		}
		id := &types.PolicyID{Name: p.name, Kind: kind}
		ops = append(ops, fmt.Sprintf("pol %s %s %s %s %s %s %s %s", k,
			rules.PolicyChainName(rules.PolicyInboundPfx, id, nft), rules.PolicyChainName(rules.PolicyOutboundPfx, id, nft),
			p.action, p.proto, id.ID(), hx(fmt.Sprintf("%s %s ingress", kind, p.name)), hx(fmt.Sprintf("%s %s egress", kind, p.name))))
	}
	polID := func(p gpol) *types.PolicyID {
		kind := "GlobalNetworkPolicy"
		if p.staged {
			kind = "StagedGlobalNetworkPolicy"
		}
		return &types.PolicyID{Name: p.name, Kind: kind}
	}
	// profiles
	nprof := h.Intn(3)
	var profIn, profOut []string
	for i := 0; i < nprof; i++ {
		name := fmt.Sprintf("prof%d", i)
		id := &types.ProfileID{Name: name}
		in, out := rules.ProfileChainName(rules.ProfileInboundPfx, id, nft), rules.ProfileChainName(rules.ProfileOutboundPfx, id, nft)
		profIn, profOut = append(profIn, in), append(profOut, out)
		pact, ppr := rt.Pick(h, []string{"allow", "allow", "deny", "pass", "log"}), rt.Pick(h, []string{"tcp", "udp", "-", "icmp"})
		if h.Chance(0.4) { // two-rule profile
			pact += "+" + rt.Pick(h, []string{"allow", "deny", "pass", "log"})
			ppr += "+" + rt.Pick(h, []string{"tcp", "udp", "-", "icmp", "sctp"})
		}
		ops = append(ops, fmt.Sprintf("prof %s %s %s %s %s %s %s", in, out,
			pact, ppr,
			name, hx(fmt.Sprintf("Profile %s ingress", name)), hx(fmt.Sprintf("Profile %s egress", name))))
	}
	// tiers: partition the policies into tiers and groups
	ntiers := h.Intn(4)
	var tin, tout []string
	idx := 0
	for t := 0; t < ntiers; t++ {
		tname := fmt.Sprintf("tier%d", t)
		dpass := bb(0.3)
		var gin, gout []string
		ng := h.Intn(3)
		for g := 0; g < ng && idx < len(pols); g++ {
			sz := 1 + h.Intn(3)
			if h.Chance(0.3) {
				sz = 4 + h.Intn(9) // around and beyond the return stride
			}
			if idx+sz > len(pols) {
				sz = len(pols) - idx
			}
			grp := pols[idx : idx+sz]
			idx += sz
			for _, inbound := range []bool{true, false} {
				pg := &rules.PolicyGroup{Selector: "all()", Direction: rules.PolicyDirectionOutbound}
				pfx := rules.PolicyOutboundPfx
				if inbound {
					pg.Direction = rules.PolicyDirectionInbound
					pfx = rules.PolicyInboundPfx
				}
				var enc []string
				for _, p := range grp {
					pg.Policies = append(pg.Policies, polID(p))
					st := "0"
					if p.staged {
						st = "1"
					}
					enc = append(enc, rules.PolicyChainName(pfx, polID(p), nft)+":"+st)
				}
				e := pg.ChainName() + "~" + strings.Join(enc, ",")
				if !pg.ShouldBeInlined() {
					ops = append(ops, fmt.Sprintf("group %s %s", pg.ChainName(), strings.Join(enc, ",")))
				}
				if inbound {
					gin = append(gin, e)
				} else {
					gout = append(gout, e)
				}
			}
		}
		j := func(l []string) string {
			if len(l) == 0 {
				return "-"
			}
			return strings.Join(l, "&")
		}
		tin = append(tin, tname+"!"+dpass+"!"+j(gin))
		tout = append(tout, tname+"!"+dpass+"!"+j(gout))
	}
	jl := func(l []string, sep string) string {
		if len(l) == 0 {
			return "-"
		}
		return strings.Join(l, sep)
	}
	maxLen := 28
	if nft {
		maxLen = 256
	}
	tw, fw := rules.EndpointChainName(rules.WorkloadToEndpointPfx, "cali1234", maxLen), rules.EndpointChainName(rules.WorkloadFromEndpointPfx, "cali1234", maxLen)
	ops = append(ops, fmt.Sprintf("wep %s %s %s %s %s %s %s", bb(0.9), tw, fw, jl(tin, "|"), jl(tout, "|"), jl(profIn, ","), jl(profOut, ",")))
	evalChains := []string{tw, fw}
	if h.Chance(0.5) {
		hn := func(pfx, iface string) string { return rules.EndpointChainName(pfx, iface, maxLen) }
		th, fh := hn(rules.HostToEndpointPfx, "eth0"), hn(rules.HostFromEndpointPfx, "eth0")
		thfw, fhfw := hn(rules.HostToEndpointForwardPfx, "eth0"), hn(rules.HostFromEndpointForwardPfx, "eth0")
		fin, fout := jl(tin, "|"), jl(tout, "|")
		if h.Chance(0.4) {
			fin, fout = "-", "-"
		}
		ops = append(ops, fmt.Sprintf("hep %s %s %s %s %s %s %s %s %s %s", th, fh, thfw, fhfw, jl(tin, "|"), jl(tout, "|"), fin, fout, jl(profIn, ","), jl(profOut, ",")))
		evalChains = append(evalChains, th, fh, thfw, fhfw)
		if h.Chance(0.5) {
			rth, rfh := hn(rules.HostToEndpointPfx, "eth1"), hn(rules.HostFromEndpointPfx, "eth1")
			ops = append(ops, fmt.Sprintf("hepraw %s %s %s %s", rth, rfh, jl(tin, "|"), jl(tout, "|")))
			mfh := hn(rules.HostFromEndpointPfx, "eth2")
			ops = append(ops, fmt.Sprintf("hepmangle %s %s %s", mfh, jl(tin, "|"), jl(tout, "|")))
			evalChains = append(evalChains, rth, rfh, mfh)
		}
	}
	for _, pr := range []int{6, 17, 1, 132, 4, 47} {
		ops = append(ops, fmt.Sprintf("eval %s %d NEW", rt.Pick(h, evalChains), pr))
	}
	ops = append(ops, fmt.Sprintf("eval %s 6 %s", tw, rt.Pick(h, []string{"ESTABLISHED", "INVALID", "RELATED"})))
	return ops
}

// fixedStalePass: the last tier passes a UDP packet; the profile's first rule is a pass rule for TCP
// (does not match), its second rule allows UDP.  The pass bit set by the tier is still set when the
// profile chain runs, so the pass rule's "RETURN if pass bit" fires and the allow rule is never reached.
func fixedStalePass(nft bool) []string {
	dp := "ipt"
	if nft {
		dp = "nft"
	}
	id := &types.PolicyID{Name: "p0", Kind: "GlobalNetworkPolicy"}
	pi, po := rules.PolicyChainName(rules.PolicyInboundPfx, id, nft), rules.PolicyChainName(rules.PolicyOutboundPfx, id, nft)
	prID := &types.ProfileID{Name: "prof0"}
	pri, pro := rules.ProfileChainName(rules.ProfileInboundPfx, prID, nft), rules.ProfileChainName(rules.ProfileOutboundPfx, prID, nft)
	gin := (&rules.PolicyGroup{Selector: "all()", Direction: rules.PolicyDirectionInbound, Policies: []*types.PolicyID{id}}).ChainName()
	gout := (&rules.PolicyGroup{Selector: "all()", Direction: rules.PolicyDirectionOutbound, Policies: []*types.PolicyID{id}}).ChainName()
	maxLen := 28
	if nft {
		maxLen = 256
	}
	tw, fw := rules.EndpointChainName(rules.WorkloadToEndpointPfx, "cali1234", maxLen), rules.EndpointChainName(rules.WorkloadFromEndpointPfx, "cali1234", maxLen)
	return []string{
		fmt.Sprintf("cfg %s 0 0 0 0 0 0", dp),
		fmt.Sprintf("pol e %s %s pass udp %s %s %s", pi, po, id.ID(), hx("GlobalNetworkPolicy p0 ingress"), hx("GlobalNetworkPolicy p0 egress")),
		fmt.Sprintf("prof %s %s pass+allow tcp+udp prof0 %s %s", pri, pro, hx("Profile prof0 ingress"), hx("Profile prof0 egress")),
		fmt.Sprintf("wep 1 %s %s tier0!0!%s~%s:0 tier0!0!%s~%s:0 %s %s", tw, fw, gin, pi, gout, po, pri, pro),
		fmt.Sprintf("eval %s 17 NEW", tw),
		fmt.Sprintf("eval %s 6 NEW", tw),
	}
}

func main() {
	h := rt.New()
	defer h.Close()
	h.Rule = "case = renderer config (ipt/nft, flow logs, deny/allow action, conntrack-invalid, encap drops) + 1..14 single-rule policies " +
		"(enforced or staged; allow/deny/pass/log on a protocol) split into 0..3 tiers of inline and grouped policy groups (group sizes 1..12, " +
		"i.e. around and beyond the return stride 5) + 0..2 profiles + one workload endpoint (both directions) + 7 packets (one per protocol, NEW/ESTABLISHED/INVALID); " +
		"distinct = distinct op sequence; non-trivial = at least one policy group chain (>=2 enforced policies) is rendered"
	run := func(ops []string, tag string) {
		h.Case(tag)
		s := &state{}
		nt := false
		for _, op := range ops {
			out := exec(h, s, op)
			h.Op(op, out)
			k := strings.Fields(op)[0]
			h.Count("op:" + k)
			if k == "group" {
				nt = true
				n := strings.Count(strings.Fields(op)[2], ":0")
				h.Count(fmt.Sprintf("group-enforced:%02d", n))
			}
			if k == "eval" {
				f := strings.Fields(out)
				h.Count("eval:" + f[0] + ":" + f[len(f)-1])
			}
		}
		if nt {
			h.Nontrivial(strings.Join(ops, ";"))
		}
		h.Sample()
	}
	if h.Replay != "" {
		run(h.ReplayLines(), "replay")
		return
	}
	run(fixedStalePass(false), "fixed")
	run(fixedStalePass(true), "fixed")
	for i := 0; i < h.N; i++ {
		run(genCase(h), "gen")
	}
}
