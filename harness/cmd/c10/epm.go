// Endpoint-manager mode of the C10 harness: drives the REAL felix/dataplane/linux endpointManager
// (verif hooks zz_verif_export_c44.go for the constructor, zz_verif_export_c10.go for "interface
// gone") through histories of host endpoint / interface / policy updates, each followed by
// ResolveUpdateBatch + CompleteDeferredWork, and after every step evaluates the host dispatch chains
// that are REALLY in the mock filter / mangle tables: for the CURRENT set of host endpoints, a named
// host interface must be dispatched to its own chain, everything else to the wildcard host endpoint's
// chain iff a '*' host endpoint is currently configured.
package main

import (
	"fmt"
	"sort"
	"strings"

	intdataplane "github.com/projectcalico/calico/felix/dataplane/linux"
	"github.com/projectcalico/calico/felix/generictables"
	"github.com/projectcalico/calico/felix/ifacemonitor"
	"github.com/projectcalico/calico/felix/ip"
	"github.com/projectcalico/calico/felix/ipsets"
	"github.com/projectcalico/calico/felix/netlinkshim"
	"github.com/projectcalico/calico/felix/proto"
	"github.com/projectcalico/calico/felix/routetable"
	"github.com/projectcalico/calico/felix/rules"

	"verif/harness/nfsem"
	"verif/harness/rt"
)

type epmTable struct{ chains map[string]*generictables.Chain }

func newEpmTable() *epmTable { return &epmTable{chains: map[string]*generictables.Chain{}} }

func (t *epmTable) UpdateChain(c *generictables.Chain) { t.chains[c.Name] = c }
func (t *epmTable) UpdateChains(cs []*generictables.Chain) {
	for _, c := range cs {
		t.chains[c.Name] = c
	}
}
func (t *epmTable) RemoveChains(cs []*generictables.Chain) {
	for _, c := range cs {
		delete(t.chains, c.Name)
	}
}
func (t *epmTable) RemoveChainByName(name string) { delete(t.chains, name) }

type epmRoutes struct{}

func (epmRoutes) SetRoutes(routetable.RouteClass, string, []routetable.Target)          {}
func (epmRoutes) RouteRemove(routetable.RouteClass, string, routetable.RouteKey)        {}
func (epmRoutes) RouteUpdate(routetable.RouteClass, string, routetable.Target)          {}
func (epmRoutes) Index() int                                                            { return 0 }
func (epmRoutes) QueueResyncIface(string)                                               {}
func (epmRoutes) ReadRoutesFromKernel(string) ([]routetable.Target, error)              { return nil, nil }
func (epmRoutes) OnIfaceStateChanged(string, int, ifacemonitor.State)                   {}
func (epmRoutes) QueueResync()                                                          {}
func (epmRoutes) Apply() error                                                          { return nil }

type epmLinkAddrs struct{}

func (epmLinkAddrs) QueueResync()                                {}
func (epmLinkAddrs) SetLinkLocalAddress(string, ip.CIDR) error   { return nil }
func (epmLinkAddrs) RemoveLinkLocalAddress(string)               {}
func (epmLinkAddrs) GetNlHandle() (netlinkshim.Interface, error) { return nil, nil }
func (epmLinkAddrs) Apply() error                                { return nil }

type epmState struct {
	m                   intdataplane.VerifC44Manager
	raw, mangle, filter *epmTable
	heps                map[string]string // host endpoint id -> interface name ("*" = wildcard)
	ifaces              map[string]bool   // host interfaces that currently exist
}

const epmWild = "*"

var epmPrefixes = []string{"cali-fh-", "cali-th-", "cali-fhfw-", "cali-thfw-"}

// canon replaces the (possibly hashed) chain name of the wildcard host endpoint by <prefix>*.
func epmCanon(chain string) string {
	all := intdataplane.VerifC10AllInterfaces()
	for _, p := range epmPrefixes {
		if chain == rules.EndpointChainName(p, all, 28) {
			return p + epmWild
		}
	}
	return chain
}

func (e *epmState) step() {
	if err := e.m.ResolveUpdateBatch(); err != nil {
		panic(err)
	}
	if err := e.m.CompleteDeferredWork(); err != nil {
		panic(err)
	}
}

// current: the named interfaces that currently have a host endpoint, and whether a wildcard HEP exists.
func (e *epmState) current() (names []string, wild bool) {
	seen := map[string]bool{}
	for _, n := range e.heps {
		if n == epmWild {
			wild = true
		} else if e.ifaces[n] && !seen[n] {
			seen[n] = true
			names = append(names, n)
		}
	}
	sort.Strings(names)
	return
}

func dispatchText(t *epmTable) []nfsem.TextChain {
	var cs []*generictables.Chain
	for name, c := range t.chains {
		for _, root := range []string{"cali-from-host-endpoint", "cali-to-host-endpoint", "cali-from-hep-forward", "cali-to-hep-forward"} {
			if strings.HasPrefix(name, root) {
				cs = append(cs, c)
				break
			}
		}
	}
	sort.Slice(cs, func(i, j int) bool { return cs[i].Name < cs[j].Name })
	return nfsem.RenderChains(false, 4, cs)
}

func (e *epmState) probe(t *epmTable, root, iface string) string {
	tbl := nfsem.Parse(false, dispatchText(t))
	r := tbl.Eval(&nfsem.Env{}, &nfsem.Pkt{In: iface, Out: iface}, 8, root, 0)
	if r.Kind == "missing" {
		return "to:" + nfsem.Esc(epmCanon(r.Chain))
	}
	return r.String()
}

// oracle: the property's dispatch statement on the REAL tables for the CURRENT host endpoints.
func (e *epmState) oracle(h *rt.H, op string, probes []string) {
	names, wild := e.current()
	known := map[string]bool{}
	for _, n := range names {
		known[n] = true
	}
	type rootT struct {
		t         *epmTable
		tn, root  string
		pfx       string
		to, skipW bool
	}
	roots := []rootT{
		{e.filter, "filter", "cali-from-host-endpoint", "cali-fh-", false, false},
		{e.filter, "filter", "cali-to-host-endpoint", "cali-th-", true, false},
		{e.filter, "filter", "cali-from-hep-forward", "cali-fhfw-", false, false},
		{e.filter, "filter", "cali-to-hep-forward", "cali-thfw-", true, false},
		{e.mangle, "mangle", "cali-to-host-endpoint", "cali-th-", true, true},
	}
	for _, r := range roots {
		if _, ok := r.t.chains[r.root]; !ok {
			if len(names) > 0 || wild {
				h.OracleFail("epm-host-dispatch-wrong", fmt.Sprintf("after %q: host endpoints are configured (named %q, wildcard %v) but %s chain %s does not exist", op, names, wild, r.tn, r.root),
					map[string]any{"op": op, "named": names, "wildcard": wild})
			}
			continue
		}
		for _, p := range probes {
			got := e.probe(r.t, r.root, p)
			want := "return"
			switch {
			case known[p]:
				want = "to:" + r.pfx + p
			case wild && r.skipW && strings.HasPrefix(p, "cali"):
				want = "return" // never wildcard-HEP egress policy towards a local workload
			case wild:
				want = "to:" + r.pfx + epmWild
			}
			if got != want {
				h.OracleFail("epm-host-dispatch-wrong", fmt.Sprintf("after %q with host endpoints on %q (wildcard %v): %s chain %s dispatches interface %q to %s, property demands %s",
					op, names, wild, r.tn, r.root, p, got, want), map[string]any{"op": op, "named": names, "wildcard": wild, "probe": p})
			}
		}
	}
	// Observation only (outside C10's dispatch statement): chains left over when no host endpoint is configured.
	if len(names) == 0 && !wild {
		for n := range e.filter.chains {
			if strings.HasPrefix(n, "cali-gi-") || strings.HasPrefix(n, "cali-go-") || strings.HasPrefix(n, "cali-fh-") || strings.HasPrefix(n, "cali-th-") {
				h.Count("obs:leftover-chains")
				break
			}
		}
	}
}

func epmPolID(k string) *proto.PolicyID {
	return &proto.PolicyID{Name: "pol-" + k, Kind: "GlobalNetworkPolicy"}
}

func (s *state) epmExec(h *rt.H, op string) string {
	w := strings.Fields(op)
	e := s.epm
	switch w[0] {
	case "epm-new":
		e = &epmState{raw: newEpmTable(), mangle: newEpmTable(), filter: newEpmTable(), heps: map[string]string{}, ifaces: map[string]bool{}}
		renderer := rules.NewRenderer(rules.Config{
			IPSetConfigV4: ipsets.NewIPVersionConfig(ipsets.IPFamilyV4, "cali", nil, nil),
			IPSetConfigV6: ipsets.NewIPVersionConfig(ipsets.IPFamilyV6, "cali", nil, nil),
			MarkAccept:    0x8, MarkPass: 0x10, MarkScratch0: 0x20, MarkScratch1: 0x40, MarkDrop: 0x80,
			MarkEndpoint: 0xff00, MarkNonCaliEndpoint: 0x0100,
			WorkloadIfacePrefixes: []string{"cali"},
		}, false)
		e.m = intdataplane.VerifC44NewEndpointManager(e.raw, e.mangle, e.filter, renderer, epmRoutes{},
			rules.NewEndpointMarkMapper(0xff00, 0x0100), epmLinkAddrs{})
		s.epm = e
		e.step()
		return "ok"
	case "epm-hep": // epm-hep <id> <xname|*> <policies csv|->
		name := w[2]
		if name != epmWild {
			name = decName(name)
		}
		var pols []*proto.PolicyID
		if w[3] != "-" {
			for _, k := range strings.Split(w[3], ",") {
				pols = append(pols, epmPolID(k))
			}
		}
		hep := &proto.HostEndpoint{Name: name}
		if len(pols) > 0 {
			hep.Tiers = []*proto.TierInfo{{Name: "default", IngressPolicies: pols, EgressPolicies: pols}}
			hep.ForwardTiers = []*proto.TierInfo{{Name: "default", IngressPolicies: pols, EgressPolicies: pols}}
		}
		e.m.OnUpdate(&proto.HostEndpointUpdate{Id: &proto.HostEndpointID{EndpointId: w[1]}, Endpoint: hep})
		e.heps[w[1]] = name
	case "epm-hep-rm":
		e.m.OnUpdate(&proto.HostEndpointRemove{Id: &proto.HostEndpointID{EndpointId: w[1]}})
		delete(e.heps, w[1])
	case "epm-iface": // epm-iface <xname> <1|0>
		n := decName(w[1])
		if w[2] == "1" {
			e.m.OnUpdate(intdataplane.NewIfaceStateUpdate(n, ifacemonitor.StateUp, 7))
			e.m.OnUpdate(intdataplane.NewIfaceAddrsUpdate(n, "10.0.0.1"))
			e.ifaces[n] = true
		} else {
			e.m.OnUpdate(intdataplane.NewIfaceStateUpdate(n, ifacemonitor.StateNotPresent, 7))
			e.m.OnUpdate(intdataplane.VerifC10IfaceGone(n))
			delete(e.ifaces, n)
		}
	case "epm-pol": // epm-pol <k> <selector version>
		e.m.OnUpdate(&proto.ActivePolicyUpdate{Id: epmPolID(w[1]), Policy: &proto.Policy{Tier: "default", OriginalSelector: "sel" + w[2]}})
	case "epm-pol-rm":
		e.m.OnUpdate(&proto.ActivePolicyRemove{Id: epmPolID(w[1])})
	case "epm-probe": // epm-probe <xname>
		p := decName(w[1])
		return fmt.Sprintf("f=%s t=%s ff=%s tf=%s mt=%s",
			e.probe(e.filter, "cali-from-host-endpoint", p), e.probe(e.filter, "cali-to-host-endpoint", p),
			e.probe(e.filter, "cali-from-hep-forward", p), e.probe(e.filter, "cali-to-hep-forward", p),
			e.probe(e.mangle, "cali-to-host-endpoint", p))
	default:
		panic("unknown epm op " + op)
	}
	e.step()
	// which interfaces carry host endpoint chains in the filter table now
	all := intdataplane.VerifC10AllInterfaces()
	var have []string
	for n := range e.filter.chains {
		if strings.HasPrefix(n, "cali-fh-") {
			if n == rules.EndpointChainName("cali-fh-", all, 28) {
				have = append(have, epmWild)
			} else {
				have = append(have, nfsem.Esc(strings.TrimPrefix(n, "cali-fh-")))
			}
		}
	}
	sort.Strings(have)
	probes := []string{"eth0", "eth1", "ens5", "bond0.7", "lo", "cali12", "zz9"}
	e.oracle(h, op, probes)
	if len(have) == 0 {
		return "heps=-"
	}
	return "heps=" + strings.Join(have, ",")
}

// ---- generator -------------------------------------------------------------------

func genEpmHistory(h *rt.H) []string {
	ops := []string{"epm-new"}
	ifaces := []string{"eth0", "eth1", "ens5", "bond0.7"}
	hepIDs := []string{"h-a", "h-b", "h-c", "h-w", "h-x"}
	pols := []string{"1", "2", "3"}
	live := map[string]string{}
	ver := 0
	// policies exist before they are referenced
	for _, k := range pols {
		ops = append(ops, fmt.Sprintf("epm-pol %s %d", k, ver))
	}
	for i := 0; i < 6+h.Intn(14); i++ {
		switch h.Intn(10) {
		case 0, 1:
			ops = append(ops, fmt.Sprintf("epm-iface %s %s", encName(rt.Pick(h, ifaces)), rt.Pick(h, []string{"1", "1", "1", "0"})))
		case 2, 3, 4:
			id := rt.Pick(h, hepIDs)
			name := encName(rt.Pick(h, ifaces))
			if id == "h-w" || (id == "h-x" && h.Bool()) {
				name = epmWild
			}
			var ps []string
			for _, k := range pols {
				if h.Chance(0.6) {
					ps = append(ps, k)
				}
			}
			pl := "-"
			if len(ps) > 0 {
				pl = strings.Join(ps, ",")
			}
			ops = append(ops, fmt.Sprintf("epm-hep %s %s %s", id, name, pl))
			live[id] = name
		case 5:
			if len(live) > 0 {
				var ids []string
				for id := range live {
					ids = append(ids, id)
				}
				sort.Strings(ids)
				id := rt.Pick(h, ids)
				ops = append(ops, "epm-hep-rm "+id)
				delete(live, id)
			}
		default: // a policy used by host endpoints changes its selector (no endpoint update follows)
			ver++
			ops = append(ops, fmt.Sprintf("epm-pol %s %d", rt.Pick(h, pols), ver))
		}
		if h.Chance(0.5) {
			ops = append(ops, "epm-probe "+encName(rt.Pick(h, []string{"eth0", "eth1", "ens5", "bond0.7", "lo", "cali12", "zz9"})))
		}
	}
	return ops
}
