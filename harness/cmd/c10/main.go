// C10 correspondence harness: drives the real felix/rules dispatch-chain renderer.
package main

import (
	"context"
	"encoding/hex"
	"fmt"
	"sort"
	"strings"

	"github.com/sirupsen/logrus"
	"sigs.k8s.io/knftables"

	"github.com/projectcalico/calico/felix/environment"
	"github.com/projectcalico/calico/felix/iptables/testutils"
	"github.com/projectcalico/calico/felix/nftables"
	"github.com/projectcalico/calico/lib/logrusr"

	"github.com/projectcalico/calico/felix/generictables"
	"github.com/projectcalico/calico/felix/ipsets"
	"github.com/projectcalico/calico/felix/proto"
	"github.com/projectcalico/calico/felix/rules"
	"github.com/projectcalico/calico/felix/types"

	"verif/harness/nfsem"
	"verif/harness/rt"
)

type state struct {
	nft      bool
	kind     string // wl | host
	names    []string
	dflt     string
	wlp      []string
	dirs     string
	aof      bool
	text     []nfsem.TextChain
	table    *nfsem.Table
	env      *nfsem.Env
	panicked bool

	// real nftables table + maps over the knftables fake (ops nft-new / nft-set / nft-probe)
	nftFake  *knftables.Fake
	nftTable *nftables.NftablesTable
	nftLayer generictables.Table
	nftR     *rules.DefaultRuleRenderer
	nftNames []string        // current workload interface names
	nftSeen  map[string]bool // every name ever configured in this history
	nftEps   map[string]bool // endpoint chains currently programmed

	epm *epmState // endpoint-manager mode (epm.go)
}

func encName(s string) string { return "x" + hex.EncodeToString([]byte(s)) }
func decName(s string) string {
	b, err := hex.DecodeString(strings.TrimPrefix(s, "x"))
	if err != nil {
		panic(err)
	}
	return string(b)
}
func encNames(ns []string) string {
	if len(ns) == 0 {
		return "-"
	}
	o := make([]string, len(ns))
	for i, n := range ns {
		o[i] = encName(n)
	}
	return strings.Join(o, ",")
}
func decNames(s string) []string {
	if s == "-" {
		return nil
	}
	var o []string
	for _, f := range strings.Split(s, ",") {
		o = append(o, decName(f))
	}
	return o
}

func renderer(nft bool, deny string, wlp []string) *rules.DefaultRuleRenderer {
	cfg := rules.Config{
		IPSetConfigV4:         ipsets.NewIPVersionConfig(ipsets.IPFamilyV4, "cali", nil, nil),
		IPSetConfigV6:         ipsets.NewIPVersionConfig(ipsets.IPFamilyV6, "cali", nil, nil),
		WorkloadIfacePrefixes: wlp,
		MarkAccept:            0x80,
		MarkPass:              0x100,
		MarkScratch0:          0x200,
		MarkScratch1:          0x400,
		MarkDrop:              0x800,
		MarkEndpoint:          0xff000,
		MarkNonCaliEndpoint:   0x1000,
		FilterDenyAction:      strings.ToUpper(deny),
	}
	return rules.NewRenderer(cfg, nft).(*rules.DefaultRuleRenderer)
}

func wlMap(names []string) map[types.WorkloadEndpointID]*proto.WorkloadEndpoint {
	m := map[types.WorkloadEndpointID]*proto.WorkloadEndpoint{}
	for i, n := range names {
		m[types.WorkloadEndpointID{OrchestratorId: "k8s", WorkloadId: fmt.Sprintf("w%d", i), EndpointId: "eth0"}] = &proto.WorkloadEndpoint{Name: n}
	}
	return m
}

func safe(f func() []*generictables.Chain) (cs []*generictables.Chain, panicked bool) {
	defer func() {
		if e := recover(); e != nil {
			cs, panicked = nil, true
		}
	}()
	return f(), false
}

func fmtMap(m map[string][]string) string {
	ks := make([]string, 0, len(m))
	for k := range m {
		ks = append(ks, k)
	}
	sort.Strings(ks)
	o := make([]string, len(ks))
	for i, k := range ks {
		o[i] = nfsem.Esc(k) + "=" + nfsem.Esc(strings.Join(m[k], "&"))
	}
	return strings.Join(o, ",")
}

// uniqueNames: the set of distinct names.
func uniqueNames(ns []string) map[string]bool {
	m := map[string]bool{}
	for _, n := range ns {
		m[n] = true
	}
	return m
}

func endsWithWild(nft bool, n string) bool {
	w := byte('+')
	if nft {
		w = '*'
	}
	return len(n) > 0 && n[len(n)-1] == w
}

// oracle: the property itself evaluated on the REAL rendered chains for one probe interface.
func (s *state) oracle(h *rt.H, probe string) {
	if s.panicked || s.table == nil {
		return
	}
	// guard of the property: no configured name ends in the wildcard byte (it would be a pattern)
	for _, n := range s.names {
		if endsWithWild(s.nft, n) {
			return
		}
	}
	known := uniqueNames(s.names)[probe]
	p := &nfsem.Pkt{In: probe, Out: probe, Src: nil, Dst: nil}
	in := map[string]any{"kind": s.kind, "nft": s.nft, "names": hexAll(s.names), "probe": encName(probe), "default": encName(s.dflt), "dirs": s.dirs, "aof": s.aof}
	check := func(root, epPfx string, fallback func() string) {
		if _, ok := findChain(s.text, root); !ok {
			return
		}
		got := s.table.Eval(s.env, p, 8, root, 0).String()
		var want string
		if known {
			want = "to:" + epPfx + probe
		} else {
			want = fallback()
		}
		if got != want {
			sig := "dispatch-unknown-iface"
			if known {
				sig = "dispatch-known-iface"
			}
			h.OracleFail(sig, fmt.Sprintf("dispatch chain %s sends interface %q to %s, property demands %s", root, probe, got, want), in)
		}
	}
	switch s.kind {
	case "wl":
		deny := func() string { return s.dflt } // dflt holds the deny verdict name for wl
		check("cali-from-wl-dispatch", "cali-fw-", deny)
		check("cali-to-wl-dispatch", "cali-tw-", deny)
	case "host":
		dfl := func(pfx string, to bool) func() string {
			return func() string {
				if s.dflt == "" {
					return "return"
				}
				if to && !s.aof {
					for _, w := range s.wlp {
						if strings.HasPrefix(probe, w) {
							return "return"
						}
					}
				}
				return "to:" + pfx + s.dflt
			}
		}
		check("cali-from-host-endpoint", "cali-fh-", dfl("cali-fh-", false))
		check("cali-to-host-endpoint", "cali-th-", dfl("cali-th-", true))
		check("cali-from-hep-forward", "cali-fhfw-", dfl("cali-fhfw-", false))
		check("cali-to-hep-forward", "cali-thfw-", dfl("cali-thfw-", false))
	}
}

func hexAll(ns []string) []string {
	o := make([]string, len(ns))
	for i, n := range ns {
		o[i] = encName(n)
	}
	return o
}

func findChain(cs []nfsem.TextChain, name string) (nfsem.TextChain, bool) {
	for _, c := range cs {
		if c.Name == name {
			return c, true
		}
	}
	return nfsem.TextChain{}, false
}

// namesOK: the decidable side condition of the Lean theorems, evaluated on the REAL chains:
// chain names pairwise distinct, and no endpoint chain (computed by the real EndpointChainName)
// is itself a dispatch chain.
func (s *state) namesOK(h *rt.H, cs []*generictables.Chain, pfxs []string, extra []string) string {
	seen := map[string]bool{}
	ok := true
	for _, c := range cs {
		if seen[c.Name] {
			ok = false
		}
		seen[c.Name] = true
	}
	maxLen := 28
	if s.nft {
		maxLen = 256
	}
	for _, p := range pfxs {
		for _, n := range append(append([]string{}, extra...), s.names...) {
			if seen[rules.EndpointChainName(p, n, maxLen)] {
				ok = false
			}
		}
	}
	if !ok {
		h.OracleFail("chain-name-collision", "two rendered dispatch chains share a name, or an endpoint chain name equals a dispatch chain name",
			map[string]any{"kind": s.kind, "nft": s.nft, "names": hexAll(s.names)})
		return " ## names-ok=0"
	}
	return " ## names-ok=1"
}

func (s *state) install(cs []*generictables.Chain, panicked bool, r *rules.DefaultRuleRenderer) string {
	s.panicked = panicked
	s.table = nil
	if panicked {
		return "panic"
	}
	s.text = nfsem.RenderChains(s.nft, 4, cs)
	s.table = nfsem.Parse(s.nft, s.text)
	s.env = &nfsem.Env{NFT: s.nft, Vmap: map[string]map[string]string{}}
	if s.nft && s.kind == "wl" {
		f, t := r.DispatchMappings(wlMap(s.names))
		conv := func(m map[string][]string) map[string]string {
			o := map[string]string{}
			for k, v := range m {
				o[k] = v[0]
			}
			return o
		}
		// the rendered rule refers to "@<LAYER>-<map>"; with no table layer that is "-<map>"
		s.env.Vmap["-cali-from-wl-dispatch"] = conv(f)
		s.env.Vmap["-cali-to-wl-dispatch"] = conv(t)
	}
	return nfsem.Show(s.text)
}

const layer = "filter"

func stripLayer(x string) string { return strings.TrimPrefix(x, layer+"-") }

// nftDump: the verdict-map elements that are REALLY in the (fake) kernel, canonicalised.
func (s *state) nftDump(mapName string) string {
	elems, err := s.nftFake.ListElements(context.Background(), "map", layer+"-"+mapName)
	if err != nil {
		return "no-map"
	}
	var o []string
	for _, e := range elems {
		v := strings.Join(e.Value, "&")
		if strings.HasPrefix(v, "goto ") {
			v = "goto " + stripLayer(v[5:])
		}
		o = append(o, nfsem.Esc(strings.Join(e.Key, "&"))+"="+nfsem.Esc(v))
	}
	sort.Strings(o)
	return strings.Join(o, ",")
}

// nftKernel: the dispatch root chains and verdict maps as they are in the (fake) kernel.
func (s *state) nftKernel() (*nfsem.Table, *nfsem.Env) {
	var text []nfsem.TextChain
	env := &nfsem.Env{NFT: true, Vmap: map[string]map[string]string{}}
	for _, cn := range []string{"cali-from-wl-dispatch", "cali-to-wl-dispatch"} {
		rs, err := s.nftFake.ListRules(context.Background(), layer+"-"+cn)
		tc := nfsem.TextChain{Name: cn}
		if err == nil {
			for _, r := range rs {
				tc.Rules = append(tc.Rules, cn+": "+r.Rule)
			}
		}
		text = append(text, tc)
		m := map[string]string{}
		if elems, err := s.nftFake.ListElements(context.Background(), "map", layer+"-"+cn); err == nil {
			for _, e := range elems {
				v := e.Value[0]
				if strings.HasPrefix(v, "goto ") {
					v = "goto " + stripLayer(v[5:])
				}
				m[e.Key[0]] = v
			}
		}
		env.Vmap[layer+"-"+cn] = m
	}
	return nfsem.Parse(true, text), env
}

func (s *state) nftExec(h *rt.H, w []string) (out string) {
	defer func() {
		if e := recover(); e != nil {
			if le, ok := e.(*logrus.Entry); ok {
				out = "panic: " + nfsem.Esc(fmt.Sprint(le.Message, " ", le.Data["error"]))
				return
			}
			panic(e)
		}
	}()
	switch w[0] {
	case "nft-new":
		newDataplane := func(fam knftables.Family, name string, options ...knftables.Option) (knftables.Interface, error) {
			s.nftFake = knftables.NewFake(fam, name)
			return s.nftFake, nil
		}
		s.nftTable = nftables.NewTable("calico", 4, "cali:", environment.NewFeatureDetector(nil),
			nftables.TableOptions{NewDataplane: newDataplane, LookPathOverride: testutils.LookPathNoLegacy, OpRecorder: logrusr.NewSummarizer("verif")}, true)
		s.nftLayer = nftables.NewTableLayer(layer, s.nftTable)
		s.nftR = renderer(true, "drop", []string{"cali"})
		s.nftNames, s.nftSeen, s.nftEps = nil, map[string]bool{}, map[string]bool{}
		// reference the dispatch chains from a base chain (as the static filter chains do), so that
		// the table programs them
		s.nftLayer.AppendRules("FORWARD", []generictables.Rule{
			{Action: s.nftR.Jump("cali-from-wl-dispatch")}, {Action: s.nftR.Jump("cali-to-wl-dispatch")}})
		// start of day: no workloads yet
		s.nftLayer.UpdateChains(s.nftR.WorkloadDispatchChains(wlMap(nil)))
		f0, t0 := s.nftR.DispatchMappings(wlMap(nil))
		md0 := s.nftLayer.(nftables.MapsDataplane)
		md0.AddOrReplaceMap(nftables.MapMetadata{Name: rules.NftablesFromWorkloadDispatchMap, Type: nftables.MapTypeInterfaceMatch}, f0)
		md0.AddOrReplaceMap(nftables.MapMetadata{Name: rules.NftablesToWorkloadDispatchMap, Type: nftables.MapTypeInterfaceMatch}, t0)
		s.nftTable.Apply()
		return "ok"
	case "nft-set":
		names := decNames(w[1])
		s.nftNames = names
		eps := wlMap(names)
		// what the endpoint manager does: endpoint chains, dispatch chains, verdict maps, then Apply
		want := map[string]bool{}
		for _, n := range names {
			want[n] = true
			s.nftSeen[n] = true
		}
		for n := range want {
			if !s.nftEps[n] {
				for _, pfx := range []string{"cali-fw-", "cali-tw-"} {
					s.nftLayer.UpdateChain(&generictables.Chain{Name: rules.EndpointChainName(pfx, n, 256),
						Rules: []generictables.Rule{{Action: nftables.AcceptAction{}}}})
				}
				s.nftEps[n] = true
			}
		}
		for n := range s.nftEps {
			if !want[n] {
				for _, pfx := range []string{"cali-fw-", "cali-tw-"} {
					s.nftLayer.RemoveChainByName(rules.EndpointChainName(pfx, n, 256))
				}
				delete(s.nftEps, n)
			}
		}
		s.nftLayer.UpdateChains(s.nftR.WorkloadDispatchChains(eps))
		from, to := s.nftR.DispatchMappings(eps)
		md := s.nftLayer.(nftables.MapsDataplane)
		md.AddOrReplaceMap(nftables.MapMetadata{Name: rules.NftablesFromWorkloadDispatchMap, Type: nftables.MapTypeInterfaceMatch}, from)
		md.AddOrReplaceMap(nftables.MapMetadata{Name: rules.NftablesToWorkloadDispatchMap, Type: nftables.MapTypeInterfaceMatch}, to)
		s.nftTable.Apply()
		out := s.nftDump("cali-from-wl-dispatch") + " | " + s.nftDump("cali-to-wl-dispatch")
		// the property on the REAL resulting kernel state, for every name ever seen in this history
		tbl, env := s.nftKernel()
		for n := range s.nftSeen {
			if strings.HasSuffix(n, "*") {
				continue
			}
			for _, d := range []struct{ root, pfx string }{{"cali-from-wl-dispatch", "cali-fw-"}, {"cali-to-wl-dispatch", "cali-tw-"}} {
				got := tbl.Eval(env, &nfsem.Pkt{In: n, Out: n}, 8, d.root, 0).String()
				wantS := "drop"
				if want[n] {
					wantS = "to:" + d.pfx + n
				}
				if got != wantS {
					h.OracleFail("nft-dispatch-stale-map", fmt.Sprintf("after Apply with workload interfaces %q the kernel state dispatches interface %q via %s to %s, property demands %s",
						names, n, d.root, got, wantS), map[string]any{"names": hexAll(names), "probe": encName(n)})
				}
			}
		}
		return out
	case "nft-probe":
		tbl, env := s.nftKernel()
		n := decName(w[1])
		f := tbl.Eval(env, &nfsem.Pkt{In: n, Out: n}, 8, "cali-from-wl-dispatch", 0)
		t := tbl.Eval(env, &nfsem.Pkt{In: n, Out: n}, 8, "cali-to-wl-dispatch", 0)
		sh := func(r nfsem.Result) string {
			if r.Kind == "missing" {
				return "to:" + nfsem.Esc(r.Chain)
			}
			return r.String()
		}
		return "from=" + sh(f) + " to=" + sh(t)
	}
	panic("unknown nft op")
}

func exec(h *rt.H, s *state, op string) string {
	w := strings.Fields(op)
	if strings.HasPrefix(w[0], "nft-") {
		return s.nftExec(h, w)
	}
	if strings.HasPrefix(w[0], "epm-") {
		return s.epmExec(h, op)
	}
	switch w[0] {
	case "wl":
		s.kind, s.nft, s.names = "wl", w[1] == "nft", decNames(w[3])
		s.dflt = w[2]
		r := renderer(s.nft, w[2], []string{"cali"})
		cs, p := safe(func() []*generictables.Chain { return r.WorkloadDispatchChains(wlMap(s.names)) })
		out := s.install(cs, p, r)
		if !p {
			out += s.namesOK(h, cs, []string{"cali-fw-", "cali-tw-"}, nil)
		}
		return out
	case "host":
		s.kind, s.nft, s.dirs, s.aof = "host", w[1] == "nft", w[2], w[3] == "1"
		s.dflt = ""
		if w[4] != "-" {
			s.dflt = decName(w[4])
		}
		s.wlp = decNames(w[5])
		s.names = decNames(w[6])
		r := renderer(s.nft, "drop", s.wlp)
		eps := map[string]types.HostEndpointID{}
		for i, n := range s.names {
			eps[n] = types.HostEndpointID{EndpointId: fmt.Sprintf("h%d", i)}
		}
		if len(eps) != len(s.names) {
			panic("host op with duplicate names (a Go map cannot hold them)")
		}
		cs, p := safe(func() []*generictables.Chain {
			switch s.dirs {
			case "from":
				return r.FromHostDispatchChains(eps, s.dflt)
			case "to":
				return r.ToHostDispatchChains(eps, s.dflt)
			}
			return r.HostDispatchChains(eps, s.dflt, s.aof)
		})
		out := s.install(cs, p, r)
		if !p {
			out += s.namesOK(h, cs, []string{"cali-fh-", "cali-th-", "cali-fhfw-", "cali-thfw-"}, []string{s.dflt})
		}
		return out
	case "maps":
		r := renderer(false, "drop", nil)
		f, t := r.DispatchMappings(wlMap(decNames(w[1])))
		return fmtMap(f) + " | " + fmtMap(t)
	case "probe":
		if s.panicked || s.table == nil {
			return "to:" + nfsem.Esc(w[1]) // no chains at all: the root chain itself is missing
		}
		i, o := decName(w[2]), decName(w[3])
		res := s.table.Eval(s.env, &nfsem.Pkt{In: i, Out: o}, 8, w[1], 0)
		if i == o {
			s.oracle(h, i)
		}
		if res.Kind == "missing" {
			return "to:" + nfsem.Esc(res.Chain)
		}
		return res.String()
	}
	panic("unknown op " + op)
}

// ---- generator --------------------------------------------------------------

var alphabet = []byte("abcxyz019-_.")

func genByte(h *rt.H) byte {
	switch h.Intn(12) {
	case 0:
		return byte(0x80 + h.Intn(0x80)) // non-ASCII
	case 1:
		return rt.Pick(h, []byte{'+', '*', '%', '@', ':', 1, 0x7f})
	default:
		return rt.Pick(h, alphabet)
	}
}

func genName(h *rt.H, base string) string {
	n := base
	for i := 0; i < h.Intn(4); i++ {
		n += string([]byte{genByte(h)})
	}
	if len(n) > 15 {
		n = n[:15]
	}
	return n
}

func genNames(h *rt.H, allowDup bool) (names []string, pool []string) {
	style := h.Intn(6)
	base := rt.Pick(h, []string{"cali", "cali", "tap", "eth", "", "c"})
	k := h.Intn(9)
	if style == 0 {
		k = h.Intn(3)
	}
	seen := map[string]bool{}
	for len(names) < k {
		var n string
		switch {
		case len(names) > 0 && h.Chance(0.35): // extend / truncate an existing name: shared prefixes, prefix-of-other
			src := rt.Pick(h, names)
			switch h.Intn(3) {
			case 0:
				n = src + string([]byte{genByte(h)})
			case 1:
				if len(src) > 1 {
					n = src[:len(src)-1]
				} else {
					n = src + "a"
				}
			default:
				n = src[:len(src)-len(src)/2] + string([]byte{genByte(h)})
			}
			if len(n) > 15 {
				n = n[:15]
			}
		case allowDup && len(names) > 0 && h.Chance(0.15):
			n = rt.Pick(h, names)
		default:
			n = genName(h, base)
		}
		if n == "" && !h.Chance(0.03) {
			continue
		}
		if strings.ContainsAny(n, " \"") {
			continue
		}
		if seen[n] && !allowDup {
			continue
		}
		seen[n] = true
		names = append(names, n)
	}
	pool = append(pool, names...)
	// probes around the names
	for _, n := range names {
		if n == "" {
			continue
		}
		pool = append(pool, n+string([]byte{genByte(h)}), n[:len(n)-1], n[:len(n)-1]+string([]byte{genByte(h)}))
	}
	pool = append(pool, base, base+"q", "eth0", "lo", "")
	return
}

// genNftHistory: a history of workload-interface sets over ONE real nftables table, including
// transitions to the empty set and back, with probes of current / removed / unknown names.
func genNftHistory(h *rt.H) []string {
	ops := []string{"nft-new"}
	var universe []string
	base := rt.Pick(h, []string{"cali", "cali", "tap"})
	for len(universe) < 2+h.Intn(5) {
		n := genName(h, base)
		if n == "" || strings.ContainsAny(n, " \"*") {
			continue
		}
		universe = append(universe, n)
	}
	steps := 2 + h.Intn(6)
	for i := 0; i < steps; i++ {
		var cur []string
		switch h.Intn(5) {
		case 0: // empty
		case 1:
			cur = []string{rt.Pick(h, universe)}
		default:
			for _, n := range universe {
				if h.Bool() {
					cur = append(cur, n)
				}
			}
		}
		ops = append(ops, "nft-set "+encNames(cur))
		for j := 0; j < 1+h.Intn(3); j++ {
			pr := rt.Pick(h, universe)
			if h.Chance(0.2) {
				pr += "z"
			}
			ops = append(ops, "nft-probe "+encName(pr))
		}
	}
	return ops
}

func genCase(h *rt.H) []string {
	if h.Chance(0.2) {
		return genNftHistory(h)
	}
	if h.Chance(0.25) {
		return genEpmHistory(h)
	}
	var ops []string
	dp := rt.Pick(h, []string{"ipt", "ipt", "nft"})
	var roots []string
	var pool []string
	if h.Chance(0.55) {
		names, p := genNames(h, true)
		pool = p
		ops = append(ops, fmt.Sprintf("wl %s %s %s", dp, rt.Pick(h, []string{"drop", "drop", "reject"}), encNames(names)))
		if h.Chance(0.3) {
			ops = append(ops, "maps "+encNames(names))
		}
		roots = []string{"cali-from-wl-dispatch", "cali-to-wl-dispatch"}
	} else {
		names, p := genNames(h, false)
		pool = p
		dirs := rt.Pick(h, []string{"both", "both", "from", "to"})
		aof := "0"
		if dirs == "both" && h.Bool() {
			aof = "1"
		}
		dflt := "-"
		if h.Chance(0.6) {
			dflt = encName(rt.Pick(h, []string{"wildcard-hep", "*", "eth0"}))
		}
		wlp := rt.Pick(h, [][]string{{"cali"}, {"cali", "tap"}, nil, {"c"}})
		ops = append(ops, fmt.Sprintf("host %s %s %s %s %s %s", dp, dirs, aof, dflt, encNames(wlp), encNames(names)))
		switch {
		case dirs == "from":
			roots = []string{"cali-from-host-endpoint"}
		case dirs == "to":
			roots = []string{"cali-to-host-endpoint"}
		case aof == "1":
			roots = []string{"cali-from-host-endpoint", "cali-to-host-endpoint", "cali-from-hep-forward", "cali-to-hep-forward"}
		default:
			roots = []string{"cali-from-host-endpoint", "cali-to-host-endpoint"}
		}
	}
	for i := 0; i < 3+h.Intn(8); i++ {
		pr := rt.Pick(h, pool)
		if strings.ContainsAny(pr, " \"") {
			continue
		}
		o := pr
		if h.Chance(0.15) {
			o = rt.Pick(h, pool)
			if strings.ContainsAny(o, " \"") {
				o = pr
			}
		}
		ops = append(ops, fmt.Sprintf("probe %s %s %s", rt.Pick(h, roots), encName(pr), encName(o)))
	}
	return ops
}

func main() {
	h := rt.New()
	defer h.Close()
	h.Rule = "case = one dispatch rendering (workload ipt/nft-vmap or host from/to/both/forward, default chain or not) over 0..8 names " +
		"(shared prefixes, prefix-of-other, one-byte suffixes, duplicates, wildcard/non-ASCII bytes, empty name) + 3..10 probes on/around the names; " +
		"distinct = distinct op sequence; non-trivial = >=2 names sharing a bucket (a child chain is rendered) or a panic"
	run := func(ops []string, tag string) {
		h.Case(tag)
		s := &state{}
		for _, op := range ops {
			out := exec(h, s, op)
			h.Op(op, out)
			k := strings.Fields(op)[0]
			h.Count("op:" + k)
			if k == "wl" || k == "host" {
				h.Count("dp:" + strings.Fields(op)[1])
				if out == "panic" {
					h.Count("panic")
					h.Nontrivial(strings.Join(ops, ";"))
				}
				if strings.Count(out, "[") > 2 && k == "wl" || strings.Contains(out, "dispatch-") || strings.Contains(out, "endpoint-") || strings.Contains(out, "forward-") {
					h.Count("child-chains")
					h.Nontrivial(strings.Join(ops, ";"))
				}
			}
			if k == "probe" {
				h.Count("probe:" + strings.SplitN(out, ":", 2)[0])
			}
		}
		h.Sample()
	}
	if h.Replay != "" {
		run(h.ReplayLines(), "replay")
		return
	}
	for i := 0; i < h.N; i++ {
		run(genCase(h), "gen")
	}
}
