// C33 correspondence harness: drives the real felix/bpf/consistenthash.ConsistentHash,
// libcalico-go/lib/consistenthash.NextPrimeUint16 and felix/config.Config.BPFLUTSizeMaglev.
//
// Byte order.  An op names the byte order of the CPU the code is imagined to run on
// (`le`/`be`).  The harness runs on one host.  When the source of hashFromString names
// binary.NativeEndian and the requested CPU order is not the host's, the REAL code is run
// with hash.Hash wrappers that reverse the four Sum bytes: decoding the reversed bytes in the
// host's order yields exactly the uint32 a CPU of the other order decodes from the true
// bytes, so every later instruction of the real code sees what it would see on that CPU.
// With binary.LittleEndian/BigEndian in the source the decoded value does not depend on the
// CPU and the code is run unchanged.
package main

import (
	"encoding/binary"
	"encoding/hex"
	"fmt"
	"hash"
	"hash/fnv"
	"math/rand"
	"os"
	"path/filepath"
	"regexp"
	"sort"
	"strconv"
	"strings"

	"k8s.io/apimachinery/pkg/util/sets"
	k8sp "k8s.io/kubernetes/pkg/proxy"

	"github.com/projectcalico/calico/felix/bpf/consistenthash"
	"github.com/projectcalico/calico/felix/config"
	chprimes "github.com/projectcalico/calico/libcalico-go/lib/consistenthash"

	"verif/harness/rt"
)

// ---- fake endpoint whose String() is an arbitrary byte string ---------------

type ep struct{ name string }

func (e ep) String() string              { return e.name }
func (e ep) IP() string                  { return e.name }
func (e ep) Port() int                   { return 0 }
func (e ep) IsLocal() bool               { return false }
func (e ep) IsReady() bool               { return true }
func (e ep) IsServing() bool             { return true }
func (e ep) IsTerminating() bool         { return false }
func (e ep) ZoneHints() sets.Set[string] { return nil }
func (e ep) NodeHints() sets.Set[string] { return nil }

var _ k8sp.Endpoint = ep{}

// ---- hashes -------------------------------------------------------------------

// shortHash: Sum is two bytes long (binary.Read fails -> AddBackend logs and skips).
type shortHash struct{ hash.Hash32 }

func (s shortHash) Sum(b []byte) []byte { return append(b, s.Hash32.Sum(nil)[:2]...) }

// revHash reverses the first four Sum bytes (see package comment).
type revHash struct{ hash.Hash }

func (r revHash) Sum(b []byte) []byte {
	s := r.Hash.Sum(nil)
	if len(s) >= 4 {
		s[0], s[1], s[2], s[3] = s[3], s[2], s[1], s[0]
	}
	return append(b, s...)
}

var hostLittle = binary.NativeEndian.Uint16([]byte{1, 0}) == 1
var srcOrder string // "LittleEndian" | "BigEndian" | "NativeEndian", read from the source being checked

// readSrcOrder reads the byte order hashFromString names, from either call shape
// (binary.Read(reader, binary.X, …) or binary.X.UintNN(…)).  Anything else: "Unknown" (treated as a fixed
// order, i.e. the code is run unchanged for both CPU orders) — never a crash.
func readSrcOrder() string {
	repo := os.Getenv("VERIF_REPO")
	if repo == "" {
		repo = "/repo"
	}
	b, err := os.ReadFile(filepath.Join(repo, "felix/bpf/consistenthash/consistenthash.go"))
	if err != nil {
		return "Unknown"
	}
	i := strings.Index(string(b), "func hashFromString(")
	if i < 0 {
		return "Unknown"
	}
	body := string(b[i:])
	if j := strings.Index(body[1:], "\nfunc "); j > 0 {
		body = body[:j+1]
	}
	seen := map[string]bool{}
	for _, m := range regexp.MustCompile(`binary\.Read\(\s*\w+\s*,\s*binary\.(\w+)\s*,`).FindAllStringSubmatch(body, -1) {
		seen[m[1]] = true
	}
	for _, m := range regexp.MustCompile(`binary\.(\w+Endian)\.Uint(?:16|32|64)\(`).FindAllStringSubmatch(body, -1) {
		seen[m[1]] = true
	}
	if len(seen) != 1 {
		return "Unknown"
	}
	for k := range seen {
		return k
	}
	return "Unknown"
}

func newHash(kind string, cpu string) hash.Hash {
	var h hash.Hash
	switch kind {
	case "f":
		h = fnv.New32()
	case "a":
		h = fnv.New32a()
	case "s":
		h = shortHash{fnv.New32()}
	default:
		panic("hash kind " + kind)
	}
	if srcOrder == "NativeEndian" && (cpu == "le") != hostLittle {
		return revHash{h}
	}
	return h
}

func unhex(s string) string {
	if s == "-" {
		return ""
	}
	b, err := hex.DecodeString(s)
	if err != nil {
		panic(err)
	}
	return string(b)
}

func enhex(s string) string {
	if s == "" {
		return "-"
	}
	return hex.EncodeToString([]byte(s))
}

// realTable runs New / AddBackend* / Generate on the real code.
func realTable(cpu, hk string, m int, names []string) (tbl []string, isNil bool, panicked bool) {
	defer func() {
		if r := recover(); r != nil {
			tbl, isNil, panicked = nil, false, true
		}
	}()
	ch := consistenthash.New(m, newHash(hk, cpu), newHash(hk, cpu))
	for _, n := range names {
		ch.AddBackend(ep{n})
	}
	lut := ch.Generate()
	if lut == nil {
		return nil, true, false
	}
	out := make([]string, len(lut))
	for i, e := range lut {
		if e == nil {
			out[i] = "\x00<nil-slot>"
		} else {
			out[i] = e.String()
		}
	}
	return out, false, false
}

func canon(tbl []string) string {
	idx := map[string]int{}
	var seen []string
	is := make([]string, len(tbl))
	for i, n := range tbl {
		k, ok := idx[n]
		if !ok {
			k = len(seen)
			idx[n] = k
			seen = append(seen, enhex(n))
		}
		is[i] = strconv.Itoa(k)
	}
	return "ok " + strings.Join(seen, ",") + " " + strings.Join(is, ",")
}

func isPrime(p int) bool {
	if p < 2 {
		return false
	}
	for d := 2; d*d <= p; d++ {
		if p%d == 0 {
			return false
		}
	}
	return true
}

func eqTbl(a, b []string) bool {
	if len(a) != len(b) {
		return false
	}
	for i := range a {
		if a[i] != b[i] {
			return false
		}
	}
	return true
}

// exec runs one op on the REAL code; the property's oracle is evaluated on the real code too.
func exec(h *rt.H, op string) string {
	w := strings.Fields(op)
	switch w[0] {
	case "lut":
		cpu, hk := w[1], w[2]
		m, _ := strconv.Atoi(w[3])
		names := make([]string, 0, len(w)-4)
		for _, x := range w[4:] {
			names = append(names, unhex(x))
		}
		tbl, isNil, panicked := realTable(cpu, hk, m, names)
		oracleOrder(h, op, cpu, hk, m, names, tbl, isNil, panicked)
		if panicked {
			if isPrime(m) {
				h.OracleFail("panic-prime-size", "Generate/AddBackend panicked for a prime table size", map[string]any{"op": op})
			}
			h.Count("lut:panic")
			return "panic"
		}
		if isNil {
			h.Count("lut:nil")
			return "nil"
		}
		if isPrime(m) {
			oracleTable(h, op, cpu, hk, m, names, tbl)
		}
		return canon(tbl)
	case "perm":
		cpu, hk := w[1], w[2]
		m, _ := strconv.Atoi(w[3])
		out := func() (s string) {
			defer func() {
				if r := recover(); r != nil {
					s = "panic"
				}
			}()
			ch := consistenthash.New(m, newHash(hk, cpu), newHash(hk, cpu))
			p, err := ch.VerifPermutation(unhex(w[4]))
			if err != nil {
				return "err"
			}
			if isPrime(m) {
				seen := make([]bool, m)
				for _, x := range p {
					if x < 0 || x >= m || seen[x] {
						h.OracleFail("perm-not-bijective", "permutation for a prime size is not a bijection on [0,m)", map[string]any{"op": op})
						break
					}
					seen[x] = true
				}
				if len(p) != m {
					h.OracleFail("perm-not-bijective", "permutation has wrong length", map[string]any{"op": op})
				}
			}
			ss := make([]string, len(p))
			for i, x := range p {
				ss[i] = strconv.Itoa(x)
			}
			return "ok " + strings.Join(ss, ",")
		}()
		h.Count("perm:" + strings.Fields(out)[0])
		return out
	case "hash":
		return func() (out string) {
			defer func() {
				if r := recover(); r != nil {
					out = "panic"
				}
			}()
			v, err := consistenthash.VerifHashFromString(unhex(w[4]), newHash(w[2], w[1]), []byte(unhex(w[3])))
			if err != nil {
				return "err"
			}
			return strconv.Itoa(v)
		}()
	case "nextprime":
		i, _ := strconv.Atoi(w[1])
		out := func() (s string) {
			defer func() {
				if r := recover(); r != nil {
					s = "panic"
				}
			}()
			return strconv.Itoa(int(chprimes.NextPrimeUint16(i)))
		}()
		h.Count("nextprime:" + map[bool]string{true: "panic", false: "ok"}[out == "panic"])
		return out
	case "cfg":
		c := config.New()
		_, _ = c.UpdateFrom(map[string]string{"BPFMaglevMaxEndpointsPerService": w[1]}, config.EnvironmentVariable)
		v := c.BPFMaglevMaxEndpointsPerService
		out := func() (s string) {
			defer func() {
				if r := recover(); r != nil {
					s = fmt.Sprintf("%d panic", v)
				}
			}()
			sz := c.BPFLUTSizeMaglev()
			// property oracle: every configurable table size is a prime >= factor * endpoints
			if !isPrime(sz) || sz < v*chprimes.MaglevEndpointLUTFactor {
				h.OracleFail("lut-size-not-prime", "BPFLUTSizeMaglev is not a prime >= MaglevEndpointLUTFactor*BPFMaglevMaxEndpointsPerService", map[string]any{"configured": w[1], "value": v, "size": sz})
			}
			return fmt.Sprintf("%d %d", v, sz)
		}()
		if strings.HasSuffix(out, "panic") {
			h.OracleFail("lut-size-panic", "BPFLUTSizeMaglev panicked for a value the config parser accepted", map[string]any{"configured": w[1], "value": v})
		}
		return out
	}
	panic("unknown op " + op)
}

// oracleOrder — evaluated for EVERY lut op, whatever the size and outcome: the same backend SET learned in
// another ORDER (and with repeats, as after add/remove/re-add histories — the syncer builds a fresh
// ConsistentHash per sync, there is no remove) on a FRESH ConsistentHash gives the identical result:
// the same table, or nil, or the same panic.
func oracleOrder(h *rt.H, op, cpu, hk string, m int, names []string, tbl []string, isNil, panicked bool) {
	if len(names) < 2 {
		return
	}
	var alts [][]string
	rev := make([]string, len(names))
	for i, n := range names {
		rev[len(names)-1-i] = n
	}
	alts = append(alts, rev)
	k := len(names) / 2
	// a history: second half learned first, then the first half, then everything again (re-adds)
	alts = append(alts, append(append(append([]string{}, names[k:]...), names[:k]...), names...))
	srt := append([]string{}, names...)
	sort.Strings(srt)
	alts = append(alts, srt)
	// a random permutation, from a PRNG keyed by the op (deterministic, independent of the generator stream)
	sh := append([]string{}, names...)
	r := rand.New(rand.NewSource(int64(len(op))*7919 + int64(m)))
	r.Shuffle(len(sh), func(i, j int) { sh[i], sh[j] = sh[j], sh[i] })
	alts = append(alts, sh)
	for _, a := range alts {
		t2, n2, p2 := realTable(cpu, hk, m, a)
		if p2 != panicked || n2 != isNil || !eqTbl(t2, tbl) {
			h.Count("lut:order-dependent")
			h.OracleFail("order-dependent", "the same backend set learned in another order on a fresh ConsistentHash gives another table",
				map[string]any{"op": op, "other_order": hexAll(a), "table": clip(canonOrNil(tbl, isNil, panicked)), "other_table": clip(canonOrNil(t2, n2, p2))})
			return
		}
	}
	h.Count("lut:order-checked")
}

func canonOrNil(t []string, isNil, panicked bool) string {
	switch {
	case panicked:
		return "panic"
	case isNil:
		return "nil"
	}
	return canon(t)
}

// oracleTable: complete, balanced, independent of the CPU byte order (prime sizes).
func oracleTable(h *rt.H, op, cpu, hk string, m int, names []string, tbl []string) {
	in := map[string]any{"op": op}
	cnt := map[string]int{}
	for _, n := range tbl {
		if n == "\x00<nil-slot>" {
			h.OracleFail("lut-not-full", "a slot of the generated table is nil", in)
			return
		}
		cnt[n]++
	}
	if len(tbl) != m {
		h.OracleFail("lut-not-full", "generated table has the wrong length", in)
	}
	// backends that were accepted: distinct names (with the short hash none is accepted -> table is nil, not here)
	distinct := map[string]bool{}
	for _, n := range names {
		distinct[n] = true
	}
	lo, hi := m+1, -1
	for n := range distinct {
		c := cnt[n]
		if c < lo {
			lo = c
		}
		if c > hi {
			hi = c
		}
	}
	for n := range cnt {
		if !distinct[n] {
			h.OracleFail("lut-foreign-entry", "table contains an endpoint that was never added", in)
		}
	}
	if hi-lo > 1 {
		h.OracleFail("lut-unbalanced", fmt.Sprintf("backend shares differ by more than one slot (min %d max %d)", lo, hi), in)
	}
	h.Count(fmt.Sprintf("lut:spread%d", hi-lo))
	// CPU byte-order independence
	other := "be"
	if cpu == "be" {
		other = "le"
	}
	t3, _, p3 := realTable(other, hk, m, names)
	if p3 || !eqTbl(t3, tbl) {
		h.Count("lut:arch-differs")
		h.OracleFail("arch-byte-order", "table generated on a "+cpu+" CPU differs from the table generated on a "+other+" CPU (hashFromString decodes with binary."+srcOrder+")",
			map[string]any{"op": op, "table_" + cpu: clip(canon(tbl)), "table_" + other: clip(canon(t3))})
	} else {
		h.Count("lut:arch-same")
	}
}

func clip(s string) string {
	if len(s) > 400 {
		return s[:400] + "..."
	}
	return s
}

func hexAll(a []string) []string {
	o := make([]string, len(a))
	for i, x := range a {
		o[i] = enhex(x)
	}
	return o
}

// ---- generator ------------------------------------------------------------------

var smallPrimes = []int{2, 3, 5, 7, 11, 13, 17, 19, 23, 29, 31, 37, 41, 43, 47, 53, 59, 61, 67, 71, 73, 79, 83, 89, 97, 101, 103, 107, 109, 113, 127, 131, 251, 257}
var nonPrimes = []int{4, 6, 8, 9, 10, 12, 15, 16, 21, 25, 27, 32, 49, 64, 100, 121, 128}

func genM(h *rt.H) int {
	switch h.Intn(20) {
	case 0:
		return h.Intn(3) // 0,1,2 : divide-by-zero panics for 0 and 1
	case 1, 2, 3:
		return rt.Pick(h, nonPrimes)
	case 4, 5:
		// sizes Felix actually configures: NextPrime(5n)
		n := rt.Pick(h, []int{1, 2, 3, 4, 7, 10, 20, 50, 100})
		return int(chprimes.NextPrimeUint16(n * chprimes.MaglevEndpointLUTFactor))
	case 6:
		if h.Tier == "thorough" && h.Intn(8) == 0 {
			n := rt.Pick(h, []int{400, 1000, 3000})
			return int(chprimes.NextPrimeUint16(n * chprimes.MaglevEndpointLUTFactor))
		}
		return rt.Pick(h, []int{503, 251, 1009})
	default:
		return rt.Pick(h, smallPrimes)
	}
}

func genName(h *rt.H, pool []string) string {
	switch h.Intn(12) {
	case 0:
		if len(pool) > 0 {
			return rt.Pick(h, pool) // duplicate
		}
		return ""
	case 1:
		return "" // empty name
	case 2: // arbitrary bytes, including >= 0x80 (byte-wise order)
		b := make([]byte, 1+h.Intn(6))
		for i := range b {
			b[i] = byte(h.Intn(256))
		}
		return string(b)
	case 3: // shares a prefix with a previous name
		if len(pool) > 0 {
			p := rt.Pick(h, pool)
			return p[:h.Intn(len(p)+1)] + string(rune('0'+h.Intn(10)))
		}
		return "a"
	case 4:
		return fmt.Sprintf("[fd00:10:244::%x]:%d", h.Intn(65536), rt.Pick(h, []int{80, 443, 8080}))
	default:
		return fmt.Sprintf("10.%d.%d.%d:%d", h.Intn(3), h.Intn(4), h.Intn(256), rt.Pick(h, []int{80, 443, 8080, 53}))
	}
}

func genNames(h *rt.H, m int) []string {
	var n int
	switch h.Intn(10) {
	case 0:
		n = 0
	case 1:
		n = 1
	case 2:
		n = m + h.Intn(4) // more backends than slots
		if n > 300 {
			n = 300
		}
	case 3:
		n = 20 + h.Intn(60)
	default:
		n = 2 + h.Intn(12)
	}
	var out []string
	for i := 0; i < n; i++ {
		out = append(out, genName(h, out))
	}
	return out
}

func genHK(h *rt.H) string {
	switch h.Intn(12) {
	case 0:
		return "a"
	case 1:
		return "s"
	}
	return "f"
}

func genCase(h *rt.H) []string {
	var ops []string
	switch h.Intn(10) {
	case 0: // prime sizing
		for i := 0; i < 6; i++ {
			var v int
			switch h.Intn(8) {
			case 0:
				v = rt.Pick(h, []int{-5, -1, 0, 1, 2, 3, 65519, 65520, 65521, 65522, 65536, 70000, 1 << 40})
			case 1:
				v = 5 * (1 + h.Intn(3000))
			case 2:
				p := int(chprimes.NextPrimeUint16(h.Intn(65521)))
				v = p + h.Intn(3) - 1
			default:
				v = h.Intn(65600)
			}
			ops = append(ops, fmt.Sprintf("nextprime %d", v))
		}
	case 1: // configured sizes through the config parser
		for i := 0; i < 3; i++ {
			var v int
			switch h.Intn(6) {
			case 0:
				v = rt.Pick(h, []int{-1, 0, 1, 2, 2999, 3000, 3001, 13104, 13105, 20000, 100000})
			default:
				v = 1 + h.Intn(3000)
			}
			ops = append(ops, fmt.Sprintf("cfg %d", v))
		}
	case 2: // permutations and raw hashes
		m := genM(h)
		nm := genName(h, nil)
		hk := genHK(h)
		cpu := rt.Pick(h, []string{"le", "be"})
		if m > 300 {
			m = rt.Pick(h, smallPrimes)
		}
		ops = append(ops, fmt.Sprintf("perm %s %s %d %s", cpu, hk, m, enhex(nm)))
		seed := make([]byte, h.Intn(3))
		for i := range seed {
			seed[i] = byte(h.Intn(256))
		}
		ops = append(ops, fmt.Sprintf("hash %s %s %s %s", cpu, hk, enhex(string(seed)), enhex(nm)))
		ops = append(ops, fmt.Sprintf("hash %s %s %s %s", rt.Pick(h, []string{"le", "be"}), hk, rt.Pick(h, []string{"00", "0a"}), enhex(nm)))
	default:
		m := genM(h)
		names := genNames(h, m)
		hk := genHK(h)
		cpu := rt.Pick(h, []string{"le", "le", "be"})
		ops = append(ops, "lut "+cpu+" "+hk+" "+strconv.Itoa(m)+" "+strings.Join(hexAll(names), " "))
		if h.Intn(3) == 0 && len(names) > 1 {
			// the same set minus one backend (Maglev minimal disruption is not part of the property; this only widens the tie)
			ops = append(ops, "lut "+cpu+" "+hk+" "+strconv.Itoa(m)+" "+strings.Join(hexAll(names[1:]), " "))
		}
	}
	for i := range ops {
		ops[i] = strings.TrimRight(ops[i], " ")
	}
	return ops
}

func main() {
	h := rt.New()
	defer h.Close()
	srcOrder = readSrcOrder()
	h.Extra["host_little_endian"] = hostLittle
	h.Extra["source_byte_order"] = srcOrder
	h.Rule = "case = 1..6 stateless ops: lut (table size from {0,1,2, small primes, NextPrime(5n) sizes Felix configures, non-primes}; 0..80 backend names (ip:port, ipv6, raw bytes, empty, duplicates, shared prefixes, more backends than slots); hash fnv1/fnv1a/2-byte-sum; CPU le/be), perm, hash, nextprime (boundaries, primes±1, negatives, >65521), cfg (config parser incl. out-of-range); " +
		"distinct = distinct op line; non-trivial = lut op with a prime size and >=2 distinct backends, or nextprime/cfg op"
	run := func(ops []string, tag string) {
		h.Case(tag)
		for _, op := range ops {
			out := exec(h, op)
			h.Op(op, out)
			w := strings.Fields(op)
			h.Count("op:" + w[0])
			switch w[0] {
			case "lut":
				m, _ := strconv.Atoi(w[3])
				h.Count("lut:cpu:" + w[1])
				h.Count("lut:hash:" + w[2])
				switch {
				case m < 2:
					h.Count("lut:m<2")
				case !isPrime(m):
					h.Count("lut:m-nonprime")
				case m > 1000:
					h.Count("lut:m-prime>1000")
				default:
					h.Count("lut:m-prime")
				}
				if len(w)-4 > m {
					h.Count("lut:more-backends-than-slots")
				}
				if isPrime(m) && len(w) >= 6 && strings.HasPrefix(out, "ok") {
					h.Nontrivial(op)
				}
			case "nextprime", "cfg":
				h.Nontrivial(op)
			}
		}
		h.Sample()
	}
	if h.Replay != "" {
		run(h.ReplayLines(), "replay")
		return
	}
	for i := 0; i < h.N; i++ {
		run(genCase(h), "gen")
	}
}
