// C29 correspondence harness: drives the real K8sNetworkPolicyToCalico (+ the real
// updateprocessors v3->v1 conversion, the real selector parser, the real pod->WorkloadEndpoint and
// namespace->Profile label conversions) and evaluates the property's own oracle on the real code:
// "the converted policy allows a connection exactly when the Kubernetes NetworkPolicy does".
package main

import (
	"fmt"
	"math/big"
	"net"
	"sort"
	"strconv"
	"strings"

	apiv3 "github.com/projectcalico/api/pkg/apis/projectcalico/v3"
	"github.com/projectcalico/api/pkg/lib/numorstring"
	kapiv1 "k8s.io/api/core/v1"
	networkingv1 "k8s.io/api/networking/v1"
	metav1 "k8s.io/apimachinery/pkg/apis/meta/v1"
	"k8s.io/apimachinery/pkg/labels"
	"k8s.io/apimachinery/pkg/util/intstr"

	"github.com/projectcalico/calico/libcalico-go/lib/apis/internalapi"
	"github.com/projectcalico/calico/libcalico-go/lib/backend/k8s/conversion"
	"github.com/projectcalico/calico/libcalico-go/lib/backend/model"
	"github.com/projectcalico/calico/libcalico-go/lib/backend/syncersv1/updateprocessors"
	cerrors "github.com/projectcalico/calico/libcalico-go/lib/errors"
	"github.com/projectcalico/calico/libcalico-go/lib/selector"

	"verif/harness/rt"
)

// ---------------------------------------------------------------------------------------------
// decoding of the op tokens (same grammar as lean/Driver/C29.lean)

func splitL(sep, s string) []string {
	if s == "_" {
		return nil
	}
	return strings.Split(s, sep)
}

func parseLabels(s string) map[string]string {
	m := map[string]string{}
	for _, kv := range splitL(",", s) {
		p := strings.SplitN(kv, "=", 2)
		m[p[0]] = p[1]
	}
	return m
}

func parseSel(s string) *metav1.LabelSelector {
	if s == "~" {
		return nil
	}
	p := strings.Split(s, ";")
	ls := &metav1.LabelSelector{}
	if p[0] != "_" {
		ls.MatchLabels = parseLabels(p[0])
	}
	for _, e := range splitL(",", p[1]) {
		q := strings.Split(e, ":")
		vals := splitL("+", q[2])
		ls.MatchExpressions = append(ls.MatchExpressions, metav1.LabelSelectorRequirement{
			Key: q[0], Operator: metav1.LabelSelectorOperator(q[1]), Values: vals})
	}
	return ls
}

type cidr struct {
	v6   bool
	addr *big.Int
	len  int
}

func parseNumCidr(s string) cidr {
	p := strings.Split(s, "-")
	a, _ := new(big.Int).SetString(p[1], 10)
	l, _ := strconv.Atoi(p[2])
	return cidr{v6: p[0] == "6", addr: a, len: l}
}

func ipString(v6 bool, a *big.Int) string {
	n := 4
	if v6 {
		n = 16
	}
	b := make([]byte, n)
	a.FillBytes(b)
	return net.IP(b).String()
}

func (c cidr) String() string { return fmt.Sprintf("%s/%d", ipString(c.v6, c.addr), c.len) }

// renderNet prints a CIDR string produced by the real code in the numeric canonical form.
func renderNet(s string) string {
	_, n, err := net.ParseCIDR(s)
	if err != nil {
		return "unparseable:" + s
	}
	ones, _ := n.Mask.Size()
	if ip4 := n.IP.To4(); ip4 != nil && !strings.Contains(s, ":") {
		return fmt.Sprintf("4-%s-%d", new(big.Int).SetBytes(ip4).String(), ones)
	}
	return fmt.Sprintf("6-%s-%d", new(big.Int).SetBytes(n.IP.To16()).String(), ones)
}

func parsePeer(s string) networkingv1.NetworkPolicyPeer {
	if s[0] == 'P' {
		p := strings.Split(s[1:], "^")
		return networkingv1.NetworkPolicyPeer{PodSelector: parseSel(p[0]), NamespaceSelector: parseSel(p[1])}
	}
	p := strings.Split(s[1:], "!")
	b := &networkingv1.IPBlock{CIDR: parseNumCidr(p[0]).String()}
	for _, e := range p[1:] {
		b.Except = append(b.Except, parseNumCidr(e).String())
	}
	return networkingv1.NetworkPolicyPeer{IPBlock: b}
}

func parsePort(s string) networkingv1.NetworkPolicyPort {
	p := strings.Split(s, "/")
	var out networkingv1.NetworkPolicyPort
	if p[0] != "~" {
		pr := kapiv1.Protocol(p[0])
		if p[0] == "EMPTY" {
			pr = ""
		}
		out.Protocol = &pr
	}
	if p[1] != "~" {
		var v intstr.IntOrString
		if p[1][0] == 'i' {
			n, _ := strconv.ParseInt(p[1][1:], 10, 32)
			v = intstr.FromInt32(int32(n))
		} else {
			v = intstr.FromString(p[1][1:])
		}
		out.Port = &v
	}
	if p[2] != "~" {
		n, _ := strconv.ParseInt(p[2], 10, 32)
		e := int32(n)
		out.EndPort = &e
	}
	return out
}

func parseRules(s string) (peers [][]networkingv1.NetworkPolicyPeer, ports [][]networkingv1.NetworkPolicyPort) {
	for _, r := range splitL("|", s) {
		p := strings.Split(r, "@")
		var pe []networkingv1.NetworkPolicyPeer
		for _, x := range splitL("&", p[0]) {
			pe = append(pe, parsePeer(x))
		}
		var po []networkingv1.NetworkPolicyPort
		for _, x := range splitL("&", p[1]) {
			po = append(po, parsePort(x))
		}
		peers = append(peers, pe)
		ports = append(ports, po)
	}
	return
}

// ---------------------------------------------------------------------------------------------
// state of one case

type namedPort struct {
	name  string
	proto int
	port  int
}

type endpoint struct {
	kind     string // "pod" | "oth" | "none"
	ip       net.IP
	ns       string
	k8sLabel map[string]string // the Pod's own labels (Kubernetes view)
	ports    []namedPort
	// Calico view, produced by the REAL conversion code
	own      map[string]string // WorkloadEndpoint labels
	wepPorts []internalapi.WorkloadEndpointPort
}

type state struct {
	np        *networkingv1.NetworkPolicy
	v3        *apiv3.NetworkPolicy
	v1        *model.Policy
	nsLabels  map[string]map[string]string // Namespace.Labels
	profile   map[string]map[string]string // real NamespaceToProfile LabelsToApply
	eps       map[string]*endpoint
	valid     bool     // NP passes the (hand-mirrored) Kubernetes API validation + defaulting
	reserved  bool     // some label / selector key lies in Calico's reserved label space
	nonPodK8s bool     // a non-pod endpoint carries projectcalico.org/orchestrator=k8s
	hist      []string // the np/ns/pod/oth ops of this case (to rebuild it with reserved keys stripped)
	stripped  *state   // the same case with every reserved label / selector key removed (built on demand)
}

var conv = conversion.NewConverter()

// ---------------------------------------------------------------------------------------------
// rendering of the real converter's output

func renderEntity(e apiv3.EntityRule, withPorts bool) string {
	nets := []string{}
	for _, n := range e.Nets {
		nets = append(nets, renderNet(n))
	}
	notNets := []string{}
	for _, n := range e.NotNets {
		notNets = append(notNets, renderNet(n))
	}
	s := "(" + e.Selector + "|" + e.NamespaceSelector + "|" + strings.Join(nets, ",") + "|" + strings.Join(notNets, ",")
	if withPorts {
		ps := []string{}
		for _, p := range e.Ports {
			ps = append(ps, p.String())
		}
		s += "|" + strings.Join(ps, ",")
	}
	if e.NotSelector != "" || len(e.NotPorts) > 0 || e.ServiceAccounts != nil || e.Services != nil || (!withPorts && len(e.Ports) > 0) {
		s += "+UNMODELLED-FIELDS"
	}
	return s + ")"
}

func renderRule(r apiv3.Rule) string {
	pr := "-"
	if r.Protocol != nil {
		pr = r.Protocol.String()
	}
	s := "{" + pr + " src" + renderEntity(r.Source, false) + " dst" + renderEntity(r.Destination, true) + "}"
	if r.Action != apiv3.Allow || r.NotProtocol != nil || r.ICMP != nil || r.NotICMP != nil || r.IPVersion != nil || r.HTTP != nil {
		s += "+UNMODELLED-FIELDS"
	}
	return s
}

func renderPolicy(p *apiv3.NetworkPolicy, badIn, badEg int) string {
	types := []string{}
	for _, t := range p.Spec.Types {
		types = append(types, strings.ToLower(string(t)))
	}
	in := []string{}
	for _, r := range p.Spec.Ingress {
		in = append(in, renderRule(r))
	}
	eg := []string{}
	for _, r := range p.Spec.Egress {
		eg = append(eg, renderRule(r))
	}
	s := "sel[" + p.Spec.Selector + "] types[" + strings.Join(types, ",") + "] in[" + strings.Join(in, ";") +
		"] eg[" + strings.Join(eg, ";") + "] bad=" + strconv.Itoa(badIn) + "/" + strconv.Itoa(badEg)
	if p.Spec.Tier != "default" || p.Spec.Order == nil || *p.Spec.Order != 1000.0 || p.Spec.ServiceAccountSelector != "" {
		s += "+UNMODELLED-FIELDS"
	}
	return s
}

// ---------------------------------------------------------------------------------------------
// reference semantics 1: Kubernetes (labels via the real k8s.io/apimachinery selector code)

func exprHolds(e metav1.LabelSelectorRequirement, l map[string]string) bool {
	v, ok := l[e.Key]
	in := false
	for _, x := range e.Values {
		if x == v {
			in = true
		}
	}
	switch e.Operator {
	case metav1.LabelSelectorOpIn:
		return ok && in
	case metav1.LabelSelectorOpNotIn:
		return !ok || !in
	case metav1.LabelSelectorOpExists:
		return ok
	case metav1.LabelSelectorOpDoesNotExist:
		return !ok
	}
	return false
}

func lselHolds(s *metav1.LabelSelector, l map[string]string) bool {
	res := true
	for k, v := range s.MatchLabels {
		if x, ok := l[k]; !ok || x != v {
			res = false
		}
	}
	for _, e := range s.MatchExpressions {
		if !exprHolds(e, l) {
			res = false
		}
	}
	// cross-check the hand-written meaning against the real Kubernetes library whenever the
	// library accepts the selector (it rejects e.g. `In` with no values).
	if sel, err := metav1.LabelSelectorAsSelector(s); err == nil {
		if sel.Matches(labels.Set(l)) != res {
			panic(fmt.Sprintf("harness reference semantics disagrees with k8s.io/apimachinery on %v / %v", s, l))
		}
	}
	return res
}

func protoNum(p string) int {
	switch p {
	case "TCP":
		return 6
	case "UDP":
		return 17
	case "ICMP":
		return 1
	case "ICMPv6":
		return 58
	case "SCTP":
		return 132
	case "UDPLite":
		return 136
	}
	return -1
}

type conn struct {
	src, dst *endpoint
	proto    int
	dport    int
}

func podHasPort(e *endpoint, name string, proto, port int) bool {
	if e.kind != "pod" {
		return false
	}
	for _, p := range e.ports {
		if p.name == name && p.proto == proto && p.port == port {
			return true
		}
	}
	return false
}

func cidrContains(s string, ip net.IP) bool {
	_, n, err := net.ParseCIDR(s)
	if err != nil {
		return false
	}
	if (n.IP.To4() != nil) != (ip.To4() != nil) {
		return false
	}
	return n.Contains(ip)
}

func (s *state) k8sPeerMatches(peer networkingv1.NetworkPolicyPeer, pa *endpoint) bool {
	if peer.IPBlock != nil {
		if !cidrContains(peer.IPBlock.CIDR, pa.ip) {
			return false
		}
		for _, e := range peer.IPBlock.Except {
			if cidrContains(e, pa.ip) {
				return false
			}
		}
		return true
	}
	if pa.kind != "pod" {
		return false
	}
	if peer.NamespaceSelector == nil {
		if pa.ns != s.np.Namespace {
			return false
		}
	} else if !lselHolds(peer.NamespaceSelector, s.nsLabels[pa.ns]) {
		return false
	}
	if peer.PodSelector != nil && !lselHolds(peer.PodSelector, pa.k8sLabel) {
		return false
	}
	return true
}

func k8sPortMatches(p networkingv1.NetworkPolicyPort, c conn) bool {
	pr := "TCP"
	if p.Protocol != nil {
		pr = string(*p.Protocol)
	}
	if protoNum(pr) != c.proto {
		return false
	}
	if p.Port == nil {
		return true
	}
	if p.Port.Type == intstr.Int {
		n := int(p.Port.IntVal)
		if p.EndPort == nil {
			return n == c.dport
		}
		return n <= c.dport && c.dport <= int(*p.EndPort)
	}
	return podHasPort(c.dst, p.Port.StrVal, c.proto, c.dport)
}

func (s *state) effTypes() (in, eg bool) {
	if len(s.np.Spec.PolicyTypes) == 0 {
		return true, len(s.np.Spec.Egress) > 0
	}
	for _, t := range s.np.Spec.PolicyTypes {
		if t == networkingv1.PolicyTypeIngress {
			in = true
		}
		if t == networkingv1.PolicyTypeEgress {
			eg = true
		}
	}
	return
}

func (s *state) k8sVerdict(ingress bool, c conn) string {
	me, peer := c.src, c.dst
	if ingress {
		me, peer = c.dst, c.src
	}
	if me.kind != "pod" {
		return "none"
	}
	in, eg := s.effTypes()
	if me.ns != s.np.Namespace || !lselHolds(&s.np.Spec.PodSelector, me.k8sLabel) || (ingress && !in) || (!ingress && !eg) {
		return "none"
	}
	match := func(peers []networkingv1.NetworkPolicyPeer, ports []networkingv1.NetworkPolicyPort) bool {
		pm := len(peers) == 0
		for _, p := range peers {
			if s.k8sPeerMatches(p, peer) {
				pm = true
			}
		}
		qm := len(ports) == 0
		for _, p := range ports {
			if k8sPortMatches(p, c) {
				qm = true
			}
		}
		return pm && qm
	}
	if ingress {
		for _, r := range s.np.Spec.Ingress {
			if match(r.From, r.Ports) {
				return "allow"
			}
		}
	} else {
		for _, r := range s.np.Spec.Egress {
			if match(r.To, r.Ports) {
				return "allow"
			}
		}
	}
	return "deny"
}

// ---------------------------------------------------------------------------------------------
// reference semantics 2: Calico, on the REAL v1 policy (real updateprocessors conversion, real
// selector parser/evaluator, real WorkloadEndpoint/Profile labels)

// calicoLabels is felix's label inheritance: own labels first, then the parent profile's.
func (s *state) calicoLabels(e *endpoint) (map[string]string, bool) {
	switch e.kind {
	case "pod":
		m := map[string]string{}
		for k, v := range s.profile[e.ns] {
			m[k] = v
		}
		for k, v := range e.own {
			m[k] = v
		}
		return m, true
	case "oth":
		return e.own, true
	}
	return nil, false
}

func (s *state) selMatches(sel string, e *endpoint) bool {
	if sel == "" {
		return true
	}
	l, ok := s.calicoLabels(e)
	if !ok {
		return false
	}
	ps, err := selector.Parse(sel)
	if err != nil {
		// Felix drops a policy whose selector does not parse; for the comparison this is "matches nothing"
		return false
	}
	return ps.Evaluate(l)
}

func wepHasPort(e *endpoint, name string, proto, port int) bool {
	for _, p := range e.wepPorts {
		if p.Name == name && protoNum(p.Protocol.String()) == proto && int(p.Port) == port {
			return true
		}
	}
	return false
}

func (s *state) calicoRuleMatches(r model.Rule, c conn) bool {
	if r.Protocol != nil {
		// ToV1 lower-cases; go back through the v3 spelling
		p3 := numorstring.ProtocolV3FromProtocolV1(*r.Protocol)
		if protoNum(p3.String()) != c.proto {
			return false
		}
	}
	if !s.selMatches(r.SrcSelector, c.src) || !s.selMatches(r.DstSelector, c.dst) {
		return false
	}
	netsOK := func(nets []string, ip net.IP) bool {
		if len(nets) == 0 {
			return true
		}
		for _, n := range nets {
			if cidrContains(n, ip) {
				return true
			}
		}
		return false
	}
	var srcNets, dstNets, notSrc, notDst []string
	for _, n := range r.SrcNets {
		srcNets = append(srcNets, n.String())
	}
	for _, n := range r.DstNets {
		dstNets = append(dstNets, n.String())
	}
	for _, n := range r.NotSrcNets {
		notSrc = append(notSrc, n.String())
	}
	for _, n := range r.NotDstNets {
		notDst = append(notDst, n.String())
	}
	if !netsOK(srcNets, c.src.ip) || !netsOK(dstNets, c.dst.ip) {
		return false
	}
	for _, n := range notSrc {
		if cidrContains(n, c.src.ip) {
			return false
		}
	}
	for _, n := range notDst {
		if cidrContains(n, c.dst.ip) {
			return false
		}
	}
	if len(r.DstPorts) > 0 {
		ok := false
		for _, p := range r.DstPorts {
			if p.PortName != "" {
				if c.dst.kind == "pod" && wepHasPort(c.dst, p.PortName, c.proto, c.dport) {
					ok = true
				}
			} else if int(p.MinPort) <= c.dport && c.dport <= int(p.MaxPort) {
				ok = true
			}
		}
		if !ok {
			return false
		}
	}
	return true
}

func (s *state) calicoVerdict(ingress bool, c conn) string {
	me := c.src
	if ingress {
		me = c.dst
	}
	if _, ok := s.calicoLabels(me); !ok {
		return "none"
	}
	want := "egress"
	if ingress {
		want = "ingress"
	}
	has := false
	for _, t := range s.v1.Types {
		if t == want {
			has = true
		}
	}
	if !s.selMatches(s.v1.Selector, me) || !has {
		return "none"
	}
	rules := s.v1.OutboundRules
	if ingress {
		rules = s.v1.InboundRules
	}
	for _, r := range rules {
		if r.Action != "allow" {
			panic("converted rule with action " + r.Action)
		}
		if s.calicoRuleMatches(r, c) {
			return "allow"
		}
	}
	return "deny"
}

// ---------------------------------------------------------------------------------------------
// validity (Kubernetes API validation + defaulting, hand mirrored) and reserved label space

func reservedKey(k string) bool {
	return strings.HasPrefix(k, "projectcalico.org/") || strings.HasPrefix(k, "pcns.") || strings.HasPrefix(k, "pcsa.")
}

func selValid(s *metav1.LabelSelector) bool {
	if s == nil {
		return true
	}
	_, err := metav1.LabelSelectorAsSelector(s)
	return err == nil
}

func selReserved(s *metav1.LabelSelector) bool {
	if s == nil {
		return false
	}
	for k := range s.MatchLabels {
		if reservedKey(k) {
			return true
		}
	}
	for _, e := range s.MatchExpressions {
		if reservedKey(e.Key) {
			return true
		}
	}
	return false
}

func isDigits(s string) bool {
	if s == "" {
		return false
	}
	for _, c := range s {
		if c < '0' || c > '9' {
			return false
		}
	}
	return true
}

func portValid(p networkingv1.NetworkPolicyPort) bool {
	if p.Protocol != nil {
		switch *p.Protocol {
		case kapiv1.ProtocolTCP, kapiv1.ProtocolUDP, kapiv1.ProtocolSCTP:
		default:
			return false
		}
	}
	if p.Port == nil {
		return p.EndPort == nil
	}
	if p.Port.Type == intstr.Int {
		n := int(p.Port.IntVal)
		if n < 1 || n > 65535 {
			return false
		}
		if p.EndPort != nil {
			e := int(*p.EndPort)
			return n <= e && e <= 65535
		}
		return true
	}
	if p.EndPort != nil {
		return false
	}
	nm := p.Port.StrVal
	if len(nm) < 1 || len(nm) > 15 || isDigits(nm) {
		return false
	}
	for _, c := range nm {
		if !(c >= 'a' && c <= 'z' || c >= '0' && c <= '9' || c == '-') {
			return false
		}
	}
	return !strings.HasPrefix(nm, "-") && !strings.HasSuffix(nm, "-") && !strings.Contains(nm, "--")
}

func (s *state) classify() {
	np := s.np
	s.valid = len(np.Spec.PolicyTypes) > 0
	for _, t := range np.Spec.PolicyTypes {
		if t != networkingv1.PolicyTypeIngress && t != networkingv1.PolicyTypeEgress {
			s.valid = false
		}
	}
	if !selValid(&np.Spec.PodSelector) {
		s.valid = false
	}
	s.reserved = selReserved(&np.Spec.PodSelector)
	peers := func(ps []networkingv1.NetworkPolicyPeer) {
		for _, p := range ps {
			if p.IPBlock != nil {
				if p.PodSelector != nil || p.NamespaceSelector != nil {
					s.valid = false
				}
				continue
			}
			if p.PodSelector == nil && p.NamespaceSelector == nil {
				s.valid = false
			}
			if !selValid(p.PodSelector) || !selValid(p.NamespaceSelector) {
				s.valid = false
			}
			if selReserved(p.PodSelector) || selReserved(p.NamespaceSelector) {
				s.reserved = true
			}
		}
	}
	ports := func(ps []networkingv1.NetworkPolicyPort) {
		for _, p := range ps {
			if !portValid(p) {
				s.valid = false
			}
		}
	}
	for _, r := range np.Spec.Ingress {
		peers(r.From)
		ports(r.Ports)
	}
	for _, r := range np.Spec.Egress {
		peers(r.To)
		ports(r.Ports)
	}
}

// ---------------------------------------------------------------------------------------------
// the same case with Calico's reserved label space removed (for attributing a disagreement)

func claimsK8s(e *endpoint) bool {
	return e != nil && e.kind == "oth" && e.own["projectcalico.org/orchestrator"] == "k8s"
}

func stripLabelsTok(t string) string {
	var out []string
	for _, kv := range splitL(",", t) {
		if !reservedKey(strings.SplitN(kv, "=", 2)[0]) {
			out = append(out, kv)
		}
	}
	if len(out) == 0 {
		return "_"
	}
	return strings.Join(out, ",")
}

func stripSelTok(t string) string {
	if t == "~" {
		return t
	}
	p := strings.Split(t, ";")
	var me []string
	for _, e := range splitL(",", p[1]) {
		if !reservedKey(strings.Split(e, ":")[0]) {
			me = append(me, e)
		}
	}
	mes := "_"
	if len(me) > 0 {
		mes = strings.Join(me, ",")
	}
	return stripLabelsTok(p[0]) + ";" + mes
}

func stripRulesTok(t string) string {
	if t == "_" {
		return t
	}
	var rules []string
	for _, r := range strings.Split(t, "|") {
		p := strings.Split(r, "@")
		var peers []string
		for _, pe := range splitL("&", p[0]) {
			if pe[0] == 'P' {
				q := strings.Split(pe[1:], "^")
				pe = "P" + stripSelTok(q[0]) + "^" + stripSelTok(q[1])
			}
			peers = append(peers, pe)
		}
		ps := "_"
		if len(peers) > 0 {
			ps = strings.Join(peers, "&")
		}
		rules = append(rules, ps+"@"+p[1])
	}
	return strings.Join(rules, "|")
}

func stripOp(op string) string {
	w := strings.Fields(op)
	switch w[0] {
	case "np":
		w[2], w[4], w[5] = stripSelTok(w[2]), stripRulesTok(w[4]), stripRulesTok(w[5])
	case "ns":
		w[2] = stripLabelsTok(w[2])
	case "pod":
		w[3] = stripLabelsTok(w[3])
	}
	return strings.Join(w, " ")
}

// agreesWhenStripped rebuilds the case without reserved keys (through the REAL conversions again)
// and reports whether Kubernetes and Calico agree on this connection there.
func (s *state) agreesWhenStripped(connOp string) bool {
	if s.stripped == nil {
		t := &state{}
		for _, op := range s.hist {
			if out := exec(nil, t, stripOp(op)); strings.HasPrefix(out, "err") || out == "bad-op" {
				return false
			}
		}
		s.stripped = t
	}
	t := s.stripped
	w := strings.Fields(connOp)
	pr, _ := strconv.Atoi(w[4])
	po, _ := strconv.Atoi(w[5])
	c := conn{src: t.party(w[2]), dst: t.party(w[3]), proto: pr, dport: po}
	if c.src == nil || c.dst == nil {
		return false
	}
	return t.calicoVerdict(w[1] == "in", c) == t.k8sVerdict(w[1] == "in", c)
}

// ---------------------------------------------------------------------------------------------
// exec: one op on the REAL code

func parseIP(s string) net.IP {
	p := strings.Split(s, "-")
	a, _ := new(big.Int).SetString(p[1], 10)
	return net.ParseIP(ipString(p[0] == "6", a))
}

func (s *state) party(tok string) *endpoint {
	if strings.HasPrefix(tok, "e:") {
		return s.eps[tok[2:]]
	}
	return &endpoint{kind: "none", ip: parseIP(tok[2:])}
}

func exec(h *rt.H, s *state, op string) string {
	w := strings.Fields(op)
	if w[0] != "np" && w[0] != "simp" && s.np == nil {
		return "bad-op" // (only in shrunk replays) no policy yet
	}
	if w[0] == "ns" || w[0] == "pod" || w[0] == "oth" {
		s.hist = append(s.hist, op)
		s.stripped = nil
	}
	switch w[0] {
	case "np":
		*s = state{nsLabels: map[string]map[string]string{}, profile: map[string]map[string]string{}, eps: map[string]*endpoint{}}
		s.hist = []string{op}
		np := &networkingv1.NetworkPolicy{ObjectMeta: metav1.ObjectMeta{Name: "np", Namespace: w[1]}}
		np.Spec.PodSelector = *parseSel(w[2])
		for _, t := range splitL(",", w[3]) {
			np.Spec.PolicyTypes = append(np.Spec.PolicyTypes, networkingv1.PolicyType(t))
		}
		pe, po := parseRules(w[4])
		for i := range pe {
			np.Spec.Ingress = append(np.Spec.Ingress, networkingv1.NetworkPolicyIngressRule{From: pe[i], Ports: po[i]})
		}
		pe, po = parseRules(w[5])
		for i := range pe {
			np.Spec.Egress = append(np.Spec.Egress, networkingv1.NetworkPolicyEgressRule{To: pe[i], Ports: po[i]})
		}
		s.np = np
		s.classify()
		kvp, err := conv.K8sNetworkPolicyToCalico(np)
		badIn, badEg := 0, 0
		if err != nil {
			ec, ok := err.(cerrors.ErrorPolicyConversion)
			if !ok || kvp == nil {
				return "err:" + fmt.Sprintf("%T", err)
			}
			for _, r := range ec.Rules {
				if r.IngressRule != nil {
					badIn++
				} else {
					badEg++
				}
			}
			if h != nil {
				h.Count("np:conversion-error")
			}
			if s.valid && h != nil {
				h.OracleFail("valid-np-rule-dropped", "a NetworkPolicy that passes Kubernetes validation lost a rule in conversion", op)
			}
		}
		s.v3 = kvp.Value.(*apiv3.NetworkPolicy)
		v1, err := updateprocessors.ConvertNetworkPolicyV3ToV1Value(s.v3)
		if err != nil {
			return "err:v1"
		}
		s.v1 = v1.(*model.Policy)
		return renderPolicy(s.v3, badIn, badEg)
	case "ns":
		l := parseLabels(w[2])
		s.nsLabels[w[1]] = l
		kvp, err := conv.NamespaceToProfile(&kapiv1.Namespace{ObjectMeta: metav1.ObjectMeta{
			Name: w[1], Labels: l, UID: "30316465-6365-4463-ad63-3564622d3638"}})
		if err != nil {
			return "err"
		}
		s.profile[w[1]] = kvp.Value.(*apiv3.Profile).Spec.LabelsToApply
		return "ok"
	case "pod":
		e := &endpoint{kind: "pod", ns: w[2], k8sLabel: parseLabels(w[3]), ip: parseIP(w[5])}
		pod := &kapiv1.Pod{ObjectMeta: metav1.ObjectMeta{Name: w[1], Namespace: w[2], Labels: e.k8sLabel},
			Spec:   kapiv1.PodSpec{NodeName: "node1"},
			Status: kapiv1.PodStatus{PodIP: e.ip.String(), PodIPs: []kapiv1.PodIP{{IP: e.ip.String()}}}}
		if w[4] != "~" {
			pod.Spec.ServiceAccountName = w[4]
		}
		var c kapiv1.Container
		for _, p := range splitL(",", w[6]) {
			q := strings.Split(p, ":")
			pr, _ := strconv.Atoi(q[1])
			po, _ := strconv.Atoi(q[2])
			e.ports = append(e.ports, namedPort{q[0], pr, po})
			kp := map[int]kapiv1.Protocol{6: kapiv1.ProtocolTCP, 17: kapiv1.ProtocolUDP, 132: kapiv1.ProtocolSCTP}[pr]
			c.Ports = append(c.Ports, kapiv1.ContainerPort{Name: q[0], Protocol: kp, ContainerPort: int32(po)})
		}
		pod.Spec.Containers = []kapiv1.Container{c}
		kvps, err := conv.PodToWorkloadEndpoints(pod)
		if err != nil || len(kvps) != 1 {
			return "err"
		}
		wep := kvps[0].Value.(*internalapi.WorkloadEndpoint)
		e.own = wep.Labels
		if _, ok := s.profile[w[2]]; !ok {
			// namespace not declared (only in shrunk replays): it exists with no labels
			kvp, err := conv.NamespaceToProfile(&kapiv1.Namespace{ObjectMeta: metav1.ObjectMeta{Name: w[2], UID: "30316465-6365-4463-ad63-3564622d3638"}})
			if err != nil {
				return "err"
			}
			s.profile[w[2]] = kvp.Value.(*apiv3.Profile).Spec.LabelsToApply
		}
		e.wepPorts = wep.Spec.Ports
		if len(wep.Spec.Profiles) == 0 || wep.Spec.Profiles[0] != "kns."+w[2] {
			return "err:profiles"
		}
		for k := range e.k8sLabel {
			if reservedKey(k) {
				s.reserved = true
			}
		}
		s.eps[w[1]] = e
		return "ok"
	case "oth":
		e := &endpoint{kind: "oth", own: parseLabels(w[2]), ip: parseIP(w[3])}
		if e.own["projectcalico.org/orchestrator"] == "k8s" {
			// outside the property's quantifier (it ranges over pod and namespace labellings): a
			// NON-pod endpoint that claims to be a Kubernetes workload
			s.nonPodK8s = true
		}
		s.eps[w[1]] = e
		return "ok"
	case "conn":
		ingress := w[1] == "in"
		pr, _ := strconv.Atoi(w[4])
		po, _ := strconv.Atoi(w[5])
		c := conn{src: s.party(w[2]), dst: s.party(w[3]), proto: pr, dport: po}
		if c.src == nil || c.dst == nil {
			return "bad-op" // (only in shrunk replays) endpoint not declared
		}
		cv := s.calicoVerdict(ingress, c)
		kv := s.k8sVerdict(ingress, c)
		h.Count("verdict:" + kv)
		switch {
		case !s.valid:
			h.Count("conn:np-not-valid(no-oracle)")
		case claimsK8s(c.src) || claimsK8s(c.dst):
			// outside the property's quantifier: a party is a NON-pod endpoint that claims to be a k8s workload
			h.Count("conn:non-pod-claims-k8s(no-oracle)")
		case cv != kv && s.reserved && s.agreesWhenStripped(op):
			// attributed PER CONNECTION: the very same connection is re-evaluated in the same case with
			// every reserved label / selector key removed; only if the disagreement vanishes there is it
			// the known reserved-label-space limitation
			h.OracleFail("reserved-label-space", "Kubernetes and converted-Calico verdicts differ because a label/selector key lies in Calico's reserved label space (projectcalico.org/*, pcns.*, pcsa.*); they agree once those keys are removed",
				map[string]any{"np": s.npOp(), "conn": op, "calico": cv, "k8s": kv})
		case cv != kv:
			h.OracleFail("verdict-mismatch", "converted Calico policy and Kubernetes NetworkPolicy disagree on a connection",
				map[string]any{"np": s.npOp(), "conn": op, "calico": cv, "k8s": kv})
		default:
			h.Count("conn:oracle-checked")
		}
		return cv + " " + kv + " " + cv
	case "v1":
		rule := func(r model.Rule) string { return r.SrcSelector + "|" + r.DstSelector }
		in := []string{}
		for _, r := range s.v1.InboundRules {
			in = append(in, rule(r))
		}
		eg := []string{}
		for _, r := range s.v1.OutboundRules {
			eg = append(eg, rule(r))
		}
		return "sel[" + s.v1.Selector + "] in[" + strings.Join(in, ";") + "] eg[" + strings.Join(eg, ";") + "]"
	case "simp":
		var ps []numorstring.Port
		for _, t := range splitL(",", w[1]) {
			if t[0] == 'n' {
				ps = append(ps, numorstring.Port{PortName: t[1:]})
			} else {
				q := strings.Split(t, ":")
				a, _ := strconv.Atoi(q[0])
				b, _ := strconv.Atoi(q[1])
				ps = append(ps, numorstring.Port{MinPort: uint16(a), MaxPort: uint16(b)})
			}
		}
		out := conversion.SimplifyPorts(ps)
		// property oracle for SimplifyPorts on the real code: same set of ports
		cover := func(ps []numorstring.Port) string {
			set := map[int]bool{}
			names := map[string]bool{}
			for _, p := range ps {
				if p.PortName != "" {
					names[p.PortName] = true
					continue
				}
				for i := int(p.MinPort); i <= int(p.MaxPort); i++ {
					set[i] = true
				}
			}
			var ks []string
			for k := range set {
				ks = append(ks, strconv.Itoa(k))
			}
			for k := range names {
				ks = append(ks, "n"+k)
			}
			sort.Strings(ks)
			return strings.Join(ks, ",")
		}
		if cover(ps) != cover(out) {
			h.OracleFail("simplifyports-set-changed", "SimplifyPorts changed the set of ports", op)
		}
		rs := []string{}
		for _, p := range out {
			rs = append(rs, p.String())
		}
		return strings.Join(rs, ",")
	}
	panic("unknown op " + op)
}

func (s *state) npOp() string { return curNP }

var curNP string

// ---------------------------------------------------------------------------------------------
// generator

var (
	nsPool   = []string{"default", "prod", "dev"}
	keyPool  = []string{"app", "tier", "env", "k8s.io/x", "a.b/c-d_e", "1a", "in", "has", "not", "all", "global", "contains", "team"}
	resPool  = []string{"projectcalico.org/namespace", "projectcalico.org/orchestrator", "projectcalico.org/serviceaccount", "pcns.env", "pcns.team", "pcns.projectcalico.org/name", "projectcalico.org/name", "pcsa.x"}
	valPool  = []string{"a", "b", "web", "db", "1", "", "A-b_c.d", "prod", "dev", "default", "k8s"}
	namePool = []string{"http", "dns", "metrics", "p-1", "a"}
)

type gen struct {
	h       *rt.H
	res     bool // this case may use the reserved label space
	bad     bool // this case may be malformed
	intPort []int
	cidrs   []string
}

func (g *gen) key() string {
	if g.res && g.h.Chance(0.3) {
		return rt.Pick(g.h, resPool)
	}
	if g.h.Chance(0.7) {
		return rt.Pick(g.h, []string{"app", "tier", "env"})
	}
	return rt.Pick(g.h, keyPool)
}

func (g *gen) val() string {
	if g.h.Chance(0.7) {
		return rt.Pick(g.h, []string{"a", "b"})
	}
	return rt.Pick(g.h, valPool)
}

func (g *gen) labels(max int) string {
	n := g.h.Intn(max + 1)
	seen := map[string]bool{}
	var out []string
	for i := 0; i < n; i++ {
		k := g.key()
		if seen[k] {
			continue
		}
		seen[k] = true
		out = append(out, k+"="+g.val())
	}
	if len(out) == 0 {
		return "_"
	}
	return strings.Join(out, ",")
}

func (g *gen) sel() string {
	ml := g.labels(2)
	n := g.h.Intn(3)
	if g.h.Chance(0.5) {
		n = 0
	}
	var me []string
	for i := 0; i < n; i++ {
		k := g.key()
		switch g.h.Intn(4) {
		case 0, 1:
			op := "In"
			if g.h.Bool() {
				op = "NotIn"
			}
			nv := 1 + g.h.Intn(3)
			var vs []string
			for j := 0; j < nv; j++ {
				vs = append(vs, g.val())
			}
			v := strings.Join(vs, "+")
			if g.bad && g.h.Chance(0.1) {
				v = "_"
			}
			me = append(me, k+":"+op+":"+v)
		case 2:
			me = append(me, k+":Exists:_")
		default:
			me = append(me, k+":DoesNotExist:_")
		}
		if g.bad && g.h.Chance(0.05) {
			me[len(me)-1] = k + ":Foo:a"
		}
	}
	mes := "_"
	if len(me) > 0 {
		mes = strings.Join(me, ",")
	}
	return ml + ";" + mes
}

func (g *gen) cidr() string {
	v4 := []string{"4-167772160-8", "4-167772161-8", "4-167772160-24", "4-167772416-24", "4-167772165-32", "4-0-0", "4-3232235776-16", "4-167772224-26"}
	v6 := []string{"6-0-0", "6-338288524927261089654018896841347694592-64", "6-338288524927261089654018896841347694593-128"}
	if g.h.Chance(0.15) {
		return rt.Pick(g.h, v6)
	}
	return rt.Pick(g.h, v4)
}

func (g *gen) peer() string {
	switch g.h.Intn(5) {
	case 0:
		s := "I" + g.cidr()
		for i := g.h.Intn(3); i > 0; i-- {
			s += "!" + g.cidr()
		}
		return s
	case 1:
		return "P" + g.sel() + "^~"
	case 2:
		return "P~^" + g.sel()
	case 3:
		return "P" + g.sel() + "^" + g.sel()
	default:
		if g.h.Bool() {
			return "P_;_^~"
		}
		return "P~^_;_"
	}
}

func (g *gen) port() string {
	pr := rt.Pick(g.h, []string{"~", "TCP", "TCP", "UDP", "SCTP"})
	if g.bad && g.h.Chance(0.15) {
		pr = rt.Pick(g.h, []string{"tcp", "ICMP", "EMPTY", "Udp", "6"})
	}
	pv, en := "~", "~"
	switch g.h.Intn(6) {
	case 0:
	case 1:
		pv = "s" + rt.Pick(g.h, namePool)
		if g.bad && g.h.Chance(0.2) {
			pv = rt.Pick(g.h, []string{"s80", "s80:90", "sHTTP", "sa_b", "s"})
		}
	case 2:
		a := rt.Pick(g.h, []int{1, 80, 81, 82, 100, 8080, 65535, 53})
		b := a + g.h.Intn(4)
		if g.h.Chance(0.1) {
			b = 65535
		}
		if b > 65535 {
			b = 65535
		}
		pv, en = "i"+strconv.Itoa(a), strconv.Itoa(b)
		g.intPort = append(g.intPort, a, b)
	default:
		a := rt.Pick(g.h, []int{1, 53, 79, 80, 81, 82, 83, 84, 443, 8080, 65534, 65535})
		pv = "i" + strconv.Itoa(a)
		g.intPort = append(g.intPort, a)
	}
	if g.bad && g.h.Chance(0.2) {
		switch g.h.Intn(5) {
		case 0:
			pv, en = "i90", "80"
		case 1:
			pv = rt.Pick(g.h, []string{"i0", "i70000", "i-5", "i65536"})
		case 2:
			pv, en = "shttp", "90"
		case 3:
			pv, en = "~", "90"
		default:
			pv, en = rt.Pick(g.h, []string{"i80", "i-5"}), rt.Pick(g.h, []string{"-1", "70000", "0"})
		}
	}
	return pr + "/" + pv + "/" + en
}

func (g *gen) rules() string {
	n := g.h.Intn(4)
	var rs []string
	for i := 0; i < n; i++ {
		np := g.h.Intn(4)
		var ps []string
		for j := 0; j < np; j++ {
			ps = append(ps, g.peer())
		}
		nq := g.h.Intn(5)
		if g.h.Chance(0.3) {
			nq = 0
		}
		var qs []string
		for j := 0; j < nq; j++ {
			qs = append(qs, g.port())
		}
		pe, po := "_", "_"
		if len(ps) > 0 {
			pe = strings.Join(ps, "&")
		}
		if len(qs) > 0 {
			po = strings.Join(qs, "&")
		}
		rs = append(rs, pe+"@"+po)
	}
	if len(rs) == 0 {
		return "_"
	}
	return strings.Join(rs, "|")
}

func genCase(h *rt.H) []string {
	g := &gen{h: h, res: h.Chance(0.12), bad: h.Chance(0.15)}
	types := rt.Pick(h, []string{"Ingress", "Egress", "Ingress,Egress", "Egress,Ingress", "Ingress,Egress"})
	if g.bad && h.Chance(0.3) {
		types = rt.Pick(h, []string{"_", "Foo", "Ingress,Foo", "ingress"})
	}
	npNs := rt.Pick(h, nsPool)
	npSel := g.sel()
	if h.Chance(0.3) {
		npSel = "_;_"
	}
	npML := strings.Split(npSel, ";")[0]
	ops := []string{fmt.Sprintf("np %s %s %s %s %s", npNs, npSel, types, g.rules(), g.rules()), "v1"}
	for _, ns := range nsPool {
		ops = append(ops, fmt.Sprintf("ns %s %s", ns, g.labels(3)))
	}
	var ids []string
	npods := 2 + h.Intn(4)
	for i := 0; i < npods; i++ {
		id := fmt.Sprintf("p%d", i)
		ns := rt.Pick(h, nsPool)
		if i == 0 || h.Chance(0.3) {
			ns = npNs
		}
		sa := rt.Pick(h, []string{"~", "default", "sa1"})
		ip := fmt.Sprintf("4-%d", 167772160+h.Intn(300))
		if h.Chance(0.1) {
			ip = "6-338288524927261089654018896841347694593"
		}
		var pp []string
		for j := h.Intn(3); j > 0; j-- {
			port := rt.Pick(h, []int{80, 8080, 53, 81, 9090})
			pp = append(pp, fmt.Sprintf("%s:%d:%d", rt.Pick(h, namePool), rt.Pick(h, []int{6, 6, 17, 132}), port))
			g.intPort = append(g.intPort, port)
		}
		pps := "_"
		if len(pp) > 0 {
			pps = strings.Join(pp, ",")
		}
		pl := g.labels(4)
		if (i == 0 || h.Chance(0.3)) && npML != "_" && h.Chance(0.8) {
			// make the pod carry the policy's matchLabels (plus whatever else does not clash)
			have := map[string]bool{}
			for _, kv := range strings.Split(npML, ",") {
				have[strings.SplitN(kv, "=", 2)[0]] = true
			}
			m := npML
			for _, kv := range splitL(",", pl) {
				if !have[strings.SplitN(kv, "=", 2)[0]] {
					m += "," + kv
				}
			}
			pl = m
		}
		ops = append(ops, fmt.Sprintf("pod %s %s %s %s %s %s", id, ns, pl, sa, ip, pps))
		ids = append(ids, "e:"+id)
	}
	for i := h.Intn(3); i > 0; i-- {
		id := fmt.Sprintf("h%d", i)
		l := g.labels(3)
		if g.res && h.Chance(0.3) {
			l = "projectcalico.org/orchestrator=k8s,projectcalico.org/namespace=" + npNs
		}
		ops = append(ops, fmt.Sprintf("oth %s %s 4-%d", id, l, 3232235776+h.Intn(10)))
		ids = append(ids, "e:"+id)
	}
	ext := []string{"x:4-167772165", "x:4-167772300", "x:4-3232235777", "x:4-134744072", "x:6-338288524927261089654018896841347694593", "x:6-1"}
	party := func() string {
		if h.Chance(0.75) {
			return rt.Pick(h, ids)
		}
		return rt.Pick(h, ext)
	}
	if len(g.intPort) == 0 {
		g.intPort = []int{80}
	}
	nconn := 8 + h.Intn(10)
	for i := 0; i < nconn; i++ {
		dport := rt.Pick(h, g.intPort) + rt.Pick(h, []int{0, 0, 0, 1, -1})
		if dport < 0 {
			dport = 0
		}
		if dport > 65535 {
			dport = 65535
		}
		a, b := party(), party()
		if h.Chance(0.5) {
			// make "self" the first pod (which lives in the policy's namespace) more often
			if h.Bool() {
				a = ids[0]
			} else {
				b = ids[0]
			}
		}
		ops = append(ops, fmt.Sprintf("conn %s %s %s %d %d", rt.Pick(h, []string{"in", "out"}), a, b,
			rt.Pick(h, []int{6, 6, 6, 17, 132, 1}), dport))
	}
	if h.Chance(0.3) {
		var ps []string
		for i := h.Intn(6); i > 0; i-- {
			if h.Chance(0.2) {
				ps = append(ps, "n"+rt.Pick(h, namePool))
			} else {
				a := rt.Pick(h, []int{0, 1, 79, 80, 81, 82, 83, 90, 65530, 65535})
				b := a
				if h.Chance(0.4) {
					b = a + h.Intn(6)
					if b > 65535 {
						b = 65535
					}
				}
				ps = append(ps, fmt.Sprintf("%d:%d", a, b))
			}
		}
		if len(ps) == 0 {
			ops = append(ops, "simp _")
		} else {
			ops = append(ops, "simp "+strings.Join(ps, ","))
		}
	}
	return ops
}

func main() {
	h := rt.New()
	defer h.Close()
	h.Rule = "case = one generated NetworkPolicy (pod selector, policyTypes, 0..3 ingress and egress rules, each 0..3 peers of all 4 kinds and 0..4 ports incl. named/ranged/default protocol; 15% of cases carry API-invalid fields, 12% use Calico's reserved label space) " +
		"+ 3 namespaces + 2..5 pods + 0..2 non-pod endpoints + 8..17 connections (+ sometimes a raw SimplifyPorts call); distinct = distinct op sequence; non-trivial = at least one connection gets verdict allow AND at least one gets deny"
	run := func(ops []string, tag string) {
		h.Case(tag)
		s := &state{}
		seen := map[string]bool{}
		for _, op := range ops {
			if strings.HasPrefix(op, "np ") {
				curNP = op
			}
			out := exec(h, s, op)
			h.Op(op, out)
			k := strings.Fields(op)[0]
			h.Count("op:" + k)
			if k == "conn" {
				seen[strings.Fields(out)[1]] = true
			}
			if k == "np" {
				if strings.Contains(out, "UNMODELLED") {
					h.Count("np:unmodelled-field-set")
				}
				if s.valid {
					h.Count("np:k8s-valid")
				} else {
					h.Count("np:k8s-invalid")
				}
			}
		}
		if s.reserved {
			h.Count("case:reserved-label-space")
		}
		if seen["allow"] && seen["deny"] {
			h.Nontrivial(strings.Join(ops, ";"))
		}
		h.Sample()
	}
	if h.Replay != "" {
		run(h.ReplayLines(), "replay")
		return
	}
	for i := 0; i < h.N; i++ {
		run(genCase(h), "gen")
	}
}
