// STUB of felix/bpf-gpl/types.h (IPv4 build).
#ifndef __CALI_BPF_TYPES_H__
#define __CALI_BPF_TYPES_H__
typedef __be32 ipv46_addr_t;
#define DECLARE_IP_ADDR(name) ipv46_addr_t name
struct tcphdr;
struct cali_ct_cleanup_globals { __u64 stub; };
#endif
