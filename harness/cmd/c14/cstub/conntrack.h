// STUB of felix/bpf-gpl/conntrack.h: the REAL conntrack_types.h (struct layouts, ct map) plus a
// no-op connection-limit bookkeeping hook (not part of property C14).
#ifndef __CALI_CONNTRACK_H__
#define __CALI_CONNTRACK_H__
#include "conntrack_types.h"
static CALI_BPF_INLINE void qos_connlimit_decrement_for_ct(struct calico_ct_value *v) { (void)v; }
#endif
