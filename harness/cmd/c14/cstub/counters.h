// STUB of felix/bpf-gpl/counters.h: nothing needed by conntrack_cleanup.c.
