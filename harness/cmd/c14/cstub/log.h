// STUB of felix/bpf-gpl/log.h: logging compiled out.
#ifndef __CALI_LOG_H__
#define __CALI_LOG_H__
#define CALI_DEBUG(fmt, ...) do { } while (0)
#endif
