// STUB of felix/bpf-gpl/bpf.h for compiling conntrack_cleanup.c NATIVELY (verification only).
// BPF maps are array-backed; helpers are plain C.  Only what conntrack_cleanup.c and the real
// conntrack_cleanup.h / conntrack_types.h need.
#ifndef __CALI_BPF_H__
#define __CALI_BPF_H__
#include <stdint.h>
#include <string.h>
#include <stdio.h>
#include <stdlib.h>
#include <stdbool.h>
#include <linux/types.h>
#include <linux/bpf.h>

#define CALI_BPF_INLINE inline __attribute__((always_inline))
#define COMPILE_TIME_ASSERT(expr) {typedef char array[(expr) ? 1 : -1];}

struct stub_map {
	size_t ksz, vsz;
	int n, cap;
	unsigned char *keys, *vals, *live;
};

static int stub_find(struct stub_map *m, const void *key)
{
	for (int i = 0; i < m->n; i++)
		if (m->live[i] && !memcmp(m->keys + (size_t)i * m->ksz, key, m->ksz))
			return i;
	return -1;
}

static void *stub_lookup(struct stub_map *m, const void *key)
{
	int i = stub_find(m, key);
	return i < 0 ? NULL : m->vals + (size_t)i * m->vsz;
}

static int stub_update(struct stub_map *m, const void *key, const void *val)
{
	int i = stub_find(m, key);
	if (i < 0) {
		if (m->n == m->cap) {
			m->cap = m->cap ? 2 * m->cap : 64;
			m->keys = realloc(m->keys, (size_t)m->cap * m->ksz);
			m->vals = realloc(m->vals, (size_t)m->cap * m->vsz);
			m->live = realloc(m->live, (size_t)m->cap);
		}
		i = m->n++;
		memcpy(m->keys + (size_t)i * m->ksz, key, m->ksz);
		m->live[i] = 1;
	}
	memcpy(m->vals + (size_t)i * m->vsz, val, m->vsz);
	return 0;
}

static int stub_delete(struct stub_map *m, const void *key)
{
	int i = stub_find(m, key);
	if (i < 0)
		return -2; /* -ENOENT */
	m->live[i] = 0;
	return 0;
}

static void stub_clear(struct stub_map *m) { m->n = 0; }

typedef long (*stub_iter_fn)(void *map, void *key, void *value, void *ctx);

static long stub_for_each(struct stub_map *m, stub_iter_fn fn, void *ctx)
{
	long cnt = 0;
	int n = m->n; /* entries added during the walk are not visited */
	for (int i = 0; i < n; i++) {
		if (!m->live[i])
			continue;
		cnt++;
		if (fn(m, m->keys + (size_t)i * m->ksz, m->vals + (size_t)i * m->vsz, ctx))
			break;
	}
	return cnt;
}

#define STUB_CAT_(a, b) a##b
#define STUB_CAT(a, b) STUB_CAT_(a, b)

#define CALI_MAP_NAMED(name, fname, ver, map_type, key_type, val_type, size, flags)			\
static struct stub_map STUB_CAT(name, ver) = { sizeof(key_type), sizeof(val_type), 0, 0, 0, 0, 0 };	\
static CALI_BPF_INLINE void *fname##_lookup_elem(const void *key)					\
{													\
	return stub_lookup(&STUB_CAT(name, ver), key);							\
}													\
static CALI_BPF_INLINE int fname##_update_elem(const void *key, const void *value, __u64 f)		\
{													\
	(void)f;											\
	return stub_update(&STUB_CAT(name, ver), key, value);						\
}													\
static CALI_BPF_INLINE int fname##_delete_elem(const void *key)					\
{													\
	return stub_delete(&STUB_CAT(name, ver), key);							\
}

#define bpf_for_each_map_elem(map, fn, ctx, flags) stub_for_each((map), (stub_iter_fn)(fn), (ctx))

/* the "packet" the program reads its arguments from / writes its result to */
static unsigned char stub_skb_data[256];
static __u64 stub_ktime;

static int bpf_skb_load_bytes(const void *skb, __u32 off, void *to, __u32 len)
{
	(void)skb;
	memcpy(to, stub_skb_data + off, len);
	return 0;
}

static int bpf_skb_store_bytes(void *skb, __u32 off, const void *from, __u32 len, __u64 flags)
{
	(void)skb; (void)flags;
	memcpy(stub_skb_data + off, from, len);
	return 0;
}

static __u64 bpf_ktime_get_ns(void) { return stub_ktime; }

#endif /* __CALI_BPF_H__ */
