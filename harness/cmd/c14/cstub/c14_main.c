// Native driver around the REAL felix/bpf-gpl/conntrack_cleanup.c (verification only).
// stdin protocol (one command per line, hex = raw struct bytes as written by the Go side):
//   reset                 empty both maps
//   ct <keyhex> <valhex>  insert a conntrack entry
//   ccq <keyhex> <valhex> insert a cleanup-queue entry
//   run <now>             run conntrack_cleanup(); prints "cleaned <n>", then the surviving
//                         "ct <keyhex> <valhex>" and "ccq <keyhex>" lines, then "end"
#include "conntrack_cleanup.c"

static int unhex(const char *s, unsigned char *out, size_t want)
{
	size_t n = strlen(s);
	if (n != 2 * want)
		return -1;
	for (size_t i = 0; i < want; i++) {
		unsigned v;
		if (sscanf(s + 2 * i, "%2x", &v) != 1)
			return -1;
		out[i] = (unsigned char)v;
	}
	return 0;
}

static void puthex(const unsigned char *b, size_t n)
{
	for (size_t i = 0; i < n; i++)
		printf("%02x", b[i]);
}

int main(void)
{
	static char line[4096], a[2048], b[2048];
	struct calico_ct_key k;
	struct calico_ct_value v;
	struct cali_ccq_value q;
	while (fgets(line, sizeof(line), stdin)) {
		if (!strncmp(line, "reset", 5)) {
			stub_clear(&CT_MAP_V);
			stub_clear(&CCQ_MAP_V);
		} else if (sscanf(line, "ct %2047s %2047s", a, b) == 2) {
			if (unhex(a, (unsigned char *)&k, sizeof(k)) || unhex(b, (unsigned char *)&v, sizeof(v))) {
				printf("error bad ct sizes (key %zu value %zu)\n", sizeof(k), sizeof(v));
				fflush(stdout);
				return 2;
			}
			stub_update(&CT_MAP_V, &k, &v);
		} else if (sscanf(line, "ccq %2047s %2047s", a, b) == 2) {
			if (unhex(a, (unsigned char *)&k, sizeof(k)) || unhex(b, (unsigned char *)&q, sizeof(q))) {
				printf("error bad ccq sizes (key %zu value %zu)\n", sizeof(k), sizeof(q));
				fflush(stdout);
				return 2;
			}
			stub_update(&CCQ_MAP_V, &k, &q);
		} else if (!strncmp(line, "run", 3)) {
			unsigned long long now = 0;
			sscanf(line, "run %llu", &now);
			struct ct_iter_ctx ictx = { .now = now };
			memset(stub_skb_data, 0, sizeof(stub_skb_data));
			memcpy(stub_skb_data, &ictx, sizeof(ictx));
			stub_ktime = now;
			conntrack_cleanup((struct __sk_buff *)stub_skb_data);
			memcpy(&ictx, stub_skb_data, sizeof(ictx));
			printf("cleaned %llu\n", (unsigned long long)ictx.num_cleaned);
			for (int i = 0; i < CT_MAP_V.n; i++) {
				if (!CT_MAP_V.live[i])
					continue;
				printf("ct ");
				puthex(CT_MAP_V.keys + (size_t)i * CT_MAP_V.ksz, CT_MAP_V.ksz);
				printf(" ");
				puthex(CT_MAP_V.vals + (size_t)i * CT_MAP_V.vsz, CT_MAP_V.vsz);
				printf("\n");
			}
			for (int i = 0; i < CCQ_MAP_V.n; i++) {
				if (!CCQ_MAP_V.live[i])
					continue;
				printf("ccq ");
				puthex(CCQ_MAP_V.keys + (size_t)i * CCQ_MAP_V.ksz, CCQ_MAP_V.ksz);
				printf("\n");
			}
			printf("end\n");
			fflush(stdout);
		}
	}
	return 0;
}
