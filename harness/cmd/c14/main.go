// C14 correspondence harness.
//
// Go side: the REAL conntrack.Scanner + LivenessScanner (time shim) over in-memory maps.
// Kernel side: the REAL felix/bpf-gpl/conntrack_cleanup.c, compiled NATIVELY at start-up with clang
// against the stub headers in cmd/c14/cstub (array-backed maps) and driven over a pipe; it is
// plugged into the Scanner as its conntrack.Cleaner.
//
// Between the scanner's judgement and the cleaner's run the harness injects packets (refreshing
// last_seen), which is the race the property is about.
package main

import (
	"bufio"
	"encoding/hex"
	"fmt"
	"io"
	"net"
	"os"
	"os/exec"
	"path/filepath"
	"sort"
	"strconv"
	"strings"
	"time"

	"github.com/projectcalico/calico/felix/bpf/conntrack"
	"github.com/projectcalico/calico/felix/bpf/conntrack/timeouts"
	v4 "github.com/projectcalico/calico/felix/bpf/conntrack/v4"
	"github.com/projectcalico/calico/felix/bpf/maps"
	"github.com/projectcalico/calico/felix/bpf/mock"
	"github.com/projectcalico/calico/felix/timeshim"

	"verif/harness/rt"
)

// ---------------------------------------------------------------- native C cleaner

type cproc struct {
	cmd *exec.Cmd
	in  io.WriteCloser
	out *bufio.Reader
}

func must(err error) {
	if err != nil {
		panic(err)
	}
}

// buildCleaner compiles $VERIF_REPO/felix/bpf-gpl/conntrack_cleanup.c natively.  The real .c file and
// the real conntrack_cleanup.h / conntrack_types.h are copied next to the stub headers so that the
// quoted #includes resolve to the stubs for everything else.
func buildCleaner(outDir string) *cproc {
	repo := os.Getenv("VERIF_REPO")
	if repo == "" {
		repo = "/repo"
	}
	stub, err := filepath.Abs("cmd/c14/cstub")
	must(err)
	if _, err := os.Stat(stub); err != nil {
		stub = "/verif/harness/cmd/c14/cstub"
	}
	bd := filepath.Join(outDir, "cbuild")
	must(os.RemoveAll(bd))
	must(os.MkdirAll(bd, 0o755))
	cp := func(src, name string) {
		b, err := os.ReadFile(src)
		must(err)
		must(os.WriteFile(filepath.Join(bd, name), b, 0o644))
	}
	ents, err := os.ReadDir(stub)
	must(err)
	for _, e := range ents {
		cp(filepath.Join(stub, e.Name()), e.Name())
	}
	for _, f := range []string{"conntrack_cleanup.c", "conntrack_cleanup.h", "conntrack_types.h"} {
		cp(filepath.Join(repo, "felix", "bpf-gpl", f), f)
	}
	cc := exec.Command("clang", "-O1", "-Wno-unused-function", "-o", "cleaner", "c14_main.c")
	cc.Dir = bd
	if o, err := cc.CombinedOutput(); err != nil {
		panic("conntrack_cleanup.c no longer compiles natively against the stub headers:\n" + string(o))
	}
	p := &cproc{cmd: exec.Command(filepath.Join(bd, "cleaner"))}
	p.in, err = p.cmd.StdinPipe()
	must(err)
	so, err := p.cmd.StdoutPipe()
	must(err)
	p.out = bufio.NewReaderSize(so, 1<<20)
	must(p.cmd.Start())
	return p
}

// run loads both maps into the C program, runs conntrack_cleanup() and returns the surviving
// conntrack entries, surviving queue keys and the program's own count of cleaned entries.
func (p *cproc) run(ct, ccq map[string]string, now uint64) (map[string]string, map[string]bool, uint64) {
	var sb strings.Builder
	sb.WriteString("reset\n")
	for _, k := range sortedKeys(ct) {
		fmt.Fprintf(&sb, "ct %s %s\n", hex.EncodeToString([]byte(k)), hex.EncodeToString([]byte(ct[k])))
	}
	for _, k := range sortedByTuple(ccq) { // the C stub map iterates in insertion order = key-tuple order
		fmt.Fprintf(&sb, "ccq %s %s\n", hex.EncodeToString([]byte(k)), hex.EncodeToString([]byte(ccq[k])))
	}
	fmt.Fprintf(&sb, "run %d\n", now)
	_, err := io.WriteString(p.in, sb.String())
	must(err)
	outCT := map[string]string{}
	outQ := map[string]bool{}
	var cleaned uint64
	for {
		l, err := p.out.ReadString('\n')
		must(err)
		w := strings.Fields(l)
		switch w[0] {
		case "cleaned":
			cleaned, _ = strconv.ParseUint(w[1], 10, 64)
		case "ct":
			k, _ := hex.DecodeString(w[1])
			v, _ := hex.DecodeString(w[2])
			outCT[string(k)] = string(v)
		case "ccq":
			k, _ := hex.DecodeString(w[1])
			outQ[string(k)] = true
		case "end":
			return outCT, outQ, cleaned
		default:
			panic("C cleaner said: " + l)
		}
	}
}

func sortedKeys(m map[string]string) []string {
	ks := make([]string, 0, len(m))
	for k := range m {
		ks = append(ks, k)
	}
	sort.Strings(ks)
	return ks
}

// ---------------------------------------------------------------- maps, time, cleaner plumbing

func sortedByTuple(m map[string]string) []string {
	ks := make([]string, 0, len(m))
	for k := range m {
		ks = append(ks, k)
	}
	sort.Slice(ks, func(i, j int) bool { return decKey([]byte(ks[i])).less(decKey([]byte(ks[j]))) })
	return ks
}

type kt struct{ p, a, pa, b, pb uint32 }

func (k kt) String() string { return fmt.Sprintf("%d:%d:%d:%d:%d", k.p, k.a, k.pa, k.b, k.pb) }
func (k kt) less(o kt) bool {
	x := [5]uint32{k.p, k.a, k.pa, k.b, k.pb}
	y := [5]uint32{o.p, o.a, o.pa, o.b, o.pb}
	for i := range x {
		if x[i] != y[i] {
			return x[i] < y[i]
		}
	}
	return false
}

func u2ip(a uint32) net.IP { return net.IPv4(byte(a>>24), byte(a>>16), byte(a>>8), byte(a)).To4() }
func ip2u(b net.IP) uint32 {
	b = b.To4()
	return uint32(b[0])<<24 | uint32(b[1])<<16 | uint32(b[2])<<8 | uint32(b[3])
}
func (k kt) key() conntrack.Key {
	return conntrack.NewKey(uint8(k.p), u2ip(k.a), uint16(k.pa), u2ip(k.b), uint16(k.pb))
}
func decKey(b []byte) kt {
	k := conntrack.KeyFromBytes(b)
	return kt{uint32(k.Proto()), ip2u(k.AddrA()), uint32(k.PortA()), ip2u(k.AddrB()), uint32(k.PortB())}
}

// ctMap is the mock conntrack map with a DETERMINISTIC iteration order (by key tuple).
type ctMap struct {
	*mock.Map
}

func (m *ctMap) Iter(f maps.IterCallback) error {
	type kv struct {
		k    kt
		b, v string
	}
	var all []kv
	for k, v := range m.Contents {
		all = append(all, kv{decKey([]byte(k)), k, v})
	}
	sort.Slice(all, func(i, j int) bool { return all[i].k.less(all[j].k) })
	for _, e := range all {
		if f([]byte(e.b), []byte(e.v)) == maps.IterDelete {
			delete(m.Contents, e.b)
		}
	}
	return nil
}

type shim struct {
	timeshim.Interface
	ktime int64
}

func (s *shim) KTimeNanos() int64               { return s.ktime }
func (s *shim) Now() time.Time                  { return time.Unix(0, s.ktime) }
func (s *shim) Since(t time.Time) time.Duration { return time.Unix(0, s.ktime).Sub(t) }

type hitT struct {
	k     kt
	t     uint64
	renew bool   // a NEW connection re-using the forward tuple, NATted to backend rb
	rb    uint32
}

type state struct {
	h    *rt.H
	c    *cproc
	to   timeouts.Timeouts
	ct   *ctMap
	ccq  *mock.Map
	hits []hitT
	now  uint64
	// recorded by the cleaner for the output / oracle
	queue []string
	runs  int
}

// Run is conntrack.Cleaner.Run: packets arrive, then the REAL C program runs over the real queue.
func (s *state) Run(opts ...conntrack.RunOpt) (*conntrack.CleanupContext, error) {
	if s.runs == 0 {
		for _, h := range s.hits {
			if h.renew {
				rk := kt{h.k.p, h.k.a, h.k.pa, h.rb, 8080}
				s.ct.Contents[string(h.k.key().AsBytes())] = string(mkValue(1, h.t, 0, 0, rk).AsBytes())
				s.ct.Contents[string(rk.key().AsBytes())] = string(mkValue(2, h.t, 0, 0, kt{}).AsBytes())
			} else {
				s.packet(h.k, h.t)
			}
		}
	}
	s.runs++
	for k, v := range s.ccq.Contents {
		q := conntrack.CleanupValueFromBytes([]byte(v))
		s.queue = append(s.queue, fmt.Sprintf("%v=%v,%d,%d", decKey([]byte(k)), decKey(q.OtherNATKey().AsBytes()), q.Timestamp(), q.RevTimestamp()))
	}
	outCT, outQ, cleaned := s.c.run(s.ct.Contents, s.ccq.Contents, s.now)
	for k := range s.ct.Contents {
		if _, ok := outCT[k]; !ok {
			delete(s.ct.Contents, k)
		}
	}
	for k := range s.ccq.Contents {
		if !outQ[k] {
			delete(s.ccq.Contents, k)
		}
	}
	return &conntrack.CleanupContext{NumKVsCleaned: cleaned}, nil
}

func (s *state) Close() error { return nil }

// packet models one packet of the flow: it refreshes last_seen of the entry it hits; a packet hitting
// a NAT forward entry also refreshes the reverse (tracking) entry, as calico_ct_lookup does.
func (s *state) packet(k kt, t uint64) {
	kb := string(k.key().AsBytes())
	vb, ok := s.ct.Contents[kb]
	if !ok {
		return
	}
	v := conntrack.ValueFromBytes([]byte(vb)).(conntrack.Value)
	setLS := func(v conntrack.Value, t uint64) string {
		b := append([]byte(nil), v.AsBytes()...)
		for i := 0; i < 8; i++ {
			b[v4.VoLastSeen+i] = byte(t >> (8 * i))
		}
		return string(b)
	}
	if v.Type() == conntrack.TypeNATForward {
		rk := string(v.ReverseNATKey().AsBytes())
		rb, ok := s.ct.Contents[rk]
		if !ok {
			delete(s.ct.Contents, kb)
			return
		}
		s.ct.Contents[kb] = setLS(v, t)
		s.ct.Contents[rk] = setLS(conntrack.ValueFromBytes([]byte(rb)).(conntrack.Value), t)
		return
	}
	s.ct.Contents[kb] = setLS(v, t)
}

// ---------------------------------------------------------------- ops

func u(s string) uint64 {
	n, err := strconv.ParseUint(s, 10, 64)
	if err != nil {
		panic("bad number " + s)
	}
	return n
}

func keyOf(w []string) kt {
	return kt{uint32(u(w[0])), uint32(u(w[1])), uint32(u(w[2])), uint32(u(w[3])), uint32(u(w[4]))}
}

func mkValue(typ, ls, rstTs, bits uint64, rk kt) conntrack.Value {
	var a, b conntrack.Leg
	if bits&1 != 0 {
		a.SynSeen, a.AckSeen, b.SynSeen, b.AckSeen = true, true, true, true
	} else {
		a.SynSeen = true
	}
	if bits&2 != 0 {
		a.FinSeen, b.FinSeen = true, true
	} else if bits&4 != 0 {
		a.FinSeen = true
	}
	if bits&8 != 0 {
		b.RstSeen = true
	}
	flags := uint32(0)
	if bits&16 != 0 {
		flags |= v4.FlagNATFwdDsr
	}
	var v conntrack.Value
	switch typ {
	case 0:
		v = conntrack.NewValueNormal(time.Duration(ls), flags, a, b)
	case 1:
		v = conntrack.NewValueNATForward(time.Duration(ls), flags, rk.key())
	default:
		v = conntrack.NewValueNATReverse(time.Duration(ls), flags, a, b, net.IPv4(0, 0, 0, 0), net.IPv4(10, 96, 0, 1), 80)
	}
	for i := 0; i < 8; i++ {
		v[v4.VoRSTSeen+i] = byte(rstTs >> (8 * i))
	}
	return v
}

// idleExpired is the PROPERTY's notion of "idle longer than the timeout for its protocol and state",
// written independently of conntrack.entryDone: idle = now - last_seen; the timeouts that apply are
// read off the timeouts table from the protocol and the TCP state bits.  Returns whether the entry is
// idle past at least one applicable timeout, and the smallest applicable timeout.
func idleExpired(to timeouts.Timeouts, now int64, proto uint8, v conntrack.ValueInterface) (bool, time.Duration, time.Duration) {
	idle := time.Duration(now - v.LastSeen())
	var app []time.Duration
	switch proto {
	case 6:
		d := v.Data()
		dsr := v.IsForwardDSR()
		if d.A2B.RstSeen || d.B2A.RstSeen {
			app = append(app, to.TCPResetSeen)
		}
		if (d.A2B.FinSeen && d.B2A.FinSeen) || (dsr && (d.A2B.FinSeen || d.B2A.FinSeen)) {
			app = append(app, to.TCPFinsSeen)
		}
		if (d.A2B.SynSeen && d.A2B.AckSeen && d.B2A.SynSeen && d.B2A.AckSeen) || dsr {
			app = append(app, to.TCPEstablished)
			if v.RSTSeen() != 0 {
				app = append(app, 2*time.Minute)
			}
		} else {
			app = append(app, to.TCPSynSent)
		}
	case 1, 58:
		app = append(app, to.ICMPTimeout)
	case 17:
		app = append(app, to.UDPTimeout)
	default:
		app = append(app, to.GenericTimeout)
	}
	min := app[0]
	for _, t := range app {
		if t < min {
			min = t
		}
	}
	return idle > min, idle, min
}

// judged compares the REAL EntryExpired with the property's notion: the scanner must never judge an
// entry expired while it has not been idle longer than any timeout that applies to it.
func judged(h *rt.H, s *state, op string, k kt, now int64, v conntrack.ValueInterface) (real, spec bool) {
	_, real = conntrack.EntryExpired(s.to, now, uint8(k.p), v)
	spec, idle, min := idleExpired(s.to, now, uint8(k.p), v)
	if v.Type() != conntrack.TypeNATForward && real && !spec {
		h.OracleFail("expired-while-not-idle", fmt.Sprintf("EntryExpired judges an entry expired that was idle for %v only; the smallest timeout that applies to its protocol/state is %v", idle, min),
			map[string]any{"op": op, "key": k.String(), "now": now, "last_seen": v.LastSeen(), "rst_seen": v.RSTSeen(), "idle_ns": int64(idle), "min_timeout_ns": int64(min)})
	}
	return real, spec
}

type before struct {
	typ     uint8
	expired bool // idle past an applicable timeout at the scan's time (the property's notion, see idleExpired)
	rev     kt
	ls      int64
}

func exec2(h *rt.H, s *state, op string) string {
	w := strings.Fields(op)
	switch w[0] {
	case "reset":
		s.to = timeouts.Timeouts{TCPSynSent: time.Duration(u(w[1])), TCPEstablished: time.Duration(u(w[2])), TCPFinsSeen: time.Duration(u(w[3])),
			TCPResetSeen: time.Duration(u(w[4])), UDPTimeout: time.Duration(u(w[5])), GenericTimeout: time.Duration(u(w[6])), ICMPTimeout: time.Duration(u(w[7]))}
		s.ct = &ctMap{mock.NewMockMap(conntrack.MapParams)}
		s.ccq = mock.NewMockMap(conntrack.MapParamsCleanup)
		return "ok"
	case "put":
		k := keyOf(w[1:6])
		v := mkValue(u(w[6]), u(w[7]), u(w[8]), u(w[9]), keyOf(w[10:15]))
		s.ct.Contents[string(k.key().AsBytes())] = string(v.AsBytes())
		return "ok"
	case "del":
		delete(s.ct.Contents, string(keyOf(w[1:6]).key().AsBytes()))
		return "ok"
	case "exp":
		k := keyOf(w[2:7])
		vb, ok := s.ct.Contents[string(k.key().AsBytes())]
		if !ok {
			return "none"
		}
		e, _ := judged(h, s, op, k, int64(u(w[1])), conntrack.ValueFromBytes([]byte(vb)))
		h.Count(fmt.Sprintf("exp:%v", e))
		if e {
			return "1"
		}
		return "0"
	case "scan":
		s.now = u(w[1])
		s.hits = nil
		hit := map[kt]bool{}
		renewed := map[kt]bool{}
		for _, x := range w[2:] {
			p := strings.Split(x, ":")
			k := keyOf(p[1:6])
			if p[0] == "n" {
				s.hits = append(s.hits, hitT{k: k, t: u(p[6]), renew: true, rb: uint32(u(p[7]))})
				renewed[k] = true
				hit[kt{k.p, k.a, k.pa, uint32(u(p[7])), 8080}] = true // the new connection's reverse entry is (re)written
			} else {
				s.hits = append(s.hits, hitT{k: k, t: u(p[6])})
			}
			hit[k] = true
		}
		// what the maps look like when the scan starts (for the oracle)
		pre := map[kt]before{}
		for kb, vb := range s.ct.Contents {
			k := decKey([]byte(kb))
			v := conntrack.ValueFromBytes([]byte(vb))
			_, e := judged(h, s, op, k, int64(s.now), v)
			b := before{typ: v.Type(), expired: e, ls: v.LastSeen()}
			if v.Type() == conntrack.TypeNATForward {
				b.rev = decKey(v.ReverseNATKey().AsBytes())
			}
			pre[k] = b
		}
		s.queue, s.runs = nil, 0
		ls := conntrack.NewLivenessScanner(s.to, false, conntrack.WithTimeShim(&shim{ktime: int64(s.now)}))
		sc := conntrack.NewScanner(s.ct, conntrack.KeyFromBytes, conntrack.ValueFromBytes, nil, "Disabled", s.ccq, 4, s, ls)
		sc.Scan()
		// ---- the property's oracle on the real code
		post := map[kt]bool{}
		var cs []string
		for kb, vb := range s.ct.Contents {
			k := decKey([]byte(kb))
			post[k] = true
			cs = append(cs, fmt.Sprintf("%v=%d", k, conntrack.ValueFromBytes([]byte(vb)).LastSeen()))
		}
		fwdOf := map[kt][]kt{}
		for k, b := range pre {
			if b.typ == conntrack.TypeNATForward {
				fwdOf[b.rev] = append(fwdOf[b.rev], k)
			}
		}
		for k, b := range pre {
			if post[k] {
				// liveness: an idle, expired normal / reverse entry that saw no packet must be gone
				if b.typ != conntrack.TypeNATForward && b.expired && !hit[k] {
					touched := false
					for _, f := range fwdOf[k] {
						touched = touched || hit[f]
					}
					if !touched {
						h.OracleFail("expired-not-removed", "an entry idle past its timeout and not refreshed survived scan + clean",
							map[string]any{"op": op, "key": k.String()})
					}
				}
				continue
			}
			h.Count("scan:deleted")
			if renewed[k] {
				h.OracleFail("deleted-new-connection", "the forward entry of a connection created AFTER the judgement was removed",
					map[string]any{"op": op, "key": k.String()})
				continue
			}
			// safety: a removed entry (or its NAT pair) was judged idle past its timeout and carried no traffic since
			switch b.typ {
			case conntrack.TypeNATForward:
				rb, rok := pre[b.rev]
				if hit[k] && rok { // a forward packet refreshes both entries (with no reverse entry the packet itself deletes it)
					h.OracleFail("deleted-live-fwd-hit", "forward NAT entry removed although a packet hit it after the judgement",
						map[string]any{"op": op, "key": k.String()})
				} else if rok && !rb.expired {
					h.OracleFail("deleted-unexpired-pair", "forward NAT entry removed although its reverse entry was not idle past its timeout",
						map[string]any{"op": op, "key": k.String()})
				} else if rok && hit[b.rev] && post[b.rev] {
					// The known finding is EXACTLY: forward and reverse entry carried the same last_seen at the scan
					// (Lean: GapCase).  Any other removal of a forward entry of a live pair gets its own signature
					// and is therefore still an alarm.
					sig := "deleted-fwd-of-live-pair"
					if rb.ls != b.ls {
						sig = "deleted-fwd-of-live-pair-unexplained"
					}
					h.OracleFail(sig, "forward NAT entry removed although the connection carried (return) traffic after the judgement; its reverse entry survives",
						map[string]any{"op": op, "fwd": k.String(), "rev": b.rev.String(), "fwd_last_seen": b.ls, "rev_last_seen": rb.ls})
				}
			default:
				if !b.expired {
					h.OracleFail("deleted-unexpired", "entry removed although it was not idle past its timeout when judged",
						map[string]any{"op": op, "key": k.String()})
				} else if hit[k] {
					h.OracleFail("deleted-live", "entry removed although a packet refreshed it after the judgement",
						map[string]any{"op": op, "key": k.String()})
				} else {
					for _, f := range fwdOf[k] {
						if hit[f] && !renewed[f] {
							h.OracleFail("deleted-live", "reverse NAT entry removed although a forward packet refreshed it after the judgement",
								map[string]any{"op": op, "key": k.String()})
						}
					}
				}
			}
		}
		sort.Strings(cs)
		q := append([]string(nil), s.queue...)
		sort.Strings(q)
		h.Count(fmt.Sprintf("scan:queue:%s", bucket(len(q))))
		if s.runs != 1 {
			h.Count("scan:cleaner-runs!=1")
		}
		return "Q[" + strings.Join(q, ";") + "]|CT[" + strings.Join(cs, ";") + "]"
	}
	panic("unknown op " + op)
}

func bucket(n int) string {
	switch {
	case n == 0:
		return "0"
	case n < 4:
		return "1-3"
	default:
		return "4+"
	}
}

// ---------------------------------------------------------------- generator

const sec = uint64(1000000000)

func genCase(h *rt.H) []string {
	to := []uint64{20 * sec, 3600 * sec, 30 * sec, 40 * sec, 60 * sec, 600 * sec, 5 * sec}
	if h.Chance(0.3) {
		for i := range to {
			to[i] = uint64(1+h.Intn(100)) * sec
		}
	}
	ops := []string{fmt.Sprintf("reset %d %d %d %d %d %d %d", to[0], to[1], to[2], to[3], to[4], to[5], to[6])}
	now := 10000*sec + uint64(h.Intn(1000))
	protos := []uint32{6, 6, 6, 17, 1, 132}
	type ent struct {
		k   kt
		typ int
		rev kt
	}
	var ents []ent
	newKey := func(p uint32) kt {
		return kt{p, 0x0A000000 + uint32(1+h.Intn(6)), uint32(1000 + h.Intn(4)), 0x0A000100 + uint32(1+h.Intn(6)), uint32(80 + h.Intn(3))}
	}
	// last_seen chosen around the relevant timeout boundary
	pickLS := func(p uint32) uint64 {
		var cands []uint64
		switch p {
		case 6:
			cands = []uint64{to[0], to[1], to[2], to[3], 120 * sec}
		case 17:
			cands = []uint64{to[4]}
		case 1:
			cands = []uint64{to[6]}
		default:
			cands = []uint64{to[5]}
		}
		T := rt.Pick(h, cands)
		switch h.Intn(6) {
		case 0:
			return now - T // exactly at the boundary: not expired
		case 1:
			return now - T - 1 // just past
		case 2:
			return now - T + 1
		case 3:
			return now - uint64(h.Intn(5))*sec
		default:
			return now - T - uint64(1+h.Intn(100))*sec
		}
	}
	put := func(k kt, typ int, ls uint64, bits int, rk kt) {
		rst := uint64(0)
		if h.Chance(0.15) {
			rst = ls - 1
		}
		if k.p == 6 && typ != 1 && (bits&1 != 0 || bits&16 != 0) && h.Chance(0.25) {
			// an old, ignored RST (more than 2 minutes ago, or right at that boundary) on a connection that
			// carried traffic a moment ago
			rst = now - 120*sec - rt.Pick(h, []uint64{0, 1, uint64(1+h.Intn(300)) * sec})
			if h.Chance(0.7) {
				ls = now - uint64(h.Intn(5))*sec - uint64(h.Intn(1000))
			}
		}
		ops = append(ops, fmt.Sprintf("put %d %d %d %d %d %d %d %d %d %d %d %d %d %d", k.p, k.a, k.pa, k.b, k.pb, typ, ls, rst, bits, rk.p, rk.a, rk.pa, rk.b, rk.pb))
		ents = append(ents, ent{k, typ, rk})
	}
	bitsFor := func() int {
		b := 0
		if h.Chance(0.6) {
			b |= 1
		}
		switch h.Intn(6) {
		case 0:
			b |= 2 | 4
		case 1:
			b |= 4
		}
		if h.Chance(0.15) {
			b |= 8
		}
		if h.Chance(0.15) {
			b |= 16
		}
		return b
	}
	n := 1 + h.Intn(7)
	for i := 0; i < n; i++ {
		p := rt.Pick(h, protos)
		switch h.Intn(4) {
		case 0, 1: // normal entry
			put(newKey(p), 0, pickLS(p), bitsFor(), kt{})
		default: // NAT pair (possibly incomplete)
			fk := newKey(p)
			rk := kt{p, fk.a, fk.pa, 0x0A000200 + uint32(1+h.Intn(6)), 8080}
			rls := pickLS(p)
			fls := rls
			switch h.Intn(4) {
			case 0: // the last packet went client->service: both entries carry the same time stamp
			case 1:
				fls = rls - uint64(1+h.Intn(1000)) // reply packets refreshed only the reverse entry
			case 2:
				fls = rls - uint64(1+h.Intn(50))*sec
			case 3:
				fls = rls + uint64(1+h.Intn(1000)) // created a moment after the reverse entry
			}
			switch h.Intn(8) {
			case 0: // forward only (reverse evicted by LRU)
				put(fk, 1, fls, 0, rk)
			case 1: // reverse only
				put(rk, 2, rls, bitsFor(), kt{})
			case 2: // two forward entries sharing one reverse entry
				put(fk, 1, fls, 0, rk)
				put(newKey(p), 1, fls-3, 0, rk)
				put(rk, 2, rls, bitsFor(), kt{})
			default:
				put(fk, 1, fls, 0, rk)
				put(rk, 2, rls, bitsFor(), kt{})
			}
		}
	}
	for _, e := range ents {
		if h.Chance(0.3) {
			ops = append(ops, fmt.Sprintf("exp %d %d %d %d %d %d", now, e.k.p, e.k.a, e.k.pa, e.k.b, e.k.pb))
		}
	}
	scans := 1 + h.Intn(3)
	for i := 0; i < scans; i++ {
		sop := fmt.Sprintf("scan %d", now)
		if len(ents) > 0 {
			for j, m := 0, h.Intn(3); j < m; j++ { // packets between judgement and clean-up
				e := rt.Pick(h, ents)
				if e.typ == 1 && h.Chance(0.3) { // a new connection re-uses the forward tuple and is NATted to another backend
					sop += fmt.Sprintf(" n:%d:%d:%d:%d:%d:%d:%d", e.k.p, e.k.a, e.k.pa, e.k.b, e.k.pb, now+1+uint64(h.Intn(1000)), 0x0A000300+uint32(1+h.Intn(4)))
					continue
				}
				sop += fmt.Sprintf(" h:%d:%d:%d:%d:%d:%d", e.k.p, e.k.a, e.k.pa, e.k.b, e.k.pb, now+1+uint64(h.Intn(1000)))
			}
		}
		ops = append(ops, sop)
		now += uint64(1+h.Intn(70)) * sec
	}
	return ops
}

func main() {
	h := rt.New()
	defer h.Close()
	h.Rule = "case = timeouts (defaults or random) + 1..7 conntrack entries/NAT pairs (normal, fwd+rev, fwd only, rev only, two fwd sharing a rev; " +
		"last_seen at / just past / just before the timeout that applies; TCP state bits established/FIN/RST/DSR) + EntryExpired probes + 1..3 scans, " +
		"each with 0..2 packets (or a new connection re-using a forward tuple) arriving between the scanner's judgement and the kernel cleaner; distinct = distinct op sequence; non-trivial = a scan queued at least one entry"
	s := &state{h: h}
	s.c = buildCleaner(h.OutDir)
	defer func() { s.c.in.Close(); s.c.cmd.Wait() }()
	run := func(ops []string, tag string) {
		h.Case(tag)
		s.to = timeouts.Timeouts{}
		s.ct = &ctMap{mock.NewMockMap(conntrack.MapParams)}
		s.ccq = mock.NewMockMap(conntrack.MapParamsCleanup)
		nontriv := false
		for _, op := range ops {
			out := exec2(h, s, op)
			h.Op(op, out)
			h.Count("op:" + strings.Fields(op)[0])
			if strings.HasPrefix(out, "Q[") && !strings.HasPrefix(out, "Q[]") {
				nontriv = true
			}
		}
		if nontriv {
			h.Nontrivial(strings.Join(ops, ";"))
		}
		h.Sample()
	}
	if h.Replay != "" {
		run(h.ReplayLines(), "replay")
		return
	}
	for i := 0; i < h.N; i++ {
		run(genCase(h), "gen")
	}
}
