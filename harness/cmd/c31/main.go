// C31 correspondence harness: drives the real felix/policysync.Processor
// synchronously (through the verif export hook) with buffered output channels.
//
// Every id in the op language is a small natural number; the tables below map
// them to the repo's ID types and back.
package main

import (
	"fmt"
	"sort"
	"strconv"
	"strings"

	"github.com/projectcalico/calico/felix/policysync"
	"github.com/projectcalico/calico/felix/proto"
	"github.com/projectcalico/calico/felix/types"

	"verif/harness/rt"
)

// ---- id tables ---------------------------------------------------------------

func wlID(w int) *proto.WorkloadEndpointID {
	return &proto.WorkloadEndpointID{OrchestratorId: "k8s", WorkloadId: fmt.Sprintf("ns/w%d", w), EndpointId: "eth0"}
}
func wlIDT(w int) types.WorkloadEndpointID { return types.ProtoToWorkloadEndpointID(wlID(w)) }
func wlNum(id *proto.WorkloadEndpointID) int {
	if id.GetOrchestratorId() != "k8s" || id.GetEndpointId() != "eth0" {
		return -1
	}
	return num(id.GetWorkloadId(), "ns/w")
}

var polVariants = []struct{ ns, kind string }{
	{"", "GlobalNetworkPolicy"}, {"nsa", "NetworkPolicy"}, {"nsa", "StagedNetworkPolicy"},
}

// policy ids 3k, 3k+1, 3k+2 share the Name and differ only in Namespace/Kind.
func polID(k int) *proto.PolicyID {
	v := polVariants[k%3]
	return &proto.PolicyID{Name: fmt.Sprintf("p%d", k/3), Namespace: v.ns, Kind: v.kind}
}
func polNum(name, ns, kind string) int {
	n := num(name, "p")
	for i, v := range polVariants {
		if v.ns == ns && v.kind == kind {
			return n*3 + i
		}
	}
	return -1
}
func profName(k int) string { return fmt.Sprintf("prof%d", k) }
func ipName(k int) string   { return fmt.Sprintf("s%d", k) }
func saID(k int) *proto.ServiceAccountID {
	return &proto.ServiceAccountID{Namespace: fmt.Sprintf("ns%d", k/2), Name: fmt.Sprintf("sa%d", k%2)}
}
func saNum(ns, name string) int { return num(ns, "ns")*2 + num(name, "sa") }
func nsID(k int) *proto.NamespaceID { return &proto.NamespaceID{Name: fmt.Sprintf("ns%d", k)} }

func num(s, prefix string) int {
	if !strings.HasPrefix(s, prefix) {
		return -1
	}
	n, err := strconv.Atoi(s[len(prefix):])
	if err != nil {
		return -1
	}
	return n
}

func ipType(id int) proto.IPSetUpdate_IPSetType {
	switch id % 3 {
	case 0:
		return proto.IPSetUpdate_IP
	case 1:
		return proto.IPSetUpdate_IP_AND_PORT
	}
	return proto.IPSetUpdate_NET
}
func ipTypeNum(t proto.IPSetUpdate_IPSetType) int {
	switch t {
	case proto.IPSetUpdate_IP:
		return 0
	case proto.IPSetUpdate_IP_AND_PORT:
		return 1
	case proto.IPSetUpdate_NET:
		return 2
	}
	return -1
}

// member m of an IP set of type t, as a canonical member string
func member(t, m int) string {
	switch t {
	case 0:
		return fmt.Sprintf("10.0.0.%d", m)
	case 1:
		return fmt.Sprintf("10.0.0.%d,tcp:80", m)
	}
	return fmt.Sprintf("10.0.%d.0/24", m)
}

var memberNum = map[string]int{}

func init() {
	for t := 0; t < 3; t++ {
		for m := 0; m < 256; m++ {
			memberNum[member(t, m)] = m
		}
	}
}
func memNum(s string) int {
	if n, ok := memberNum[s]; ok {
		return n
	}
	return -1
}

// ---- op-language parsing / printing ------------------------------------------

func parseList(sep, s string) []int {
	if s == "-" {
		return nil
	}
	var out []int
	for _, w := range strings.Split(s, sep) {
		n, err := strconv.Atoi(w)
		if err != nil {
			panic("bad list " + s)
		}
		out = append(out, n)
	}
	return out
}
func showList(sep string, xs []int) string {
	if len(xs) == 0 {
		return "-"
	}
	ss := make([]string, len(xs))
	for i, x := range xs {
		ss[i] = strconv.Itoa(x)
	}
	return strings.Join(ss, sep)
}

type tier struct {
	name    int
	ing, eg []int
}

func parseTiers(s string) []tier {
	if s == "-" {
		return nil
	}
	var out []tier
	for _, t := range strings.Split(s, ";") {
		p := strings.Split(t, "/")
		n, _ := strconv.Atoi(p[0])
		out = append(out, tier{n, parseList(".", p[1]), parseList(".", p[2])})
	}
	return out
}
func showTiers(ts []tier) string {
	if len(ts) == 0 {
		return "-"
	}
	var ss []string
	for _, t := range ts {
		ss = append(ss, fmt.Sprintf("%d/%s/%s", t.name, showList(".", t.ing), showList(".", t.eg)))
	}
	return strings.Join(ss, ";")
}

type rule struct {
	tag  int
	refs [][2]int // (field, ipset id), ascending field
}

func parseRules(s string) []rule {
	if s == "-" {
		return nil
	}
	var out []rule
	for _, r := range strings.Split(s, ";") {
		p := strings.Split(r, "=")
		t, _ := strconv.Atoi(p[0])
		ru := rule{tag: t}
		if p[1] != "-" {
			for _, pr := range strings.Split(p[1], ",") {
				q := strings.Split(pr, ".")
				f, _ := strconv.Atoi(q[0])
				i, _ := strconv.Atoi(q[1])
				ru.refs = append(ru.refs, [2]int{f, i})
			}
		}
		out = append(out, ru)
	}
	return out
}
func showRules(rs []rule) string {
	if len(rs) == 0 {
		return "-"
	}
	var ss []string
	for _, r := range rs {
		ps := "-"
		if len(r.refs) > 0 {
			var q []string
			for _, p := range r.refs {
				q = append(q, fmt.Sprintf("%d.%d", p[0], p[1]))
			}
			ps = strings.Join(q, ",")
		}
		ss = append(ss, fmt.Sprintf("%d=%s", r.tag, ps))
	}
	return strings.Join(ss, ";")
}
func rulesRefs(rs ...[]rule) []int {
	var out []int
	for _, l := range rs {
		for _, r := range l {
			for _, p := range r.refs {
				out = append(out, p[1])
			}
		}
	}
	return out
}

func ruleField(r *proto.Rule, f int) *[]string {
	switch f {
	case 0:
		return &r.SrcIpSetIds
	case 1:
		return &r.DstIpSetIds
	case 2:
		return &r.DstIpPortSetIds
	case 3:
		return &r.SrcNamedPortIpSetIds
	case 4:
		return &r.DstNamedPortIpSetIds
	case 5:
		return &r.NotSrcIpSetIds
	case 6:
		return &r.NotDstIpSetIds
	case 7:
		return &r.NotSrcNamedPortIpSetIds
	case 8:
		return &r.NotDstNamedPortIpSetIds
	}
	panic("field")
}
func toProtoRules(rs []rule) []*proto.Rule {
	var out []*proto.Rule
	for _, r := range rs {
		pr := &proto.Rule{RuleId: fmt.Sprintf("r%d", r.tag), Action: "allow"}
		for _, p := range r.refs {
			f := ruleField(pr, p[0])
			*f = append(*f, ipName(p[1]))
		}
		out = append(out, pr)
	}
	return out
}
func fromProtoRules(prs []*proto.Rule) []rule {
	var out []rule
	for _, pr := range prs {
		r := rule{tag: num(pr.GetRuleId(), "r")}
		for f := 0; f < 9; f++ {
			for _, s := range *ruleField(pr, f) {
				r.refs = append(r.refs, [2]int{f, num(s, "s")})
			}
		}
		out = append(out, r)
	}
	return out
}

func label(m map[string]string) string { return m["v"] }

// rendering of a message received on an output channel: (kind, text) — must be
// character-identical to Driver/C31.lean `showMsg`.
func showMsg(m *proto.ToDataplane) (string, string) {
	switch p := m.Payload.(type) {
	case *proto.ToDataplane_InSync:
		return "sync", "sync"
	case *proto.ToDataplane_WorkloadEndpointUpdate:
		u := p.WorkloadEndpointUpdate
		var ts []tier
		for _, t := range u.GetEndpoint().GetTiers() {
			tt := tier{name: num(t.GetName(), "t")}
			for _, q := range t.GetIngressPolicies() {
				tt.ing = append(tt.ing, polNum(q.GetName(), q.GetNamespace(), q.GetKind()))
			}
			for _, q := range t.GetEgressPolicies() {
				tt.eg = append(tt.eg, polNum(q.GetName(), q.GetNamespace(), q.GetKind()))
			}
			ts = append(ts, tt)
		}
		var ps []int
		for _, n := range u.GetEndpoint().GetProfileIds() {
			ps = append(ps, num(n, "prof"))
		}
		return "ep", fmt.Sprintf("ep:%d:%d:%s:%s", wlNum(u.GetId()), num(u.GetEndpoint().GetName(), "v"), showTiers(ts), showList(".", ps))
	case *proto.ToDataplane_WorkloadEndpointRemove:
		return "eprm", fmt.Sprintf("eprm:%d", wlNum(p.WorkloadEndpointRemove.GetId()))
	case *proto.ToDataplane_ActivePolicyUpdate:
		u := p.ActivePolicyUpdate
		return "pol", fmt.Sprintf("pol:%d:%s:%s", polNum(u.GetId().GetName(), u.GetId().GetNamespace(), u.GetId().GetKind()),
			showRules(fromProtoRules(u.GetPolicy().GetInboundRules())), showRules(fromProtoRules(u.GetPolicy().GetOutboundRules())))
	case *proto.ToDataplane_ActivePolicyRemove:
		u := p.ActivePolicyRemove
		return "polrm", fmt.Sprintf("polrm:%d", polNum(u.GetId().GetName(), u.GetId().GetNamespace(), u.GetId().GetKind()))
	case *proto.ToDataplane_ActiveProfileUpdate:
		u := p.ActiveProfileUpdate
		return "prof", fmt.Sprintf("prof:%d:%s:%s", num(u.GetId().GetName(), "prof"),
			showRules(fromProtoRules(u.GetProfile().GetInboundRules())), showRules(fromProtoRules(u.GetProfile().GetOutboundRules())))
	case *proto.ToDataplane_ActiveProfileRemove:
		return "profrm", fmt.Sprintf("profrm:%d", num(p.ActiveProfileRemove.GetId().GetName(), "prof"))
	case *proto.ToDataplane_ServiceAccountUpdate:
		u := p.ServiceAccountUpdate
		return "sa", fmt.Sprintf("sa:%d:%s", saNum(u.GetId().GetNamespace(), u.GetId().GetName()), label(u.GetLabels()))
	case *proto.ToDataplane_ServiceAccountRemove:
		u := p.ServiceAccountRemove
		return "sarm", fmt.Sprintf("sarm:%d", saNum(u.GetId().GetNamespace(), u.GetId().GetName()))
	case *proto.ToDataplane_NamespaceUpdate:
		u := p.NamespaceUpdate
		return "ns", fmt.Sprintf("ns:%d:%s", num(u.GetId().GetName(), "ns"), label(u.GetLabels()))
	case *proto.ToDataplane_NamespaceRemove:
		return "nsrm", fmt.Sprintf("nsrm:%d", num(p.NamespaceRemove.GetId().GetName(), "ns"))
	case *proto.ToDataplane_IpsetUpdate:
		u := p.IpsetUpdate
		return "ip", fmt.Sprintf("ip:%d:%d:%s", num(u.GetId(), "s"), ipTypeNum(u.GetType()), showList(",", sortedSet(memNums(u.GetMembers()))))
	case *proto.ToDataplane_IpsetDeltaUpdate:
		u := p.IpsetDeltaUpdate
		return "ipd", fmt.Sprintf("ipd:%d:%s:%s", num(u.GetId(), "s"), showList(",", memNums(u.GetAddedMembers())), showList(",", memNums(u.GetRemovedMembers())))
	case *proto.ToDataplane_IpsetRemove:
		return "iprm", fmt.Sprintf("iprm:%d", num(p.IpsetRemove.GetId(), "s"))
	}
	return "unknown", fmt.Sprintf("unknown:%T", m.Payload)
}

func memNums(ss []string) []int {
	var out []int
	for _, s := range ss {
		out = append(out, memNum(s))
	}
	return out
}
func sortedSet(xs []int) []int {
	m := map[int]bool{}
	for _, x := range xs {
		m[x] = true
	}
	var out []int
	for x := range m {
		out = append(out, x)
	}
	sort.Ints(out)
	return out
}

// sort every maximal run of same-kind messages (Go map iteration order is not modelled)
func sortRuns(kinds, texts []string) []string {
	var out []string
	for i := 0; i < len(texts); {
		j := i
		for j < len(texts) && kinds[j] == kinds[i] {
			j++
		}
		run := append([]string(nil), texts[i:j]...)
		sort.Strings(run)
		out = append(out, run...)
		i = j
	}
	return out
}

// ---- the abstract "datastore" D: what the calculation graph has sent so far ---
// Used by the generator (to produce mostly contract-respecting histories) and by
// the oracle (to know what each joined workload must have).

type epD struct {
	text  string // "ver:TIERS:PROFS"
	pols  []int
	profs []int
}
type rulesD struct {
	text string // "IN:OUT"
	refs []int
}
type joinD struct {
	ch  int
	uid int
}
type shadow struct {
	eps    map[int]epD
	pols   map[int]rulesD
	profs  map[int]rulesD
	ipsets map[int]map[int]bool
	sas    map[int]string
	nss    map[int]string
	insync bool
	joins  map[int]joinD // active join per workload
	nextCh int
	valid  bool // the history so far respects the calculation graph's contract
	why    string
}

func newShadow() *shadow {
	return &shadow{eps: map[int]epD{}, pols: map[int]rulesD{}, profs: map[int]rulesD{}, ipsets: map[int]map[int]bool{},
		sas: map[int]string{}, nss: map[int]string{}, joins: map[int]joinD{}, valid: true}
}

func hasDup(xs []int) bool {
	m := map[int]bool{}
	for _, x := range xs {
		if m[x] {
			return true
		}
		m[x] = true
	}
	return false
}
func contains(xs []int, x int) bool {
	for _, y := range xs {
		if y == x {
			return true
		}
	}
	return false
}

// iterPols mirrors EndpointInfo.iteratePolicies: the ids it visits, in order.
func iterPols(ts []tier) []int {
	seen := map[int]bool{}
	var out []int
	for _, t := range ts {
		for _, p := range t.ing {
			seen[p] = true
			out = append(out, p)
		}
		for _, p := range t.eg {
			if !seen[p] {
				seen[p] = true
				out = append(out, p)
			}
		}
	}
	return out
}

func (s *shadow) bad(why string) {
	if s.valid {
		s.valid = false
		s.why = why
	}
}

// apply updates D with one op, recording the first violation of the contract
// (= CalicoVerif.C31.Pre in Props/C31.lean).  Returns the channel closed by a
// matching leave / re-join / endpoint removal (-1 if none).
func (s *shadow) apply(op string) {
	w := strings.Fields(op)
	a := func(i int) int { n, _ := strconv.Atoi(w[i]); return n }
	switch w[0] {
	case "insync":
		s.insync = true
	case "ep":
		ts := parseTiers(w[3])
		profs := parseList(".", w[4])
		var all []int
		for _, t := range ts {
			all = append(all, t.ing...)
			all = append(all, t.eg...)
		}
		if hasDup(iterPols(ts)) {
			s.bad("endpoint's policy iteration visits a policy twice (policy in two tiers or twice in one ingress list)")
		}
		if hasDup(profs) {
			s.bad("endpoint lists a profile twice")
		}
		for _, p := range all {
			if _, ok := s.pols[p]; !ok {
				s.bad("endpoint references a policy that was not sent")
			}
		}
		for _, p := range profs {
			if _, ok := s.profs[p]; !ok {
				s.bad("endpoint references a profile that was not sent")
			}
		}
		s.eps[a(1)] = epD{text: w[2] + ":" + w[3] + ":" + w[4], pols: sortedSet(all), profs: sortedSet(profs)}
	case "eprm":
		if _, ok := s.eps[a(1)]; !ok {
			s.bad("remove of an endpoint that was not sent")
		}
		delete(s.eps, a(1))
		delete(s.joins, a(1)) // the Processor closes the stream
	case "pol", "prof":
		refs := sortedSet(rulesRefs(parseRules(w[2]), parseRules(w[3])))
		for _, x := range refs {
			if _, ok := s.ipsets[x]; !ok {
				s.bad("policy/profile references an IP set that was not sent")
			}
		}
		d := rulesD{text: w[2] + ":" + w[3], refs: refs}
		if w[0] == "pol" {
			s.pols[a(1)] = d
		} else {
			s.profs[a(1)] = d
		}
	case "polrm":
		for _, e := range s.eps {
			if contains(e.pols, a(1)) {
				s.bad("policy removed while an endpoint references it")
			}
		}
		delete(s.pols, a(1))
	case "profrm":
		for _, e := range s.eps {
			if contains(e.profs, a(1)) {
				s.bad("profile removed while an endpoint references it")
			}
		}
		delete(s.profs, a(1))
	case "sa":
		s.sas[a(1)] = w[2]
	case "sarm":
		delete(s.sas, a(1))
	case "ns":
		s.nss[a(1)] = w[2]
	case "nsrm":
		delete(s.nss, a(1))
	case "ipset":
		m := map[int]bool{}
		for _, x := range parseList(",", w[2]) {
			m[x] = true
		}
		s.ipsets[a(1)] = m
	case "ipdelta":
		m, ok := s.ipsets[a(1)]
		if !ok {
			s.bad("delta for an IP set that was not sent")
			return
		}
		for _, x := range parseList(",", w[2]) {
			m[x] = true
		}
		for _, x := range parseList(",", w[3]) {
			delete(m, x)
		}
	case "iprm":
		for _, p := range s.pols {
			if contains(p.refs, a(1)) {
				s.bad("IP set removed while a policy references it")
			}
		}
		for _, p := range s.profs {
			if contains(p.refs, a(1)) {
				s.bad("IP set removed while a profile references it")
			}
		}
		delete(s.ipsets, a(1))
	case "join":
		if a(2) == 0 {
			s.bad("join with UID 0 (the server's allocator never hands out 0)")
		}
		s.joins[a(1)] = joinD{ch: s.nextCh, uid: a(2)}
		s.nextCh++
	case "leave":
		if a(2) == 0 {
			s.bad("leave with UID 0")
		}
		if j, ok := s.joins[a(1)]; ok && j.uid == a(2) {
			delete(s.joins, a(1))
		}
	}
}

// ---- the client: applies a stream in order (the property's own oracle) ---------

type client struct {
	w      int
	ep     string // "" = none
	epPols []int
	epProf []int
	pols   map[int]rulesD
	profs  map[int]rulesD
	ipsets map[int]map[int]bool
	sas    map[int]string
	nss    map[int]string
	insync bool
	closed bool
}

func newClient(w int) *client {
	return &client{w: w, pols: map[int]rulesD{}, profs: map[int]rulesD{}, ipsets: map[int]map[int]bool{}, sas: map[int]string{}, nss: map[int]string{}}
}

// closedUnderRefs: the endpoint's policies/profiles and their IP sets are all present.
func (c *client) danglingRef() string {
	for _, p := range c.epPols {
		if _, ok := c.pols[p]; !ok {
			return fmt.Sprintf("endpoint references policy %d not (or no longer) sent on this stream", p)
		}
	}
	for _, p := range c.epProf {
		if _, ok := c.profs[p]; !ok {
			return fmt.Sprintf("endpoint references profile %d not (or no longer) sent on this stream", p)
		}
	}
	for id, p := range c.pols {
		for _, x := range p.refs {
			if _, ok := c.ipsets[x]; !ok {
				return fmt.Sprintf("policy %d references IP set %d not (or no longer) sent on this stream", id, x)
			}
		}
	}
	for id, p := range c.profs {
		for _, x := range p.refs {
			if _, ok := c.ipsets[x]; !ok {
				return fmt.Sprintf("profile %d references IP set %d not (or no longer) sent on this stream", id, x)
			}
		}
	}
	return ""
}

// recv applies one message; returns a description if the message itself is ill-placed.
func (c *client) recv(m *proto.ToDataplane) string {
	kind, text := showMsg(m)
	f := strings.SplitN(text, ":", 3)
	id := 0
	if len(f) > 1 {
		id, _ = strconv.Atoi(f[1])
	}
	switch kind {
	case "sync":
		c.insync = true
	case "ep":
		u := m.GetWorkloadEndpointUpdate()
		if id != c.w {
			return fmt.Sprintf("endpoint %d sent on workload %d's stream", id, c.w)
		}
		c.ep = f[2]
		c.epPols, c.epProf = nil, nil
		for _, t := range u.GetEndpoint().GetTiers() {
			for _, q := range append(append([]*proto.PolicyID{}, t.GetIngressPolicies()...), t.GetEgressPolicies()...) {
				c.epPols = append(c.epPols, polNum(q.GetName(), q.GetNamespace(), q.GetKind()))
			}
		}
		for _, n := range u.GetEndpoint().GetProfileIds() {
			c.epProf = append(c.epProf, num(n, "prof"))
		}
		c.epPols, c.epProf = sortedSet(c.epPols), sortedSet(c.epProf)
	case "eprm":
		if id != c.w {
			return fmt.Sprintf("removal of endpoint %d sent on workload %d's stream", id, c.w)
		}
		c.ep, c.epPols, c.epProf = "", nil, nil
	case "pol":
		u := m.GetActivePolicyUpdate().GetPolicy()
		c.pols[id] = rulesD{text: f[2], refs: sortedSet(rulesRefs(fromProtoRules(u.GetInboundRules()), fromProtoRules(u.GetOutboundRules())))}
	case "polrm":
		delete(c.pols, id)
	case "prof":
		u := m.GetActiveProfileUpdate().GetProfile()
		c.profs[id] = rulesD{text: f[2], refs: sortedSet(rulesRefs(fromProtoRules(u.GetInboundRules()), fromProtoRules(u.GetOutboundRules())))}
	case "profrm":
		delete(c.profs, id)
	case "sa":
		c.sas[id] = f[2]
	case "sarm":
		delete(c.sas, id)
	case "ns":
		c.nss[id] = f[2]
	case "nsrm":
		delete(c.nss, id)
	case "ip":
		s := map[int]bool{}
		for _, x := range memNums(m.GetIpsetUpdate().GetMembers()) {
			s[x] = true
		}
		c.ipsets[id] = s
	case "ipd":
		s, ok := c.ipsets[id]
		if !ok {
			return fmt.Sprintf("delta for IP set %d that was not sent on this stream", id)
		}
		for _, x := range memNums(m.GetIpsetDeltaUpdate().GetAddedMembers()) {
			s[x] = true
		}
		for _, x := range memNums(m.GetIpsetDeltaUpdate().GetRemovedMembers()) {
			delete(s, x)
		}
	case "iprm":
		delete(c.ipsets, id)
	default:
		return "unexpected message kind " + text
	}
	return c.danglingRef()
}

func setStr(m map[int]bool) string {
	var xs []int
	for x := range m {
		xs = append(xs, x)
	}
	sort.Ints(xs)
	return showList(",", xs)
}

// complete: the client's state is exactly what the property says it must be.
func (c *client) incomplete(d *shadow) string {
	e, ok := d.eps[c.w]
	if !ok {
		if c.ep != "" {
			return "client holds an endpoint the datastore does not have"
		}
	} else if c.ep != e.text {
		return fmt.Sprintf("client's endpoint is %q, latest is %q", c.ep, e.text)
	}
	wantIP := map[int]bool{}
	for _, p := range e.pols {
		if c.pols[p].text != d.pols[p].text {
			return fmt.Sprintf("policy %d: client has %q, latest is %q", p, c.pols[p].text, d.pols[p].text)
		}
		for _, x := range d.pols[p].refs {
			wantIP[x] = true
		}
	}
	for _, p := range e.profs {
		if c.profs[p].text != d.profs[p].text {
			return fmt.Sprintf("profile %d: client has %q, latest is %q", p, c.profs[p].text, d.profs[p].text)
		}
		for _, x := range d.profs[p].refs {
			wantIP[x] = true
		}
	}
	if len(c.pols) != len(e.pols) {
		return fmt.Sprintf("client holds %d policies, its endpoint needs %d", len(c.pols), len(e.pols))
	}
	if len(c.profs) != len(e.profs) {
		return fmt.Sprintf("client holds %d profiles, its endpoint needs %d", len(c.profs), len(e.profs))
	}
	for x := range wantIP {
		got, ok := c.ipsets[x]
		if !ok || setStr(got) != setStr(d.ipsets[x]) {
			return fmt.Sprintf("IP set %d: client has %s (present=%v), latest is %s", x, setStr(got), ok, setStr(d.ipsets[x]))
		}
	}
	if len(c.ipsets) != len(wantIP) {
		return fmt.Sprintf("client holds %d IP sets, it needs %d", len(c.ipsets), len(wantIP))
	}
	if fmt.Sprint(c.sas) != fmt.Sprint(d.sas) {
		return fmt.Sprintf("service accounts: client %v, latest %v", c.sas, d.sas)
	}
	if fmt.Sprint(c.nss) != fmt.Sprint(d.nss) {
		return fmt.Sprintf("namespaces: client %v, latest %v", c.nss, d.nss)
	}
	if c.insync != d.insync {
		return fmt.Sprintf("in-sync: client %v, datastore %v", c.insync, d.insync)
	}
	return ""
}

// ---- exec on the REAL Processor -------------------------------------------------

type state struct {
	p       *policysync.Processor
	chans   []chan *proto.ToDataplane
	clients []*client
	dead    bool
	d       *shadow
	history []string
	failed  map[string]bool
}

func newState() *state {
	return &state{p: policysync.NewProcessor(make(chan any)), d: newShadow()}
}

func label1(v string) map[string]string { return map[string]string{"v": v} }

// call runs one handler, turning a Go panic into ok=false.
func call(f func()) (ok bool) {
	defer func() {
		if r := recover(); r != nil {
			ok = false
		}
	}()
	f()
	return true
}

func exec(h *rt.H, s *state, op string) string {
	w := strings.Fields(op)
	a := func(i int) int { n, _ := strconv.Atoi(w[i]); return n }
	if w[0] == "new" {
		*s = *newState()
		return "ok"
	}
	if s.dead {
		return "dead"
	}
	if w[0] == "dump" {
		return dump(s.p.VerifState())
	}
	s.history = append(s.history, op)
	var upd any
	switch w[0] {
	case "insync":
		upd = &proto.InSync{}
	case "ep":
		e := &proto.WorkloadEndpoint{Name: "v" + w[2], State: "active"}
		for _, t := range parseTiers(w[3]) {
			ti := &proto.TierInfo{Name: fmt.Sprintf("t%d", t.name)}
			for _, q := range t.ing {
				ti.IngressPolicies = append(ti.IngressPolicies, polID(q))
			}
			for _, q := range t.eg {
				ti.EgressPolicies = append(ti.EgressPolicies, polID(q))
			}
			e.Tiers = append(e.Tiers, ti)
		}
		for _, q := range parseList(".", w[4]) {
			e.ProfileIds = append(e.ProfileIds, profName(q))
		}
		upd = &proto.WorkloadEndpointUpdate{Id: wlID(a(1)), Endpoint: e}
	case "eprm":
		upd = &proto.WorkloadEndpointRemove{Id: wlID(a(1))}
	case "pol":
		upd = &proto.ActivePolicyUpdate{Id: polID(a(1)), Policy: &proto.Policy{
			InboundRules: toProtoRules(parseRules(w[2])), OutboundRules: toProtoRules(parseRules(w[3]))}}
	case "polrm":
		upd = &proto.ActivePolicyRemove{Id: polID(a(1))}
	case "prof":
		upd = &proto.ActiveProfileUpdate{Id: &proto.ProfileID{Name: profName(a(1))}, Profile: &proto.Profile{
			InboundRules: toProtoRules(parseRules(w[2])), OutboundRules: toProtoRules(parseRules(w[3]))}}
	case "profrm":
		upd = &proto.ActiveProfileRemove{Id: &proto.ProfileID{Name: profName(a(1))}}
	case "sa":
		upd = &proto.ServiceAccountUpdate{Id: saID(a(1)), Labels: label1(w[2])}
	case "sarm":
		upd = &proto.ServiceAccountRemove{Id: saID(a(1))}
	case "ns":
		upd = &proto.NamespaceUpdate{Id: nsID(a(1)), Labels: label1(w[2])}
	case "nsrm":
		upd = &proto.NamespaceRemove{Id: nsID(a(1))}
	case "ipset":
		u := &proto.IPSetUpdate{Id: ipName(a(1)), Type: ipType(a(1))}
		for _, m := range parseList(",", w[2]) {
			u.Members = append(u.Members, member(a(1)%3, m))
		}
		upd = u
	case "ipdelta":
		u := &proto.IPSetDeltaUpdate{Id: ipName(a(1))}
		for _, m := range parseList(",", w[2]) {
			u.AddedMembers = append(u.AddedMembers, member(a(1)%3, m))
		}
		for _, m := range parseList(",", w[3]) {
			u.RemovedMembers = append(u.RemovedMembers, member(a(1)%3, m))
		}
		upd = u
	case "iprm":
		upd = &proto.IPSetRemove{Id: ipName(a(1))}
	case "join", "leave":
	default:
		panic("unknown op " + op)
	}

	var ok bool
	switch w[0] {
	case "join":
		c := make(chan *proto.ToDataplane, 8192)
		s.chans = append(s.chans, c)
		s.clients = append(s.clients, newClient(a(1)))
		ok = call(func() {
			s.p.VerifHandleJoin(policysync.JoinRequest{JoinMetadata: policysync.JoinMetadata{EndpointID: wlIDT(a(1)), JoinUID: uint64(a(2))}, C: c})
		})
	case "leave":
		ok = call(func() {
			s.p.VerifHandleLeave(policysync.LeaveRequest{JoinMetadata: policysync.JoinMetadata{EndpointID: wlIDT(a(1)), JoinUID: uint64(a(2))}})
		})
	default:
		ok = call(func() { s.p.VerifHandleDataplane(upd) })
	}

	before := map[int]joinD{}
	for k, v := range s.d.joins {
		before[k] = v
	}
	s.d.apply(op)
	fail := func(sig, desc string) {
		if s.failed == nil {
			s.failed = map[string]bool{}
		}
		if s.failed[sig] {
			return
		}
		s.failed[sig] = true
		h.OracleFail(sig, desc, map[string]any{"history": append([]string(nil), s.history...)})
	}
	if !ok {
		s.dead = true
		h.Count("panic")
		if s.d.valid {
			// a panic kills Felix: every joined workload's stream stops being complete
			fail("panic-in-valid-history", "the Processor panicked on a history that respects the calculation graph's contract: "+op)
		}
		return "panic"
	}

	// drain every open channel, applying the messages to the client of that stream
	var parts []string
	for i, c := range s.chans {
		cl := s.clients[i]
		if cl.closed {
			continue
		}
		var kinds, texts []string
		touched := false
	drain:
		for {
			select {
			case m, more := <-c:
				touched = true
				if !more {
					cl.closed = true
					break drain
				}
				k, t := showMsg(m)
				kinds, texts = append(kinds, k), append(texts, t)
				h.Count("msg:" + k)
				if why := cl.recv(m); why != "" && s.d.valid {
					fail("stream-not-closed", fmt.Sprintf("stream c%d after %q: %s", i, t, why))
				}
			default:
				break drain
			}
		}
		if touched {
			x := ""
			if cl.closed {
				x = "x"
			}
			parts = append(parts, fmt.Sprintf("c%d[%s]%s", i, strings.Join(sortRuns(kinds, texts), "|"), x))
		}
	}

	if s.d.valid {
		// complete + minimal: every joined workload's stream, applied in order, yields exactly what it needs
		for wl, j := range s.d.joins {
			cl := s.clients[j.ch]
			if cl.closed {
				fail("closed-while-joined", fmt.Sprintf("stream c%d of joined workload %d was closed", j.ch, wl))
			} else if why := cl.incomplete(s.d); why != "" {
				fail("stream-not-complete", fmt.Sprintf("stream c%d of workload %d after %q: %s", j.ch, wl, op, why))
			}
		}
		// nothing after leave: a stream whose workload left (or re-joined, or was removed) is closed
		for wl, j := range before {
			if now, still := s.d.joins[wl]; (!still || now.ch != j.ch) && !s.clients[j.ch].closed {
				fail("open-after-leave", fmt.Sprintf("stream c%d of workload %d still open after %q", j.ch, wl, op))
			}
		}
	}
	if len(parts) == 0 {
		return "ok"
	}
	return strings.Join(parts, " ")
}

func dump(v policysync.VerifState) string {
	var eps []string
	sort.Slice(v.Endpoints, func(i, j int) bool { return v.Endpoints[i].ID.WorkloadId < v.Endpoints[j].ID.WorkloadId })
	b := func(x bool) string {
		if x {
			return "1"
		}
		return "0"
	}
	for _, e := range v.Endpoints {
		var pols, profs, ips []int
		for _, p := range e.SyncedPolicies {
			pols = append(pols, polNum(p.Name, p.Namespace, p.Kind))
		}
		for _, p := range e.SyncedProfiles {
			profs = append(profs, num(p.Name, "prof"))
		}
		for _, p := range e.SyncedIPSets {
			ips = append(ips, num(p, "s"))
		}
		sort.Ints(pols)
		sort.Ints(profs)
		sort.Ints(ips)
		eps = append(eps, fmt.Sprintf("%d:%s:%d:%s:%s:%s:%s", num(e.ID.WorkloadId, "ns/w"), b(e.HasOutput), e.JoinUID, b(e.HasEndpoint),
			showList(".", pols), showList(".", profs), showList(".", ips)))
	}
	var pols, profs, sas, nss, ipids []int
	for _, p := range v.Policies {
		pols = append(pols, polNum(p.Name, p.Namespace, p.Kind))
	}
	for _, p := range v.Profiles {
		profs = append(profs, num(p.Name, "prof"))
	}
	for _, p := range v.ServiceAccounts {
		sas = append(sas, saNum(p.Namespace, p.Name))
	}
	for _, p := range v.Namespaces {
		nss = append(nss, num(p.Name, "ns"))
	}
	for id := range v.IPSets {
		ipids = append(ipids, num(id, "s"))
	}
	sort.Ints(pols)
	sort.Ints(profs)
	sort.Ints(sas)
	sort.Ints(nss)
	sort.Ints(ipids)
	var ips []string
	for _, id := range ipids {
		ms := memNums(v.IPSets[ipName(id)])
		sort.Ints(ms)
		ips = append(ips, fmt.Sprintf("%d=%s", id, showList(",", ms)))
	}
	return fmt.Sprintf("eps=%s pols=%s profs=%s sas=%s nss=%s ipsets=%s sync=%s", strings.Join(eps, ","), showList(".", pols), showList(".", profs),
		showList(".", sas), showList(".", nss), strings.Join(ips, ";"), b(v.InSync))
}

// ---- generator --------------------------------------------------------------------

const (
	nW, nPol, nProf, nIP, nMem, nSA, nNS = 3, 6, 3, 6, 6, 3, 3
)

func keys[T any](m map[int]T) []int {
	var out []int
	for k := range m {
		out = append(out, k)
	}
	sort.Ints(out)
	return out
}

func subset(h *rt.H, from []int, max int) []int {
	if len(from) == 0 || max == 0 {
		return nil
	}
	n := h.Intn(max + 1)
	var out []int
	for i := 0; i < n; i++ {
		x := rt.Pick(h, from)
		if !contains(out, x) {
			out = append(out, x)
		}
	}
	return out
}
func rng(n int) []int {
	out := make([]int, n)
	for i := range out {
		out[i] = i
	}
	return out
}

func genRules(h *rt.H, ips []int) string {
	n := h.Intn(3)
	var rs []rule
	for i := 0; i < n; i++ {
		r := rule{tag: h.Intn(4)}
		if len(ips) > 0 {
			k := h.Intn(4)
			var fs []int
			for j := 0; j < k; j++ {
				fs = append(fs, h.Intn(9))
			}
			sort.Ints(fs)
			for _, f := range fs {
				r.refs = append(r.refs, [2]int{f, rt.Pick(h, ips)})
			}
		}
		rs = append(rs, r)
	}
	return showRules(rs)
}

func genMembers(h *rt.H, allowDup bool) string {
	n := h.Intn(5)
	var ms []int
	for i := 0; i < n; i++ {
		m := h.Intn(nMem)
		if allowDup || !contains(ms, m) {
			ms = append(ms, m)
		}
	}
	return showList(",", ms)
}

func genEp(h *rt.H, pols, profs []int, sloppy bool) (string, string) {
	nt := h.Intn(3)
	var ts []tier
	used := []int{}
	for i := 0; i < nt; i++ {
		t := tier{name: i}
		// the policies of this tier: not used by an earlier tier (a policy lives in one tier)
		var mine []int
		for j := h.Intn(4); j > 0 && len(pols) > 0; j-- {
			p := rt.Pick(h, pols)
			if sloppy || !contains(used, p) {
				mine = append(mine, p)
				used = append(used, p)
			}
		}
		for _, p := range mine {
			if h.Chance(0.6) {
				t.ing = append(t.ing, p)
			}
		}
		for j := h.Intn(3); j > 0 && len(mine) > 0; j-- {
			t.eg = append(t.eg, rt.Pick(h, mine)) // egress may repeat ingress ids and (rarely) itself
		}
		ts = append(ts, t)
	}
	var pr []int
	if len(profs) > 0 {
		for j := h.Intn(3); j > 0; j-- {
			p := rt.Pick(h, profs)
			if sloppy || !contains(pr, p) {
				pr = append(pr, p)
			}
		}
	}
	return showTiers(ts), showList(".", pr)
}

func genCase(h *rt.H) []string {
	d := newShadow()
	ops := []string{"new"}
	n := 8 + h.Intn(50)
	if h.Tier == "thorough" {
		n = 8 + h.Intn(120)
	}
	uid := 0
	ver := 0
	after := 0
	for i := 0; i < n; i++ {
		sloppy := h.Chance(0.015) // may break the calculation graph's contract
		var op string
		ver++
		r := h.Intn(100)
		switch {
		case r < 12: // new / replaced IP set
			op = fmt.Sprintf("ipset %d %s", h.Intn(nIP), genMembers(h, h.Chance(0.2)))
		case r < 20:
			ids := keys(d.ipsets)
			if sloppy {
				ids = rng(nIP)
			}
			if len(ids) == 0 {
				continue
			}
			op = fmt.Sprintf("ipdelta %d %s %s", rt.Pick(h, ids), genMembers(h, false), genMembers(h, false))
		case r < 25:
			var free []int
			for _, x := range keys(d.ipsets) {
				used := false
				for _, p := range d.pols {
					used = used || contains(p.refs, x)
				}
				for _, p := range d.profs {
					used = used || contains(p.refs, x)
				}
				if !used {
					free = append(free, x)
				}
			}
			if sloppy || len(free) == 0 {
				free = rng(nIP)
				if !sloppy {
					continue
				}
			}
			op = fmt.Sprintf("iprm %d", rt.Pick(h, free))
		case r < 40:
			ips := keys(d.ipsets)
			if sloppy {
				ips = rng(nIP)
			}
			id := h.Intn(nPol)
			if h.Bool() && len(d.pols) > 0 {
				id = rt.Pick(h, keys(d.pols)) // update an existing one
			}
			op = fmt.Sprintf("pol %d %s %s", id, genRules(h, ips), genRules(h, ips))
		case r < 48:
			ips := keys(d.ipsets)
			if sloppy {
				ips = rng(nIP)
			}
			op = fmt.Sprintf("prof %d %s %s", h.Intn(nProf), genRules(h, ips), genRules(h, ips))
		case r < 53:
			var free []int
			for _, x := range keys(d.pols) {
				used := false
				for _, e := range d.eps {
					used = used || contains(e.pols, x)
				}
				if !used {
					free = append(free, x)
				}
			}
			if sloppy {
				free = rng(nPol)
			}
			if len(free) == 0 {
				continue
			}
			op = fmt.Sprintf("polrm %d", rt.Pick(h, free))
		case r < 56:
			var free []int
			for _, x := range keys(d.profs) {
				used := false
				for _, e := range d.eps {
					used = used || contains(e.profs, x)
				}
				if !used {
					free = append(free, x)
				}
			}
			if sloppy {
				free = rng(nProf)
			}
			if len(free) == 0 {
				continue
			}
			op = fmt.Sprintf("profrm %d", rt.Pick(h, free))
		case r < 72:
			pols, profs := keys(d.pols), keys(d.profs)
			if sloppy {
				pols, profs = rng(nPol), rng(nProf)
			}
			t, p := genEp(h, pols, profs, sloppy)
			op = fmt.Sprintf("ep %d %d %s %s", h.Intn(nW), ver, t, p)
		case r < 76:
			ws := keys(d.eps)
			if sloppy {
				ws = rng(nW)
			}
			if len(ws) == 0 {
				continue
			}
			op = fmt.Sprintf("eprm %d", rt.Pick(h, ws))
		case r < 84:
			uid++
			u := uid
			if sloppy {
				u = h.Intn(uid + 1)
			}
			op = fmt.Sprintf("join %d %d", h.Intn(nW), u)
		case r < 89:
			ws := keys(d.joins)
			if len(ws) > 0 && !h.Chance(0.25) {
				w := rt.Pick(h, ws)
				op = fmt.Sprintf("leave %d %d", w, d.joins[w].uid)
			} else if sloppy {
				op = fmt.Sprintf("leave %d %d", h.Intn(nW), h.Intn(uid+1))
			} else {
				op = fmt.Sprintf("leave %d %d", h.Intn(nW), 1+h.Intn(uid+1)) // stale / unknown UID
			}
		case r < 92:
			op = fmt.Sprintf("sa %d %d", h.Intn(nSA), ver)
		case r < 93:
			op = fmt.Sprintf("sarm %d", h.Intn(nSA))
		case r < 96:
			op = fmt.Sprintf("ns %d %d", h.Intn(nNS), ver)
		case r < 97:
			op = fmt.Sprintf("nsrm %d", h.Intn(nNS))
		case r < 98:
			op = "insync"
		default:
			op = "dump"
		}
		ops = append(ops, op)
		d.apply(op)
		if !d.valid {
			after++
			if after > 6 {
				break
			}
		}
	}
	ops = append(ops, "dump")
	return ops
}

func main() {
	h := rt.New()
	defer h.Close()
	h.Rule = "case = `new` + 8..57 ops (thorough: ..127) over {ipset, ipdelta, iprm, pol, polrm, prof, profrm, ep, eprm, join, leave, sa, sarm, ns, nsrm, insync, dump} on 3 workloads, " +
		"6 policy ids (sharing names across namespace/kind), 3 profiles, 6 IP sets of 3 types, 6 members; 98.5% of ops respect the calculation graph's contract given the history so far, " +
		"1.5% are drawn without regard to it (missing references, duplicates, UID 0, unknown sets); distinct = distinct op sequence; " +
		"non-trivial = at least one stream carried an endpoint update together with >=1 policy/profile and >=1 IP set message"
	run := func(ops []string, tag string) {
		h.Case(tag)
		s := newState()
		kinds := map[string]bool{}
		for _, op := range ops {
			out := exec(h, s, op)
			h.Op(op, out)
			h.Count("op:" + strings.Fields(op)[0])
			for _, k := range []string{"ep:", "pol:", "prof:", "ip:", "ipd:", "polrm:", "iprm:", "]x"} {
				if strings.Contains(out, "["+k) || strings.Contains(out, "|"+k) || (k == "]x" && strings.Contains(out, k)) {
					kinds[k] = true
				}
			}
		}
		if s.d.valid {
			h.Count("history:contract-respecting")
		} else {
			h.Count("history:contract-broken")
			h.Count("broken:" + s.d.why)
		}
		if kinds["ep:"] && (kinds["pol:"] || kinds["prof:"]) && kinds["ip:"] {
			h.Nontrivial(strings.Join(ops, ";"))
		}
		h.Sample()
	}
	if h.Replay != "" {
		run(h.ReplayLines(), "replay")
		return
	}
	for i := 0; i < h.N; i++ {
		run(genCase(h), "gen")
	}
}
