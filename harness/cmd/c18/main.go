// C18 correspondence harness: drives the real felix/deltatracker.DeltaTracker
// (map mode with a payload-only or DeepEqual valuesEqual), the real
// SetDeltaTracker (mode s) and checks the property's own oracle (two plain Go
// maps and their exact difference) on the real code after every op.
package main

import (
	"errors"
	"fmt"
	"os"
	"sort"
	"strconv"
	"strings"

	"github.com/projectcalico/calico/felix/cachingmap"
	"github.com/projectcalico/calico/felix/deltatracker"

	"verif/harness/rt"
)

// val: P is the payload compared by valuesEqual in mode p, ID identifies the
// object (every Set in a generated case uses a fresh ID), so which stored
// object a view returns (aliasing) is fully observable.
type val struct{ P, ID int }

func (v val) String() string { return fmt.Sprintf("%d.%d", v.P, v.ID) }

type kv struct {
	k int
	v val
}

// trk is the API surface exercised; implemented over the real map tracker and the real set tracker.
type trk interface {
	DSet(k int, v val)
	DDel(k int)
	DDelAll()
	DGet(k int) (val, bool)
	DIter(f func(k int, v val))
	DLen() int
	PSet(k int, v val)
	PDel(k int)
	PDelAll()
	PGet(k int) (val, bool)
	PIter(f func(k int, v val))
	PLen() int
	Repl(items []kv, fail bool) error
	UGet(k int) (val, bool)
	UIter(f func(k int, v val) deltatracker.IterAction)
	UBatched(f func(ks []int, vs []val) (int, error))
	ULen() int
	XGet(k int) (val, bool)
	XIter(f func(k int) deltatracker.IterAction)
	XBatched(f func(ks []int) (int, error))
	XLen() int
	InSync() bool
}

var errIter = errors.New("iterator failed")

type mapTrk struct {
	t *deltatracker.DeltaTracker[int, val]
}

func (m mapTrk) DSet(k int, v val)                { m.t.Desired().Set(k, v) }
func (m mapTrk) DDel(k int)                       { m.t.Desired().Delete(k) }
func (m mapTrk) DDelAll()                         { m.t.Desired().DeleteAll() }
func (m mapTrk) DGet(k int) (val, bool)           { return m.t.Desired().Get(k) }
func (m mapTrk) DIter(f func(k int, v val))       { m.t.Desired().Iter(f) }
func (m mapTrk) DLen() int                        { return m.t.Desired().Len() }
func (m mapTrk) PSet(k int, v val)                { m.t.Dataplane().Set(k, v) }
func (m mapTrk) PDel(k int)                       { m.t.Dataplane().Delete(k) }
func (m mapTrk) PDelAll()                         { m.t.Dataplane().DeleteAll() }
func (m mapTrk) PGet(k int) (val, bool)           { return m.t.Dataplane().Get(k) }
func (m mapTrk) PIter(f func(k int, v val))       { m.t.Dataplane().Iter(f) }
func (m mapTrk) PLen() int                        { return m.t.Dataplane().Len() }
func (m mapTrk) UGet(k int) (val, bool)           { return m.t.PendingUpdates().Get(k) }
func (m mapTrk) ULen() int                        { return m.t.PendingUpdates().Len() }
func (m mapTrk) XGet(k int) (val, bool)           { return m.t.PendingDeletions().Get(k) }
func (m mapTrk) XLen() int                        { return m.t.PendingDeletions().Len() }
func (m mapTrk) InSync() bool                     { return m.t.InSync() }
func (m mapTrk) XIter(f func(k int) deltatracker.IterAction) { m.t.PendingDeletions().Iter(f) }
func (m mapTrk) XBatched(f func(ks []int) (int, error))      { m.t.PendingDeletions().IterBatched(f) }
func (m mapTrk) UIter(f func(k int, v val) deltatracker.IterAction) {
	m.t.PendingUpdates().Iter(f)
}
func (m mapTrk) UBatched(f func(ks []int, vs []val) (int, error)) {
	m.t.PendingUpdates().IterBatched(f)
}
func (m mapTrk) Repl(items []kv, fail bool) error {
	if !fail && len(items)%2 == 0 {
		// exercise ReplaceAllMap too when the items have distinct keys
		mm := map[int]val{}
		for _, it := range items {
			mm[it.k] = it.v
		}
		if len(mm) == len(items) {
			m.t.Dataplane().ReplaceAllMap(mm)
			return nil
		}
	}
	return m.t.Dataplane().ReplaceAllIter(func(f func(k int, v val)) error {
		for _, it := range items {
			f(it.k, it.v)
		}
		if fail {
			return errIter
		}
		return nil
	})
}

// setTrk drives the real SetDeltaTracker through its own API; values are always 0.0.
type setTrk struct {
	t *deltatracker.SetDeltaTracker[int]
}

var z = val{}

func (s setTrk) mp() *deltatracker.DeltaTracker[int, struct{}] {
	return (*deltatracker.DeltaTracker[int, struct{}])(s.t)
}
func (s setTrk) DSet(k int, v val)      { s.t.Desired().Add(k) }
func (s setTrk) DDel(k int)             { s.t.Desired().Delete(k) }
func (s setTrk) DDelAll()               { s.t.Desired().DeleteAll() }
func (s setTrk) DGet(k int) (val, bool) { return z, s.t.Desired().Contains(k) }
func (s setTrk) DIter(f func(k int, v val)) {
	s.t.Desired().Iter(func(k int) { f(k, z) })
}
func (s setTrk) DLen() int              { return s.mp().Desired().Len() }
func (s setTrk) PSet(k int, v val)      { s.t.Dataplane().Add(k) }
func (s setTrk) PDel(k int)             { s.t.Dataplane().Delete(k) }
func (s setTrk) PDelAll()               { s.t.Dataplane().DeleteAll() }
func (s setTrk) PGet(k int) (val, bool) { return z, s.t.Dataplane().Contains(k) }
func (s setTrk) PIter(f func(k int, v val)) {
	s.t.Dataplane().Iter(func(k int) { f(k, z) })
}
func (s setTrk) PLen() int              { return s.mp().Dataplane().Len() }
func (s setTrk) UGet(k int) (val, bool) { return z, s.t.PendingUpdates().Contains(k) }
func (s setTrk) ULen() int              { return s.t.PendingUpdates().Len() }
func (s setTrk) XGet(k int) (val, bool) { return z, s.t.PendingDeletions().Contains(k) }
func (s setTrk) XLen() int              { return s.t.PendingDeletions().Len() }
func (s setTrk) InSync() bool           { return s.t.InSync() }
func (s setTrk) XIter(f func(k int) deltatracker.IterAction) {
	s.t.PendingDeletions().Iter(f)
}
func (s setTrk) XBatched(f func(ks []int) (int, error)) { s.mp().PendingDeletions().IterBatched(f) }
func (s setTrk) UIter(f func(k int, v val) deltatracker.IterAction) {
	s.t.PendingUpdates().Iter(func(k int) deltatracker.IterAction { return f(k, z) })
}
func (s setTrk) UBatched(f func(ks []int, vs []val) (int, error)) {
	s.mp().PendingUpdates().IterBatched(func(ks []int, _ []struct{}) (int, error) {
		return f(ks, make([]val, len(ks)))
	})
}
func (s setTrk) Repl(items []kv, fail bool) error {
	return s.t.Dataplane().ReplaceFromIter(func(f func(k int)) error {
		for _, it := range items {
			f(it.k)
		}
		if fail {
			return errIter
		}
		return nil
	})
}

// mockDP is the dataplane map behind the real CachingMap: writes fail for the keys in failUpd /
// failDel, Load fails when loadFail is set, Delete of an absent key returns errNotExists.
type mockDP struct {
	m                map[int]val
	failUpd, failDel map[int]bool
	loadFail         bool
	writes           int
}

var errWrite = errors.New("write failed")
var errNotExists = errors.New("not exists")
var errLoad = errors.New("load failed")

func (d *mockDP) Update(k int, v val) error {
	if d.failUpd[k] {
		return errWrite
	}
	d.m[k] = v
	d.writes++
	return nil
}
func (d *mockDP) Delete(k int) error {
	if d.failDel[k] {
		return errWrite
	}
	if _, ok := d.m[k]; !ok {
		return errNotExists
	}
	delete(d.m, k)
	d.writes++
	return nil
}
func (d *mockDP) Load() (map[int]val, error) {
	if d.loadFail {
		return nil, errLoad
	}
	out := map[int]val{}
	for k, v := range d.m {
		out[k] = v
	}
	return out, nil
}
func (d *mockDP) ErrIsNotExists(err error) bool { return err == errNotExists }

// mockBatchedDP additionally implements DataplaneBatchedMap: items are applied in order up to the first failure.
type mockBatchedDP struct{ *mockDP }

func (d mockBatchedDP) BatchUpdate(ks []int, vs []val) (int, error) {
	for i := range ks {
		if err := d.Update(ks[i], vs[i]); err != nil {
			return i, err
		}
	}
	return len(ks), nil
}
func (d mockBatchedDP) BatchDelete(ks []int) (int, error) {
	for i := range ks {
		if err := d.Delete(ks[i]); err != nil {
			return i, err
		}
	}
	return len(ks), nil
}

type state struct {
	cm      *cachingmap.CachingMap[int, val]
	mdp     *mockDP
	cmDes   map[int]val // the property's own desired map for the cachingmap ops
	cmLoaded bool
	cmOOB    bool // the backing map was changed behind CachingMap's back since the last load
	mode    string
	t       trk
	eqv     func(a, b val) bool
	des, dp map[int]val // the property's two plain maps
	univ    map[int]bool
	tainted bool // a ReplaceAllIter with duplicate keys happened (outside the stated precondition)
}

func showKVs(m []kv) string {
	if len(m) == 0 {
		return "-"
	}
	sort.Slice(m, func(i, j int) bool { return m[i].k < m[j].k })
	parts := make([]string, len(m))
	for i, e := range m {
		parts[i] = fmt.Sprintf("%d=%s", e.k, e.v)
	}
	return strings.Join(parts, ",")
}

func showKs(ks []int) string {
	if len(ks) == 0 {
		return "-"
	}
	sort.Ints(ks)
	parts := make([]string, len(ks))
	for i, k := range ks {
		parts[i] = strconv.Itoa(k)
	}
	return strings.Join(parts, ",")
}

func showOpt(v val, ok bool) string {
	if !ok {
		return "-"
	}
	return v.String()
}

func atoi(s string) int {
	n, err := strconv.Atoi(s)
	if err != nil {
		panic(err)
	}
	return n
}

func b2s(b bool) string {
	if b {
		return "1"
	}
	return "0"
}

func (s *state) dump() string {
	var d, p, u []kv
	var x []kv
	s.t.DIter(func(k int, v val) { d = append(d, kv{k, v}) })
	s.t.PIter(func(k int, v val) { p = append(p, kv{k, v}) })
	s.t.UIter(func(k int, v val) deltatracker.IterAction { u = append(u, kv{k, v}); return deltatracker.IterActionNoOp })
	s.t.XIter(func(k int) deltatracker.IterAction {
		v, _ := s.t.XGet(k)
		x = append(x, kv{k, v})
		return deltatracker.IterActionNoOp
	})
	return fmt.Sprintf("D[%s] P[%s] U[%s] X[%s] dl=%d pl=%d ul=%d xl=%d sync=%s",
		showKVs(d), showKVs(p), showKVs(u), showKVs(x), s.t.DLen(), s.t.PLen(), s.t.ULen(), s.t.XLen(), b2s(s.t.InSync()))
}

// oracle: the tracker's four views equal the two plain maps and their exact difference.
func (s *state) oracle(h *rt.H, op string) {
	if s.tainted {
		return
	}
	fail := func(sig, desc string, k int) {
		h.OracleFail(sig, desc, map[string]any{"op": op, "key": k, "mode": s.mode, "dump": s.dump()})
	}
	nd, np, nu, nx := 0, 0, 0, 0
	for k := range s.univ {
		dv, dok := s.t.DGet(k)
		sv, sok := s.des[k]
		if dok != sok || (dok && !s.eqv(dv, sv)) {
			fail("desired-view", "Desired().Get differs from the desired map", k)
		}
		pv, pok := s.t.PGet(k)
		spv, spok := s.dp[k]
		if pok != spok || (pok && pv != spv) {
			fail("dataplane-view", "Dataplane().Get differs from the dataplane map", k)
		}
		uv, uok := s.t.UGet(k)
		want := sok && !(spok && s.eqv(sv, spv))
		if uok != want {
			fail("pending-updates", "pending update present iff desired and (absent from dataplane or different value) violated", k)
		} else if uok && uv != dv {
			fail("pending-update-value", "pending update value is not the desired value", k)
		}
		xv, xok := s.t.XGet(k)
		if xok != (spok && !sok) {
			fail("pending-deletions", "pending deletion present iff in dataplane and not desired violated", k)
		} else if xok && xv != spv {
			fail("pending-deletion-value", "pending deletion value is not the dataplane value", k)
		}
		if sok {
			nd++
		}
		if spok {
			np++
		}
		if want {
			nu++
		}
		if spok && !sok {
			nx++
		}
	}
	if s.t.DLen() != nd || s.t.PLen() != np || s.t.ULen() != nu || s.t.XLen() != nx || s.t.InSync() != (nu == 0 && nx == 0) {
		fail("lens", fmt.Sprintf("Len()/InSync mismatch: want d=%d p=%d u=%d x=%d", nd, np, nu, nx), -1)
	}
	// Iter views visit every key exactly once with the Get value
	seen := map[int]int{}
	s.t.DIter(func(k int, v val) {
		seen[k]++
		if g, ok := s.t.DGet(k); !ok || g != v {
			fail("desired-iter", "Desired().Iter yields a KV that Get does not", k)
		}
	})
	for k, n := range seen {
		if n != 1 {
			fail("desired-iter-dup", "Desired().Iter yields a key more than once", k)
		}
	}
	if len(seen) != nd {
		fail("desired-iter-count", "Desired().Iter misses keys", -1)
	}
	seen = map[int]int{}
	s.t.PIter(func(k int, v val) {
		seen[k]++
		if g, ok := s.t.PGet(k); !ok || g != v {
			fail("dataplane-iter", "Dataplane().Iter yields a KV that Get does not", k)
		}
	})
	for k, n := range seen {
		if n != 1 {
			fail("dataplane-iter-dup", "Dataplane().Iter yields a key more than once", k)
		}
	}
	if len(seen) != np {
		fail("dataplane-iter-count", "Dataplane().Iter misses keys", -1)
	}
}

func parseActs(dflt string, ov []string) func(k int) deltatracker.IterAction {
	conv := func(a int) deltatracker.IterAction {
		switch a {
		case 0:
			return deltatracker.IterActionNoOp
		case 1:
			return deltatracker.IterActionUpdateDataplane
		case 2:
			return deltatracker.IterActionNoOpStopIteration
		}
		panic("bad action")
	}
	d := conv(atoi(dflt))
	m := map[int]deltatracker.IterAction{}
	for _, w := range ov {
		p := strings.Split(w, ":")
		k := atoi(p[0])
		if _, dup := m[k]; !dup { // first override wins (as in the model's find?)
			m[k] = conv(atoi(p[1]))
		}
	}
	return func(k int) deltatracker.IterAction {
		if a, ok := m[k]; ok {
			return a
		}
		return d
	}
}

// applyFn family shared with the model: at most c items per call (0 = no limit), error at the first key in F.
func applyLimit(c int, F map[int]bool, ks []int) (int, error) {
	lim := len(ks)
	if c != 0 && c < lim {
		lim = c
	}
	for i := 0; i < lim; i++ {
		if F[ks[i]] {
			return i, errIter
		}
	}
	return lim, nil
}

func (s *state) touch(k int) { s.univ[k] = true }

// mk builds a value; the set tracker has no values, so mode s normalises them to 0.0 (the driver does the same).
func (s *state) mk(p, id int) val {
	if s.mode == "s" {
		return z
	}
	return val{p, id}
}

func errStr(err error) string {
	if err != nil {
		return "err"
	}
	return "ok"
}

func keySet(ws []string) map[int]bool {
	m := map[int]bool{}
	for _, x := range ws {
		m[atoi(x)] = true
	}
	return m
}

func mapKVs(m map[int]val) []kv {
	var out []kv
	for k, v := range m {
		out = append(out, kv{k, v})
	}
	return out
}

// execCM runs the cachingmap ops on the REAL CachingMap over the mock dataplane map.
func execCM(h *rt.H, s *state, w []string, op string) string {
	out := "ok"
	applied := false
	switch w[0] {
	case "cmnew":
		s.mdp = &mockDP{m: map[int]val{}, failUpd: map[int]bool{}, failDel: map[int]bool{}}
		if w[1] != "0" {
			s.cm = cachingmap.New[int, val]("verif", mockBatchedDP{s.mdp})
		} else {
			s.cm = cachingmap.New[int, val]("verif", s.mdp)
		}
		s.cmDes, s.cmLoaded, s.cmOOB = map[int]val{}, false, false
		return "ok"
	case "cmdset":
		k, v := atoi(w[1]), val{atoi(w[2]), atoi(w[3])}
		s.cm.Desired().Set(k, v)
		s.cmDes[k] = v
	case "cmddel":
		s.cm.Desired().Delete(atoi(w[1]))
		delete(s.cmDes, atoi(w[1]))
	case "cmoob":
		delete(s.mdp.m, atoi(w[1]))
		s.cmOOB = true
		h.Count("cm:out-of-band-delete")
	case "cmddelall":
		s.cm.Desired().DeleteAll()
		s.cmDes = map[int]val{}
	case "cmload":
		s.mdp.loadFail = w[1] != "0"
		err := s.cm.LoadCacheFromDataplane()
		s.mdp.loadFail = false
		if err == nil {
			s.cmLoaded = true
			s.cmOOB = false
		}
		out = errStr(err)
	case "cmau", "cmad", "cmaa":
		s.mdp.loadFail = w[1] != "0"
		s.mdp.failUpd, s.mdp.failDel = map[int]bool{}, map[int]bool{}
		var err error
		switch w[0] {
		case "cmau":
			s.mdp.failUpd = keySet(w[2:])
			err = s.cm.ApplyUpdatesOnly()
		case "cmad":
			s.mdp.failDel = keySet(w[2:])
			err = s.cm.ApplyDeletionsOnly()
		default:
			for _, x := range w[2:] {
				if strings.HasPrefix(x, "d:") {
					s.mdp.failDel[atoi(x[2:])] = true
				} else {
					s.mdp.failUpd[atoi(x[2:])] = true
				}
			}
			err = s.cm.ApplyAllChanges()
			applied = err == nil
		}
		loadFailed := s.mdp.loadFail && !s.cmLoaded
		s.mdp.loadFail = false
		s.mdp.failUpd, s.mdp.failDel = map[int]bool{}, map[int]bool{}
		if !loadFailed {
			if !s.cmLoaded {
				s.cmOOB = false // this apply loaded the cache
			}
			s.cmLoaded = true
		}
		if err != nil {
			h.Count("cm:apply-err")
		}
		out = errStr(err)
	case "cmdump":
		var d, p []kv
		s.cm.Desired().Iter(func(k int, v val) { d = append(d, kv{k, v}) })
		s.cm.Dataplane().Iter(func(k int, v val) { p = append(p, kv{k, v}) })
		out = fmt.Sprintf("D[%s] P[%s] R[%s] loaded=%s", showKVs(d), showKVs(p), showKVs(mapKVs(s.mdp.m)), b2s(s.cmLoaded))
	default:
		panic("unknown op " + op)
	}
	// oracle on the real code: the desired view is the desired map; once loaded the cached dataplane view IS
	// the real map (so the tracker reports the exact difference whatever failed); after a successful
	// ApplyAllChanges the real map equals the desired map
	got := map[int]val{}
	s.cm.Desired().Iter(func(k int, v val) { got[k] = v })
	if fmt.Sprint(showKVs(mapKVs(got))) != fmt.Sprint(showKVs(mapKVs(s.cmDes))) {
		h.OracleFail("cm-desired", "CachingMap desired view differs from the desired map", map[string]any{"op": op})
	}
	if s.cmLoaded && !s.cmOOB {
		cache := map[int]val{}
		s.cm.Dataplane().Iter(func(k int, v val) { cache[k] = v })
		if showKVs(mapKVs(cache)) != showKVs(mapKVs(s.mdp.m)) {
			h.OracleFail("cm-cache-vs-real", "cached dataplane view differs from the real map after "+w[0],
				map[string]any{"op": op, "cache": showKVs(mapKVs(cache)), "real": showKVs(mapKVs(s.mdp.m))})
		}
	}
	if applied && !s.cmOOB {
		if showKVs(mapKVs(s.mdp.m)) != showKVs(mapKVs(s.cmDes)) {
			h.OracleFail("cm-apply-not-converged", "ApplyAllChanges returned nil but the real map differs from the desired map",
				map[string]any{"op": op, "real": showKVs(mapKVs(s.mdp.m)), "desired": showKVs(mapKVs(s.cmDes))})
		}
		before := s.mdp.writes
		if err := s.cm.ApplyAllChanges(); err != nil || s.mdp.writes != before {
			// beyond the property text (it follows from "nothing pending", which the oracle above checks): observation only
			h.Count("obs:cm-apply-not-idempotent")
		}
	}
	return out
}

func exec(h *rt.H, s *state, op string) string {
	w := strings.Fields(op)
	if strings.HasPrefix(w[0], "cm") {
		if s.cm == nil && w[0] != "cmnew" {
			execCM(h, s, []string{"cmnew", "0"}, "cmnew 0")
		}
		return execCM(h, s, w, op)
	}
	out := "ok"
	switch w[0] {
	case "new":
		s.mode = w[1]
		s.des, s.dp, s.univ, s.tainted = map[int]val{}, map[int]val{}, map[int]bool{}, false
		switch w[1] {
		case "p":
			s.eqv = func(a, b val) bool { return a.P == b.P }
			s.t = mapTrk{deltatracker.New[int, val](deltatracker.WithValuesEqualFn[int, val](s.eqv))}
		case "d":
			s.eqv = func(a, b val) bool { return a == b }
			s.t = mapTrk{deltatracker.New[int, val]()} // default reflect.DeepEqual
		case "s":
			s.eqv = func(a, b val) bool { return true }
			s.t = setTrk{deltatracker.NewSetDeltaTracker[int]()}
		default:
			panic("bad mode")
		}
		return "ok"
	case "dset":
		k, v := atoi(w[1]), s.mk(atoi(w[2]), atoi(w[3]))
		s.touch(k)
		s.t.DSet(k, v)
		s.des[k] = v
	case "pset":
		k, v := atoi(w[1]), s.mk(atoi(w[2]), atoi(w[3]))
		s.touch(k)
		s.t.PSet(k, v)
		s.dp[k] = v
	case "dsetr":
		lo, n, p, id := atoi(w[1]), atoi(w[2]), atoi(w[3]), atoi(w[4])
		for j := 0; j < n; j++ {
			s.touch(lo + j)
			s.t.DSet(lo+j, s.mk(p, id+j))
			s.des[lo+j] = s.mk(p, id+j)
		}
	case "psetr":
		lo, n, p, id := atoi(w[1]), atoi(w[2]), atoi(w[3]), atoi(w[4])
		for j := 0; j < n; j++ {
			s.touch(lo + j)
			s.t.PSet(lo+j, s.mk(p, id+j))
			s.dp[lo+j] = s.mk(p, id+j)
		}
	case "ddel":
		k := atoi(w[1])
		s.touch(k)
		s.t.DDel(k)
		delete(s.des, k)
	case "pdel":
		k := atoi(w[1])
		s.touch(k)
		if _, pend := s.t.UGet(k); pend {
			if _, indp := s.t.PGet(k); indp {
				// dataplane delete of a key whose pending update sits on top of a different dataplane value
				h.Count("pdel:pending-value-mismatch")
			} else {
				h.Count("pdel:pending-absent")
			}
		}
		s.t.PDel(k)
		delete(s.dp, k)
	case "ddelall":
		s.t.DDelAll()
		s.des = map[int]val{}
	case "pdelall":
		s.t.PDelAll()
		s.dp = map[int]val{}
	case "dget":
		s.touch(atoi(w[1]))
		out = showOpt(s.t.DGet(atoi(w[1])))
	case "pget":
		s.touch(atoi(w[1]))
		out = showOpt(s.t.PGet(atoi(w[1])))
	case "uget":
		s.touch(atoi(w[1]))
		out = showOpt(s.t.UGet(atoi(w[1])))
	case "xget":
		s.touch(atoi(w[1]))
		out = showOpt(s.t.XGet(atoi(w[1])))
	case "repl":
		fail := w[1] == "1"
		var items []kv
		dup := false
		seen := map[int]bool{}
		for _, x := range w[2:] {
			p := strings.Split(x, ":")
			it := kv{atoi(p[0]), s.mk(atoi(p[1]), atoi(p[2]))}
			if seen[it.k] {
				dup = true
			}
			seen[it.k] = true
			s.touch(it.k)
			items = append(items, it)
		}
		if dup && os.Getenv("VERIF_C18_DUPKEYS") == "strict" {
			// experiment mode (used to evaluate a "last value wins" fix of ReplaceAllIter): keep the oracle on
			h.Count("repl:dup-keys-strict")
		} else if dup {
			// the excluded point: executed on the real code and compared with the model, but outside the
			// property's precondition (iterator yields distinct keys), so the oracle stops for this case
			s.tainted = true
			h.Count("repl:dup-keys")
		}
		err := s.t.Repl(items, fail)
		if (err != nil) != fail {
			h.OracleFail("repl-err", "ReplaceAllIter error iff the iterator failed violated", map[string]any{"op": op})
		}
		if err != nil {
			out = "err"
			h.Count("repl:fail")
		} else {
			s.dp = map[int]val{}
		}
		for _, it := range items {
			s.dp[it.k] = it.v
		}
	case "uiter":
		act := parseActs(w[1], w[2:])
		var visited []kv
		s.t.UIter(func(k int, v val) deltatracker.IterAction {
			visited = append(visited, kv{k, v})
			a := act(k)
			if a == deltatracker.IterActionUpdateDataplane {
				s.dp[k] = v // "as if the function had called Dataplane().Set(k, v)"
			}
			h.Count(fmt.Sprintf("uiter-act:%d", a))
			return a
		})
		out = showKVs(visited)
	case "xiter":
		act := parseActs(w[1], w[2:])
		var visited []int
		s.t.XIter(func(k int) deltatracker.IterAction {
			visited = append(visited, k)
			a := act(k)
			if a == deltatracker.IterActionUpdateDataplane {
				delete(s.dp, k)
			}
			h.Count(fmt.Sprintf("xiter-act:%d", a))
			return a
		})
		out = showKs(visited)
	case "ubatch":
		c := atoi(w[1])
		F := map[int]bool{}
		for _, x := range w[2:] {
			F[atoi(x)] = true
		}
		total, calls := 0, 0
		s.t.UBatched(func(ks []int, vs []val) (int, error) {
			n, err := applyLimit(c, F, ks)
			for i := 0; i < n; i++ {
				s.dp[ks[i]] = vs[i]
			}
			total += n
			calls++
			if len(ks) == 128 {
				h.Count("ubatch:full-batch")
			}
			return n, err
		})
		if calls > 1 {
			h.Count("ubatch:multi-call")
		}
		out = fmt.Sprintf("applied=%d", total)
	case "xbatch":
		c := atoi(w[1])
		F := map[int]bool{}
		for _, x := range w[2:] {
			F[atoi(x)] = true
		}
		total, calls := 0, 0
		s.t.XBatched(func(ks []int) (int, error) {
			n, err := applyLimit(c, F, ks)
			for i := 0; i < n; i++ {
				delete(s.dp, ks[i])
			}
			total += n
			calls++
			if len(ks) == 128 {
				h.Count("xbatch:full-batch")
			}
			return n, err
		})
		if calls > 1 {
			h.Count("xbatch:multi-call")
		}
		out = fmt.Sprintf("applied=%d", total)
	case "dump":
		out = s.dump()
	default:
		panic("unknown op " + op)
	}
	s.oracle(h, op)
	return out
}

// ---- generator ---------------------------------------------------------------

type gen struct {
	h      *rt.H
	nk     int // key domain
	np     int // payload domain
	nextID int
	set    bool
}

func (g *gen) key() int { return g.h.Intn(g.nk) }
func (g *gen) val() (int, int) {
	if g.set {
		return 0, 0
	}
	g.nextID++
	return g.h.Intn(g.np), g.nextID
}

func (g *gen) acts() string {
	h := g.h
	parts := []string{strconv.Itoa(rt.Pick(h, []int{0, 1, 1, 1, 2}))}
	for i := 0; i < h.Intn(4); i++ {
		parts = append(parts, fmt.Sprintf("%d:%d", g.key(), h.Intn(3)))
	}
	return strings.Join(parts, " ")
}

func (g *gen) failKeys(max int) string {
	var parts []string
	for i := 0; i < g.h.Intn(max+1); i++ {
		parts = append(parts, strconv.Itoa(g.key()))
	}
	return strings.Join(parts, " ")
}

func (g *gen) replOp(allowDup bool) string {
	h := g.h
	fail := 0
	if h.Chance(0.25) {
		fail = 1
	}
	perm := h.Rng.Perm(g.nk)
	n := h.Intn(g.nk + 1)
	if g.nk > 16 {
		n = h.Intn(8)
		if h.Chance(0.3) {
			n = g.nk/2 + h.Intn(g.nk/2)
		}
	}
	parts := []string{"repl", strconv.Itoa(fail)}
	for i := 0; i < n; i++ {
		p, id := g.val()
		parts = append(parts, fmt.Sprintf("%d:%d:%d", perm[i], p, id))
	}
	if allowDup && n > 0 && h.Chance(0.04) {
		p, id := g.val()
		parts = append(parts, fmt.Sprintf("%d:%d:%d", perm[h.Intn(n)], p, id))
	}
	return strings.Join(parts, " ")
}

func genCMCase(h *rt.H) []string {
	g := &gen{h: h, nk: rt.Pick(h, []int{2, 3, 5, 8}), np: rt.Pick(h, []int{1, 2, 3})}
	ops := []string{fmt.Sprintf("cmnew %d", h.Intn(2))}
	fk := func(tag string) string {
		var parts []string
		for i := 0; i < rt.Pick(h, []int{0, 0, 0, 1, 1, 2}); i++ {
			parts = append(parts, tag+strconv.Itoa(g.key()))
		}
		return strings.Join(parts, " ")
	}
	lf := func() int {
		if h.Chance(0.12) {
			return 1
		}
		return 0
	}
	n := 4 + h.Intn(28)
	for i := 0; i < n; i++ {
		switch h.Intn(14) {
		case 0, 1, 2, 3, 4:
			p, id := g.val()
			ops = append(ops, fmt.Sprintf("cmdset %d %d %d", g.key(), p, id))
		case 5, 6:
			ops = append(ops, fmt.Sprintf("cmddel %d", g.key()))
		case 7:
			if h.Chance(0.25) {
				ops = append(ops, fmt.Sprintf("cmoob %d", g.key()))
			} else if h.Chance(0.3) {
				ops = append(ops, "cmddelall")
			} else {
				ops = append(ops, fmt.Sprintf("cmload %d", lf()))
			}
		case 8:
			ops = append(ops, strings.TrimSpace(fmt.Sprintf("cmau %d %s", lf(), fk(""))))
		case 9:
			ops = append(ops, strings.TrimSpace(fmt.Sprintf("cmad %d %s", lf(), fk(""))))
		case 10, 11:
			ops = append(ops, strings.TrimSpace(fmt.Sprintf("cmaa %d %s %s", lf(), fk("d:"), fk("u:"))))
		default:
			ops = append(ops, "cmdump")
		}
	}
	return append(ops, "cmload 0", "cmaa 0", "cmdump")
}

func genCase(h *rt.H) []string {
	if h.Chance(0.2) {
		return genCMCase(h)
	}
	g := &gen{h: h}
	mode := rt.Pick(h, []string{"p", "p", "p", "d", "d", "s"})
	g.set = mode == "s"
	ops := []string{"new " + mode}
	big := h.Chance(0.06)
	if big {
		// many keys: the IterBatched batch boundary (128) and multi-batch paths
		g.nk = rt.Pick(h, []int{127, 128, 129, 200, 256, 257, 300, 400})
		g.np = 2
		steps := 3 + h.Intn(5)
		for i := 0; i < steps; i++ {
			switch h.Intn(8) {
			case 0, 1:
				p, id := g.val()
				lo := h.Intn(g.nk / 2)
				n := 1 + h.Intn(g.nk-lo)
				g.nextID += n
				ops = append(ops, fmt.Sprintf("dsetr %d %d %d %d", lo, n, p, id))
			case 2:
				p, id := g.val()
				lo := h.Intn(g.nk / 2)
				n := 1 + h.Intn(g.nk-lo)
				g.nextID += n
				ops = append(ops, fmt.Sprintf("psetr %d %d %d %d", lo, n, p, id))
			case 3, 4:
				c := rt.Pick(h, []int{0, 0, 0, 1, 7, 127, 128})
				ops = append(ops, strings.TrimSpace(fmt.Sprintf("ubatch %d %s", c, g.failKeys(5))))
			case 5:
				c := rt.Pick(h, []int{0, 0, 0, 1, 7, 127, 128})
				ops = append(ops, strings.TrimSpace(fmt.Sprintf("xbatch %d %s", c, g.failKeys(5))))
			case 6:
				ops = append(ops, g.replOp(false))
			default:
				ops = append(ops, rt.Pick(h, []string{"uiter " + g.acts(), "xiter " + g.acts(), "ddel " + strconv.Itoa(g.key()), "pdel " + strconv.Itoa(g.key())}))
			}
			if h.Chance(0.5) {
				ops = append(ops, "dump")
			}
		}
		ops = append(ops, "dump")
		return ops
	}
	g.nk = rt.Pick(h, []int{1, 2, 3, 4, 6, 8})
	g.np = rt.Pick(h, []int{1, 2, 3})
	n := 3 + h.Intn(30)
	for i := 0; i < n; i++ {
		switch h.Intn(20) {
		case 0, 1, 2, 3:
			p, id := g.val()
			ops = append(ops, fmt.Sprintf("dset %d %d %d", g.key(), p, id))
		case 4, 5, 6:
			p, id := g.val()
			ops = append(ops, fmt.Sprintf("pset %d %d %d", g.key(), p, id))
		case 7, 8:
			ops = append(ops, fmt.Sprintf("ddel %d", g.key()))
		case 9, 10:
			ops = append(ops, fmt.Sprintf("pdel %d", g.key()))
		case 11:
			ops = append(ops, rt.Pick(h, []string{"ddelall", "pdelall"}))
		case 12, 13:
			ops = append(ops, g.replOp(true))
		case 14, 15:
			ops = append(ops, "uiter "+g.acts())
		case 16:
			ops = append(ops, "xiter "+g.acts())
		case 17:
			c := rt.Pick(h, []int{0, 0, 1, 2})
			ops = append(ops, strings.TrimSpace(fmt.Sprintf("%s %d %s", rt.Pick(h, []string{"ubatch", "xbatch"}), c, g.failKeys(2))))
		case 18:
			ops = append(ops, fmt.Sprintf("%s %d", rt.Pick(h, []string{"dget", "pget", "uget", "xget"}), g.key()))
		default:
			ops = append(ops, "dump")
		}
	}
	ops = append(ops, "dump")
	return ops
}

func main() {
	h := rt.New()
	defer h.Close()
	h.Rule = "20% of cases drive the real cachingmap.CachingMap over a mock dataplane map (plain or batched; desired set/delete/deleteall, load, ApplyUpdatesOnly/ApplyDeletionsOnly/ApplyAllChanges with failing writes on chosen keys and failing loads, dumps incl. the real map); the rest: case = `new <mode>` (p: valuesEqual on payload only, d: default DeepEqual, s: real SetDeltaTracker) + either 3..32 ops over 1..8 keys " +
		"{dset,pset,ddel,pdel,ddelall,pdelall,repl(ok|failing iterator|4% duplicate keys),uiter,xiter,ubatch,xbatch,gets,dump} or a big case (127..400 keys, range sets, " +
		"IterBatched across the 128 batch boundary with failing keys and chunk limits); fresh object id per Set; distinct = distinct op sequence; " +
		"non-trivial = case has a pending update AND a pending deletion at some dump and uses an iterating/replace op"
	run := func(ops []string, tag string) {
		h.Case(tag)
		s := &state{}
		sawPending, sawIter := false, false
		for _, op := range ops {
			if s.t == nil && !strings.HasPrefix(op, "new ") && !strings.HasPrefix(op, "cm") {
				// shrunk/replayed case without a leading new: default tracker
				exec(h, s, "new d")
			}
			out := exec(h, s, op)
			h.Op(op, out)
			name := strings.Fields(op)[0]
			h.Count("op:" + name)
			if name == "dump" && !strings.Contains(out, "U[-]") && !strings.Contains(out, "X[-]") {
				sawPending = true
			}
			switch name {
			case "repl", "uiter", "xiter", "ubatch", "xbatch":
				sawIter = true
			}
		}
		h.Count("mode:" + s.mode)
		if sawPending && sawIter {
			h.Nontrivial(strings.Join(ops, ";"))
		}
		h.Sample()
	}
	if h.Replay != "" {
		run(h.ReplayLines(), "replay")
		return
	}
	for i := 0; i < h.N; i++ {
		run(genCase(h), "gen")
	}
}
