// C39 correspondence harness: drives the real kube-controllers IPPool controller (reconcile =
// reconcileConditions + reconcileFinalizer) against a fake projectcalico clientset and unstarted
// informers, and evaluates the property's own oracle on the real code with net/netip.
package main

import (
	"context"
	"fmt"
	"math/big"
	"net/netip"
	"slices"
	"sort"
	"strconv"
	"strings"
	"time"

	v3 "github.com/projectcalico/api/pkg/apis/projectcalico/v3"
	"github.com/projectcalico/api/pkg/client/clientset_generated/clientset/fake"
	apierrors "k8s.io/apimachinery/pkg/api/errors"
	metav1 "k8s.io/apimachinery/pkg/apis/meta/v1"
	"k8s.io/apimachinery/pkg/runtime"
	"k8s.io/apimachinery/pkg/runtime/schema"
	k8stesting "k8s.io/client-go/testing"
	"k8s.io/client-go/tools/cache"

	"github.com/projectcalico/calico/kube-controllers/pkg/controllers/ippool"
	"github.com/projectcalico/calico/libcalico-go/lib/ipam"
	cnet "github.com/projectcalico/calico/libcalico-go/lib/net"

	"verif/harness/rt"
)

type fakeIPAM struct{ ipam.Interface }

func (f *fakeIPAM) ReleasePoolAffinities(ctx context.Context, pool cnet.IPNet) error { return nil }

type state struct {
	cli    *fake.Clientset
	pools  cache.SharedIndexInformer
	blocks cache.SharedIndexInformer
	ctrl   *ippool.IPPoolController
	cidrs  map[string]string // pool name -> cidr token (as created)

	// write-failure plan of the pass in progress (nil outside a pass)
	inPass     bool
	failStatus map[string]bool
	failFin    map[string]bool
}

var poolGVR = v3.SchemeGroupVersion.WithResource("ippools")

// installReactor makes the fake clientset behave like the API server for IPPool writes issued by
// the controller: `status` is a subresource (UpdateStatus changes only the status, Update never
// changes it), and the (verb, pool) pairs of the current failure plan fail with a conflict.
func (s *state) installReactor() {
	s.cli.PrependReactor("update", "ippools", func(a k8stesting.Action) (bool, runtime.Object, error) {
		if !s.inPass {
			return false, nil, nil // the harness's own writes (events) go straight to the tracker
		}
		obj := a.(k8stesting.UpdateAction).GetObject().(*v3.IPPool)
		sub := a.GetSubresource()
		if (sub == "status" && s.failStatus[obj.Name]) || (sub == "" && s.failFin[obj.Name]) {
			return true, nil, apierrors.NewConflict(schema.GroupResource{Group: "projectcalico.org", Resource: "ippools"}, obj.Name, fmt.Errorf("injected write failure"))
		}
		curObj, err := s.cli.Tracker().Get(poolGVR, "", obj.Name)
		if err != nil {
			return true, nil, err
		}
		cur := curObj.(*v3.IPPool)
		var merged *v3.IPPool
		if sub == "status" {
			merged = cur.DeepCopy()
			merged.Status = obj.Status.DeepCopy()
		} else {
			merged = obj.DeepCopy()
			merged.Status = cur.Status.DeepCopy()
		}
		if err := s.cli.Tracker().Update(poolGVR, merged, ""); err != nil {
			return true, nil, err
		}
		return true, merged.DeepCopy(), nil
	})
}

var ctx = context.Background()

func newState() *state {
	s := &state{cli: fake.NewClientset(), cidrs: map[string]string{}}
	s.pools = cache.NewSharedIndexInformer(&cache.ListWatch{}, &v3.IPPool{}, 0, cache.Indexers{})
	s.blocks = cache.NewSharedIndexInformer(&cache.ListWatch{}, &v3.IPAMBlock{}, 0, cache.Indexers{})
	s.ctrl = ippool.NewController(ctx, s.cli, s.pools, s.blocks, &fakeIPAM{}).(*ippool.IPPoolController)
	s.installReactor()
	return s
}

// ---- tokens -------------------------------------------------------------------

// cidrString turns `4:<hex>/<len>` / `6:<hex>/<len>` / `bad` into Spec.CIDR text.
func cidrString(tok string) string {
	if tok == "bad" {
		return "not-a-cidr"
	}
	return prefixOf(tok).String()
}

func prefixOf(tok string) netip.Prefix {
	fam, rest, _ := strings.Cut(tok, ":")
	h, l, _ := strings.Cut(rest, "/")
	n, ok := new(big.Int).SetString(h, 16)
	if !ok {
		panic("bad token " + tok)
	}
	bits, _ := strconv.Atoi(l)
	size := 4
	if fam == "6" {
		size = 16
	}
	b := make([]byte, size)
	n.FillBytes(b)
	a, _ := netip.AddrFromSlice(b)
	return netip.PrefixFrom(a, bits)
}

// ---- API-server behaviour the fake clientset does not have -------------------------

func (s *state) list() []*v3.IPPool {
	l, err := s.cli.ProjectcalicoV3().IPPools().List(ctx, metav1.ListOptions{})
	if err != nil {
		panic(err)
	}
	out := make([]*v3.IPPool, 0, len(l.Items))
	for i := range l.Items {
		out = append(out, l.Items[i].DeepCopy())
	}
	sort.Slice(out, func(i, j int) bool { return out[i].Name < out[j].Name })
	return out
}

func (s *state) get(name string) *v3.IPPool {
	p, err := s.cli.ProjectcalicoV3().IPPools().Get(ctx, name, metav1.GetOptions{})
	if err != nil {
		return nil
	}
	return p.DeepCopy()
}

func (s *state) put(p *v3.IPPool) {
	if _, err := s.cli.ProjectcalicoV3().IPPools().Update(ctx, p, metav1.UpdateOptions{}); err != nil {
		panic(err)
	}
}

// gc: an object with a deletion timestamp and no finalizers is removed by the API server.
func (s *state) gc() {
	for _, p := range s.list() {
		if p.DeletionTimestamp != nil && len(p.Finalizers) == 0 {
			if err := s.cli.ProjectcalicoV3().IPPools().Delete(ctx, p.Name, metav1.DeleteOptions{}); err != nil {
				panic(err)
			}
		}
	}
}

// syncInformer: the informer cache catches up with the API server.
func (s *state) syncInformer() {
	var objs []any
	for _, p := range s.list() {
		objs = append(objs, p)
	}
	if err := s.pools.GetIndexer().Replace(objs, ""); err != nil {
		panic(err)
	}
}

func allocatable(p *v3.IPPool) (string, bool, bool) { // text, isTrue, isFalse
	if p.Status == nil {
		return "-", false, false
	}
	for _, c := range p.Status.Conditions {
		if c.Type == v3.IPPoolConditionAllocatable {
			if c.Status == metav1.ConditionTrue {
				return "T/" + reasonName(c.Reason), true, false
			}
			return "F/" + reasonName(c.Reason), false, c.Status == metav1.ConditionFalse
		}
	}
	return "-", false, false
}

// reasonName names the v3 constant (the model is about WHICH reason is set, not its spelling).
func reasonName(r string) string {
	switch r {
	case v3.IPPoolReasonOK:
		return "OK"
	case v3.IPPoolReasonDisabled:
		return "Disabled"
	case v3.IPPoolReasonTerminating:
		return "Terminating"
	case v3.IPPoolReasonCIDROverlap:
		return "CIDROverlap"
	}
	return r
}

func hasFin(p *v3.IPPool) bool { return slices.Contains(p.Finalizers, ippool.IPPoolFinalizer) }

func b01(b bool) string {
	if b {
		return "1"
	}
	return "0"
}

func (s *state) show() string {
	var parts []string
	for _, p := range s.list() {
		c, _, _ := allocatable(p)
		parts = append(parts, fmt.Sprintf("%s:%s:%s:%s:%s", p.Name, c, b01(hasFin(p)), b01(p.DeletionTimestamp != nil), b01(p.Spec.Disabled)))
	}
	o := "-"
	if len(parts) > 0 {
		o = strings.Join(parts, ",")
	}
	return fmt.Sprintf("%s|blocks=%d", o, len(s.blocks.GetIndexer().List()))
}

// ---- the property's oracle on the real code ------------------------------------------

type snap struct {
	name                          string
	pfx                           netip.Prefix
	valid                         bool
	created                       int64
	t, f, deleting, disabled, fin bool
}

func (s *state) snapshot() map[string]snap {
	m := map[string]snap{}
	for _, p := range s.list() {
		_, t, f := allocatable(p)
		sn := snap{name: p.Name, created: p.CreationTimestamp.Unix(), t: t, f: f, deleting: p.DeletionTimestamp != nil,
			disabled: p.Spec.Disabled, fin: hasFin(p)}
		if tok := s.cidrs[p.Name]; tok != "bad" {
			sn.pfx, sn.valid = prefixOf(tok), true
		}
		m[p.Name] = sn
	}
	return m
}

func before(a, b snap) bool { // a sorts before b among incumbents
	if a.created != b.created {
		return a.created < b.created
	}
	return a.name < b.name
}

func eff(p snap) bool { return p.t && !p.disabled && !p.deleting && p.valid } // True and usable by IPAM

func effDisjoint(m map[string]snap) bool {
	for a, pa := range m {
		for b, pb := range m {
			if a < b && eff(pa) && eff(pb) && pa.pfx.Overlaps(pb.pfx) {
				return false
			}
		}
	}
	return true
}

func (s *state) oracle(h *rt.H, pre, post map[string]snap, blocks []netip.Prefix, history []string) {
	in := map[string]any{"history": history}
	failing := len(s.failStatus)+len(s.failFin) > 0
	// (1F) whatever writes fail, a pass never makes two effectively-allocatable pools overlap
	if effDisjoint(pre) && !effDisjoint(post) {
		h.OracleFail("effective-overlap", "a pass (possibly with failed writes) left two enabled, non-deleting Allocatable=True pools overlapping although none overlapped before", in)
	}
	names := make([]string, 0, len(post))
	for n := range post {
		names = append(names, n)
	}
	sort.Strings(names)
	// (1) no two allocatable pools overlap
	for i, a := range names {
		for _, b := range names[i+1:] {
			pa, pb := post[a], post[b]
			if !failing && pa.t && pb.t && pa.valid && pb.valid && pa.pfx.Overlaps(pb.pfx) {
				h.OracleFail("allocatable-overlap", fmt.Sprintf("pools %s and %s are both Allocatable=True and overlap", a, b), in)
			}
		}
	}
	for n, p := range pre {
		q, present := post[n]
		// (2) an incumbent is displaced only by an older incumbent that stays allocatable
		if p.t && !p.deleting && !p.disabled && p.valid && present && !q.t {
			ok := false
			for m, o := range pre {
				if m != n && o.t && !o.deleting && !o.disabled && o.valid && before(o, p) && o.pfx.Overlaps(p.pfx) && post[m].t {
					ok = true
				}
			}
			if !ok {
				h.OracleFail("incumbent-displaced", fmt.Sprintf("pool %s was Allocatable=True and lost it without an older allocatable overlapping pool", n), in)
			}
		}
		// (3) a terminating pool masks overlapping pools that were not already allocatable
		if p.deleting && !p.disabled && p.valid {
			for m, o := range pre {
				if m != n && !(o.t && !o.deleting) && !o.deleting && o.valid && o.pfx.Overlaps(p.pfx) && post[m].t {
					h.OracleFail("terminating-unmasked", fmt.Sprintf("pool %s became Allocatable=True while overlapping terminating pool %s", m, n), in)
				}
			}
		}
		// (4) a pool carrying the finalizer is not deleted while blocks exist inside it
		if !present && p.deleting && p.fin && p.valid {
			for _, b := range blocks {
				if p.pfx.Contains(b.Addr()) {
					h.OracleFail("deleted-with-blocks", fmt.Sprintf("pool %s was removed although block %s is inside it", n, b), in)
				}
			}
		}
	}
	// (4') every allocatable pool carries the finalizer after a reconcile
	for n, q := range post {
		if q.t && !q.deleting && !q.fin && q.valid && (s.failFin[n] || s.failStatus[n]) {
			h.Count("obs:true-without-finalizer") // the documented transient limit under write failures (finalizer_write_failure_witness)
		}
		if q.t && !q.deleting && !q.fin && q.valid && !s.failFin[n] && !s.failStatus[n] { // demanded only when this pool's writes went through
			h.OracleFail("allocatable-without-finalizer", fmt.Sprintf("pool %s is Allocatable=True but has no finalizer after reconcile", n), in)
		}
	}
}

// ---- exec ---------------------------------------------------------------------------

type caseCtx struct {
	s       *state
	history []string
}

func exec(h *rt.H, c *caseCtx, op string) string {
	w := strings.Fields(op)
	s := c.s
	c.history = append(c.history, op)
	switch w[0] {
	case "new":
		c.s = newState()
		c.history = []string{op}
		return "ok"
	case "create":
		if s.get(w[1]) != nil {
			return s.show()
		}
		t, _ := strconv.ParseInt(w[3], 10, 64)
		p := &v3.IPPool{ObjectMeta: metav1.ObjectMeta{Name: w[1], CreationTimestamp: metav1.NewTime(time.Unix(t, 0))},
			Spec: v3.IPPoolSpec{CIDR: cidrString(w[2])}}
		if _, err := s.cli.ProjectcalicoV3().IPPools().Create(ctx, p, metav1.CreateOptions{}); err != nil {
			panic(err)
		}
		s.cidrs[w[1]] = w[2]
		return s.show()
	case "disable":
		if p := s.get(w[1]); p != nil {
			p.Spec.Disabled = w[2] == "1"
			s.put(p)
		}
		return s.show()
	case "delete":
		if p := s.get(w[1]); p != nil {
			if p.DeletionTimestamp == nil {
				now := metav1.NewTime(time.Unix(1000, 0))
				p.DeletionTimestamp = &now
				s.put(p)
			}
			s.gc()
		}
		return s.show()
	case "addblock", "delblock":
		b := &v3.IPAMBlock{ObjectMeta: metav1.ObjectMeta{Name: strings.NewReplacer(":", "-", "/", "-").Replace(w[1])},
			Spec: v3.IPAMBlockSpec{CIDR: prefixOf(w[1]).String()}}
		if w[0] == "addblock" {
			_ = s.blocks.GetIndexer().Add(b)
		} else {
			_ = s.blocks.GetIndexer().Delete(b)
		}
		return s.show()
	case "setcond":
		if p := s.get(w[1]); p != nil {
			switch w[2] {
			case "N":
				p.Status = nil
			case "T":
				p.Status = &v3.IPPoolStatus{Conditions: []metav1.Condition{{Type: v3.IPPoolConditionAllocatable, Status: metav1.ConditionTrue, Reason: "Preset"}}}
			case "F":
				p.Status = &v3.IPPoolStatus{Conditions: []metav1.Condition{{Type: v3.IPPoolConditionAllocatable, Status: metav1.ConditionFalse, Reason: "Preset"}}}
			}
			s.put(p)
		}
		return s.show()
	case "setfin":
		if p := s.get(w[1]); p != nil {
			p.Finalizers = slices.DeleteFunc(p.Finalizers, func(f string) bool { return f == ippool.IPPoolFinalizer })
			if w[2] == "1" {
				p.Finalizers = append(p.Finalizers, ippool.IPPoolFinalizer)
			}
			s.put(p)
			s.gc()
		}
		return s.show()
	case "reconcile", "reconcilef":
		s.failStatus, s.failFin = map[string]bool{}, map[string]bool{}
		if w[0] == "reconcilef" {
			for i, m := range []map[string]bool{s.failStatus, s.failFin} {
				if w[1+i] != "-" {
					for _, n := range strings.Split(w[1+i], "+") {
						m[n] = true
					}
				}
			}
		}
		s.syncInformer()
		pre := s.snapshot()
		var blocks []netip.Prefix
		for _, o := range s.blocks.GetIndexer().List() {
			blocks = append(blocks, netip.MustParsePrefix(o.(*v3.IPAMBlock).Spec.CIDR))
		}
		s.inPass = true
		_ = s.ctrl.VerifReconcile() // errors (unparsable CIDR on a deleting pool, injected write failures) are aggregated; the state is what matters
		s.inPass = false
		s.gc()
		post := s.snapshot()
		s.oracle(h, pre, post, blocks, c.history)
		return s.show()
	case "sort":
		ps := s.list()
		slices.SortFunc(ps, ippool.VerifPoolSortFunc)
		var ns []string
		for _, p := range ps {
			ns = append(ns, p.Name)
		}
		if len(ns) == 0 {
			return "-"
		}
		return strings.Join(ns, ",")
	}
	panic("unknown op " + op)
}

// ---- generator ----------------------------------------------------------------------

// genCidrs: a small family of nested / sibling / identical CIDRs.
func genCidrs(h *rt.H) []string {
	var out []string
	v6 := h.Intn(4) == 0
	mixed := h.Intn(5) == 0
	base4 := uint32(h.Intn(4)+10) << 24
	for i := 0; i < 8; i++ {
		six := v6
		if mixed {
			six = h.Bool()
		}
		if six {
			l := rt.Pick(h, []int{32, 48, 56, 63, 64, 65, 72, 112})
			a := new(big.Int).Lsh(big.NewInt(0xfd00), 112)
			a.Or(a, new(big.Int).Lsh(big.NewInt(int64(h.Intn(3))), 64)) // bit around the 64-bit boundary
			a.Or(a, new(big.Int).Lsh(big.NewInt(int64(h.Intn(2))), 60))
			sh := uint(128 - l)
			a.Rsh(a, sh).Lsh(a, sh)
			out = append(out, fmt.Sprintf("6:%x/%d", a, l))
		} else {
			l := rt.Pick(h, []int{8, 12, 16, 16, 20, 24, 24, 26, 32})
			a := base4 | uint32(h.Intn(2))<<20 | uint32(h.Intn(3))<<16 | uint32(h.Intn(2))<<8 | uint32(h.Intn(2))<<6
			if l < 32 {
				a = a >> (32 - l) << (32 - l)
			}
			out = append(out, fmt.Sprintf("4:%x/%d", a, l))
		}
	}
	return out
}

func genCase(h *rt.H) []string {
	cidrs := genCidrs(h)
	ops := []string{"new"}
	npools := 2 + h.Intn(7)
	name := func() string { return fmt.Sprintf("p%02d", h.Intn(npools)) }
	n := 8 + h.Intn(40)
	for i := 0; i < n; i++ {
		switch k := h.Intn(100); {
		case k < 22:
			c := rt.Pick(h, cidrs)
			if h.Intn(25) == 0 {
				c = "bad"
			}
			ops = append(ops, fmt.Sprintf("create %s %s %d", name(), c, h.Intn(4)))
		case k < 30:
			ops = append(ops, fmt.Sprintf("disable %s %d", name(), h.Intn(2)))
		case k < 42:
			ops = append(ops, "delete "+name())
		case k < 52:
			c := rt.Pick(h, cidrs)
			if h.Bool() { // a block strictly inside: lengthen the prefix
				p := prefixOf(c)
				fam := c[:1]
				l := p.Bits() + 2
				if l > p.Addr().BitLen() {
					l = p.Addr().BitLen()
				}
				c = fmt.Sprintf("%s:%x/%d", fam, new(big.Int).SetBytes(p.Addr().AsSlice()), l)
			}
			ops = append(ops, "addblock "+c)
		case k < 60:
			ops = append(ops, "delblock "+rt.Pick(h, cidrs))
		case k < 66:
			ops = append(ops, fmt.Sprintf("setcond %s %s", name(), rt.Pick(h, []string{"T", "T", "F", "N"})))
		case k < 69:
			ops = append(ops, fmt.Sprintf("setfin %s %d", name(), h.Intn(2)))
		case k < 74:
			ops = append(ops, "sort")
		case k < 82:
			ops = append(ops, "reconcilef "+nameSet(h, npools)+" "+nameSet(h, npools))
		default:
			ops = append(ops, "reconcile")
		}
	}
	ops = append(ops, "reconcile", "reconcile")
	return ops
}

func nameSet(h *rt.H, npools int) string {
	var ns []string
	for i := 0; i < npools; i++ {
		if h.Intn(3) == 0 {
			ns = append(ns, fmt.Sprintf("p%02d", i))
		}
	}
	if len(ns) == 0 {
		return "-"
	}
	return strings.Join(ns, "+")
}

// genFailureScenario: an allocatable pool with a block is deleted while an overlapping pool is
// held back; writes fail on the passes right after the deletion.
func genFailureScenario(h *rt.H) []string {
	cidrs := genCidrs(h)
	a, b := rt.Pick(h, cidrs), rt.Pick(h, cidrs)
	ops := []string{"new", fmt.Sprintf("create p00 %s %d", a, h.Intn(3)), "reconcile", "addblock " + a,
		fmt.Sprintf("create p01 %s %d", b, 1+h.Intn(3))}
	if h.Bool() {
		ops = append(ops, fmt.Sprintf("create p02 %s %d", rt.Pick(h, cidrs), h.Intn(4)))
	}
	ops = append(ops, "reconcile", "delete p00")
	for i := 0; i < 1+h.Intn(3); i++ {
		ops = append(ops, "reconcilef "+nameSet(h, 3)+" "+nameSet(h, 3))
	}
	ops = append(ops, "reconcile")
	if h.Bool() {
		ops = append(ops, "delblock "+a, "reconcilef "+nameSet(h, 3)+" "+nameSet(h, 3), "reconcile")
	}
	return ops
}

func main() {
	h := rt.New()
	defer h.Close()
	h.Rule = "case = up to 8 pools named pNN over 8 nested/sibling/identical CIDRs of one small v4 or v6 range (1 in 5 cases mixes families; 1 in 25 creates has an unparsable CIDR), " +
		"creation times 0..3 (ties), 8..47 events over {create, disable, delete, addblock, delblock, setcond (arbitrary configuration), setfin, sort, reconcile, reconcilef (a pass in which the UpdateStatus / finalizer Update of random pools fail with a conflict)}; 1 case in 6 is a targeted scenario (allocatable pool with a block deleted next to a held-back overlapping pool, failing passes right after); " +
		"non-trivial = some reconcile saw >=2 overlapping pools or a deleting pool; distinct = distinct op sequence"
	run := func(ops []string, tag string) {
		h.Case(tag)
		c := &caseCtx{s: newState()}
		nontriv := false
		for _, op := range ops {
			out := exec(h, c, op)
			h.Op(op, out)
			f := strings.Fields(op)[0]
			h.Count("op:" + f)
			if f == "reconcilef" {
				h.Count("reconcilef:passes-with-injected-failures")
			}
			if f == "reconcile" || f == "reconcilef" {
				if strings.Contains(out, "CIDROverlap") {
					h.Count("reconcile:with-overlap")
					nontriv = true
				}
				if strings.Contains(out, "Terminating") {
					h.Count("reconcile:with-terminating")
					nontriv = true
				}
				if strings.Contains(out, "F/Disabled") {
					h.Count("reconcile:with-disabled")
				}
			}
		}
		if nontriv {
			h.Nontrivial(strings.Join(ops, ";"))
		}
		h.Sample()
	}
	if h.Replay != "" {
		run(h.ReplayLines(), "replay")
		return
	}
	for i := 0; i < h.N; i++ {
		if i%6 == 5 {
			run(genFailureScenario(h), "failure-scenario")
		} else {
			run(genCase(h), "gen")
		}
	}
}
