// C40 correspondence harness: renders the REAL static chains (felix/rules) for generated configs.
package main

import (
	"fmt"
	"net"
	"regexp"
	"sort"
	"strconv"
	"strings"

	v3 "github.com/projectcalico/api/pkg/apis/projectcalico/v3"

	intdataplane "github.com/projectcalico/calico/felix/dataplane/linux"
	"github.com/projectcalico/calico/felix/environment"
	"github.com/projectcalico/calico/felix/generictables"
	"github.com/projectcalico/calico/felix/ipsets"
	"github.com/projectcalico/calico/felix/iptables"
	"github.com/projectcalico/calico/felix/nftables"
	"github.com/projectcalico/calico/felix/proto"
	"github.com/projectcalico/calico/felix/rules"
	"github.com/projectcalico/calico/felix/types"

	"verif/harness/rt"
)

type state struct {
	cfg rules.Config
	r   rules.RuleRenderer
	nft bool
}

var features = &environment.Features{}
var renderer = iptables.NewIptablesRenderer("")
var nftR = nftables.NewNFTRenderer("", 4)

var nftMode bool

func renderChain(c *generictables.Chain) string {
	var out []string
	for i := range c.Rules {
		if nftMode {
			r := nftR.Render(c.Name, "", c.Rules[i], features)
			cm := ""
			if r.Comment != nil {
				cm = " #" + *r.Comment
			}
			out = append(out, c.Name+": "+r.Rule+cm)
		} else {
			out = append(out, renderer.RenderAppend(&c.Rules[i], c.Name, "", features))
		}
	}
	if len(out) == 0 {
		return c.Name + " <empty>"
	}
	return strings.Join(out, " ;; ")
}

func findChain(cs []*generictables.Chain, name string) string {
	for _, c := range cs {
		if c.Name == name {
			return renderChain(c)
		}
	}
	return "no-such-chain"
}

func maxLen() int {
	if nftMode {
		return nftables.MaxChainNameLength
	}
	return iptables.MaxChainNameLength
}

func parsePorts(s string) []v3.ProtoPort {
	var out []v3.ProtoPort
	if s == "-" {
		return out
	}
	for _, p := range strings.Split(s, ",") {
		f := strings.Split(p, ":")
		port, _ := strconv.Atoi(f[1])
		pp := v3.ProtoPort{Protocol: f[0], Port: uint16(port)}
		if len(f) > 2 {
			pp.Net = f[2]
			if strings.HasPrefix(pp.Net, "v6-") { // an IPv6 net, written with '-' for ':' in the op
				pp.Net = strings.ReplaceAll(strings.TrimPrefix(pp.Net, "v6-"), "-", ":")
			}
		}
		out = append(out, pp)
	}
	return out
}

func baseConfig() rules.Config {
	return rules.Config{
		IPSetConfigV4:       ipsets.NewIPVersionConfig(ipsets.IPFamilyV4, "cali", nil, nil),
		IPSetConfigV6:       ipsets.NewIPVersionConfig(ipsets.IPFamilyV6, "cali", nil, nil),
		MarkAccept:          0x10000,
		MarkPass:            0x20000,
		MarkScratch0:        0x40000,
		MarkScratch1:        0x80000,
		MarkDrop:            0x200000,
		MarkEndpoint:        0xff000000,
		MarkNonCaliEndpoint: 0x1000000,
		VXLANVNI:            4096,
	}
}

// recTable records what setUpIptablesBPF programs into a filter table.
type recTable struct {
	generictables.NoopTable
	ipVersion uint8
	top       map[string][]generictables.Rule
	chains    map[string]*generictables.Chain
}

func newRecTable(v uint8) *recTable {
	return &recTable{ipVersion: v, top: map[string][]generictables.Rule{}, chains: map[string]*generictables.Chain{}}
}
func (t *recTable) IPVersion() uint8 { return t.ipVersion }
func (t *recTable) InsertOrAppendRules(chain string, rs []generictables.Rule) {
	t.top[chain] = append(t.top[chain], rs...)
}
func (t *recTable) AppendRules(chain string, rs []generictables.Rule) {
	t.top[chain] = append(t.top[chain], rs...)
}
func (t *recTable) UpdateChain(c *generictables.Chain) { t.chains[c.Name] = c }
func (t *recTable) UpdateChains(cs []*generictables.Chain) {
	for _, c := range cs {
		t.chains[c.Name] = c
	}
}

// bpfSetUp runs the REAL setUpIptablesBPF (via the add-only hook) for the case's config.
func bpfSetUp(s *state, ipVersion uint8, bpf6 bool) (*recTable, rules.RuleRenderer) {
	c := s.cfg
	c.BPFEnabled = true
	t := newRecTable(ipVersion)
	if nftMode {
		nftR = nftables.NewNFTRenderer("", ipVersion)
	}
	r := intdataplane.VerifC40SetUpIptablesBPF(c, s.nft, bpf6, []generictables.Table{t})
	return t, r
}

func wlEps(names string) map[types.WorkloadEndpointID]*proto.WorkloadEndpoint {
	eps := map[types.WorkloadEndpointID]*proto.WorkloadEndpoint{}
	if names != "-" {
		for i, n := range strings.Split(names, ",") {
			eps[types.WorkloadEndpointID{OrchestratorId: "k8s", WorkloadId: fmt.Sprintf("w%d", i), EndpointId: "eth0"}] = &proto.WorkloadEndpoint{Name: n}
		}
	}
	return eps
}

// cfg <ipip> <vxlan> <vxport> <toHost> <filterAllow> <mangleAllow> <deny> <noInvalid> <prefixes> <failsafeIn> <failsafeOut>
func exec(h *rt.H, s *state, op string) string {
	w := strings.Fields(op)
	switch w[0] {
	case "cfg":
		s.nft = w[1] == "nft"
		nftMode = s.nft
		w = w[1:]
		c := baseConfig()
		c.IPIPEnabled = w[1] == "1"
		c.VXLANEnabled = w[2] == "1"
		c.VXLANPort, _ = strconv.Atoi(w[3])
		c.EndpointToHostAction = w[4]
		c.FilterAllowAction = w[5]
		c.MangleAllowAction = w[6]
		c.FilterDenyAction = w[7]
		c.DisableConntrackInvalid = w[8] == "1"
		c.WorkloadIfacePrefixes = strings.Split(w[9], ",")
		c.FailsafeInboundHostPorts = parsePorts(w[10])
		c.FailsafeOutboundHostPorts = parsePorts(w[11])
		s.cfg = c
		s.r = rules.NewRenderer(c, s.nft)
		return "ok"
	case "static":
		// static <table> <chain>
		var cs []*generictables.Chain
		switch w[1] {
		case "filter":
			cs = s.r.StaticFilterTableChains(4)
		case "raw":
			cs = s.r.StaticRawTableChains(4)
		case "mangle":
			cs = s.r.StaticMangleTableChains(4)
		}
		return findChain(cs, w[2])
	case "fwdappend":
		c := &generictables.Chain{Name: "FORWARD", Rules: s.r.StaticFilterForwardAppendRules()}
		return renderChain(c)
	case "hep":
		// hep <which> <iface> <tiers>   tiers: name:defaultAction:pol1+pol2,... | -
		tiers, _ := parseTiers(w[3])
		var cs []*generictables.Chain
		name := ""
		switch w[1] {
		case "filter-in":
			cs = s.r.HostEndpointToFilterChains(w[2], tiers, nil, nil, nil)
			name = rules.EndpointChainName(rules.HostFromEndpointPfx, w[2], maxLen())
		case "filter-out":
			cs = s.r.HostEndpointToFilterChains(w[2], tiers, nil, nil, nil)
			name = rules.EndpointChainName(rules.HostToEndpointPfx, w[2], maxLen())
		case "raw-in":
			cs = s.r.HostEndpointToRawChains(w[2], tiers)
			name = rules.EndpointChainName(rules.HostFromEndpointPfx, w[2], maxLen())
		case "raw-out":
			cs = s.r.HostEndpointToRawChains(w[2], tiers)
			name = rules.EndpointChainName(rules.HostToEndpointPfx, w[2], maxLen())
		case "mangle-in":
			cs = s.r.HostEndpointToMangleIngressChains(w[2], tiers)
			name = rules.EndpointChainName(rules.HostFromEndpointPfx, w[2], maxLen())
		}
		return findChain(cs, name)
	case "wldispatch":
		// wldispatch <from|to> <iface|->
		eps := map[types.WorkloadEndpointID]*proto.WorkloadEndpoint{}
		if w[2] != "-" {
			for i, n := range strings.Split(w[2], ",") {
				eps[types.WorkloadEndpointID{OrchestratorId: "k8s", WorkloadId: fmt.Sprintf("w%d", i), EndpointId: "eth0"}] = &proto.WorkloadEndpoint{Name: n}
			}
		}
		cs := s.r.WorkloadDispatchChains(eps)
		if w[1] == "from" {
			return findChain(cs, rules.ChainFromWorkloadDispatch)
		}
		return findChain(cs, rules.ChainToWorkloadDispatch)
	case "bpf":
		// bpf <INPUT|FORWARD|OUTPUT> <4|6> <bpfIPv6 0|1> <known workload ifaces|->
		v, _ := strconv.Atoi(w[2])
		t, _ := bpfSetUp(s, uint8(v), w[3] == "1")
		defer func() { nftR = nftables.NewNFTRenderer("", 4) }()
		return renderChain(&generictables.Chain{Name: w[1], Rules: t.top[w[1]]})
	case "wlallow":
		// wlallow <iface|->  : the BPF-mode cali-to-wl-dispatch chain (WorkloadInterfaceAllowChains)
		return findChain(s.r.WorkloadInterfaceAllowChains(wlEps(w[1])), rules.ChainToWorkloadDispatch)
	case "hepdispatch":
		eps := map[string]types.HostEndpointID{}
		if w[1] != "-" {
			for _, n := range strings.Split(w[1], ",") {
				eps[n] = types.HostEndpointID{EndpointId: "h-" + n}
			}
		}
		cs := s.r.HostDispatchChains(eps, "", false)
		var names []string
		for _, c := range cs {
			names = append(names, c.Name)
		}
		sort.Strings(names)
		return findChain(cs, rules.ChainDispatchFromHostEndpoint) + " @@ " + findChain(cs, rules.ChainDispatchToHostEndpoint)
	}
	panic("unknown op " + op)
}

// parseTiers also returns the chain names (the model is given the names, not the hashing).
func parseTiers(s string) ([]rules.TierPolicyGroups, string) {
	if s == "-" {
		return nil, "-"
	}
	var out []rules.TierPolicyGroups
	for _, t := range strings.Split(s, ",") {
		f := strings.Split(t, ":")
		tier := rules.TierPolicyGroups{Name: f[0], DefaultAction: f[1]}
		for _, pn := range strings.Split(f[2], "+") {
			kind := v3.KindGlobalNetworkPolicy
			if strings.HasPrefix(pn, "staged") {
				kind = v3.KindStagedGlobalNetworkPolicy
			}
			g := &rules.PolicyGroup{Policies: []*types.PolicyID{{Name: pn, Kind: kind}}}
			tier.IngressPolicies = append(tier.IngressPolicies, g)
			tier.EgressPolicies = append(tier.EgressPolicies, g)
		}
		out = append(out, tier)
	}
	return out, ""
}

// ---- the property's oracle on the REAL rendered chains (structural: the rendered text is what the
// kernel would be given) -------------------------------------------------------------------------

// chainLines returns the rendered rules of a chain.
func chainLines(out string) []string {
	if strings.HasSuffix(out, "<empty>") || out == "no-such-chain" {
		return nil
	}
	return strings.Split(out, " ;; ")
}

// ---- a small evaluator of rendered iptables rules, for verdict-based oracle clauses ----------------

type probe struct {
	proto    string
	dport    int
	sport    int
	src, dst string
	ct       string // NEW | ESTABLISHED | INVALID
	in, out  string
	mark     uint32
	icmpType int
}

var commentRe = regexp.MustCompile(`-m comment --comment "[^"]*" ?`)

func ifMatch(pat, name string) bool {
	if strings.HasSuffix(pat, "+") {
		return strings.HasPrefix(name, strings.TrimSuffix(pat, "+"))
	}
	return pat == name
}

func inCIDR(addr, cidr string) bool {
	if addr == "" {
		addr = "198.51.100.7" // a probe without a pinned address is "some other host"
	}
	_, n, err := net.ParseCIDR(cidr)
	if err != nil {
		if !strings.Contains(cidr, "/") {
			return addr == cidr
		}
		return false
	}
	return n.Contains(net.ParseIP(addr))
}

var protoNum = map[string]string{"tcp": "6", "udp": "17", "sctp": "132", "icmpv6": "58"}

// evalIpt runs the probe through the rendered rules of one chain.  Chains in `known` are followed on
// a jump; a jump to any other chain ends the evaluation with "JUMP:<chain>".  Returns ACCEPT, DROP,
// RETURN (fell off / returned), JUMP:<chain> or "unknown" (a match it cannot interpret: the caller
// must then abstain).
func evalIpt(lines []string, p probe, known map[string][]string) string {
	for _, l := range lines {
		l = commentRe.ReplaceAllString(l, "")
		tok := strings.Fields(l)
		if len(tok) < 2 || tok[0] != "-A" {
			return "unknown"
		}
		tok = tok[2:]
		match := true
		action := ""
		var setMark string
		neg := false
		for i := 0; i < len(tok); i++ {
			if neg && tok[i] != "--mark" {
				return "unknown" // a negation this evaluator does not interpret
			}
			arg := func() string {
				i++
				if i < len(tok) {
					return tok[i]
				}
				return ""
			}
			switch tok[i] {
			case "-p":
				v := arg()
				if v != p.proto && v != protoNum[p.proto] {
					match = false
				}
			case "-m":
				arg() // module name; its options follow as separate tokens
			case "--destination-ports", "--dport":
				if v := arg(); v != strconv.Itoa(p.dport) {
					match = false
				}
			case "--source-ports":
				if v := arg(); v != strconv.Itoa(p.sport) {
					match = false
				}
			case "--source":
				if !inCIDR(p.src, arg()) {
					match = false
				}
			case "--destination":
				if !inCIDR(p.dst, arg()) {
					match = false
				}
			case "--ctstate":
				if !strings.Contains(","+arg()+",", ","+p.ct+",") && !(p.ct == "ESTABLISHED" && false) {
					match = false
				}
			case "--in-interface":
				if !ifMatch(arg(), p.in) {
					match = false
				}
			case "--out-interface":
				if !ifMatch(arg(), p.out) {
					match = false
				}
			case "--mark":
				vm := strings.Split(arg(), "/")
				v, e1 := strconv.ParseUint(strings.TrimPrefix(vm[0], "0x"), 16, 32)
				m, e2 := strconv.ParseUint(strings.TrimPrefix(vm[len(vm)-1], "0x"), 16, 32)
				if e1 != nil || e2 != nil {
					return "unknown"
				}
				if (p.mark&uint32(m) == uint32(v)) == neg {
					match = false
				}
				neg = false
			case "!":
				neg = true
			case "--reject-with":
				arg()
			case "--icmpv6-type":
				if v := arg(); v != strconv.Itoa(p.icmpType) {
					match = false
				}
			case "--jump", "--goto":
				action = arg()
			case "--set-mark":
				setMark = arg()
			default:
				return "unknown"
			}
		}
		if !match {
			continue
		}
		switch action {
		case "ACCEPT", "DROP", "RETURN":
			return action
		case "REJECT":
			return "DROP" // the packet does not pass
		case "MARK":
			vm := strings.Split(setMark, "/")
			v, e1 := strconv.ParseUint(strings.TrimPrefix(vm[0], "0x"), 16, 32)
			m, e2 := strconv.ParseUint(strings.TrimPrefix(vm[len(vm)-1], "0x"), 16, 32)
			if e1 != nil || e2 != nil {
				return "unknown"
			}
			p.mark = p.mark&^uint32(m) | uint32(v)
		case "NOTRACK", "":
		default:
			sub, ok := known[action]
			if !ok {
				return "JUMP:" + action
			}
			if v := evalIpt(sub, p, known); v != "RETURN" {
				return v
			}
		}
	}
	return "RETURN"
}

// text helpers: the same structural facts in iptables and nftables syntax.
func (s *state) isJump(l, chain string) bool {
	if s.nft {
		return strings.Contains(l, "counter jump "+chain)
	}
	return strings.HasSuffix(l, "--jump "+chain)
}
func (s *state) isDrop(l string) bool {
	if s.nft {
		return strings.Contains(l, "counter drop")
	}
	return strings.HasSuffix(l, "--jump DROP")
}
func (s *state) acceptRule(pp v3.ProtoPort, dst bool, net string) string {
	if s.nft {
		dir := "dport"
		if !dst {
			dir = "sport"
		}
		t := fmt.Sprintf("meta l4proto %s %s %s { %d }", pp.Protocol, pp.Protocol, dir, pp.Port)
		if net != "" {
			t += " " + net
		}
		return t + " counter accept"
	}
	t := fmt.Sprintf("-p %s -m multiport --destination-ports %d", pp.Protocol, pp.Port)
	if net != "" {
		t += " " + net
	}
	return t + " --jump ACCEPT"
}

func oracle(h *rt.H, s *state, op string, out string) {
	w := strings.Fields(op)
	lines := chainLines(out)
	fail := func(sig, desc string) {
		h.OracleFail(sig, desc, map[string]any{"op": op, "rendered": lines, "nft": s.nft})
	}
	has := func(sub string) bool {
		for _, l := range lines {
			if strings.Contains(l, sub) {
				return true
			}
		}
		return false
	}
	switch {
	case w[0] == "static" && w[2] == "cali-failsafe-in":
		for _, pp := range s.cfg.FailsafeInboundHostPorts {
			if strings.Contains(pp.Net, ":") {
				continue // a net of the other IP family: the IPv4 chains legitimately skip the entry
			}
			net := ""
			if pp.Net != "" {
				net = "--source " + pp.Net // an inbound failsafe restricted to a net is restricted by SOURCE
				if s.nft {
					net = "ip saddr " + pp.Net
				}
			}
			if want := s.acceptRule(pp, true, net); !has(want) {
				fail("failsafe-in-missing", "inbound failsafe port without ACCEPT rule: "+want)
			}
		}
	case w[0] == "static" && w[2] == "cali-failsafe-out":
		for _, pp := range s.cfg.FailsafeOutboundHostPorts {
			if strings.Contains(pp.Net, ":") {
				continue
			}
			net := ""
			if pp.Net != "" {
				net = "--destination " + pp.Net
				if s.nft {
					net = "ip daddr " + pp.Net
				}
			}
			if want := s.acceptRule(pp, true, net); !has(want) {
				fail("failsafe-out-missing", "outbound failsafe port without ACCEPT rule: "+want)
			}
		}
	case w[0] == "hep":
		// a host endpoint chain must send failsafe traffic to the failsafe chain (structural, order-free)
		fs := false
		for _, l := range lines {
			if s.isJump(l, "cali-failsafe-in") || s.isJump(l, "cali-failsafe-out") {
				fs = true
			}
		}
		if !fs {
			fail("hep-no-failsafe", "host endpoint chain without failsafe jump")
			return
		}
		// verdict-based: a NEW-connection probe packet on every IPv4 failsafe port must reach the failsafe
		// chain and be ACCEPTed there before any policy chain or drop gets it (rule ORDER is not demanded:
		// rules that do not match the probe, and non-terminal rules, may sit anywhere)
		if s.nft {
			h.Count("obs:hep-failsafe-probe-skipped-nft")
			return
		}
		ingress := strings.HasSuffix(w[1], "-in")
		table := strings.Split(w[1], "-")[0]
		ports := s.cfg.FailsafeOutboundHostPorts
		fsName := "cali-failsafe-out"
		if ingress {
			ports = s.cfg.FailsafeInboundHostPorts
			fsName = "cali-failsafe-in"
		}
		var fsLines []string
		switch table {
		case "filter":
			fsLines = chainLines(findChain(s.r.StaticFilterTableChains(4), fsName))
		case "raw":
			fsLines = chainLines(findChain(s.r.StaticRawTableChains(4), fsName))
		case "mangle":
			fsLines = chainLines(findChain(s.r.StaticMangleTableChains(4), fsName))
		}
		for _, pp := range ports {
			if strings.Contains(pp.Net, ":") {
				continue
			}
			pk := probe{proto: pp.Protocol, dport: int(pp.Port), ct: "NEW", in: w[2], out: w[2]}
			if pp.Net != "" {
				a := strings.Split(pp.Net, "/")[0]
				if ingress {
					pk.src = a
				} else {
					pk.dst = a
				}
			}
			v := evalIpt(lines, pk, map[string][]string{fsName: fsLines})
			switch v {
			case "ACCEPT":
				h.Count("obs:hep-failsafe-probe-accepted")
			case "unknown":
				h.Count("obs:hep-failsafe-probe-unknown-syntax")
			default:
				fail("hep-failsafe-probe-not-accepted", fmt.Sprintf("NEW %s/%d probe on a failsafe port gets %q instead of ACCEPT", pp.Protocol, pp.Port, v))
			}
		}
	case w[0] == "bpf" && (w[1] == "INPUT" || w[1] == "FORWARD"):
		// BPF mode: an interface that matches a workload prefix but has no BPF program attached (Felix
		// does not know it) yields packets without the BPF "seen" mark; they must be dropped on the input
		// and the forward path whatever the destination (verdict of the REAL programmed rules, with the
		// REAL cali-to-wl-dispatch chain for the known workloads)
		if s.nft {
			h.Count("obs:bpf-probe-skipped-nft")
			return
		}
		known := map[string][]string{}
		var knownIf []string
		if w[4] != "-" {
			knownIf = strings.Split(w[4], ",")
		}
		for _, c := range s.r.WorkloadInterfaceAllowChains(wlEps(w[4])) {
			known[c.Name] = chainLines(renderChain(c))
		}
		outs := append([]string{"eth0", "bpfout.cali", ""}, knownIf...)
		for _, pfx := range s.cfg.WorkloadIfacePrefixes {
			outs = append(outs, pfx+"zzother")
		}
		if w[1] == "INPUT" {
			outs = []string{""}
		}
		const seen = 0x01000000
		for _, pfx := range s.cfg.WorkloadIfacePrefixes {
			for _, out := range outs {
				for _, mark := range []uint32{0, 0x08000000, 0x02000000, 0x04000000, 0x06f00000, h.Rng.Uint32() &^ seen} {
					for _, ct := range []string{"NEW", "ESTABLISHED"} {
						pk := probe{proto: rt.Pick(h, []string{"tcp", "udp", "icmpv6"}), dport: 80, ct: ct, in: pfx + "rogue0", out: out, mark: mark, icmpType: 135}
						v := evalIpt(lines, pk, known)
						switch v {
						case "DROP":
							h.Count("obs:bpf-unknown-iface-probe-dropped")
						case "unknown":
							h.Count("obs:bpf-probe-unknown-syntax")
						default:
							fail("bpf-unknown-workload-iface-not-dropped", fmt.Sprintf(
								"BPF mode, IPv%s filter %s: %s packet from %q (matches a workload prefix, no BPF seen mark, mark=%#x, ct=%s) to out-interface %q gets %q instead of DROP",
								w[2], w[1], pk.proto, pk.in, mark, ct, out, v))
							return
						}
					}
				}
			}
		}
		// observation only: a policed packet (seen mark) from a known workload leaving the host is accepted
		if w[1] == "FORWARD" && len(knownIf) > 0 && (w[2] == "4" || w[3] == "1") {
			v := evalIpt(lines, probe{proto: "tcp", dport: 80, ct: "NEW", in: knownIf[0], out: "eth0", mark: seen}, known)
			h.Count("obs:bpf-seen-known-forward:" + v)
		}
	case w[0] == "wlallow":
		if len(lines) == 0 || !s.isDrop(lines[len(lines)-1]) || strings.Contains(lines[len(lines)-1], "-interface") || strings.Contains(lines[len(lines)-1], "ifname") {
			fail("dispatch-not-fail-closed", "BPF-mode to-workload dispatch chain does not end with an unconditional drop")
		}
	case w[0] == "wldispatch":
		if len(lines) == 0 || !s.isDrop(lines[len(lines)-1]) || strings.Contains(lines[len(lines)-1], "-interface") || strings.Contains(lines[len(lines)-1], "ifname") {
			fail("dispatch-not-fail-closed", "workload dispatch chain does not end with an unconditional drop")
		}
	case w[0] == "static" && w[2] == "cali-wl-to-host":
		// verdict-based: whatever the packet, the first rule that can decide its fate must be the jump to
		// the workload egress dispatch; the configured endpoint-to-host action comes only after it returned
		if s.nft {
			h.Count("obs:to-host-probe-skipped-nft")
			return
		}
		v := evalIpt(lines, probe{proto: "tcp", dport: 80, ct: "NEW", in: "cali1234"}, map[string][]string{})
		switch {
		case v == "JUMP:cali-from-wl-dispatch":
			h.Count("obs:to-host-probe-ok")
		case v == "unknown":
			h.Count("obs:to-host-probe-unknown-syntax")
		default:
			fail("to-host-order", "a workload-to-host packet meets "+v+" before the workload egress dispatch")
		}
	case w[0] == "static" && w[1] == "filter" && w[2] == "cali-INPUT":
		hepIdx := -1
		for i, l := range lines {
			if s.isJump(l, "cali-from-host-endpoint") {
				hepIdx = i
			}
		}
		for _, pfx := range s.cfg.WorkloadIfacePrefixes {
			want := fmt.Sprintf("-A cali-INPUT --in-interface %s+ --goto cali-wl-to-host", pfx)
			if s.nft {
				want = fmt.Sprintf("cali-INPUT: iifname %s* counter goto cali-wl-to-host", pfx)
			}
			found := false
			for i, l := range lines {
				if l == want && (hepIdx < 0 || i < hepIdx) {
					found = true
				}
			}
			if !found {
				fail("input-no-workload-divert", "no goto cali-wl-to-host for prefix "+pfx)
			}
		}
		if s.cfg.IPIPEnabled {
			want := "-p 4 --jump DROP"
			if s.nft {
				want = "cali-INPUT: meta l4proto 4 counter drop"
			}
			if !has(want) {
				fail("no-foreign-ipip-drop", "IPIP enabled but no drop for IPIP from non-Calico hosts")
			}
		}
		if s.cfg.VXLANEnabled {
			want := fmt.Sprintf("-p 17 -m multiport --destination-ports %d -m addrtype --dst-type LOCAL --jump DROP", s.cfg.VXLANPort)
			if s.nft {
				want = fmt.Sprintf("cali-INPUT: meta l4proto 17 udp dport { %d } fib daddr type local counter drop", s.cfg.VXLANPort)
			}
			if !has(want) {
				fail("no-foreign-vxlan-drop", "VXLAN enabled but no drop for VXLAN from non-allowed hosts")
			}
		}
	case w[0] == "static" && (w[2] == "cali-PREROUTING" || w[2] == "cali-OUTPUT"):
		// every static entry chain hands non-workload traffic to the host endpoint dispatch
		want := "cali-from-host-endpoint"
		if w[2] == "cali-OUTPUT" {
			want = "cali-to-host-endpoint"
		}
		found := false
		for _, l := range lines {
			if s.isJump(l, want) {
				found = true
			}
		}
		if !found {
			fail("no-hep-dispatch", "static chain "+w[1]+"/"+w[2]+" does not jump to "+want)
		}
		if w[1] == "raw" && w[2] == "cali-PREROUTING" {
			// non-workload traffic (workload mark CLEAR) is what goes to the host endpoint dispatch
			ok := false
			for _, l := range lines {
				if s.isJump(l, want) && (strings.Contains(l, "--mark 0/0x40000") || strings.Contains(l, "meta mark & 0x40000 == 0 ")) {
					ok = true
				}
			}
			if !ok {
				fail("raw-hep-dispatch-guard", "raw PREROUTING does not send non-workload traffic to the host endpoint dispatch")
			}
		}
	}
}

// ---- generator ----------------------------------------------------------------------------------

func genPorts(h *rt.H) string {
	n := h.Intn(4)
	if n == 0 {
		return "-"
	}
	var out []string
	for i := 0; i < n; i++ {
		p := rt.Pick(h, []string{"tcp", "udp", "sctp"}) + ":" + strconv.Itoa(rt.Pick(h, []int{22, 53, 67, 68, 179, 2379, 2380, 6443, 6666, 6667, 4789, 1, 65535}))
		if h.Chance(0.3) {
			p += ":" + rt.Pick(h, []string{"10.0.0.0/8", "0.0.0.0/0", "192.168.1.1/32", "172.16.0.0/12", "v6-fd00--/8", "v6-2001-db8--1/128"})
		}
		out = append(out, p)
	}
	return strings.Join(out, ",")
}

func genTiers(h *rt.H) string {
	n := h.Intn(4)
	if n == 0 {
		return "-"
	}
	var out []string
	for i := 0; i < n; i++ {
		var pols []string
		for j := 0; j < 1+h.Intn(3); j++ {
			name := fmt.Sprintf("p%d%d", i, j)
			if h.Chance(0.25) {
				name = "staged" + name
			}
			pols = append(pols, name)
		}
		out = append(out, fmt.Sprintf("t%d:%s:%s", i, rt.Pick(h, []string{"Deny", "Pass", "Deny"}), strings.Join(pols, "+")))
	}
	return strings.Join(out, ",")
}

func genCase(h *rt.H) []string {
	pfx := rt.Pick(h, []string{"cali", "cali,tap", "tap", "cali,tap,vethx", "c"})
	ops := []string{fmt.Sprintf("cfg %s %s %s %d %s %s %s DROP %s %s %s %s",
		rt.Pick(h, []string{"ipt", "ipt", "nft"}), b01(h.Bool()), b01(h.Bool()), rt.Pick(h, []int{4789, 4790, 8472, 53}),
		rt.Pick(h, []string{"DROP", "ACCEPT", "RETURN"}), rt.Pick(h, []string{"ACCEPT", "RETURN"}), rt.Pick(h, []string{"ACCEPT", "RETURN"}),
		b01(h.Chance(0.3)), pfx, genPorts(h), genPorts(h))}
	all := []string{"static filter cali-INPUT", "static filter cali-wl-to-host", "static filter cali-FORWARD", "static filter cali-OUTPUT",
		"static raw cali-PREROUTING", "static raw cali-OUTPUT", "static mangle cali-PREROUTING"}
	for _, t := range []string{"filter", "raw", "mangle"} {
		all = append(all, "static "+t+" cali-failsafe-in", "static "+t+" cali-failsafe-out")
	}
	for _, k := range []string{"filter-in", "filter-out", "raw-in", "raw-out", "mangle-in"} {
		all = append(all, fmt.Sprintf("hep %s %s %s", k, rt.Pick(h, []string{"eth0", "ens5", "bond0.100"}), genTiers(h)))
	}
	ifc := rt.Pick(h, []string{"-", "cali1234abcd", "tapx"})
	all = append(all, "wldispatch from "+ifc, "wldispatch to "+ifc, "hepdispatch "+rt.Pick(h, []string{"-", "eth0"}))
	// BPF mode: the static rules setUpIptablesBPF programs into filter INPUT/FORWARD/OUTPUT
	pfx0 := strings.Split(pfx, ",")[0]
	knownIfs := rt.Pick(h, []string{"-", pfx0 + "1234abcd", pfx0 + "1234abcd," + pfx0 + "zzother"})
	for _, hook := range []string{"INPUT", "FORWARD", "FORWARD", "OUTPUT"} {
		all = append(all, fmt.Sprintf("bpf %s %s %s %s", hook, rt.Pick(h, []string{"4", "6"}), b01(h.Bool()), knownIfs))
	}
	all = append(all, "wlallow "+rt.Pick(h, []string{"-", pfx0 + "1234abcd"}))
	h.Rng.Shuffle(len(all), func(i, j int) { all[i], all[j] = all[j], all[i] })
	return append(ops, all[:6+h.Intn(len(all)-5)]...)
}

func b01(b bool) string {
	if b {
		return "1"
	}
	return "0"
}

func main() {
	h := rt.New()
	defer h.Close()
	h.Rule = "case = one generated rules.Config (ipip/vxlan on/off, vxlan port, endpoint-to-host action, filter/mangle allow action, " +
		"conntrack-invalid switch, 1..3 workload prefixes, 0..3 inbound and outbound failsafe ports with optional nets) + 6..22 rendered chains " +
		"(static INPUT/FORWARD/wl-to-host, failsafe-in/out in raw/mangle/filter, 5 kinds of host endpoint chain with 0..3 tiers of 1..3 " +
		"(possibly staged) policies, flat workload/host dispatch chains, BPF-mode filter INPUT/FORWARD/OUTPUT rules programmed by the real " +
		"setUpIptablesBPF for the IPv4/IPv6 table with BPF IPv6 on/off and 0..2 known workloads); non-trivial = config has a failsafe port and a tunnel enabled"
	run := func(ops []string, tag string) {
		h.Case(tag)
		s := &state{}
		for _, op := range ops {
			w := strings.Fields(op)[0]
			if s.r == nil && w != "cfg" {
				h.Op(op, "bad-state")
				continue
			}
			out := exec(h, s, op)
			h.Op(op, out)
			h.Count("op:" + w)
			if w != "cfg" {
				oracle(h, s, op, out)
			}
		}
		if s.r != nil {
			if len(s.cfg.FailsafeInboundHostPorts) > 0 && (s.cfg.IPIPEnabled || s.cfg.VXLANEnabled) {
				h.Nontrivial(ops[0])
			}
			h.Count(fmt.Sprintf("cfg:ipip=%v,vxlan=%v", s.cfg.IPIPEnabled, s.cfg.VXLANEnabled))
			h.Count("cfg:toHost=" + s.cfg.EndpointToHostAction)
		}
		h.Sample()
	}
	if h.Replay != "" {
		run(h.ReplayLines(), "replay")
		return
	}
	for i := 0; i < h.N; i++ {
		run(genCase(h), "gen")
	}
}
