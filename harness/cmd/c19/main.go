// C19 correspondence harness: the REAL libcalico-go ipamClient runs, as several
// concurrent logical clients, against the in-memory compare-and-swap backend of
// package ipamkv under a deterministic scheduler that pauses every client at
// every backend call and injects CAS conflicts, datastore errors and crashes.
//
// Every executed backend call is one `step` line (thread, fault, verb, key,
// revision, event) whose output is (outcome, abstract value after).  The Lean
// driver replays the same lines through the model's transition relation: a
// line on which the model computes another outcome/value - or which is not an
// instance of the transition relation at all - is a disagreement.  The
// property's own oracle is evaluated on the real store after every step.
package main

import (
	"fmt"
	"sort"
	"strings"

	"github.com/projectcalico/calico/libcalico-go/lib/backend/model"

	"verif/harness/ipamkv"
	"verif/harness/rt"
)

type oracle struct {
	h        *rt.H
	recorded map[int]map[[2]int]bool // tid -> addresses its own successful CAS recorded
	r        *ipamkv.Runner
	// an AssignIP had its block write conflict after it had incremented the handle:
	// the code retries without taking the increment back (known defect)
	assignRetry map[[2]int]bool
	// a ReleaseIPs of more than two addresses (handles pre-fetched with List) released addresses
	// of this (handle, block): its decrementHandle works on the pre-fetched, possibly stale object
	prefetchRel map[[2]int]bool
}

func (o *oracle) fail(sig, desc string, info map[string]any) {
	// known / repaired causes are told apart per (handle, block): only a violation about a pair
	// whose accounting went through that very path gets the suffix
	pair := [2]int{-1, -1}
	if h, ok := info["handle"].(int); ok {
		if b, ok := info["block"].(int); ok {
			pair = [2]int{h, b}
		}
	}
	if o.r.StalePairs[pair] && strings.HasPrefix(sig, "handle-") {
		// releaseByHandle's "block already deleted, decrement anyway" path (known defect)
		sig += "-after-stale-delete"
	} else if o.prefetchRel[pair] && sig == "handle-ne-block-quiescent" {
		// ReleaseIPs decremented (or failed to) through a pre-fetched handle object (known defect)
		sig += "-after-release-prefetch"
	} else if o.assignRetry[pair] && sig == "handle-ne-block-quiescent" {
		// AssignIP retried after a conflict (over-count repaired in 2a2a7ee: regression guard)
		sig += "-after-assignip-retry"
	}
	info["replay_ops"] = append([]string(nil), o.r.Cmds...)
	o.h.OracleFail(sig, desc, info)
}

func (o *oracle) onStep(r *ipamkv.Runner, st *ipamkv.Step, ctx *ipamkv.ThreadCtx) {
	e := r.Env
	if _, isBlk := st.Key.(model.BlockKey); isBlk && ctx != nil && ctx.Op == "assignip" && ctx.Handle != 0 &&
		st.Verb == ipamkv.VUpdate && st.Outcome == ipamkv.OConflict {
		if bid, ok := e.BlockOf[model.IPNetFromPrefix(st.Key.(model.BlockKey).CIDR).String()]; ok {
			o.assignRetry[[2]int{ctx.Handle, bid}] = true
		}
	}
	if bk, ok := st.Key.(model.BlockKey); ok && st.Eff.Changed && st.Eff.Before != nil && ctx != nil && ctx.Op == "releaseips" {
		bid := e.BlockOf[model.IPNetFromPrefix(bk.CIDR).String()]
		if len(ctx.ReqOrds[bid]) > 2 {
			before := e.AbsBlockOf(*st.Eff.Before)
			for _, ord := range ctx.ReqOrds[bid] {
				if ord < len(before.Slots) && strings.HasPrefix(before.Slots[ord], "L") {
					hid := 0
					fmt.Sscanf(before.Slots[ord], "L%d", &hid)
					o.prefetchRel[[2]int{hid, bid}] = true
				}
			}
		}
	}
	if st.Eff.Changed {
		if bk, ok := st.Key.(model.BlockKey); ok && st.Eff.After != nil {
			bid := e.BlockOf[model.IPNetFromPrefix(bk.CIDR).String()]
			after := e.AbsBlockOf(*st.Eff.After)
			var before ipamkv.AbsBlock
			if st.Eff.Before != nil {
				before = e.AbsBlockOf(*st.Eff.Before)
			}
			for ord, a := range after.Slots {
				b := "."
				if ord < len(before.Slots) {
					b = before.Slots[ord]
				}
				if strings.HasPrefix(a, "L") && strings.HasPrefix(b, "L") {
					if a != b {
						o.fail("double-alloc", "an address live for one owner was re-recorded for another owner in one write", map[string]any{"block": bid, "ordinal": ord, "before": b, "after": a})
					} else if st.Eff.Before != nil && after.Seq[ord] != before.Seq[ord] {
						o.fail("double-alloc-same-handle", "a live address was allocated again (allocation sequence number changed while live)", map[string]any{"block": bid, "ordinal": ord})
					}
				}
				if strings.HasPrefix(a, "L") && a != b {
					if o.recorded[st.TID] == nil {
						o.recorded[st.TID] = map[[2]int]bool{}
					}
					o.recorded[st.TID][[2]int{bid, ord}] = true
				}
			}
		}
		w := e.World()
		for _, v := range w.CheckWF() {
			o.fail(v.Sig, v.Desc, v.Info)
		}
		// handle records never under-count block records
		for hid := 1; hid <= len(e.Handles); hid++ {
			for bid, blk := range w.Blocks {
				if live := blk.LiveCount(hid); w.Handles[hid][bid] < live {
					o.fail("handle-lt-block", "a handle records fewer addresses for a block than the block records for the handle", map[string]any{"handle": hid, "block": bid, "handle_count": w.Handles[hid][bid], "block_count": live})
				}
			}
		}
	}
}

func (o *oracle) onEnd(r *ipamkv.Runner, tid int, ctx *ipamkv.ThreadCtx, res *ipamkv.OpResult) {
	for _, a := range res.Addrs {
		if !o.recorded[tid][a] {
			o.fail("returned-unrecorded", "an address was returned to a caller without a successful compare-and-swap of that caller recording it", map[string]any{"tid": tid, "block": a[0], "ordinal": a[1]})
		}
	}
}

func (o *oracle) onQuiescent(r *ipamkv.Runner) {
	if r.Faulted || r.AnyCrashed() {
		return
	}
	w := r.Env.World()
	for hid := 1; hid <= len(r.Env.Handles); hid++ {
		bids := map[int]bool{}
		for b := range w.Handles[hid] {
			bids[b] = true
		}
		for b := range w.Blocks {
			bids[b] = true
		}
		for bid := range bids {
			live := 0
			if blk, ok := w.Blocks[bid]; ok {
				live = blk.LiveCount(hid)
			}
			if w.Handles[hid][bid] != live {
				o.fail("handle-ne-block-quiescent", "no operation in flight, no fault injected, yet a handle's count for a block differs from the block's records", map[string]any{"handle": hid, "block": bid, "handle_count": w.Handles[hid][bid], "block_count": live})
				return
			}
		}
	}
}

// ---- generator ---------------------------------------------------------------

type gen struct {
	h     *rt.H
	r     *ipamkv.Runner
	tid   int
	last  int
	fault bool
	// partial: multi-address AutoAssigns (2..5) of few hosts against small, nearly full blocks, with
	// CAS conflicts injected on a quarter of the allocating block writes (partial fill + conflict)
	partial bool
}

func (g *gen) newLine() string {
	h := g.h
	if g.partial {
		return fmt.Sprintf("new hosts=2 handles=%d pools=%s cool=0 strict=%d maxblk=0", 2+h.Intn(2),
			rt.Pick(h, []string{"10.0.0.0/29/30", "10.0.0.0/28/30", "10.0.0.0/29/31"}), h.Intn(2))
	}
	hosts := 2 + h.Intn(2)
	handles := 2 + h.Intn(3)
	var pools string
	switch h.Intn(5) {
	case 0:
		pools = "10.0.0.0/29/30" // 2 blocks of 4
	case 1:
		pools = "10.0.0.0/28/30" // 4 blocks of 4
	case 2:
		pools = "10.0.0.0/29/31" // 4 blocks of 2
	case 3:
		pools = "10.0.0.0/30/31;10.0.1.0/29/30" // 2 blocks of 2 + 2 blocks of 4
	default:
		pools = "10.0.0.0/28/29" // 2 blocks of 8
	}
	cool := rt.Pick(h, []int{0, 0, 300})
	strict := h.Intn(3) == 0
	maxblk := 0
	if strict {
		maxblk = h.Intn(3)
	}
	s := 0
	if strict {
		s = 1
	}
	return fmt.Sprintf("new hosts=%d handles=%d pools=%s cool=%d strict=%d maxblk=%d", hosts, handles, pools, cool, s, maxblk)
}

func (g *gen) beginLine() string {
	h, e := g.h, g.r.Env
	g.tid++
	w := e.World()
	host := h.Intn(len(e.Hosts))
	hid := h.Intn(len(e.Handles) + 1)
	if h.Chance(0.8) && hid == 0 {
		hid = 1 + h.Intn(len(e.Handles))
	}
	if g.r.Params["cool"] != "0" && h.Chance(0.3) {
		hid = 0 // handle-less allocations next to cooldown entries
	}
	// live addresses, for meaningful releases
	type addr struct{ b, o, h int }
	var live []addr
	bids := make([]int, 0, len(w.Blocks))
	for b := range w.Blocks {
		bids = append(bids, b)
	}
	sort.Ints(bids)
	for _, b := range bids {
		for o, s := range w.Blocks[b].Slots {
			if strings.HasPrefix(s, "L") {
				hh := 0
				fmt.Sscanf(s, "L%d", &hh)
				live = append(live, addr{b, o, hh})
			}
		}
	}
	bid := h.Intn(len(e.Blocks))
	size := func(b int) int { ones, bits := e.Blocks[b].Mask.Size(); return 1 << uint(bits-ones) }
	if g.partial && h.Chance(0.75) {
		if hid == 0 {
			hid = 1
		}
		return fmt.Sprintf("begin %d autoassign host=%d h=%d n=%d", g.tid, h.Intn(2)*h.Intn(2), hid, 2+h.Intn(4))
	}
	switch k := h.Intn(20); {
	case k < 7:
		return fmt.Sprintf("begin %d autoassign host=%d h=%d n=%d", g.tid, host, hid, 1+h.Intn(4))
	case k < 10:
		// half of the explicit assignments target an ordinal near the TAIL of an existing block's
		// Unallocated queue (a released, garbage-collected address: the queue is no longer sorted)
		if len(bids) > 0 && h.Chance(0.5) {
			b := bids[h.Intn(len(bids))]
			if u := w.Blocks[b].Unalloc; len(u) > 0 {
				o := u[len(u)-1]
				if h.Chance(0.3) {
					o = u[h.Intn(len(u))]
				}
				return fmt.Sprintf("begin %d assignip host=%d h=%d b=%d o=%d", g.tid, host, hid, b, o)
			}
		}
		return fmt.Sprintf("begin %d assignip host=%d h=%d b=%d o=%d", g.tid, host, hid, bid, h.Intn(size(bid)))
	case k < 14:
		rh := 0
		var ords []int
		if len(live) > 0 && h.Chance(0.8) {
			a := live[h.Intn(len(live))]
			bid = a.b
			ords = append(ords, a.o)
			if h.Chance(0.5) {
				rh = a.h
			} else if h.Chance(0.2) {
				rh = 1 + h.Intn(len(e.Handles)) // possibly the wrong handle
			}
			for _, x := range live {
				if x.b == bid && x.o != a.o && h.Chance(0.4) && (rh == 0 || x.h == rh || h.Chance(0.1)) {
					ords = append(ords, x.o)
				}
			}
			if h.Chance(0.2) {
				ords = append(ords, h.Intn(size(bid))) // maybe unallocated / duplicate
			}
		} else {
			ords = []int{h.Intn(size(bid))}
		}
		return fmt.Sprintf("begin %d releaseips host=%d h=%d b=%d ords=%s", g.tid, host, rh, bid, joinInts(ords))
	case k < 17:
		if len(live) > 0 && h.Chance(0.7) {
			if a := live[h.Intn(len(live))]; a.h > 0 {
				hid = a.h
			}
		}
		if hid == 0 {
			hid = 1
		}
		return fmt.Sprintf("begin %d relbyhandle host=%d h=%d", g.tid, host, hid)
	case k < 18:
		return fmt.Sprintf("begin %d claim host=%d b=%d", g.tid, host, bid)
	case k < 19:
		return fmt.Sprintf("begin %d releaseaff host=%d b=%d empty=%d", g.tid, host, bid, h.Intn(2))
	default:
		return fmt.Sprintf("begin %d relhostaff host=%d empty=%d", g.tid, host, h.Intn(2))
	}
}

func joinInts(xs []int) string {
	s := make([]string, len(xs))
	for i, x := range xs {
		s[i] = fmt.Sprint(x)
	}
	return strings.Join(s, ",")
}

func (g *gen) pickFault(verb string) string {
	if g.partial {
		return ipamkv.FNone
	}
	if !g.fault {
		return ipamkv.FNone
	}
	x := g.h.Rng.Float64()
	switch {
	case x < 0.05:
		return ipamkv.FConflict
	case x < 0.08:
		return ipamkv.FError
	case x < 0.09:
		return ipamkv.FCrashBefore
	case x < 0.10:
		return ipamkv.FCrashAfter
	}
	return ipamkv.FNone
}

// runGenerated produces and executes one case online (the set of runnable
// threads depends on the execution, so generation and execution interleave).
func (g *gen) runGenerated() {
	h, r := g.h, g.r
	g.tid, g.last = 0, -1
	g.fault = h.Intn(2) == 0
	g.partial = h.Intn(5) == 0
	r.Exec(g.newLine())
	rounds := 2 + h.Intn(4)
	if g.partial {
		rounds = 3 + h.Intn(4)
	}
	for i := 0; i < rounds; i++ {
		n := 1 + h.Intn(3)
		for j := 0; j < n; j++ {
			r.Exec(g.beginLine())
		}
		for steps := 0; steps < 600; steps++ {
			rd := r.Ready()
			if len(rd) == 0 {
				break
			}
			tid := rd[h.Intn(len(rd))]
			for _, x := range rd {
				if x == g.last && h.Chance(0.6) {
					tid = x
				}
			}
			g.last = tid
			c := r.Sc.Peek(tid)
			f := g.pickFault(c.Verb)
			if _, isBlk := c.Key.(model.BlockKey); g.partial && isBlk && c.Verb == ipamkv.VUpdate &&
				r.Ctx[tid] != nil && r.Ctx[tid].Op == "autoassign" && h.Chance(0.25) {
				f = ipamkv.FConflict
			}
			r.Exec(fmt.Sprintf("step %d %s", tid, f))
		}
		r.Exec("quiesce")
		if h.Chance(0.15) {
			r.Exec("age")
		}
	}
}

func main() {
	h := rt.New()
	defer h.Close()
	h.Rule = "case = one IPAM world (2-3 hosts, 2-4 handles, 1-2 pools of 2..4 blocks of 2..8 addresses, cooldown 0/300s, strict affinity on/off, block cap) + 2..5 rounds of 1..3 CONCURRENT client operations " +
		"{autoassign (1..4 addresses), assignip, releaseips, releasebyhandle, claim, releaseaffinity, releasehostaffinities} interleaved at every backend call by a seeded scheduler, half of the cases with injected CAS conflicts / datastore errors / crashes; one case in five is a partial-fill case: multi-address AutoAssigns (2..5) against small nearly-full blocks with a CAS conflict injected on a quarter of the allocating block writes; " +
		"distinct = distinct full op+schedule trace; non-trivial = case with >=2 threads interleaved inside one round or any injected fault"
	o := &oracle{h: h}
	mk := func() *ipamkv.Runner {
		r := ipamkv.NewRunner(h)
		o.r = r
		o.recorded = map[int]map[[2]int]bool{}
		o.assignRetry = map[[2]int]bool{}
		o.prefetchRel = map[[2]int]bool{}
		r.OnStep, r.OnEnd, r.OnQuiescent = o.onStep, o.onEnd, o.onQuiescent
		return r
	}
	if h.Replay != "" {
		h.Case("replay")
		r := mk()
		for _, l := range h.ReplayLines() {
			r.Exec(l)
		}
		if r.Env != nil {
			r.Exec("quiesce")
		}
		h.Sample()
		return
	}
	for i := 0; i < h.N; i++ {
		h.Case("gen")
		r := mk()
		g := &gen{h: h, r: r}
		g.runGenerated()
		inter := 0
		key := []string{}
		for _, st := range r.Sc.Log {
			key = append(key, fmt.Sprintf("%d%s%s%s", st.TID, st.Verb, st.Path, st.Outcome))
		}
		for i := 1; i < len(r.Sc.Log); i++ {
			if r.Sc.Log[i].TID != r.Sc.Log[i-1].TID {
				inter++
			}
		}
		if inter >= 2 || r.Faulted {
			h.Nontrivial(strings.Join(key, ";"))
		}
		h.Count(fmt.Sprintf("steps:%03d", len(r.Sc.Log)/50*50))
		h.Sample()
	}
}
