// C16 correspondence harness: drives the real felix/ipsets.IPSets over a fake `ipset`
// command (the repo's own mock lives in a _test.go file and is not importable; this is
// the minimal fake of the CmdIface shim, with the same restore/list/destroy semantics
// plus line-granular failure injection).
package main

import (
	"bytes"
	"errors"
	"fmt"
	"io"
	"sort"
	"strconv"
	"strings"
	"time"

	"github.com/projectcalico/calico/felix/ipsets"
	"github.com/projectcalico/calico/libcalico-go/lib/set"

	"verif/harness/rt"
)

// ---- fake kernel ------------------------------------------------------------

type kset struct {
	typ                 string
	maxSize, rmin, rmax int
	members             map[string]bool
	listFails, busy     bool
}

func (k *kset) clone() *kset {
	c := *k
	c.members = map[string]bool{}
	for m := range k.members {
		c.members[m] = true
	}
	return &c
}

func (k *kset) sorted() []string {
	out := make([]string, 0, len(k.members))
	for m := range k.members {
		out = append(out, m)
	}
	sort.Strings(out)
	return out
}

func (k *kset) show() string {
	return fmt.Sprintf("%s/%d/%d-%d/[%s]/%s%s", k.typ, k.maxSize, k.rmin, k.rmax, strings.Join(k.sorted(), "+"), b01(k.listFails), b01(k.busy))
}

type listFail struct {
	name string
	j    int
}

type plan struct {
	restores []string // "ok" | "s" | "<k>"
	names    []bool
	lists    []listFail
	destroys []bool
}

type wantSet struct {
	typ                 string
	maxSize, rmin, rmax int
	members             map[string]bool
}

type world struct {
	h    *rt.H
	cfg  *ipsets.IPVersionConfig
	ips  *ipsets.IPSets
	K    map[string]*kset
	prefixes []string // this instance's name prefixes (from the `new` op)
	plan plan
	// observation of the current Felix op
	trace  []string
	hintR  []string
	hintD  []string
	sleeps int
	dead   bool
	// spec-level shadow of the API calls (for the property oracles)
	added          map[string]wantSet
	filter         map[string]bool // nil = no filter
	fresh          bool            // Felix has re-read every owned set since the last out-of-band edit
	pendingFull    bool            // no successful apply yet since new/restart
	qreq           bool            // QueueResync called since the last successful apply
	delFailedSince bool
	opDesc         string
}

// Copies of felix/rules AllHistoricIPSetNamePrefixes / LegacyV4IPSetNames (what felix/dataplane/driver.go
// passes to NewIPVersionConfig); importing felix/rules costs ~2 s of process start-up per harness run.
// The start states contain sets under every one of these prefixes, so a drift shows up as a disagreement.
var (
	allHistoricIPSetNamePrefixes = []string{"felix-", "cali"}
	legacyV4IPSetNames           = []string{"felix-masq-ipam-pools", "felix-all-ipam-pools"}
)

var errExit = errors.New("exit status 1")

func b01(b bool) string {
	if b {
		return "1"
	}
	return "0"
}

func (w *world) wanted() map[string]wantSet {
	out := map[string]wantSet{}
	for n, s := range w.added {
		if w.filter == nil || w.filter[n] {
			out[n] = s
		}
	}
	return out
}

// kstep applies one restore line to the kernel; false = the line fails.
func (w *world) kstep(line string) bool {
	p := strings.Split(line, " ")
	switch p[0] {
	case "create":
		name := p[1]
		if _, ok := w.K[name]; ok {
			return false
		}
		ks := &kset{typ: p[2], members: map[string]bool{}}
		if p[2] == "bitmap:port" {
			// create X bitmap:port range a-b
			if len(p) != 5 || p[3] != "range" {
				panic("fake ipset: bad create line: " + line)
			}
			a, b, err := ipsets.ParseRange(p[4])
			if err != nil {
				panic(err)
			}
			ks.rmin, ks.rmax = a, b
		} else {
			if len(p) != 7 || p[3] != "family" || p[4] != "inet" || p[5] != "maxelem" {
				panic("fake ipset: bad create line: " + line)
			}
			n, err := strconv.Atoi(p[6])
			if err != nil {
				panic(err)
			}
			ks.maxSize = n
		}
		w.K[name] = ks
		return true
	case "add":
		if len(p) != 3 {
			panic("fake ipset: bad add line: " + line)
		}
		ks, ok := w.K[p[1]]
		if !ok || ks.members[p[2]] || !memberFits(ks.typ, p[2]) {
			return false
		}
		ks.members[p[2]] = true
		return true
	case "del":
		if len(p) != 4 || p[3] != "--exist" {
			panic("fake ipset: bad del line: " + line)
		}
		ks, ok := w.K[p[1]]
		if !ok {
			return false
		}
		delete(ks.members, p[2])
		return true
	case "swap":
		if len(p) != 3 {
			panic("fake ipset: bad swap line: " + line)
		}
		a, ok1 := w.K[p[1]]
		b, ok2 := w.K[p[2]]
		if !ok1 || !ok2 {
			return false
		}
		w.K[p[1]], w.K[p[2]] = b, a
		return true
	}
	panic("fake ipset: unknown restore line: " + line)
}

// memberKind / memberFits: a real kernel rejects an element whose syntax does not fit the set type
// (otherwise a later `ipset list` would print members that CanonicaliseMember cannot parse).
func memberKind(m string) string {
	allDigits := m != ""
	for _, c := range m {
		if c < '0' || c > '9' {
			allDigits = false
		}
	}
	switch {
	case strings.Contains(m, ",") && strings.Contains(m, "/"):
		return "hash:net,net"
	case strings.Contains(m, ","):
		return "hash:ip,port"
	case strings.Contains(m, "/"):
		return "hash:net"
	case strings.Contains(m, "."):
		return "hash:ip"
	case allDigits:
		return "bitmap:port"
	}
	return "raw"
}

func memberFits(typ, m string) bool {
	switch typ {
	case "hash:ip", "hash:ip,port", "hash:net", "bitmap:port", "hash:net,net":
		return memberKind(m) == typ
	}
	return true
}

// lineOracle evaluates the per-line parts of the property on the real code's output:
// a desired set that exists is never removed by a line, a swap brings in exactly the
// desired set, in-place edits only add desired members / delete undesired ones.
func (w *world) lineOracle(line string, before map[string]*kset) {
	want := w.wanted()
	for n := range want {
		if _, was := before[n]; was {
			if _, is := w.K[n]; !is {
				w.h.OracleFail("desired-set-removed", "a restore line removed a set that is still desired",
					map[string]any{"line": line, "set": n, "op": w.opDesc})
			}
		}
	}
	p := strings.Split(line, " ")
	switch p[0] {
	case "swap":
		if ws, ok := want[p[1]]; ok {
			ks := w.K[p[1]]
			if !sameAsWanted(ks, ws) {
				w.h.OracleFail("swap-exposes-partial", "the set swapped into a desired name is not exactly the desired set",
					map[string]any{"line": line, "visible": ks.show(), "op": w.opDesc})
			}
		}
	case "add":
		if ws, ok := want[p[1]]; ok && !ws.members[p[2]] {
			w.h.OracleFail("inplace-add-undesired", "an undesired member was added to a desired, visible set",
				map[string]any{"line": line, "op": w.opDesc})
		}
	case "del":
		if ws, ok := want[p[1]]; ok && ws.members[p[2]] {
			w.h.OracleFail("inplace-del-desired", "a desired member was deleted from a desired, visible set",
				map[string]any{"line": line, "op": w.opDesc})
		}
	}
}

func sameAsWanted(ks *kset, ws wantSet) bool {
	if ks == nil || ks.typ != ws.typ {
		return false
	}
	if ws.typ == "bitmap:port" {
		if ks.rmin != ws.rmin || ks.rmax != ws.rmax {
			return false
		}
	} else if ks.maxSize != ws.maxSize {
		return false
	}
	if len(ks.members) != len(ws.members) {
		return false
	}
	for m := range ws.members {
		if !ks.members[m] {
			return false
		}
	}
	return true
}

func (w *world) snapshot() map[string]*kset {
	out := map[string]*kset{}
	for n, k := range w.K {
		out[n] = k.clone()
	}
	return out
}

// ---- fake commands ------------------------------------------------------------

type nopCmd struct{}

func (nopCmd) StdinPipe() (ipsets.WriteCloserFlusher, error) { panic("not used") }
func (nopCmd) StdoutPipe() (io.ReadCloser, error)            { panic("not used") }
func (nopCmd) SetStdin(io.Reader)                            {}
func (nopCmd) SetStdout(io.Writer)                           {}
func (nopCmd) SetStderr(io.Writer)                           {}
func (nopCmd) Start() error                                  { panic("not used") }
func (nopCmd) Wait() error                                   { panic("not used") }
func (nopCmd) Output() ([]byte, error)                       { panic("not used") }
func (nopCmd) CombinedOutput() ([]byte, error)               { panic("not used") }

type stdinBuf struct{ bytes.Buffer }

func (*stdinBuf) Flush() error { return nil }
func (*stdinBuf) Close() error { return nil }

type restoreCmd struct {
	nopCmd
	w   *world
	rp  string
	in  stdinBuf
	err io.Writer
}

func (c *restoreCmd) StdinPipe() (ipsets.WriteCloserFlusher, error) { return &c.in, nil }
func (c *restoreCmd) SetStderr(w io.Writer)                         { c.err = w }
func (c *restoreCmd) Start() error {
	if c.rp == "s" {
		c.w.trace = append(c.w.trace, "S")
		return errExit
	}
	return nil
}

// canonLines sorts each run of consecutive add (or del) lines with the same target: the
// order inside such a run is Go map iteration order, and Felix's own state does not depend on it.
func canonLines(lines []string) []string {
	out := append([]string(nil), lines...)
	key := func(l string) string {
		p := strings.Split(l, " ")
		if (p[0] == "add" || p[0] == "del") && len(p) >= 3 {
			return p[0] + " " + p[1]
		}
		return ""
	}
	for i := 0; i < len(out); {
		k := key(out[i])
		j := i + 1
		if k != "" {
			for j < len(out) && key(out[j]) == k {
				j++
			}
			sort.Strings(out[i:j])
		}
		i = j
	}
	return out
}

func (c *restoreCmd) Wait() error {
	w := c.w
	var lines []string
	for _, l := range strings.Split(c.in.String(), "\n") {
		if l != "" {
			lines = append(lines, l)
		}
	}
	if len(lines) == 0 || lines[len(lines)-1] != "COMMIT" {
		panic("fake ipset: restore input does not end with COMMIT")
	}
	lines = canonLines(lines[:len(lines)-1])
	// hint: main-set name of each group, in the order the real code wrote them
	var groups []string
	cur := ""
	tempToMain := map[string]string{}
	for _, l := range lines {
		p := strings.Split(l, " ")
		if p[0] == "swap" {
			tempToMain[p[2]] = p[1]
		}
	}
	for _, l := range lines {
		p := strings.Split(l, " ")
		tgt := p[1]
		if p[0] == "swap" {
			tgt = p[2]
		}
		if m, ok := tempToMain[tgt]; ok {
			tgt = m
		}
		if tgt != cur {
			groups = append(groups, tgt)
			cur = tgt
		}
	}
	w.hintR = append(w.hintR, strings.Join(groups, ","))
	limit := len(lines)
	if c.rp != "ok" {
		k, err := strconv.Atoi(c.rp)
		if err != nil {
			panic("bad restore plan " + c.rp)
		}
		if k < limit {
			limit = k
		}
	}
	n := 0
	ok := true
	for _, l := range lines[:limit] {
		before := w.snapshot()
		if !w.kstep(l) {
			ok = false
			break
		}
		w.lineOracle(l, before)
		n++
	}
	success := ok && c.rp == "ok"
	shown := make([]string, len(lines))
	for i, l := range lines {
		shown[i] = strings.ReplaceAll(l, " ", "_")
	}
	res := "ok"
	if !success {
		res = fmt.Sprintf("f%d", n)
	}
	w.trace = append(w.trace, "R["+strings.Join(shown, ";")+"]"+res)
	if !success {
		if c.err != nil {
			_, _ = c.err.Write([]byte("ipset v7.11: Error in line: simulated failure"))
		}
		return errExit
	}
	return nil
}

type listCmd struct {
	nopCmd
	w      *world
	arg    string
	stderr io.Writer
	err    error
	errTxt string
}

func (c *listCmd) SetStderr(w io.Writer) { c.stderr = w }
func (c *listCmd) Start() error          { return nil }
func (c *listCmd) Wait() error {
	if c.err != nil && c.stderr != nil {
		_, _ = c.stderr.Write([]byte(c.errTxt))
	}
	return c.err
}

func (c *listCmd) StdoutPipe() (io.ReadCloser, error) {
	w := c.w
	var out bytes.Buffer
	if c.arg == "-name" {
		fail := false
		if len(w.plan.names) > 0 {
			fail = w.plan.names[0]
			w.plan.names = w.plan.names[1:]
		}
		if fail {
			w.trace = append(w.trace, "N:f")
			c.err, c.errTxt = errExit, "ipset v7.11: Kernel error received: simulated failure"
		} else {
			w.trace = append(w.trace, "N:ok")
			names := make([]string, 0, len(w.K))
			for n := range w.K {
				names = append(names, n)
			}
			sort.Strings(names)
			for _, n := range names {
				out.WriteString(n + "\n")
			}
		}
		return io.NopCloser(&out), nil
	}
	name := c.arg
	ks, ok := w.K[name]
	if !ok {
		w.trace = append(w.trace, "L:"+name+":nf")
		c.err, c.errTxt = errExit, "ipset v7.11: The set with the given name does not exist"
		return io.NopCloser(&out), nil
	}
	if ks.listFails {
		w.trace = append(w.trace, "L:"+name+":f")
		c.err, c.errTxt = errExit, "ipset v7.11: Kernel and userspace incompatible: settype "+ks.typ+" with revision 9 not supported by userspace."
		return io.NopCloser(&out), nil
	}
	j := -2
	for i, lf := range w.plan.lists {
		if lf.name == name {
			j = lf.j
			w.plan.lists = append(append([]listFail(nil), w.plan.lists[:i]...), w.plan.lists[i+1:]...)
			break
		}
	}
	if j == -1 {
		w.trace = append(w.trace, "L:"+name+":f")
		c.err, c.errTxt = errExit, "ipset v7.11: Kernel error received: simulated failure"
		return io.NopCloser(&out), nil
	}
	members := ks.sorted()
	if j >= 0 {
		if j < len(members) {
			members = members[:j]
		}
		w.trace = append(w.trace, fmt.Sprintf("L:%s:p%d", name, j))
		c.err, c.errTxt = errExit, "ipset v7.11: Kernel error received: simulated failure while listing"
	} else {
		w.trace = append(w.trace, "L:"+name+":ok")
	}
	fmt.Fprintf(&out, "Name: %s\nType: %s\nRevision: 4\n", name, ks.typ)
	if ks.typ == "bitmap:port" {
		fmt.Fprintf(&out, "Header: range %d-%d\n", ks.rmin, ks.rmax)
	} else {
		fmt.Fprintf(&out, "Header: family inet hashsize 1024 maxelem %d bucketsize 12 initval 0x4b5fb9f2\n", ks.maxSize)
	}
	fmt.Fprintf(&out, "Size in memory: 224\nReferences: %d\nNumber of entries: %d\nMembers:\n", map[bool]int{false: 0, true: 1}[ks.busy], len(members))
	for _, m := range members {
		out.WriteString(m + "\n")
	}
	return io.NopCloser(&out), nil
}

type destroyCmd struct {
	nopCmd
	w    *world
	name string
}

func (c *destroyCmd) CombinedOutput() ([]byte, error) {
	w := c.w
	fail := false
	if len(w.plan.destroys) > 0 {
		fail = w.plan.destroys[0]
		w.plan.destroys = w.plan.destroys[1:]
	}
	ks, exists := w.K[c.name]
	ok := !fail && exists && !ks.busy
	w.hintD = append(w.hintD, c.name)
	if ok {
		if _, desired := w.wanted()[c.name]; desired {
			w.h.OracleFail("destroy-desired", "ipset destroy was issued (and succeeded) for a set that is still desired",
				map[string]any{"set": c.name, "op": w.opDesc})
		}
		delete(w.K, c.name)
		w.trace = append(w.trace, "D:"+c.name+":ok")
		return nil, nil
	}
	if exists {
		w.delFailedSince = true
	}
	w.trace = append(w.trace, "D:"+c.name+":f")
	if !exists {
		return []byte("ipset v7.11: The set with the given name does not exist"), errExit
	}
	return []byte("ipset v7.11: Set cannot be destroyed: it is in use by a kernel component"), errExit
}

func (w *world) newCmd(name string, arg ...string) ipsets.CmdIface {
	if name != "ipset" {
		panic("unexpected command " + name)
	}
	switch arg[0] {
	case "restore":
		rp := "ok"
		if len(w.plan.restores) > 0 {
			rp = w.plan.restores[0]
			w.plan.restores = w.plan.restores[1:]
		}
		return &restoreCmd{w: w, rp: rp}
	case "list":
		return &listCmd{w: w, arg: arg[1]}
	case "destroy":
		return &destroyCmd{w: w, name: arg[1]}
	}
	panic("unexpected ipset sub-command " + strings.Join(arg, " "))
}

// ---- state printing -----------------------------------------------------------------

func showNames(l []string) string {
	c := append([]string(nil), l...)
	sort.Strings(c)
	return "{" + strings.Join(c, ",") + "}"
}

func showMembers(l []string) string {
	c := append([]string(nil), l...)
	sort.Strings(c)
	return "[" + strings.Join(c, "+") + "]"
}

func showMetaMap(m map[string]ipsets.VerifMeta) string {
	keys := make([]string, 0, len(m))
	for k := range m {
		keys = append(keys, k)
	}
	sort.Strings(keys)
	parts := make([]string, len(keys))
	for i, k := range keys {
		v := m[k]
		parts[i] = fmt.Sprintf("%s=%s/%d/%d-%d/%s%s", k, v.Type, v.MaxSize, v.RangeMin, v.RangeMax, b01(v.DeleteFailed), b01(v.ListFailed))
	}
	return "{" + strings.Join(parts, ";") + "}"
}

func (w *world) showState() string {
	st := w.ips.VerifState()
	var sb strings.Builder
	names := make([]string, 0, len(w.K))
	for n := range w.K {
		names = append(names, n)
	}
	sort.Strings(names)
	parts := make([]string, len(names))
	for i, n := range names {
		parts[i] = n + "=" + w.K[n].show()
	}
	sb.WriteString("K{" + strings.Join(parts, ";") + "}")
	sb.WriteString(" A" + showMetaMap(st.AllMeta))
	sb.WriteString(" D" + showMetaMap(st.Desired))
	sb.WriteString(" P" + showMetaMap(st.Dataplane))
	tn := make([]string, 0, len(st.HasTracker))
	for n := range st.HasTracker {
		tn = append(tn, n)
	}
	sort.Strings(tn)
	parts = make([]string, len(tn))
	for i, n := range tn {
		parts[i] = n + "=" + showMembers(st.MembersDesired[n]) + "|" + showMembers(st.MembersDP[n])
	}
	sb.WriteString(" M{" + strings.Join(parts, ";") + "}")
	fmt.Fprintf(&sb, " T%d Y%s Qm%s Qb%s b%s f%s X", st.NextTemp, showNames(st.Dirty), showNames(st.QMust), showNames(st.QBg), b01(st.BgReq), b01(st.FullReq))
	if st.FilterNil {
		sb.WriteString("nil")
	} else {
		sb.WriteString(showNames(st.Filter))
	}
	fmt.Fprintf(&sb, " S%d", w.sleeps)
	return sb.String()
}

func canonTrace(tr []string) string {
	var out, run []string
	flush := func() {
		sort.Strings(run)
		out = append(out, run...)
		run = nil
	}
	for _, x := range tr {
		if strings.HasPrefix(x, "L:") {
			run = append(run, x)
		} else {
			flush()
			out = append(out, x)
		}
	}
	flush()
	return strings.Join(out, " ")
}

// ---- exec ----------------------------------------------------------------------------

func splitList(sep, s string) []string {
	if s == "-" || s == "" {
		return nil
	}
	var out []string
	for _, x := range strings.Split(s, sep) {
		if x != "" {
			out = append(out, x)
		}
	}
	return out
}

func kv(pfx string, ws []string) string {
	for _, w := range ws {
		if strings.HasPrefix(w, pfx) {
			return w[len(pfx):]
		}
	}
	return ""
}

func parsePlan(ws []string) plan {
	var p plan
	p.restores = splitList(",", kv("r=", ws))
	for _, x := range splitList(",", kv("n=", ws)) {
		p.names = append(p.names, x == "1")
	}
	for _, x := range splitList(",", kv("l=", ws)) {
		i := strings.LastIndex(x, "@")
		j, err := strconv.Atoi(x[i+1:])
		if err != nil {
			panic(err)
		}
		p.lists = append(p.lists, listFail{x[:i], j})
	}
	for _, x := range splitList(",", kv("d=", ws)) {
		p.destroys = append(p.destroys, x == "1")
	}
	return p
}

func atoi(s string) int {
	n, err := strconv.Atoi(s)
	if err != nil {
		panic(err)
	}
	return n
}

func (w *world) newFelix() {
	w.ips = ipsets.NewIPSetsVerif(w.cfg, w.newCmd,
		func(time.Duration) { w.sleeps++ },
		func() time.Time { return time.Unix(1700000000, 0) }) // the clock does not advance: background budget never runs out
	w.added = map[string]wantSet{}
	w.filter = nil
	w.fresh = false
	w.pendingFull = true
	w.qreq = false
	w.delFailedSince = false
	w.sleeps = 0
}

// owned: the property's own statement of ownership (NOT the code's regexp): the name STARTS with one of this
// instance's prefixes (the versioned current and historic prefixes, and the legacy set names).
func (w *world) owned(name string) bool {
	for _, p := range w.prefixes {
		if strings.HasPrefix(name, p) {
			return true
		}
	}
	return false
}

// checkOwns ties the real IPVersionConfig.OwnsIPSet to "prefix-of" on every set name in the kernel.
func (w *world) checkOwns() {
	for n := range w.K {
		if w.cfg.OwnsIPSet(n) != w.owned(n) {
			w.h.OracleFail("owns-not-prefix-of", "OwnsIPSet disagrees with 'the name starts with one of the instance's prefixes'",
				map[string]any{"set": n, "OwnsIPSet": w.cfg.OwnsIPSet(n), "prefixes": w.prefixes, "op": w.opDesc})
		}
		w.h.Count("owns-checked")
	}
}

func (w *world) foreign() map[string]string {
	out := map[string]string{}
	for n, k := range w.K {
		if !w.owned(n) {
			out[n] = k.show()
		}
	}
	return out
}

func (w *world) checkForeign(before map[string]string) {
	w.checkOwns()
	after := w.foreign()
	for n, s := range before {
		if after[n] != s {
			w.h.OracleFail("foreign-set-changed", "a set that Felix does not own was modified or removed",
				map[string]any{"set": n, "before": s, "after": after[n], "op": w.opDesc})
		}
	}
	for n := range after {
		if _, ok := before[n]; !ok {
			w.h.OracleFail("foreign-set-created", "Felix created a set outside its own name space", map[string]any{"set": n, "op": w.opDesc})
		}
	}
}

// checkViewOwned: the hypothesis of the foreign-untouched theorems, evaluated on the real code:
// every name Felix wants or believes to be in the dataplane is a name it owns.
func (w *world) checkViewOwned() {
	st := w.ips.VerifState()
	for n := range st.Desired {
		if !w.owned(n) {
			w.h.OracleFail("desired-name-not-owned", "a desired IP set name is outside Felix's name space", map[string]any{"set": n, "op": w.opDesc})
		}
	}
	for n := range st.Dataplane {
		if !w.owned(n) {
			w.h.OracleFail("view-name-not-owned", "Felix's dataplane view contains a set name it does not own", map[string]any{"set": n, "op": w.opDesc})
		}
	}
}

func memberSet(l []string) map[string]bool {
	m := map[string]bool{}
	for _, x := range l {
		m[x] = true
	}
	return m
}

// exec runs one op on the REAL code. Returns the canonical output and the op line
// (apply ops get their order hints appended after `~`).
func exec(w *world, op string) (string, string) {
	if i := strings.Index(op, " ~"); i >= 0 {
		op = op[:i]
	}
	ws := strings.Fields(op)
	w.opDesc = op
	if ws[0] == "new" {
		// new <prefixes> <main> <temp>: the prefix lists are those of felix/dataplane/driver.go
		if strings.Contains(ws[2], "6") {
			w.cfg = ipsets.NewIPVersionConfig(ipsets.IPFamilyV6, ipsets.IPSetNamePrefix, allHistoricIPSetNamePrefixes, nil)
		} else {
			w.cfg = ipsets.NewIPVersionConfig(ipsets.IPFamilyV4, ipsets.IPSetNamePrefix, allHistoricIPSetNamePrefixes, legacyV4IPSetNames)
		}
		w.prefixes = strings.Split(ws[1], ",")
		w.K = map[string]*kset{}
		w.dead = false
		w.newFelix()
		return "ok", op
	}
	if w.dead {
		return "dead", op
	}
	guard := func(f func()) (panicked bool) {
		defer func() {
			if r := recover(); r != nil {
				panicked = true
			}
		}()
		f()
		return false
	}
	switch ws[0] {
	case "kset":
		w.K[ws[1]] = &kset{typ: ws[2], maxSize: atoi(ws[3]), rmin: atoi(ws[4]), rmax: atoi(ws[5]),
			members: memberSet(splitList("+", ws[6])), listFails: ws[7] == "1", busy: ws[8] == "1"}
		if w.owned(ws[1]) {
			w.fresh = false
		}
		return "ok", op
	case "kdel":
		delete(w.K, ws[1])
		if w.owned(ws[1]) {
			w.fresh = false
		}
		return "ok", op
	case "kdrop":
		// out-of-band removal of the k-th (sorted) member
		if k, ok := w.K[ws[1]]; ok && len(k.members) > 0 {
			ms := k.sorted()
			delete(k.members, ms[atoi(ws[2])%len(ms)])
			if w.owned(ws[1]) {
				w.fresh = false
			}
		}
		return "ok", op
	case "add":
		md := ipsets.IPSetMetadata{SetID: ws[1], Type: ipsets.IPSetType(ws[2]), MaxSize: atoi(ws[3]), RangeMin: atoi(ws[4]), RangeMax: atoi(ws[5])}
		ms := splitList("+", ws[6])
		w.ips.AddOrReplaceIPSet(md, ms)
		w.added[w.cfg.NameForMainIPSet(ws[1])] = wantSet{ws[2], md.MaxSize, md.RangeMin, md.RangeMax, memberSet(ms)}
		return "ok", op
	case "rm":
		if guard(func() { w.ips.RemoveIPSet(ws[1]) }) {
			w.dead = true
			return "panic", op
		}
		delete(w.added, w.cfg.NameForMainIPSet(ws[1]))
		return "ok", op
	case "addm", "delm":
		ms := splitList("+", ws[2])
		if guard(func() {
			if ws[0] == "addm" {
				w.ips.AddMembers(ws[1], ms)
			} else {
				w.ips.RemoveMembers(ws[1], ms)
			}
		}) {
			w.dead = true
			return "panic", op
		}
		if s, ok := w.added[w.cfg.NameForMainIPSet(ws[1])]; ok {
			for _, m := range ms {
				if ws[0] == "addm" {
					s.members[m] = true
				} else {
					delete(s.members, m)
				}
			}
		}
		return "ok", op
	case "filter":
		if ws[1] == "nil" {
			w.ips.SetFilter(nil)
			w.filter = nil
		} else {
			names := splitList(",", ws[1])
			w.ips.SetFilter(set.FromArray(names))
			w.filter = memberSet(names)
		}
		return "ok", op
	case "qresync":
		w.ips.QueueResync()
		w.qreq = true
		return "ok", op
	case "restart":
		w.newFelix()
		return "ok", op
	case "state":
		return w.showState(), op
	case "apply":
		w.plan = parsePlan(ws[1:])
		w.trace, w.hintR, w.hintD = nil, nil, nil
		foreign := w.foreign()
		panicked := guard(func() { w.ips.ApplyUpdates(nil) })
		hinted := op + " ~ hr=" + strings.Join(w.hintR, "|") + " hd=" + strings.Join(w.hintD, ",")
		w.checkForeign(foreign)
		if panicked {
			w.dead = true
			return "panic", hinted
		}
		w.checkViewOwned()
		if w.pendingFull || w.qreq {
			w.fresh = true
			w.delFailedSince = false
		}
		w.pendingFull, w.qreq = false, false
		if w.fresh {
			for n, ws := range w.wanted() {
				if !sameAsWanted(w.K[n], ws) {
					vis := "<absent>"
					if k, ok := w.K[n]; ok {
						vis = k.show()
					}
					w.h.OracleFail("not-converged", "after a successful ApplyUpdates a desired set is not exactly as desired",
						map[string]any{"set": n, "kernel": vis, "op": op})
				}
			}
		}
		return "ok T=" + canonTrace(w.trace) + " " + w.showState(), hinted
	case "applydel":
		w.plan = parsePlan(ws[1:])
		w.trace, w.hintR, w.hintD = nil, nil, nil
		foreign := w.foreign()
		var resched bool
		panicked := guard(func() { resched = w.ips.ApplyDeletions() })
		hinted := op + " ~ hd=" + strings.Join(w.hintD, ",")
		w.checkForeign(foreign)
		if panicked {
			w.dead = true
			return "panic", hinted
		}
		w.checkViewOwned()
		if w.fresh && !resched && !w.delFailedSince {
			want := w.wanted()
			for n := range w.K {
				if _, ok := want[n]; !ok && w.owned(n) {
					w.h.OracleFail("stale-owned-set-remains", "ApplyDeletions reports nothing left to do but an undesired Felix-owned set remains",
						map[string]any{"set": n, "op": op})
				}
			}
		}
		return b01(resched) + " T=" + canonTrace(w.trace) + " " + w.showState(), hinted
	}
	panic("unknown op " + op)
}

// ---- generator -----------------------------------------------------------------------

var types = []string{"hash:ip", "hash:net", "hash:ip,port", "bitmap:port", "hash:net,net"}

func memberPool(typ string) []string {
	out := make([]string, 8)
	for i := range out {
		switch typ {
		case "hash:ip":
			out[i] = fmt.Sprintf("10.0.0.%d", i+1)
		case "hash:net":
			out[i] = fmt.Sprintf("10.%d.0.0/16", i+1)
		case "hash:ip,port":
			out[i] = fmt.Sprintf("10.0.0.%d,tcp:%d", i+1, 80+i)
		case "bitmap:port":
			out[i] = fmt.Sprintf("%d", 1000+i)
		case "hash:net,net":
			out[i] = fmt.Sprintf("10.%d.0.0/16,10.0.%d.0/24", i+1, i+1)
		default:
			out[i] = fmt.Sprintf("raw%d", i)
		}
	}
	return out
}

func genMembers(h *rt.H, typ string) string {
	pool := memberPool(typ)
	var ms []string
	switch h.Intn(6) {
	case 0: // empty
	case 1:
		ms = pool
	default:
		for _, m := range pool {
			if h.Intn(3) == 0 {
				ms = append(ms, m)
			}
		}
	}
	if len(ms) == 0 {
		return "-"
	}
	// duplicates in the input are legal
	if h.Intn(8) == 0 {
		ms = append(ms, ms[0])
	}
	return strings.Join(ms, "+")
}

type gen struct {
	h      *rt.H
	ids    []string
	idType map[string]string // type last used for a main set name
	live   map[string]bool
	knames []string
}

func (g *gen) metaArgs(typ string) string {
	h := g.h
	if typ == "bitmap:port" {
		return fmt.Sprintf("0 %d %d", rt.Pick(h, []int{0, 1000}), rt.Pick(h, []int{65535, 2000}))
	}
	return fmt.Sprintf("%d 0 0", rt.Pick(h, []int{1048576, 1048576, 65536, 100}))
}

func (g *gen) planStr(nRestore int) string {
	h := g.h
	var parts []string
	if h.Intn(3) == 0 {
		var rs []string
		for i := 0; i < 1+h.Intn(3); i++ {
			switch h.Intn(6) {
			case 0:
				rs = append(rs, "ok")
			case 1:
				rs = append(rs, "s")
			default:
				rs = append(rs, strconv.Itoa(h.Intn(nRestore+2)))
			}
		}
		if h.Intn(12) == 0 { // persistent failure: exhausts the retries
			for len(rs) < 10 {
				rs = append(rs, strconv.Itoa(h.Intn(3)))
			}
		}
		parts = append(parts, "r="+strings.Join(rs, ","))
	}
	if h.Intn(6) == 0 {
		var ns []string
		for i := 0; i < 1+h.Intn(6); i++ {
			ns = append(ns, b01(h.Intn(3) != 0))
		}
		parts = append(parts, "n="+strings.Join(ns, ","))
	}
	if h.Intn(4) == 0 && len(g.knames) > 0 {
		var ls []string
		for i := 0; i < 1+h.Intn(3); i++ {
			ls = append(ls, fmt.Sprintf("%s@%d", rt.Pick(h, g.knames), h.Intn(5)-1))
		}
		parts = append(parts, "l="+strings.Join(ls, ","))
	}
	if h.Intn(5) == 0 {
		var ds []string
		for i := 0; i < 1+h.Intn(3); i++ {
			ds = append(ds, b01(h.Intn(2) == 0))
		}
		parts = append(parts, "d="+strings.Join(ds, ","))
	}
	return strings.Join(parts, " ")
}

func (g *gen) ksetOp(name string) string {
	h := g.h
	typ := rt.Pick(h, append(append([]string(nil), types...), "unknown:type", "hash:ip", "hash:ip"))
	if t, ok := g.idType[name]; ok && h.Intn(3) != 0 {
		typ = t
	}
	meta := g.metaArgs(typ)
	g.knames = append(g.knames, name)
	return fmt.Sprintf("kset %s %s %s %s %s %s", name, typ, meta, genMembers(h, typ), b01(h.Intn(12) == 0), b01(h.Intn(10) == 0))
}

var genVer = "4" // IP version of the instance the current case drives

func mainName(id string) string {
	n := "cali" + genVer + "0" + id
	if len(n) > 31 {
		n = n[:31]
	}
	return n
}

func genCase(h *rt.H) []string {
	g := &gen{h: h, idType: map[string]string{}, live: map[string]bool{}}
	g.ids = []string{"a", "b", "c", "s:Zq-_x", "longlonglonglonglonglong-1", "longlonglonglonglonglong-2"}
	// only the IPv4 instance is driven: member syntax (and so the fake kernel and the model) is IPv4-specific; the
	// ownership regexp is built by the same code for both families, and the other family's names are foreign here
	genVer = "4"
	v, o := genVer, "6"
	if v == "6" {
		o = "4"
	}
	prefixes := []string{ipsets.IPSetNamePrefix + v}
	for _, p := range allHistoricIPSetNamePrefixes {
		prefixes = append(prefixes, p+v)
	}
	if v == "4" {
		prefixes = append(prefixes, legacyV4IPSetNames...)
	}
	ops := []string{fmt.Sprintf("new %s %s%s%s %s%s%s", strings.Join(prefixes, ","), ipsets.IPSetNamePrefix, v, "0", ipsets.IPSetNamePrefix, v, "t")}
	kernelNames := []string{"cali" + v + "0a", "cali" + v + "0b", "cali" + v + "0c", "cali" + v + "0old", "cali" + v + "0s:Zq-_x", "cali" + v + "t0", "cali" + v + "t1", "cali" + v + "t3", "cali" + v + "x",
		"felix-" + v + "abc", "felix-masq-ipam-pools", "felix-all-ipam-pools", "cali" + o + "abc", "cali" + o + "0a", "calico", "foo", "KUBE-CLUSTER-IP", "felix-" + o + "x", "felix-other",
		// other software's sets whose names merely CONTAIN one of the instance's prefixes, a legacy name or a temp-set name
		"backup-cali" + v + "0s:web", "k8s-felix-" + v + "-allow", "fw_cali" + v + "t0", "my-cali" + v + "0a", "x-felix-masq-ipam-pools", "old.felix-all-ipam-pools"}
	// start state
	for i := 0; i < h.Intn(7); i++ {
		ops = append(ops, g.ksetOp(rt.Pick(h, kernelNames)))
	}
	n := 6 + h.Intn(24)
	for i := 0; i < n; i++ {
		switch k := h.Intn(24); {
		case k < 6:
			id := rt.Pick(h, g.ids)
			typ, ok := g.idType[mainName(id)]
			if !ok || h.Intn(10) == 0 {
				typ = rt.Pick(h, types)
			}
			g.idType[mainName(id)] = typ
			g.live[id] = true
			meta := g.metaArgs(typ)
			ops = append(ops, fmt.Sprintf("add %s %s %s %s", id, typ, meta, genMembers(h, typ)))
		case k < 8:
			id := rt.Pick(h, g.ids)
			if !g.live[id] && h.Intn(6) != 0 {
				continue
			}
			delete(g.live, id)
			ops = append(ops, "rm "+id)
		case k < 11:
			id := rt.Pick(h, g.ids)
			if !g.live[id] {
				continue
			}
			m := genMembers(h, g.idType[mainName(id)])
			ops = append(ops, rt.Pick(h, []string{"addm", "delm"})+" "+id+" "+m)
		case k < 16:
			ops = append(ops, strings.TrimSpace("apply "+g.planStr(6)))
			if h.Intn(2) == 0 {
				ops = append(ops, strings.TrimSpace("applydel "+func() string {
					if h.Intn(4) == 0 {
						return "d=" + b01(h.Bool()) + "," + b01(h.Bool())
					}
					return ""
				}()))
			}
		case k < 18:
			ops = append(ops, "applydel")
		case k < 19:
			ops = append(ops, "qresync")
		case k < 20:
			ops = append(ops, "restart")
			g.live = map[string]bool{}
		case k < 21:
			if h.Intn(3) == 0 {
				ops = append(ops, "filter nil")
			} else {
				var ns []string
				for _, id := range g.ids {
					if h.Intn(2) == 0 {
						ns = append(ns, "cali"+genVer+"0"+id)
					}
				}
				if len(ns) == 0 {
					ops = append(ops, "filter -")
				} else {
					ops = append(ops, "filter "+strings.Join(ns, ","))
				}
			}
		case k < 23:
			switch h.Intn(3) {
			case 0:
				ops = append(ops, g.ksetOp(rt.Pick(h, kernelNames)))
			case 1:
				ops = append(ops, "kdel "+rt.Pick(h, kernelNames))
			default:
				ops = append(ops, fmt.Sprintf("kdrop %s %d", rt.Pick(h, kernelNames), h.Intn(8)))
			}
		default:
			ops = append(ops, "state")
		}
	}
	// settle: resync, apply, and drain the deletions
	ops = append(ops, "qresync", "apply", "applydel", "applydel", "applydel", "state")
	return ops
}

func main() {
	h := rt.New()
	defer h.Close()
	h.Rule = "case = start kernel state (foreign sets, stale/legacy/temp Felix sets, unknown types, unlistable or busy sets) + 6..29 ops over " +
		"{add, rm, addm, delm, filter, qresync, restart, out-of-band kset/kdel/kdrop, apply with failure plan (restore fails after k lines / at start, " +
		"list -name fails, list <set> fails with/without partial output, destroy fails), applydel} + a settling tail; " +
		"non-trivial = the case contains an apply in which a restore failed part-way or a listing failed, or a temp-set swap"
	w := &world{h: h}
	run := func(ops []string, tag string) {
		h.Case(tag)
		nontriv := false
		var shown []string
		for _, op := range ops {
			out, hinted := exec(w, op)
			h.Op(hinted, out)
			k := strings.Fields(op)[0]
			h.Count("op:" + k)
			shown = append(shown, op)
			if k == "apply" || k == "applydel" {
				if out == "panic" {
					h.Count("apply:panic")
				}
				for _, t := range w.trace {
					switch {
					case strings.HasPrefix(t, "R[") && !strings.HasSuffix(t, "]ok"):
						h.Count("restore:failed")
						nontriv = true
					case strings.HasPrefix(t, "R["):
						h.Count("restore:ok")
						if strings.Contains(t, "swap_") {
							h.Count("restore:swap")
							nontriv = true
						}
					case t == "S":
						h.Count("restore:startfail")
					case t == "N:f":
						h.Count("listnames:failed")
						nontriv = true
					case strings.HasPrefix(t, "L:"):
						h.Count("list:" + t[strings.LastIndex(t, ":")+1:][:1])
						if !strings.HasSuffix(t, ":ok") && !strings.HasSuffix(t, ":nf") {
							nontriv = true
						}
					case strings.HasPrefix(t, "D:"):
						h.Count("destroy:" + t[strings.LastIndex(t, ":")+1:])
					}
				}
			}
		}
		if nontriv {
			h.Nontrivial(strings.Join(shown, ";"))
		}
		h.Sample()
	}
	if h.Replay != "" {
		run(h.ReplayLines(), "replay")
		return
	}
	for i := 0; i < h.N; i++ {
		run(genCase(h), "gen")
	}
}
